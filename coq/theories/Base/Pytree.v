(* Pytrees: containers of leaves, as JAX sees them (lists, tuples, dicts with sorted keys,
   Stokes dataclasses).  Definitions and the structural lemmas used everywhere. *)
From Coq Require Import List Bool Arith String Lia.
Import ListNotations.
Set Implicit Arguments.

Inductive ckind :=
| KList | KTuple
| KDict (keys : list string)     (* keys in sorted order, as jax.tree flattens dicts *)
| KStokes (n : nat)              (* 1: I, 2: QU, 3: IQU, 4: IQUV *)
| KOther (name : string).

Definition ckind_eqb (a b : ckind) : bool :=
  match a, b with
  | KList, KList | KTuple, KTuple => true
  | KDict k1, KDict k2 => if list_eq_dec string_dec k1 k2 then true else false
  | KStokes n, KStokes m => Nat.eqb n m
  | KOther s, KOther t => String.eqb s t
  | _, _ => false
  end.

Lemma ckind_eqb_eq a b : ckind_eqb a b = true -> a = b.
Proof.
  destruct a, b; cbn; try discriminate; try reflexivity.
  - destruct (list_eq_dec string_dec keys keys0); [now subst|discriminate].
  - intros H; apply Nat.eqb_eq in H; now subst.
  - intros H; apply String.eqb_eq in H; now subst.
Qed.
Lemma ckind_eqb_refl a : ckind_eqb a a = true.
Proof.
  destruct a; cbn; auto.
  - destruct (list_eq_dec string_dec keys keys); [reflexivity|congruence].
  - apply Nat.eqb_refl.
  - apply String.eqb_refl.
Qed.

Inductive pt (A : Type) := Leaf (a : A) | Node (k : ckind) (cs : list (pt A)).
Arguments Leaf {A}. Arguments Node {A}.

Section PtInd.
  Variable A : Type. Variable P : pt A -> Prop.
  Hypothesis HL : forall a, P (Leaf a).
  Hypothesis HN : forall k cs, Forall P cs -> P (Node k cs).
  Fixpoint pt_ind' (t : pt A) : P t :=
    match t with
    | Leaf a => HL a
    | Node k cs => HN k ((fix go (l : list (pt A)) : Forall P l :=
         match l with [] => Forall_nil _ | x :: xs => Forall_cons _ (pt_ind' x) (go xs) end) cs)
    end.
End PtInd.

Fixpoint flatten {A} (t : pt A) : list A :=
  match t with Leaf a => [a] | Node _ cs => flat_map flatten cs end.
Fixpoint pmap {A B} (f : A -> B) (t : pt A) : pt B :=
  match t with Leaf a => Leaf (f a) | Node k cs => Node k (map (pmap f) cs) end.

(* equality of trees given equality of leaves *)
Fixpoint pt_eqb {A} (eqb : A -> A -> bool) (s t : pt A) : bool :=
  match s, t with
  | Leaf a, Leaf b => eqb a b
  | Node k cs, Node k' cs' =>
      ckind_eqb k k' &&
      (fix go (l l' : list (pt A)) : bool :=
         match l, l' with
         | [], [] => true
         | x :: xs, y :: ys => pt_eqb eqb x y && go xs ys
         | _, _ => false
         end) cs cs'
  | _, _ => false
  end.

Lemma pt_eqb_eq A (eqb : A -> A -> bool) :
  (forall a b, eqb a b = true -> a = b) -> forall s t, pt_eqb eqb s t = true -> s = t.
Proof.
  intros He s. induction s as [a|k cs IH] using pt_ind'; intros [b|k' cs']; cbn; try discriminate.
  - intros H; f_equal; auto.
  - intros H. apply andb_true_iff in H as [Hk Hl]. apply ckind_eqb_eq in Hk; subst k'. f_equal.
    revert cs' Hl. induction IH as [|x xs Hx _ IHl]; intros [|y ys] Hl; try discriminate; auto.
    apply andb_true_iff in Hl as [H1 H2]. f_equal; auto.
Qed.

Lemma pt_eqb_refl A (eqb : A -> A -> bool) :
  (forall a, eqb a a = true) -> forall s, pt_eqb eqb s s = true.
Proof.
  intros He s. induction s as [a|k cs IH] using pt_ind'; cbn; auto.
  rewrite ckind_eqb_refl; cbn. induction IH as [|x xs Hx _ IHl]; auto. now rewrite Hx, IHl.
Qed.

Lemma flatten_pmap A B (f : A -> B) t : flatten (pmap f t) = map f (flatten t).
Proof.
  induction t as [a|k cs IH] using pt_ind'; cbn; auto.
  induction IH as [|x xs Hx _ IHl]; cbn; auto. rewrite map_app. congruence.
Qed.

(* The shape of a container: a tree of units. *)
Definition treedef := pt unit.
Definition shape_of {A} (t : pt A) : treedef := pmap (fun _ => tt) t.
Definition nleaves (td : treedef) : nat := List.length (flatten td).

(* jax.tree.flatten_up_to: the subtrees of x standing at the leaves of the prefix td
   (None when x does not have td as a prefix). *)
Section SplitBuild.
  Variable A : Type.
  Definition split_list (sp : treedef -> pt A -> option (list (pt A))) :=
    fix go (cs : list treedef) (xs : list (pt A)) : option (list (pt A)) :=
      match cs, xs with
      | [], [] => Some []
      | c :: cs', x :: xs' =>
          match sp c x, go cs' xs' with
          | Some a, Some b => Some (a ++ b)
          | _, _ => None
          end
      | _, _ => None
      end.
  Fixpoint split_prefix (td : treedef) (x : pt A) : option (list (pt A)) :=
    match td with
    | Leaf _ => Some [x]
    | Node k cs =>
        match x with
        | Node k' xs => if ckind_eqb k k' then split_list split_prefix cs xs else None
        | Leaf _ => None
        end
    end.

  (* rebuild a tree with the subtrees ys at the leaves of td; also returns the unused rest *)
  Definition build_list (bd : treedef -> list (pt A) -> pt A * list (pt A)) :=
    fix go (cs : list treedef) (ys : list (pt A)) : list (pt A) * list (pt A) :=
      match cs with
      | [] => ([], ys)
      | c :: cs0 =>
          let '(t, r1) := bd c ys in
          let '(ts, r2) := go cs0 r1 in (t :: ts, r2)
      end.
  Variable dflt : pt A.
  Fixpoint build_aux (td : treedef) (ys : list (pt A)) : pt A * list (pt A) :=
    match td with
    | Leaf _ => match ys with y :: r => (y, r) | [] => (dflt, []) end
    | Node k cs => let '(cs', r) := build_list build_aux cs ys in (Node k cs', r)
    end.
  Definition build (td : treedef) (ys : list (pt A)) : pt A := fst (build_aux td ys).

  Lemma split_build_aux : forall td x xs rest,
    split_prefix td x = Some xs -> build_aux td (xs ++ rest) = (x, rest).
  Proof.
    induction td as [u|k cs IH] using pt_ind'; intros x xs rest H.
    - cbn in H. inversion H; subst. reflexivity.
    - cbn [split_prefix] in H. destruct x as [a|k' xs0]; [discriminate|].
      destruct (ckind_eqb k k') eqn:Ek; [|discriminate]. apply ckind_eqb_eq in Ek; subst k'.
      cbn [build_aux].
      assert (Hl : build_list build_aux cs (xs ++ rest) = (xs0, rest)).
      { revert xs0 xs rest H. induction IH as [|c cs' Hc _ IHl]; intros xs0 xs rest H.
        - destruct xs0; [|discriminate]. cbn in H. inversion H; subst. reflexivity.
        - destruct xs0 as [|x0 xs1]; [discriminate|]. cbn [split_list] in H.
          destruct (split_prefix c x0) as [a|] eqn:Ea; [|discriminate].
          destruct (split_list split_prefix cs' xs1) as [b|] eqn:Eb; [|discriminate].
          inversion H; subst xs. cbn [build_list]. rewrite <- app_assoc.
          rewrite (Hc _ _ _ Ea). rewrite (IHl _ _ _ Eb). reflexivity. }
      now rewrite Hl.
  Qed.

  Lemma build_split : forall td x xs, split_prefix td x = Some xs -> build td xs = x.
  Proof. intros td x xs H. unfold build. rewrite <- (app_nil_r xs). now rewrite (split_build_aux _ _ [] H). Qed.

  Lemma split_length : forall td x xs, split_prefix td x = Some xs -> List.length xs = nleaves td.
  Proof.
    unfold nleaves. induction td as [u|k cs IH] using pt_ind'; intros x xs H.
    - cbn in H. inversion H; reflexivity.
    - cbn [split_prefix] in H. destruct x as [a|k' xs0]; [discriminate|].
      destruct (ckind_eqb k k'); [|discriminate]. cbn [flatten].
      revert xs0 xs H. induction IH as [|c cs' Hc _ IHl]; intros xs0 xs H.
      + destruct xs0; [|discriminate]. cbn in H. inversion H; reflexivity.
      + destruct xs0 as [|x0 xs1]; [discriminate|]. cbn [split_list] in H.
        destruct (split_prefix c x0) as [a|] eqn:Ea; [|discriminate].
        destruct (split_list split_prefix cs' xs1) as [b|] eqn:Eb; [|discriminate].
        inversion H; subst xs. cbn [flat_map]. rewrite !app_length.
        rewrite (Hc _ _ Ea), (IHl _ _ Eb). reflexivity.
  Qed.

  Lemma build_aux_split : forall td ys rest,
    List.length ys = nleaves td ->
    split_prefix td (fst (build_aux td (ys ++ rest))) = Some ys /\ snd (build_aux td (ys ++ rest)) = rest.
  Proof.
    unfold nleaves. induction td as [u|k cs IH] using pt_ind'; intros ys rest H.
    - cbn in H. destruct ys as [|y [|? ?]]; try discriminate. cbn. auto.
    - cbn [build_aux]. cbn [flatten] in H.
      assert (Hl : forall ys rest, List.length ys = List.length (flat_map flatten cs) ->
                split_list split_prefix cs (fst (build_list build_aux cs (ys ++ rest))) = Some ys /\
                snd (build_list build_aux cs (ys ++ rest)) = rest).
      { clear ys rest H. induction IH as [|c cs' Hc _ IHl]; intros ys rest H.
        - cbn in H. destruct ys; [|discriminate]. cbn. auto.
        - cbn [flat_map] in H. rewrite app_length in H.
          set (n := List.length (flatten c)) in *.
          assert (Hys : ys = firstn n ys ++ skipn n ys) by (symmetry; apply firstn_skipn).
          assert (H1 : List.length (firstn n ys) = n) by (rewrite firstn_length; lia).
          assert (H2 : List.length (skipn n ys) = List.length (flat_map flatten cs')) by (rewrite skipn_length; lia).
          rewrite Hys, <- app_assoc. cbn [build_list].
          destruct (Hc (firstn n ys) (skipn n ys ++ rest) H1) as [Ha Hb].
          destruct (build_aux c (firstn n ys ++ skipn n ys ++ rest)) as [t r1]. cbn [fst snd] in Ha, Hb. subst r1.
          destruct (IHl (skipn n ys) rest H2) as [Hc1 Hc2].
          destruct (build_list build_aux cs' (skipn n ys ++ rest)) as [ts r2]. cbn [fst snd] in *.
          cbn [split_list]. rewrite Ha, Hc1. auto. }
      destruct (Hl ys rest H) as [H1 H2].
      destruct (build_list build_aux cs (ys ++ rest)) as [cs' r]. cbn [fst snd] in *.
      cbn [split_prefix]. rewrite ckind_eqb_refl. auto.
  Qed.

  Lemma split_build : forall td ys, List.length ys = nleaves td -> split_prefix td (build td ys) = Some ys.
  Proof. intros td ys H. unfold build. destruct (build_aux_split td ys [] H) as [H1 _].
    rewrite app_nil_r in H1. exact H1. Qed.

End SplitBuild.
Arguments build {A} dflt td ys.

(* with enough subtrees the default is never used *)
Lemma build_aux_dflt_irrelevant A (d d' : pt A) : forall td ys,
  nleaves td <= List.length ys ->
  build_aux d' td ys = build_aux d td ys /\
  List.length (snd (build_aux d td ys)) = List.length ys - nleaves td.
Proof.
  unfold nleaves. induction td as [u|k cs IH] using pt_ind'; intros ys H.
  - cbn in H. destruct ys; [cbn in H; lia|]. cbn. split; [reflexivity|lia].
  - cbn [flatten] in H. cbn [build_aux flatten].
    assert (Hl : forall ys, List.length (flat_map flatten cs) <= List.length ys ->
              build_list (build_aux d') cs ys = build_list (build_aux d) cs ys /\
              List.length (snd (build_list (build_aux d) cs ys)) = List.length ys - List.length (flat_map flatten cs)).
    { clear ys H. induction IH as [|c cs' Hc _ IHl]; intros ys H.
      - cbn. split; [reflexivity|lia].
      - cbn [flat_map] in H. rewrite app_length in H. cbn [build_list flat_map]. rewrite app_length.
        destruct (Hc ys ltac:(lia)) as [H1 H2]. rewrite H1.
        destruct (build_aux d c ys) as [t r1]. cbn [snd] in H2.
        destruct (IHl r1 ltac:(lia)) as [H3 H4]. rewrite H3.
        destruct (build_list (build_aux d) cs' r1) as [ts r2]. cbn [snd] in *. split; [reflexivity|lia]. }
    destruct (Hl ys H) as [H1 H2]. rewrite H1.
    destruct (build_list (build_aux d) cs ys) as [cs' r]. cbn [snd] in *. auto.
Qed.
Lemma build_dflt_irrelevant A (d d' : pt A) td ys :
  nleaves td <= List.length ys -> build d' td ys = build d td ys.
Proof. intros H. unfold build. now destruct (build_aux_dflt_irrelevant d d' td ys H) as [-> _]. Qed.

(* mapping over the leaves commutes with splitting and rebuilding *)
Lemma split_prefix_pmap A B (f : A -> B) td : forall x,
  split_prefix td (pmap f x) = option_map (map (pmap f)) (split_prefix td x).
Proof.
  induction td as [u|k cs IH] using pt_ind'; intros x; [reflexivity|].
  destruct x as [a|k' xs]; [reflexivity|]. cbn [pmap split_prefix].
  destruct (ckind_eqb k k'); [|reflexivity].
  revert xs. induction IH as [|c cs' Hc _ IHl]; intros [|x xs]; try reflexivity.
  cbn [map split_list]. rewrite Hc, IHl.
  destruct (split_prefix c x); cbn; [|reflexivity].
  destruct (split_list (@split_prefix A) cs' xs); cbn; [|reflexivity]. now rewrite map_app.
Qed.

Lemma build_aux_pmap A B (f : A -> B) (d : pt A) td : forall ys,
  build_aux (pmap f d) td (map (pmap f) ys) =
  (pmap f (fst (build_aux d td ys)), map (pmap f) (snd (build_aux d td ys))).
Proof.
  induction td as [u|k cs IH] using pt_ind'; intros ys.
  - destruct ys; reflexivity.
  - cbn [build_aux].
    assert (Hl : forall ys, build_list (build_aux (pmap f d)) cs (map (pmap f) ys) =
              (map (pmap f) (fst (build_list (build_aux d) cs ys)), map (pmap f) (snd (build_list (build_aux d) cs ys)))).
    { clear ys. induction IH as [|c cs' Hc _ IHl]; intros ys; [reflexivity|].
      cbn [build_list]. rewrite Hc. destruct (build_aux d c ys) as [t r1]. cbn [fst snd].
      rewrite IHl. destruct (build_list (build_aux d) cs' r1) as [ts r2]. reflexivity. }
    rewrite Hl. destruct (build_list (build_aux d) cs ys) as [cs' r]. reflexivity.
Qed.
Lemma build_pmap A B (f : A -> B) (d : pt A) td ys :
  build (pmap f d) td (map (pmap f) ys) = pmap f (build d td ys).
Proof. unfold build. now rewrite build_aux_pmap. Qed.
