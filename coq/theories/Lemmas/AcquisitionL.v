(* C16 - proofs about Model/Acquisition.v (see Props/C16.v for the statements). *)
From Coq Require Import List Bool Arith ZArith Lia Ring Sorted Permutation.
From Furax Require Import Model.Algebra Model.Acquisition.
Import ListNotations.
Local Open Scope nat_scope.

(* ------------------------------------------------------------------------------------------ *)
(* tabulated lists *)
Lemma length_tab {A} n (f : nat -> A) : length (tab n f) = n.
Proof. unfold tab. now rewrite map_length, seq_length. Qed.
Lemma nth_tab {A} n (f : nat -> A) j d : j < n -> nth j (tab n f) d = f j.
Proof.
  intros Hj. unfold tab. rewrite (nth_indep _ d (f 0)) by (now rewrite map_length, seq_length).
  rewrite map_nth. now rewrite seq_nth.
Qed.
Lemma tab_ext {A} n (f g : nat -> A) : (forall j, j < n -> f j = g j) -> tab n f = tab n g.
Proof. intros H. apply map_ext_in. intros j Hj. apply in_seq in Hj. apply H. lia. Qed.
Lemma tab_S {A} n (f : nat -> A) : tab (S n) f = f 0 :: tab n (fun j => f (S j)).
Proof. unfold tab. cbn [seq map]. f_equal. now rewrite <- seq_shift, map_map. Qed.
Lemma tab_nth {A} (l : list A) d : tab (length l) (fun j => nth j l d) = l.
Proof. induction l as [|x xs IH]; [reflexivity|]. cbn [length]. rewrite tab_S. cbn [nth]. now rewrite IH. Qed.
Lemma nth_map_in {A B} (f : A -> B) l j da db : j < length l -> nth j (map f l) db = f (nth j l da).
Proof. intros Hj. rewrite (nth_indep _ db (f da)) by (now rewrite map_length). apply map_nth. Qed.

(* ------------------------------------------------------------------------------------------ *)
Section Mat3L.
  Variable K : Type.
  Variables (k0 k1 : K) (kadd kmul ksub : K -> K -> K) (kopp : K -> K).
  Hypothesis Kth : ring_theory k0 k1 kadd kmul ksub kopp (@eq K).
  Add Ring Kring3 : Kth.
  Local Notation "a + b" := (kadd a b).
  Local Notation "a * b" := (kmul a b).
  Local Notation "- a" := (kopp a).
  Local Notation mmul := (mmul k0 kadd kmul).
  Local Notation mT := (mT k0).
  Local Notation I3 := (I3 k0 k1).
  Local Notation Rz := (Rz k0 k1 kopp).
  Local Notation Ry := (Ry k0 k1 kopp).
  Local Notation ent := (ent k0).
  Local Notation mvec := (mvec k0 kadd kmul).
  Local Notation vdot := (vdot k0 kadd kmul).
  Local Notation vent := (vent k0).

  Ltac m3 := unfold Acquisition.mmul, Acquisition.mT, Acquisition.I3, Acquisition.Rz, Acquisition.Ry,
               Acquisition.mvec, Acquisition.vdot, tab; cbn [map seq];
             unfold Acquisition.ent, Acquisition.vent; cbn [nth].
  Ltac lsplit := repeat match goal with |- _ :: _ = _ :: _ => f_equal end.

  Lemma mmul_assoc A B C : mmul (mmul A B) C = mmul A (mmul B C).
  Proof. m3. lsplit; ring. Qed.
  Lemma mT_mmul A B : mT (mmul A B) = mmul (mT B) (mT A).
  Proof. m3. lsplit; ring. Qed.
  Lemma mmul_I3_mmul A B : mmul I3 (mmul A B) = mmul A B.
  Proof. m3. lsplit; ring. Qed.
  Lemma mmul_I3_Rz s c : mmul I3 (Rz s c) = Rz s c.
  Proof. m3. lsplit; ring. Qed.

  Definition orth (M : m3 K) : Prop := mmul (mT M) M = I3.
  Lemma orth_comp A B : mmul I3 B = B -> orth A -> orth B -> orth (mmul A B).
  Proof.
    unfold orth. intros HB HA HBo. rewrite mT_mmul, mmul_assoc, <- (mmul_assoc (mT A) A B), HA, HB.
    exact HBo.
  Qed.
  Lemma Rz_orth s c : c * c + s * s = k1 -> orth (Rz s c).
  Proof.
    intros H. assert (E : forall x, x = c * c + s * s -> x = k1) by (intros x Hx; rewrite Hx; exact H).
    unfold orth. m3. lsplit; try ring; apply E; ring.
  Qed.
  Lemma Ry_orth s c : c * c + s * s = k1 -> orth (Ry s c).
  Proof.
    intros H. assert (E : forall x, x = c * c + s * s -> x = k1) by (intros x Hx; rewrite Hx; exact H).
    unfold orth. m3. lsplit; try ring; apply E; ring.
  Qed.
  Lemma ZYZ_orth s1 c1 s2 c2 s3 c3 :
    c1 * c1 + s1 * s1 = k1 -> c2 * c2 + s2 * s2 = k1 -> c3 * c3 + s3 * s3 = k1 ->
    orth (ZYZ k0 k1 kadd kmul kopp s1 c1 s2 c2 s3 c3).
  Proof.
    intros H1 H2 H3. unfold ZYZ. apply orth_comp.
    - apply mmul_I3_mmul.
    - now apply Rz_orth.
    - apply orth_comp; [apply mmul_I3_Rz|now apply Ry_orth|now apply Rz_orth].
  Qed.

  (* an orthogonal matrix preserves scalar products (hence norms and angles between directions) *)
  Lemma orth_preserves_dot M u v : orth M -> vdot (mvec M u) (mvec M v) = vdot u v.
  Proof.
    unfold orth. intros H.
    assert (E : vdot (mvec M u) (mvec M v) =
      vent u 0 * vent v 0 * ent (mmul (mT M) M) 0 0 + vent u 0 * vent v 1 * ent (mmul (mT M) M) 0 1 +
      vent u 0 * vent v 2 * ent (mmul (mT M) M) 0 2 + vent u 1 * vent v 0 * ent (mmul (mT M) M) 1 0 +
      vent u 1 * vent v 1 * ent (mmul (mT M) M) 1 1 + vent u 1 * vent v 2 * ent (mmul (mT M) M) 1 2 +
      vent u 2 * vent v 0 * ent (mmul (mT M) M) 2 0 + vent u 2 * vent v 1 * ent (mmul (mT M) M) 2 1 +
      vent u 2 * vent v 2 * ent (mmul (mT M) M) 2 2).
    { m3. ring. }
    rewrite E, H. m3. ring.
  Qed.

  (* the boresight (z axis of the instrument) is sent to the sky direction (theta, phi), whatever
     the position angle: (sin theta cos phi, sin theta sin phi, cos theta) *)
  Lemma ZYZ_boresight s1 c1 s2 c2 s3 c3 :
    mvec (ZYZ k0 k1 kadd kmul kopp s1 c1 s2 c2 s3 c3) [k0; k0; k1] = [c1 * s2; s1 * s2; c2].
  Proof. unfold ZYZ. m3. lsplit; ring. Qed.
End Mat3L.


(* ------------------------------------------------------------------------------------------ *)
(* the multiplicity pipeline of TransposeIndexRule (Model/Algebra.v: unique_counts, coverage_of) *)
Section Coverage.
  Local Open Scope Z_scope.
  Definition cnt (uc : list (Z * Z)) (j : Z) : Z :=
    fold_right (fun p acc => let '(v, c) := p in if v =? j then c + acc else acc) 0 uc.
  Definition key_lt (a b : Z * Z) : Prop := fst a < fst b.

  Lemma cnt_insert z l j : cnt (insert_sorted z l) j = cnt l j + (if z =? j then 1 else 0).
  Proof.
    induction l as [|[y c] r IH]; unfold cnt in *; cbn [insert_sorted fold_right].
    - destruct (z =? j); lia.
    - destruct (z =? y) eqn:E1.
      + apply Z.eqb_eq in E1. subst z. cbn [fold_right]. destruct (y =? j); lia.
      + destruct (z <? y); cbn [fold_right].
        * destruct (z =? j), (y =? j); lia.
        * rewrite IH. destruct (z =? j), (y =? j); lia.
  Qed.
  Lemma cnt_fold d : forall acc j,
    cnt (fold_left (fun acc z => insert_sorted z acc) d acc) j = cnt acc j + Z.of_nat (count_occ Z.eq_dec d j).
  Proof.
    induction d as [|z d IH]; intros acc j; cbn [fold_left count_occ]; [lia|].
    rewrite IH, cnt_insert. destruct (Z.eq_dec z j) as [->|Hne].
    - rewrite Z.eqb_refl. lia.
    - apply Z.eqb_neq in Hne. rewrite Hne. lia.
  Qed.
  Lemma cnt_unique d j : cnt (unique_counts d) j = Z.of_nat (count_occ Z.eq_dec d j).
  Proof. unfold unique_counts. now rewrite cnt_fold. Qed.

  Lemma insert_keys (P : Z -> Prop) z l :
    P z -> Forall (fun vc => P (fst vc)) l -> Forall (fun vc => P (fst vc)) (insert_sorted z l).
  Proof.
    intros Hz. induction l as [|[y c] r IH]; intros H; cbn.
    - now repeat constructor.
    - inversion H as [|? ? Hy Hr]; subst. destruct (z =? y).
      + constructor; auto.
      + destruct (z <? y); constructor; auto.
  Qed.
  Lemma fold_keys (P : Z -> Prop) d : forall acc, Forall P d -> Forall (fun vc => P (fst vc)) acc ->
    Forall (fun vc => P (fst vc)) (fold_left (fun acc z => insert_sorted z acc) d acc).
  Proof.
    induction d as [|z d IH]; intros acc Hd Ha; cbn; auto.
    inversion Hd; subst. apply IH; auto. now apply insert_keys.
  Qed.
  Lemma insert_SS z l : StronglySorted key_lt l -> StronglySorted key_lt (insert_sorted z l).
  Proof.
    induction l as [|[y c] r IH]; intros H; cbn.
    - repeat constructor.
    - inversion H as [|? ? Hr Hall]; subst. destruct (z =? y) eqn:E1.
      + constructor; auto.
      + apply Z.eqb_neq in E1. destruct (z <? y) eqn:E2.
        * apply Z.ltb_lt in E2. constructor; [exact H|]. constructor; [exact E2|].
          eapply Forall_impl; [|exact Hall]. unfold key_lt. cbn. intros; lia.
        * apply Z.ltb_ge in E2. constructor; [now apply IH|].
          apply (insert_keys (fun v => y < v)); [lia|exact Hall].
  Qed.
  Lemma fold_SS d : forall acc, StronglySorted key_lt acc ->
    StronglySorted key_lt (fold_left (fun acc z => insert_sorted z acc) d acc).
  Proof. induction d as [|z d IH]; intros acc H; cbn; auto. apply IH. now apply insert_SS. Qed.
  Lemma SS_length l : StronglySorted key_lt l -> forall lo hi,
    Forall (fun vc => lo <= fst vc < hi) l -> Z.of_nat (length l) <= Z.max 0 (hi - lo).
  Proof.
    induction 1 as [|[y c] r Hr IH Hall]; intros lo hi Hk; cbn [length]; [lia|].
    inversion Hk as [|? ? Hy Hkr]; subst. cbn in Hy.
    assert (Hr' : Forall (fun vc => y + 1 <= fst vc < hi) r).
    { rewrite Forall_forall in *. intros vc Hin. specialize (Hall vc Hin). specialize (Hkr vc Hin).
      unfold key_lt in Hall. cbn in Hall. lia. }
    specialize (IH (y + 1) hi Hr'). lia.
  Qed.

  Lemma count_occ_map_nat pix j :
    count_occ Z.eq_dec (map Z.of_nat pix) (Z.of_nat j) = count_occ Nat.eq_dec pix j.
  Proof.
    induction pix as [|a l IH]; cbn; [reflexivity|].
    destruct (Z.eq_dec (Z.of_nat a) (Z.of_nat j)) as [E|E], (Nat.eq_dec a j) as [E'|E']; try lia; now rewrite IH.
  Qed.

  (* for in-range pixel numbers the pipeline yields the hit counts, pixel by pixel *)
  Lemma coverage_counts n pix : Forall (fun p => (p < n)%nat) pix ->
    coverage_of n (map Z.of_nat pix) = tab n (fun j => Z.of_nat (hits pix j)).
  Proof.
    intros Hp. unfold coverage_of. set (d := map Z.of_nat pix).
    assert (Hd : Forall (fun z => 0 <= z < Z.of_nat n) d).
    { unfold d. rewrite Forall_forall in *. intros z Hz. apply in_map_iff in Hz as (a & <- & Ha).
      specialize (Hp a Ha). lia. }
    assert (Hk : Forall (fun vc => 0 <= fst vc < Z.of_nat n) (unique_counts d)).
    { apply (fold_keys (fun z => 0 <= z < Z.of_nat n)); auto. }
    assert (Hs : StronglySorted key_lt (unique_counts d)) by (apply fold_SS; constructor).
    pose proof (SS_length _ Hs _ _ Hk) as Hl.
    rewrite firstn_all2 by lia.
    unfold tab. apply map_ext_in. intros j Hj. apply in_seq in Hj.
    transitivity (cnt (unique_counts d) (Z.of_nat j)).
    - clear Hs Hl. induction (unique_counts d) as [|[v c] r IH]; [reflexivity|].
      inversion Hk as [|? ? Hv Hr]; subst. cbn in Hv. cbn [fold_right cnt]. fold (cnt r (Z.of_nat j)).
      rewrite <- (IH Hr). replace (v + Z.of_nat n =? Z.of_nat j) with false by (symmetry; apply Z.eqb_neq; lia).
      now rewrite orb_false_r.
    - rewrite cnt_unique. unfold d, hits. now rewrite count_occ_map_nat.
  Qed.
End Coverage.

(* ------------------------------------------------------------------------------------------ *)
Section AcqL.
  Variable K : Type.
  Variables (k0 k1 : K) (kadd kmul ksub : K -> K -> K) (kopp : K -> K).
  Hypothesis Kth : ring_theory k0 k1 kadd kmul ksub kopp (@eq K).
  Add Ring KringA : Kth.
  Variable half : K.
  Local Notation "a + b" := (kadd a b).
  Local Notation "a * b" := (kmul a b).
  Local Notation "a - b" := (ksub a b).
  Local Notation "- a" := (kopp a).
  Local Notation sv := (sv K).
  Local Notation at_ := (at_ k0).
  Local Notation bc := (bc k0).
  Local Notation cI := (cI k0).
  Local Notation cQ := (cQ k0).
  Local Notation cU := (cU k0).
  Local Notation cV := (cV k0).
  Local Notation gather := (gather k0).
  Local Notation index_op := (index_op k0).
  Local Notation qurot := (qurot k0 kadd kmul ksub).
  Local Notation qurot_T := (qurot_T k0 kadd kmul kopp).
  Local Notation projection := (projection k0 kadd kmul ksub).
  Local Notation pol := (pol k0 kadd kmul half).
  Local Notation hwp := (hwp kopp).
  Local Notation acquisition_built := (acquisition_built k0 kadd kmul ksub kopp half).
  Local Notation acquisition_reduced := (acquisition_reduced k0 kadd kmul ksub half).
  Local Notation scatter := (scatter k0 kadd).
  Local Notation index_T := (index_T k0 kadd).
  Local Notation ptp_built := (ptp_built k0 kadd kmul ksub kopp).
  Local Notation ptp_reduced := (ptp_reduced k0 k1 kadd kmul kopp).
  Local Notation kofN := (kofN k0 k1 kadd).
  Local Notation kofZ := (kofZ k0 k1 kadd kopp).

  Lemma ravel_id (x : sv) : ravel_op x = x.
  Proof. now destruct x. Qed.
  Lemma ravel_T_id (x : sv) : ravel_T x = x.
  Proof. now destruct x. Qed.

  Lemma at_gather pix x j : j < length pix -> at_ (gather pix x) j = at_ x (nth j pix 0).
  Proof. intros Hj. unfold Acquisition.gather, Acquisition.at_.
    exact (nth_map_in (fun p => nth p x k0) pix j 0 k0 Hj). Qed.
  Lemma length_gather pix x : length (gather pix x) = length pix.
  Proof. apply map_length. Qed.
  Lemma at_scale k l j : at_ (scale kmul k l) j = k * at_ l j.
  Proof.
    unfold scale, Acquisition.at_. destruct (Nat.lt_ge_cases j (length l)) as [Hj|Hj].
    - exact (nth_map_in (kmul k) l j k0 k0 Hj).
    - rewrite !nth_overflow; [ring| |]; now rewrite ?map_length.
  Qed.

  Lemma wf_index n pix x : n = length pix -> wf n (index_op pix x).
  Proof. intros ->. destruct x; cbn; repeat constructor; apply length_gather. Qed.
  Lemma wf_qurot n nsamp c2 s2 x : wf n x -> wf n (qurot nsamp c2 s2 x).
  Proof.
    unfold wf. destruct x; cbn; intros H;
      repeat match goal with H : Forall _ (_ :: _) |- _ => inversion H; clear H; subst end;
      repeat constructor; unfold rot_q, rot_u; rewrite ?length_tab; auto.
  Qed.

  Section Fixed.
    Variable nsamp : nat.
    Variables c2 s2 : list K.
    Variable pix : list nat.

    Lemma projection_wf sky : wf (length pix) (projection nsamp c2 s2 pix sky).
    Proof. unfold Acquisition.projection. apply wf_qurot. now apply wf_index. Qed.
    Lemma projection_kind sky : kind_of (projection nsamp c2 s2 pix sky) = kind_of sky.
    Proof. now destruct sky. Qed.

    Lemma at_rot_q q u j : j < length q ->
      at_ (rot_q k0 kmul ksub nsamp c2 s2 q u) j = at_ q j * bc nsamp c2 j - at_ u j * bc nsamp s2 j.
    Proof. intros Hj. unfold rot_q. unfold Acquisition.at_ at 1. now rewrite nth_tab. Qed.
    Lemma at_rot_u q u j : j < length q ->
      at_ (rot_u k0 kadd kmul nsamp c2 s2 q u) j = at_ q j * bc nsamp s2 j + at_ u j * bc nsamp c2 j.
    Proof. intros Hj. unfold rot_u. unfold Acquisition.at_ at 1. now rewrite nth_tab. Qed.

    (* (projection sky)[d,t] = R2(2 psi_t) applied to sky[pix d t]; I and V untouched *)
    Lemma projection_formula_l sky j : j < length pix ->
      let y := projection nsamp c2 s2 pix sky in
      let p := nth j pix 0 in
      cI y j = cI sky p /\
      cQ y j = cQ sky p * bc nsamp c2 j - cU sky p * bc nsamp s2 j /\
      cU y j = cQ sky p * bc nsamp s2 j + cU sky p * bc nsamp c2 j /\
      cV y j = cV sky p.
    Proof.
      intros Hj. destruct sky; cbn;
        rewrite ?at_rot_q, ?at_rot_u, ?at_gather by (rewrite ?length_gather; assumption);
        repeat split; try reflexivity; ring.
    Qed.

    Lemma pol_hwp x : pol (hwp x) = pol x.
    Proof. now destruct x. Qed.
    Lemma at_addl a b j : j < length a -> at_ (addl k0 kadd a b) j = at_ a j + at_ b j.
    Proof. intros Hj. unfold addl. unfold Acquisition.at_ at 1. now rewrite nth_tab. Qed.

    (* acquisition = (I + Q cos 2psi_t - U sin 2psi_t)/2 at pix d t *)
    Lemma acquisition_formula_l sky j : j < length pix ->
      let p := nth j pix 0 in
      at_ (acquisition_built nsamp c2 s2 pix sky) j =
      half * (cI sky p + cQ sky p * bc nsamp c2 j - cU sky p * bc nsamp s2 j).
    Proof.
      intros Hj. unfold Acquisition.acquisition_built. rewrite pol_hwp.
      destruct sky; cbn;
        match goal with |- nth ?j ?l k0 = _ => change (nth j l k0) with (at_ l j) end; rewrite at_scale;
        rewrite ?at_addl by (rewrite ?length_gather; assumption);
        rewrite ?at_rot_q, ?at_gather by (rewrite ?length_gather; assumption); ring.
    Qed.
    Lemma acquisition_length sky : length (acquisition_built nsamp c2 s2 pix sky) = length pix.
    Proof.
      unfold Acquisition.acquisition_built. rewrite pol_hwp.
      destruct sky; cbn; unfold scale, addl, rot_q; rewrite map_length, ?length_tab; apply length_gather.
    Qed.
    Lemma acquisition_reduce_equal_l keep sky :
      acquisition_reduced keep nsamp c2 s2 pix sky = acquisition_built nsamp c2 s2 pix sky.
    Proof.
      unfold Acquisition.acquisition_built, Acquisition.acquisition_reduced, Acquisition.projection.
      rewrite pol_hwp, ravel_id. now destruct keep.
    Qed.

    (* ---- P.T @ P ---- *)
    Hypothesis nsamp_pos : 0 < nsamp.
    Hypothesis trig : forall t, t < nsamp -> at_ c2 t * at_ c2 t + at_ s2 t * at_ s2 t = k1.

    Lemma bc_trig j : bc nsamp c2 j * bc nsamp c2 j + bc nsamp s2 j * bc nsamp s2 j = k1.
    Proof. unfold Acquisition.bc. apply trig. apply Nat.mod_upper_bound. lia. Qed.

    Lemma rotT_rot n x : wf n x -> qurot_T nsamp c2 s2 (qurot nsamp c2 s2 x) = x.
    Proof.
      assert (Eq : forall q u, length u = length q ->
        rotT_q k0 kadd kmul nsamp c2 s2 (rot_q k0 kmul ksub nsamp c2 s2 q u) (rot_u k0 kadd kmul nsamp c2 s2 q u) = q).
      { intros q u Hl. unfold rotT_q. unfold rot_q at 1. rewrite length_tab.
        transitivity (tab (length q) (fun j => at_ q j)); [|apply tab_nth]. apply tab_ext. intros j Hj.
        rewrite at_rot_q, at_rot_u by assumption.
        transitivity (at_ q j * (bc nsamp c2 j * bc nsamp c2 j + bc nsamp s2 j * bc nsamp s2 j)); [ring|].
        rewrite bc_trig. ring. }
      assert (Eu : forall q u, length u = length q ->
        rotT_u k0 kadd kmul kopp nsamp c2 s2 (rot_q k0 kmul ksub nsamp c2 s2 q u) (rot_u k0 kadd kmul nsamp c2 s2 q u) = u).
      { intros q u Hl. unfold rotT_u. unfold rot_q at 1. rewrite length_tab.
        transitivity (tab (length u) (fun j => at_ u j)); [|apply tab_nth]. rewrite Hl. apply tab_ext. intros j Hj.
        rewrite at_rot_q, at_rot_u by assumption.
        transitivity (at_ u j * (bc nsamp c2 j * bc nsamp c2 j + bc nsamp s2 j * bc nsamp s2 j)); [ring|].
        rewrite bc_trig. ring. }
      unfold wf. destruct x; cbn; intros H;
        repeat match goal with H : Forall _ (_ :: _) |- _ => inversion H; clear H; subst end;
        rewrite ?Eq, ?Eu by congruence; reflexivity.
    Qed.

    Lemma kofN_S n : kofN (S n) = k1 + kofN n.
    Proof. reflexivity. Qed.
    Lemma scatter_gather npix x :
      scatter npix pix (gather pix x) = tab npix (fun p => kofN (hits pix p) * at_ x p).
    Proof.
      unfold Acquisition.scatter. apply tab_ext. intros p _. unfold Acquisition.gather, hits.
      induction pix as [|a l IH]; cbn [map combine ksum fold_right count_occ fst snd].
      - cbn. ring.
      - fold (ksum k0 kadd) in *. unfold ksum in IH. rewrite IH.
        destruct (Nat.eq_dec a p) as [->|Hne].
        + rewrite Nat.eqb_refl, kofN_S. ring.
        + apply Nat.eqb_neq in Hne. rewrite Hne. ring.
    Qed.

    Lemma kofZ_nat n : kofZ (Z.of_nat n) = kofN n.
    Proof. destruct n; [reflexivity|]. cbn [Z.of_nat Acquisition.kofZ]. now rewrite SuccNat2Pos.id_succ. Qed.

    Lemma at_tab n f p : p < n -> at_ (tab n f) p = f p.
    Proof. intros. unfold Acquisition.at_. now apply nth_tab. Qed.

    Definition hit_scaled (npix : nat) (x : sv) : sv :=
      smap (fun l => tab npix (fun p => kofN (hits pix p) * at_ l p)) x.

    Lemma ptp_built_eq npix sky : ptp_built npix nsamp c2 s2 pix sky = hit_scaled npix sky.
    Proof.
      unfold Acquisition.ptp_built, Acquisition.projection.
      rewrite ravel_T_id, ravel_id, (rotT_rot (length pix)) by (now apply wf_index).
      unfold Acquisition.index_T, Acquisition.index_op, hit_scaled.
      destruct sky; cbn [smap]; now rewrite !scatter_gather.
    Qed.
    Lemma ptp_reduced_eq npix sky : wf npix sky -> Forall (fun p => p < npix) pix ->
      ptp_reduced npix pix sky = hit_scaled npix sky.
    Proof.
      intros Hwf Hp. unfold Acquisition.ptp_reduced, diag_op, multiplicity, hit_scaled.
      rewrite ravel_T_id, ravel_id, coverage_counts by assumption.
      assert (E : forall l, length l = npix ->
        tab (length l) (fun p => kofZ (nth p (tab npix (fun j => Z.of_nat (hits pix j))) 0%Z) * at_ l p) =
        tab npix (fun p => kofN (hits pix p) * at_ l p)).
      { intros l ->. apply tab_ext. intros p Hlt. now rewrite nth_tab, kofZ_nat. }
      unfold wf in Hwf. destruct sky; cbn in Hwf |- *;
        repeat match goal with H : Forall _ (_ :: _) |- _ => inversion H; clear H; subst end;
        now rewrite !E.
    Qed.
    Lemma ptp_reduce_equal_l npix sky : wf npix sky -> Forall (fun p => p < npix) pix ->
      ptp_reduced npix pix sky = ptp_built npix nsamp c2 s2 pix sky.
    Proof. intros. now rewrite ptp_built_eq, ptp_reduced_eq. Qed.

    Lemma hit_scaled_formula npix sky p : p < npix ->
      let y := hit_scaled npix sky in
      kind_of y = kind_of sky /\ wf npix y /\
      cI y p = kofN (hits pix p) * cI sky p /\ cQ y p = kofN (hits pix p) * cQ sky p /\
      cU y p = kofN (hits pix p) * cU sky p /\ cV y p = kofN (hits pix p) * cV sky p.
    Proof.
      intros Hp. unfold hit_scaled, wf.
      destruct sky; cbn [smap kind_of comps Acquisition.cI Acquisition.cQ Acquisition.cU Acquisition.cV];
        rewrite ?at_tab by assumption;
        (split; [reflexivity|]); (split; [repeat constructor; apply length_tab|]);
        repeat split; try reflexivity; ring.
    Qed.
  End Fixed.
End AcqL.
