(* C04 - second stage (partial): the honesty premise HON of Props/C04.v (`honest e`: a well-formed operator
   returns as many elements as its declared output structure has) is C05's theorem (Lemmas/StructsL.v
   sizes_agree_l, imported read-only) for every well-formed tree, given honest leaves. *)
From Coq Require Import List Bool Arith.
From Furax Require Import Base.Pytree Model.Op Model.Algebra Model.Denote Model.Wf Model.Structs Model.AsMatrix
  Lemmas.Sound Lemmas.StructsL Lemmas.AsMatrixL.
Import ListNotations.

Section Hon.
  Variable K : Type.
  Variables (kadd kmul : K -> K -> K).
  Variable leafsem : op K -> value K -> option (value K).

  (* the two definitions of "x has structure s" (Model/Structs.v, Model/AsMatrix.v) are the same function *)
  Lemma vhas_same : forall (x : value K) s, AsMatrix.vhas K x s = @Structs.vhas K x s.
  Proof.
    induction x as [d|k cs IH] using pt_ind'; intros [sd|k' ss]; reflexivity.
  Qed.

  Theorem honest_from_c05 : (forall l, leaf_honest K leafsem l) ->
    forall e : op K, wfo e = true -> honest K kadd kmul leafsem e.
  Proof.
    intros LH e W x y Hx Hy. rewrite vhas_same in Hx.
    assert (HF : Forall (leaf_honest K leafsem) (leaves e)) by (apply Forall_forall; intros l _; apply LH).
    destruct (sizes_agree_l K kadd kmul leafsem e W HF x y Hx Hy) as [_ H]. exact H.
  Qed.
End Hon.
