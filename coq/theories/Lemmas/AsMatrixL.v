(* C04 - application is linear; as_matrix() (generic construction and every override) is the matrix
   of the application.  Proofs for all expression trees over a commutative ring. *)
From Coq Require Import List Bool Arith ZArith NArith QArith String Lia Ring.
From Furax Require Import Base.Pytree Model.Op Model.Algebra Model.Denote Model.Wf Model.AsMatrix
  Lemmas.DenoteL Lemmas.Sound.
Import ListNotations.
Local Close Scope Q_scope.
Local Open Scope nat_scope.

Section AsML.
  Variable K : Type.
  Variables (k0 k1 : K) (kadd kmul ksub : K -> K -> K) (kopp : K -> K).
  Hypothesis Kth : ring_theory k0 k1 kadd kmul ksub kopp (@eq K).
  Add Ring KringA : Kth.
  Notation op := (op K).
  Notation value := (value K).
  Notation vflat := (vflat K).
  Notation vhas := (vhas K).
  Notation vunflat := (vunflat K).
  Notation unflat := (unflat K).
  Notation zeros := (zeros K k0).
  Notation onehot := (onehot K k0 k1).
  Notation ladd := (ladd K kadd).
  Notation lscale a := (map (kmul a)).
  Notation vadd := (vadd kadd).
  Notation vsum := (vsum kadd).
  Notation vscale := (vscale kmul).

  (* ================= vectors (lists) ================= *)
  Lemma ladd_cons a u b v : ladd (a :: u) (b :: v) = kadd a b :: ladd u v.
  Proof. reflexivity. Qed.
  Lemma ladd_length u v : List.length (ladd u v) = Nat.min (List.length u) (List.length v).
  Proof. unfold AsMatrix.ladd. now rewrite map_length, combine_length. Qed.
  Lemma ladd_length_eq u v : List.length u = List.length v -> List.length (ladd u v) = List.length v.
  Proof. intros H. rewrite ladd_length, H. apply Nat.min_id. Qed.
  Lemma ladd_app u1 : forall v1 u2 v2, List.length u1 = List.length v1 ->
    ladd (u1 ++ u2) (v1 ++ v2) = ladd u1 v1 ++ ladd u2 v2.
  Proof.
    induction u1 as [|a u1 IH]; intros [|b v1] u2 v2 H; cbn in H; try discriminate; [reflexivity|].
    cbn [app]. rewrite !ladd_cons. cbn [app]. f_equal. apply IH. lia.
  Qed.
  Lemma ladd_comm u : forall v, ladd u v = ladd v u.
  Proof. induction u as [|a u IH]; intros [|b v]; try reflexivity. rewrite !ladd_cons. f_equal; [ring|apply IH]. Qed.
  Lemma ladd_assoc u : forall v w, ladd (ladd u v) w = ladd u (ladd v w).
  Proof.
    induction u as [|a u IH]; intros [|b v] [|c w]; try reflexivity.
    rewrite !ladd_cons. f_equal; [ring|apply IH].
  Qed.
  Lemma ladd_zeros_l n : forall v, List.length v = n -> ladd (zeros n) v = v.
  Proof.
    induction n as [|n IH]; intros [|b v] H; cbn in H; try discriminate; [reflexivity|].
    unfold AsMatrix.zeros. cbn [repeat]. rewrite ladd_cons. f_equal; [ring|apply IH; lia].
  Qed.
  Lemma ladd_zeros_r n v : List.length v = n -> ladd v (zeros n) = v.
  Proof. intros H. rewrite ladd_comm. now apply ladd_zeros_l. Qed.
  Lemma lscale_ladd a u : forall v, lscale a (ladd u v) = ladd (lscale a u) (lscale a v).
  Proof. induction u as [|x u IH]; intros [|y v]; try reflexivity. cbn [map]. rewrite !ladd_cons. cbn [map]. f_equal; [ring|apply IH]. Qed.
  Lemma lscale_zeros a n : lscale a (zeros n) = zeros n.
  Proof. unfold AsMatrix.zeros. induction n; cbn; [reflexivity|]. f_equal; [ring|assumption]. Qed.
  Lemma lscale0 u : lscale k0 u = zeros (List.length u).
  Proof. unfold AsMatrix.zeros. induction u; cbn; [reflexivity|]. f_equal; [ring|assumption]. Qed.
  Lemma lscale1 u : lscale k1 u = u.
  Proof. induction u; cbn; [reflexivity|]. f_equal; [ring|assumption]. Qed.
  Lemma lscale_lscale a b u : lscale a (lscale b u) = lscale (kmul a b) u.
  Proof. rewrite map_map. apply map_ext. intros; ring. Qed.
  Lemma zeros_length n : List.length (zeros n) = n.
  Proof. apply repeat_length. Qed.
  Lemma zeros_app n m : zeros (n + m) = zeros n ++ zeros m.
  Proof. apply repeat_app. Qed.

  (* ================= values: shape and flat data ================= *)
  Definition vsh (x : value) : pt nat := pmap (@List.length K) x.
  Definition lsum (l : list nat) : nat := fold_right Nat.add 0 l.

  Lemma lsum_app l m : lsum (l ++ m) = lsum l + lsum m.
  Proof. unfold lsum. induction l; cbn; lia. Qed.

  Lemma vflat_node k cs : vflat (Node k cs) = List.concat (map vflat cs).
  Proof.
    unfold AsMatrix.vflat. cbn [flatten]. induction cs as [|c r IH]; [reflexivity|].
    cbn [flat_map map List.concat]. now rewrite concat_app, IH.
  Qed.
  Lemma vflat_leaf d : vflat (Leaf d) = d.
  Proof. unfold AsMatrix.vflat. cbn. apply app_nil_r. Qed.

  Lemma vflat_length x : List.length (vflat x) = lsum (flatten (vsh x)).
  Proof.
    induction x as [d|k cs IH] using pt_ind'.
    - rewrite vflat_leaf. unfold vsh, lsum. cbn. lia.
    - rewrite vflat_node. unfold vsh. cbn [pmap flatten].
      induction IH as [|c r Hc _ IHr]; [reflexivity|].
      cbn [map List.concat flat_map]. rewrite app_length, Hc, IHr.
      now rewrite lsum_app.
  Qed.
  Lemma vsh_length a b : vsh a = vsh b -> List.length (vflat a) = List.length (vflat b).
  Proof. intros H. now rewrite !vflat_length, H. Qed.

  Lemma vadd_node k cs k' cs' : vadd (Node k cs) (Node k' cs') =
    if ckind_eqb k k' then option_map (Node k) (omap2 vadd cs cs') else None.
  Proof.
    cbn [Denote.vadd]. destruct (ckind_eqb k k'); [|reflexivity]. f_equal.
    revert cs'. induction cs as [|c r IH]; intros [|c' r']; cbn; try reflexivity. now rewrite IH.
  Qed.

  (* a + b is defined exactly on equal shapes, has that shape, and adds the flat data *)
  Lemma vadd_spec a : forall b c, vadd a b = Some c ->
    vsh a = vsh b /\ vsh c = vsh a /\ vflat c = ladd (vflat a) (vflat b).
  Proof.
    induction a as [u|k cs IH] using pt_ind'; intros [v|k' cs'] c H; try discriminate.
    - cbn in H. destruct (Nat.eqb (List.length u) (List.length v)) eqn:E; [|discriminate].
      inversion H; subst c. apply Nat.eqb_eq in E. rewrite !vflat_leaf. unfold vsh. cbn [pmap].
      split; [now rewrite E|]. split; [|reflexivity].
      f_equal. rewrite map_length, combine_length. lia.
    - rewrite vadd_node in H. destruct (ckind_eqb k k') eqn:Ek; [|discriminate].
      apply ckind_eqb_eq in Ek; subst k'.
      destruct (omap2 vadd cs cs') as [zs|] eqn:Ez; [|discriminate]. inversion H; subst c. clear H.
      rewrite !vflat_node. unfold vsh. cbn [pmap]. fold vsh.
      assert (HL : map vsh cs = map vsh cs' /\ map vsh zs = map vsh cs /\
                   List.concat (map vflat zs) = ladd (List.concat (map vflat cs)) (List.concat (map vflat cs'))).
      { revert cs' zs Ez. induction IH as [|x xs Hx _ IHl]; intros [|y ys] zs Ez; cbn in Ez; try discriminate.
        - inversion Ez; subst. repeat split; reflexivity.
        - destruct (vadd x y) as [z|] eqn:E1; [|discriminate].
          destruct (omap2 vadd xs ys) as [zs'|] eqn:E2; [|discriminate].
          inversion Ez; subst zs. destruct (Hx _ _ E1) as (A1 & A2 & A3). destruct (IHl _ _ E2) as (B1 & B2 & B3).
          cbn [map List.concat]. rewrite A3, B3, A2, B2, A1, B1. repeat split; try reflexivity.
          rewrite ladd_app; [reflexivity|]. apply vsh_length. exact A1. }
      destruct HL as (H1 & H2 & H3). change (map (pmap (@List.length K))) with (map vsh).
      rewrite H3, H2, H1. repeat split; reflexivity.
  Qed.

  Lemma vadd_def a : forall b, vsh a = vsh b -> exists c, vadd a b = Some c.
  Proof.
    induction a as [u|k cs IH] using pt_ind'; intros [v|k' cs'] H; try discriminate.
    - unfold vsh in H. cbn in H. inversion H as [E]. cbn. rewrite E, Nat.eqb_refl. eauto.
    - unfold vsh in H. cbn [pmap] in H. inversion H as [[Ek El]]. subst k'.
      rewrite vadd_node, ckind_eqb_refl.
      assert (HL : exists zs, omap2 vadd cs cs' = Some zs).
      { clear H. revert cs' El. induction IH as [|x xs Hx _ IHl]; intros [|y ys] El; cbn in El; try discriminate.
        - exists []. reflexivity.
        - inversion El as [[E1 E2]]. destruct (Hx y E1) as (z & Hz). destruct (IHl ys E2) as (zs & Hzs).
          exists (z :: zs). cbn. now rewrite Hz, Hzs. }
      destruct HL as (zs & ->). cbn. eauto.
  Qed.

  Lemma concat_inj_len (A : Type) (l1 : list (list A)) : forall l2,
    map (@List.length A) l1 = map (@List.length A) l2 -> List.concat l1 = List.concat l2 -> l1 = l2.
  Proof.
    induction l1 as [|a l1 IH]; intros [|b l2] Hl Hc; cbn in Hl; try discriminate; [reflexivity|].
    inversion Hl as [[Ha Hr]]. cbn in Hc.
    assert (a = b /\ List.concat l1 = List.concat l2) as [-> Hc'].
    { clear - Ha Hc. revert b Ha Hc. induction a as [|x a IHa]; intros [|y b] Ha Hc; cbn in Ha; try discriminate.
      - auto.
      - cbn in Hc. inversion Hc; subst. destruct (IHa b ltac:(lia) H1) as [-> ?]. auto. }
    f_equal. now apply IH.
  Qed.

  (* a value is determined by its shape and its flat data *)
  Lemma vsh_flat_inj a : forall b, vsh a = vsh b -> vflat a = vflat b -> a = b.
  Proof.
    induction a as [u|k cs IH] using pt_ind'; intros [v|k' cs'] Hs Hf; try discriminate.
    - rewrite !vflat_leaf in Hf. now subst.
    - unfold vsh in Hs. cbn [pmap] in Hs. inversion Hs as [[Ek El]]. subst k'. f_equal.
      rewrite !vflat_node in Hf.
      assert (Hparts : map vflat cs = map vflat cs').
      { apply concat_inj_len; [|exact Hf]. rewrite !map_map.
        clear - El. revert cs' El. induction cs as [|x xs IHx]; intros [|y ys] El; cbn in El; try discriminate; [reflexivity|].
        inversion El as [[E1 E2]]. cbn. f_equal; [now apply vsh_length|now apply IHx]. }
      clear Hf Hs. revert cs' El Hparts. induction IH as [|x xs Hx _ IHl]; intros [|y ys] El Hp; cbn in El, Hp; try discriminate; [reflexivity|].
      inversion El as [[E1 E2]]. inversion Hp as [[P1 P2]]. f_equal; [now apply Hx|now apply IHl].
  Qed.

  Lemma vsh_vscale a x : vsh (vscale a x) = vsh x.
  Proof.
    unfold vsh, Denote.vscale. induction x as [d|k cs IH] using pt_ind'; cbn.
    - now rewrite map_length.
    - f_equal. rewrite map_map. induction IH as [|c r Hc _ IHr]; cbn; [reflexivity|]. now rewrite Hc, IHr.
  Qed.
  Lemma vflat_vscale a x : vflat (vscale a x) = lscale a (vflat x).
  Proof.
    unfold AsMatrix.vflat, Denote.vscale. rewrite flatten_pmap.
    generalize (flatten x) as l. induction l as [|d l IH]; cbn; [reflexivity|]. now rewrite map_app, IH.
  Qed.
End AsML.
