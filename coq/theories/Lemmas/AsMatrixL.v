(* C04 - application is linear; as_matrix() (generic construction and every override) is the matrix
   of the application.  Proofs for all expression trees over a commutative ring. *)
From Coq Require Import List Bool Arith ZArith NArith QArith String Lia Ring.
From Furax Require Import Base.Pytree Model.Op Model.Algebra Model.Denote Model.Wf Model.AsMatrix
  Lemmas.DenoteL Lemmas.Sound.
Import ListNotations.
Local Close Scope Q_scope.
Local Open Scope nat_scope.

Section AsML.
  Variable K : Type.
  Variables (k0 k1 : K) (kadd kmul ksub : K -> K -> K) (kopp : K -> K).
  Hypothesis Kth : ring_theory k0 k1 kadd kmul ksub kopp (@eq K).
  Add Ring KringA : Kth.
  Notation op := (op K).
  Notation value := (value K).
  Notation vflat := (vflat K).
  Notation vhas := (vhas K).
  Notation vunflat := (vunflat K).
  Notation unflat := (unflat K).
  Notation zeros := (zeros K k0).
  Notation onehot := (onehot K k0 k1).
  Notation ladd := (ladd K kadd).
  Notation lscale a := (map (kmul a)).
  Notation vadd := (vadd kadd).
  Notation vsum := (vsum kadd).
  Notation vscale := (vscale kmul).

  (* ================= vectors (lists) ================= *)
  Lemma ladd_cons a u b v : ladd (a :: u) (b :: v) = kadd a b :: ladd u v.
  Proof. reflexivity. Qed.
  Lemma ladd_length u v : List.length (ladd u v) = Nat.min (List.length u) (List.length v).
  Proof. unfold AsMatrix.ladd. now rewrite map_length, combine_length. Qed.
  Lemma ladd_length_eq u v : List.length u = List.length v -> List.length (ladd u v) = List.length v.
  Proof. intros H. rewrite ladd_length, H. apply Nat.min_id. Qed.
  Lemma ladd_app u1 : forall v1 u2 v2, List.length u1 = List.length v1 ->
    ladd (u1 ++ u2) (v1 ++ v2) = ladd u1 v1 ++ ladd u2 v2.
  Proof.
    induction u1 as [|a u1 IH]; intros [|b v1] u2 v2 H; cbn in H; try discriminate; [reflexivity|].
    cbn [app]. rewrite !ladd_cons. cbn [app]. f_equal. apply IH. lia.
  Qed.
  Lemma ladd_comm u : forall v, ladd u v = ladd v u.
  Proof. induction u as [|a u IH]; intros [|b v]; try reflexivity. rewrite !ladd_cons. f_equal; [ring|apply IH]. Qed.
  Lemma ladd_assoc u : forall v w, ladd (ladd u v) w = ladd u (ladd v w).
  Proof.
    induction u as [|a u IH]; intros [|b v] [|c w]; try reflexivity.
    rewrite !ladd_cons. f_equal; [ring|apply IH].
  Qed.
  Lemma ladd_zeros_l n : forall v, List.length v = n -> ladd (zeros n) v = v.
  Proof.
    induction n as [|n IH]; intros [|b v] H; cbn in H; try discriminate; [reflexivity|].
    unfold AsMatrix.zeros. cbn [repeat]. rewrite ladd_cons. f_equal; [ring|apply IH; lia].
  Qed.
  Lemma ladd_zeros_r n v : List.length v = n -> ladd v (zeros n) = v.
  Proof. intros H. rewrite ladd_comm. now apply ladd_zeros_l. Qed.
  Lemma lscale_ladd a u : forall v, lscale a (ladd u v) = ladd (lscale a u) (lscale a v).
  Proof. induction u as [|x u IH]; intros [|y v]; try reflexivity. cbn [map]. rewrite !ladd_cons. cbn [map]. f_equal; [ring|apply IH]. Qed.
  Lemma lscale_zeros a n : lscale a (zeros n) = zeros n.
  Proof. unfold AsMatrix.zeros. induction n; cbn; [reflexivity|]. f_equal; [ring|assumption]. Qed.
  Lemma lscale0 u : lscale k0 u = zeros (List.length u).
  Proof. unfold AsMatrix.zeros. induction u; cbn; [reflexivity|]. f_equal; [ring|assumption]. Qed.
  Lemma lscale1 u : lscale k1 u = u.
  Proof. induction u; cbn; [reflexivity|]. f_equal; [ring|assumption]. Qed.
  Lemma lscale_lscale a b u : lscale a (lscale b u) = lscale (kmul a b) u.
  Proof. rewrite map_map. apply map_ext. intros; ring. Qed.
  Lemma zeros_length n : List.length (zeros n) = n.
  Proof. apply repeat_length. Qed.
  Lemma zeros_app n m : zeros (n + m) = zeros n ++ zeros m.
  Proof. apply repeat_app. Qed.

  (* ================= values: shape and flat data ================= *)
  Notation vsh := (pmap (@List.length K)).
  Definition lsum (l : list nat) : nat := fold_right Nat.add 0 l.

  Lemma lsum_app l m : lsum (l ++ m) = lsum l + lsum m.
  Proof. unfold lsum. induction l; cbn; lia. Qed.

  Lemma vflat_node k cs : vflat (Node k cs) = List.concat (map vflat cs).
  Proof.
    unfold AsMatrix.vflat. cbn [flatten]. induction cs as [|c r IH]; [reflexivity|].
    cbn [flat_map map List.concat]. now rewrite concat_app, IH.
  Qed.
  Lemma vflat_leaf d : vflat (Leaf d) = d.
  Proof. unfold AsMatrix.vflat. cbn. apply app_nil_r. Qed.

  Lemma vflat_length x : List.length (vflat x) = lsum (flatten (vsh x)).
  Proof.
    induction x as [d|k cs IH] using pt_ind'.
    - rewrite vflat_leaf. unfold lsum. cbn. lia.
    - rewrite vflat_node. cbn [pmap flatten].
      induction IH as [|c r Hc _ IHr]; [reflexivity|].
      cbn [map List.concat flat_map]. rewrite app_length, Hc, IHr.
      now rewrite lsum_app.
  Qed.
  Lemma vsh_length a b : vsh a = vsh b -> List.length (vflat a) = List.length (vflat b).
  Proof. intros H. now rewrite !vflat_length, H. Qed.

  Lemma vadd_node k cs k' cs' : vadd (Node k cs) (Node k' cs') =
    if ckind_eqb k k' then option_map (Node k) (omap2 vadd cs cs') else None.
  Proof.
    cbn [Denote.vadd]. destruct (ckind_eqb k k'); [|reflexivity]. f_equal.
    revert cs'. induction cs as [|c r IH]; intros [|c' r']; cbn; try reflexivity. now rewrite IH.
  Qed.

  (* a + b is defined exactly on equal shapes, has that shape, and adds the flat data *)
  Lemma vadd_spec a : forall b c, vadd a b = Some c ->
    vsh a = vsh b /\ vsh c = vsh a /\ vflat c = ladd (vflat a) (vflat b).
  Proof.
    induction a as [u|k cs IH] using pt_ind'; intros [v|k' cs'] c H; try discriminate.
    - cbn in H. destruct (Nat.eqb (List.length u) (List.length v)) eqn:E; [|discriminate].
      inversion H; subst c. apply Nat.eqb_eq in E. rewrite !vflat_leaf. cbn [pmap].
      split; [now rewrite E|]. split; [|reflexivity].
      f_equal. rewrite map_length, combine_length. lia.
    - rewrite vadd_node in H. destruct (ckind_eqb k k') eqn:Ek; [|discriminate].
      apply ckind_eqb_eq in Ek; subst k'.
      destruct (omap2 vadd cs cs') as [zs|] eqn:Ez; [|discriminate]. inversion H; subst c. clear H.
      rewrite !vflat_node. cbn [pmap].
      assert (HL : map vsh cs = map vsh cs' /\ map vsh zs = map vsh cs /\
                   List.concat (map vflat zs) = ladd (List.concat (map vflat cs)) (List.concat (map vflat cs'))).
      { revert cs' zs Ez. induction IH as [|x xs Hx _ IHl]; intros [|y ys] zs Ez; cbn in Ez; try discriminate.
        - inversion Ez; subst. repeat split; reflexivity.
        - destruct (vadd x y) as [z|] eqn:E1; [|discriminate].
          destruct (omap2 vadd xs ys) as [zs'|] eqn:E2; [|discriminate].
          inversion Ez; subst zs. destruct (Hx _ _ E1) as (A1 & A2 & A3). destruct (IHl _ _ E2) as (B1 & B2 & B3).
          cbn [map List.concat]. rewrite A3, B3, A2, B2, A1, B1. repeat split; try reflexivity.
          rewrite ladd_app; [reflexivity|]. apply vsh_length. exact A1. }
      destruct HL as (H1 & H2 & H3).
      rewrite H3, H2, H1. repeat split; reflexivity.
  Qed.

  Lemma vadd_def a : forall b, vsh a = vsh b -> exists c, vadd a b = Some c.
  Proof.
    induction a as [u|k cs IH] using pt_ind'; intros [v|k' cs'] H; try discriminate.
    - cbn in H. inversion H as [E]. cbn. rewrite E, Nat.eqb_refl. eauto.
    - cbn [pmap] in H. inversion H as [[Ek El]]. subst k'.
      rewrite vadd_node, ckind_eqb_refl.
      assert (HL : exists zs, omap2 vadd cs cs' = Some zs).
      { clear H. revert cs' El. induction IH as [|x xs Hx _ IHl]; intros [|y ys] El; cbn in El; try discriminate.
        - exists []. reflexivity.
        - inversion El as [[E1 E2]]. destruct (Hx y E1) as (z & Hz). destruct (IHl ys E2) as (zs & Hzs).
          exists (z :: zs). cbn. now rewrite Hz, Hzs. }
      destruct HL as (zs & ->). cbn. eauto.
  Qed.

  Lemma concat_inj_len (A : Type) (l1 : list (list A)) : forall l2,
    map (@List.length A) l1 = map (@List.length A) l2 -> List.concat l1 = List.concat l2 -> l1 = l2.
  Proof.
    induction l1 as [|a l1 IH]; intros [|b l2] Hl Hc; cbn in Hl; try discriminate; [reflexivity|].
    inversion Hl as [[Ha Hr]]. cbn in Hc.
    assert (a = b /\ List.concat l1 = List.concat l2) as [-> Hc'].
    { clear - Ha Hc. revert b Ha Hc. induction a as [|x a IHa]; intros [|y b] Ha Hc; cbn in Ha; try discriminate.
      - auto.
      - cbn in Hc. inversion Hc; subst. destruct (IHa b ltac:(lia) H1) as [-> ?]. auto. }
    f_equal. now apply IH.
  Qed.

  (* a value is determined by its shape and its flat data *)
  Lemma vsh_flat_inj a : forall b, vsh a = vsh b -> vflat a = vflat b -> a = b.
  Proof.
    induction a as [u|k cs IH] using pt_ind'; intros [v|k' cs'] Hs Hf; try discriminate.
    - rewrite !vflat_leaf in Hf. now subst.
    - cbn [pmap] in Hs. inversion Hs as [[Ek El]]. subst k'. f_equal.
      rewrite !vflat_node in Hf.
      assert (Hparts : map vflat cs = map vflat cs').
      { apply concat_inj_len; [|exact Hf]. rewrite !map_map.
        clear - El. revert cs' El. induction cs as [|x xs IHx]; intros [|y ys] El; cbn in El; try discriminate; [reflexivity|].
        inversion El as [[E1 E2]]. cbn. f_equal; [now apply vsh_length|now apply IHx]. }
      clear Hf Hs. revert cs' El Hparts. induction IH as [|x xs Hx _ IHl]; intros [|y ys] El Hp; cbn in El, Hp; try discriminate; [reflexivity|].
      inversion El as [[E1 E2]]. inversion Hp as [[P1 P2]]. f_equal; [now apply Hx|now apply IHl].
  Qed.

  Lemma vsh_vscale a x : vsh (vscale a x) = vsh x.
  Proof.
    unfold Denote.vscale. induction x as [d|k cs IH] using pt_ind'; cbn.
    - now rewrite map_length.
    - f_equal. rewrite map_map. induction IH as [|c r Hc _ IHr]; cbn; [reflexivity|]. now rewrite Hc, IHr.
  Qed.
  Lemma vflat_vscale a x : vflat (vscale a x) = lscale a (vflat x).
  Proof.
    unfold AsMatrix.vflat, Denote.vscale. rewrite flatten_pmap.
    generalize (flatten x) as l. induction l as [|d l IH]; cbn; [reflexivity|]. now rewrite map_app, IH.
  Qed.

  (* ---------- lists of values ---------- *)
  Lemma omap2_vadd_spec xs : forall ys zs, omap2 vadd xs ys = Some zs ->
    map vsh xs = map vsh ys /\ map vsh zs = map vsh xs /\
    List.concat (map vflat zs) = ladd (List.concat (map vflat xs)) (List.concat (map vflat ys)).
  Proof.
    induction xs as [|x xs IH]; intros [|y ys] zs H; cbn in H; try discriminate.
    - inversion H; subst. repeat split; reflexivity.
    - destruct (vadd x y) as [z|] eqn:E1; [|discriminate].
      destruct (omap2 vadd xs ys) as [zs'|] eqn:E2; [|discriminate]. inversion H; subst zs.
      destruct (vadd_spec _ _ _ E1) as (A1 & A2 & A3). destruct (IH _ _ E2) as (B1 & B2 & B3).
      cbn [map List.concat]. rewrite A3, B3, A2, B2, A1, B1. repeat split; try reflexivity.
      rewrite ladd_app; [reflexivity|]. apply vsh_length. exact A1.
  Qed.
  Lemma omap2_vadd_def xs : forall ys, map vsh xs = map vsh ys -> exists zs, omap2 vadd xs ys = Some zs.
  Proof.
    induction xs as [|x xs IH]; intros [|y ys] H; cbn in H; try discriminate.
    - exists []. reflexivity.
    - inversion H as [[E1 E2]]. destruct (vadd_def x y E1) as (z & Hz). destruct (IH ys E2) as (zs & Hzs).
      exists (z :: zs). cbn. now rewrite Hz, Hzs.
  Qed.
  Lemma list_sh_flat_inj xs : forall ys, map vsh xs = map vsh ys ->
    List.concat (map vflat xs) = List.concat (map vflat ys) -> xs = ys.
  Proof.
    intros ys Hs Hf.
    assert (Hparts : map vflat xs = map vflat ys).
    { apply concat_inj_len; [|exact Hf]. rewrite !map_map.
      clear - Hs. revert ys Hs. induction xs as [|x xs IHx]; intros [|y ys] El; cbn in El; try discriminate; [reflexivity|].
      inversion El as [[E1 E2]]. cbn. f_equal; [now apply vsh_length|now apply IHx]. }
    clear Hf. revert ys Hs Hparts. induction xs as [|x xs IHx]; intros [|y ys] El Hp; cbn in El, Hp; try discriminate; [reflexivity|].
    inversion El as [[E1 E2]]. inversion Hp as [[P1 P2]]. f_equal; [now apply vsh_flat_inj|now apply IHx].
  Qed.

  (* ---------- splitting along / rebuilding a container ---------- *)
  Lemma split_flat td : forall (x : value) xs, split_prefix td x = Some xs -> vflat x = List.concat (map vflat xs).
  Proof.
    induction td as [u|k cs IH] using pt_ind'; intros x xs H.
    - cbn in H. inversion H; subst. cbn. now rewrite app_nil_r.
    - cbn [split_prefix] in H. destruct x as [a|k' xs0]; [discriminate|].
      destruct (ckind_eqb k k'); [|discriminate]. rewrite vflat_node.
      revert xs0 xs H. induction IH as [|c cs' Hc _ IHl]; intros xs0 xs H.
      + destruct xs0; [|discriminate]. cbn in H. inversion H; reflexivity.
      + destruct xs0 as [|x0 xs1]; [discriminate|]. cbn [split_list] in H.
        destruct (split_prefix c x0) as [a|] eqn:Ea; [|discriminate].
        destruct (split_list (@split_prefix (list K)) cs' xs1) as [b|] eqn:Eb; [|discriminate].
        inversion H; subst xs. cbn [map List.concat]. rewrite map_app, concat_app.
        now rewrite (Hc _ _ Ea), (IHl _ _ Eb).
  Qed.
  Lemma split_vsh td (x : value) : split_prefix td (vsh x) = option_map (map vsh) (split_prefix td x).
  Proof. apply split_prefix_pmap. Qed.
  Lemma build_vsh (d : value) td ys : vsh (build d td ys) = build (vsh d) td (map vsh ys).
  Proof. now rewrite build_pmap. Qed.
  Lemma build_flat (d : value) td ys : List.length ys = nleaves td ->
    vflat (build d td ys) = List.concat (map vflat ys).
  Proof. intros H. apply (split_flat td). now apply split_build. Qed.

  Lemma split_vadd td x y z xs ys : vadd x y = Some z ->
    split_prefix td x = Some xs -> split_prefix td y = Some ys ->
    exists zs, split_prefix td z = Some zs /\ omap2 vadd xs ys = Some zs.
  Proof.
    intros Hz Hx Hy. destruct (vadd_spec _ _ _ Hz) as (S1 & S2 & S3).
    pose proof (split_vsh td x) as Px. pose proof (split_vsh td y) as Py. pose proof (split_vsh td z) as Pz.
    rewrite Hx in Px. rewrite Hy in Py. cbn in Px, Py.
    rewrite S2, Px in Pz. destruct (split_prefix td z) as [zs|] eqn:Ez; [|discriminate].
    cbn in Pz. inversion Pz as [Hzs]. rewrite S1, Py in Px. inversion Px as [Hxy].
    destruct (omap2_vadd_def xs ys (eq_sym Hxy)) as (zs' & Hzs').
    destruct (omap2_vadd_spec _ _ _ Hzs') as (T1 & T2 & T3).
    exists zs. split; [reflexivity|]. rewrite Hzs'. f_equal.
    apply list_sh_flat_inj; [congruence|].
    rewrite T3, <- (split_flat td _ _ Hx), <- (split_flat td _ _ Hy), <- (split_flat td _ _ Ez). now symmetry.
  Qed.

  Lemma build_vadd td (dx dy dz : value) xs ys zs : omap2 vadd xs ys = Some zs ->
    List.length xs = nleaves td ->
    vadd (build dx td xs) (build dy td ys) = Some (build dz td zs).
  Proof.
    intros H Hlen. destruct (omap2_vadd_spec _ _ _ H) as (T1 & T2 & T3).
    assert (Ly : List.length ys = nleaves td).
    { rewrite <- Hlen. transitivity (List.length (map vsh ys)); [symmetry; apply map_length|]. rewrite <- T1. apply map_length. }
    assert (Lz : List.length zs = nleaves td).
    { rewrite <- Hlen. transitivity (List.length (map vsh zs)); [symmetry; apply map_length|]. rewrite T2. apply map_length. }
    assert (Sx : vsh (build dx td xs) = build (vsh dz) td (map vsh xs)).
    { rewrite build_vsh. apply build_dflt_irrelevant. rewrite map_length. apply Nat.eq_le_incl. symmetry. exact Hlen. }
    assert (Sy : vsh (build dy td ys) = build (vsh dz) td (map vsh xs)).
    { rewrite build_vsh, <- T1. apply build_dflt_irrelevant. rewrite map_length. apply Nat.eq_le_incl. symmetry. exact Hlen. }
    destruct (vadd_def (build dx td xs) (build dy td ys)) as (c & Hc); [congruence|].
    rewrite Hc. f_equal. destruct (vadd_spec _ _ _ Hc) as (U1 & U2 & U3).
    apply vsh_flat_inj.
    - rewrite U2, Sx, build_vsh, T2. reflexivity.
    - rewrite U3, !build_flat by assumption. now symmetry.
  Qed.

  (* ---------- functools.reduce(add, ...) ---------- *)
  Notation fstep := (fun (acc : option value) (z : value) => obind acc (fun a => vadd a z)).
  Lemma fold_none' l : fold_left fstep l None = None.
  Proof. induction l; cbn; auto. Qed.
  Lemma fold_acc_spec r : forall y Y, fold_left fstep r (Some y) = Some Y ->
    vsh Y = vsh y /\ Forall (fun z => vsh z = vsh y) r /\
    vflat Y = fold_left ladd (map vflat r) (vflat y).
  Proof.
    induction r as [|z r IH]; intros y Y H; cbn in H.
    - inversion H; subst. repeat split. constructor.
    - destruct (vadd y z) as [yz|] eqn:E; [|rewrite fold_none' in H; discriminate].
      destruct (vadd_spec _ _ _ E) as (S1 & S2 & S3). destruct (IH _ _ H) as (A & B & C).
      split; [congruence|]. split.
      + constructor; [congruence|]. eapply Forall_impl; [|exact B]. cbn. intros; congruence.
      + cbn [map fold_left]. now rewrite <- S3.
  Qed.
  Lemma fold_acc_def r : forall y, Forall (fun z => vsh z = vsh y) r -> exists Y, fold_left fstep r (Some y) = Some Y.
  Proof.
    induction r as [|z r IH]; intros y H; cbn.
    - eauto.
    - inversion H as [|? ? Hz Hr]; subst. destruct (vadd_def y z (eq_sym Hz)) as (yz & E). rewrite E.
      destruct (vadd_spec _ _ _ E) as (S1 & S2 & S3). apply IH. eapply Forall_impl; [|exact Hr]. cbn. intros; congruence.
  Qed.
  Lemma ladd_interchange a : forall b u v, ladd (ladd a b) (ladd u v) = ladd (ladd a u) (ladd b v).
  Proof.
    induction a as [|x a IH]; intros [|y b] [|p u] [|q v]; try reflexivity.
    rewrite !ladd_cons. f_equal; [ring|apply IH].
  Qed.
  Lemma fold_interchange rx : forall ry rz a b, omap2 vadd rx ry = Some rz ->
    fold_left ladd (map vflat rz) (ladd a b) =
    ladd (fold_left ladd (map vflat rx) a) (fold_left ladd (map vflat ry) b).
  Proof.
    induction rx as [|x rx IH]; intros [|y ry] rz a b H; cbn in H; try discriminate.
    - inversion H; subst. reflexivity.
    - destruct (vadd x y) as [z|] eqn:E1; [|discriminate].
      destruct (omap2 vadd rx ry) as [rz'|] eqn:E2; [|discriminate]. inversion H; subst rz.
      destruct (vadd_spec _ _ _ E1) as (_ & _ & S3). cbn [map fold_left]. rewrite S3, ladd_interchange.
      now apply IH.
  Qed.
  Lemma vsum_pointwise xs ys zs X Y : omap2 vadd xs ys = Some zs -> vsum xs = Some X -> vsum ys = Some Y ->
    exists Z, vadd X Y = Some Z /\ vsum zs = Some Z.
  Proof.
    intros H HX HY. destruct xs as [|x rx]; [discriminate|]. destruct ys as [|y ry]; [discriminate|].
    cbn in H. destruct (vadd x y) as [z|] eqn:E1; [|discriminate].
    destruct (omap2 vadd rx ry) as [rz|] eqn:E2; [|discriminate]. inversion H; subst zs. clear H.
    cbn [Denote.vsum] in *.
    destruct (fold_acc_spec _ _ _ HX) as (X1 & X2 & X3). destruct (fold_acc_spec _ _ _ HY) as (Y1 & Y2 & Y3).
    destruct (vadd_spec _ _ _ E1) as (S1 & S2 & S3).
    destruct (omap2_vadd_spec _ _ _ E2) as (T1 & T2 & _).
    assert (HZ : Forall (fun w => vsh w = vsh z) rz).
    { apply Forall_forall. intros w Hw. apply (in_map vsh) in Hw. rewrite T2 in Hw.
      apply in_map_iff in Hw as (w' & Hw' & Hin). rewrite <- Hw', S2.
      rewrite Forall_forall in X2. now apply X2. }
    destruct (fold_acc_def rz z HZ) as (Z0 & HZ0). destruct (fold_acc_spec _ _ _ HZ0) as (Z1 & _ & Z3).
    destruct (vadd_def X Y) as (Z & HZa); [congruence|].
    destruct (vadd_spec _ _ _ HZa) as (W1 & W2 & W3).
    exists Z. split; [exact HZa|]. transitivity (Some Z0); [exact HZ0|]. f_equal. apply vsh_flat_inj; [congruence|].
    rewrite Z3, W3, X3, Y3, S3. now apply fold_interchange.
  Qed.

  (* ================= linearity of every operator ================= *)
  Variable leafsem : op -> value -> option value.
  Notation denote := (denote kadd kmul leafsem).
  Notation chain := (chain kadd kmul leafsem).
  Notation denote_list := (denote_list kadd kmul leafsem).
  Notation leaflike := (leaflike K).

  (* what C04 needs to know about leaf operators (primitives, opaque user operators, lazy wrappers):
     they are linear maps between their declared structures *)
  Record lin_facts : Prop := {
    la_hom : forall e k x, leaflike e = true ->
      leafsem e (vscale k x) = option_map (vscale k) (leafsem e x);
    la_add : forall e x y z x' y', leaflike e = true -> vadd x y = Some z ->
      leafsem e x = Some x' -> leafsem e y = Some y' ->
      exists z', vadd x' y' = Some z' /\ leafsem e z = Some z'
  }.
  Hypothesis LA : lin_facts.

  Lemma denote_hom' : forall e k x, denote e (vscale k x) = option_map (vscale k) (denote e x).
  Proof.
    induction e as [i c si so p|i w e IH|i s|i k' s|i l IH|i l IH|i b td l IH] using op_ind'; intros k x.
    - apply (la_hom LA). reflexivity.
    - apply (la_hom LA). reflexivity.
    - reflexivity.
    - cbn [Denote.denote option_map]. f_equal. rewrite !(vscale_vscale Kth). f_equal. ring.
    - rewrite !denote_comp. induction IH as [|e r He _ IHr]; [reflexivity|].
      rewrite !chain_cons, IHr. destruct (chain r x) as [z|]; cbn; [apply He|reflexivity].
    - rewrite !denote_add. rewrite (omapl_hom _ _ _ _ k l x) by (eapply Forall_impl; [|exact IH]; auto).
      destruct (omapl (fun e => denote e x) l) as [ys|]; cbn; [|reflexivity]. apply (vsum_vscale Kth).
    - rewrite !denote_block. destruct (negb _); [reflexivity|].
      assert (HF : Forall (fun e => forall x, denote e (vscale k x) = option_map (vscale k) (denote e x)) l)
        by (eapply Forall_impl; [|exact IH]; auto).
      destruct b.
      + rewrite split_vscale. destruct (split_prefix td x) as [xs|]; cbn [option_map obind]; [|reflexivity].
        unfold DenoteL.denote_list. rewrite (omap2_hom _ _ denote k l xs HF).
        destruct (omap2 denote l xs) as [ys|]; cbn [option_map obind]; [|reflexivity]. apply (vsum_vscale Kth).
      + rewrite split_vscale. destruct (split_prefix td x) as [xs|]; cbn [option_map obind]; [|reflexivity].
        unfold DenoteL.denote_list. rewrite (omap2_hom _ _ denote k l xs HF).
        destruct (omap2 denote l xs) as [ys|]; cbn [option_map]; [|reflexivity]. f_equal. apply build_vscale.
      + rewrite (omapl_hom _ _ _ _ k l x HF).
        destruct (omapl (fun e => denote e x) l) as [ys|]; cbn [option_map]; [|reflexivity]. f_equal. apply build_vscale.
  Qed.

  Definition additive (e : op) : Prop := forall x y z x' y', vadd x y = Some z ->
    denote e x = Some x' -> denote e y = Some y' -> exists z', vadd x' y' = Some z' /\ denote e z = Some z'.

  Lemma omapl_additive l : Forall additive l -> forall x y z xs' ys', vadd x y = Some z ->
    omapl (fun e => denote e x) l = Some xs' -> omapl (fun e => denote e y) l = Some ys' ->
    exists zs', omap2 vadd xs' ys' = Some zs' /\ omapl (fun e => denote e z) l = Some zs'.
  Proof.
    induction 1 as [|e r He _ IH]; intros x y z xs' ys' Hz Hx Hy; cbn in Hx, Hy.
    - inversion Hx; inversion Hy; subst. exists []. split; reflexivity.
    - destruct (denote e x) as [x1|] eqn:E1; [|discriminate].
      destruct (omapl (fun e => denote e x) r) as [xr|] eqn:E2; [|discriminate]. inversion Hx; subst xs'.
      destruct (denote e y) as [y1|] eqn:E3; [|discriminate].
      destruct (omapl (fun e => denote e y) r) as [yr|] eqn:E4; [|discriminate]. inversion Hy; subst ys'.
      destruct (He _ _ _ _ _ Hz E1 E3) as (z1 & A1 & A2). destruct (IH _ _ _ _ _ Hz E2 E4) as (zr & B1 & B2).
      exists (z1 :: zr). cbn. rewrite A1, B1, A2, B2. split; reflexivity.
  Qed.
  Lemma omap2_additive l : Forall additive l -> forall xs ys zs xs' ys', omap2 vadd xs ys = Some zs ->
    omap2 denote l xs = Some xs' -> omap2 denote l ys = Some ys' ->
    exists zs', omap2 vadd xs' ys' = Some zs' /\ omap2 denote l zs = Some zs'.
  Proof.
    induction 1 as [|e r He _ IH]; intros [|x xs] [|y ys] zs xs' ys' Hz Hx Hy; cbn in Hx, Hy, Hz; try discriminate.
    - inversion Hx; inversion Hy; inversion Hz; subst. exists []. split; reflexivity.
    - destruct (vadd x y) as [z|] eqn:Ez; [|discriminate].
      destruct (omap2 vadd xs ys) as [zr0|] eqn:Ezr; [|discriminate]. inversion Hz; subst zs.
      destruct (denote e x) as [x1|] eqn:E1; [|discriminate].
      destruct (omap2 denote r xs) as [xr|] eqn:E2; [|discriminate]. inversion Hx; subst xs'.
      destruct (denote e y) as [y1|] eqn:E3; [|discriminate].
      destruct (omap2 denote r ys) as [yr|] eqn:E4; [|discriminate]. inversion Hy; subst ys'.
      destruct (He _ _ _ _ _ Ez E1 E3) as (z1 & A1 & A2). destruct (IH _ _ _ _ _ Ezr E2 E4) as (zr & B1 & B2).
      exists (z1 :: zr). cbn. rewrite A1, B1, A2, B2. split; reflexivity.
  Qed.

  Theorem denote_additive : forall e, additive e.
  Proof.
    induction e as [i c si so p|i w e IH|i s|i k s|i l IH|i l IH|i b td l IH] using op_ind';
      intros x y z x' y' Hz Hx Hy.
    - cbn [Denote.denote] in *. eapply (la_add LA); eauto.
    - cbn [Denote.denote] in *. eapply (la_add LA); eauto.
    - cbn [Denote.denote] in *. inversion Hx; inversion Hy; subst. eauto.
    - cbn [Denote.denote] in *. inversion Hx; inversion Hy; subst.
      exists (vscale k z). rewrite (vadd_vscale Kth), Hz. split; reflexivity.
    - rewrite denote_comp in *. revert x' y' Hx Hy.
      induction IH as [|e r He _ IHr]; intros x' y' Hx Hy.
      + cbn in Hx, Hy. inversion Hx; inversion Hy; subst. exists z. split; [exact Hz|reflexivity].
      + rewrite chain_cons in Hx, Hy |- *.
        destruct (chain r x) as [x1|] eqn:E1; [|discriminate]. destruct (chain r y) as [y1|] eqn:E2; [|discriminate].
        destruct (IHr _ _ eq_refl eq_refl) as (z1 & A1 & A2). cbn [obind] in Hx, Hy.
        destruct (He _ _ _ _ _ A1 Hx Hy) as (z' & B1 & B2). exists z'. split; [exact B1|].
        rewrite A2. exact B2.
    - rewrite denote_add in *.
      destruct (omapl (fun e => denote e x) l) as [xs'|] eqn:E1; [|discriminate].
      destruct (omapl (fun e => denote e y) l) as [ys'|] eqn:E2; [|discriminate]. cbn [obind] in Hx, Hy.
      destruct (omapl_additive l IH _ _ _ _ _ Hz E1 E2) as (zs' & A1 & A2).
      destruct (vsum_pointwise _ _ _ _ _ A1 Hx Hy) as (Z & B1 & B2).
      exists Z. split; [exact B1|]. rewrite A2. exact B2.
    - rewrite denote_block in *. destruct (negb _) eqn:En; [discriminate|]. destruct b.
      + (* block row *)
        destruct (split_prefix td x) as [xs|] eqn:Sx; [|discriminate].
        destruct (split_prefix td y) as [ys|] eqn:Sy; [|discriminate]. cbn [obind] in Hx, Hy.
        destruct (split_vadd td _ _ _ _ _ Hz Sx Sy) as (zs & Sz & Hzs). rewrite Sz. cbn [obind].
        unfold DenoteL.denote_list in *.
        destruct (omap2 denote l xs) as [xs'|] eqn:E1; [|discriminate].
        destruct (omap2 denote l ys) as [ys'|] eqn:E2; [|discriminate]. cbn [obind] in Hx, Hy.
        destruct (omap2_additive l IH _ _ _ _ _ Hzs E1 E2) as (zs' & A1 & A2).
        destruct (vsum_pointwise _ _ _ _ _ A1 Hx Hy) as (Z & B1 & B2).
        exists Z. split; [exact B1|]. rewrite A2. exact B2.
      + (* block diagonal *)
        destruct (split_prefix td x) as [xs|] eqn:Sx; [|discriminate].
        destruct (split_prefix td y) as [ys|] eqn:Sy; [|discriminate]. cbn [obind] in Hx, Hy.
        destruct (split_vadd td _ _ _ _ _ Hz Sx Sy) as (zs & Sz & Hzs). rewrite Sz. cbn [obind].
        unfold DenoteL.denote_list in *.
        destruct (omap2 denote l xs) as [xs'|] eqn:E1; [|discriminate].
        destruct (omap2 denote l ys) as [ys'|] eqn:E2; [|discriminate]. cbn in Hx, Hy.
        inversion Hx; inversion Hy; subst x' y'.
        destruct (omap2_additive l IH _ _ _ _ _ Hzs E1 E2) as (zs' & A1 & A2).
        exists (build z td zs'). rewrite A2. split; [|reflexivity].
        apply build_vadd; [exact A1|].
        destruct (omap2_length _ _ _ _ _ E1) as [L1 L2]. rewrite L1, <- L2. now apply (split_length _ _ Sx).
      + (* block column *)
        destruct (omapl (fun e => denote e x) l) as [xs'|] eqn:E1; [|discriminate].
        destruct (omapl (fun e => denote e y) l) as [ys'|] eqn:E2; [|discriminate]. cbn in Hx, Hy.
        inversion Hx; inversion Hy; subst x' y'.
        destruct (omapl_additive l IH _ _ _ _ _ Hz E1 E2) as (zs' & A1 & A2).
        exists (build z td zs'). rewrite A2. split; [|reflexivity].
        apply build_vadd; [exact A1|]. rewrite (omapl_length _ _ _ _ E1).
        apply negb_false_iff, Nat.eqb_eq in En. exact En.
  Qed.

  (* a x + b y *)
  Theorem denote_linear_l : forall e a b x y x' y' z, denote e x = Some x' -> denote e y = Some y' ->
    vadd (vscale a x) (vscale b y) = Some z ->
    exists z', vadd (vscale a x') (vscale b y') = Some z' /\ denote e z = Some z'.
  Proof.
    intros e a b x y x' y' z Hx Hy Hz.
    apply (denote_additive e _ _ _ _ _ Hz); rewrite denote_hom'; [now rewrite Hx|now rewrite Hy].
  Qed.

  (* ================= structures of values ================= *)
  Fixpoint all2 {A B} (f : A -> B -> bool) (l : list A) (l' : list B) : bool :=
    match l, l' with
    | [], [] => true
    | a :: r, b :: r' => f a b && all2 f r r'
    | _, _ => false
    end.
  Lemma vhas_node k cs k' ss : vhas (Node k cs) (Node k' ss) = ckind_eqb k k' && all2 vhas cs ss.
  Proof.
    cbn [AsMatrix.vhas]. f_equal. revert ss. induction cs as [|c r IH]; intros [|b r']; cbn; try reflexivity. now rewrite IH.
  Qed.
  Notation shp := (pmap leaf_size).
  Lemma vhas_vsh x : forall s, vhas x s = true <-> vsh x = shp s.
  Proof.
    induction x as [d|k cs IH] using pt_ind'; intros [sd|k' ss].
    - cbn. unfold vleaf_ok. cbn. rewrite Nat.eqb_eq. split; [intros ->; reflexivity|intros H; now inversion H].
    - cbn. split; discriminate.
    - cbn. split; discriminate.
    - rewrite vhas_node, andb_true_iff. cbn [pmap].
      assert (HL : all2 vhas cs ss = true <-> map vsh cs = map shp ss).
      { revert ss. induction IH as [|c r Hc _ IHr]; intros [|b r']; cbn; try (split; [discriminate|discriminate]); [tauto|].
        rewrite andb_true_iff, Hc, IHr. split; [intros [-> ->]; reflexivity|intros H; inversion H; auto]. }
      rewrite HL. split.
      + intros [Hk ->]. apply ckind_eqb_eq in Hk. now subst.
      + intros H. inversion H; subst. split; [apply ckind_eqb_refl|reflexivity].
  Qed.
  Lemma shp_size (s : struct) : lsum (flatten (shp s)) = struct_size s.
  Proof. unfold struct_size, lsum. now rewrite flatten_pmap. Qed.
  Lemma vhas_length x s : vhas x s = true -> List.length (vflat x) = struct_size s.
  Proof. intros H. apply vhas_vsh in H. now rewrite vflat_length, H, shp_size. Qed.

  Fixpoint vunflat_list (ss : list struct) (v : list K) : list value * list K :=
    match ss with
    | [] => ([], v)
    | s :: ss' => let '(c, r1) := vunflat s v in let '(cs, r2) := vunflat_list ss' r1 in (c :: cs, r2)
    end.
  Lemma vunflat_node k ss v : vunflat (Node k ss) v = let '(cs, r) := vunflat_list ss v in (Node k cs, r).
  Proof.
    cbn [AsMatrix.vunflat].
    match goal with |- (let '(cs, r) := ?A in _) = (let '(cs, r) := ?B in _) => assert (HAB : A = B) end.
    { revert v. induction ss as [|s ss IH]; intros v; cbn; [reflexivity|]. destruct (vunflat s v) as [c r1]. now rewrite IH. }
    now rewrite HAB.
  Qed.
  Lemma struct_size_node k ss : struct_size (Node k ss) = lsum (map struct_size ss).
  Proof.
    unfold struct_size. cbn [flatten]. induction ss as [|s ss IH]; [reflexivity|].
    cbn [flat_map map]. rewrite map_app. fold (lsum (map leaf_size (flatten s) ++ map leaf_size (flat_map flatten ss))).
    rewrite lsum_app. unfold lsum in *. cbn. now rewrite IH.
  Qed.
  Lemma vunflat_spec s : forall v, struct_size s <= List.length v ->
    vsh (fst (vunflat s v)) = shp s /\ vflat (fst (vunflat s v)) ++ snd (vunflat s v) = v /\
    List.length (snd (vunflat s v)) = List.length v - struct_size s.
  Proof.
    induction s as [sd|k ss IH] using pt_ind'; intros v H.
    - unfold struct_size in H. cbn [flatten map fold_right] in H. cbn [AsMatrix.vunflat fst snd]. rewrite vflat_leaf, firstn_skipn.
      unfold struct_size. cbn [pmap flatten map fold_right]. rewrite firstn_length, skipn_length.
      split; [f_equal; lia|]. split; [reflexivity|lia].
    - rewrite vunflat_node, struct_size_node in *.
      assert (HL : forall v, lsum (map struct_size ss) <= List.length v ->
                map vsh (fst (vunflat_list ss v)) = map shp ss /\
                List.concat (map vflat (fst (vunflat_list ss v))) ++ snd (vunflat_list ss v) = v /\
                List.length (snd (vunflat_list ss v)) = List.length v - lsum (map struct_size ss)).
      { clear v H. unfold lsum. induction IH as [|s ss' Hs _ IHl]; intros v H; cbn [map fold_right vunflat_list] in H |- *.
        - cbn [fst snd map List.concat app]. repeat split. lia.
        - destruct (Hs v ltac:(lia)) as (A1 & A2 & A3). destruct (vunflat s v) as [c r1]. cbn [fst snd] in *.
          destruct (IHl r1 ltac:(lia)) as (B1 & B2 & B3). destruct (vunflat_list ss' r1) as [cs r2]. cbn [fst snd] in *.
          cbn [map List.concat]. rewrite A1, B1. repeat split; [|lia].
          rewrite <- app_assoc, B2. exact A2. }
      destruct (HL v H) as (A1 & A2 & A3). destruct (vunflat_list ss v) as [cs r]. cbn [fst snd] in *.
      rewrite vflat_node. cbn [pmap]. rewrite A1. auto.
  Qed.
  Lemma unflat_vsh s v : List.length v = struct_size s -> vsh (unflat s v) = shp s.
  Proof. intros H. apply vunflat_spec. lia. Qed.
  Lemma unflat_vhas s v : List.length v = struct_size s -> vhas (unflat s v) s = true.
  Proof. intros H. apply vhas_vsh. now apply unflat_vsh. Qed.
  Lemma unflat_flat s v : List.length v = struct_size s -> vflat (unflat s v) = v.
  Proof.
    intros H. destruct (vunflat_spec s v ltac:(lia)) as (_ & A2 & A3). unfold AsMatrix.unflat.
    destruct (snd (vunflat s v)) as [|? ?]; [now rewrite app_nil_r in A2|cbn in A3; lia].
  Qed.
  Lemma flat_unflat x s : vhas x s = true -> unflat s (vflat x) = x.
  Proof.
    intros H. pose proof (vhas_length _ _ H) as L. apply vsh_flat_inj.
    - rewrite unflat_vsh by exact L. symmetry. now apply vhas_vsh.
    - now apply unflat_flat.
  Qed.
  Lemma unflat_add s u v : List.length u = struct_size s -> List.length v = struct_size s ->
    vadd (unflat s u) (unflat s v) = Some (unflat s (ladd u v)).
  Proof.
    intros Hu Hv. destruct (vadd_def (unflat s u) (unflat s v)) as (c & Hc); [now rewrite !unflat_vsh|].
    rewrite Hc. f_equal. destruct (vadd_spec _ _ _ Hc) as (S1 & S2 & S3).
    assert (L : List.length (ladd u v) = struct_size s) by (rewrite ladd_length_eq; congruence).
    apply vsh_flat_inj.
    - now rewrite S2, !unflat_vsh.
    - now rewrite S3, !unflat_flat.
  Qed.
  Lemma unflat_scale s a v : List.length v = struct_size s -> unflat s (lscale a v) = vscale a (unflat s v).
  Proof.
    intros Hv. assert (L : List.length (lscale a v) = struct_size s) by now rewrite map_length.
    apply vsh_flat_inj.
    - now rewrite vsh_vscale, !unflat_vsh.
    - now rewrite vflat_vscale, !unflat_flat.
  Qed.

  (* ================= basis vectors ================= *)
  Notation ind t := (fun i => if Nat.eqb i t then k1 else k0).
  Lemma ind_above t : forall n a, t < a -> map (ind t) (seq a n) = zeros n.
  Proof.
    induction n as [|n IH]; intros a H; [reflexivity|]. cbn [seq map].
    destruct (Nat.eqb a t) eqn:E; [apply Nat.eqb_eq in E; lia|].
    unfold AsMatrix.zeros. cbn [repeat]. f_equal. apply IH. lia.
  Qed.
  Lemma ind_split t : forall n a, a <= t -> t < a + n ->
    map (ind t) (seq a n) = zeros (t - a) ++ k1 :: zeros (a + n - S t).
  Proof.
    induction n as [|n IH]; intros a H1 H2; [lia|]. cbn [seq map].
    destruct (Nat.eqb a t) eqn:E.
    - apply Nat.eqb_eq in E. subst a. rewrite Nat.sub_diag. cbn [app AsMatrix.zeros repeat]. f_equal.
      rewrite ind_above by lia. replace (t + S n - S t) with n by lia. reflexivity.
    - apply Nat.eqb_neq in E. rewrite IH by lia.
      replace (t - a) with (S (t - S a)) by lia. replace (S a + n - S t) with (a + S n - S t) by lia. reflexivity.
  Qed.
  Lemma onehot_split n j : j < n -> onehot n j = zeros j ++ k1 :: zeros (n - S j).
  Proof. intros H. unfold AsMatrix.onehot. rewrite ind_split by lia. now rewrite Nat.sub_0_r. Qed.
  Lemma onehot_length n j : List.length (onehot n j) = n.
  Proof. unfold AsMatrix.onehot. now rewrite map_length, seq_length. Qed.

  Lemma zeros_S_r k : zeros (S k) = zeros k ++ [k0].
  Proof. unfold AsMatrix.zeros. induction k as [|k IH]; [reflexivity|]. cbn [repeat app] in *. now rewrite <- IH. Qed.
  (* zeros k ++ a :: w  =  a * e_k + (zeros (k+1) ++ w) *)
  Lemma vector_step k a w : zeros k ++ a :: w =
    ladd (lscale a (onehot (k + S (List.length w)) k)) (zeros (S k) ++ w).
  Proof.
    rewrite onehot_split by lia. replace (k + S (List.length w) - S k) with (List.length w) by lia.
    rewrite map_app. cbn [map]. rewrite !lscale_zeros.
    rewrite (zeros_S_r k).
    rewrite <- app_assoc. cbn [app].
    rewrite ladd_app by now rewrite !zeros_length. rewrite ladd_zeros_l by apply zeros_length.
    f_equal. rewrite ladd_cons. f_equal; [ring|]. symmetry. apply ladd_zeros_l. reflexivity.
  Qed.

  (* ================= the generic matrix is the matrix of the application ================= *)
  Notation matvec_cols := (matvec_cols K k0 kadd kmul).
  Notation matvec := (matvec K k0 kadd kmul).
  Notation generic_columns := (generic_columns K k0 k1 kadd kmul leafsem).
  Notation basis_value := (basis_value K k0 k1).
  Notation fit := (fit K).

  (* the declared output size is the size of what the operator returns (C05) *)
  Definition honest (e : op) : Prop := forall x y, vhas x (in_struct e) = true -> denote e x = Some y ->
    List.length (vflat y) = out_size e.

  Lemma fit_id n col : List.length col = n -> fit n col = Some col.
  Proof. intros H. unfold AsMatrix.fit. now rewrite H, Nat.eqb_refl. Qed.

  Lemma omapl_nth (A B : Type) (f : A -> option B) (d : A) (d' : B) l : forall ys, omapl f l = Some ys ->
    List.length ys = List.length l /\ forall j, j < List.length l -> f (nth j l d) = Some (nth j ys d').
  Proof.
    induction l as [|a l IH]; intros ys H; cbn in H.
    - inversion H; subst. split; [reflexivity|]. cbn. lia.
    - destruct (f a) as [b|] eqn:E; [|discriminate]. destruct (omapl f l) as [ys'|]; [|discriminate].
      inversion H; subst ys. destruct (IH _ eq_refl) as [L N]. split; [cbn; lia|].
      intros [|j] Hj; cbn; [exact E|]. apply N. cbn in Hj. lia.
  Qed.

  Lemma basis_vhas s j : vhas (basis_value s j) s = true.
  Proof. apply unflat_vhas, onehot_length. Qed.

  Lemma generic_columns_spec e cols : honest e -> generic_columns e = Some cols ->
    List.length cols = in_size e /\
    forall j, j < in_size e -> exists y, denote e (basis_value (in_struct e) j) = Some y /\
      nth j cols [] = vflat y /\ List.length (vflat y) = out_size e.
  Proof.
    intros Hh H. unfold AsMatrix.generic_columns in H.
    destruct (omapl_nth _ _ _ 0 (@nil K) _ _ H) as [L N]. rewrite seq_length in L, N. split; [exact L|].
    intros j Hj. specialize (N j Hj). rewrite seq_nth in N by exact Hj. cbn [Nat.add] in N.
    unfold AsMatrix.column_of in N.
    destruct (denote e (basis_value (in_struct e) j)) as [y|] eqn:E; [|discriminate]. cbn [obind] in N.
    pose proof (Hh _ _ (basis_vhas _ _) E) as Ly. rewrite (fit_id _ _ Ly) in N. inversion N as [N'].
    exists y. auto.
  Qed.

  Lemma skipn_nth_cons (A : Type) (d : A) (l : list A) : forall k, k < List.length l -> skipn k l = nth k l d :: skipn (S k) l.
  Proof.
    induction l as [|a l IH]; intros [|k] H; cbn in H; try lia; [reflexivity|]. cbn [skipn nth]. rewrite IH by lia. reflexivity.
  Qed.

  Section Extend.
    Variables (e : op) (cols : list (list K)) (m : nat).
    Let s := in_struct e.
    Let n := struct_size s.
    Hypothesis Hn : List.length cols = n.
    Hypothesis Hcols : forall j, j < n -> exists y, denote e (unflat s (onehot n j)) = Some y /\
      nth j cols [] = vflat y /\ List.length (vflat y) = m.

    Lemma lin_extend : 0 < n -> forall w k, k + List.length w = n ->
      exists y, denote e (unflat s (zeros k ++ w)) = Some y /\ vflat y = matvec_cols m (skipn k cols) w.
    Proof.
      intros Hpos. induction w as [|a w IH]; intros k Hk; cbn [List.length] in Hk.
      - rewrite app_nil_r. assert (k = n) by lia. subst k.
        destruct (Hcols 0 Hpos) as (y0 & E0 & _ & L0).
        replace (zeros n) with (lscale k0 (onehot n 0)) by (rewrite lscale0; f_equal; apply onehot_length).
        rewrite unflat_scale by apply onehot_length. rewrite denote_hom', E0. cbn [option_map].
        exists (vscale k0 y0). split; [reflexivity|]. rewrite vflat_vscale, lscale0, L0.
        destruct (skipn n cols); reflexivity.
      - assert (Hkn : k < n) by lia.
        destruct (Hcols k Hkn) as (yk & Ek & Nk & Lk).
        destruct (IH (S k) ltac:(lia)) as (y2 & E2 & F2).
        rewrite vector_step. replace (k + S (List.length w)) with n by lia.
        assert (L1 : List.length (lscale a (onehot n k)) = struct_size s) by (rewrite map_length; apply onehot_length).
        assert (L2 : List.length (zeros (S k) ++ w) = struct_size s) by (rewrite app_length, zeros_length; fold n; lia).
        pose proof (unflat_add s _ _ L1 L2) as Hadd.
        assert (E1 : denote e (unflat s (lscale a (onehot n k))) = Some (vscale a yk)).
        { rewrite unflat_scale by apply onehot_length. now rewrite denote_hom', Ek. }
        destruct (denote_additive e _ _ _ _ _ Hadd E1 E2) as (z' & A1 & A2).
        exists z'. split; [exact A2|]. destruct (vadd_spec _ _ _ A1) as (_ & _ & S3).
        rewrite S3, vflat_vscale, F2. rewrite (skipn_nth_cons _ [] cols k) by (rewrite Hn; exact Hkn).
        rewrite Nk. reflexivity.
    Qed.
  End Extend.

  (* apply_is_matvec, for the matrix given by its columns *)
  Theorem columns_matvec e cols : honest e -> generic_columns e = Some cols ->
    forall x y, vhas x (in_struct e) = true -> denote e x = Some y ->
    vflat y = matvec (mkMat (out_size e) cols) (vflat x).
  Proof.
    intros Hh Hc x y Hx Hy. destruct (generic_columns_spec e cols Hh Hc) as [L N].
    unfold AsMatrix.matvec. cbn [m_nr m_cols].
    destruct (Nat.eq_dec (in_size e) 0) as [Z|NZ].
    - (* no input element at all: x = 0 * x *)
      pose proof (vhas_length _ _ Hx) as Lx. fold (in_size e) in Lx. rewrite Z in Lx.
      destruct (vflat x) eqn:Fx; [|discriminate]. destruct cols; [|cbn in L; lia]. cbn [AsMatrix.matvec_cols].
      assert (Hx0 : vscale k0 x = x).
      { apply vsh_flat_inj; [apply vsh_vscale|]. now rewrite vflat_vscale, Fx. }
      pose proof (denote_hom' e k0 x) as Hh0. rewrite Hx0, Hy in Hh0. cbn in Hh0. inversion Hh0 as [Hy0].
      rewrite vflat_vscale, lscale0. f_equal. exact (Hh _ _ Hx Hy).
    - destruct (lin_extend e cols (out_size e) L N ltac:(unfold in_size in NZ; lia) (vflat x) 0) as (y' & E' & F').
      { cbn. exact (vhas_length _ _ Hx). }
      cbn [AsMatrix.zeros repeat app skipn] in E', F'. rewrite (flat_unflat _ _ Hx), Hy in E'. inversion E'; subst y'. exact F'.
  Qed.

  (* ================= matrix-vector products of the dense constructions ================= *)
  Notation mat := (mat K).
  Notation eye := (eye K k0 k1).
  Notation mscale := (mscale K kmul).
  Notation madd := (madd K kadd).
  Notation msum := (msum K kadd).
  Notation hstack := (hstack K).
  Notation vstack := (vstack K).
  Notation block_diag := (block_diag K k0).
  Definition colsok (m : nat) (cols : list (list K)) : Prop := Forall (fun c => List.length c = m) cols.
  Definition mwf (M : mat) : Prop := colsok (m_nr M) (m_cols M).

  Lemma mv_length m cols : colsok m cols -> forall v, List.length (matvec_cols m cols v) = m.
  Proof.
    induction 1 as [|c cs Hc _ IH]; intros v; [destruct v; apply zeros_length|].
    destruct v as [|a v]; [apply zeros_length|]. cbn [AsMatrix.matvec_cols].
    rewrite ladd_length_eq; [apply IH|]. now rewrite map_length, Hc, IH.
  Qed.
  Lemma mv_nil_v m cols : matvec_cols m cols [] = zeros m.
  Proof. destruct cols; reflexivity. Qed.
  Lemma mv_app m c1 : forall v1 c2 v2, List.length c1 = List.length v1 -> colsok m c1 -> colsok m c2 ->
    matvec_cols m (c1 ++ c2) (v1 ++ v2) = ladd (matvec_cols m c1 v1) (matvec_cols m c2 v2).
  Proof.
    induction c1 as [|c cs IH]; intros [|a v1] c2 v2 HL H1 H2; cbn in HL; try discriminate.
    - cbn [app AsMatrix.matvec_cols]. symmetry. apply ladd_zeros_l. now apply mv_length.
    - inversion H1; subst. cbn [app AsMatrix.matvec_cols]. rewrite IH by (auto; lia). now rewrite ladd_assoc.
  Qed.
  Lemma mv_eye_gen n : forall w k, k + List.length w = n ->
    matvec_cols n (map (onehot n) (seq k (List.length w))) w = zeros k ++ w.
  Proof.
    induction w as [|a w IH]; intros k Hk; cbn [List.length] in *.
    - cbn. rewrite app_nil_r. f_equal. lia.
    - cbn [seq map AsMatrix.matvec_cols]. rewrite IH by lia. rewrite vector_step. f_equal. f_equal. f_equal. lia.
  Qed.
  Lemma mv_eye n v : List.length v = n -> matvec (eye n) v = v.
  Proof. intros H. unfold AsMatrix.matvec, AsMatrix.eye. cbn [m_nr m_cols]. subst n. exact (mv_eye_gen _ v 0 eq_refl). Qed.
  Lemma mv_scale m k cols : forall v, matvec_cols m (map (fun c => lscale k c) cols) v = lscale k (matvec_cols m cols v).
  Proof.
    induction cols as [|c cs IH]; intros [|a v]; cbn [map AsMatrix.matvec_cols]; try (now rewrite lscale_zeros).
    rewrite IH, lscale_ladd, !lscale_lscale. f_equal. apply map_ext. intros; ring.
  Qed.
  Lemma mv_add m c1 : forall c2 v, List.length c1 = List.length c2 -> colsok m c1 -> colsok m c2 ->
    matvec_cols m (map (fun p => ladd (fst p) (snd p)) (combine c1 c2)) v = ladd (matvec_cols m c1 v) (matvec_cols m c2 v).
  Proof.
    induction c1 as [|a c1 IH]; intros [|b c2] v HL H1 H2; cbn in HL; try discriminate.
    - cbn. rewrite !mv_nil_v || destruct v; cbn; symmetry; apply ladd_zeros_l, zeros_length.
    - inversion H1; inversion H2; subst. destruct v as [|x v]; cbn [combine map fst snd AsMatrix.matvec_cols].
      + symmetry; apply ladd_zeros_l, zeros_length.
      + rewrite IH by (auto; lia). rewrite lscale_ladd. apply ladd_interchange.
  Qed.
  Lemma mv_pad_r mA mR cols : colsok mA cols -> forall v,
    matvec_cols (mA + mR) (map (fun c => c ++ zeros mR) cols) v = matvec_cols mA cols v ++ zeros mR.
  Proof.
    induction 1 as [|c cs Hc Hcs IH]; intros v; [destruct v; cbn; apply zeros_app|].
    destruct v as [|a v]; [cbn; apply zeros_app|]. cbn [map AsMatrix.matvec_cols]. rewrite IH, map_app, lscale_zeros.
    rewrite ladd_app by (rewrite map_length, Hc; symmetry; now apply mv_length).
    f_equal. apply ladd_zeros_l, zeros_length.
  Qed.
  Lemma mv_pad_l mA mR cols : colsok mR cols -> forall v,
    matvec_cols (mA + mR) (map (fun c => zeros mA ++ c) cols) v = zeros mA ++ matvec_cols mR cols v.
  Proof.
    induction 1 as [|c cs Hc Hcs IH]; intros v; [destruct v; cbn; apply zeros_app|].
    destruct v as [|a v]; [cbn; apply zeros_app|]. cbn [map AsMatrix.matvec_cols]. rewrite IH, map_app, lscale_zeros.
    rewrite ladd_app by now rewrite !zeros_length.
    f_equal. apply ladd_zeros_l, zeros_length.
  Qed.
  Lemma mv_vstack2 mA mB cA : forall cB v, List.length cA = List.length cB -> colsok mA cA -> colsok mB cB ->
    matvec_cols (mA + mB) (map (fun p => fst p ++ snd p) (combine cA cB)) v = matvec_cols mA cA v ++ matvec_cols mB cB v.
  Proof.
    induction cA as [|a cA IH]; intros [|b cB] v HL H1 H2; cbn in HL; try discriminate.
    - destruct v; cbn; apply zeros_app.
    - inversion H1; inversion H2; subst. destruct v as [|x v]; cbn [combine map fst snd AsMatrix.matvec_cols]; [apply zeros_app|].
      rewrite IH by (auto; lia). rewrite map_app.
      rewrite ladd_app; [reflexivity|]. rewrite map_length. symmetry. rewrite mv_length by assumption. congruence.
  Qed.
  Lemma mv_zeros_v m cols : colsok m cols -> forall n, matvec_cols m cols (zeros n) = zeros m.
  Proof.
    induction 1 as [|c cs Hc _ IH]; intros [|n]; try reflexivity. cbn [AsMatrix.zeros repeat AsMatrix.matvec_cols].
    fold (zeros n). rewrite IH, lscale0, Hc. apply ladd_zeros_l, zeros_length.
  Qed.
  (* a matrix is determined by its products with the basis vectors *)
  Lemma mv_onehot m cols : colsok m cols -> forall j, j < List.length cols ->
    matvec_cols m cols (onehot (List.length cols) j) = nth j cols [].
  Proof.
    intros H j Hj. rewrite onehot_split by exact Hj.
    rewrite <- (firstn_skipn j cols) at 1.
    assert (L1 : List.length (firstn j cols) = j) by (rewrite firstn_length; lia).
    assert (C12 : colsok m (firstn j cols) /\ colsok m (skipn j cols)).
    { apply Forall_app. unfold colsok in H. now rewrite firstn_skipn. }
    destruct C12 as [C1 C2].
    rewrite mv_app; [|now rewrite zeros_length|exact C1|exact C2].
    rewrite (skipn_nth_cons _ [] cols j Hj) in *. cbn [AsMatrix.matvec_cols].
    inversion C2 as [|? ? Hc Hr]; subst.
    rewrite (mv_zeros_v _ _ C1), (mv_zeros_v _ _ Hr). rewrite ladd_zeros_l by (rewrite ladd_length_eq; now rewrite ?map_length, ?zeros_length).
    rewrite ladd_zeros_r by now rewrite map_length. rewrite <- (lscale1 (nth j cols [])) at 2. apply map_ext. intros; ring.
  Qed.
  Lemma mat_ext (A B : mat) : mwf A -> mwf B -> m_nr A = m_nr B -> List.length (m_cols A) = List.length (m_cols B) ->
    (forall v, List.length v = List.length (m_cols A) -> matvec A v = matvec B v) -> A = B.
  Proof.
    destruct A as [ma ca], B as [mb cb]. unfold mwf, AsMatrix.matvec. cbn [m_nr m_cols]. intros HA HB -> HL Hv. f_equal.
    apply (nth_ext _ _ [] []); [exact HL|]. intros j Hj.
    rewrite <- (mv_onehot mb ca HA j Hj), (Hv _ (onehot_length _ _)), HL. apply mv_onehot; [exact HB|lia].
  Qed.

  (* ================= an override that acts like the operator IS the generic matrix ================= *)
  (* M represents e: an (out_size x in_size) array whose product with the flattened input is the
     flattened output *)
  Definition repr (e : op) (M : mat) : Prop :=
    mwf M /\ m_nr M = out_size e /\ List.length (m_cols M) = in_size e /\
    forall x y, vhas x (in_struct e) = true -> denote e x = Some y -> vflat y = matvec M (vflat x).

  Lemma repr_to_columns e M cols : repr e M -> honest e -> generic_columns e = Some cols ->
    M = mkMat (out_size e) cols.
  Proof.
    intros (W & Hr & Hc & Hmv) Hh Hg. destruct (generic_columns_spec e cols Hh Hg) as [L N].
    assert (W' : mwf (mkMat (out_size e) cols)).
    { unfold mwf, colsok. cbn [m_nr m_cols]. apply (Forall_nth _ cols). intros j d Hj. rewrite L in Hj.
      destruct (N j Hj) as (y & _ & Ny & Ly). rewrite (nth_indep cols d [] ) by (rewrite L; exact Hj). now rewrite Ny. }
    apply mat_ext; auto; cbn [m_nr m_cols]; [congruence|].
    intros v Hv. rewrite Hc in Hv.
    destruct (Nat.eq_dec (in_size e) 0) as [Z|NZ].
    - rewrite Z in Hv. destruct v; [|discriminate]. unfold AsMatrix.matvec. cbn [m_nr m_cols]. rewrite !mv_nil_v. now rewrite Hr.
    - destruct (lin_extend e cols (out_size e) L N ltac:(unfold in_size in NZ; lia) v 0 Hv) as (y & E & F).
      cbn [AsMatrix.zeros repeat app skipn] in E, F.
      assert (Hx : vhas (unflat (in_struct e) v) (in_struct e) = true) by now apply unflat_vhas.
      rewrite <- (unflat_flat (in_struct e) v Hv) at 1 2.
      rewrite <- (Hmv _ _ Hx E). rewrite (columns_matvec e cols Hh Hg _ _ Hx E). reflexivity.
  Qed.

  Lemma eye_wf n : mwf (eye n).
  Proof. unfold mwf, colsok, AsMatrix.eye. cbn [m_nr m_cols]. apply Forall_forall. intros c Hc.
    apply in_map_iff in Hc as (j & <- & _). apply onehot_length. Qed.
  Lemma ident_structs i s : in_struct (Ident i s : op) = s /\ out_struct (Ident i s : op) = s.
  Proof. split; reflexivity. Qed.

  Lemma repr_ident i s : repr (Ident i s) (eye (in_size (Ident i s : op))).
  Proof.
    unfold repr. cbn [m_nr m_cols AsMatrix.eye]. rewrite map_length, seq_length.
    split; [apply eye_wf|]. split; [reflexivity|]. split; [reflexivity|].
    intros x y Hx Hy. cbn [Denote.denote] in Hy. inversion Hy; subst y.
    symmetry. apply mv_eye. exact (vhas_length _ _ Hx).
  Qed.
  Lemma repr_homoth i k s : repr (Homoth i k s) (mscale k (eye (in_size (Homoth i k s : op)))).
  Proof.
    unfold repr, AsMatrix.mscale. cbn [m_nr m_cols AsMatrix.eye]. rewrite !map_length, seq_length.
    split.
    { unfold mwf, colsok. cbn [m_nr m_cols]. apply Forall_forall. intros c Hc.
      apply in_map_iff in Hc as (c' & <- & Hc'). apply in_map_iff in Hc' as (j & <- & _). rewrite map_length. apply onehot_length. }
    split; [reflexivity|]. split; [reflexivity|].
    intros x y Hx Hy. cbn [Denote.denote] in Hy. inversion Hy; subst y.
    rewrite vflat_vscale. unfold AsMatrix.matvec. cbn [m_nr m_cols]. rewrite mv_scale. f_equal.
    symmetry. apply (mv_eye _ (vflat x)). exact (vhas_length _ _ Hx).
  Qed.
  Lemma honest_ident i s : honest (Ident i s).
  Proof. intros x y Hx Hy. cbn [Denote.denote] in Hy. inversion Hy; subst. exact (vhas_length _ _ Hx). Qed.
  Lemma honest_homoth i k s : honest (Homoth i k s).
  Proof.
    intros x y Hx Hy. cbn [Denote.denote] in Hy. inversion Hy; subst. rewrite vflat_vscale, map_length.
    exact (vhas_length _ _ Hx).
  Qed.

  (* override_eq_generic for IdentityOperator and HomothetyOperator (any pytree structure) *)
  Theorem override_ident_homoth (leaf_override : op -> option mat) (minv : mat -> option mat) e M cols :
    (exists i s, e = Ident i s) \/ (exists i k s, e = Homoth i k s) ->
    as_matrix K k0 k1 kadd kmul leafsem leaf_override minv e = Some M ->
    generic_columns e = Some cols -> M = mkMat (out_size e) cols.
  Proof.
    intros [(i & s & ->)|(i & k & s & ->)] HM Hg; cbn [AsMatrix.as_matrix] in HM; inversion HM; subst M.
    - apply repr_to_columns; [apply repr_ident|apply honest_ident|exact Hg].
    - apply repr_to_columns; [apply repr_homoth|apply honest_homoth|exact Hg].
  Qed.

  (* ================= every override represents its operator ================= *)
  Section Override.
    Variable leaf_override : op -> option mat.
    Variable minv : mat -> option mat.
    Notation as_matrix := (as_matrix K k0 k1 kadd kmul leafsem leaf_override minv).
    Notation as_matrix_generic := (as_matrix_generic K k0 k1 kadd kmul leafsem).
    Notation wfo := (@wfo K).

    (* the transcribed fori_loop builds the matrix of columns (checked by the correspondence) *)
    Hypothesis LOOP : forall e, as_matrix_generic e = option_map (mkMat (out_size e)) (generic_columns e).
    (* C05: what a well-formed operator returns has its declared output size *)
    Hypothesis HON : forall e, wfo e = true -> honest e.
    (* leaf-level overrides: DiagonalOperator / Toeplitz / DiagonalInverse (C11, C09), ravel/reshape = eye *)
    Hypothesis HOV : forall e M, leaf_override e = Some M -> repr e M.
    Hypothesis HRESH : forall i c si so p, c = CRavel \/ c = CReshape ->
      repr (Prim i c si so p) (eye (in_size (Prim i c si so p : op))).
    (* jnp.linalg.inv returned a left inverse *)
    Hypothesis HINV : forall M N, minv M = Some N ->
      mwf N /\ m_nr N = List.length (m_cols M) /\ List.length (m_cols N) = m_nr M /\
      forall w, List.length w = List.length (m_cols M) -> matvec N (matvec M w) = w.
    (* a lazy inverse returns a solution of the system of its operand, in the operand's input structure *)
    Hypothesis HSOLVE : forall i w e z y1, w = WInverse \/ w = WQURotT ->
      vhas z (out_struct e) = true -> leafsem (Wrap i w e) z = Some y1 ->
      denote e y1 = Some z /\ vhas y1 (in_struct e) = true.

    Lemma as_matrix_add i l : as_matrix (AddOp i l) = obind (omapl as_matrix l) msum.
    Proof. cbn [AsMatrix.as_matrix]. f_equal. induction l as [|e r IH]; cbn; [reflexivity|]. now rewrite IH. Qed.
    Lemma as_matrix_block i b td l : as_matrix (Block i b td l) =
      obind (omapl as_matrix l) (fun ms => match b with BRow => hstack ms | BDiag => Some (block_diag ms) | BCol => vstack ms end).
    Proof. cbn [AsMatrix.as_matrix]. f_equal. induction l as [|e r IH]; cbn; [reflexivity|]. now rewrite IH. Qed.

    Lemma repr_generic e M : wfo e = true -> as_matrix_generic e = Some M -> repr e M.
    Proof.
      intros W H. rewrite LOOP in H. destruct (generic_columns e) as [cols|] eqn:Hg; [|discriminate].
      cbn in H. inversion H; subst M. clear H. pose proof (HON e W) as Hh.
      destruct (generic_columns_spec e cols Hh Hg) as [L N].
      split.
      { unfold mwf, colsok. cbn [m_nr m_cols]. apply (Forall_nth _ cols). intros j d Hj. rewrite L in Hj.
        destruct (N j Hj) as (y & _ & Ny & Ly). rewrite (nth_indep cols d []) by (rewrite L; exact Hj). now rewrite Ny. }
      split; [reflexivity|]. split; [exact L|]. now apply columns_matvec.
    Qed.

    Fixpoint allwf (l : list op) : bool := match l with [] => true | x :: xs => wfo x && allwf xs end.
    Lemma allwf_Forall l : allwf l = true -> Forall (fun e => wfo e = true) l.
    Proof. induction l as [|e r IH]; cbn; [constructor|]. intros H. apply andb_true_iff in H as [H1 H2]. constructor; auto. Qed.
    Lemma all_eqb_Forall s r : all_eqb (s :: r) = true -> Forall (fun t => t = s) r.
    Proof.
      cbn. induction r as [|t r IH]; cbn; [constructor|]. intros H. apply andb_true_iff in H as [H1 H2].
      constructor; [symmetry; now apply struct_eqb_eq|auto].
    Qed.
    Lemma omapl_Forall2 (P : op -> mat -> Prop) l : forall Ms,
      Forall (fun e => forall M, as_matrix e = Some M -> P e M) l -> omapl as_matrix l = Some Ms -> Forall2 P l Ms.
    Proof.
      induction l as [|e r IH]; intros Ms HF H; cbn in H.
      - inversion H; constructor.
      - destruct (as_matrix e) as [M|] eqn:E; [|discriminate]. destruct (omapl as_matrix r) as [Mr|]; [|discriminate].
        inversion H; subst Ms. inversion HF; subst. constructor; auto.
    Qed.

    (* ---- sums ---- *)
    Definition dims (m n : nat) (M : mat) : Prop := mwf M /\ m_nr M = m /\ List.length (m_cols M) = n.
    Lemma madd_spec m n A B : dims m n A -> dims m n B ->
      exists C, madd A B = Some C /\ dims m n C /\ forall v, matvec C v = ladd (matvec A v) (matvec B v).
    Proof.
      intros (WA & RA & CA) (WB & RB & CB). unfold AsMatrix.madd, AsMatrix.m_nc. rewrite RA, RB, CA, CB, !Nat.eqb_refl. cbn [andb].
      eexists. split; [reflexivity|]. split.
      - split; [|split]; cbn [m_nr m_cols].
        + unfold mwf, colsok in *. cbn [m_nr m_cols]. rewrite RA in WA. rewrite RB in WB.
          clear CA CB. revert WB. generalize (m_cols B). induction WA as [|a ca Ha _ IH]; intros cb WB; [constructor|].
          destruct cb as [|b cb]; [constructor|]. inversion WB; subst. cbn [combine map fst snd]. constructor; [|now apply IH].
          rewrite ladd_length_eq; congruence.
        + reflexivity.
        + rewrite map_length, combine_length, CA, CB. apply Nat.min_id.
      - intros v. unfold AsMatrix.matvec. cbn [m_nr m_cols]. rewrite RA, RB. apply mv_add; [congruence|unfold mwf in *; congruence ..].
    Qed.
    Lemma msum_fold_spec m n r : forall A M, dims m n A -> Forall (dims m n) r ->
      fold_left (fun acc x => obind acc (fun a => madd a x)) r (Some A) = Some M ->
      dims m n M /\ forall v, matvec M v = fold_left ladd (map (fun X => matvec X v) r) (matvec A v).
    Proof.
      induction r as [|B r IH]; intros A M DA DR H; cbn in H.
      - inversion H; subst. split; [exact DA|reflexivity].
      - inversion DR as [|? ? DB DR']; subst. destruct (madd_spec m n A B DA DB) as (C & EC & DC & HC).
        rewrite EC in H. cbn [obind] in H. destruct (IH C M DC DR' H) as (DM & HM). split; [exact DM|].
        intros v. cbn [map fold_left]. rewrite HM, HC. reflexivity.
    Qed.

    Lemma repr_sum i l Ms M : wfo (AddOp i l) = true -> Forall2 repr l Ms -> msum Ms = Some M -> repr (AddOp i l) M.
    Proof.
      intros W HF HM. change (wfo (AddOp i l)) with (negb (Nat.eqb (List.length l) 0) && sum_ok l && allwf l) in W.
      apply andb_true_iff in W as [W W3]. apply andb_true_iff in W as [W1 W2].
      unfold sum_ok in W2. apply andb_true_iff in W2 as [Win Wout].
      destruct l as [|e0 l]; [discriminate|]. inversion HF as [|? M0 ? Mr R0 Rr]; subst.
      cbn [map] in Win, Wout. apply all_eqb_Forall in Win. apply all_eqb_Forall in Wout.
      set (m := out_size e0). set (n := in_size e0).
      assert (D0 : dims m n M0) by (destruct R0 as (A & B & C & _); repeat split; assumption).
      assert (DR : Forall (dims m n) Mr).
      { clear - Rr Win Wout. revert Win Wout. induction Rr as [|e M1 l Mr R1 _ IH]; intros Win Wout; [constructor|].
        cbn [map] in Win, Wout. inversion Win; inversion Wout; subst. constructor; [|now apply IH].
        destruct R1 as (A & B & C & _). unfold dims, m, n, out_size, in_size. repeat split; try assumption; [now rewrite B; unfold out_size; f_equal|now rewrite C; unfold in_size; f_equal]. }
      cbn [AsMatrix.msum] in HM. destruct (msum_fold_spec m n Mr M0 M D0 DR HM) as ((WM & RM & CM) & HMv).
      split; [exact WM|]. split; [exact RM|]. split; [exact CM|].
      intros x y Hx Hy. rewrite denote_add in Hy.
      destruct (omapl (fun e => denote e x) (e0 :: l)) as [ys|] eqn:Eys; [|discriminate]. cbn [obind] in Hy.
      cbn [omapl] in Eys. destruct (denote e0 x) as [y0|] eqn:E0; [|discriminate].
      destruct (omapl (fun e => denote e x) l) as [yr|] eqn:Er; [|discriminate]. inversion Eys; subst ys.
      cbn [Denote.vsum] in Hy. destruct (fold_acc_spec _ _ _ Hy) as (_ & _ & Fy). rewrite Fy, HMv.
      change (in_struct (AddOp i (e0 :: l))) with (in_struct e0) in Hx.
      destruct R0 as (_ & _ & _ & R0v). rewrite (R0v _ _ Hx E0). f_equal.
      clear - Rr Win Er Hx. revert yr Er Win. induction Rr as [|e M1 l Mr R1 _ IH]; intros yr Er Win; cbn in Er.
      - inversion Er; reflexivity.
      - destruct (denote e x) as [y1|] eqn:E1; [|discriminate]. destruct (omapl (fun e => denote e x) l) as [yr'|] eqn:Er'; [|discriminate].
        inversion Er; subst yr. cbn [map] in Win |- *. inversion Win as [|? ? Hin Win']; subst.
        destruct R1 as (_ & _ & _ & R1v). rewrite (R1v x y1); [|now rewrite Hin|exact E1]. f_equal. now apply IH.
    Qed.

    (* ---- containers of blocks ---- *)
    Lemma split_flatten (A : Type) td : forall (x : pt A) xs, split_prefix td x = Some xs -> flatten x = flat_map flatten xs.
    Proof.
      induction td as [u|k cs IH] using pt_ind'; intros x xs H.
      - cbn in H. inversion H; subst. cbn. now rewrite app_nil_r.
      - cbn [split_prefix] in H. destruct x as [a|k' xs0]; [discriminate|].
        destruct (ckind_eqb k k'); [|discriminate]. cbn [flatten].
        revert xs0 xs H. induction IH as [|c cs' Hc _ IHl]; intros xs0 xs H.
        + destruct xs0; [|discriminate]. cbn in H. inversion H; reflexivity.
        + destruct xs0 as [|x0 xs1]; [discriminate|]. cbn [split_list] in H.
          destruct (split_prefix c x0) as [a|] eqn:Ea; [|discriminate].
          destruct (split_list (@split_prefix A) cs' xs1) as [b|] eqn:Eb; [|discriminate].
          inversion H; subst xs. cbn [flat_map]. rewrite flat_map_app.
          now rewrite (Hc _ _ Ea), (IHl _ _ Eb).
    Qed.
    Lemma struct_size_build (d : struct) td ss : List.length ss = nleaves td ->
      struct_size (build d td ss) = lsum (map struct_size ss).
    Proof.
      intros H. unfold struct_size. rewrite (split_flatten _ td _ ss (split_build d td ss H)).
      clear. induction ss as [|s ss IH]; [reflexivity|]. cbn [flat_map map]. rewrite map_app.
      fold (lsum (map leaf_size (flatten s) ++ map leaf_size (flat_map flatten ss))). rewrite lsum_app.
      unfold lsum in *. cbn [fold_right]. now rewrite IH.
    Qed.
    Lemma vhas_split (d : struct) td ss x : List.length ss = nleaves td -> vhas x (build d td ss) = true ->
      exists xs, split_prefix td x = Some xs /\ Forall2 (fun x s => vhas x s = true) xs ss.
    Proof.
      intros L H. apply vhas_vsh in H. rewrite <- build_pmap in H.
      pose proof (split_vsh td x) as P. rewrite H in P.
      rewrite (split_build (shp d) td (map shp ss)) in P by now rewrite map_length.
      destruct (split_prefix td x) as [xs|]; [|discriminate]. cbn in P. inversion P as [P'].
      exists xs. split; [reflexivity|]. clear - P'. revert ss P'.
      induction xs as [|a xs IH]; intros [|s ss] P'; cbn in P'; try discriminate; constructor.
      - inversion P'. now apply vhas_vsh.
      - inversion P'. now apply IH.
    Qed.

    Lemma block_diag_spec l Ms : Forall2 repr l Ms ->
      dims (lsum (map (@out_size K) l)) (lsum (map (@in_size K) l)) (block_diag Ms) /\
      forall xs ys, Forall2 (fun x e => vhas x (in_struct e) = true) xs l -> omap2 denote l xs = Some ys ->
        List.concat (map vflat ys) = matvec (block_diag Ms) (List.concat (map vflat xs)).
    Proof.
      induction 1 as [|e M l Mr (WM & RM & CM & HM) _ IH].
      - split; [repeat split; constructor|]. intros xs ys Hx Hy. inversion Hx; subst. cbn in Hy. inversion Hy; subst. reflexivity.
      - destruct IH as ((WR & RR & CR) & HR). cbn [AsMatrix.block_diag map]. set (R := block_diag Mr) in *.
        assert (CA : colsok (m_nr M + m_nr R) (map (fun c => c ++ zeros (m_nr R)) (m_cols M))).
        { apply Forall_forall. intros c Hc. apply in_map_iff in Hc as (c' & <- & Hc'). rewrite app_length, zeros_length.
          unfold mwf, colsok in WM. rewrite Forall_forall in WM. now rewrite (WM _ Hc'). }
        assert (CB : colsok (m_nr M + m_nr R) (map (fun c => zeros (m_nr M) ++ c) (m_cols R))).
        { apply Forall_forall. intros c Hc. apply in_map_iff in Hc as (c' & <- & Hc'). rewrite app_length, zeros_length.
          unfold mwf, colsok in WR. rewrite Forall_forall in WR. now rewrite (WR _ Hc'). }
        split.
        + split; [|split]; cbn [m_nr m_cols].
          * apply Forall_app. split; assumption.
          * unfold lsum in *. cbn [fold_right]. congruence.
          * rewrite app_length, !map_length. unfold lsum in *. cbn [fold_right]. congruence.
        + intros xs ys Hx Hy. inversion Hx as [|x0 ? xr ? Hx0 Hxr]; subst. cbn [omap2] in Hy.
          destruct (denote e x0) as [y0|] eqn:E0; [|discriminate]. destruct (omap2 denote l xr) as [yr|] eqn:Er; [|discriminate].
          inversion Hy; subst ys. cbn [map List.concat]. unfold AsMatrix.matvec. cbn [m_nr m_cols].
          rewrite mv_app; [|rewrite map_length, CM; symmetry; exact (vhas_length _ _ Hx0)|exact CA|exact CB].
          rewrite mv_pad_r by exact WM. rewrite mv_pad_l by exact WR.
          rewrite ladd_app by (rewrite zeros_length; now apply mv_length).
          rewrite ladd_zeros_r by now apply mv_length. rewrite ladd_zeros_l by now apply mv_length.
          rewrite (HM _ _ Hx0 E0). f_equal. exact (HR _ _ Hxr Er).
    Qed.

    Lemma vstack_spec n l Ms : Forall2 repr l Ms -> l <> [] -> Forall (fun e => in_size e = n) l ->
      exists M, vstack Ms = Some M /\ dims (lsum (map (@out_size K) l)) n M /\
        forall v, matvec M v = List.concat (map (fun X => matvec X v) Ms).
    Proof.
      induction 1 as [|e M0 l Mr (W0 & R0 & C0 & _) HF IH]; intros Hne Hn; [congruence|].
      inversion Hn as [|? ? Hn0 Hnr]; subst. destruct l as [|e1 l].
      - inversion HF; subst. exists M0. split; [reflexivity|]. split.
        + repeat split; [exact W0|unfold lsum; cbn; lia|congruence].
        + intros v. cbn. now rewrite app_nil_r.
      - destruct (IH ltac:(discriminate) Hnr) as (R & ER & (WR & RR & CR) & HR).
        inversion HF as [|? M1 ? Mr' ? ?]; subst. cbn [AsMatrix.vstack]. cbn [AsMatrix.vstack] in ER. rewrite ER. cbn [obind].
        unfold AsMatrix.m_nc. rewrite C0, CR, Nat.eqb_refl. eexists. split; [reflexivity|]. split.
        + split; [|split]; cbn [m_nr m_cols].
          * unfold mwf, colsok in *. cbn [m_nr m_cols]. clear - W0 WR.
            revert WR. generalize (m_cols R). induction W0 as [|a ca Ha _ IHa]; intros cb WB; [constructor|].
            destruct cb as [|b cb]; [constructor|]. inversion WB; subst. cbn [combine map fst snd]. constructor; [|now apply IHa].
            rewrite app_length. congruence.
          * unfold lsum in *. cbn [map fold_right] in *. lia.
          * rewrite map_length, combine_length, C0, CR. apply Nat.min_id.
        + intros v. unfold AsMatrix.matvec at 1. cbn [m_nr m_cols]. rewrite mv_vstack2 by (try assumption; congruence).
          cbn [map List.concat]. f_equal. exact (HR v).
    Qed.

    Definition hsum (m : nat) (ws : list (list K)) : list K := fold_right ladd (zeros m) ws.
    Lemma fold_left_hsum m ws : Forall (fun w => List.length w = m) ws -> forall a, List.length a = m ->
      fold_left ladd ws a = ladd a (hsum m ws).
    Proof.
      induction 1 as [|w ws Hw _ IH]; intros a Ha; cbn [fold_left hsum fold_right].
      - symmetry. now apply ladd_zeros_r.
      - rewrite IH by (rewrite ladd_length_eq; congruence). apply ladd_assoc.
    Qed.
    Lemma hstack_spec m l Ms : Forall2 repr l Ms -> l <> [] -> Forall (fun e => out_size e = m) l ->
      exists M, hstack Ms = Some M /\ dims m (lsum (map (@in_size K) l)) M /\
        forall vs, Forall2 (fun v e => List.length v = in_size e) vs l ->
          matvec M (List.concat vs) = hsum m (map (fun p => matvec (fst p) (snd p)) (combine Ms vs)).
    Proof.
      induction 1 as [|e M0 l Mr (W0 & R0 & C0 & _) HF IH]; intros Hne Hm; [congruence|].
      pose proof (Forall_inv Hm) as Hm0. pose proof (Forall_inv_tail Hm) as Hmr. cbn beta in Hm0. destruct l as [|e1 l].
      - inversion HF; subst. exists M0. split; [reflexivity|]. split.
        + repeat split; [exact W0|congruence|unfold lsum; cbn; lia].
        + intros vs Hvs. inversion Hvs as [|v0 ? vr ? L0 Lr]; subst. inversion Lr; subst.
          cbn [List.concat combine map fst snd hsum fold_right]. rewrite app_nil_r.
          symmetry. apply ladd_zeros_r. unfold AsMatrix.matvec. rewrite mv_length by exact W0. congruence.
      - destruct (IH ltac:(discriminate) Hmr) as (R & ER & (WR & RR & CR) & HR).
        inversion HF as [|? M1 ? Mr' ? ?]; subst. cbn [AsMatrix.hstack]. cbn [AsMatrix.hstack] in ER. rewrite ER. cbn [obind].
        rewrite R0, RR, Nat.eqb_refl. eexists. split; [reflexivity|]. split.
        + split; [|split]; cbn [m_nr m_cols].
          * apply Forall_app. unfold mwf, colsok in *. rewrite R0 in W0. rewrite RR in WR. split; assumption.
          * reflexivity.
          * rewrite app_length, C0, CR. unfold lsum. reflexivity.
        + intros vs Hvs. inversion Hvs as [|v0 ? vr ? L0 Lr]; subst.
          cbn [List.concat combine map fst snd hsum fold_right]. unfold AsMatrix.matvec at 1. cbn [m_nr m_cols].
          unfold mwf, colsok in *. rewrite R0 in W0. rewrite RR in WR.
          rewrite mv_app by (try assumption; congruence).
          f_equal; [unfold AsMatrix.matvec; now rewrite R0|].
          pose proof (HR vr Lr) as HRv. unfold AsMatrix.matvec in HRv at 1. rewrite RR in HRv. exact HRv.
    Qed.

    Lemma omapl_repr l Ms x : Forall2 repr l Ms -> Forall (fun e => vhas x (in_struct e) = true) l ->
      forall ys, omapl (fun e => denote e x) l = Some ys -> map vflat ys = map (fun X => matvec X (vflat x)) Ms.
    Proof.
      induction 1 as [|e M l Mr (_ & _ & _ & HM) _ IH]; intros Hx ys Hy; cbn in Hy.
      - inversion Hy; reflexivity.
      - inversion Hx; subst. destruct (denote e x) as [y0|] eqn:E0; [|discriminate].
        destruct (omapl (fun e => denote e x) l) as [yr|] eqn:Er; [|discriminate]. inversion Hy; subst ys.
        cbn [map]. f_equal; [now apply HM|now apply IH].
    Qed.
    Lemma omap2_repr l Ms : Forall2 repr l Ms -> forall xs ys, Forall2 (fun x e => vhas x (in_struct e) = true) xs l ->
      omap2 denote l xs = Some ys ->
      map vflat ys = map (fun p => matvec (fst p) (snd p)) (combine Ms (map vflat xs)).
    Proof.
      induction 1 as [|e M l Mr (_ & _ & _ & HM) _ IH]; intros xs ys Hx Hy.
      - inversion Hx; subst. cbn in Hy. inversion Hy; reflexivity.
      - inversion Hx as [|x0 ? xr ? Hx0 Hxr]; subst. cbn [omap2] in Hy.
        destruct (denote e x0) as [y0|] eqn:E0; [|discriminate]. destruct (omap2 denote l xr) as [yr|] eqn:Er; [|discriminate].
        inversion Hy; subst ys. cbn [map combine fst snd]. f_equal; [now apply HM|now apply IH].
    Qed.
    Lemma Forall2_map_r (A B C : Type) (P : A -> C -> Prop) (f : B -> C) xs : forall l,
      Forall2 P xs (map f l) -> Forall2 (fun x e => P x (f e)) xs l.
    Proof.
      induction xs as [|x xs IH]; intros [|e l] H; inversion H; subst; constructor; auto.
    Qed.
    Lemma map_sizes_out (l : list op) : map struct_size (map (@out_struct K) l) = map (@out_size K) l.
    Proof. now rewrite map_map. Qed.
    Lemma map_sizes_in (l : list op) : map struct_size (map (@in_struct K) l) = map (@in_size K) l.
    Proof. now rewrite map_map. Qed.

    Lemma repr_block i b td l Ms M : wfo (Block i b td l) = true -> Forall2 repr l Ms ->
      (match b with BRow => hstack Ms | BDiag => Some (block_diag Ms) | BCol => vstack Ms end) = Some M ->
      repr (Block i b td l) M.
    Proof.
      intros W HF HM.
      change (wfo (Block i b td l)) with
        (negb (Nat.eqb (List.length l) 0) && Nat.eqb (List.length l) (nleaves td) &&
         match b with BRow => all_eqb (map (@out_struct K) l) | BCol => all_eqb (map (@in_struct K) l) | BDiag => true end &&
         allwf l) in W.
      apply andb_true_iff in W as [W W4]. apply andb_true_iff in W as [W W3]. apply andb_true_iff in W as [W1 W2].
      apply Nat.eqb_eq in W2.
      assert (Hne : l <> []) by (destruct l; [discriminate|discriminate]).
      assert (Lin : List.length (map (@in_struct K) l) = nleaves td) by now rewrite map_length.
      assert (Lout : List.length (map (@out_struct K) l) = nleaves td) by now rewrite map_length.
      assert (En : negb (Nat.eqb (List.length l) (nleaves td)) = false) by (rewrite W2, Nat.eqb_refl; reflexivity).
      destruct b.
      - (* block row: hstack *)
        destruct l as [|e0 l']; [congruence|]. set (l := e0 :: l') in *.
        pose proof (all_eqb_Forall _ _ W3) as Hout.
        assert (Hm : Forall (fun e => out_size e = out_size e0) l).
        { constructor; [reflexivity|]. clear - Hout. induction l' as [|e l IH]; [constructor|].
          cbn [map] in Hout. inversion Hout; subst. constructor; [unfold out_size; congruence|auto]. }
        destruct (hstack_spec (out_size e0) l Ms HF Hne Hm) as (M' & EM & (WM & RM & CM) & HMv).
        rewrite EM in HM. inversion HM; subst M'.
        assert (Sin : in_struct (Block i BRow td l) = build (dummy_struct) td (map (@in_struct K) l)) by reflexivity.
        assert (Sout : out_struct (Block i BRow td l) = out_struct e0) by reflexivity.
        split; [exact WM|]. split; [now rewrite RM; unfold out_size; rewrite Sout|].
        split; [rewrite CM; unfold in_size at 2; rewrite Sin, struct_size_build, map_sizes_in by exact Lin; reflexivity|].
        intros x y Hx Hy. rewrite Sin in Hx. destruct (vhas_split _ _ _ _ Lin Hx) as (xs & Sx & Hxs).
        apply Forall2_map_r in Hxs. rewrite denote_block, En, Sx in Hy. cbn [obind] in Hy. unfold DenoteL.denote_list in Hy.
        destruct (omap2 denote l xs) as [ys|] eqn:Eys; [|discriminate]. cbn [obind] in Hy.
        pose proof (omap2_repr l Ms HF xs ys Hxs Eys) as Hflat.
        rewrite (split_flat td _ _ Sx). rewrite HMv.
        2:{ clear - Hxs. induction Hxs as [|x e xs l Hx _ IH]; cbn [map]; constructor; [exact (vhas_length _ _ Hx)|exact IH]. }
        rewrite <- Hflat.
        destruct ys as [|y0 yr]; [discriminate|]. cbn [Denote.vsum] in Hy.
        destruct (fold_acc_spec _ _ _ Hy) as (_ & _ & Fy). rewrite Fy.
        assert (Lys : Forall (fun w => List.length w = out_size e0) (map vflat (y0 :: yr))).
        { rewrite Hflat. apply Forall_forall. intros w Hw. apply in_map_iff in Hw as ([X v] & <- & Hin). cbn [fst snd].
          apply in_combine_l in Hin. unfold AsMatrix.matvec.
          assert (HX : mwf X /\ m_nr X = out_size e0).
          { clear - HF Hm Hin. revert Hm Hin. induction HF as [|e X0 l Mr (WX & RX & _) _ IH]; intros Hm Hin; [destruct Hin|].
            inversion Hm; subst. destruct Hin as [<-|Hin]; [split; [exact WX|congruence]|now apply IH]. }
          destruct HX as [WX RX]. rewrite mv_length by exact WX. exact RX. }
        cbn [map] in Lys |- *. inversion Lys; subst. rewrite (fold_left_hsum (out_size e0)) by assumption. reflexivity.
      - (* block diagonal *)
        inversion HM; subst M. destruct (block_diag_spec l Ms HF) as ((WM & RM & CM) & HMv).
        assert (Sin : in_struct (Block i BDiag td l) = build (dummy_struct) td (map (@in_struct K) l)) by reflexivity.
        assert (Sout : out_struct (Block i BDiag td l) = build (dummy_struct) td (map (@out_struct K) l)) by reflexivity.
        split; [exact WM|].
        split; [rewrite RM; unfold out_size at 2; rewrite Sout, struct_size_build, map_sizes_out by exact Lout; reflexivity|].
        split; [rewrite CM; unfold in_size at 2; rewrite Sin, struct_size_build, map_sizes_in by exact Lin; reflexivity|].
        intros x y Hx Hy. rewrite Sin in Hx. destruct (vhas_split _ _ _ _ Lin Hx) as (xs & Sx & Hxs).
        apply Forall2_map_r in Hxs. rewrite denote_block, En, Sx in Hy. cbn [obind] in Hy. unfold DenoteL.denote_list in Hy.
        destruct (omap2 denote l xs) as [ys|] eqn:Eys; [|discriminate]. cbn [option_map] in Hy. inversion Hy; subst y.
        destruct (omap2_length _ _ _ _ _ Eys) as [Ly _].
        rewrite build_flat by (transitivity (List.length l); [exact Ly|exact W2]). rewrite (split_flat td _ _ Sx). now apply HMv.
      - (* block column: vstack *)
        destruct l as [|e0 l']; [congruence|]. set (l := e0 :: l') in *.
        pose proof (all_eqb_Forall _ _ W3) as Hin.
        assert (Hsame : Forall (fun e => in_struct e = in_struct e0) l).
        { constructor; [reflexivity|]. clear - Hin. induction l' as [|e l IH]; [constructor|].
          cbn [map] in Hin. inversion Hin; subst. constructor; auto. }
        assert (Hn : Forall (fun e => in_size e = in_size e0) l).
        { eapply Forall_impl; [|exact Hsame]. cbn. intros e He. unfold in_size. now rewrite He. }
        destruct (vstack_spec (in_size e0) l Ms HF Hne Hn) as (M' & EM & (WM & RM & CM) & HMv).
        rewrite EM in HM. inversion HM; subst M'.
        assert (Sin : in_struct (Block i BCol td l) = in_struct e0) by reflexivity.
        assert (Sout : out_struct (Block i BCol td l) = build (dummy_struct) td (map (@out_struct K) l)) by reflexivity.
        split; [exact WM|].
        split; [rewrite RM; unfold out_size at 2; rewrite Sout, struct_size_build, map_sizes_out by exact Lout; reflexivity|].
        split; [now rewrite CM; unfold in_size; rewrite Sin|].
        intros x y Hx Hy. rewrite Sin in Hx. rewrite denote_block, En in Hy.
        destruct (omapl (fun e => denote e x) l) as [ys|] eqn:Eys; [|discriminate]. cbn [option_map] in Hy. inversion Hy; subst y.
        pose proof (omapl_length _ _ _ _ Eys) as Ly.
        rewrite build_flat by (transitivity (List.length l); [exact Ly|exact W2]). rewrite HMv.
        rewrite (omapl_repr l Ms x HF) with (ys := ys); [reflexivity| |exact Eys].
        eapply Forall_impl; [|exact Hsame]. cbn. intros e He. now rewrite He.
    Qed.

    Lemma wrap_structs' i w (x : op) : in_struct (Wrap i w x : op) = out_struct x /\ out_struct (Wrap i w x : op) = in_struct x.
    Proof. unfold in_struct, out_struct. cbn [structs]. destruct (structs x); auto. Qed.

    Lemma repr_inverse i w x Mx M : w = WInverse \/ w = WQURotT -> repr x Mx -> minv Mx = Some M -> repr (Wrap i w x) M.
    Proof.
      intros Hw (WX & RX & CX & HX) HM. destruct (HINV _ _ HM) as (WN & RN & CN & HN).
      destruct (wrap_structs' i w x) as [Sin Sout].
      split; [exact WN|]. split; [unfold out_size; rewrite Sout; fold (in_size x); congruence|].
      split; [unfold in_size at 1; rewrite Sin; fold (out_size x); congruence|].
      intros z y1 Hz Hy. rewrite Sin in Hz. cbn [Denote.denote] in Hy.
      destruct (HSOLVE i w x z y1 Hw Hz Hy) as [Hd Hs].
      rewrite (HX _ _ Hs Hd). symmetry. apply HN. rewrite CX. exact (vhas_length _ _ Hs).
    Qed.

    Theorem override_repr : forall e, wfo e = true -> forall M, as_matrix e = Some M -> repr e M.
    Proof.
      induction e as [i c si so p|i w e IH|i s|i k s|i l IH|i l IH|i b td l IH] using op_ind'; intros W M H.
      - cbn [AsMatrix.as_matrix] in H.
        destruct c; try (now apply repr_generic); try (now apply HOV); inversion H; subst M; apply HRESH; auto.
      - cbn [AsMatrix.as_matrix] in H. cbn [Wf.wfo] in W. apply andb_true_iff in W as [We Wsq].
        destruct w; try (apply repr_generic; [cbn [Wf.wfo]; rewrite We, Wsq; reflexivity|exact H]); try (now apply HOV).
        + destruct (as_matrix e) as [Mx|] eqn:Ex; [|discriminate]. cbn [obind] in H.
          eapply repr_inverse; [left; reflexivity|apply IH; [exact We|reflexivity]|exact H].
        + destruct (as_matrix e) as [Mx|] eqn:Ex; [|discriminate]. cbn [obind] in H.
          eapply repr_inverse; [right; reflexivity|apply IH; [exact We|reflexivity]|exact H].
      - cbn [AsMatrix.as_matrix] in H. inversion H; subst M. apply repr_ident.
      - cbn [AsMatrix.as_matrix] in H. inversion H; subst M. apply repr_homoth.
      - now apply repr_generic.
      - rewrite as_matrix_add in H. destruct (omapl as_matrix l) as [Ms|] eqn:EMs; [|discriminate]. cbn [obind] in H.
        apply (repr_sum i l Ms M W); [|exact H].
        change (wfo (AddOp i l)) with (negb (Nat.eqb (List.length l) 0) && sum_ok l && allwf l) in W.
        apply andb_true_iff in W as [_ W3]. apply allwf_Forall in W3.
        apply omapl_Forall2; [|exact EMs]. clear - IH W3. induction IH as [|e r He _ IHr]; [constructor|].
        inversion W3; subst. constructor; auto.
      - rewrite as_matrix_block in H. destruct (omapl as_matrix l) as [Ms|] eqn:EMs; [|discriminate]. cbn [obind] in H.
        apply (repr_block i b td l Ms M W); [|exact H].
        change (wfo (Block i b td l)) with
          (negb (Nat.eqb (List.length l) 0) && Nat.eqb (List.length l) (nleaves td) &&
           match b with BRow => all_eqb (map (@out_struct K) l) | BCol => all_eqb (map (@in_struct K) l) | BDiag => true end &&
           allwf l) in W.
        apply andb_true_iff in W as [_ W3]. apply allwf_Forall in W3.
        apply omapl_Forall2; [|exact EMs]. clear - IH W3. induction IH as [|e r He _ IHr]; [constructor|].
        inversion W3; subst. constructor; auto.
    Qed.

    (* override_eq_generic: whenever both are defined, as_matrix() of ANY well-formed expression tree is
       the matrix built by the generic construction *)
    Theorem override_eq_generic_l : forall e M G, wfo e = true ->
      as_matrix e = Some M -> as_matrix_generic e = Some G -> M = G.
    Proof.
      intros e M G W HM HG. rewrite LOOP in HG. destruct (generic_columns e) as [cols|] eqn:Hg; [|discriminate].
      cbn in HG. inversion HG; subst G. apply repr_to_columns; [now apply override_repr|now apply HON|exact Hg].
    Qed.
  End Override.
End AsML.

(* ================= which definition of as_matrix a class resolves to =================
   The dispatch of Model/AsMatrix.v `as_matrix`, class by class, named as tools/translate/tables.py names the
   definitions found by Python's method resolution ("<defining class>:<qualified name>").  Props/C04.v ties it
   to the table regenerated from the imported package on every run (am_resolution_ok gen_method_names
   gen_methods): a new, a removed or a moved as_matrix override in the source breaks that tie. *)
Inductive am_def :=
| AmGeneric | AmAddition | AmLazyInverse | AmIdentity | AmHomothety | AmBlockRow | AmBlockDiagonal | AmBlockColumn
| AmDiagonal | AmRavelOrReshape | AmToeplitz.
Definition am_of_cls (c : cls) : am_def :=
  match c with
  | CAddition => AmAddition
  | CAbstractLazyInverse | CInverse | CAbstractLazyInverseOrthogonal | CQURotationTranspose => AmLazyInverse
  | CIdentity => AmIdentity
  | CHomothety => AmHomothety
  | CBlockRow => AmBlockRow
  | CBlockDiagonal => AmBlockDiagonal
  | CBlockColumn => AmBlockColumn
  | CDiagonal | CDiagonalInverse => AmDiagonal      (* MRO of DiagonalInverseOperator: DiagonalOperator first *)
  | CAbstractRavelOrReshape | CRavel | CReshape => AmRavelOrReshape
  | CToeplitz => AmToeplitz
  | _ => AmGeneric                                  (* lazy transposes, products, every other leaf class *)
  end.
Definition am_owner (d : am_def) : string :=
  match d with
  | AmGeneric => "AbstractLinearOperator:AbstractLinearOperator.as_matrix"
  | AmAddition => "AdditionOperator:AdditionOperator.as_matrix"
  | AmLazyInverse => "AbstractLazyInverseOperator:AbstractLazyInverseOperator.as_matrix"
  | AmIdentity => "IdentityOperator:IdentityOperator.as_matrix"
  | AmHomothety => "HomothetyOperator:HomothetyOperator.as_matrix"
  | AmBlockRow => "BlockRowOperator:BlockRowOperator.as_matrix"
  | AmBlockDiagonal => "BlockDiagonalOperator:BlockDiagonalOperator.as_matrix"
  | AmBlockColumn => "BlockColumnOperator:BlockColumnOperator.as_matrix"
  | AmDiagonal => "DiagonalOperator:DiagonalOperator.as_matrix"
  | AmRavelOrReshape => "AbstractRavelOrReshapeOperator:AbstractRavelOrReshapeOperator.as_matrix"
  | AmToeplitz => "SymmetricBandToeplitzOperator:SymmetricBandToeplitzOperator.as_matrix"
  end%string.
(* position of a method name in the header of the regenerated table *)
Fixpoint name_index (n : string) (names : list string) : option nat :=
  match names with
  | [] => None
  | x :: r => if String.eqb x n then Some 0 else option_map S (name_index n r)
  end.
(* every class of the table resolves as_matrix to the definition the model dispatches to *)
Definition am_resolution_ok (names : list string) (methods : list (cls * list string)) : bool :=
  match name_index "as_matrix"%string names with
  | None => false
  | Some k =>
      negb (Nat.eqb (List.length methods) 0) &&
      forallb (fun p => String.eqb (nth k (snd p) ""%string) (am_owner (am_of_cls (fst p)))) methods
  end.

Section Dispatch.
  Variable K : Type.
  Variables (k0 k1 : K) (kadd kmul : K -> K -> K).
  Variable leafsem : op K -> value K -> option (value K).
  Variable leaf_override : op K -> option (mat K).
  Variable minv : mat K -> option (mat K).
  Notation asm := (as_matrix K k0 k1 kadd kmul leafsem leaf_override minv).
  Notation gen := (as_matrix_generic K k0 k1 kadd kmul leafsem).

  (* a class that resolves to AbstractLinearOperator.as_matrix gets the generic loop in the model *)
  Lemma generic_dispatch : forall e : op K, am_of_cls (cls_of e) = AmGeneric -> asm e = gen e.
  Proof.
    intros [i c si so p|i w x|i s|i k s|i l|i l|i b td l] H; cbn in H; try discriminate.
    - destruct c; try discriminate; reflexivity.
    - destruct w; try discriminate; reflexivity.
    - reflexivity.
    - destruct b; discriminate.
  Qed.
  (* ... and the classes with an override of their own get that override *)
  Lemma override_dispatch : forall e : op K,
    match e with
    | Ident _ _ => am_of_cls (cls_of e) = AmIdentity /\ asm e = Some (eye K k0 k1 (in_size e))
    | Homoth _ k _ => am_of_cls (cls_of e) = AmHomothety /\ asm e = Some (mscale K kmul k (eye K k0 k1 (in_size e)))
    | AddOp _ l => am_of_cls (cls_of e) = AmAddition /\ asm e = obind (omapl asm l) (msum K kadd)
    | Block _ BRow _ l => am_of_cls (cls_of e) = AmBlockRow /\ asm e = obind (omapl asm l) (hstack K)
    | Block _ BDiag _ l => am_of_cls (cls_of e) = AmBlockDiagonal /\ asm e = obind (omapl asm l) (fun ms => Some (block_diag K k0 ms))
    | Block _ BCol _ l => am_of_cls (cls_of e) = AmBlockColumn /\ asm e = obind (omapl asm l) (vstack K)
    | Wrap _ WInverse x | Wrap _ WQURotT x => am_of_cls (cls_of e) = AmLazyInverse /\ asm e = obind (asm x) minv
    | Wrap _ WDiagInv _ => am_of_cls (cls_of e) = AmDiagonal /\ asm e = leaf_override e
    | Prim _ CDiagonal _ _ _ => am_of_cls (cls_of e) = AmDiagonal /\ asm e = leaf_override e
    | Prim _ CToeplitz _ _ _ => am_of_cls (cls_of e) = AmToeplitz /\ asm e = leaf_override e
    | Prim _ CRavel _ _ _ | Prim _ CReshape _ _ _ => am_of_cls (cls_of e) = AmRavelOrReshape /\ asm e = Some (eye K k0 k1 (in_size e))
    | _ => True
    end.
  Proof.
    intros [i c si so p|i w x|i s|i k s|i l|i l|i b td l].
    - destruct c; try exact I; split; reflexivity.
    - destruct w; try exact I; split; reflexivity.
    - split; reflexivity.
    - split; reflexivity.
    - exact I.
    - split; [reflexivity|]. apply (as_matrix_add K k0 k1 kadd kmul leafsem leaf_override minv).
    - destruct b; (split; [reflexivity|]); rewrite (as_matrix_block K k0 k1 kadd kmul leafsem leaf_override minv); reflexivity.
  Qed.
End Dispatch.
