(* C04 - second stage, leaf-level overrides: two of the leaf checks inside `otable_okb` (Lemmas/AsMatrixOvL.v) are
   THEOREMS about the executable semantics `Exec.leafsem tb`:

   (1) RavelOperator / ReshapeOperator (AbstractRavelOrReshapeOperator.as_matrix = eye(in_size)).
       Exec.leafsem has NO closed form for these classes: such a leaf acts only through a matrix of the table
       (`prim_matrix tb e`: the matrix measured on the object, or the one stored under its PKey).  What is true:
       if that matrix is the identity matrix (`id_rows n`) and the two declared structures have as many elements
       (equivalently: leaf_okb, the dimension check of table_okb), the check of otable_okb holds
       (exec_ravel_reshape_override_ok_l / _tb_l).  Without any matrix the leaf applies to nothing and the check
       FAILS as soon as the input structure is not empty (exec_ravel_reshape_needs_table_l).

   (2) DiagonalOperator with 1-d values (PDiag) and neither a measured application matrix nor a measured override
       matrix: Exec.leafsem applies `diag_value`, x_leaf_override is the closed form jnp.diag(broadcast values);
       the two agree for EVERY structure, axis and value list (exec_pdiag_override_ok_l): no hypothesis besides
       the absence of the two table entries. *)
From Coq Require Import List Bool Arith NArith ZArith QArith Qcanon Lia Ring.
From Furax Require Import Base.Pytree Model.Op Model.Algebra Model.Denote Model.Wf Model.Exec Model.Structs
  Model.AsMatrix
  Lemmas.DenoteL Lemmas.Sound Lemmas.AsMatrixL Lemmas.StructsL Lemmas.TransposeExecL Lemmas.AsMatrixExecL
  Lemmas.AsMatrixLoopL Lemmas.ExecFactsL Lemmas.AsMatrixOvL.
Import ListNotations.
Local Close Scope Q_scope.
Local Close Scope Qc_scope.
Local Open Scope nat_scope.

(* ====================================================================================== *)
(* small facts                                                                             *)
(* ====================================================================================== *)
Lemma Qc_eq_bool_refl (a : Qc) : Qc_eq_bool a a = true.
Proof. unfold Qc_eq_bool. destruct (Qc_eq_dec a a); congruence. Qed.
Lemma list_eqb_refl A (eqb : A -> A -> bool) : (forall a, eqb a a = true) -> forall l, list_eqb eqb l l = true.
Proof. intros H. induction l as [|a l IH]; cbn; [reflexivity|]. now rewrite H, IH. Qed.
Lemma xmat_eqb_refl (m : xmat) : xmat_eqb m m = true.
Proof.
  unfold xmat_eqb. rewrite Nat.eqb_refl. cbn [andb]. apply list_eqb_refl. intros c. unfold col_eqb.
  apply list_eqb_refl. exact Qc_eq_bool_refl.
Qed.
Lemma omat_eqb_refl (a : option xmat) : omat_eqb a a = true.
Proof. destruct a; [apply xmat_eqb_refl|reflexivity]. Qed.

Lemma omapl_all_some A B (f : A -> option B) (g : A -> B) l :
  (forall a, In a l -> f a = Some (g a)) -> omapl f l = Some (map g l).
Proof.
  induction l as [|a l IH]; intros H; [reflexivity|]. cbn [omapl map].
  rewrite (H a (or_introl eq_refl)), IH; [reflexivity|]. intros a' Ha'. apply H. now right.
Qed.

Lemma basis_has_struct s j : has_struct (xbasis s j) s = true.
Proof. rewrite has_struct_vhas. rewrite <- (AsMatrixExecL.vhas_same K). apply (basis_vhas K k0 k1). Qed.
Lemma basis_flat s j : vflatten (xbasis s j) = xonehot (struct_size s) j.
Proof. apply (unflat_flat K). apply (onehot_length K). Qed.

(* combine (seq s n) D lists the pairs (index, D[index - s]) *)
Lemma combine_seq (D : list K) : forall s,
  combine (seq s (List.length D)) D = map (fun i => (i, nth (i - s) D k0)) (seq s (List.length D)).
Proof.
  induction D as [|a D IH]; intros s; [reflexivity|]. cbn [List.length seq combine map].
  rewrite Nat.sub_diag. cbn [nth]. f_equal. rewrite IH. apply map_ext_in. intros i Hi. apply in_seq in Hi.
  replace (i - s) with (S (i - S s)) by lia. reflexivity.
Qed.

(* ====================================================================================== *)
(* (2) the 1-d diagonal leaf                                                               *)
(* ====================================================================================== *)
(* element-wise product *)
Definition pmul (D u : list K) : list K := map (fun p => Qcmult (fst p) (snd p)) (combine D u).
(* the values of the diagonal broadcast to one leaf / to the whole structure (the argument of jnp.diag in
   x_leaf_override) *)
Definition ones_leaf (axis : Z) (v : list Q) (sd : sds) : list K := Exec.diag_leaf axis v sd (repeat k1 (leaf_size sd)).
Definition dvec (axis : Z) (v : list Q) (s : struct) : list K := List.concat (map (ones_leaf axis v) (flatten s)).

Lemma pmul_app a : forall c b d, List.length a = List.length c -> pmul (a ++ b) (c ++ d) = pmul a c ++ pmul b d.
Proof.
  induction a as [|x a IH]; intros [|y c] b d H; cbn in H; try discriminate; [reflexivity|].
  unfold pmul in *. cbn [app combine map]. f_equal. apply IH. lia.
Qed.
Lemma pmul_nil_r D : pmul D [] = [].
Proof. unfold pmul. now rewrite combine_nil. Qed.

Lemma dmap_pmul (c : nat -> K) : forall (d : list K) s,
  map (fun p => Qcmult (c (fst p)) (snd p)) (combine (seq s (List.length d)) d) =
  pmul (map (fun p => Qcmult (c (fst p)) (snd p)) (combine (seq s (List.length d)) (repeat k1 (List.length d)))) d.
Proof.
  induction d as [|a d IH]; intros s; [reflexivity|]. cbn [List.length seq repeat combine map]. unfold pmul in *.
  cbn [combine map fst snd]. f_equal; [|apply IH]. change K with Qc. unfold k1. ring.
Qed.
Lemma diag_leaf_pmul axis v sd (d : list K) : List.length d = leaf_size sd ->
  Exec.diag_leaf axis v sd d = pmul (ones_leaf axis v sd) d.
Proof.
  intros H. unfold ones_leaf, Exec.diag_leaf. rewrite repeat_length, <- H.
  apply (dmap_pmul (fun i => Q2Qc (nth ((i / _) mod _) v 0%Q))).
Qed.
Lemma ones_leaf_length axis v sd : List.length (ones_leaf axis v sd) = leaf_size sd.
Proof. unfold ones_leaf. now rewrite diag_leaf_length, repeat_length. Qed.
Lemma dvec_length axis v s : List.length (dvec axis v s) = struct_size s.
Proof.
  unfold dvec, struct_size. induction (flatten s) as [|sd l IH]; [reflexivity|].
  cbn [map List.concat fold_right]. now rewrite app_length, ones_leaf_length, IH.
Qed.
Lemma dvec_cons axis v k s ss : dvec axis v (Node k (s :: ss)) = dvec axis v s ++ dvec axis v (Node k ss).
Proof. unfold dvec. cbn [flatten flat_map]. now rewrite map_app, concat_app. Qed.

(* DiagonalOperator.mv on flattened data: element-wise product with the broadcast values *)
Lemma diag_value_flat axis v : forall s (x : xvalue), has_struct x s = true ->
  vflatten (Exec.diag_value axis v s x) = pmul (dvec axis v s) (vflatten x).
Proof.
  induction s as [sd|ks ss IH] using pt_ind'; intros [d|kx cs] Hx; try discriminate Hx.
  - cbn [has_struct] in Hx. unfold leaf_ok in Hx. apply Nat.eqb_eq in Hx.
    cbn [Exec.diag_value]. unfold vflatten, dvec. cbn [flatten map List.concat]. rewrite !app_nil_r.
    now apply diag_leaf_pmul.
  - rewrite diag_value_node.
    change (AsMatrix.vhas K (Node kx cs) (Node ks ss) = true) in Hx. rewrite (AsMatrixL.vhas_node K) in Hx.
    apply andb_true_iff in Hx as [_ Hx]. revert cs Hx.
    induction IH as [|s0 ss Hs _ IHs]; intros [|c cs] Hx; cbn [all2] in Hx; try discriminate Hx; [reflexivity|].
    apply andb_true_iff in Hx as [H1 H2]. cbn [dgo].
    change (AsMatrix.vhas K c s0 = true) with (has_struct c s0 = true) in H1.
    rewrite !vflatten_cons, dvec_cons, pmul_app.
    + rewrite (Hs c H1). f_equal. apply IHs. exact H2.
    + rewrite dvec_length. symmetry. now apply vflatten_length.
Qed.

(* the product with a basis vector keeps one entry *)
Lemma pmul_onehot j : forall (D : list K) s,
  pmul D (map (fun i => if Nat.eqb i j then k1 else k0) (seq s (List.length D))) =
  map (fun p => if Nat.eqb (fst p) j then snd p else k0) (combine (seq s (List.length D)) D).
Proof.
  induction D as [|a D IH]; intros s; [reflexivity|]. cbn [List.length seq map combine]. unfold pmul in *.
  cbn [combine map fst snd]. f_equal; [|apply IH]. change K with Qc. unfold k0, k1. destruct (Nat.eqb s j); ring.
Qed.
Lemma diag_column (D : list K) j :
  pmul D (xonehot (List.length D) j) =
  map (fun i => if Nat.eqb i j then nth j D k0 else k0) (seq 0 (List.length D)).
Proof.
  unfold AsMatrix.onehot. rewrite pmul_onehot, combine_seq, map_map. apply map_ext. intros i. cbn [fst snd].
  rewrite Nat.sub_0_r. destruct (Nat.eqb_spec i j); [now subst|reflexivity].
Qed.
Lemma diag_of_columns (D : list K) :
  mkMat (List.length D) (map (fun j => pmul D (xonehot (List.length D) j)) (seq 0 (List.length D))) = diag_of D.
Proof.
  unfold diag_of. f_equal. rewrite combine_seq, map_map. apply map_ext. intros j. cbn [fst snd].
  rewrite Nat.sub_0_r. apply diag_column.
Qed.

Lemma pdiag_columns tb i si so axis v : stored tb i = None ->
  x_columns tb (Prim i CDiagonal si so (PDiag axis v)) = Some (diag_of (dvec axis v si)).
Proof.
  intros S. set (e := Prim i CDiagonal si so (PDiag axis v)). set (n := struct_size si).
  unfold x_columns, generic_columns.
  change (in_struct e) with si. change (in_size e) with n. change (out_size e) with n.
  rewrite (omapl_all_some _ _ _ (fun j => pmul (dvec axis v si) (xonehot n j))).
  - cbn [option_map]. f_equal. unfold n. rewrite <- (dvec_length axis v si). apply diag_of_columns.
  - intros j _. unfold column_of.
    change (denote Qcplus Qcmult (leafsem tb) e (xbasis si j)) with (leafsem tb e (xbasis si j)).
    unfold leafsem. change (in_struct e) with si. change (out_struct e) with si. unfold e.
    rewrite basis_has_struct. cbn [negb].
    unfold stored in S. rewrite S. cbn [obind].
    change (vflat K (Exec.diag_value axis v si (xbasis si j))) with (vflatten (Exec.diag_value axis v si (xbasis si j))).
    rewrite (diag_value_flat axis v si _ (basis_has_struct si j)), basis_flat.
    change (out_size (Prim i CDiagonal si so (PDiag axis v))) with n. apply (fit_id K).
    unfold pmul. rewrite map_length, combine_length, dvec_length, (onehot_length K). apply Nat.min_id.
Qed.

Theorem exec_pdiag_override_ok_l tb otb i si so axis v :
  stored tb i = None -> olookup otb (2 * i)%N = None ->
  otable_okb tb otb (Prim i CDiagonal si so (PDiag axis v)) = true.
Proof.
  intros S O. cbn [otable_okb]. rewrite (pdiag_columns tb i si so axis v S).
  unfold x_leaf_override. cbn [oid]. rewrite O. apply omat_eqb_refl.
Qed.

(* ====================================================================================== *)
(* (1) ravel / reshape leaves                                                              *)
(* ====================================================================================== *)
(* the n x n identity matrix, by rows (the orientation of the table of application matrices) *)
Definition id_rows (n : nat) : matrix := map (xonehot n) (seq 0 n).

Lemma nth_onehot n i j : j < n -> nth j (xonehot n i) k0 = if Nat.eqb j i then k1 else k0.
Proof.
  intros Hj. unfold AsMatrix.onehot. set (f := fun a : nat => if Nat.eqb a i then k1 else k0).
  rewrite (nth_indep (map f (seq 0 n)) k0 (f 0)) by (now rewrite map_length, seq_length).
  rewrite (map_nth f), seq_nth by exact Hj. reflexivity.
Qed.
Lemma id_rows_matvec n j : j < n -> Exec.matvec (id_rows n) (xonehot n j) = xonehot n j.
Proof.
  intros Hj. unfold Exec.matvec, id_rows. rewrite map_map. unfold AsMatrix.onehot at 3. apply map_ext_in.
  intros i Hi. apply in_seq in Hi. rewrite dot_onehot_r by (try apply (onehot_length K); exact Hj).
  rewrite nth_onehot by exact Hj. now rewrite Nat.eqb_sym.
Qed.

Lemma ravel_columns tb i c si so p : square_cls c = false -> struct_size so = struct_size si ->
  prim_matrix tb (Prim i c si so p) = Some (id_rows (struct_size si)) ->
  x_columns tb (Prim i c si so p) = Some (xeye (struct_size si)).
Proof.
  intros Hc Hs M. set (e := Prim i c si so p). set (n := struct_size si).
  assert (Ei : in_struct e = si) by (unfold in_struct, e; cbn [structs]; now rewrite Hc).
  assert (Eo : out_struct e = so) by (unfold out_struct, e; cbn [structs]; now rewrite Hc).
  unfold x_columns, generic_columns, in_size, out_size. rewrite Ei, Eo, Hs. fold n.
  rewrite (omapl_all_some _ _ _ (xonehot n)); [reflexivity|].
  intros j Hj. apply in_seq in Hj. unfold column_of. unfold out_size. rewrite Eo, Hs. fold n.
  change (denote Qcplus Qcmult (leafsem tb) e (xbasis si j)) with (leafsem tb e (xbasis si j)).
  rewrite (prim_matrix_acts tb e _ M), Ei, Eo. unfold apply_matrix. rewrite basis_has_struct, basis_flat. fold n.
  rewrite id_rows_matvec by lia. cbn [obind].
  change (vflat K (fst (unflatten so (xonehot n j)))) with (xvflat (xunflat so (xonehot n j))).
  rewrite (unflat_flat K) by (rewrite (onehot_length K); unfold n; lia).
  apply (fit_id K), (onehot_length K).
Qed.

Theorem exec_ravel_reshape_override_ok_l tb otb i c si so p :
  (c = CRavel \/ c = CReshape) -> struct_size so = struct_size si ->
  prim_matrix tb (Prim i c si so p) = Some (id_rows (struct_size si)) ->
  otable_okb tb otb (Prim i c si so p) = true.
Proof.
  intros Hc Hs M.
  assert (Hq : square_cls c = false) by (destruct Hc as [-> | ->]; reflexivity).
  assert (Ei : in_size (Prim i c si so p : xop) = struct_size si)
    by (unfold in_size, in_struct; cbn [structs]; now rewrite Hq).
  pose proof (ravel_columns tb i c si so p Hq Hs M) as C.
  destruct Hc as [-> | ->]; cbn [otable_okb]; rewrite C, Ei; apply omat_eqb_refl.
Qed.

(* the same with the dimension check of table_okb in place of the equality of sizes *)
Theorem exec_ravel_reshape_override_ok_tb_l tb otb i c si so p :
  (c = CRavel \/ c = CReshape) -> table_okb tb (Prim i c si so p) = true ->
  prim_matrix tb (Prim i c si so p) = Some (id_rows (struct_size si)) ->
  otable_okb tb otb (Prim i c si so p) = true.
Proof.
  intros Hc T M. apply exec_ravel_reshape_override_ok_l; [exact Hc| |exact M].
  assert (Hq : square_cls c = false) by (destruct Hc as [-> | ->]; reflexivity).
  assert (D : dims_okb si so (id_rows (struct_size si)) = true).
  { cbn [table_okb] in T. unfold leaf_okb in T. cbv beta iota zeta in T.
    assert (Ei : in_struct (Prim i c si so p : xop) = si) by (unfold in_struct; cbn [structs]; now rewrite Hq).
    assert (Eo : out_struct (Prim i c si so p : xop) = so) by (unfold out_struct; cbn [structs]; now rewrite Hq).
    rewrite Ei, Eo in T. unfold prim_matrix in M.
    destruct (stored tb i) as [m|].
    - injection M as ->. exact T.
    - destruct Hc as [-> | ->]; destruct p; try discriminate M; rewrite M in T; exact T. }
  apply dims_okb_spec in D as [D _]. unfold id_rows in D. now rewrite map_length, seq_length in D.
Qed.

(* without a matrix a ravel / reshape leaf applies to nothing: the check fails on a non-empty input structure *)
Theorem exec_ravel_reshape_needs_table_l tb otb i c si so p :
  (c = CRavel \/ c = CReshape) -> prim_matrix tb (Prim i c si so p) = None -> 0 < struct_size si ->
  otable_okb tb otb (Prim i c si so p) = false.
Proof.
  intros Hc M Hn.
  assert (Hq : square_cls c = false) by (destruct Hc as [-> | ->]; reflexivity).
  assert (Ei : in_struct (Prim i c si so p : xop) = si) by (unfold in_struct; cbn [structs]; now rewrite Hq).
  assert (L : forall x, leafsem tb (Prim i c si so p) x = None).
  { intros x. unfold leafsem. destruct (negb (has_struct x (in_struct (Prim i c si so p)))); [reflexivity|].
    unfold prim_matrix, stored in M.
    destruct (if (i =? 0)%N then None else lookup tb (2 * i)%N) as [m|]; [discriminate M|].
    destruct Hc as [-> | ->]; destruct p; try reflexivity; now rewrite M. }
  assert (C : x_columns tb (Prim i c si so p) = None).
  { unfold x_columns, generic_columns, in_size. rewrite Ei. destruct (struct_size si) as [|n]; [lia|].
    cbn [seq omapl]. unfold column_of at 1. cbn [denote]. rewrite L. reflexivity. }
  destruct Hc as [-> | ->]; cbn [otable_okb]; rewrite C; reflexivity.
Qed.
