(* C04 - the premise LOOP: the transcribed fori_loop of AbstractLinearOperator.as_matrix
   (Model/AsMatrix.v `as_matrix_generic`: per input leaf a fori_loop whose body builds
   zeros = in_leaves_ref.copy(); zeros[ileaf] = leaf.ravel().at[index].set(1); unflatten; mv; and stores
   the result with matrix.at[:, jcounter].set(...), jcounter += 1) builds exactly the matrix whose j-th
   column is the flattened image of the j-th basis vector of the flattened input (`generic_columns`).
   No hypothesis at all: for every operator term, every pytree structure (empty leaves and empty
   containers included), every leaf semantics; None on one side iff None on the other.
   Steps: (1) basis_input s ileaf index = basis_value s (offset ileaf + index)  [tree_unflatten of leaves
   of the declared sizes = unflat of their concatenation; the concatenation is the one-hot vector];
   (2) the nested loops enumerate the basis vectors in the order 0 .. in_size-1;
   (3) fold invariant: after j iterations the carry is (first j columns ++ untouched rest, j) - every
   `.at[jcounter].set` is in range (nothing dropped), every column is written exactly once. *)
From Coq Require Import List Bool Arith Lia Ring.
From Furax Require Import Base.Pytree Model.Op Model.Algebra Model.Denote Model.AsMatrix Lemmas.AsMatrixL.
Import ListNotations.
Local Open Scope nat_scope.

Section Loop.
  Variable K : Type.
  Variables (k0 k1 : K) (kadd kmul : K -> K -> K).
  Notation op := (op K).
  Notation value := (value K).
  Notation vflat := (vflat K).
  Notation unflat := (unflat K).
  Notation zeros := (zeros K k0).
  Notation onehot := (onehot K k0 k1).
  Notation vsh := (pmap (@List.length K)).
  Notation shp := (pmap leaf_size).
  Notation basis_input := (basis_input K k0 k1).
  Notation basis_value := (basis_value K k0 k1).
  Notation tree_unflatten := (tree_unflatten K).

  (* ================= array.at[i].set(v) ================= *)
  Lemma set_nth_length (A : Type) (l : list A) : forall i v, List.length (set_nth l i v) = List.length l.
  Proof. induction l as [|a l IH]; intros [|i] v; cbn; auto. Qed.
  Lemma set_nth_app_len (A : Type) (pre : list A) r rest v :
    set_nth (pre ++ r :: rest) (List.length pre) v = pre ++ v :: rest.
  Proof. induction pre as [|a pre IH]; cbn; [reflexivity|]. now rewrite IH. Qed.
  Lemma set_nth_split (A : Type) (l : list A) : forall i v, i < List.length l ->
    set_nth l i v = firstn i l ++ v :: skipn (S i) l.
  Proof.
    induction l as [|a l IH]; intros [|i] v H; cbn in H; try lia; [reflexivity|].
    cbn [set_nth firstn skipn app]. f_equal. apply IH. lia.
  Qed.
  Lemma map_set_nth (A B : Type) (f : A -> B) (l : list A) : forall i v,
    map f (set_nth l i v) = set_nth (map f l) i (f v).
  Proof. induction l as [|a l IH]; intros [|i] v; cbn; try reflexivity. now rewrite IH. Qed.
  Lemma set_nth_same (A : Type) (d : A) (l : list A) : forall i, set_nth l i (nth i l d) = l.
  Proof. induction l as [|a l IH]; intros [|i]; cbn; try reflexivity. now rewrite IH. Qed.

  (* ================= the flat data of basis_input ================= *)
  Lemma lsum_cons a l : lsum (a :: l) = a + lsum l.
  Proof. reflexivity. Qed.
  Lemma concat_length (A : Type) (l : list (list A)) : List.length (List.concat l) = lsum (map (@List.length A) l).
  Proof. induction l as [|a l IH]; [reflexivity|]. cbn [List.concat map]. now rewrite app_length, IH. Qed.
  Lemma concat_zeros sizes : List.concat (map zeros sizes) = zeros (lsum sizes).
  Proof.
    induction sizes as [|a l IH]; [reflexivity|]. cbn [map List.concat]. rewrite IH, lsum_cons. symmetry. apply zeros_app.
  Qed.
  Lemma set_nth_zeros n : forall i, i < n -> set_nth (zeros n) i k1 = zeros i ++ k1 :: zeros (n - S i).
  Proof.
    unfold AsMatrix.zeros. induction n as [|n IH]; intros [|i] H; try lia.
    - cbn. now rewrite Nat.sub_0_r.
    - cbn [repeat set_nth app]. f_equal. rewrite IH by lia. reflexivity.
  Qed.
  Lemma lsum_split sizes il : il < List.length sizes ->
    lsum sizes = lsum (firstn il sizes) + (nth il sizes 0 + lsum (skipn (S il) sizes)).
  Proof.
    intros H. rewrite <- (firstn_skipn il sizes) at 1. rewrite lsum_app. f_equal.
    rewrite (skipn_nth_cons _ 0 sizes il H). apply lsum_cons.
  Qed.

  (* concatenating in_leaves_ref with leaf `il` replaced by its `.at[idx].set(1)` gives the one-hot vector *)
  Lemma basis_flat sizes il idx : il < List.length sizes -> idx < nth il sizes 0 ->
    List.concat (set_nth (map zeros sizes) il (set_nth (nth il (map zeros sizes) []) idx k1)) =
    onehot (lsum sizes) (lsum (firstn il sizes) + idx).
  Proof.
    intros Hil Hidx.
    rewrite set_nth_split by now rewrite map_length.
    change (@nil K) with (zeros 0). rewrite map_nth. rewrite set_nth_zeros by exact Hidx.
    rewrite concat_app. cbn [List.concat]. rewrite firstn_map, skipn_map, !concat_zeros.
    pose proof (lsum_split sizes il Hil) as Hs.
    rewrite onehot_split by lia. rewrite zeros_app, <- !app_assoc. cbn [app]. f_equal. f_equal. f_equal.
    rewrite <- zeros_app. f_equal. lia.
  Qed.

  (* ================= jax.tree.unflatten of leaves of the declared sizes ================= *)
  Lemma split_shape_of (A : Type) (t : pt A) : split_prefix (shape_of t) t = Some (map (@Leaf A) (flatten t)).
  Proof.
    induction t as [a|k cs IH] using pt_ind'; [reflexivity|].
    unfold shape_of. cbn [pmap split_prefix flatten]. rewrite ckind_eqb_refl.
    induction IH as [|c cs' Hc _ IHl]; [reflexivity|].
    cbn [map split_list flat_map]. fold (shape_of c). rewrite Hc, IHl. now rewrite map_app.
  Qed.
  Lemma shape_of_pmap' (A B : Type) (f : A -> B) (t : pt A) : shape_of (pmap f t) = shape_of t.
  Proof.
    unfold shape_of. induction t as [a|k cs IH] using pt_ind'; cbn; [reflexivity|]. f_equal.
    rewrite map_map. induction IH as [|c cs' Hc _ IHl]; cbn; [reflexivity|]. now rewrite Hc, IHl.
  Qed.
  Lemma nleaves_shape (A : Type) (t : pt A) : nleaves (shape_of t) = List.length (flatten t).
  Proof. unfold nleaves, shape_of. rewrite flatten_pmap. apply map_length. Qed.

  Lemma tree_unflatten_unflat (s : struct) (ls : list (list K)) :
    map (@List.length K) ls = map leaf_size (flatten s) ->
    tree_unflatten s ls = unflat s (List.concat ls).
  Proof.
    intros H.
    assert (Hlen : List.length ls = List.length (flatten s)).
    { transitivity (List.length (map (@List.length K) ls)); [symmetry; apply map_length|]. rewrite H. apply map_length. }
    assert (Hsz : List.length (List.concat ls) = struct_size s).
    { rewrite concat_length, H. reflexivity. }
    unfold AsMatrix.tree_unflatten. apply vsh_flat_inj.
    - rewrite unflat_vsh by exact Hsz. rewrite build_vsh, map_map. cbn [pmap].
      rewrite <- (map_map (@List.length K) (@Leaf nat)), H, <- (flatten_pmap leaf_size s).
      rewrite <- (shape_of_pmap' _ _ leaf_size s). apply build_split, split_shape_of.
    - rewrite unflat_flat by exact Hsz. rewrite build_flat by (rewrite map_length, nleaves_shape; exact Hlen).
      rewrite map_map. f_equal. rewrite <- (map_id ls) at 2. apply map_ext. intros d. apply vflat_leaf.
  Qed.

  (* (1) the input built by the loop body is the basis vector number offset(ileaf) + index *)
  Lemma basis_input_value (s : struct) il idx :
    il < List.length (flatten s) -> idx < nth il (map leaf_size (flatten s)) 0 ->
    basis_input s il idx = basis_value s (lsum (firstn il (map leaf_size (flatten s))) + idx).
  Proof.
    intros Hil Hidx. unfold AsMatrix.basis_input, AsMatrix.basis_value, AsMatrix.in_leaves_ref.
    rewrite <- (map_map leaf_size zeros (flatten s)).
    set (sizes := map leaf_size (flatten s)) in *.
    assert (Hil' : il < List.length sizes) by (unfold sizes; now rewrite map_length).
    assert (Href : map (@List.length K) (map zeros sizes) = sizes).
    { rewrite map_map. rewrite <- (map_id sizes) at 2. apply map_ext. intros n. apply zeros_length. }
    rewrite tree_unflatten_unflat.
    - f_equal. rewrite basis_flat by assumption. reflexivity.
    - rewrite map_set_nth, set_nth_length.
      replace (List.length (nth il (map zeros sizes) [])) with (nth il (map (@List.length K) (map zeros sizes)) 0)
        by (change 0 with (List.length (@nil K)); apply map_nth).
      rewrite set_nth_same. exact Href.
  Qed.

  (* ================= (2) the nested loops enumerate the basis vectors in order ================= *)
  Lemma map_seq_shift (V : Type) (h g : nat -> V) a : forall st off,
    (forall i, i < a -> h (st + i) = g (off + i)) -> map h (seq st a) = map g (seq off a).
  Proof.
    induction a as [|a IH]; intros st off H; [reflexivity|]. cbn [seq map]. f_equal.
    - specialize (H 0 ltac:(lia)). now rewrite !Nat.add_0_r in H.
    - apply IH. intros i Hi. specialize (H (S i) ltac:(lia)). now rewrite !Nat.add_succ_r in H.
  Qed.
  Lemma enum_gen (V : Type) (f : nat -> nat -> V) (g : nat -> V) (lvs : list sds) : forall il0 off,
    (forall k idx, k < List.length lvs -> idx < nth k (map leaf_size lvs) 0 ->
       f (il0 + k) idx = g (off + lsum (firstn k (map leaf_size lvs)) + idx)) ->
    flat_map (fun il => map (f (fst il)) (seq 0 (leaf_size (snd il)))) (combine (seq il0 (List.length lvs)) lvs) =
    map g (seq off (lsum (map leaf_size lvs))).
  Proof.
    induction lvs as [|sd lvs IH]; intros il0 off H; [reflexivity|].
    cbn [List.length seq combine flat_map map fst snd]. rewrite lsum_cons, seq_app, map_app. f_equal.
    - apply map_seq_shift. intros i Hi. specialize (H 0 i ltac:(cbn; lia) Hi).
      cbn [firstn] in H. change (lsum []) with 0 in H. now rewrite !Nat.add_0_r in H.
    - apply IH. intros k idx Hk Hidx. specialize (H (S k) idx ltac:(cbn; lia) Hidx).
      cbn [map firstn] in H. rewrite lsum_cons in H. rewrite Nat.add_succ_r in H. cbn [Nat.add]. rewrite H.
      f_equal. lia.
  Qed.
  Lemma basis_enum (s : struct) :
    flat_map (fun il => map (basis_input s (fst il)) (seq 0 (leaf_size (snd il))))
             (combine (seq 0 (List.length (flatten s))) (flatten s)) =
    map (basis_value s) (seq 0 (struct_size s)).
  Proof.
    apply (enum_gen value (basis_input s) (basis_value s) (flatten s) 0 0).
    intros k idx Hk Hidx. cbn [Nat.add]. now apply basis_input_value.
  Qed.

  (* ================= (3) the fold invariant ================= *)
  Variable leafsem : op -> value -> option value.
  Notation column_of := (column_of K kadd kmul leafsem).
  Notation body := (body K k0 k1 kadd kmul leafsem).
  Notation as_matrix_generic := (as_matrix_generic K k0 k1 kadd kmul leafsem).
  Notation generic_columns := (generic_columns K k0 k1 kadd kmul leafsem).

  (* one iteration of the body, for the input x *)
  Definition gstep (e : op) (x : value) (carry : option (list (list K)) * nat) : option (list (list K)) * nat :=
    let '(m, jcounter) := carry in
    (match m, column_of e x with
     | Some m, Some c => Some (set_nth m jcounter c)
     | _, _ => None
     end, S jcounter).
  Lemma body_gstep e il idx : body e il idx = gstep e (basis_input (in_struct e) il idx).
  Proof. reflexivity. Qed.
  Lemma gstep_some e x m j : gstep e x (Some m, j) =
    (match column_of e x with Some c => Some (set_nth m j c) | None => None end, S j).
  Proof. reflexivity. Qed.

  Lemma fold_left_ext (A B : Type) (F G : A -> B -> A) : (forall a b, F a b = G a b) ->
    forall l a, fold_left F l a = fold_left G l a.
  Proof. intros H l. induction l as [|b l IH]; intros a; cbn; [reflexivity|]. now rewrite H, IH. Qed.
  Lemma fold_left_map (A B C : Type) (F : A -> C -> A) (h : B -> C) : forall l a,
    fold_left F (map h l) a = fold_left (fun a b => F a (h b)) l a.
  Proof. induction l as [|b l IH]; intros a; cbn; [reflexivity|]. apply IH. Qed.
  Lemma fold_left_flat_map (A B C : Type) (F : A -> C -> A) (h : B -> list C) : forall l a,
    fold_left F (flat_map h l) a = fold_left (fun a b => fold_left F (h b) a) l a.
  Proof. induction l as [|b l IH]; intros a; cbn; [reflexivity|]. rewrite fold_left_app. apply IH. Qed.
  Lemma omapl_map (A B C : Type) (f : B -> option C) (h : A -> B) : forall l,
    omapl f (map h l) = omapl (fun a => f (h a)) l.
  Proof. induction l as [|a l IH]; cbn; [reflexivity|]. now rewrite IH. Qed.

  (* the two nested loops = one loop over the basis vectors in order *)
  Lemma loops_flat e carry :
    fold_left (fun carry il => fori_loop 0 (leaf_size (snd il)) (body e (fst il)) carry)
              (combine (seq 0 (List.length (flatten (in_struct e)))) (flatten (in_struct e))) carry =
    fold_left (fun c x => gstep e x c) (map (basis_value (in_struct e)) (seq 0 (in_size e))) carry.
  Proof.
    unfold in_size. rewrite <- basis_enum, fold_left_flat_map. apply fold_left_ext.
    intros c il. unfold AsMatrix.fori_loop. rewrite Nat.sub_0_r, fold_left_map. reflexivity.
  Qed.

  Lemma fold_none e xs : forall j, fst (fold_left (fun c x => gstep e x c) xs (None, j)) = None.
  Proof. induction xs as [|x xs IH]; intros j; cbn [fold_left]; [reflexivity|]. apply IH. Qed.

  (* jcounter = number of columns already written; they are final; the rest is untouched *)
  Lemma fold_cols e xs : forall pre rest, List.length rest = List.length xs ->
    fst (fold_left (fun c x => gstep e x c) xs (Some (pre ++ rest), List.length pre)) =
    option_map (app pre) (omapl (column_of e) xs).
  Proof.
    induction xs as [|x xs IH]; intros pre [|r rest] H; cbn in H; try discriminate.
    - cbn. now rewrite app_nil_r.
    - cbn [fold_left omapl]. rewrite gstep_some. destruct (column_of e x) as [c|].
      + rewrite set_nth_app_len.
        replace (pre ++ c :: rest) with ((pre ++ [c]) ++ rest) by (rewrite <- app_assoc; reflexivity).
        replace (S (List.length pre)) with (List.length (pre ++ [c])) by (rewrite app_length; cbn; lia).
        rewrite IH by lia. destruct (omapl (column_of e) xs) as [cs|]; cbn [option_map]; [|reflexivity].
        now rewrite <- app_assoc.
      + apply fold_none.
  Qed.

  (* LOOP *)
  Theorem generic_loop_eq : forall e,
    as_matrix_generic e = option_map (mkMat (out_size e)) (generic_columns e).
  Proof.
    intros e. unfold AsMatrix.as_matrix_generic, AsMatrix.generic_columns. f_equal.
    rewrite loops_flat.
    rewrite (fold_cols e _ [] (repeat (zeros (out_size e)) (in_size e)))
      by now rewrite repeat_length, map_length, seq_length.
    rewrite omapl_map. destruct (omapl _ _); reflexivity.
  Qed.

  (* the generic matrix, when defined, has in_size columns, produced one per basis vector *)
  Corollary generic_loop_some e M : as_matrix_generic e = Some M ->
    exists cols, generic_columns e = Some cols /\ M = mkMat (out_size e) cols.
  Proof.
    rewrite generic_loop_eq. destruct (generic_columns e) as [cols|]; [|discriminate].
    cbn. intros H. inversion H. eauto.
  Qed.
End Loop.

(* apply_is_matvec for the matrix built by the transcribed loop *)
Section LoopMatvec.
  Variable K : Type.
  Variables (k0 k1 : K) (kadd kmul ksub : K -> K -> K) (kopp : K -> K).
  Hypothesis Kth : ring_theory k0 k1 kadd kmul ksub kopp (@eq K).
  Variable leafsem : op K -> value K -> option (value K).
  Hypothesis LA : lin_facts K kadd kmul leafsem.

  Theorem generic_matvec : forall e M, honest K kadd kmul leafsem e ->
    as_matrix_generic K k0 k1 kadd kmul leafsem e = Some M ->
    forall x y, vhas K x (in_struct e) = true -> denote kadd kmul leafsem e x = Some y ->
    vflat K y = matvec K k0 kadd kmul M (vflat K x).
  Proof.
    intros e M Hh HM. destruct (generic_loop_some K k0 k1 kadd kmul leafsem e M HM) as (cols & Hc & ->).
    exact (columns_matvec K k0 k1 kadd kmul ksub kopp Kth leafsem LA e cols Hh Hc).
  Qed.
End LoopMatvec.
