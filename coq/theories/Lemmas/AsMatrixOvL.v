(* C04 - second stage, overrides: `override_eq_generic` of Props/C04.v for the EXECUTABLE semantics
   (`Exec.leafsem tb`, `x_as_matrix tb otb`, `x_generic tb`), with DECIDABLE hypotheses only:
     wfo e                 what the constructors guarantee (Model/Wf.v)
     table_okb tb e        the measured matrices have the declared dimensions; a lazy inverse stores a two-sided
                           inverse, a lazy transpose the transposed matrix (Lemmas/ExecFactsL.v); only its
                           consequence dtable_okb (defined here) is used: dimensions everywhere, the inverse check
                           only for the wrappers whose as_matrix inverts a matrix (the `_min` theorems)
     otable_okb tb otb e   defined here: the measured OVERRIDE matrices and the leaf-level overrides agree with the
                           measured application of their own leaf; a lazy inverse has a measured matrix; under a
                           sum / block container every leaf operator applies to its declared input structure.
   The premises HON / HOV / HRESH / HINV / HSOLVE of Props/C04.v are discharged:
     HON    dt_honest (as exec_honest_ok of ExecFactsL);   HOV, HRESH   checked leaf by leaf in otable_okb;
     HINV   x_minv_spec (the modelled jnp.linalg.inv accepts only a checked two-sided inverse) and x_minv_defined
            (completeness: Gauss-Jordan finds a pivot in every column of an invertible matrix and its result
            passes both checks);
     HSOLVE not needed: the measured matrix of a lazy inverse is a right inverse of the operand's (table_okb),
            the modelled inverse a left inverse, so they are the same matrix (inverse_node).
   The conclusion is an equality of OPTIONS (defined on one side iff defined on the other). *)
From Coq Require Import List Bool Arith NArith ZArith QArith Qcanon Lia Ring.
From Furax Require Import Base.Pytree Model.Op Model.Algebra Model.Denote Model.Wf Model.Exec Model.Structs
  Model.AsMatrix
  Lemmas.DenoteL Lemmas.Sound Lemmas.AsMatrixL Lemmas.StructsL Lemmas.AsMatrixExecL Lemmas.AsMatrixLoopL
  Lemmas.ExecFactsL.
Import ListNotations.
Local Close Scope Q_scope.
Local Close Scope Qc_scope.
Local Open Scope nat_scope.

Notation xrepr tb := (repr K k0 Qcplus Qcmult (leafsem tb)).
Notation xmwf := (mwf K).
Notation xbasis := (basis_value K k0 k1).
Notation xvhas := (AsMatrix.vhas K).
Notation xvflat := (vflat K).
Notation xunflat := (unflat K).

(* ====================================================================================== *)
(* the decidable condition on the override table                                          *)
(* ====================================================================================== *)
Definition is_some {A} (o : option A) : bool := match o with Some _ => true | None => false end.
Definition omat_eqb (a b : option xmat) : bool :=
  match a, b with
  | Some x, Some y => xmat_eqb x y
  | None, None => true
  | _, _ => false
  end.
(* the all-zero input of the declared input structure *)
Definition zero_in (e : xop) : xvalue := xunflat (in_struct e) (xzeros (in_size e)).
(* a leaf operator applies to its declared input structure: to every basis vector and to zero (hence, being
   linear, to every value of that structure: leaf_applies_defined) *)
Definition leaf_applies (tb : table) (l : xop) : bool :=
  is_some (gcols tb l) && is_some (den tb l (zero_in l)).

Fixpoint otable_okb (tb : table) (otb : otable) (e : xop) : bool :=
  let all := fix all (l : list xop) : bool :=
    match l with [] => true | x :: xs => otable_okb tb otb x && all xs end in
  match e with
  | Prim _ c _ _ _ =>
      match c with
      (* DiagonalOperator.as_matrix / SymmetricBandToeplitzOperator.as_matrix (measured, or the 1-d closed form):
         the matrix whose columns are the leaf's own images of the basis vectors *)
      | CDiagonal | CToeplitz => omat_eqb (x_leaf_override otb e) (x_columns tb e)
      (* AbstractRavelOrReshapeOperator.as_matrix = eye(in_size): the leaf acts as the identity on flattened data *)
      | CRavel | CReshape => omat_eqb (Some (xeye (in_size e))) (x_columns tb e)
      | _ => true
      end
  | Wrap i w x =>
      match w with
      | WDiagInv => omat_eqb (x_leaf_override otb e) (x_columns tb e)
      (* AbstractLazyInverseOperator.as_matrix = inv(operand.as_matrix()): the wrapper has a measured matrix (a
         two-sided inverse of the operand's by table_okb; the modelled jnp.linalg.inv then succeeds: x_minv_defined) *)
      | WInverse | WQURotT => otable_okb tb otb x && is_some (stored tb i)
      | WTranspose | WReshapeT | WObsT => true
      end
  | Ident _ _ | Homoth _ _ _ | Comp _ _ => true
  | AddOp _ l | Block _ _ _ l => forallb (leaf_applies tb) (leaves e) && all l
  end.

Lemma otable_okb_add tb otb i l :
  otable_okb tb otb (AddOp i l) = forallb (leaf_applies tb) (leaves (AddOp i l)) && forallb (otable_okb tb otb) l.
Proof. reflexivity. Qed.
Lemma otable_okb_block tb otb i b td l :
  otable_okb tb otb (Block i b td l) =
  forallb (leaf_applies tb) (leaves (Block i b td l)) && forallb (otable_okb tb otb) l.
Proof. reflexivity. Qed.

(* ---------- boolean equalities ---------- *)
Lemma col_eqb_eq u v : col_eqb u v = true -> u = v.
Proof. apply list_eqb_eq. intros a b. apply Qc_eq_bool_correct. Qed.
Lemma xmat_eqb_eq (a b : xmat) : xmat_eqb a b = true -> a = b.
Proof.
  destruct a as [na ca], b as [nb cb]. unfold xmat_eqb. cbn [m_nr m_cols]. intros H.
  apply andb_true_iff in H as [H1 H2]. apply Nat.eqb_eq in H1. subst nb. f_equal.
  revert H2. apply list_eqb_eq. exact col_eqb_eq.
Qed.
Lemma omat_eqb_eq a b : omat_eqb a b = true -> a = b.
Proof. destruct a, b; cbn; try discriminate; [|reflexivity]. intros H. f_equal. now apply xmat_eqb_eq. Qed.
Lemma is_some_spec A (o : option A) : is_some o = true -> exists a, o = Some a.
Proof. destruct o; [eauto|discriminate]. Qed.

(* ====================================================================================== *)
(* what the theorem needs of the table of measured application matrices                    *)
(* ====================================================================================== *)
(* `dtable_okb`: weaker than table_okb of Lemmas/ExecFactsL.v (table_dtable below).  Every leaf operator's matrix
   has the declared dimensions; the inverse check (wrap_okb: the measured matrix is a two-sided inverse of the
   operand's generic matrix) is demanded only of the wrappers whose as_matrix INVERTS a matrix
   (AbstractLazyInverseOperator.as_matrix: InverseOperator, QURotationTransposeOperator) - not of a
   DiagonalInverseOperator (DiagonalOperator.as_matrix; it may be the pseudo-inverse of a singular diagonal)
   nor of the lazy transposes (generic loop), whose operands are not even visited. *)
Definition inv_wrap (w : wkind) : bool := match w with WInverse | WQURotT => true | _ => false end.
Fixpoint dtable_okb (tb : table) (e : xop) : bool :=
  let all := fix all (l : list xop) : bool :=
    match l with [] => true | x :: xs => dtable_okb tb x && all xs end in
  match e with
  | Prim _ _ _ _ _ => leaf_okb tb e
  | Wrap i w x => leaf_okb tb e && (if inv_wrap w then dtable_okb tb x && wrap_okb tb i w x else true)
  | Ident _ _ | Homoth _ _ _ => true
  | Comp _ l | AddOp _ l | Block _ _ _ l => all l
  end.
Lemma dtable_okb_comp tb i l : dtable_okb tb (Comp i l) = forallb (dtable_okb tb) l.
Proof. reflexivity. Qed.
Lemma dtable_okb_add tb i l : dtable_okb tb (AddOp i l) = forallb (dtable_okb tb) l.
Proof. reflexivity. Qed.
Lemma dtable_okb_block tb i b td l : dtable_okb tb (Block i b td l) = forallb (dtable_okb tb) l.
Proof. reflexivity. Qed.

Lemma table_dtable tb : forall e : xop, table_okb tb e = true -> dtable_okb tb e = true.
Proof.
  assert (HL : forall l : list xop, Forall (fun e => table_okb tb e = true -> dtable_okb tb e = true) l ->
            forallb (table_okb tb) l = true -> forallb (dtable_okb tb) l = true).
  { induction 1 as [|x xs Hx _ IH]; intros H; [reflexivity|]. cbn [forallb] in H |- *.
    apply andb_true_iff in H as [H1 H2]. now rewrite (Hx H1), (IH H2). }
  induction e as [i c si so p|i w e IH|i s|i k s|i l IH|i l IH|i b td l IH] using op_ind'; intros H.
  - exact H.
  - cbn [table_okb] in H. apply andb_true_iff in H as [H H3]. apply andb_true_iff in H as [H1 H2].
    cbn [dtable_okb]. rewrite H2, (IH H1), H3. now destruct (inv_wrap w).
  - reflexivity.
  - reflexivity.
  - rewrite table_okb_comp in H. rewrite dtable_okb_comp. now apply HL.
  - rewrite table_okb_add in H. rewrite dtable_okb_add. now apply HL.
  - rewrite table_okb_block in H. rewrite dtable_okb_block. now apply HL.
Qed.

Lemma dt_leaves tb : forall e : xop, dtable_okb tb e = true -> Forall (leaf_honest K (leafsem tb)) (leaves e).
Proof.
  assert (HL : forall l : list xop,
            Forall (fun e => dtable_okb tb e = true -> Forall (leaf_honest K (leafsem tb)) (leaves e)) l ->
            forallb (dtable_okb tb) l = true -> Forall (leaf_honest K (leafsem tb)) (flat_map (@leaves K) l)).
  { induction 1 as [|x xs Hx _ IH]; intros H; cbn [flat_map]; [constructor|].
    cbn [forallb] in H. apply andb_true_iff in H as [H1 H2]. apply Forall_app. auto. }
  induction e as [i c si so p|i w e IH|i s|i k s|i l IH|i l IH|i b td l IH] using op_ind'; intros H; cbn [leaves].
  - constructor; [|constructor]. now apply exec_leaf_honest_ok.
  - cbn [dtable_okb] in H. apply andb_true_iff in H as [H _].
    constructor; [|constructor]. now apply exec_leaf_honest_ok.
  - constructor.
  - constructor.
  - rewrite dtable_okb_comp in H. now apply HL.
  - rewrite dtable_okb_add in H. now apply HL.
  - rewrite dtable_okb_block in H. now apply HL.
Qed.
(* the honesty premise HON *)
Lemma dt_honest tb (e : xop) : wfo e = true -> dtable_okb tb e = true -> xhonest tb e.
Proof.
  intros W T x y Hx Hy. rewrite (AsMatrixExecL.vhas_same K) in Hx.
  destruct (sizes_agree_l K Qcplus Qcmult (leafsem tb) e W (dt_leaves tb e T) x y Hx Hy) as [_ H]. exact H.
Qed.
Lemma dt_wrap tb i w (e : xop) N : dtable_okb tb (Wrap i w e) = true -> inv_wrap w = true -> stored tb i = Some N ->
  dtable_okb tb e = true /\ dims_okb (out_struct e) (in_struct e) N = true /\
  exists cols, gcols tb e = Some cols /\
    roundtrip_id (in_size e) (fun v => Exec.matvec N (mcols (out_size e) cols v)) = true /\
    roundtrip_id (out_size e) (fun v => mcols (out_size e) cols (Exec.matvec N v)) = true.
Proof.
  cbn [dtable_okb]. intros H Hw S. rewrite Hw in H. apply andb_true_iff in H as [H2 H]. apply andb_true_iff in H as [H1 H3].
  unfold leaf_okb in H2. cbv beta iota zeta in H2. rewrite S, wrap_in, wrap_out in H2.
  unfold wrap_okb in H3. rewrite S in H3. destruct (gcols tb e) as [cols|]; [|discriminate].
  apply andb_true_iff in H3 as [A _]. split; [exact H1|]. split; [exact H2|]. exists cols. split; [reflexivity|].
  assert (Hi : isinst (wcls w) [CAbstractLazyInverse] = true) by (destruct w; try discriminate Hw; reflexivity).
  rewrite Hi in A. now apply andb_true_iff in A.
Qed.

(* ====================================================================================== *)
(* generic columns: defined iff the operator applies to the basis vectors                  *)
(* ====================================================================================== *)
Lemma x_generic_columns tb (e : xop) : x_generic tb e = x_columns tb e.
Proof. exact (generic_loop_eq K k0 k1 Qcplus Qcmult (leafsem tb) e). Qed.

Lemma omapl_some A B (f : A -> option B) l : (forall a, In a l -> exists b, f a = Some b) -> exists ys, omapl f l = Some ys.
Proof.
  induction l as [|a l IH]; intros H; [exists []; reflexivity|].
  destruct (H a (or_introl eq_refl)) as (b & Hb). destruct IH as (ys & Hys); [intros a' Ha'; apply H; now right|].
  exists (b :: ys). cbn [omapl]. now rewrite Hb, Hys.
Qed.

Lemma gcols_of_defined tb (e : xop) : xhonest tb e ->
  (forall j, j < in_size e -> exists y, den tb e (xbasis (in_struct e) j) = Some y) ->
  exists cols, gcols tb e = Some cols.
Proof.
  intros Hh Hd. unfold generic_columns. apply omapl_some. intros j Hj. apply in_seq in Hj.
  destruct (Hd j ltac:(lia)) as (y & Hy). unfold column_of. exists (xvflat y).
  change (obind (den tb e (xbasis (in_struct e) j)) (fun y0 => fit K (out_size e) (xvflat y0)) = Some (xvflat y)).
  rewrite Hy. cbn [obind]. apply (fit_id K). apply (Hh _ _ (basis_vhas K k0 k1 _ _) Hy).
Qed.

(* defined on the basis vectors and on zero, hence (linearity) on every value of the input structure *)
Lemma total_of_gcols tb (e : xop) cols : xhonest tb e -> gcols tb e = Some cols ->
  den tb e (zero_in e) <> None ->
  forall x, xvhas x (in_struct e) = true -> exists y, den tb e x = Some y.
Proof.
  intros Hh Hg Hz x Hx. destruct (generic_columns_spec K k0 k1 Qcplus Qcmult (leafsem tb) e cols Hh Hg) as [L N].
  pose proof (vhas_length K _ _ Hx) as Lx.
  destruct (Nat.eq_dec (in_size e) 0) as [Z|NZ].
  - unfold zero_in in Hz. rewrite Z in Hz. unfold in_size in Z. rewrite Z in Lx.
    destruct (xvflat x) eqn:Fx; [|discriminate]. rewrite <- (flat_unflat K x _ Hx), Fx.
    cbn [zeros repeat] in Hz. destruct (den tb e (xunflat (in_struct e) [])) as [y|]; [eauto|congruence].
  - destruct (Q7 lin_extend (leafsem tb) (exec_lin_facts tb) e cols (out_size e) L N ltac:(unfold in_size in NZ; lia) (xvflat x) 0 Lx)
      as (y & E & _).
    cbn [zeros repeat app] in E. rewrite (flat_unflat K _ _ Hx) in E. eauto.
Qed.

Lemma repr_of_gcols tb (e : xop) cols : xhonest tb e -> gcols tb e = Some cols ->
  xrepr tb e (mkMat (out_size e) cols).
Proof.
  intros Hh Hg. destruct (gcols_ok tb e cols Hh Hg) as [L C].
  split; [exact C|]. split; [reflexivity|]. split; [exact L|].
  exact (Q7 columns_matvec (leafsem tb) (exec_lin_facts tb) e cols Hh Hg).
Qed.

(* a matrix that represents an operator which applies to its basis vectors IS the generic matrix *)
Lemma generic_of_repr tb (e : xop) M : xhonest tb e -> xrepr tb e M ->
  (forall j, j < in_size e -> exists y, den tb e (xbasis (in_struct e) j) = Some y) ->
  x_generic tb e = Some M.
Proof.
  intros Hh HR Hd. destruct (gcols_of_defined tb e Hh Hd) as (cols & Hg).
  rewrite x_generic_columns. unfold x_columns. rewrite Hg. cbn [option_map]. f_equal. symmetry.
  exact (Q7 repr_to_columns (leafsem tb) (exec_lin_facts tb) e M cols HR Hh Hg).
Qed.

(* ====================================================================================== *)
(* HINV: the modelled jnp.linalg.inv returns a checked inverse                             *)
(* ====================================================================================== *)
Lemma gj_len : forall cs done rest r, gauss_jordan cs done rest = Some r -> List.length r = List.length done + List.length cs.
Proof.
  induction cs as [|c cs IH]; intros done rest r H; cbn [gauss_jordan] in H.
  - injection H as <-. cbn [List.length]. lia.
  - destruct (take_pivot c rest) as [[p others]|]; [|discriminate].
    apply IH in H. rewrite app_length, map_length in H. cbn [List.length] in *. lia.
Qed.

Lemma x_minv_spec (M N : xmat) : xmwf M -> x_minv M = Some N ->
  m_nr M = List.length (m_cols M) /\ xmwf N /\ m_nr N = m_nr M /\ List.length (m_cols N) = m_nr M /\
  forall w, List.length w = m_nr M -> xmatvec N (xmatvec M w) = w.
Proof.
  intros WM H. unfold x_minv in H. set (n := m_nr M) in *.
  destruct (Nat.eqb n (m_nc K M)) eqn:En; cbn [negb] in H; [|discriminate]. apply Nat.eqb_eq in En. unfold m_nc in En.
  match type of H with (match ?g with _ => _ end) = _ => destruct g as [rows|] eqn:EG; [|discriminate] end.
  apply gj_len in EG. rewrite seq_length in EG. cbn [List.length Nat.add] in EG.
  match type of H with (if ?c then _ else _) = _ => destruct c eqn:EC; [|discriminate] end.
  injection H as <-. apply andb_true_iff in EC as [EL _]. apply xmat_eqb_eq in EL.
  set (NN := mkMat n (map (fun j => map (fun r => nth j r k0) (map (skipn n) rows)) (seq 0 n))) in *.
  assert (WN : xmwf NN).
  { unfold mwf, colsok, NN. cbn [m_nr m_cols]. apply Forall_forall. intros c Hc.
    apply in_map_iff in Hc as (j & <- & _). now rewrite !map_length. }
  assert (CN : List.length (m_cols NN) = n) by (unfold NN; cbn [m_cols]; now rewrite map_length, seq_length).
  split; [exact En|]. split; [exact WN|]. split; [reflexivity|]. split; [exact CN|].
  unfold xmmul, mmul, xeye, eye in EL. injection EL as EL. fold xmatvec in EL.
  apply (list_lin_id (fun w => xmatvec NN (xmatvec M w)) n).
  - intros k v. cbv beta. unfold xmatvec, matvec. now rewrite !mcols_scale.
  - intros u v Hu Hv. cbv beta. unfold xmatvec, matvec. rewrite mcols_add by congruence. apply mcols_add.
    now rewrite !(mv_length K k0 Qcplus Qcmult _ _ WM).
  - intros v. unfold xmatvec at 1, matvec. now rewrite (mv_length K k0 Qcplus Qcmult _ _ WN).
  - intros j Hj. unfold xmatvec at 2, matvec.
    assert (E1 : mcols (m_nr M) (m_cols M) (xonehot n j) = nth j (m_cols M) []).
    { rewrite En. apply (Q7 mv_onehot (m_nr M) (m_cols M) WM j). rewrite <- En. exact Hj. }
    rewrite E1.
    transitivity (nth j (map (xmatvec NN) (m_cols M)) (xmatvec NN [])); [symmetry; apply map_nth|].
    rewrite EL. rewrite (nth_indep _ _ (xonehot n 0)) by (rewrite map_length, seq_length; exact Hj).
    rewrite (map_nth (xonehot n)), seq_nth by exact Hj. reflexivity.
Qed.

(* ====================================================================================== *)
(* completeness of the modelled inverse: Gauss-Jordan succeeds on every invertible matrix  *)
(* and its result passes both checks (x_minv_defined)                                      *)
(* ====================================================================================== *)
(* ---------- dot products and row operations ---------- *)
Lemma dot_scale_l k u v : dot (lsc k u) v = Qcmult k (dot u v).
Proof. rewrite dot_comm, dot_scale. f_equal. apply dot_comm. Qed.
Lemma dot_app a : forall u b w, List.length a = List.length u -> dot (a ++ b) (u ++ w) = Qcplus (dot a u) (dot b w).
Proof.
  induction a as [|x a IH]; intros [|y u] b w H; cbn in H; try discriminate.
  - cbn [app]. rewrite dot_nil_l. symmetry. apply Qcplus_0_l.
  - cbn [app]. rewrite !dot_cons, IH by lia. change K with Qc. ring.
Qed.
Lemma dot_onehot_r n : forall a j, List.length a = n -> j < n -> dot a (xonehot n j) = nth j a k0.
Proof.
  intros a j La Hj. rewrite (onehot_split K k0 k1 n j Hj).
  rewrite <- (firstn_skipn j a) at 1.
  rewrite dot_app by (rewrite firstn_length, (zeros_length K); lia).
  rewrite dot_zeros. rewrite (skipn_nth_cons K k0 a j) by lia. rewrite dot_cons.
  fold (xzeros (n - S j)). rewrite dot_zeros. change K with Qc. unfold k0, k1. ring.
Qed.

Lemma row_elim_length k p r : List.length p = List.length r -> List.length (row_elim k p r) = List.length r.
Proof. intros H. unfold row_elim. rewrite map_length, combine_length, H. apply Nat.min_id. Qed.
Lemma row_elim_nth k : forall p r j, List.length p = List.length r -> j < List.length r ->
  nth j (row_elim k p r) k0 = Qcminus (nth j r k0) (Qcmult k (nth j p k0)).
Proof.
  induction p as [|x p IH]; intros [|y r] j H Hj; cbn in H, Hj; try discriminate; try lia.
  destruct j as [|j]; [reflexivity|]. cbn [row_elim combine map nth]. apply (IH r j); lia.
Qed.
Lemma row_elim_dot k : forall p r w, List.length p = List.length r ->
  dot (row_elim k p r) w = Qcminus (dot r w) (Qcmult k (dot p w)).
Proof.
  induction p as [|x p IH]; intros [|y r] w H; cbn in H; try discriminate.
  - change (row_elim k [] []) with (@nil K). rewrite !dot_nil_l. change K with Qc. unfold k0. ring.
  - destruct w as [|z w]; [rewrite !dot_nil_r; change K with Qc; unfold k0; ring|].
    change (row_elim k (x :: p) (y :: r)) with (Qcminus y (Qcmult k x) :: row_elim k p r).
    rewrite !dot_cons, IH by lia. change K with Qc. ring.
Qed.

(* ---------- take_pivot ---------- *)
Lemma qc_is0_true a : qc_is0 a = true -> a = k0.
Proof. apply Qc_eq_bool_correct. Qed.
Lemma qc_is0_false a : qc_is0 a = false -> a <> k0.
Proof. unfold qc_is0, Qc_eq_bool. destruct (Qc_eq_dec a k0); congruence. Qed.
Lemma take_pivot_none c : forall rest, take_pivot c rest = None -> forall r, In r rest -> nth c r k0 = k0.
Proof.
  induction rest as [|r0 rest IH]; intros H r Hr; [destruct Hr|]. cbn [take_pivot] in H.
  destruct (qc_is0 (nth c r0 k0)) eqn:E; [|discriminate].
  destruct (take_pivot c rest) as [[p o]|]; [discriminate|].
  destruct Hr as [<-|Hr]; [now apply qc_is0_true|now apply IH].
Qed.
Lemma take_pivot_some c : forall rest p others, take_pivot c rest = Some (p, others) ->
  nth c p k0 <> k0 /\ List.length rest = S (List.length others) /\
  (forall r, In r rest <-> r = p \/ In r others).
Proof.
  induction rest as [|r0 rest IH]; intros p others H; [discriminate|]. cbn [take_pivot] in H.
  destruct (qc_is0 (nth c r0 k0)) eqn:E.
  - destruct (take_pivot c rest) as [[p' o]|]; [|discriminate]. injection H as <- <-.
    destruct (IH p' o eq_refl) as (H1 & H2 & H3). split; [exact H1|]. split; [cbn [List.length]; lia|].
    intros r. cbn [In]. rewrite H3. tauto.
  - injection H as <- <-. split; [now apply qc_is0_false|]. split; [reflexivity|]. intros r. cbn [In]. split; intros [A|A]; auto.
Qed.

Lemma dot_negl a : forall y, dot a (negl y) = Qcopp (dot a y).
Proof.
  unfold negl. induction a as [|x a IH]; intros [|z y]; cbn [map]; rewrite ?dot_nil_l, ?dot_nil_r; try (change K with Qc; unfold k0; ring).
  rewrite !dot_cons, IH. change K with Qc. ring.
Qed.
Lemma negl_zeros_inv y : negl y = xzeros (List.length y) -> y = xzeros (List.length y).
Proof.
  unfold negl, zeros. induction y as [|a y IH]; [reflexivity|]. cbn [map List.length repeat]. intros H.
  pose proof (f_equal (fun l => hd k0 l) H) as H1. pose proof (f_equal (@tl K) H) as H2. cbn [hd tl] in H1, H2.
  rewrite <- (IH H2). f_equal. rewrite <- (Qcopp_involutive a), H1. reflexivity.
Qed.
Lemma nth_firstn_lt (A : Type) (d : A) : forall n l j, j < n -> nth j (firstn n l) d = nth j l d.
Proof.
  induction n as [|n IH]; intros l j Hj; [lia|]. destruct l as [|a l]; [destruct j; reflexivity|].
  destruct j as [|j]; [reflexivity|]. cbn [firstn nth]. apply IH. lia.
Qed.
Lemma nth_map_lt (A B : Type) (f : A -> B) (d : A) (d' : B) l j : j < List.length l -> nth j (map f l) d' = f (nth j l d).
Proof. intros H. rewrite (nth_indep _ d' (f d)) by now rewrite map_length. apply map_nth. Qed.
Lemma combine_map_r (A B : Type) (g : A -> B) l : combine l (map g l) = map (fun i => (i, g i)) l.
Proof. induction l as [|a l IH]; [reflexivity|]. cbn [map combine]. now rewrite IH. Qed.
Lemma k1_neq_k0 : k1 <> k0.
Proof. intros E. apply (f_equal (fun x : Qc => Qnum (this x))) in E. vm_compute in E. discriminate. Qed.
Lemma zeros_nth n j : nth j (xzeros n) k0 = k0.
Proof. unfold zeros. revert j. induction n as [|n IH]; intros [|j]; cbn; auto. Qed.
Lemma onehot_nth n j k : k < n -> nth k (xonehot n j) k0 = if Nat.eqb k j then k1 else k0.
Proof.
  intros H. unfold onehot. rewrite (nth_map_lt _ _ _ 0) by now rewrite seq_length. now rewrite seq_nth.
Qed.
Lemma all_zero_zeros n (y : list K) : List.length y = n -> (forall i, i < n -> nth i y k0 = k0) -> y = xzeros n.
Proof.
  intros L H. apply (nth_ext _ _ k0 k0); [now rewrite (zeros_length K)|]. intros i Hi. rewrite zeros_nth. apply H. lia.
Qed.

(* the column-matrix built from rows multiplies like the rows *)
Lemma cols_of_rows_mv (rows : list (list K)) : forall v a, Forall (fun r => List.length r = a + List.length v) rows ->
  mcols (List.length rows) (map (fun j => map (fun r => nth j r k0) rows) (seq a (List.length v))) v =
  map (fun r => dot (skipn a r) v) rows.
Proof.
  induction v as [|x v IH]; intros a H.
  - cbn [List.length seq map matvec_cols]. unfold zeros. clear H.
    induction rows as [|r l IHl]; [reflexivity|]. cbn [map List.length repeat]. now rewrite dot_nil_r, <- IHl.
  - cbn [List.length seq map matvec_cols]. rewrite IH.
    2:{ eapply Forall_impl; [|exact H]. cbn [List.length]. intros r Hr. lia. }
    unfold ladd. rewrite map_map. clear IH. induction H as [|r l Hr _ IHl]; [reflexivity|].
    cbn [map combine fst snd]. f_equal; [|exact IHl].
    cbn [List.length] in Hr. rewrite (skipn_nth_cons K k0 r a) by lia. rewrite dot_cons. change K with Qc. ring.
Qed.

Lemma list_eqb_refl (A : Type) (eqb : A -> A -> bool) : (forall a, eqb a a = true) -> forall l, list_eqb eqb l l = true.
Proof. intros H. induction l as [|a l IH]; [reflexivity|]. cbn [list_eqb]. now rewrite H, IH. Qed.
Lemma xmat_eqb_refl (a : xmat) : xmat_eqb a a = true.
Proof.
  unfold xmat_eqb. rewrite Nat.eqb_refl. cbn [andb]. apply list_eqb_refl. intros c. apply list_eqb_refl.
  intros x. unfold Qc_eq_bool. destruct (Qc_eq_dec x x); congruence.
Qed.

(* a matrix whose products with the columns of M are the basis vectors is a left inverse of M *)
Lemma left_inverse_of_cols (M N : xmat) n : xmwf M -> xmwf N -> m_nr M = n -> List.length (m_cols M) = n -> m_nr N = n ->
  map (xmatvec N) (m_cols M) = map (xonehot n) (seq 0 n) ->
  forall w, List.length w = n -> xmatvec N (xmatvec M w) = w.
Proof.
  intros WM WN RM CM RN EL.
  apply (list_lin_id (fun w => xmatvec N (xmatvec M w)) n).
  - intros k v. cbv beta. unfold xmatvec, matvec. now rewrite !mcols_scale.
  - intros u v Hu Hv. cbv beta. unfold xmatvec, matvec. rewrite mcols_add by congruence. apply mcols_add.
    now rewrite !(mv_length K k0 Qcplus Qcmult _ _ WM).
  - intros v. unfold xmatvec at 1, matvec. rewrite (mv_length K k0 Qcplus Qcmult _ _ WN). exact RN.
  - intros j Hj. unfold xmatvec at 2, matvec.
    assert (E1 : mcols (m_nr M) (m_cols M) (xonehot n j) = nth j (m_cols M) []).
    { rewrite <- CM. apply (Q7 mv_onehot (m_nr M) (m_cols M) WM j). rewrite CM. exact Hj. }
    rewrite E1.
    transitivity (nth j (map (xmatvec N) (m_cols M)) (xmatvec N [])); [symmetry; apply map_nth|].
    rewrite EL. rewrite (nth_indep _ _ (xonehot n 0)) by (rewrite map_length, seq_length; exact Hj).
    rewrite (map_nth (xonehot n)), seq_nth by exact Hj. reflexivity.
Qed.

Section GJ.
  Variable n : nat.
  Variable cols : list (list K).
  Hypothesis Hc : xcolsok n cols.
  Hypothesis Lc : List.length cols = n.
  Notation Mv := (mcols n cols).
  (* M is injective and has a right inverse g *)
  Variable g : list K -> list K.
  Hypothesis Hinj : forall v, List.length v = n -> Mv v = xzeros n -> v = xzeros n.
  Hypothesis Hg : forall v, List.length v = n -> Mv (g v) = v.
  Hypothesis Lg : forall v, List.length v = n -> List.length (g v) = n.

  Definition tv (u : list K) : list K := u ++ negl (Mv u).
  Definition ann (rows : list (list K)) (w : list K) : Prop := forall r, In r rows -> dot r w = k0.
  Definition delta (j k : nat) : K := if Nat.eqb j k then k1 else k0.
  Record inv (c : nat) (done rest : list (list K)) : Prop := {
    i_len : forall r, In r (done ++ rest) -> List.length r = n + n;
    i_cnt : List.length done = c /\ c + List.length rest = n;
    i_done : forall k j, k < c -> j < c -> nth j (nth k done []) k0 = delta j k;
    i_rest : forall r j, In r rest -> j < c -> nth j r k0 = k0;
    i_M : forall u, List.length u = n -> ann (done ++ rest) (tv u);
    i_B : forall y, List.length y = n -> ann (done ++ rest) (xzeros n ++ y) -> y = xzeros n }.

  Lemma Mv_length v : List.length (Mv v) = n.
  Proof. apply (mv_length K k0 Qcplus Qcmult n cols Hc). Qed.

  (* ---------- one elimination step ---------- *)
  Section Step.
    Variables (c : nat) (done rest : list (list K)) (p : list K) (others : list (list K)).
    Hypothesis Hcn : c < n.
    Hypothesis I : inv c done rest.
    Hypothesis TP : take_pivot c rest = Some (p, others).
    Let a := nth c p k0.
    Let p' := lsc (Qcinv a) p.
    Let el := fun r : list K => row_elim (nth c r k0) p' r.

    Lemma step_facts : a <> k0 /\ In p rest /\ List.length p = n + n /\ List.length p' = n + n /\
      (forall j, j < c -> nth j p' k0 = k0) /\ nth c p' k0 = k1.
    Proof.
      destruct (take_pivot_some c rest p others TP) as (Ha & _ & Hm).
      assert (Hp : In p rest) by (apply Hm; now left).
      assert (Lp : List.length p = n + n) by (apply (i_len _ _ _ I), in_or_app; now right).
      assert (Np : forall j, j < n + n -> nth j p' k0 = Qcmult (Qcinv a) (nth j p k0)).
      { intros j Hj. unfold p'. apply (nth_map_lt _ _ (Qcmult (Qcinv a)) k0 k0).
        apply (Nat.lt_le_trans _ _ _ Hj), Nat.eq_le_incl. symmetry. exact Lp. }
      repeat split; try assumption.
      - unfold p'. now rewrite map_length.
      - intros j Hj. rewrite Np by lia. rewrite (i_rest _ _ _ I p j Hp Hj). change K with Qc. unfold k0. ring.
      - rewrite Np by lia. fold a. apply Qcmult_inv_l. exact Ha.
    Qed.

    Lemma el_length r : List.length r = n + n -> List.length (el r) = n + n.
    Proof. intros H. unfold el. rewrite row_elim_length; [exact H|]. destruct step_facts as (_ & _ & _ & L & _). transitivity (n + n); [exact L|symmetry; exact H]. Qed.
    Lemma el_nth r j : List.length r = n + n -> j < n + n ->
      nth j (el r) k0 = Qcminus (nth j r k0) (Qcmult (nth c r k0) (nth j p' k0)).
    Proof. intros H Hj. unfold el. apply row_elim_nth; [|lia]. destruct step_facts as (_ & _ & _ & L & _). transitivity (n + n); [exact L|symmetry; exact H]. Qed.
    Lemma el_dot r w : List.length r = n + n ->
      dot (el r) w = Qcminus (dot r w) (Qcmult (nth c r k0) (dot p' w)).
    Proof. intros H. unfold el. apply row_elim_dot. destruct step_facts as (_ & _ & _ & L & _). transitivity (n + n); [exact L|symmetry; exact H]. Qed.
    Lemma el_nil : el [] = [].
    Proof. unfold el, row_elim. now rewrite combine_nil. Qed.

    (* the new rows annihilate exactly what the old rows annihilate *)
    Lemma ann_step w : ann (done ++ rest) w <-> ann ((map el done ++ [p']) ++ map el others) w.
    Proof.
      destruct step_facts as (Ha & Hp & Lp & Lp' & _ & _).
      destruct (take_pivot_some c rest p others TP) as (_ & _ & Hm).
      assert (Dp' : dot p' w = Qcmult (Qcinv a) (dot p w)) by apply dot_scale_l.
      split; intros H r Hr.
      - assert (P0 : dot p w = k0) by (apply H, in_or_app; now right).
        assert (P0' : dot p' w = k0) by (rewrite Dp', P0; change K with Qc; unfold k0; ring).
        apply in_app_or in Hr as [Hr|Hr]; [apply in_app_or in Hr as [Hr|[<-|[]]]|]; [| exact P0' |].
        + apply in_map_iff in Hr as (r0 & <- & Hr0).
          rewrite el_dot by (apply (i_len _ _ _ I), in_or_app; now left).
          rewrite P0', (H r0) by (apply in_or_app; now left). change K with Qc. unfold k0. ring.
        + apply in_map_iff in Hr as (r0 & <- & Hr0).
          assert (Hr0' : In r0 rest) by (apply Hm; now right).
          rewrite el_dot by (apply (i_len _ _ _ I), in_or_app; now right).
          rewrite P0', (H r0) by (apply in_or_app; now right). change K with Qc. unfold k0. ring.
      - assert (P0' : dot p' w = k0) by (apply H, in_or_app; left; apply in_or_app; right; now left).
        assert (P0 : dot p w = k0).
        { transitivity (Qcmult a (dot p' w)); [|rewrite P0'; change K with Qc; unfold k0; ring].
          rewrite Dp', Qcmult_assoc, Qcmult_inv_r by exact Ha. symmetry. apply Qcmult_1_l. }
        assert (EL : forall r0, List.length r0 = n + n -> dot (el r0) w = k0 -> dot r0 w = k0).
        { intros r0 L0 E. rewrite el_dot, P0' in E by exact L0.
          transitivity (Qcminus (dot r0 w) (Qcmult (nth c r0 k0) k0)); [symmetry; change K with Qc; unfold k0; ring|exact E]. }
        apply in_app_or in Hr as [Hr|Hr].
        + apply EL; [apply (i_len _ _ _ I), in_or_app; now left|].
          apply H, in_or_app. left. apply in_or_app. left. now apply in_map.
        + apply Hm in Hr as [->|Hr]; [exact P0|].
          apply EL; [apply (i_len _ _ _ I), in_or_app; right; apply Hm; now right|].
          apply H, in_or_app. right. now apply in_map.
    Qed.

    Lemma inv_step : inv (S c) (map el done ++ [p']) (map el others).
    Proof.
      destruct step_facts as (Ha & Hp & Lp & Lp' & Z' & O').
      destruct (take_pivot_some c rest p others TP) as (_ & Lr & Hm).
      destruct (i_cnt _ _ _ I) as [Ld Lcr].
      constructor.
      - intros r Hr. apply in_app_or in Hr as [Hr|Hr]; [apply in_app_or in Hr as [Hr|[<-|[]]]|]; [|exact Lp'|].
        + apply in_map_iff in Hr as (r0 & <- & Hr0). apply el_length, (i_len _ _ _ I), in_or_app. now left.
        + apply in_map_iff in Hr as (r0 & <- & Hr0). apply el_length, (i_len _ _ _ I), in_or_app. right. apply Hm. now right.
      - rewrite app_length, !map_length. cbn [List.length]. lia.
      - intros k j Hk Hj. destruct (Nat.eq_dec k c) as [->|Nk].
        + rewrite app_nth2 by (rewrite map_length; lia). rewrite map_length, Ld, Nat.sub_diag. cbn [nth].
          unfold delta. destruct (Nat.eqb_spec j c) as [->|Nj]; [exact O'|apply Z'; lia].
        + rewrite app_nth1 by (rewrite map_length; lia).
          rewrite (nth_indep _ [] (el [])) by (rewrite map_length; lia). rewrite map_nth.
          assert (Hd : In (nth k done []) done) by (apply nth_In; lia).
          rewrite el_nth; [|apply (i_len _ _ _ I), in_or_app; now left|lia].
          unfold delta. destruct (Nat.eq_dec j c) as [->|Nj].
          * rewrite O'. replace (Nat.eqb c k) with false by (symmetry; apply Nat.eqb_neq; lia). change K with Qc. unfold k0, k1. ring.
          * rewrite Z' by lia. rewrite (i_done _ _ _ I k j) by lia. unfold delta. change K with Qc. unfold k0. ring.
      - intros r j Hr Hj. apply in_map_iff in Hr as (r0 & <- & Hr0).
        assert (Hr0' : In r0 rest) by (apply Hm; now right).
        rewrite el_nth; [|apply (i_len _ _ _ I), in_or_app; now right|lia].
        destruct (Nat.eq_dec j c) as [->|Nj].
        * rewrite O'. change K with Qc. unfold k0, k1. ring.
        * rewrite Z' by lia. rewrite (i_rest _ _ _ I r0 j Hr0') by lia. change K with Qc. unfold k0. ring.
      - intros u Lu. apply ann_step. now apply (i_M _ _ _ I).
      - intros y Ly H. apply (i_B _ _ _ I y Ly). now apply ann_step.
    Qed.
  End Step.

  (* ---------- a pivot exists ---------- *)
  Lemma pivot_exists c done rest : c < n -> inv c done rest -> take_pivot c rest <> None.
  Proof.
    intros Hcn I TP. pose proof (take_pivot_none c rest TP) as Z.
    destruct (i_cnt _ _ _ I) as [Ld Lcr].
    set (s := map (fun d : list K => nth c d k0) done).
    assert (Ls : List.length s = c) by (unfold s; now rewrite map_length).
    set (v := negl s ++ k1 :: xzeros (n - S c)).
    assert (Lv : List.length v = n).
    { unfold v. rewrite app_length, negl_length, Ls. cbn [List.length]. rewrite (zeros_length K). lia. }
    (* every row annihilates v ++ 0 *)
    assert (A : ann (done ++ rest) (v ++ xzeros n)).
    { intros r Hr. pose proof (i_len _ _ _ I r Hr) as Lr.
      assert (E : v ++ xzeros n = negl s ++ k1 :: xzeros (n - S c + n)).
      { unfold v. rewrite <- app_assoc. cbn [app]. now rewrite (zeros_app K). }
      rewrite E. rewrite <- (firstn_skipn c r) at 1.
      rewrite dot_app by (rewrite firstn_length, negl_length, Ls; apply Nat.min_l; lia).
      rewrite (skipn_nth_cons K k0 r c) by lia. rewrite dot_cons, dot_zeros, dot_negl.
      apply in_app_or in Hr as [Hr|Hr].
      - destruct (In_nth _ _ [] Hr) as (k & Hk & <-). rewrite Ld in Hk.
        assert (F : firstn c (nth k done []) = xonehot c k).
        { apply (nth_ext _ _ k0 k0); [rewrite firstn_length, (onehot_length K); apply Nat.min_l; lia|].
          intros j Hj. rewrite firstn_length in Hj. rewrite nth_firstn_lt by lia. rewrite onehot_nth by lia.
          apply (i_done _ _ _ I); lia. }
        rewrite F, dot_comm, dot_onehot_r by (try exact Ls; exact Hk).
        unfold s. rewrite (nth_map_lt _ _ (fun d : list K => nth c d k0) [] k0) by lia.
        change K with Qc. unfold k0, k1. ring.
      - assert (F : firstn c r = xzeros c).
        { apply all_zero_zeros; [rewrite firstn_length; apply Nat.min_l; lia|].
          intros j Hj. rewrite nth_firstn_lt by lia. now apply (i_rest _ _ _ I). }
        rewrite F, dot_comm, dot_zeros, (Z r Hr). change K with Qc. unfold k0, k1. ring. }
    (* hence every row annihilates 0 ++ -(M v), so M v = 0, so v = 0 *)
    assert (B : ann (done ++ rest) (xzeros n ++ negl (Mv v))).
    { intros r Hr. pose proof (i_M _ _ _ I v Lv r Hr) as H1. pose proof (A r Hr) as H2. unfold tv in H1.
      assert (E : v ++ negl (Mv v) = xladd (v ++ xzeros n) (xzeros n ++ negl (Mv v))).
      { rewrite (ladd_app K) by (rewrite (zeros_length K); exact Lv).
        rewrite (Q7 ladd_zeros_r n v Lv), (Q7 ladd_zeros_l n) by (rewrite negl_length; apply Mv_length). reflexivity. }
      rewrite E, dot_add, H2 in H1.
      2:{ rewrite !app_length, (zeros_length K), Lv, negl_length, Mv_length. reflexivity. }
      rewrite Qcplus_0_l in H1. exact H1. }
    assert (LM : List.length (negl (Mv v)) = n) by (rewrite negl_length; apply Mv_length).
    pose proof (i_B _ _ _ I _ LM B) as E0.
    assert (E1 : Mv v = xzeros n).
    { rewrite <- (Mv_length v) at 2. apply negl_zeros_inv. rewrite Mv_length. exact E0. }
    pose proof (Hinj v Lv E1) as E2.
    assert (E3 : nth c v k0 = k1).
    { unfold v. rewrite app_nth2 by (rewrite negl_length; lia). rewrite negl_length, Ls, Nat.sub_diag. reflexivity. }
    rewrite E2, zeros_nth in E3. exact (k1_neq_k0 (eq_sym E3)).
  Qed.

  (* ---------- the whole elimination ---------- *)
  Lemma gj_run : forall k c done rest, c + k = n -> inv c done rest ->
    exists rows, gauss_jordan (seq c k) done rest = Some rows /\ inv n rows [].
  Proof.
    induction k as [|k IH]; intros c done rest Hk I.
    - assert (c = n) by lia. subst c. exists done. split; [reflexivity|].
      destruct (i_cnt _ _ _ I) as [_ Lr]. destruct rest; [exact I|cbn [List.length] in Lr; lia].
    - cbn [seq gauss_jordan]. destruct (take_pivot c rest) as [[p others]|] eqn:TP.
      + apply IH; [lia|]. exact (inv_step c done rest p others ltac:(lia) I TP).
      + exfalso. exact (pivot_exists c done rest ltac:(lia) I TP).
  Qed.

  (* ---------- the start: [M | I] by rows ---------- *)
  Definition aug0 : list (list K) := map (fun i => map (fun c => nth i c k0) cols ++ xonehot n i) (seq 0 n).
  Lemma row_dot i u : i < n -> dot (map (fun c => nth i c k0) cols) u = dot (xonehot n i) (Mv u).
  Proof.
    intros Hi. rewrite (dot_mcols _ _ _ Hc). f_equal. apply map_ext_in. intros c Hc'.
    unfold colsok in Hc. rewrite Forall_forall in Hc. rewrite dot_comm, dot_onehot_r by (auto; lia). reflexivity.
  Qed.
  Lemma inv_start : inv 0 [] aug0.
  Proof.
    constructor.
    - intros r Hr. cbn [app] in Hr. apply in_map_iff in Hr as (i & <- & _). now rewrite app_length, map_length, (onehot_length K), Lc.
    - unfold aug0. now rewrite map_length, seq_length.
    - intros; lia.
    - intros; lia.
    - intros u Lu r Hr. cbn [app] in Hr. apply in_map_iff in Hr as (i & <- & Hi). apply in_seq in Hi. unfold tv.
      rewrite dot_app by (rewrite map_length; congruence).
      rewrite row_dot, dot_negl by lia. apply Qcplus_opp_r.
    - intros y Ly H. apply all_zero_zeros; [exact Ly|]. intros i Hi. cbn [app] in H.
      specialize (H (map (fun c => nth i c k0) cols ++ xonehot n i)).
      rewrite dot_app in H by (rewrite map_length, (zeros_length K); exact Lc).
      rewrite dot_zeros, (dot_comm (xonehot n i) y), dot_onehot_r, Qcplus_0_l in H by assumption.
      apply H. apply in_map_iff. exists i. split; [reflexivity|apply in_seq; lia].
  Qed.

  (* ---------- the end: the right halves are the rows of a left inverse ---------- *)
  Lemma qc_sub0 (x y : Qc) : Qcplus x (Qcopp y) = Q2Qc 0 -> y = x.
  Proof. intros H. transitivity (Qcminus x (Qcplus x (Qcopp y))); [ring|rewrite H; ring]. Qed.

  Lemma final_rows rows : inv n rows [] ->
    forall k j, k < n -> j < n -> dot (skipn n (nth k rows [])) (nth j cols []) = delta j k.
  Proof.
    intros I k j Hk Hj. destruct (i_cnt _ _ _ I) as [Ld _].
    set (d := nth k rows []). assert (Hd : In d (rows ++ [])) by (rewrite app_nil_r; apply nth_In; lia).
    pose proof (i_len _ _ _ I d Hd) as Ldd.
    pose proof (i_M _ _ _ I (xonehot n j) (onehot_length K k0 k1 n j) d Hd) as H. unfold tv in H.
    pose proof (Q7 mv_onehot n cols Hc j) as E. rewrite Lc in E. specialize (E Hj). rewrite E in H.
    rewrite <- (firstn_skipn n d) in H at 1.
    rewrite dot_app in H by (rewrite firstn_length, (onehot_length K); apply Nat.min_l; lia).
    rewrite dot_onehot_r in H by (try exact Hj; rewrite firstn_length; apply Nat.min_l; lia).
    rewrite nth_firstn_lt in H by exact Hj. unfold d in H at 1. rewrite (i_done _ _ _ I k j Hk Hj), dot_negl in H.
    exact (qc_sub0 _ _ H).
  Qed.

  Definition Ncols (rows : list (list K)) : list (list K) :=
    map (fun j => map (fun r => nth j r k0) (map (skipn n) rows)) (seq 0 n).

  Lemma Ncols_wf rows : List.length rows = n -> xmwf (mkMat n (Ncols rows)).
  Proof.
    intros L. unfold mwf, colsok, Ncols. cbn [m_nr m_cols]. apply Forall_forall. intros c Hc'.
    apply in_map_iff in Hc' as (j & <- & _). now rewrite !map_length.
  Qed.

  Lemma NM_eye rows : inv n rows [] -> map (xmatvec (mkMat n (Ncols rows))) cols = map (xonehot n) (seq 0 n).
  Proof.
    intros I. destruct (i_cnt _ _ _ I) as [Ld _].
    apply (nth_ext _ _ (xmatvec (mkMat n (Ncols rows)) []) (xonehot n 0)); [now rewrite !map_length, seq_length|].
    intros j Hj. rewrite map_length, Lc in Hj. rewrite map_nth, (map_nth (xonehot n)), seq_nth by exact Hj. cbn [Nat.add].
    assert (Lj : List.length (nth j cols []) = n).
    { unfold colsok in Hc. rewrite Forall_forall in Hc. apply Hc, nth_In. now rewrite Lc. }
    unfold xmatvec, matvec, Ncols. cbn [m_nr m_cols].
    pose proof (cols_of_rows_mv (map (skipn n) rows) (nth j cols []) 0) as E. rewrite map_length, Ld, Lj in E.
    rewrite E; clear E.
    2:{ apply Forall_forall. intros r Hr. apply in_map_iff in Hr as (r0 & <- & Hr0). rewrite skipn_length.
        rewrite (i_len _ _ _ I r0) by (rewrite app_nil_r; exact Hr0). lia. }
    apply (nth_ext _ _ k0 k0); [now rewrite !map_length, (onehot_length K)|].
    intros k Hk. rewrite !map_length, Ld in Hk.
    rewrite (nth_map_lt _ _ (fun r : list K => dot (skipn 0 r) (nth j cols [])) [] k0) by (now rewrite map_length, Ld).
    rewrite (nth_map_lt _ _ (skipn n) [] []) by now rewrite Ld. cbn [skipn].
    rewrite (final_rows rows I k j Hk Hj), onehot_nth by exact Hk. unfold delta. now rewrite Nat.eqb_sym.
  Qed.

  Lemma x_minv_defined : exists N, x_minv (mkMat n cols) = Some N.
  Proof.
    destruct (gj_run n 0 [] aug0 eq_refl inv_start) as (rows & EG & I). destruct (i_cnt _ _ _ I) as [Ld _].
    set (N := mkMat n (Ncols rows)). exists N.
    assert (WM : xmwf (mkMat n cols)) by exact Hc.
    assert (WN : xmwf N) by now apply Ncols_wf.
    assert (LNc : List.length (Ncols rows) = n) by (unfold Ncols; now rewrite map_length, seq_length).
    pose proof (NM_eye rows I) as E1.
    pose proof (left_inverse_of_cols (mkMat n cols) N n WM WN eq_refl Lc eq_refl E1) as HL.
    assert (E2 : map (xmatvec (mkMat n cols)) (Ncols rows) = map (xonehot n) (seq 0 n)).
    { apply (nth_ext _ _ (xmatvec (mkMat n cols) []) (xonehot n 0)); [now rewrite !map_length, seq_length|].
      intros j Hj. rewrite map_length, LNc in Hj. rewrite map_nth, (map_nth (xonehot n)), seq_nth by exact Hj. cbn [Nat.add].
      pose proof (Q7 mv_onehot n (Ncols rows) WN j) as E. rewrite LNc in E. specialize (E Hj).
      assert (Ej : nth j (Ncols rows) [] = g (xonehot n j)).
      { rewrite <- E. rewrite <- (Hg (xonehot n j) (onehot_length K k0 k1 n j)) at 1.
        apply (HL (g (xonehot n j))). apply Lg, (onehot_length K). }
      rewrite Ej. apply (Hg _ (onehot_length K k0 k1 n j)). }
    unfold x_minv. cbn [m_nr m_cols]. unfold m_nc. cbn [m_cols]. rewrite Lc, Nat.eqb_refl. cbn [negb].
    assert (EA : map (fun ir : nat * list K => snd ir ++ xonehot n (fst ir)) (combine (seq 0 n) (rows_of (mkMat n cols))) = aug0).
    { unfold rows_of. cbn [m_nr m_cols]. rewrite combine_map_r, map_map. reflexivity. }
    rewrite EA, EG. fold (Ncols rows). fold N.
    replace (xmmul N (mkMat n cols)) with (xeye n) by (unfold xmmul, mmul, xeye, eye; cbn [m_nr m_cols]; f_equal; symmetry; exact E1).
    replace (xmmul (mkMat n cols) N) with (xeye n) by (unfold xmmul, mmul, xeye, eye; cbn [m_nr m_cols]; f_equal; symmetry; exact E2).
    now rewrite xmat_eqb_refl.
  Qed.
End GJ.

(* ====================================================================================== *)
(* lazy inverses: inv(operand.as_matrix()) is the measured matrix of the wrapper           *)
(* ====================================================================================== *)
Lemma matvec_zeros (N : matrix) m : Exec.matvec N (xzeros m) = xzeros (List.length N).
Proof.
  unfold Exec.matvec. induction N as [|r N IH]; [reflexivity|].
  cbn [map List.length]. rewrite dot_zeros, IH. reflexivity.
Qed.
Lemma inv_wrap_of w : w = WInverse \/ w = WQURotT -> inv_wrap w = true.
Proof. intros [-> | ->]; reflexivity. Qed.
Lemma wrap_inverse_cls w : w = WInverse \/ w = WQURotT -> isinst (wcls w) [CAbstractLazyInverse] = true.
Proof. intros [-> | ->]; reflexivity. Qed.

Lemma inverse_node tb otb i w (x : xop) : w = WInverse \/ w = WQURotT ->
  wfo (Wrap i w x) = true -> dtable_okb tb (Wrap i w x) = true ->
  x_as_matrix tb otb x = x_generic tb x ->
  is_some (stored tb i) = true ->
  x_as_matrix tb otb (Wrap i w x) = x_generic tb (Wrap i w x).
Proof.
  intros Hw Ww T IH HS.
  assert (EA : x_as_matrix tb otb (Wrap i w x) = obind (x_as_matrix tb otb x) x_minv)
    by (destruct Hw as [-> | ->]; reflexivity).
  rewrite EA, IH, x_generic_columns. clear EA IH.
  apply is_some_spec in HS as (N & S).
  destruct (dt_wrap tb i w x N T (inv_wrap_of w Hw) S) as (Te & D & cols & G & RA & RB).
  pose proof Ww as Wx. cbn [wfo] in Wx. apply andb_true_iff in Wx as [Wx Sq].
  rewrite (wrap_inverse_cls w Hw) in Sq. unfold is_square in Sq. apply struct_eqb_eq in Sq.
  apply dims_okb_spec in D as [LN _].
  pose proof (dt_honest tb x Wx Te) as Hx.
  destruct (gcols_ok tb x cols Hx G) as [Lc C].
  assert (Eio : in_size x = out_size x) by (unfold in_size, out_size; now rewrite Sq).
  (* the modelled jnp.linalg.inv succeeds: the measured matrix is a two-sided inverse *)
  destruct (x_minv_defined (out_size x) cols C (eq_trans Lc Eio) (Exec.matvec N)) as (N' & HN').
  { intros v Lv E. rewrite <- (inv_left N (out_size x) cols (in_size x) C RA LN v) by congruence.
    rewrite E, matvec_zeros, LN. fold (in_size x). now rewrite Eio. }
  { exact (inv_right N (out_size x) cols C RB). }
  { intros v _. unfold Exec.matvec. rewrite map_length, LN. exact Eio. }
  unfold x_columns. rewrite G. cbn [option_map obind]. rewrite HN'.
  destruct (x_minv_spec (mkMat (out_size x) cols) N' C HN') as (Esq & WN & RN & CN & HL). cbn [m_nr m_cols] in Esq, RN, CN, HL.
  destruct (wrap_structs' K i w x) as [Sin Sout].
  symmetry. apply generic_of_repr.
  - exact (dt_honest tb _ Ww T).
  - split; [exact WN|]. split; [unfold out_size at 1; rewrite Sout; fold (in_size x); congruence|].
    split; [unfold in_size at 1; rewrite Sin; exact CN|].
    intros z y Hz Hy. rewrite Sin in Hz. change (den tb (Wrap i w x) z = Some y) in Hy.
    change (den tb (Wrap i w x) z) with (leafsem tb (Wrap i w x) z) in Hy.
    rewrite (leafsem_wrap_stored tb i w x N z S) in Hy. unfold apply_matrix in Hy.
    change (has_struct z (out_struct x)) with (xvhas z (out_struct x)) in Hy. rewrite Hz in Hy. injection Hy as <-.
    pose proof (vhas_length K _ _ Hz) as Lz. fold (out_size x) in Lz.
    set (v := xvflat z) in *. change (vflatten z) with v.
    set (u := Exec.matvec N v).
    assert (Lu : List.length u = struct_size (in_struct x)) by (unfold u, Exec.matvec; now rewrite map_length).
    change (fst (unflatten (in_struct x) u)) with (xunflat (in_struct x) u). rewrite (unflat_flat K _ _ Lu).
    rewrite <- (HL u) by (fold (in_size x) in Lu; congruence).
    unfold xmatvec, matvec. cbn [m_nr m_cols]. f_equal. exact (inv_right N (out_size x) cols C RB v Lz).
  - intros j Hj. change (den tb (Wrap i w x) (xbasis (in_struct (Wrap i w x)) j))
      with (leafsem tb (Wrap i w x) (xbasis (in_struct (Wrap i w x)) j)).
    rewrite (leafsem_wrap_stored tb i w x N _ S). unfold apply_matrix.
    change (has_struct (xbasis (in_struct (Wrap i w x)) j) (out_struct x))
      with (xvhas (xbasis (in_struct (Wrap i w x)) j) (out_struct x)).
    rewrite Sin, (basis_vhas K k0 k1). eauto.
Qed.

(* ====================================================================================== *)
(* leaves that apply to their declared input structure: every composite is total           *)
(* ====================================================================================== *)
Lemma leaf_applies_defined tb (l : xop) : leaflike K l = true -> leaf_honest K (leafsem tb) l ->
  leaf_applies tb l = true -> leaf_defined K (leafsem tb) l.
Proof.
  intros Hk Hh A x Hx. unfold leaf_applies in A. apply andb_true_iff in A as [A1 A2].
  apply is_some_spec in A1 as (cols & G). apply is_some_spec in A2 as (y0 & Z).
  assert (E : forall x, den tb l x = leafsem tb l x) by (intros; destruct l; try discriminate Hk; reflexivity).
  assert (Hon : xhonest tb l).
  { intros a b Ha Hb. rewrite (vhas_same K) in Ha. change (den tb l a = Some b) in Hb. rewrite E in Hb.
    pose proof (Hh a b Ha Hb) as Hb'. rewrite <- (vhas_same K) in Hb'. exact (vhas_length K _ _ Hb'). }
  rewrite <- (vhas_same K) in Hx. rewrite <- E.
  apply (total_of_gcols tb l cols Hon G); [congruence|exact Hx].
Qed.

Lemma leaves_leaflike : forall e : xop, Forall (fun l => leaflike K l = true) (leaves e).
Proof.
  induction e as [i c si so p|i w e IH|i s|i k s|i l IH|i l IH|i b td l IH] using op_ind'; cbn [leaves];
    try (constructor; [reflexivity|constructor]); try constructor; apply Forall_flat_map; exact IH.
Qed.

Lemma applies_total tb (e : xop) : wfo e = true -> dtable_okb tb e = true ->
  forallb (leaf_applies tb) (leaves e) = true ->
  forall x, xvhas x (in_struct e) = true -> exists y, den tb e x = Some y.
Proof.
  intros W T A x Hx. rewrite (vhas_same K) in Hx.
  pose proof (dt_leaves tb e T) as HL.
  apply (denote_defined_l K Qcplus Qcmult (leafsem tb) e W HL); [|exact Hx].
  pose proof (leaves_leaflike e) as HK. rewrite forallb_forall in A. rewrite Forall_forall in HL, HK |- *.
  intros l Hl. apply leaf_applies_defined; auto.
Qed.

(* a total honest operator: the generic matrix exists and represents it *)
Lemma total_generic tb (e : xop) : xhonest tb e ->
  (forall x, xvhas x (in_struct e) = true -> exists y, den tb e x = Some y) ->
  exists M, x_generic tb e = Some M /\ xrepr tb e M.
Proof.
  intros Hh Ht. destruct (gcols_of_defined tb e Hh) as (cols & G).
  { intros j _. apply Ht, (basis_vhas K k0 k1). }
  exists (mkMat (out_size e) cols). split; [|now apply repr_of_gcols].
  rewrite x_generic_columns. unfold x_columns. now rewrite G.
Qed.

Lemma operands_generic tb (l : list xop) :
  Forall (fun x => wfo x = true) l -> forallb (dtable_okb tb) l = true ->
  forallb (leaf_applies tb) (flat_map (@leaves K) l) = true ->
  exists Ms, omapl (x_generic tb) l = Some Ms /\ Forall2 (xrepr tb) l Ms.
Proof.
  induction 1 as [|x l W _ IH]; intros T A.
  - exists []. split; [reflexivity|constructor].
  - cbn [forallb flat_map] in T, A. apply andb_true_iff in T as [T1 T2]. rewrite forallb_app in A.
    apply andb_true_iff in A as [A1 A2]. destruct (IH T2 A2) as (Ms & E & F).
    destruct (total_generic tb x (dt_honest tb x W T1) (applies_total tb x W T1 A1)) as (M & EM & RM).
    exists (M :: Ms). cbn [omapl]. rewrite EM, E. split; [reflexivity|now constructor].
Qed.

Lemma omapl_ext_Forall A B (f g : A -> option B) l : Forall (fun a => f a = g a) l -> omapl f l = omapl g l.
Proof. induction 1 as [|a l Ha _ IH]; [reflexivity|]. cbn [omapl]. now rewrite Ha, IH. Qed.

(* a container node: every operand's dense form is its generic matrix, every leaf applies *)
Section Container.
  Variables (tb : table) (otb : otable).
  Variable e : xop.
  Variable l : list xop.
  Variable stack : list xmat -> option xmat.
  Hypothesis Eas : x_as_matrix tb otb e = obind (omapl (x_as_matrix tb otb) l) stack.
  Hypothesis Elv : leaves e = flat_map (@leaves K) l.
  Hypothesis W : wfo e = true.
  Hypothesis Wl : Forall (fun x => wfo x = true) l.
  Hypothesis T : dtable_okb tb e = true.
  Hypothesis Tl : forallb (dtable_okb tb) l = true.
  Hypothesis A : forallb (leaf_applies tb) (leaves e) = true.
  Hypothesis IH : Forall (fun x => x_as_matrix tb otb x = x_generic tb x) l.
  (* the stacked matrix of representing matrices exists and represents the node *)
  Hypothesis Hstack : forall Ms, Forall2 (xrepr tb) l Ms -> exists M, stack Ms = Some M /\ xrepr tb e M.

  Lemma container_node : x_as_matrix tb otb e = x_generic tb e.
  Proof.
    rewrite Eas, (omapl_ext_Forall _ _ _ _ _ IH). rewrite Elv in A.
    destruct (operands_generic tb l Wl Tl A) as (Ms & E & F). rewrite E. cbn [obind].
    destruct (Hstack Ms F) as (M & EM & RM). rewrite EM. symmetry.
    apply generic_of_repr; [exact (dt_honest tb e W T)|exact RM|].
    intros j _. rewrite <- Elv in A. apply (applies_total tb e W T A), (basis_vhas K k0 k1).
  Qed.
End Container.

(* ---------- the stacked matrices exist (the constructors validated the operand structures) ---------- *)
Lemma msum_some m n : forall r A, dims K m n A -> Forall (dims K m n) r -> exists M, msum K Qcplus (A :: r) = Some M.
Proof.
  cbn [msum]. induction r as [|B r IH]; intros A DA DR; cbn [fold_left]; [eauto|].
  inversion DR as [|? ? DB DR']; subst. destruct (Q7 madd_spec m n A B DA DB) as (C & EC & DC & _).
  cbn [obind]. rewrite EC. exact (IH C DC DR').
Qed.
Lemma repr_dims tb m n (l : list xop) Ms : Forall2 (xrepr tb) l Ms ->
  (forall x, In x l -> out_size x = m /\ in_size x = n) -> Forall (dims K m n) Ms.
Proof.
  induction 1 as [|x M l Ms (WM & RM & CM & _) _ IH]; intros H; constructor.
  - destruct (H x (or_introl eq_refl)) as [<- <-]. repeat split; assumption.
  - apply IH. intros y Hy. apply H. now right.
Qed.
Lemma wfo_operands (l : list xop) : BuildL.allwf K l = true -> Forall (fun x : xop => wfo x = true) l.
Proof. apply (StructsL.allwf_Forall K). Qed.

Lemma sum_stack tb i (l : list xop) Ms : wfo (AddOp i l) = true -> Forall2 (xrepr tb) l Ms ->
  exists M, msum K Qcplus Ms = Some M /\ xrepr tb (AddOp i l) M.
Proof.
  intros W F. pose proof W as W'. rewrite wfo_add in W'. apply andb_true_iff in W' as [W' _]. apply andb_true_iff in W' as [_ Hs].
  unfold sum_ok in Hs. apply andb_true_iff in Hs as [Hsi Hso].
  destruct l as [|a r]; [inversion F; subst; discriminate W|].
  assert (Hsz : forall x, In x (a :: r) -> out_size x = out_size a /\ in_size x = in_size a).
  { intros x Hx. unfold out_size, in_size. split; f_equal.
    - apply (all_eqb_spec (map (@out_struct K) (a :: r)) (out_struct a) (map (@out_struct K) r) eq_refl Hso). now apply in_map.
    - apply (all_eqb_spec (map (@in_struct K) (a :: r)) (in_struct a) (map (@in_struct K) r) eq_refl Hsi). now apply in_map. }
  pose proof (repr_dims tb _ _ _ _ F Hsz) as D. inversion D as [|M0 Mr D0 Dr]; subst; [inversion F|].
  destruct (msum_some _ _ Mr M0 D0 Dr) as (M & EM). exists M. split; [exact EM|].
  exact (Q7 repr_sum (leafsem tb) i (a :: r) (M0 :: Mr) M W F EM).
Qed.

Lemma block_stack tb i b td (l : list xop) Ms : wfo (Block i b td l) = true -> Forall2 (xrepr tb) l Ms ->
  exists M, (match b with BRow => hstack K Ms | BDiag => Some (block_diag K k0 Ms) | BCol => vstack K Ms end) = Some M /\
            xrepr tb (Block i b td l) M.
Proof.
  intros W F. pose proof W as W'. rewrite wfo_block in W'. apply andb_true_iff in W' as [W' _]. apply andb_true_iff in W' as [W' Hk].
  apply andb_true_iff in W' as [Hne _].
  assert (Hl : l <> []) by (destruct l; [discriminate|discriminate]).
  assert (EX : exists M, (match b with BRow => hstack K Ms | BDiag => Some (block_diag K k0 Ms) | BCol => vstack K Ms end) = Some M).
  { destruct b.
    - destruct l as [|a r]; [congruence|].
      assert (Hm : Forall (fun x : xop => out_size x = out_size a) (a :: r)).
      { apply Forall_forall. intros x Hx. unfold out_size. f_equal.
        apply (all_eqb_spec (map (@out_struct K) (a :: r)) (out_struct a) (map (@out_struct K) r) eq_refl Hk). now apply in_map. }
      destruct (Q7 hstack_spec (leafsem tb) (out_size a) (a :: r) Ms F Hl Hm) as (M & EM & _). eauto.
    - eauto.
    - destruct l as [|a r]; [congruence|].
      assert (Hn : Forall (fun x : xop => in_size x = in_size a) (a :: r)).
      { apply Forall_forall. intros x Hx. unfold in_size. f_equal.
        apply (all_eqb_spec (map (@in_struct K) (a :: r)) (in_struct a) (map (@in_struct K) r) eq_refl Hk). now apply in_map. }
      destruct (vstack_spec K k0 Qcplus Qcmult (leafsem tb) (in_size a) (a :: r) Ms F Hl Hn) as (M & EM & _). eauto. }
  destruct EX as (M & EM). exists M. split; [exact EM|].
  exact (Q7 repr_block (leafsem tb) i b td l Ms M W F EM).
Qed.

(* ====================================================================================== *)
(* the theorem                                                                             *)
(* ====================================================================================== *)
Lemma IH_operands tb otb (l : list xop) :
  Forall (fun x : xop => wfo x = true -> dtable_okb tb x = true -> otable_okb tb otb x = true ->
                         x_as_matrix tb otb x = x_generic tb x) l ->
  Forall (fun x : xop => wfo x = true) l -> forallb (dtable_okb tb) l = true -> forallb (otable_okb tb otb) l = true ->
  Forall (fun x => x_as_matrix tb otb x = x_generic tb x) l.
Proof.
  induction 1 as [|x l Hx _ IH]; intros W T O; constructor.
  - inversion W; subst. cbn [forallb] in T, O. apply andb_true_iff in T as [T _]. apply andb_true_iff in O as [O _]. auto.
  - inversion W; subst. cbn [forallb] in T, O. apply andb_true_iff in T as [_ T]. apply andb_true_iff in O as [_ O]. auto.
Qed.

Theorem exec_override_eq_generic_min_l : forall tb otb (e : xop),
  wfo e = true -> dtable_okb tb e = true -> otable_okb tb otb e = true ->
  x_as_matrix tb otb e = x_generic tb e.
Proof.
  intros tb otb.
  induction e as [i c si so p|i w e IH|i s|i k s|i l IH|i l IH|i b td l IH] using op_ind'; intros W T O.
  - (* primitive classes *)
    cbn [otable_okb] in O. rewrite x_generic_columns.
    destruct c; try (rewrite <- x_generic_columns; reflexivity); apply omat_eqb_eq in O; exact O.
  - (* lazy wrappers *)
    destruct w; try reflexivity.
    + (* InverseOperator *)
      cbn [otable_okb] in O. apply andb_true_iff in O as [O1 O2].
      pose proof W as Wx. cbn [wfo] in Wx. apply andb_true_iff in Wx as [Wx _].
      pose proof T as Tx. cbn [dtable_okb inv_wrap] in Tx. apply andb_true_iff in Tx as [_ Tx]. apply andb_true_iff in Tx as [Tx _].
      exact (inverse_node tb otb i WInverse e (or_introl eq_refl) W T (IH Wx Tx O1) O2).
    + (* DiagonalInverseOperator: DiagonalOperator.as_matrix *)
      cbn [otable_okb] in O. apply omat_eqb_eq in O. rewrite x_generic_columns. exact O.
    + (* QURotationTransposeOperator *)
      cbn [otable_okb] in O. apply andb_true_iff in O as [O1 O2].
      pose proof W as Wx. cbn [wfo] in Wx. apply andb_true_iff in Wx as [Wx _].
      pose proof T as Tx. cbn [dtable_okb inv_wrap] in Tx. apply andb_true_iff in Tx as [_ Tx]. apply andb_true_iff in Tx as [Tx _].
      exact (inverse_node tb otb i WQURotT e (or_intror eq_refl) W T (IH Wx Tx O1) O2).
  - (* identity *)
    symmetry. apply generic_of_repr.
    + exact (honest_ident K Qcplus Qcmult (leafsem tb) i s).
    + exact (Q7 repr_ident (leafsem tb) i s).
    + intros j _. eexists. reflexivity.
  - (* scalar *)
    symmetry. apply generic_of_repr.
    + exact (honest_homoth K Qcplus Qcmult (leafsem tb) i k s).
    + exact (Q7 repr_homoth (leafsem tb) i k s).
    + intros j _. eexists. reflexivity.
  - (* composition: no override *)
    reflexivity.
  - (* sum *)
    rewrite otable_okb_add in O. apply andb_true_iff in O as [A O]. pose proof T as Tl. rewrite dtable_okb_add in Tl.
    pose proof W as W'. rewrite wfo_add in W'. apply andb_true_iff in W' as [_ Wl]. apply wfo_operands in Wl.
    exact (container_node tb otb (AddOp i l) l (msum K Qcplus)
             (as_matrix_add K k0 k1 Qcplus Qcmult (leafsem tb) (x_leaf_override otb) x_minv i l) eq_refl
             W Wl T Tl A (IH_operands tb otb l IH Wl Tl O) (fun Ms F => sum_stack tb i l Ms W F)).
  - (* block row / diagonal / column *)
    rewrite otable_okb_block in O. apply andb_true_iff in O as [A O]. pose proof T as Tl. rewrite dtable_okb_block in Tl.
    pose proof W as W'. rewrite wfo_block in W'. apply andb_true_iff in W' as [_ Wl]. apply wfo_operands in Wl.
    exact (container_node tb otb (Block i b td l) l
             (fun ms => match b with BRow => hstack K ms | BDiag => Some (block_diag K k0 ms) | BCol => vstack K ms end)
             (as_matrix_block K k0 k1 Qcplus Qcmult (leafsem tb) (x_leaf_override otb) x_minv i b td l) eq_refl
             W Wl T Tl A (IH_operands tb otb l IH Wl Tl O) (fun Ms F => block_stack tb i b td l Ms W F)).
Qed.

(* hence every dense form the overrides return represents the operator: an (out_size x in_size) array whose
   product with the flattened input is the flattened output (override_represents of Props/C04.v) *)
Theorem exec_override_represents_min_l : forall tb otb (e : xop) M,
  wfo e = true -> dtable_okb tb e = true -> otable_okb tb otb e = true ->
  x_as_matrix tb otb e = Some M -> xrepr tb e M.
Proof.
  intros tb otb e M W T O H. rewrite (exec_override_eq_generic_min_l tb otb e W T O), x_generic_columns in H.
  unfold x_columns in H. destruct (gcols tb e) as [cols|] eqn:G; [|discriminate]. injection H as <-.
  exact (repr_of_gcols tb e cols (dt_honest tb e W T) G).
Qed.

(* ====================================================================================== *)
(* Exec.mat (the matrix of application the harness compares with the real mv) is the same *)
(* matrix, printed column by column                                                        *)
(* ====================================================================================== *)
Definition show_cols (m : xmat) : list (list (Z * Z)) := map (map (fun k => qpair (this k))) (m_cols m).

Lemma omapl_ext_in A B (f g : A -> option B) l : (forall a, In a l -> f a = g a) -> omapl f l = omapl g l.
Proof. intros H. apply omapl_ext_Forall, Forall_forall. exact H. Qed.

Theorem exec_mat_is_generic_min_l : forall tb (e : xop), wfo e = true -> dtable_okb tb e = true ->
  Exec.mat tb e = option_map show_cols (x_generic tb e).
Proof.
  intros tb e W T. pose proof (dt_honest tb e W T) as Hh.
  rewrite x_generic_columns. unfold x_columns, Exec.mat, generic_columns.
  rewrite (omapl_ext_in _ _ (fun j => column_of K Qcplus Qcmult (leafsem tb) e (xbasis (in_struct e) j))
             (fun j => option_map vflatten (den tb e (fst (unflatten (in_struct e) (basis (struct_size (in_struct e)) j))))) (seq 0 (in_size e))).
  - unfold in_size. destruct (omapl _ (seq 0 (struct_size (in_struct e)))); reflexivity.
  - intros j _. unfold column_of.
    change (denote Qcplus Qcmult (leafsem tb) e (xbasis (in_struct e) j))
      with (den tb e (fst (unflatten (in_struct e) (basis (struct_size (in_struct e)) j)))).
    destruct (den tb e (fst (unflatten (in_struct e) (basis (struct_size (in_struct e)) j)))) as [y|] eqn:E; [|reflexivity].
    cbn [obind option_map]. apply (fit_id K). apply (Hh _ _ (basis_vhas K k0 k1 (in_struct e) j) E).
Qed.

(* the end-to-end statement: as_matrix() with every override = the generic loop = the matrix of application *)
Theorem exec_override_eq_generic_full_min_l : forall tb otb (e : xop),
  wfo e = true -> dtable_okb tb e = true -> otable_okb tb otb e = true ->
  x_as_matrix tb otb e = x_generic tb e /\ Exec.mat tb e = option_map show_cols (x_as_matrix tb otb e).
Proof.
  intros tb otb e W T O. pose proof (exec_override_eq_generic_min_l tb otb e W T O) as E. split; [exact E|].
  rewrite E. now apply exec_mat_is_generic_min_l.
Qed.

(* ====================================================================================== *)
(* the same under table_okb of Lemmas/ExecFactsL.v (which implies dtable_okb)              *)
(* ====================================================================================== *)
Theorem exec_override_eq_generic_l : forall tb otb (e : xop),
  wfo e = true -> table_okb tb e = true -> otable_okb tb otb e = true ->
  x_as_matrix tb otb e = x_generic tb e.
Proof. intros tb otb e W T O. exact (exec_override_eq_generic_min_l tb otb e W (table_dtable tb e T) O). Qed.
Theorem exec_override_represents_l : forall tb otb (e : xop) M,
  wfo e = true -> table_okb tb e = true -> otable_okb tb otb e = true ->
  x_as_matrix tb otb e = Some M -> xrepr tb e M.
Proof. intros tb otb e M W T O. exact (exec_override_represents_min_l tb otb e M W (table_dtable tb e T) O). Qed.
Theorem exec_mat_is_generic_l : forall tb (e : xop), wfo e = true -> table_okb tb e = true ->
  Exec.mat tb e = option_map show_cols (x_generic tb e).
Proof. intros tb e W T. exact (exec_mat_is_generic_min_l tb e W (table_dtable tb e T)). Qed.
Theorem exec_override_eq_generic_full_l : forall tb otb (e : xop),
  wfo e = true -> table_okb tb e = true -> otable_okb tb otb e = true ->
  x_as_matrix tb otb e = x_generic tb e /\ Exec.mat tb e = option_map show_cols (x_as_matrix tb otb e).
Proof. intros tb otb e W T O. exact (exec_override_eq_generic_full_min_l tb otb e W (table_dtable tb e T) O). Qed.
