(* Proofs about Model/Axes.v (property C13). *)
From Coq Require Import ZArith NArith List Bool Lia Arith Permutation Sorted.
From Furax Require Import Model.Axes.
Import ListNotations.
Close Scope Z_scope.
Open Scope nat_scope.

(* ========================================================================================== *)
(* 1. generic list facts *)

Lemma mem_nat_In : forall x l, mem_nat x l = true <-> In x l.
Proof.
  intros x l. unfold mem_nat. rewrite existsb_exists. split.
  - intros [y [Hy He]]. apply Nat.eqb_eq in He. subst. exact Hy.
  - intros H. exists x. split; [exact H | apply Nat.eqb_refl].
Qed.

Lemma mem_nat_false : forall x l, mem_nat x l = false <-> ~ In x l.
Proof.
  intros x l. split.
  - intros H Hin. apply mem_nat_In in Hin. congruence.
  - intros H. destruct (mem_nat x l) eqn:E; [|reflexivity]. exfalso. apply H. apply mem_nat_In. exact E.
Qed.

Definition nin (s : list nat) : nat -> bool := fun i => negb (mem_nat i s).

Lemma nin_true : forall s i, nin s i = true <-> ~ In i s.
Proof. intros. unfold nin. rewrite negb_true_iff. apply mem_nat_false. Qed.
Lemma nin_false : forall s i, nin s i = false <-> In i s.
Proof. intros. unfold nin. rewrite negb_false_iff. apply mem_nat_In. Qed.

(* position bookkeeping of filter: the element at position j of l, if kept, sits in the filtered
   list at the position given by the number of kept elements before j *)
Lemma filter_nth_count : forall (P : nat -> bool) (l : list nat) j,
  j < length l -> P (nth j l 0) = true ->
  length (filter P (firstn j l)) < length (filter P l) /\
  nth (length (filter P (firstn j l))) (filter P l) 0 = nth j l 0.
Proof.
  intros P l j Hj HP.
  assert (E : l = firstn j l ++ nth j l 0 :: skipn (S j) l).
  { clear HP. revert j Hj. induction l as [|a l IH]; intros j Hj; simpl in *; [lia|].
    destruct j as [|j]; simpl; [reflexivity|]. f_equal. apply IH. lia. }
  rewrite E at 2 4. rewrite filter_app. simpl. rewrite HP.
  rewrite app_length. simpl. split; [lia|].
  rewrite app_nth2 by lia. rewrite Nat.sub_diag. reflexivity.
Qed.

Lemma firstn_seq : forall j n a, j <= n -> firstn j (seq a n) = seq a j.
Proof.
  induction j as [|j IH]; intros n a Hj; [reflexivity|].
  destruct n as [|n]; [lia|]. simpl. f_equal. apply IH. lia.
Qed.

Lemma NoDup_filter : forall (A : Type) (P : A -> bool) l, NoDup l -> NoDup (filter P l).
Proof.
  intros A P l H. induction H as [|a l Hn Hd IH]; simpl; [constructor|].
  destruct (P a); [constructor|]; auto. rewrite filter_In. tauto.
Qed.

Lemma NoDup_app_intro : forall (A : Type) (l m : list A), NoDup l -> NoDup m ->
  (forall x, In x l -> In x m -> False) -> NoDup (l ++ m).
Proof.
  intros A l m Hl Hm Hd. induction Hl as [|a l Hn Hl IH]; simpl; [exact Hm|].
  constructor.
  - rewrite in_app_iff. intros [H|H]; [exact (Hn H) | exact (Hd a (or_introl eq_refl) H)].
  - apply IH. intros x Hx. apply Hd. right. exact Hx.
Qed.

(* filter P (seq 0 r): rank of an element and element of a rank are inverse to each other *)
Lemma filter_seq_rank : forall (P : nat -> bool) r m, m < r -> P m = true ->
  length (filter P (seq 0 m)) < length (filter P (seq 0 r)) /\
  nth (length (filter P (seq 0 m))) (filter P (seq 0 r)) 0 = m.
Proof.
  intros P r m Hm HP.
  pose proof (filter_nth_count P (seq 0 r) m) as H.
  rewrite seq_length in H. rewrite seq_nth in H by exact Hm. rewrite firstn_seq in H by lia.
  simpl in H. apply H; auto.
Qed.

Lemma filter_seq_unrank : forall (P : nat -> bool) r i, i < length (filter P (seq 0 r)) ->
  length (filter P (seq 0 (nth i (filter P (seq 0 r)) 0))) = i.
Proof.
  intros P r i Hi.
  remember (filter P (seq 0 r)) as F eqn:EF.
  assert (Hin : In (nth i F 0) F) by (apply nth_In; exact Hi).
  rewrite EF in Hin at 2. rewrite filter_In, in_seq in Hin. destruct Hin as [Hr HP].
  destruct (filter_seq_rank P r (nth i F 0)) as [Hlt Hn]; [lia | exact HP |].
  rewrite <- EF in Hlt, Hn.
  assert (ND : NoDup F) by (rewrite EF; apply NoDup_filter, seq_NoDup).
  rewrite (NoDup_nth F 0) in ND. apply ND; [exact Hlt | exact Hi | exact Hn].
Qed.

Lemma filter_length_ext_map : forall (P Q : nat -> bool) (f : nat -> nat) l,
  (forall x, In x l -> P (f x) = Q x) -> length (filter P (map f l)) = length (filter Q l).
Proof.
  intros P Q f l H. induction l as [|a l IH]; simpl; [reflexivity|].
  rewrite (H a) by (left; reflexivity). destruct (Q a); simpl; rewrite IH; auto;
  intros; apply H; right; assumption.
Qed.

Lemma firstn_map_nth : forall (l : list nat) j, j <= length l ->
  firstn j l = map (fun k => nth k l 0) (seq 0 j).
Proof.
  intros l j. revert l. induction j as [|j IH]; intros l Hj; [reflexivity|].
  destruct l as [|a l]; simpl in Hj; [lia|]. simpl. f_equal.
  rewrite IH by lia. rewrite <- seq_shift, map_map. reflexivity.
Qed.

(* ------------------------------------------------------------------------------------------ *)
(* list.insert *)
Lemma insert_at_length : forall (A : Type) i (x : A) l, length (insert_at i x l) = S (length l).
Proof.
  intros. unfold insert_at. rewrite app_length. simpl.
  rewrite firstn_length, skipn_length. lia.
Qed.

Lemma insert_at_nth_eq : forall i (x : nat) l, i <= length l -> nth i (insert_at i x l) 0 = x.
Proof.
  intros. unfold insert_at. rewrite app_nth2; rewrite firstn_length_le by lia; [|lia].
  rewrite Nat.sub_diag. reflexivity.
Qed.

Lemma insert_at_nth_lt : forall i j (x : nat) l, j < i -> i <= length l ->
  nth j (insert_at i x l) 0 = nth j l 0.
Proof.
  intros. unfold insert_at. rewrite app_nth1 by (rewrite firstn_length_le; lia).
  rewrite <- (firstn_skipn i l) at 2. rewrite app_nth1 by (rewrite firstn_length_le; lia).
  reflexivity.
Qed.

Lemma insert_at_perm : forall (A : Type) i (x : A) l, Permutation (insert_at i x l) (x :: l).
Proof.
  intros. unfold insert_at. rewrite <- (firstn_skipn i l) at 3.
  symmetry. apply Permutation_middle.
Qed.

Lemma insert_at_filter_out : forall (P : nat -> bool) i x l, P x = false ->
  filter P (insert_at i x l) = filter P l.
Proof.
  intros. unfold insert_at. rewrite filter_app. simpl. rewrite H.
  rewrite <- filter_app, firstn_skipn. reflexivity.
Qed.

(* ========================================================================================== *)
(* 2. sorted(zip(destination, source)) *)

Definition fst_lt (p q : nat * nat) : Prop := fst p < fst q.

Lemma insert_sorted_perm : forall p l, Permutation (insert_sorted p l) (p :: l).
Proof.
  intros p l. induction l as [|q l IH]; simpl; [reflexivity|].
  destruct (pair_leb p q); [reflexivity|].
  rewrite IH. apply perm_swap.
Qed.

Lemma sort_pairs_perm : forall l, Permutation (sort_pairs l) l.
Proof.
  induction l as [|p l IH]; simpl; [reflexivity|].
  rewrite insert_sorted_perm. constructor. exact IH.
Qed.

Lemma insert_sorted_SS : forall p l, StronglySorted fst_lt l ->
  (forall q, In q l -> fst p <> fst q) -> StronglySorted fst_lt (insert_sorted p l).
Proof.
  intros p l HS. induction HS as [|q l HS IH HF]; intros Hd; simpl.
  - constructor; constructor.
  - assert (Hpq : fst p <> fst q) by (apply Hd; left; reflexivity).
    unfold pair_leb. destruct (fst p <? fst q) eqn:E1; simpl.
    + apply Nat.ltb_lt in E1. constructor; [constructor; assumption|].
      constructor; [exact E1|]. rewrite Forall_forall in *. intros z Hz.
      specialize (HF z Hz). unfold fst_lt in *. lia.
    + apply Nat.ltb_ge in E1. destruct (fst p =? fst q) eqn:E2; [apply Nat.eqb_eq in E2; lia|].
      simpl. constructor.
      * apply IH. intros z Hz. apply Hd. right. exact Hz.
      * rewrite Forall_forall in *. intros z Hz.
        apply (Permutation_in _ (insert_sorted_perm p l)) in Hz. destruct Hz as [Hz|Hz].
        -- subst z. unfold fst_lt. lia.
        -- apply HF. exact Hz.
Qed.

Lemma sort_pairs_SS : forall l, NoDup (map fst l) -> StronglySorted fst_lt (sort_pairs l).
Proof.
  induction l as [|p l IH]; intros ND; simpl; [constructor|].
  inversion ND as [|? ? Hn Hd]; subst. apply insert_sorted_SS; [apply IH; exact Hd|].
  intros q Hq Heq. apply Hn. apply (Permutation_in _ (sort_pairs_perm l)) in Hq.
  rewrite Heq. apply in_map. exact Hq.
Qed.

(* a strictly increasing list of numbers below r starting at h has at most r - h elements *)
Lemma SS_bound : forall r l, StronglySorted fst_lt l -> (forall q, In q l -> fst q < r) ->
  match l with [] => True | q :: _ => fst q + length l <= r end.
Proof.
  intros r l HS. induction HS as [|q l HS IH HF]; intros Hb; [exact I|].
  simpl. destruct l as [|q' l'].
  - simpl. specialize (Hb q (or_introl eq_refl)). lia.
  - assert (fst q' + length (q' :: l') <= r) by (apply IH; intros; apply Hb; right; assumption).
    rewrite Forall_forall in HF. specialize (HF q' (or_introl eq_refl)). unfold fst_lt in HF.
    simpl in *. lia.
Qed.

(* ========================================================================================== *)
(* 3. the order computed by jnp.moveaxis *)

Definition ins_step (perm : list nat) (p : nat * nat) : list nat := insert_at (fst p) (snd p) perm.

Lemma moveaxis_order_unfold : forall r s d,
  moveaxis_order r s d = fold_left ins_step (sort_pairs (combine d s)) (filter (nin s) (seq 0 r)).
Proof. reflexivity. Qed.

Lemma fold_ins_length : forall rest cur, length (fold_left ins_step rest cur) = length cur + length rest.
Proof.
  induction rest as [|q rest IH]; intros cur; simpl; [lia|].
  rewrite IH. unfold ins_step. rewrite insert_at_length. lia.
Qed.

Lemma fold_ins_perm : forall rest cur, Permutation (fold_left ins_step rest cur) (map snd rest ++ cur).
Proof.
  induction rest as [|q rest IH]; intros cur; simpl; [reflexivity|].
  rewrite IH. unfold ins_step. rewrite insert_at_perm. symmetry. apply Permutation_middle.
Qed.

Lemma fold_ins_filter : forall (P : nat -> bool) rest cur,
  (forall q, In q rest -> P (snd q) = false) ->
  filter P (fold_left ins_step rest cur) = filter P cur.
Proof.
  intros P. induction rest as [|q rest IH]; intros cur H; simpl; [reflexivity|].
  rewrite IH by (intros; apply H; right; assumption).
  unfold ins_step. apply insert_at_filter_out. apply H. left. reflexivity.
Qed.

Lemma fold_ins_nth : forall r rest cur,
  StronglySorted fst_lt rest -> (forall q, In q rest -> fst q < r) ->
  length cur + length rest = r ->
  (forall j, j < length cur -> (forall q, In q rest -> j < fst q) ->
             nth j (fold_left ins_step rest cur) 0 = nth j cur 0) /\
  (forall q, In q rest -> nth (fst q) (fold_left ins_step rest cur) 0 = snd q).
Proof.
  intros r rest. induction rest as [|q rest IH]; intros cur HS Hb Hlen.
  - simpl. split; [reflexivity | intros q []].
  - pose proof (SS_bound r _ HS Hb) as Hq. simpl in Hq, Hlen.
    assert (Hqc : fst q <= length cur) by lia.
    inversion HS as [|? ? HS' HF]; subst. rewrite Forall_forall in HF.
    simpl fold_left.
    destruct (IH (ins_step cur q) HS') as [IH1 IH2].
    { intros; apply Hb; right; assumption. }
    { unfold ins_step. rewrite insert_at_length. lia. }
    assert (Hlen' : length (ins_step cur q) = S (length cur))
      by (unfold ins_step; apply insert_at_length).
    split.
    + intros j Hj Hbelow. rewrite IH1.
      * unfold ins_step. apply insert_at_nth_lt; [|exact Hqc].
        apply Hbelow. left. reflexivity.
      * lia.
      * intros z Hz. apply Hbelow. right. exact Hz.
    + intros z [Hz|Hz].
      * subst z. rewrite IH1.
        -- unfold ins_step. apply insert_at_nth_eq. exact Hqc.
        -- lia.
        -- intros z Hz. apply HF. exact Hz.
      * apply IH2. exact Hz.
Qed.

(* legal arguments (after normalisation): what numpy.moveaxis demands *)
Definition legal (r : nat) (s d : list nat) : Prop :=
  length s = length d /\ NoDup s /\ NoDup d /\ (forall x, In x s -> x < r) /\ (forall x, In x d -> x < r).

Lemma legal_sym : forall r s d, legal r s d -> legal r d s.
Proof. unfold legal. intros. intuition. Qed.

(* the specification of the order: a permutation of range(r) with p[d_k] = s_k and the other
   axes in increasing order *)
Definition mspec (r : nat) (s d p : list nat) : Prop :=
  length p = r /\ NoDup p /\ (forall x, In x p -> x < r) /\
  (forall k, k < length s -> nth (nth k d 0) p 0 = nth k s 0) /\
  filter (nin s) p = filter (nin s) (seq 0 r).

Lemma map_fst_combine : forall (A B : Type) (l : list A) (m : list B),
  length l = length m -> map fst (combine l m) = l.
Proof.
  induction l as [|a l IH]; intros [|b m] H; simpl in *; try lia; [reflexivity|].
  f_equal. apply IH. lia.
Qed.
Lemma map_snd_combine : forall (A B : Type) (l : list A) (m : list B),
  length l = length m -> map snd (combine l m) = m.
Proof.
  induction l as [|a l IH]; intros [|b m] H; simpl in *; try lia; [reflexivity|].
  f_equal. apply IH. lia.
Qed.

Lemma in_combine_nth : forall (l m : list nat) k, k < length l -> length l = length m ->
  In (nth k l 0, nth k m 0) (combine l m).
Proof.
  induction l as [|a l IH]; intros [|b m] k Hk Hl; simpl in *; try lia.
  destruct k as [|k]; [left; reflexivity|]. right. apply IH; lia.
Qed.

Lemma order_spec : forall r s d, legal r s d -> mspec r s d (moveaxis_order r s d).
Proof.
  intros r s d (Hlen & NDs & NDd & Hs & Hd).
  rewrite moveaxis_order_unfold.
  set (sp := sort_pairs (combine d s)). set (base := filter (nin s) (seq 0 r)).
  assert (Hperm : Permutation sp (combine d s)) by apply sort_pairs_perm.
  assert (HSS : StronglySorted fst_lt sp).
  { apply sort_pairs_SS. rewrite map_fst_combine by lia. exact NDd. }
  assert (Hfst : forall q, In q sp -> In (fst q) d /\ In (snd q) s).
  { intros q Hq. apply (Permutation_in _ Hperm) in Hq. destruct q as [a b].
    split; [eapply in_combine_l | eapply in_combine_r]; exact Hq. }
  assert (Hsnd : Permutation (map snd sp) s).
  { rewrite Hperm. rewrite map_snd_combine by lia. reflexivity. }
  assert (Hall : Permutation (fold_left ins_step sp base) (seq 0 r)).
  { rewrite fold_ins_perm. rewrite Hsnd.
    apply NoDup_Permutation.
    - apply NoDup_app_intro; [exact NDs | apply NoDup_filter, seq_NoDup |].
      intros x Hx Hx'. unfold base in Hx'. rewrite filter_In, nin_true in Hx'. tauto.
    - apply seq_NoDup.
    - intros x. rewrite in_app_iff. unfold base. rewrite filter_In, nin_true, in_seq. split.
      + intros [H|[H _]]; [specialize (Hs x H)|]; lia.
      + intros H. destruct (in_dec Nat.eq_dec x s); [left; assumption | right; split; [lia|assumption]]. }
  assert (Hlenb : length base + length sp = r).
  { rewrite <- (fold_ins_length sp base). rewrite (Permutation_length Hall). apply seq_length. }
  destruct (fold_ins_nth r sp base HSS) as [_ Hnth].
  { intros q Hq. apply Hd. apply Hfst. exact Hq. }
  { exact Hlenb. }
  repeat split.
  - rewrite (Permutation_length Hall). apply seq_length.
  - apply (Permutation_NoDup (Permutation_sym Hall)). apply seq_NoDup.
  - intros x Hx. apply (Permutation_in _ Hall) in Hx. rewrite in_seq in Hx. lia.
  - intros k Hk.
    assert (Hin : In (nth k d 0, nth k s 0) sp).
    { apply (Permutation_in _ (Permutation_sym Hperm)). apply in_combine_nth; lia. }
    apply (Hnth _ Hin).
  - rewrite fold_ins_filter.
    + unfold base. clear. induction (seq 0 r) as [|a l IH]; simpl; [reflexivity|].
      destruct (nin s a) eqn:E; simpl; [rewrite E|]; rewrite IH; reflexivity.
    + intros q Hq. rewrite nin_false. apply Hfst. exact Hq.
Qed.

(* an axis of p sits at a destination position iff it is a source axis *)
Lemma spec_mem_equiv : forall r s d p, legal r s d -> mspec r s d p ->
  forall j, j < r -> mem_nat (nth j p 0) s = mem_nat j d.
Proof.
  intros r s d p (Hlen & NDs & NDd & Hs & Hd) (Hlp & NDp & Hbp & Hk & Hf) j Hj.
  destruct (mem_nat j d) eqn:E.
  - apply mem_nat_In in E. apply mem_nat_In.
    destruct (In_nth _ _ 0 E) as [k [Hk1 Hk2]]. rewrite <- Hk2. rewrite Hk by lia.
    apply nth_In. lia.
  - apply mem_nat_false in E. apply mem_nat_false. intros Hin. apply E.
    destruct (In_nth _ _ 0 Hin) as [k [Hk1 Hk2]].
    rewrite <- Hk in Hk2 by exact Hk1.
    rewrite (NoDup_nth p 0) in NDp. apply NDp in Hk2.
    + rewrite <- Hk2. apply nth_In. lia.
    + rewrite Hlp. apply Hd. apply nth_In. lia.
    + lia.
Qed.

(* the two orders computed for (s, d) and (d, s) are inverse permutations *)
Lemma spec_compose : forall r s d p q, legal r s d -> mspec r s d p -> mspec r d s q ->
  forall m, m < r -> nth (nth m q 0) p 0 = m.
Proof.
  intros r s d p q HL Hp Hq m Hm.
  pose proof (spec_mem_equiv r s d p HL Hp) as Ep.
  pose proof (spec_mem_equiv r d s q (legal_sym _ _ _ HL) Hq) as Eq.
  destruct HL as (Hlen & NDs & NDd & Hs & Hd).
  destruct Hp as (Hlp & NDp & Hbp & Hkp & Hfp).
  destruct Hq as (Hlq & NDq & Hbq & Hkq & Hfq).
  destruct (mem_nat m s) eqn:Ems.
  - apply mem_nat_In in Ems. destruct (In_nth _ _ 0 Ems) as [k [Hk1 Hk2]].
    rewrite <- Hk2. rewrite Hkq by lia. apply Hkp. exact Hk1.
  - remember (nth m q 0) as j eqn:Ej.
    assert (Hj : j < r) by (rewrite Ej; apply Hbq; apply nth_In; lia).
    assert (Ejd : mem_nat j d = false) by (rewrite Ej; rewrite (Eq m Hm); exact Ems).
    assert (Epj : mem_nat (nth j p 0) s = false) by (rewrite (Ep j Hj); exact Ejd).
    destruct (filter_nth_count (nin d) q m) as [Hq1 Hq2];
      [lia | unfold nin; rewrite <- Ej; rewrite Ejd; reflexivity |].
    rewrite Hfq in Hq1, Hq2. rewrite <- Ej in Hq2.
    remember (length (filter (nin d) (firstn m q))) as i eqn:Ei.
    assert (Hi : length (filter (nin d) (seq 0 j)) = i).
    { rewrite <- Hq2. apply filter_seq_unrank. exact Hq1. }
    assert (Hi2 : i = length (filter (nin s) (seq 0 m))).
    { rewrite Ei. rewrite firstn_map_nth by lia. apply filter_length_ext_map.
      intros x Hx. rewrite in_seq in Hx. unfold nin. rewrite Eq by lia. reflexivity. }
    destruct (filter_nth_count (nin s) p j) as [Hp1 Hp2];
      [lia | unfold nin; rewrite Epj; reflexivity|].
    rewrite Hfp in Hp1, Hp2.
    assert (Hi3 : length (filter (nin s) (firstn j p)) = length (filter (nin d) (seq 0 j))).
    { rewrite firstn_map_nth by lia. apply filter_length_ext_map.
      intros x Hx. rewrite in_seq in Hx. unfold nin. rewrite Ep by lia. reflexivity. }
    rewrite Hi3, Hi, Hi2 in Hp2. rewrite <- Hp2.
    apply filter_seq_rank; [exact Hm | unfold nin; rewrite Ems; reflexivity].
Qed.

(* a list satisfying the specification is the one jnp.moveaxis computes: the specification
   determines the order *)
Lemma nth_ext_nat : forall (l m : list nat), length l = length m ->
  (forall k, k < length l -> nth k l 0 = nth k m 0) -> l = m.
Proof.
  induction l as [|a l IH]; intros [|b m] Hlen H; simpl in *; try lia; [reflexivity|].
  f_equal; [apply (H 0); lia|]. apply IH; [lia|]. intros k Hk. apply (H (S k)). lia.
Qed.

Lemma perm_inverse_other_side : forall r p q,
  length p = r -> length q = r -> NoDup p -> (forall x, In x p -> x < r) -> (forall x, In x q -> x < r) ->
  (forall m, m < r -> nth (nth m q 0) p 0 = m) -> forall k, k < r -> nth (nth k p 0) q 0 = k.
Proof.
  intros r p q Hlp Hlq NDp Hbp Hbq H k Hk.
  assert (Hpk : nth k p 0 < r) by (apply Hbp, nth_In; lia).
  assert (Hqk : nth (nth k p 0) q 0 < r) by (apply Hbq, nth_In; lia).
  rewrite (NoDup_nth p 0) in NDp. apply NDp; [lia | lia |]. apply H. exact Hpk.
Qed.

Theorem mspec_unique : forall r s d p p', legal r s d -> mspec r s d p -> mspec r s d p' -> p = p'.
Proof.
  intros r s d p p' HL Hp Hp'.
  pose proof (order_spec r d s (legal_sym _ _ _ HL)) as Hq.
  set (q := moveaxis_order r d s) in *.
  pose proof (spec_compose r s d p q HL Hp Hq) as C.
  pose proof (spec_compose r s d p' q HL Hp' Hq) as C'.
  destruct Hp as (Hlp & NDp & Hbp & _). destruct Hp' as (Hlp' & NDp' & Hbp' & _).
  destruct Hq as (Hlq & NDq & Hbq & _).
  apply nth_ext_nat; [lia|]. intros k Hk.
  (* k = q[p[k]], hence p'[k] = p'[q[p[k]]] = p[k] *)
  pose proof (perm_inverse_other_side r p q Hlp Hlq NDp Hbp Hbq C k) as E.
  rewrite <- (C' (nth k p 0)) by (apply Hbp, nth_In; lia).
  rewrite E by lia. reflexivity.
Qed.

Lemma order_inverse : forall r s d, legal r s d ->
  forall m, m < r -> nth (nth m (moveaxis_order r d s) 0) (moveaxis_order r s d) 0 = m.
Proof.
  intros r s d HL. apply (spec_compose r s d); [exact HL | apply order_spec; exact HL |].
  apply order_spec. apply legal_sym. exact HL.
Qed.

Lemma perm_is_perm : forall r p, length p = r -> NoDup p -> (forall x, In x p -> x < r) ->
  is_perm r p = true.
Proof.
  intros r p Hl ND Hb. unfold is_perm. rewrite Hl, Nat.eqb_refl. simpl.
  rewrite forallb_forall. intros i Hi. rewrite in_seq in Hi. apply mem_nat_In.
  assert (Hincl : incl (seq 0 r) p).
  { apply NoDup_length_incl; [exact ND | rewrite seq_length; lia |].
    intros x Hx. apply in_seq. specialize (Hb x Hx). lia. }
  apply Hincl. apply in_seq. lia.
Qed.

Lemma is_perm_order : forall r s d, legal r s d -> is_perm r (moveaxis_order r s d) = true.
Proof.
  intros r s d HL. destruct (order_spec r s d HL) as (Hl & ND & Hb & _).
  apply perm_is_perm; assumption.
Qed.

Lemma order_Permutation : forall r s d, legal r s d -> Permutation (moveaxis_order r s d) (seq 0 r).
Proof.
  intros r s d HL. destruct (order_spec r s d HL) as (Hl & ND & Hb & _).
  apply NoDup_Permutation_bis; [exact ND | rewrite seq_length; lia |].
  intros x Hx. apply in_seq. specialize (Hb x Hx). lia.
Qed.

(* ========================================================================================== *)
(* 4. multi-indices, row-major order, transposition of arrays *)

Definition in_range (s I : list nat) : Prop := Forall2 lt I s.

Lemma indices_length : forall s, length (indices s) = prod s.
Proof.
  induction s as [|n s IH]; [reflexivity|]. simpl.
  assert (G : forall a k, length (flat_map (fun i => map (cons i) (indices s)) (seq a k)) = k * prod s).
  { intros a k. revert a. induction k as [|k IHk]; intros a; simpl; [reflexivity|].
    rewrite app_length, map_length, IH, IHk. reflexivity. }
  apply G.
Qed.

Lemma flat_map_seq_blocks : forall P n a,
  flat_map (fun i => seq (i * P) P) (seq a n) = seq (a * P) (n * P).
Proof.
  intros P n. induction n as [|n IH]; intros a; simpl; [reflexivity|].
  rewrite IH. rewrite seq_app. f_equal. f_equal. lia.
Qed.

Lemma map_add_seq : forall b P a, map (fun k => b + k) (seq a P) = seq (b + a) P.
Proof.
  intros b P. induction P as [|P IH]; intros a; simpl; [reflexivity|].
  rewrite IH. f_equal. f_equal. lia.
Qed.

Lemma ravel_indices : forall s, map (ravel s) (indices s) = seq 0 (prod s).
Proof.
  induction s as [|n s IH]; [reflexivity|].
  assert (G : forall l, map (ravel (n :: s)) (flat_map (fun i => map (cons i) (indices s)) l)
                        = flat_map (fun i => seq (i * prod s) (prod s)) l).
  { induction l as [|i l IHl]; [reflexivity|].
    cbn [flat_map]. rewrite map_app, IHl. f_equal.
    rewrite map_map.
    rewrite (map_ext _ (fun x => i * prod s + ravel s x)) by reflexivity.
    rewrite <- (map_map (ravel s) (fun k => i * prod s + k)). rewrite IH.
    rewrite map_add_seq. f_equal. lia. }
  cbn [indices]. rewrite G. rewrite flat_map_seq_blocks. reflexivity.
Qed.

Lemma in_range_length : forall s I, in_range s I -> length I = length s.
Proof. intros s I H. induction H; simpl; congruence. Qed.

Lemma in_range_indices : forall s I, in_range s I -> In I (indices s).
Proof.
  intros s I H. induction H as [|i n I s Hi HF IH]; [left; reflexivity|].
  cbn [indices]. apply in_flat_map. exists i. split; [apply in_seq; lia|].
  apply in_map. exact IH.
Qed.

Lemma indices_in_range : forall s I, In I (indices s) -> in_range s I.
Proof.
  induction s as [|n s IH]; intros I H.
  - destruct H as [H|[]]. subst. constructor.
  - cbn [indices] in H. apply in_flat_map in H. destruct H as [i [Hi H]].
    apply in_map_iff in H. destruct H as [I' [E H]]. subst I.
    apply in_seq in Hi. constructor; [lia|]. apply IH. exact H.
Qed.

Lemma nth_ravel_indices : forall s I, in_range s I ->
  ravel s I < prod s /\ nth (ravel s I) (indices s) [] = I.
Proof.
  intros s I H. apply in_range_indices in H.
  destruct (In_nth _ _ [] H) as [k [Hk E]].
  assert (R : ravel s I = k).
  { rewrite <- E. rewrite <- (map_nth (ravel s) (indices s) [] k).
    rewrite ravel_indices. rewrite indices_length in Hk.
    rewrite (nth_indep _ _ 0) by (rewrite seq_length; exact Hk). rewrite seq_nth by exact Hk. reflexivity. }
  rewrite R. rewrite indices_length in Hk. split; [exact Hk | exact E].
Qed.

Lemma map_nth_seq : forall (A : Type) (d : A) l, map (fun k => nth k l d) (seq 0 (length l)) = l.
Proof.
  intros A d. induction l as [|a l IH]; [reflexivity|].
  simpl. f_equal. rewrite <- seq_shift, map_map. exact IH.
Qed.

(* permute *)
Lemma permute_length : forall (A : Type) (d : A) l idx, length (permute d l idx) = length idx.
Proof. intros. unfold permute. apply map_length. Qed.

Lemma nth_permute : forall (A : Type) (d : A) l idx k, k < length idx ->
  nth k (permute d l idx) d = nth (nth k idx 0) l d.
Proof.
  intros A d l idx k Hk. unfold permute.
  rewrite (nth_indep _ d (nth 0 l d)) by (rewrite map_length; exact Hk).
  change (nth 0 l d) with ((fun k0 => nth k0 l d) 0). rewrite map_nth. reflexivity.
Qed.

Lemma in_range_nth : forall s I k, in_range s I -> k < length s -> nth k I 0 < nth k s 0.
Proof.
  intros s I k H. revert k. induction H as [|i n I s Hi HF IH]; intros k Hk; simpl in *; [lia|].
  destruct k as [|k]; [exact Hi | apply IH; lia].
Qed.

Lemma in_range_permute : forall sh I p, in_range sh I -> (forall k, In k p -> k < length sh) ->
  in_range (permute 0 sh p) (permute 0 I p).
Proof.
  intros sh I p H. induction p as [|k p IH]; intros Hp; simpl; [constructor|].
  constructor.
  - apply in_range_nth; [exact H | apply Hp; left; reflexivity].
  - apply IH. intros; apply Hp; right; assumption.
Qed.

Lemma permute_compose_id : forall (A : Type) (d : A) r l p q, length q = r -> length l = r ->
  (forall m, m < r -> nth m q 0 < length p /\ nth (nth m q 0) p 0 = m) ->
  permute d (permute d l p) q = l.
Proof.
  intros A d r l p q Hq Hl H.
  apply (nth_ext _ _ d d); [rewrite permute_length; lia|].
  intros m Hm. rewrite permute_length in Hm.
  rewrite nth_permute by exact Hm.
  destruct (H m) as [H1 H2]; [lia|].
  rewrite nth_permute by exact H1. rewrite H2. reflexivity.
Qed.

(* invperm *)
Lemma index_of_nth : forall p k, NoDup p -> k < length p -> index_of (nth k p 0) p = k.
Proof.
  induction p as [|a p IH]; intros k ND Hk; simpl in *; [lia|].
  inversion ND as [|? ? Hn Hd]; subst.
  destruct k as [|k].
  - rewrite Nat.eqb_refl. reflexivity.
  - destruct (a =? nth k p 0) eqn:E.
    + apply Nat.eqb_eq in E. exfalso. apply Hn. rewrite E. apply nth_In. lia.
    + f_equal. apply IH; [exact Hd | lia].
Qed.

Lemma nth_invperm : forall p m, m < length p -> nth m (invperm p) 0 = index_of m p.
Proof.
  intros p m Hm. unfold invperm.
  rewrite (nth_indep _ 0 (index_of 0 p)) by (rewrite map_length, seq_length; exact Hm).
  change (index_of 0 p) with ((fun m0 => index_of m0 p) 0).
  rewrite map_nth. rewrite seq_nth by exact Hm. reflexivity.
Qed.

Lemma invperm_of_inverse : forall r p q, length p = r -> length q = r -> NoDup p ->
  (forall x, In x q -> x < r) -> (forall m, m < r -> nth (nth m q 0) p 0 = m) -> invperm p = q.
Proof.
  intros r p q Hp Hq ND Hbq H.
  apply nth_ext_nat; [unfold invperm; rewrite map_length, seq_length; lia|].
  intros m Hm. unfold invperm in Hm. rewrite map_length, seq_length in Hm.
  rewrite nth_invperm by exact Hm.
  rewrite <- (H m) at 1 by lia. apply index_of_nth; [exact ND|].
  rewrite Hp. apply Hbq. apply nth_In. lia.
Qed.

Section Arrays.
  Variable K : Type.
  Variable k0 : K.
  Notation getK := (get K k0).
  Notation transposeK := (transpose_arr K k0).

  Lemma get_data : forall a : arr K, wf_arr a -> map (getK a) (indices (ashape a)) = adata a.
  Proof.
    intros a Hwf. unfold get.
    rewrite <- (map_map (ravel (ashape a)) (fun k => nth k (adata a) k0)).
    rewrite ravel_indices. rewrite <- Hwf. apply map_nth_seq.
  Qed.

  Lemma arr_ext : forall a b : arr K, wf_arr a -> wf_arr b -> ashape a = ashape b ->
    (forall I, in_range (ashape a) I -> getK a I = getK b I) -> a = b.
  Proof.
    intros a b Ha Hb Hs H.
    assert (E : adata a = adata b).
    { rewrite <- (get_data a Ha), <- (get_data b Hb). rewrite <- Hs.
      apply map_ext_in. intros I HI. apply H. apply indices_in_range. exact HI. }
    destruct a, b. simpl in *. subst. reflexivity.
  Qed.

  Lemma wf_transpose : forall p (a : arr K), wf_arr (transposeK p a).
  Proof. intros. unfold wf_arr, transpose_arr. simpl. rewrite map_length. apply indices_length. Qed.

  Lemma shape_transpose : forall p (a : arr K), ashape (transposeK p a) = permute 0 (ashape a) p.
  Proof. reflexivity. Qed.

  (* element map of lax.transpose: out[I] = a[J] where J = I o invperm p, i.e. J[p[k]] = I[k] *)
  Lemma get_transpose : forall p (a : arr K) I, in_range (permute 0 (ashape a) p) I ->
    getK (transposeK p a) I = getK a (permute 0 I (invperm p)).
  Proof.
    intros p a I H. unfold get at 1. unfold transpose_arr. cbn [ashape adata].
    destruct (nth_ravel_indices _ _ H) as [Hlt Hn].
    set (f := fun I0 => getK a (permute 0 I0 (invperm p))).
    rewrite (nth_indep _ k0 (f [])) by (rewrite map_length, indices_length; exact Hlt).
    rewrite map_nth. rewrite Hn. reflexivity.
  Qed.

  Lemma transpose_inverse : forall r p q (a : arr K), wf_arr a -> length (ashape a) = r ->
    length p = r -> length q = r -> NoDup p -> NoDup q ->
    (forall x, In x p -> x < r) -> (forall x, In x q -> x < r) ->
    (forall m, m < r -> nth (nth m q 0) p 0 = m) ->
    transposeK q (transposeK p a) = a.
  Proof.
    intros r p q a Hwf Hr Hp Hq NDp NDq Hbp Hbq H.
    assert (H' : forall k, k < r -> nth (nth k p 0) q 0 = k)
      by (apply (perm_inverse_other_side r p q); assumption).
    assert (Eq : invperm q = p) by (apply (invperm_of_inverse r q p); assumption).
    assert (Ep : invperm p = q) by (apply (invperm_of_inverse r p q); assumption).
    assert (Hsh : permute 0 (permute 0 (ashape a) p) q = ashape a).
    { apply (permute_compose_id _ 0 r); [exact Hq | exact Hr |].
      intros m Hm. split; [rewrite Hp; apply Hbq, nth_In; lia | apply H; exact Hm]. }
    apply arr_ext; [apply wf_transpose | exact Hwf | exact Hsh |].
    intros I HI. rewrite !shape_transpose in HI.
    rewrite get_transpose by (rewrite shape_transpose; exact HI).
    rewrite Hsh in HI. rewrite Eq.
    rewrite get_transpose.
    - rewrite Ep. f_equal. apply (permute_compose_id _ 0 r); [exact Hq | |].
      + rewrite (in_range_length _ _ HI). exact Hr.
      + intros m Hm. split; [rewrite Hp; apply Hbq, nth_In; lia | apply H; exact Hm].
    - apply in_range_permute; [exact HI|]. intros k Hk. rewrite Hr. apply Hbp. exact Hk.
  Qed.
End Arrays.

(* ========================================================================================== *)
(* 5. results, mapM *)

Lemma bind_ok : forall (A B : Type) (r : res A) (f : A -> res B) b,
  bind r f = Ok b <-> exists a, r = Ok a /\ f a = Ok b.
Proof.
  intros A B r f b. destruct r as [a|e]; simpl; split.
  - intros H. exists a. split; [reflexivity | exact H].
  - intros [a' [E H]]. inversion E. subst. exact H.
  - intros H. discriminate.
  - intros [a' [E _]]. discriminate.
Qed.

Lemma mapM_Forall2 : forall (A B : Type) (f : A -> res B) l m,
  mapM f l = Ok m <-> Forall2 (fun a b => f a = Ok b) l m.
Proof.
  intros A B f. induction l as [|a l IH]; intros m; simpl.
  - split; intros H; [inversion H; constructor | inversion H; reflexivity].
  - rewrite bind_ok. split.
    + intros [b [Hb H]]. rewrite bind_ok in H. destruct H as [bs [Hbs H]]. inversion H; subst.
      constructor; [exact Hb | apply IH; exact Hbs].
    + intros H. inversion H as [|? b ? bs Hb Hbs]; subst. exists b. split; [exact Hb|].
      rewrite bind_ok. exists bs. split; [apply IH; exact Hbs | reflexivity].
Qed.

Lemma mapM_map : forall (A B : Type) (f : A -> res B) (g : A -> B) l,
  (forall a, In a l -> f a = Ok (g a)) -> mapM f l = Ok (map g l).
Proof.
  intros A B f g. induction l as [|a l IH]; intros H; simpl; [reflexivity|].
  rewrite (H a) by (left; reflexivity). simpl. rewrite IH by (intros; apply H; right; assumption).
  reflexivity.
Qed.

Lemma mapM_ok_exists : forall (A B : Type) (f : A -> res B) l,
  (exists m, mapM f l = Ok m) <-> Forall (fun a => exists b, f a = Ok b) l.
Proof.
  intros A B f. induction l as [|a l IH]; simpl.
  - split; [constructor | intros _; exists []; reflexivity].
  - split.
    + intros [m H]. rewrite bind_ok in H. destruct H as [b [Hb H]]. rewrite bind_ok in H.
      destruct H as [bs [Hbs _]]. constructor; [exists b; exact Hb | apply IH; exists bs; exact Hbs].
    + intros H. inversion H as [|? ? [b Hb] Hl]; subst. apply IH in Hl. destruct Hl as [bs Hbs].
      exists (b :: bs). rewrite Hb. simpl. rewrite Hbs. reflexivity.
Qed.

Lemma mapM_inverse : forall (A B : Type) (f : A -> res B) (g : B -> res A) l,
  (forall a, In a l -> bind (f a) g = Ok a) -> bind (mapM f l) (mapM g) = Ok l.
Proof.
  intros A B f g. induction l as [|a l IH]; intros H; [reflexivity|].
  simpl. pose proof (H a (or_introl eq_refl)) as Ha. rewrite bind_ok in Ha.
  destruct Ha as [b [Hb Hg]]. rewrite Hb. simpl.
  assert (IH' : bind (mapM f l) (mapM g) = Ok l) by (apply IH; intros; apply H; right; assumption).
  rewrite bind_ok in IH'. destruct IH' as [bs [Hbs Hgs]]. rewrite Hbs. simpl.
  rewrite Hg. simpl. rewrite Hgs. reflexivity.
Qed.

(* ========================================================================================== *)
(* 6. jnp.moveaxis on integer (possibly negative) axes *)

Definition in_rangeZ (r : nat) (a : Z) : Prop := (- Z.of_nat r <= a < Z.of_nat r)%Z.
Definition nz (r : nat) (a : Z) : nat := Z.to_nat (if (a <? 0)%Z then (a + Z.of_nat r)%Z else a).

(* legal arguments of numpy.moveaxis for an array of rank r *)
Definition legalZ (r : nat) (src dst : list Z) : Prop :=
  Forall (in_rangeZ r) src /\ Forall (in_rangeZ r) dst /\ length src = length dst /\
  NoDup (map (nz r) src) /\ NoDup (map (nz r) dst).

Lemma legalZ_sym : forall r src dst, legalZ r src dst -> legalZ r dst src.
Proof. unfold legalZ. intros. intuition. Qed.

Lemma canon_axis_ok : forall r a, in_rangeZ r a -> canon_axis r a = Ok (nz r a) /\ nz r a < r.
Proof.
  intros r a H. unfold in_rangeZ in H. unfold canon_axis, nz.
  destruct (- Z.of_nat r <=? a)%Z eqn:E1; [|apply Z.leb_gt in E1; lia].
  destruct (a <? Z.of_nat r)%Z eqn:E2; [|apply Z.ltb_ge in E2; lia].
  simpl. split; [reflexivity|]. destruct (a <? 0)%Z eqn:E3; lia.
Qed.

Lemma canon_axis_inv : forall r a n, canon_axis r a = Ok n -> in_rangeZ r a /\ n = nz r a.
Proof.
  intros r a n. unfold canon_axis, in_rangeZ, nz.
  destruct (- Z.of_nat r <=? a)%Z eqn:E1; destruct (a <? Z.of_nat r)%Z eqn:E2; simpl;
    intros H; inversion H.
  apply Z.leb_le in E1. apply Z.ltb_lt in E2. split; [lia | reflexivity].
Qed.

Lemma canon_axis_err : forall r a e, canon_axis r a = Err e -> ~ in_rangeZ r a /\ e = ValueError.
Proof.
  intros r a e. unfold canon_axis, in_rangeZ.
  destruct (- Z.of_nat r <=? a)%Z eqn:E1; destruct (a <? Z.of_nat r)%Z eqn:E2; simpl;
    intros H; inversion H; split; try reflexivity;
    try (apply Z.leb_gt in E1); try (apply Z.ltb_ge in E2); lia.
Qed.

Lemma mapM_canon : forall r l, Forall (in_rangeZ r) l -> mapM (canon_axis r) l = Ok (map (nz r) l).
Proof.
  intros r l H. apply mapM_map. rewrite Forall_forall in H. intros a Ha.
  apply canon_axis_ok. apply H. exact Ha.
Qed.

Lemma mapM_canon_inv : forall r l s, mapM (canon_axis r) l = Ok s ->
  Forall (in_rangeZ r) l /\ s = map (nz r) l.
Proof.
  intros r l s H. apply mapM_Forall2 in H. induction H as [|a n l s Ha H IH]; simpl.
  - split; [constructor | reflexivity].
  - apply canon_axis_inv in Ha. destruct Ha as [Ha En]. destruct IH as [IH1 IH2].
    split; [constructor; assumption | congruence].
Qed.

Lemma legalZ_legal : forall r src dst, legalZ r src dst -> legal r (map (nz r) src) (map (nz r) dst).
Proof.
  intros r src dst (Hs & Hd & Hl & NDs & NDd). unfold legal. rewrite !map_length.
  repeat split; try assumption.
  - intros x Hx. apply in_map_iff in Hx. destruct Hx as [a [E Ha]]. subst.
    rewrite Forall_forall in Hs. apply canon_axis_ok. apply Hs. exact Ha.
  - intros x Hx. apply in_map_iff in Hx. destruct Hx as [a [E Ha]]. subst.
    rewrite Forall_forall in Hd. apply canon_axis_ok. apply Hd. exact Ha.
Qed.

Lemma moveaxis_perm_legal : forall r src dst, legalZ r src dst ->
  moveaxis_perm r src dst = Ok (moveaxis_order r (map (nz r) src) (map (nz r) dst)).
Proof.
  intros r src dst HL. pose proof (legalZ_legal _ _ _ HL) as HL'.
  destruct HL as (Hs & Hd & Hl & NDs & NDd).
  unfold moveaxis_perm. rewrite (mapM_canon r src Hs). simpl. rewrite (mapM_canon r dst Hd). simpl.
  rewrite !map_length. rewrite Hl, Nat.eqb_refl. simpl.
  rewrite is_perm_order by exact HL'. reflexivity.
Qed.

(* what jnp.moveaxis rejects, by kind *)
Lemma moveaxis_perm_errors : forall r src dst,
  (~ Forall (in_rangeZ r) src \/ ~ Forall (in_rangeZ r) dst \/ length src <> length dst) ->
  moveaxis_perm r src dst = Err ValueError.
Proof.
  intros r src dst H. unfold moveaxis_perm.
  destruct (mapM (canon_axis r) src) as [s|e] eqn:Es.
  - simpl. destruct (mapM (canon_axis r) dst) as [d|e] eqn:Ed.
    + simpl. apply mapM_canon_inv in Es. apply mapM_canon_inv in Ed.
      destruct Es as [Fs Es]. destruct Ed as [Fd Ed]. subst. rewrite !map_length.
      destruct (length src =? length dst) eqn:E; [apply Nat.eqb_eq in E; tauto | reflexivity].
    + simpl. f_equal. clear -Ed. revert e Ed. induction dst as [|a l IH]; intros e H; simpl in H; [discriminate|].
      destruct (canon_axis r a) eqn:Ea; simpl in H.
      * destruct (mapM (canon_axis r) l) eqn:El; simpl in H; [discriminate|]. inversion H; subst. apply IH. reflexivity.
      * inversion H; subst. apply canon_axis_err in Ea. tauto.
  - simpl. f_equal. clear -Es. revert e Es. induction src as [|a l IH]; intros e H; simpl in H; [discriminate|].
    destruct (canon_axis r a) eqn:Ea; simpl in H.
    + destruct (mapM (canon_axis r) l) eqn:El; simpl in H; [discriminate|]. inversion H; subst. apply IH. reflexivity.
    + inversion H; subst. apply canon_axis_err in Ea. tauto.
Qed.

Section MoveAxis.
  Variable K : Type.
  Variable k0 : K.
  Notation getK := (get K k0).
  Notation moveaxisK := (moveaxis K k0).

  Definition order_of (a : arr K) (src dst : list Z) : list nat :=
    let r := length (ashape a) in moveaxis_order r (map (nz r) src) (map (nz r) dst).

  Lemma moveaxis_legal : forall (a : arr K) src dst, legalZ (length (ashape a)) src dst ->
    moveaxisK src dst a = Ok (transpose_arr K k0 (order_of a src dst) a).
  Proof.
    intros a src dst HL. unfold moveaxis. rewrite moveaxis_perm_legal by exact HL. reflexivity.
  Qed.

  Lemma rank_transpose : forall r s d (a : arr K), legal r s d ->
    length (ashape (transpose_arr K k0 (moveaxis_order r s d) a)) = r.
  Proof.
    intros r s d a HL. rewrite shape_transpose, permute_length.
    destruct (order_spec r s d HL) as (Hl & _). exact Hl.
  Qed.

  Lemma moveaxis_inverse_l : forall (a : arr K) src dst, wf_arr a ->
    legalZ (length (ashape a)) src dst ->
    bind (moveaxisK src dst a) (moveaxisK dst src) = Ok a.
  Proof.
    intros a src dst Hwf HL. set (r := length (ashape a)) in *.
    pose proof (legalZ_legal _ _ _ HL) as HL'.
    rewrite moveaxis_legal by exact HL. simpl. unfold order_of. fold r.
    unfold moveaxis. rewrite rank_transpose by exact HL'.
    rewrite moveaxis_perm_legal by (apply legalZ_sym; exact HL). simpl. f_equal.
    destruct (order_spec r _ _ HL') as (Hlp & NDp & Hbp & _).
    destruct (order_spec r _ _ (legal_sym _ _ _ HL')) as (Hlq & NDq & Hbq & _).
    apply (transpose_inverse K k0 r); try assumption; try reflexivity.
    apply order_inverse. exact HL'.
  Qed.
End MoveAxis.

Lemma nth_index_of : forall p m, In m p -> index_of m p < length p /\ nth (index_of m p) p 0 = m.
Proof.
  induction p as [|a p IH]; intros m H; [destruct H|]. simpl.
  destruct (a =? m) eqn:E.
  - apply Nat.eqb_eq in E. split; [lia | exact E].
  - apply Nat.eqb_neq in E. destruct H as [H|H]; [congruence|].
    destruct (IH m H) as [H1 H2]. split; [lia | exact H2].
Qed.

Lemma invperm_length : forall p, length (invperm p) = length p.
Proof. intros. unfold invperm. rewrite map_length, seq_length. reflexivity. Qed.

(* p o invperm p = id for a permutation p of range(r) *)
Lemma invperm_right : forall r p, length p = r -> (forall m, m < r -> In m p) ->
  forall m, m < r -> nth m (invperm p) 0 < length p /\ nth (nth m (invperm p) 0) p 0 = m.
Proof.
  intros r p Hl Hin m Hm. rewrite nth_invperm by lia. apply nth_index_of. apply Hin. exact Hm.
Qed.

Lemma order_In : forall r s d, legal r s d -> forall m, m < r -> In m (moveaxis_order r s d).
Proof.
  intros r s d HL m Hm. apply (Permutation_in _ (Permutation_sym (order_Permutation r s d HL))).
  apply in_seq. lia.
Qed.

Lemma shape_restored : forall r s d (sh : list nat), legal r s d -> length sh = r ->
  permute 0 (permute 0 sh (moveaxis_order r s d)) (moveaxis_order r d s) = sh.
Proof.
  intros r s d sh HL Hsh.
  destruct (order_spec r s d HL) as (Hlp & _ & Hbp & _).
  destruct (order_spec r d s (legal_sym _ _ _ HL)) as (Hlq & _ & Hbq & _).
  apply (permute_compose_id _ 0 r); [exact Hlq | exact Hsh |].
  intros m Hm. split; [rewrite Hlp; apply Hbq, nth_In; lia | apply order_inverse; assumption].
Qed.

Section MoveAxisTree.
  Variable K : Type.
  Variable k0 : K.
  Notation getK := (get K k0).
  Notation moveaxisK := (moveaxis K k0).
  Notation ma_mvK := (ma_mv K k0).

  (* element map and shape of jnp.moveaxis for legal arguments *)
  Lemma moveaxis_spec_l : forall (a : arr K) src dst, wf_arr a ->
    legalZ (length (ashape a)) src dst ->
    let r := length (ashape a) in
    let p := order_of K a src dst in
    exists b, moveaxisK src dst a = Ok b /\ wf_arr b /\ ashape b = permute 0 (ashape a) p /\
      (forall k, k < length src ->
         nth (nz r (nth k dst 0%Z)) (ashape b) 0 = nth (nz r (nth k src 0%Z)) (ashape a) 0) /\
      forall I, in_range (ashape b) I ->
        let J := permute 0 I (invperm p) in
        getK b I = getK a J /\ in_range (ashape a) J /\
        forall k, k < r -> nth (nth k p 0) J 0 = nth k I 0.
  Proof.
    intros a src dst Hwf HL r p.
    pose proof (legalZ_legal _ _ _ HL) as HL'. fold r in HL'.
    destruct (order_spec r _ _ HL') as (Hlp & NDp & Hbp & Hkp & _). fold r in p.
    change (moveaxis_order r (map (nz r) src) (map (nz r) dst)) with p in Hlp, NDp, Hbp, Hkp.
    exists (transpose_arr K k0 p a).
    split; [apply moveaxis_legal; exact HL|].
    split; [apply wf_transpose|]. split; [reflexivity|]. split.
    - intros k Hk. rewrite shape_transpose.
      assert (Hd : nz r (nth k dst 0%Z) = nth k (map (nz r) dst) 0).
      { change 0 with (nz r 0%Z). rewrite map_nth. reflexivity. }
      assert (Hs : nz r (nth k src 0%Z) = nth k (map (nz r) src) 0).
      { change 0 with (nz r 0%Z). rewrite map_nth. reflexivity. }
      rewrite Hd, Hs. rewrite map_length in Hkp.
      rewrite nth_permute.
      + rewrite Hkp by exact Hk. reflexivity.
      + rewrite Hlp. destruct HL' as (Hlen & _ & _ & _ & Hd'). apply Hd'. apply nth_In.
        rewrite map_length. rewrite !map_length in Hlen. lia.
    - intros I HI J. rewrite shape_transpose in HI.
      assert (Hinv : forall m, m < r -> nth m (invperm p) 0 < length p /\ nth (nth m (invperm p) 0) p 0 = m).
      { apply invperm_right; [exact Hlp|]. intros m Hm. apply order_In; assumption. }
      split; [apply get_transpose; exact HI|]. split.
      + assert (E : permute 0 (permute 0 (ashape a) p) (invperm p) = ashape a).
        { apply (permute_compose_id _ 0 r); [rewrite invperm_length; exact Hlp | reflexivity | exact Hinv]. }
        rewrite <- E at 1. apply in_range_permute; [exact HI|].
        intros k Hk. rewrite permute_length.
        apply In_nth with (d := 0) in Hk. destruct Hk as [m [Hm Ek]]. rewrite invperm_length in Hm.
        rewrite <- Ek. apply Hinv. lia.
      + intros k Hk. unfold J. rewrite nth_permute.
        * rewrite nth_invperm by (rewrite Hlp; apply Hbp, nth_In; lia).
          rewrite index_of_nth by (try assumption; lia). reflexivity.
        * rewrite invperm_length, Hlp. apply Hbp, nth_In. lia.
  Qed.

  Definition leaf_legal (src dst : list Z) (a : arr K) : Prop :=
    wf_arr a /\ legalZ (length (ashape a)) src dst.

  (* on pytrees whose leaves may have different ranks *)
  Lemma ma_mv_inverse : forall src dst ins ins' (x : list (arr K)),
    Forall (leaf_legal src dst) x ->
    bind (ma_mvK (mkMove src dst ins) x) (ma_mvK (mkMove dst src ins')) = Ok x.
  Proof.
    intros src dst ins ins' x H. unfold ma_mv. simpl. apply mapM_inverse.
    rewrite Forall_forall in H. intros a Ha. destruct (H a Ha) as [Hwf HL].
    apply moveaxis_inverse_l; assumption.
  Qed.

  Lemma ma_leaf_shape_mv : forall src dst (a b : arr K), moveaxisK src dst a = Ok b ->
    ma_leaf_shape src dst (ashape a) = Ok (ashape b).
  Proof.
    intros src dst a b. unfold moveaxis, ma_leaf_shape.
    destruct (moveaxis_perm (length (ashape a)) src dst) as [p|e]; simpl; intros H; inversion H.
    reflexivity.
  Qed.

  Lemma ma_out_mv : forall op (x y : list (arr K)), ma_mvK op x = Ok y ->
    mapM (ma_leaf_shape (ma_src op) (ma_dst op)) (map ashape x) = Ok (map ashape y).
  Proof.
    intros op x y H. unfold ma_mv in H. apply mapM_Forall2 in H. apply mapM_Forall2.
    induction H as [|a b x y Hab H IH]; simpl; constructor; [|exact IH].
    apply ma_leaf_shape_mv. exact Hab.
  Qed.

  Lemma wf_moveaxis : forall src dst (a b : arr K), moveaxisK src dst a = Ok b -> wf_arr b.
  Proof.
    intros src dst a b. unfold moveaxis.
    destruct (moveaxis_perm (length (ashape a)) src dst) as [p|e]; simpl; intros H; inversion H.
    apply wf_transpose.
  Qed.

  Definition op_legal (op : moveaxis_op) : Prop :=
    Forall (fun sh => legalZ (length sh) (ma_src op) (ma_dst op)) (ma_in op).

  Lemma ma_transpose_fields : forall op opT, ma_transpose op = Ok opT ->
    ma_src opT = ma_dst op /\ ma_dst opT = ma_src op /\ ma_out_structure op = Ok (ma_in opT).
  Proof.
    intros op opT. unfold ma_transpose. destruct (ma_out_structure op) as [outs|e]; simpl; intros H;
      inversion H. simpl. auto.
  Qed.

  (* M^T (M x) = x : the transpose built by the code undoes the operator on every conforming input *)
  Theorem ma_T_after_op : forall op opT (x : list (arr K)),
    conforms K x (ma_in op) -> op_legal op -> ma_transpose op = Ok opT ->
    exists y, ma_mvK op x = Ok y /\ conforms K y (ma_in opT) /\ ma_mvK opT y = Ok x.
  Proof.
    intros op opT x [Hsh Hwf] HL HT.
    destruct (ma_transpose_fields _ _ HT) as (Es & Ed & Eo).
    assert (HLx : Forall (leaf_legal (ma_src op) (ma_dst op)) x).
    { unfold op_legal in HL. rewrite <- Hsh in HL. rewrite Forall_map in HL.
      rewrite Forall_forall in *. intros a Ha. split; [apply Hwf | apply HL]; exact Ha. }
    pose proof (ma_mv_inverse (ma_src op) (ma_dst op) (ma_in op) (ma_in opT) x HLx) as Hinv.
    apply bind_ok in Hinv. destruct Hinv as [y [Hy Hback]].
    assert (Eop : mkMove (ma_src op) (ma_dst op) (ma_in op) = op) by (destruct op; reflexivity).
    assert (EopT : mkMove (ma_dst op) (ma_src op) (ma_in opT) = opT)
      by (destruct opT; simpl in *; subst; reflexivity).
    rewrite Eop in Hy. rewrite EopT in Hback.
    exists y. split; [exact Hy|]. split; [|exact Hback].
    split.
    - pose proof (ma_out_mv op x y Hy) as Ho. rewrite Hsh in Ho.
      unfold ma_out_structure in Eo. congruence.
    - unfold ma_mv in Hy. apply mapM_Forall2 in Hy. clear -Hy.
      induction Hy as [|a b x y Hab H IH]; constructor; [|exact IH].
      eapply wf_moveaxis. exact Hab.
  Qed.

  (* the transpose of the transpose is the operator itself, and the transposed arguments are legal
     on the out structure: so the previous theorem also gives M (M^T y) = y *)
  Theorem ma_transpose_involutive : forall op opT, op_legal op -> ma_transpose op = Ok opT ->
    op_legal opT /\ ma_transpose opT = Ok op.
  Proof.
    intros op opT HL HT. destruct (ma_transpose_fields _ _ HT) as (Es & Ed & Eo).
    unfold ma_out_structure in Eo. apply mapM_Forall2 in Eo.
    unfold op_legal in *. rewrite Es, Ed.
    assert (G : Forall (fun sh => legalZ (length sh) (ma_dst op) (ma_src op)) (ma_in opT) /\
                mapM (ma_leaf_shape (ma_dst op) (ma_src op)) (ma_in opT) = Ok (ma_in op)).
    { revert HL. induction Eo as [|sh sh' ins outs Hs H IH]; intros HL; [split; [constructor | reflexivity]|].
      inversion HL as [|? ? HLsh HL']; subst. destruct (IH HL') as [IH1 IH2].
      pose proof (legalZ_legal _ _ _ HLsh) as HLn.
      unfold ma_leaf_shape in Hs. rewrite moveaxis_perm_legal in Hs by exact HLsh. simpl in Hs.
      inversion Hs as [E]. clear Hs.
      assert (Hr : length (permute 0 sh (moveaxis_order (length sh) (map (nz (length sh)) (ma_src op))
                                                          (map (nz (length sh)) (ma_dst op)))) = length sh).
      { rewrite permute_length. destruct (order_spec _ _ _ HLn) as (Hl & _). exact Hl. }
      split.
      - constructor; [|exact IH1]. rewrite Hr. apply legalZ_sym. exact HLsh.
      - simpl. unfold ma_leaf_shape at 1. rewrite Hr.
        rewrite moveaxis_perm_legal by (apply legalZ_sym; exact HLsh). simpl.
        rewrite shape_restored by (try exact HLn; reflexivity). rewrite IH2. reflexivity. }
    destruct G as [G1 G2]. split; [exact G1|].
    unfold ma_transpose, ma_out_structure. rewrite Es, Ed, G2. simpl.
    destruct op; reflexivity.
  Qed.

  (* MoveAxisInverseRule: when it fires, left o right is the identity on every input on which
     right is legal (it cannot fire wrongly; it can miss: see C13.v) *)
  Lemma zlist_eqb_eq : forall a b, zlist_eqb a b = true -> a = b.
  Proof.
    unfold zlist_eqb. induction a as [|x a IH]; intros [|y b] H; simpl in *; try discriminate; [reflexivity|].
    apply andb_true_iff in H. destruct H as [Hl H]. apply andb_true_iff in H. destruct H as [Hxy H].
    apply Z.eqb_eq in Hxy. subst. f_equal. apply IH. rewrite Hl. exact H.
  Qed.

  Theorem moveaxis_rule_sound_l : forall l r (x : list (arr K)), moveaxis_rule l r = true ->
    Forall (leaf_legal (ma_src r) (ma_dst r)) x ->
    bind (ma_mvK r x) (ma_mvK l) = Ok x.
  Proof.
    intros l r x H HL. unfold moveaxis_rule in H. apply andb_true_iff in H. destruct H as [H1 H2].
    apply zlist_eqb_eq in H1. apply zlist_eqb_eq in H2.
    pose proof (ma_mv_inverse (ma_src r) (ma_dst r) (ma_in r) (ma_in l) x HL) as E.
    destruct r as [rs rd ri]. destruct l as [ls ld li]. simpl in *. subst. exact E.
  Qed.
End MoveAxisTree.

(* ========================================================================================== *)
(* 7. Array.reshape on shapes *)
From Coq Require Import ZifyBool.

Lemma prod_app : forall a b, prod (a ++ b) = prod a * prod b.
Proof. induction a as [|x a IH]; intros b; simpl; [lia|]. rewrite IH. lia. Qed.
Lemma prodZ_cons : forall x l, prodZ (x :: l) = (x * prodZ l)%Z.
Proof. reflexivity. Qed.
Lemma prod_cons : forall x l, prod (x :: l) = x * prod l.
Proof. reflexivity. Qed.
Lemma prodZ_app : forall a b, prodZ (a ++ b) = (prodZ a * prodZ b)%Z.
Proof.
  induction a as [|x a IH]; intros b.
  - rewrite app_nil_l. change (prodZ []) with 1%Z. lia.
  - rewrite <- app_comm_cons, !prodZ_cons, IH. lia.
Qed.
Lemma prodZ_of_nat : forall a, prodZ (map Z.of_nat a) = Z.of_nat (prod a).
Proof.
  induction a as [|x a IH]; [reflexivity|].
  cbn [map]. rewrite prodZ_cons, prod_cons, IH. lia.
Qed.

Definition completed (t : list Z) (u : Z) : list Z := map (fun x => if (x =? -1)%Z then u else x) t.

Lemma count_neg1_app : forall a b, count_neg1 (a ++ b) = count_neg1 a + count_neg1 b.
Proof. intros. unfold count_neg1. rewrite filter_app, app_length. reflexivity. Qed.
Lemma others_app : forall a b, others (a ++ b) = others a ++ others b.
Proof. intros. unfold others. apply filter_app. Qed.
Lemma count_neg1_cons : forall x t,
  count_neg1 (x :: t) = (if (x =? -1)%Z then 1 else 0) + count_neg1 t.
Proof.
  intros. unfold count_neg1. cbn [filter]. rewrite (Z.eqb_sym (-1) x).
  destruct (x =? -1)%Z; reflexivity.
Qed.
Lemma others_cons : forall x t, others (x :: t) = if (x =? -1)%Z then others t else x :: others t.
Proof. intros. unfold others. cbn [filter]. destruct (x =? -1)%Z; reflexivity. Qed.
Lemma completed_cons : forall x t u,
  completed (x :: t) u = (if (x =? -1)%Z then u else x) :: completed t u.
Proof. reflexivity. Qed.
Lemma noneg_cons : forall x t, existsb (fun x => (x <? 0)%Z) (x :: t) =
  (x <? 0)%Z || existsb (fun x => (x <? 0)%Z) t.
Proof. reflexivity. Qed.

Lemma count_neg1_of_nat : forall a, count_neg1 (map Z.of_nat a) = 0.
Proof.
  induction a as [|x a IH]; [reflexivity|]. cbn [map]. rewrite count_neg1_cons, IH.
  destruct (Z.of_nat x =? -1)%Z eqn:E; [lia | reflexivity].
Qed.
Lemma others_of_nat : forall a, others (map Z.of_nat a) = map Z.of_nat a.
Proof.
  induction a as [|x a IH]; [reflexivity|]. cbn [map]. rewrite others_cons, IH.
  destruct (Z.of_nat x =? -1)%Z eqn:E; [lia | reflexivity].
Qed.
Lemma completed_of_nat : forall a u, completed (map Z.of_nat a) u = map Z.of_nat a.
Proof.
  induction a as [|x a IH]; intros u; [reflexivity|]. cbn [map]. rewrite completed_cons, IH.
  destruct (Z.of_nat x =? -1)%Z eqn:E; [lia | reflexivity].
Qed.
Lemma completed_app : forall a b u, completed (a ++ b) u = completed a u ++ completed b u.
Proof. intros. unfold completed. apply map_app. Qed.
Lemma noneg_of_nat : forall a, existsb (fun x => (x <? 0)%Z) (map Z.of_nat a) = false.
Proof.
  induction a as [|x a IH]; [reflexivity|]. cbn [map]. rewrite noneg_cons, IH.
  destruct (Z.of_nat x <? 0)%Z eqn:E; [lia | reflexivity].
Qed.
Lemma to_nat_of_nat : forall a, map Z.to_nat (map Z.of_nat a) = a.
Proof. induction a as [|x a IH]; [reflexivity|]. cbn [map]. rewrite IH, Nat2Z.id. reflexivity. Qed.

Lemma prod_to_nat : forall l, existsb (fun x => (x <? 0)%Z) l = false ->
  Z.of_nat (prod (map Z.to_nat l)) = prodZ l.
Proof.
  induction l as [|x l IH]; intros H; [reflexivity|].
  rewrite noneg_cons in H. apply orb_false_iff in H. destruct H as [Hx Hl].
  cbn [map]. rewrite prod_cons, prodZ_cons, Nat2Z.inj_mul, IH by exact Hl.
  rewrite Z2Nat.id by lia. reflexivity.
Qed.

(* without a -1 nothing is completed; with exactly one the product is u times the others *)
Lemma completed_none : forall t u, count_neg1 t = 0 -> completed t u = t /\ others t = t.
Proof.
  induction t as [|x t IH]; intros u H; [split; reflexivity|].
  rewrite count_neg1_cons in H. rewrite completed_cons, others_cons.
  destruct (x =? -1)%Z eqn:E; [lia|].
  destruct (IH u) as [I1 I2]; [lia|]. rewrite I1, I2. split; reflexivity.
Qed.

Lemma prodZ_completed : forall t u, count_neg1 t = 1 ->
  prodZ (completed t u) = (u * prodZ (others t))%Z.
Proof.
  induction t as [|x t IH]; intros u H; [discriminate|].
  rewrite count_neg1_cons in H. rewrite completed_cons, others_cons, prodZ_cons.
  destruct (x =? -1)%Z eqn:E.
  - destruct (completed_none t u) as [I1 I2]; [lia|]. rewrite I1, I2. reflexivity.
  - rewrite prodZ_cons, IH by lia. lia.
Qed.

(* a reshape never changes the number of elements (whenever it is defined at all) *)
Lemma jnp_reshape_size : forall leaf t sh, jnp_reshape_shape leaf t = Ok sh -> prod sh = prod leaf.
Proof.
  intros leaf t sh. unfold jnp_reshape_shape.
  destruct (1 <? count_neg1 t) eqn:C1; [discriminate|].
  destruct (count_neg1 t =? 1) eqn:C2.
  - destruct (prodZ (others t) =? 0)%Z eqn:C3; [discriminate|].
    destruct (negb (sizeZ leaf mod prodZ (others t) =? 0)%Z) eqn:C4; [discriminate|].
    fold (completed t (sizeZ leaf / prodZ (others t))).
    destruct (existsb (fun x => (x <? 0)%Z) (completed t (sizeZ leaf / prodZ (others t)))) eqn:C5;
      [discriminate|].
    intros H. inversion H. apply Nat2Z.inj. rewrite (prod_to_nat _ C5).
    rewrite prodZ_completed by (apply Nat.eqb_eq; exact C2).
    assert (Hm : (sizeZ leaf mod prodZ (others t) = 0)%Z) by lia.
    apply Z.div_exact in Hm; [|lia]. unfold sizeZ in *. lia.
  - destruct (negb (sizeZ leaf =? prodZ t)%Z) eqn:C3; [discriminate|].
    destruct (existsb (fun x => (x <? 0)%Z) t) eqn:C4; [discriminate|].
    intros H. inversion H. apply Nat2Z.inj. rewrite (prod_to_nat t C4). unfold sizeZ in C3. lia.
Qed.

Lemma jnp_reshape_not_assert : forall leaf t, jnp_reshape_shape leaf t <> Err AssertionError.
Proof.
  intros leaf t. unfold jnp_reshape_shape.
  repeat match goal with |- context [if ?c then _ else _] => destruct c end; discriminate.
Qed.

(* reshape to a fully specified shape of the same size *)
Lemma jnp_reshape_exact : forall leaf sh, prod sh = prod leaf ->
  jnp_reshape_shape leaf (map Z.of_nat sh) = Ok sh.
Proof.
  intros leaf sh H. unfold jnp_reshape_shape. rewrite count_neg1_of_nat. simpl.
  rewrite prodZ_of_nat. unfold sizeZ. rewrite H, Z.eqb_refl. simpl.
  rewrite noneg_of_nat, to_nat_of_nat. reflexivity.
Qed.

(* reshape with one unknown size between two explicit blocks *)
Lemma jnp_reshape_infer : forall leaf A B m, prod A * prod B <> 0 ->
  prod leaf = prod A * m * prod B ->
  jnp_reshape_shape leaf (map Z.of_nat A ++ [-1] ++ map Z.of_nat B)%Z = Ok (A ++ [m] ++ B).
Proof.
  intros leaf A B m Hne Hsz. unfold jnp_reshape_shape.
  assert (Ec : count_neg1 (map Z.of_nat A ++ [-1] ++ map Z.of_nat B)%Z = 1).
  { rewrite !count_neg1_app, !count_neg1_of_nat. reflexivity. }
  assert (Eo : prodZ (others (map Z.of_nat A ++ [-1] ++ map Z.of_nat B)%Z) = Z.of_nat (prod A * prod B)).
  { rewrite !others_app, !others_of_nat. change (others [(-1)%Z]) with (@nil Z).
    rewrite !prodZ_app, !prodZ_of_nat. change (prodZ []) with 1%Z. lia. }
  rewrite Ec, Eo. cbn [Nat.ltb Nat.leb Nat.eqb].
  assert (Es : sizeZ leaf = (Z.of_nat m * Z.of_nat (prod A * prod B))%Z) by (unfold sizeZ; lia).
  destruct (Z.of_nat (prod A * prod B) =? 0)%Z eqn:C; [lia|].
  rewrite Es. rewrite Z.mod_mul by lia. rewrite Z.eqb_refl. cbn [negb]. rewrite Z.div_mul by lia.
  fold (completed (map Z.of_nat A ++ [-1] ++ map Z.of_nat B)%Z (Z.of_nat m)).
  rewrite !completed_app, !completed_of_nat.
  change (completed [(-1)%Z] (Z.of_nat m)) with [Z.of_nat m].
  rewrite !existsb_app, !noneg_of_nat. cbn [existsb orb].
  destruct (Z.of_nat m <? 0)%Z eqn:Cm; [lia|]. cbn [orb].
  rewrite !map_app, !to_nat_of_nat. cbn [map]. rewrite Nat2Z.id. reflexivity.
Qed.

(* ========================================================================================== *)
(* 8. RavelOperator *)

Definition ravel_ordered (first last : Z) (sh : shape) : Prop :=
  (norm_axis (length sh) first <= norm_axis (length sh) last)%Z.

Lemma ravel_ctor_ok_inv : forall oid first last ins op, Ravel_ctor oid first last ins = Ok op ->
  op = mkRavel oid first last ins /\ Forall (ravel_ordered first last) ins.
Proof.
  intros oid first last ins op. unfold Ravel_ctor.
  destruct (((0 <=? last) && (last <? first) || (last <? first) && (first <? 0))%Z) eqn:C1; [discriminate|].
  destruct (((first <? 0) && (0 <=? last) || (last <? 0) && (0 <=? first))%Z) eqn:C2.
  - match goal with |- context [forallb ?f ins] => destruct (forallb f ins) eqn:C3 end; [|discriminate].
    intros H. inversion H. split; [reflexivity|].
    rewrite forallb_forall in C3. apply Forall_forall. intros sh Hsh. specialize (C3 sh Hsh).
    unfold ravel_ordered. lia.
  - intros H. inversion H. split; [reflexivity|]. apply Forall_forall. intros sh _.
    unfold ravel_ordered, norm_axis. destruct (first <? 0)%Z eqn:E1; destruct (last <? 0)%Z eqn:E2; lia.
Qed.

(* the constructor accepts exactly when, on every leaf, the normalised first axis does not lie after
   the normalised last one *)
Lemma ravel_ctor_iff_l : forall oid first last ins, ins <> [] ->
  (Ravel_ctor oid first last ins = Ok (mkRavel oid first last ins) <->
   Forall (ravel_ordered first last) ins).
Proof.
  intros oid first last ins Hne. split.
  - intros H. apply ravel_ctor_ok_inv in H. tauto.
  - intros HF. unfold Ravel_ctor.
    destruct (((0 <=? last) && (last <? first) || (last <? first) && (first <? 0))%Z) eqn:C1.
    + exfalso. destruct ins as [|sh ins]; [congruence|]. inversion HF as [|? ? H1 _]; subst.
      unfold ravel_ordered, norm_axis in H1.
      destruct (first <? 0)%Z eqn:E1; destruct (last <? 0)%Z eqn:E2; lia.
    + destruct (((first <? 0) && (0 <=? last) || (last <? 0) && (0 <=? first))%Z) eqn:C2; [|reflexivity].
      match goal with |- context [forallb ?f ins] => destruct (forallb f ins) eqn:C3 end; [reflexivity|].
      exfalso.
      assert (C3' : forallb (fun sh => negb (norm_axis (length sh) first >? norm_axis (length sh) last)%Z) ins = true).
      { apply forallb_forall. intros sh Hsh. rewrite Forall_forall in HF. specialize (HF sh Hsh).
        unfold ravel_ordered in HF. lia. }
      congruence.
Qed.

Lemma ravel_ctor_err : forall oid first last ins e, Ravel_ctor oid first last ins = Err e -> e = ValueError.
Proof.
  intros oid first last ins e. unfold Ravel_ctor.
  repeat match goal with |- context [if ?c then _ else _] => destruct c end; intros H; inversion H; reflexivity.
Qed.

(* `assert False, 'unreachable'` in RavelOperator.mv is unreachable on the leaves of in_structure *)
Lemma ravel_assert_unreachable_l : forall oid first last ins op, Ravel_ctor oid first last ins = Ok op ->
  forall sh, In sh (rv_in op) -> rv_leaf_shape (rv_first op) (rv_last op) sh <> Err AssertionError.
Proof.
  intros oid first last ins op H sh Hsh. apply ravel_ctor_ok_inv in H. destruct H as [E HF]. subst op.
  simpl in *. rewrite Forall_forall in HF. specialize (HF sh Hsh). unfold ravel_ordered in HF.
  unfold rv_leaf_shape.
  destruct (norm_axis (length sh) first >? norm_axis (length sh) last)%Z eqn:C1; [lia|].
  destruct (norm_axis (length sh) first =? norm_axis (length sh) last)%Z eqn:C2; [discriminate|].
  apply jnp_reshape_not_assert.
Qed.

Lemma skipn_skipn' : forall (A : Type) a b (l : list A), skipn a (skipn b l) = skipn (a + b) l.
Proof.
  intros A a b. revert a. induction b as [|b IH]; intros a l.
  - rewrite Nat.add_0_r. reflexivity.
  - destruct l as [|x l]; [rewrite !skipn_nil; reflexivity|].
    rewrite Nat.add_succ_r. cbn [skipn]. apply IH.
Qed.

Lemma split3 : forall (sh : list nat) f l, f <= l -> l < length sh ->
  sh = firstn f sh ++ firstn (S l - f) (skipn f sh) ++ skipn (S l) sh.
Proof.
  intros sh f l Hfl Hl.
  rewrite <- (firstn_skipn f sh) at 1. f_equal.
  rewrite <- (firstn_skipn (S l - f) (skipn f sh)) at 1. f_equal.
  rewrite skipn_skipn'. f_equal. lia.
Qed.

Lemma clamp_idx_nat : forall n k, k <= n -> clamp_idx n (Z.of_nat k) = k.
Proof. intros n k H. unfold clamp_idx. destruct (Z.of_nat k <? 0)%Z eqn:E; lia. Qed.

(* flattening of the axes f..l (normalised, in range); the guard says that no axis outside the
   flattened block is empty (jnp.reshape cannot infer the -1 next to a zero size) *)
Lemma ravel_spec_l : forall first last (sh : shape) f l,
  norm_axis (length sh) first = Z.of_nat f -> norm_axis (length sh) last = Z.of_nat l ->
  f <= l -> l < length sh ->
  prod (firstn f sh) * prod (skipn (S l) sh) <> 0 ->
  let out := firstn f sh ++ [prod (firstn (S l - f) (skipn f sh))] ++ skipn (S l) sh in
  rv_leaf_shape first last sh = Ok out /\ prod out = prod sh.
Proof.
  intros first last sh f l Hf Hl Hfl Hlen Hne out.
  pose proof (split3 sh f l Hfl Hlen) as Esh.
  assert (Hp : prod out = prod sh).
  { unfold out. rewrite Esh at 4. rewrite !prod_app. cbn [prod fold_right]. lia. }
  split; [|exact Hp].
  unfold rv_leaf_shape. rewrite Hf, Hl.
  destruct (Z.of_nat f >? Z.of_nat l)%Z eqn:C1; [lia|].
  destruct (Z.of_nat f =? Z.of_nat l)%Z eqn:C2.
  - assert (f = l) by lia. subst l. f_equal. unfold out.
    replace (S f - f) with 1 by lia. rewrite Esh at 1. replace (S f - f) with 1 by lia.
    f_equal. f_equal.
    destruct (skipn f sh) as [|x rest] eqn:Es.
    + exfalso. assert (length (skipn f sh) = 0) by (rewrite Es; reflexivity).
      rewrite skipn_length in H. lia.
    + cbn [firstn prod fold_right]. f_equal. lia.
  - unfold rv_target, py_upto, py_from.
    rewrite clamp_idx_nat by lia.
    replace (Z.of_nat l + 1)%Z with (Z.of_nat (S l)) by lia. rewrite clamp_idx_nat by lia.
    apply jnp_reshape_infer; [exact Hne|].
    rewrite Esh at 1. rewrite !prod_app. lia.
Qed.

(* ========================================================================================== *)
(* 9. ReshapeOperator: _normalize_shape / _check_shape *)

Definition ge_m1 (t : list Z) : Prop := Forall (fun x => (-1 <= x)%Z) t.

Lemma existsb_lt_m1 : forall t, existsb (fun x => (x <? -1)%Z) t = false <-> ge_m1 t.
Proof.
  unfold ge_m1. induction t as [|x t IH]; simpl.
  - split; [constructor | reflexivity].
  - rewrite orb_false_iff, IH. split.
    + intros [H1 H2]. constructor; [lia | exact H2].
    + intros H. inversion H; subst. split; [lia | assumption].
Qed.

Lemma existsb_neg1 : forall l, existsb (Z.eqb (-1)) l = negb (count_neg1 l =? 0).
Proof.
  induction l as [|x l IH]; [reflexivity|]. cbn [existsb]. rewrite count_neg1_cons, IH.
  rewrite (Z.eqb_sym (-1) x). destruct (x =? -1)%Z; simpl; reflexivity.
Qed.

Lemma completed_self : forall t, completed t (-1) = t.
Proof.
  induction t as [|x t IH]; [reflexivity|]. rewrite completed_cons, IH.
  destruct (x =? -1)%Z eqn:E; [f_equal; lia | reflexivity].
Qed.

Lemma indexZ_spec : forall t,
  match indexZ (-1) t with
  | None => count_neg1 t = 0
  | Some i => count_neg1 t = S (count_neg1 (skipn (S i) t)) /\
              (count_neg1 (skipn (S i) t) = 0 ->
               forall u, firstn i t ++ [u] ++ skipn (S i) t = completed t u)
  end.
Proof.
  induction t as [|x t IH]; [reflexivity|].
  cbn [indexZ]. rewrite count_neg1_cons. destruct (x =? -1)%Z eqn:E; cbv iota.
  - cbn [skipn firstn]. split; [reflexivity|]. intros H u.
    rewrite completed_cons, E. destruct (completed_none t u H) as [I _]. rewrite I. reflexivity.
  - destruct (indexZ (-1) t) as [i|]; cbn [option_map].
    + destruct IH as [I1 I2].
      change (skipn (S (S i)) (x :: t)) with (skipn (S i) t).
      change (firstn (S i) (x :: t)) with (x :: firstn i t).
      split; [lia|]. intros H u.
      rewrite completed_cons, E. rewrite <- (I2 H u). reflexivity.
    + lia.
Qed.

Lemma others_nonneg : forall t, ge_m1 t -> (0 <= prodZ (others t))%Z.
Proof.
  unfold ge_m1. induction t as [|x t IH]; intros H; [cbn; lia|].
  inversion H; subst. rewrite others_cons. destruct (x =? -1)%Z eqn:E; [apply IH; assumption|].
  rewrite prodZ_cons. apply Z.mul_nonneg_nonneg; [lia | apply IH; assumption].
Qed.

Lemma completed_nonneg : forall t u, ge_m1 t -> (0 <= u)%Z ->
  existsb (fun x => (x <? 0)%Z) (completed t u) = false.
Proof.
  unfold ge_m1. induction t as [|x t IH]; intros u H Hu; [reflexivity|].
  inversion H; subst. rewrite completed_cons, noneg_cons, IH by assumption.
  destruct (x =? -1)%Z eqn:E; lia.
Qed.

(* _normalize_shape computed in each of the four situations *)
Lemma normalize_bad_entry : forall t leaf, ~ ge_m1 t -> normalize_shape t leaf = Err ValueError.
Proof.
  intros t leaf H. unfold normalize_shape.
  destruct (existsb (fun x => (x <? -1)%Z) t) eqn:E; [reflexivity|].
  apply existsb_lt_m1 in E. tauto.
Qed.

Lemma normalize_no_unknown : forall t leaf, ge_m1 t -> count_neg1 t = 0 -> normalize_shape t leaf = Ok t.
Proof.
  intros t leaf H C. unfold normalize_shape. apply existsb_lt_m1 in H. rewrite H.
  pose proof (indexZ_spec t) as S. destruct (indexZ (-1) t) as [i|]; [lia | reflexivity].
Qed.

Lemma normalize_two_unknowns : forall t leaf, ge_m1 t -> 2 <= count_neg1 t ->
  normalize_shape t leaf = Err ValueError.
Proof.
  intros t leaf H C. unfold normalize_shape. apply existsb_lt_m1 in H. rewrite H.
  pose proof (indexZ_spec t) as S. destruct (indexZ (-1) t) as [i|]; [|lia].
  destruct S as [S1 _]. rewrite existsb_neg1.
  destruct (count_neg1 (skipn (S i) t) =? 0) eqn:E; [lia | reflexivity].
Qed.

Lemma normalize_one_unknown : forall t leaf, ge_m1 t -> count_neg1 t = 1 ->
  normalize_shape t leaf =
    let P := prodZ (others t) in
    if (P =? 0)%Z then Err ZeroDivisionError
    else if negb (sizeZ leaf mod P =? 0)%Z then Err ValueError
    else Ok (completed t (sizeZ leaf / P)).
Proof.
  intros t leaf H C. unfold normalize_shape. apply existsb_lt_m1 in H. rewrite H.
  pose proof (indexZ_spec t) as S. destruct (indexZ (-1) t) as [i|]; [|lia].
  destruct S as [S1 S2]. rewrite existsb_neg1.
  assert (C0 : count_neg1 (skipn (S i) t) = 0) by lia. rewrite C0. cbn [Nat.eqb negb].
  assert (Ep : prodZ t = (- prodZ (others t))%Z).
  { rewrite <- (completed_self t) at 1. rewrite prodZ_completed by exact C. lia. }
  rewrite Ep. cbv zeta.
  destruct (prodZ (others t) =? 0)%Z eqn:E0.
  - assert (E0' : (- prodZ (others t) =? 0)%Z = true) by lia. rewrite E0'. reflexivity.
  - assert (E0' : (- prodZ (others t) =? 0)%Z = false) by lia. rewrite E0'.
    rewrite Z.mod_opp_opp by lia. rewrite Z.div_opp_opp by lia.
    assert (Em : ((- (sizeZ leaf mod prodZ (others t)) =? 0) = (sizeZ leaf mod prodZ (others t) =? 0))%Z) by lia.
    rewrite Em. destruct (negb (sizeZ leaf mod prodZ (others t) =? 0)%Z); [reflexivity|].
    rewrite (S2 C0). reflexivity.
Qed.

(* a target is valid for a leaf when its sizes are >= -1 and either it has no -1 and the leaf's
   size, or exactly one -1 that can be completed in exactly one way to the leaf's size *)
Definition valid_target (t : list Z) (leaf : shape) : Prop :=
  ge_m1 t /\
  ((count_neg1 t = 0 /\ prodZ t = sizeZ leaf) \/
   (count_neg1 t = 1 /\ exists u, (0 <= u)%Z /\ prodZ (completed t u) = sizeZ leaf /\
      forall u', (0 <= u')%Z -> prodZ (completed t u') = sizeZ leaf -> u' = u)).

Definition target_shape (t : list Z) (leaf : shape) : list Z :=
  if count_neg1 t =? 0 then t else completed t (sizeZ leaf / prodZ (others t)).

Lemma unique_completion_iff : forall t leaf, ge_m1 t -> count_neg1 t = 1 ->
  ((exists u, (0 <= u)%Z /\ prodZ (completed t u) = sizeZ leaf /\
      forall u', (0 <= u')%Z -> prodZ (completed t u') = sizeZ leaf -> u' = u) <->
   (prodZ (others t) <> 0 /\ sizeZ leaf mod prodZ (others t) = 0)%Z).
Proof.
  intros t leaf H C. pose proof (others_nonneg t H) as HP.
  assert (Hs : (0 <= sizeZ leaf)%Z) by (unfold sizeZ; lia).
  set (P := prodZ (others t)) in *. split.
  - intros [u [Hu [E U]]]. rewrite prodZ_completed in E by exact C. fold P in E.
    assert (P <> 0)%Z.
    { intros P0. specialize (U (u + 1)%Z). rewrite prodZ_completed in U by exact C. fold P in U.
      assert (u + 1 = u)%Z by (apply U; [lia | rewrite P0 in *; lia]). lia. }
    split; [assumption|]. rewrite <- E. apply Z.mod_mul. assumption.
  - intros [P0 M]. exists (sizeZ leaf / P)%Z.
    apply Z.div_exact in M; [|exact P0].
    split; [apply Z.div_pos; lia|]. split.
    + rewrite prodZ_completed by exact C. fold P. lia.
    + intros u' Hu' E. rewrite prodZ_completed in E by exact C. fold P in E.
      apply (Z.mul_cancel_r _ _ P); [exact P0 | lia].
Qed.

Lemma check_leaf_iff : forall t leaf, check_leaf t leaf = Ok tt <-> valid_target t leaf.
Proof.
  intros t leaf. unfold check_leaf, valid_target.
  destruct (existsb (fun x => (x <? -1)%Z) t) eqn:Eg.
  - assert (~ ge_m1 t) by (intros H; apply existsb_lt_m1 in H; congruence).
    rewrite normalize_bad_entry by assumption. simpl. split; [discriminate | tauto].
  - apply existsb_lt_m1 in Eg.
    destruct (count_neg1 t) as [|[|c]] eqn:C.
    + rewrite normalize_no_unknown by assumption. simpl.
      destruct (sizeZ leaf =? prodZ t)%Z eqn:E; simpl; split; intros H; try discriminate; try reflexivity.
      * split; [exact Eg|]. left. split; [reflexivity | lia].
      * destruct H as [_ [[_ H]|[H _]]]; [lia | discriminate].
    + rewrite normalize_one_unknown by assumption. cbv zeta.
      rewrite (unique_completion_iff t leaf Eg C).
      destruct (prodZ (others t) =? 0)%Z eqn:E0; simpl.
      * split; [discriminate|]. intros [_ [[H _]|[_ [H _]]]]; [discriminate | lia].
      * destruct (sizeZ leaf mod prodZ (others t) =? 0)%Z eqn:Em; simpl.
        -- rewrite prodZ_completed by exact C.
           assert (M : (sizeZ leaf mod prodZ (others t) = 0)%Z) by lia.
           apply Z.div_exact in M; [|lia].
           assert (Ee : (sizeZ leaf =? sizeZ leaf / prodZ (others t) * prodZ (others t))%Z = true) by lia.
           rewrite Ee. simpl. split; [|reflexivity]. intros _. split; [exact Eg|]. right.
           split; [reflexivity|]. split; lia.
        -- split; [discriminate|]. intros [_ [[H _]|[_ [_ H]]]]; [discriminate | lia].
    + rewrite normalize_two_unknowns by (try assumption; lia). simpl.
      split; [discriminate|]. intros [_ [[H _]|[H _]]]; discriminate.
Qed.

Lemma check_leaf_unit : forall t leaf u, check_leaf t leaf = Ok u <-> valid_target t leaf.
Proof. intros t leaf []. apply check_leaf_iff. Qed.

Lemma reshape_ctor_iff_l : forall oid t ins,
  Reshape_ctor oid t ins = Ok (mkReshape oid t ins) <-> Forall (valid_target t) ins.
Proof.
  intros oid t ins. unfold Reshape_ctor. split.
  - intros H. apply bind_ok in H. destruct H as [us [H _]].
    assert (E : exists m, mapM (check_leaf t) ins = Ok m) by (exists us; exact H).
    apply mapM_ok_exists in E. rewrite Forall_forall in *. intros leaf Hl.
    destruct (E leaf Hl) as [u Hu]. apply (check_leaf_unit t leaf u). exact Hu.
  - intros H.
    assert (E : exists m, mapM (check_leaf t) ins = Ok m).
    { apply mapM_ok_exists. rewrite Forall_forall in *. intros leaf Hl. exists tt.
      apply check_leaf_iff. apply H. exact Hl. }
    destruct E as [m E]. rewrite E. reflexivity.
Qed.

Lemma reshape_ctor_ok_inv : forall oid t ins op, Reshape_ctor oid t ins = Ok op ->
  op = mkReshape oid t ins /\ Forall (valid_target t) ins.
Proof.
  intros oid t ins op H.
  assert (E : op = mkReshape oid t ins).
  { unfold Reshape_ctor in H. apply bind_ok in H. destruct H as [us [_ H]]. inversion H. reflexivity. }
  split; [exact E|]. subst op. apply reshape_ctor_iff_l in H. exact H.
Qed.

(* for a valid target furax's own normalisation and jnp's reshape agree, and give the leaf's size *)
Lemma valid_target_shapes : forall t leaf, valid_target t leaf ->
  normalize_shape t leaf = Ok (target_shape t leaf) /\
  jnp_reshape_shape leaf t = Ok (map Z.to_nat (target_shape t leaf)) /\
  prodZ (target_shape t leaf) = sizeZ leaf /\
  existsb (fun x => (x <? 0)%Z) (target_shape t leaf) = false.
Proof.
  intros t leaf [Hg [[C E]|[C U]]]; unfold target_shape, jnp_reshape_shape; rewrite C.
  - cbn [Nat.eqb Nat.ltb Nat.leb]. rewrite normalize_no_unknown by assumption.
    assert (Hn : existsb (fun x => (x <? 0)%Z) t = false).
    { destruct (completed_none t 0%Z C) as [I _]. rewrite <- I. apply completed_nonneg; [exact Hg | lia]. }
    rewrite Hn. assert (Ee : (sizeZ leaf =? prodZ t)%Z = true) by lia. rewrite Ee. simpl.
    repeat split; auto.
  - apply (unique_completion_iff t leaf Hg C) in U. destruct U as [P0 M].
    cbn [Nat.eqb Nat.ltb Nat.leb]. rewrite normalize_one_unknown by assumption. cbv zeta.
    assert (E0 : (prodZ (others t) =? 0)%Z = false) by lia. rewrite E0.
    assert (Em : (sizeZ leaf mod prodZ (others t) =? 0)%Z = true) by lia. rewrite Em. cbn [negb].
    fold (completed t (sizeZ leaf / prodZ (others t))).
    pose proof (others_nonneg t Hg) as HP.
    assert (Hu : (0 <= sizeZ leaf / prodZ (others t))%Z) by (apply Z.div_pos; unfold sizeZ; lia).
    rewrite (completed_nonneg t _ Hg Hu).
    repeat split; auto.
    rewrite prodZ_completed by exact C. apply Z.div_exact in M; lia.
Qed.

(* ========================================================================================== *)
(* 10. ravel / reshape on values: data identity, lazy transpose, reduce, inverse rule *)

Lemma list_eqb_eq : forall (A : Type) (eqb : A -> A -> bool),
  (forall x y, eqb x y = true <-> x = y) ->
  forall a b, (length a =? length b) && forallb (fun p => eqb (fst p) (snd p)) (combine a b) = true <-> a = b.
Proof.
  intros A eqb Heq. induction a as [|x a IH]; intros [|y b]; simpl; split; intros H;
    try discriminate; try reflexivity.
  - apply andb_true_iff in H. destruct H as [Hl H]. apply andb_true_iff in H. destruct H as [Hxy H].
    apply Heq in Hxy. subst. f_equal. apply IH. rewrite Hl. exact H.
  - inversion H; subst. destruct (IH b) as [_ I]. specialize (I eq_refl).
    apply andb_true_iff in I. destruct I as [I1 I2]. rewrite I1. simpl.
    destruct (Heq y y) as [_ E]. rewrite (E eq_refl), I2. reflexivity.
Qed.

Lemma shape_eqb_eq : forall a b, shape_eqb a b = true <-> a = b.
Proof. apply (list_eqb_eq nat Nat.eqb). apply Nat.eqb_eq. Qed.

Lemma shapes_eqb_eq : forall a b, shapes_eqb a b = true <-> a = b.
Proof. apply (list_eqb_eq shape shape_eqb). apply shape_eqb_eq. Qed.

Lemma rr_leaf_size : forall o sh sh', rr_leaf_shape o sh = Ok sh' -> prod sh' = prod sh.
Proof.
  intros [o|o] sh sh'; simpl.
  - unfold rv_leaf_shape.
    destruct (norm_axis (length sh) (rv_first o) >? norm_axis (length sh) (rv_last o))%Z; [discriminate|].
    destruct (norm_axis (length sh) (rv_first o) =? norm_axis (length sh) (rv_last o))%Z.
    + intros H. inversion H. reflexivity.
    + apply jnp_reshape_size.
  - apply jnp_reshape_size.
Qed.

Section RRValues.
  Variable K : Type.
  Variable k0 : K.
  Notation applyK := (apply K k0).

  Lemma rr_mv_leaf_inv : forall o (a b : arr K), rr_mv_leaf K o a = Ok b <->
    exists sh', rr_leaf_shape o (ashape a) = Ok sh' /\ b = mkArr sh' (adata a).
  Proof.
    intros [o|o] a b; simpl; unfold rv_mv_leaf, reshape_arr; rewrite bind_ok; split.
    - intros [sh' [H1 H2]]. inversion H2. exists sh'. auto.
    - intros [sh' [H1 H2]]. subst. exists sh'. auto.
    - intros [sh' [H1 H2]]. inversion H2. exists sh'. auto.
    - intros [sh' [H1 H2]]. subst. exists sh'. auto.
  Qed.

  (* the operator is defined on every input of its in structure as soon as out_structure() is,
     keeps the row-major data of every leaf, and produces the declared out structure *)
  Lemma rr_defined : forall o (x : list (arr K)) outs, map ashape x = rr_in o -> rr_out o = Ok outs ->
    exists y, applyK (OpRR o) x = Ok y /\ map ashape y = outs /\ map adata y = map adata x.
  Proof.
    intros o x outs Hx Ho. unfold rr_out in Ho. rewrite <- Hx in Ho. clear Hx. simpl.
    revert outs Ho. induction x as [|a x IH]; intros outs Ho; simpl in *.
    - inversion Ho. exists []. auto.
    - apply bind_ok in Ho. destruct Ho as [sh' [H1 H2]]. apply bind_ok in H2.
      destruct H2 as [outs' [H2 H3]]. inversion H3; subst.
      destruct (IH outs' H2) as [y [Y1 [Y2 Y3]]].
      exists (mkArr sh' (adata a) :: y).
      assert (E : rr_mv_leaf K o a = Ok (mkArr sh' (adata a))) by (apply rr_mv_leaf_inv; exists sh'; auto).
      rewrite E. simpl. rewrite Y1. simpl. rewrite Y2, Y3. auto.
  Qed.

  Lemma rr_apply_inv : forall o (x y : list (arr K)), applyK (OpRR o) x = Ok y ->
    map adata y = map adata x /\ mapM (rr_leaf_shape o) (map ashape x) = Ok (map ashape y).
  Proof.
    intros o x y H. simpl in H. apply mapM_Forall2 in H.
    induction H as [|a b x y Hab H [IH1 IH2]]; simpl; [auto|].
    apply rr_mv_leaf_inv in Hab. destruct Hab as [sh' [H1 H2]]. subst b. simpl.
    rewrite IH1, H1. simpl. rewrite IH2. auto.
  Qed.

  Theorem rr_data_identity : forall o (x y : list (arr K)), applyK (OpRR o) x = Ok y ->
    flat K y = flat K x.
  Proof. intros o x y H. unfold flat. destruct (rr_apply_inv o x y H) as [E _]. rewrite E. reflexivity. Qed.

  Lemma rr_wf : forall o (x y : list (arr K)), applyK (OpRR o) x = Ok y -> Forall wf_arr x -> Forall wf_arr y.
  Proof.
    intros o x y H. simpl in H. apply mapM_Forall2 in H.
    induction H as [|a b x y Hab H IH]; intros Hw; [constructor|].
    inversion Hw as [|? ? Wa Wx]; subst. constructor; [|apply IH; exact Wx].
    apply rr_mv_leaf_inv in Hab. destruct Hab as [sh' [E1 E2]]. subst b.
    unfold wf_arr in *. simpl. rewrite (rr_leaf_size _ _ _ E1). assumption.
  Qed.

  (* ReshapeTransposeOperator restores the shapes of the operator's input leaves *)
  Theorem reshapeT_restores_l : forall o (x y : list (arr K)), conforms K x (rr_in o) ->
    applyK (OpRR o) x = Ok y -> applyK (OpRRT o) y = Ok x.
  Proof.
    intros o x y [Hs Hw] H. simpl in *. unfold rrT_mv. rewrite <- Hs. clear Hs.
    apply mapM_Forall2 in H. induction H as [|a b x y Hab H IH]; [reflexivity|].
    inversion Hw as [|? ? Wa Wx]; subst. simpl.
    apply rr_mv_leaf_inv in Hab. destruct Hab as [sh' [E1 E2]]. subst b.
    unfold reshape_arr at 1. cbn [ashape adata].
    rewrite jnp_reshape_exact by (symmetry; apply (rr_leaf_size _ _ _ E1)). simpl.
    rewrite IH by assumption. simpl. destruct a; reflexivity.
  Qed.

  (* ... and the operator undoes its lazy transpose on every input of the out structure *)
  Theorem op_after_T_l : forall o (y : list (arr K)) outs, rr_out o = Ok outs -> conforms K y outs ->
    exists x, applyK (OpRRT o) y = Ok x /\ conforms K x (rr_in o) /\ applyK (OpRR o) x = Ok y.
  Proof.
    intros o y outs Ho [Hs Hw]. simpl. unfold rrT_mv, rr_out in *. apply mapM_Forall2 in Ho.
    revert y Hs Hw. induction Ho as [|sh out ins outs H1 Ho IH]; intros y Hs Hw.
    - destruct y; [|discriminate]. exists []. repeat split; constructor.
    - destruct y as [|b y]; [discriminate|]. inversion Hs as [[Hb Hy]].
      inversion Hw as [|? ? Wb Wy]; subst.
      destruct (IH y eq_refl) as [x [X1 [[X2 X3] X4]]]; [assumption|].
      exists (mkArr sh (adata b) :: x). simpl.
      unfold reshape_arr at 1.
      rewrite jnp_reshape_exact by (symmetry; apply (rr_leaf_size _ _ _ H1)). simpl.
      rewrite X1. simpl. split; [reflexivity|]. split.
      + split; [simpl; rewrite X2; reflexivity|]. constructor; [|assumption].
        unfold wf_arr in *. simpl. rewrite <- (rr_leaf_size _ _ _ H1). assumption.
      + assert (E : rr_mv_leaf K o (mkArr sh (adata b)) = Ok b).
        { apply rr_mv_leaf_inv. exists (ashape b). split; [exact H1 | destruct b; reflexivity]. }
        rewrite E. simpl. simpl in X4. rewrite X4. reflexivity.
  Qed.

  Lemma arr_list_ext : forall (x y : list (arr K)), map ashape x = map ashape y ->
    map adata x = map adata y -> x = y.
  Proof.
    induction x as [|a x IH]; intros [|b y] H1 H2; simpl in *; try discriminate; [reflexivity|].
    inversion H1. inversion H2. f_equal; [destruct a, b; simpl in *; subst; reflexivity | apply IH; assumption].
  Qed.

  (* reduce(): IdentityOperator exactly when every leaf keeps its shape, and then the operator is
     the identity map *)
  Theorem reduce_identity_iff_l : forall o s,
    reduce1 (OpRR o) = Ok (OpId s) <-> (rr_out o = Ok (rr_in o) /\ s = rr_in o).
  Proof.
    intros o s. simpl. split.
    - intros H. apply bind_ok in H. destruct H as [outs [H1 H2]].
      destruct (shapes_eqb outs (rr_in o)) eqn:E; inversion H2.
      apply shapes_eqb_eq in E. subst. auto.
    - intros [H1 H2]. rewrite H1. simpl.
      destruct (shapes_eqb_eq (rr_in o) (rr_in o)) as [_ E]. rewrite (E eq_refl). subst. reflexivity.
  Qed.

  Theorem reduce_noop_is_identity : forall o (x : list (arr K)), rr_out o = Ok (rr_in o) ->
    map ashape x = rr_in o -> applyK (OpRR o) x = Ok x.
  Proof.
    intros o x Ho Hx. destruct (rr_defined o x _ Hx Ho) as [y [Y1 [Y2 Y3]]].
    rewrite Y1. f_equal. apply arr_list_ext; congruence.
  Qed.

  (* ReshapeInverseRule *)
  Theorem reshape_rule_sound_l : forall l r c,
    reshape_rule l r = true ->
    (forall a b, (l = OpRR a \/ l = OpRRT a) -> (r = OpRR b \/ r = OpRRT b) -> rr_oid a = rr_oid b -> a = b) ->
    matmul l r = Ok c ->
    forall ins (x : list (arr K)), in_structure r = Ok ins -> conforms K x ins -> applyK c x = Ok x.
  Proof.
    intros l r c Hr Hid Hm ins x Hin Hx.
    destruct l as [| a | a | |]; destruct r as [| b | b | |]; simpl in Hr; try discriminate.
    - (* op @ op.T *)
      apply N.eqb_eq in Hr. assert (E : a = b) by (apply Hid; auto). subst b.
      unfold matmul in Hm. simpl in Hm. destruct (shapes_eqb (rr_in a) (rr_in a)); inversion Hm. subst c.
      simpl in Hin. destruct (op_after_T_l a x ins Hin Hx) as [x' [X1 [X2 X3]]].
      cbn [apply]. change (rrT_mv K a x) with (applyK (OpRRT a) x). rewrite X1. simpl. exact X3.
    - (* op.T @ op *)
      apply N.eqb_eq in Hr. assert (E : a = b) by (apply Hid; auto). subst b.
      unfold matmul in Hm. simpl in Hm. destruct (rr_out a) as [outs|] eqn:Ho; simpl in Hm; [|discriminate].
      destruct (shapes_eqb outs outs); inversion Hm. subst c.
      simpl in Hin. inversion Hin. subst ins. destruct Hx as [Hs Hw].
      destruct (rr_defined a x outs Hs Ho) as [y [Y1 _]].
      cbn [apply]. change (mapM (rr_mv_leaf K a) x) with (applyK (OpRR a) x). rewrite Y1. simpl.
      apply (reshapeT_restores_l a x y); [split; assumption | exact Y1].
  Qed.
End RRValues.

(* ========================================================================================== *)
(* 11. dense matrices of ravel / reshape and of their lazy transposes *)
Lemma nth_map_seq : forall (A : Type) (f : nat -> A) n a d, a < n -> nth a (map f (seq 0 n)) d = f a.
Proof.
  intros A f n a d H. rewrite (nth_indep _ d (f 0)) by (rewrite map_length, seq_length; exact H).
  rewrite map_nth, seq_nth by exact H. reflexivity.
Qed.

Section MatrixL.
  Variable K : Type.
  Variables k0 k1 : K.
  Notation applyK := (apply K k0).

  Lemma basis_length : forall n j, length (basis K k0 k1 n j) = n.
  Proof. intros. unfold basis. rewrite map_length, seq_length. reflexivity. Qed.

  Lemma flat_unflat : forall s v, length v = tree_size s -> flat K (unflat K s v) = v.
  Proof.
    induction s as [|sh s IH]; intros v H; simpl in *.
    - destruct v; [reflexivity | discriminate].
    - unfold flat in *. simpl. rewrite IH by (rewrite skipn_length; lia). apply firstn_skipn.
  Qed.

  Lemma unflat_conforms : forall s v, length v = tree_size s -> conforms K (unflat K s v) s.
  Proof.
    induction s as [|sh s IH]; intros v H; simpl in *.
    - split; constructor.
    - destruct (IH (skipn (prod sh) v)) as [I1 I2]; [rewrite skipn_length; lia|].
      split; [simpl; rewrite I1; reflexivity|]. constructor; [|exact I2].
      unfold wf_arr. simpl. rewrite firstn_length. lia.
  Qed.

  Lemma tree_size_out : forall o outs, rr_out o = Ok outs -> tree_size outs = tree_size (rr_in o).
  Proof.
    intros o outs H. unfold rr_out in H. apply mapM_Forall2 in H.
    induction H as [|sh out ins outs H1 H IH]; [reflexivity|]. simpl.
    rewrite IH, (rr_leaf_size _ _ _ H1). reflexivity.
  Qed.

  (* as_matrix() of a ravel / reshape operator (the identity matrix) is its dense matrix *)
  Theorem rr_matrix_identity : forall o outs, rr_out o = Ok outs ->
    columns K k0 k1 (applyK (OpRR o)) (rr_in o) = Ok (rr_as_matrix K k0 k1 o).
  Proof.
    intros o outs Ho. unfold columns, rr_as_matrix, eye. apply mapM_map. intros j _.
    destruct (unflat_conforms (rr_in o) (basis K k0 k1 (tree_size (rr_in o)) j)) as [C1 C2];
      [apply basis_length|].
    destruct (rr_defined K k0 o _ outs C1 Ho) as [y [Y1 [_ Y3]]]. rewrite Y1. simpl. f_equal.
    unfold flat at 1. rewrite Y3. apply flat_unflat. apply basis_length.
  Qed.

  (* the dense matrix of the lazy transpose is the identity as well: transpose = inverse *)
  Theorem rrT_matrix_identity : forall o outs, rr_out o = Ok outs ->
    columns K k0 k1 (applyK (OpRRT o)) outs = Ok (eye K k0 k1 (tree_size outs)).
  Proof.
    intros o outs Ho. unfold columns, eye. apply mapM_map. intros j _.
    pose proof (unflat_conforms outs (basis K k0 k1 (tree_size outs) j) (basis_length _ _)) as C.
    destruct (op_after_T_l K k0 o _ outs Ho C) as [x [X1 [_ X3]]]. rewrite X1. simpl. f_equal.
    rewrite <- (rr_data_identity K k0 o x _ X3). apply flat_unflat. apply basis_length.
  Qed.

  Lemma eye_symmetric : forall n i j, i < n -> j < n ->
    nth i (nth j (eye K k0 k1 n) []) k0 = nth j (nth i (eye K k0 k1 n) []) k0.
  Proof.
    intros n i j Hi Hj. unfold eye.
    assert (G : forall a b, a < n -> b < n ->
              nth a (nth b (map (basis K k0 k1 n) (seq 0 n)) []) k0 = if a =? b then k1 else k0).
    { intros a b Ha Hb. rewrite nth_map_seq by exact Hb. unfold basis.
      rewrite nth_map_seq by exact Ha. reflexivity. }
    rewrite !G by assumption. rewrite (Nat.eqb_sym i j). reflexivity.
  Qed.
End MatrixL.

(* ========================================================================================== *)
(* 12. statements in the form used by Props/C13.v *)

Lemma moveaxis_order_perm_l : forall r s d, legal r s d ->
  let p := moveaxis_order r s d in
  Permutation p (seq 0 r) /\
  (forall k, k < length s -> nth (nth k d 0) p 0 = nth k s 0) /\
  filter (nin s) p = filter (nin s) (seq 0 r).
Proof.
  intros r s d HL p. split; [apply order_Permutation; exact HL|].
  destruct (order_spec r s d HL) as (_ & _ & _ & H4 & H5). split; assumption.
Qed.

(* converse on the decision level: what jnp.moveaxis accepts has in-range axes, equal lengths and
   no repeated (normalised) source axis; repeated destinations are NOT rejected by jnp (boundary) *)
Lemma moveaxis_perm_ok_inv : forall r src dst p, moveaxis_perm r src dst = Ok p ->
  Forall (in_rangeZ r) src /\ Forall (in_rangeZ r) dst /\ length src = length dst /\
  NoDup (map (nz r) src) /\ p = moveaxis_order r (map (nz r) src) (map (nz r) dst).
Proof.
  intros r src dst p H. unfold moveaxis_perm in H.
  apply bind_ok in H. destruct H as [s [Hs H]]. apply bind_ok in H. destruct H as [d [Hd H]].
  apply mapM_canon_inv in Hs. apply mapM_canon_inv in Hd. destruct Hs as [Fs Es]. destruct Hd as [Fd Ed].
  destruct (negb (length s =? length d)) eqn:El; [discriminate|].
  destruct (is_perm r (moveaxis_order r s d)) eqn:Ep; [|discriminate]. inversion H. subst.
  rewrite !map_length in El. assert (Hlen : length src = length dst) by lia.
  repeat split; try assumption.
  (* the final list is a permutation of range(r) and contains the sources and the other axes *)
  unfold is_perm in Ep. apply andb_true_iff in Ep. destruct Ep as [Ep1 Ep2].
  apply Nat.eqb_eq in Ep1. rewrite forallb_forall in Ep2.
  set (s := map (nz r) src) in *. set (d := map (nz r) dst) in *.
  assert (ND : NoDup (moveaxis_order r s d)).
  { apply (@NoDup_incl_NoDup nat (seq 0 r)); [apply seq_NoDup | rewrite seq_length; lia |].
    intros x Hx. apply mem_nat_In. apply Ep2. exact Hx. }
  rewrite moveaxis_order_unfold in ND.
  assert (P : Permutation (fold_left ins_step (sort_pairs (combine d s)) (filter (nin s) (seq 0 r)))
                          (s ++ filter (nin s) (seq 0 r))).
  { rewrite fold_ins_perm. apply Permutation_app_tail.
    rewrite (sort_pairs_perm (combine d s)). rewrite map_snd_combine; [reflexivity|].
    unfold s, d. rewrite !map_length. lia. }
  apply (Permutation_NoDup P) in ND.
  remember (filter (nin s) (seq 0 r)) as tl eqn:Etl. clear -ND. clearbody s.
  induction s as [|a s IH]; [constructor|]. simpl in ND. inversion ND as [|? ? Hn Hd]; subst.
  constructor; [|apply IH; exact Hd]. intros Hin. apply Hn. apply in_or_app. left. exact Hin.
Qed.
