(* C05, axis operators on pytrees whose leaves have different ranks: reduce() of a non-composite operator of
   Model/Axes.v (the per-leaf model of MoveAxisOperator / RavelOperator / ReshapeOperator and of
   AbstractRavelOrReshapeOperator.reduce) keeps the declared structures - ALL leaves, each with its own
   normalisation of the axes. *)
From Coq Require Import ZArith NArith List Bool.
From Furax Require Import Model.Axes Lemmas.AxesL.
Import ListNotations.

Lemma reduce1_structs_l : forall o r, reduce1 o = Ok r ->
  in_structure r = in_structure o /\ out_structure r = out_structure o.
Proof.
  intros o r H. destruct o; simpl in H; try (inversion H; subst; split; reflexivity).
  destruct (rr_out o) as [outs|e] eqn:Ho; simpl in H; [|discriminate].
  destruct (shapes_eqb outs (rr_in o)) eqn:E; inversion H; subst; simpl.
  - apply shapes_eqb_eq in E. subst. split; [reflexivity | symmetry; exact Ho].
  - split; reflexivity.
Qed.

(* the identity is returned only if NO leaf changes: one leaf that is really flattened / reshaped is enough to
   keep the operator (the leaf shapes are compared as a whole list, not through the first leaf) *)
Lemma reduce1_identity_all_leaves_l : forall o s, reduce1 (OpRR o) = Ok (OpId s) ->
  mapM (rr_leaf_shape o) (rr_in o) = Ok (rr_in o).
Proof.
  intros o s H. simpl in H. destruct (rr_out o) as [outs|e] eqn:Ho; simpl in H; [|discriminate].
  destruct (shapes_eqb outs (rr_in o)) eqn:E; inversion H; subst.
  apply shapes_eqb_eq in E. subst. exact Ho.
Qed.
