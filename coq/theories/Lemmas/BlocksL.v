(* C10 - block operators act as the block matrices of their blocks: proofs. *)
From Coq Require Import List Bool Arith ZArith NArith QArith String Lia Ring.
From Furax Require Import Base.Pytree Model.Op Model.Algebra Model.Denote Model.Wf Model.BlockMat
  Lemmas.DenoteL Lemmas.Sound.
Import ListNotations.
Local Close Scope Q_scope.
Local Open Scope nat_scope.

(* ---------- facts that need no ring ---------- *)
Section Plain.
  Variable K : Type.
  Notation op := (op K).

  Lemma struct_eqb_iff (a b : struct) : struct_eqb a b = true <-> a = b.
  Proof. split; [apply struct_eqb_eq|intros ->; apply struct_eqb_refl]. Qed.

  Lemma all_eqb_spec (ss : list struct) : all_eqb ss = true <-> forall s, In s ss -> s = hd s ss.
  Proof.
    destruct ss as [|s0 r]; cbn [all_eqb hd]; [split; [intros _ s []|reflexivity]|].
    rewrite forallb_forall. split.
    - intros H s [<-|Hs]; [reflexivity|]. symmetry. apply struct_eqb_iff. auto.
    - intros H s Hs. apply struct_eqb_iff. symmetry. apply H. now right.
  Qed.

  Lemma shared_ok_all_eqb (b : bkind) (l : list op) : l <> [] ->
    (shared_ok b l <->
     match b with
     | BRow => all_eqb (map (@out_struct K) l) = true
     | BCol => all_eqb (map (@in_struct K) l) = true
     | BDiag => True
     end).
  Proof.
    intros Hne. destruct l as [|a r]; [congruence|]. destruct b; cbn [shared_ok]; [|reflexivity|].
    - rewrite all_eqb_spec. split.
      + intros H s Hs. apply in_map_iff in Hs as (x & <- & Hx). cbn [map hd]. apply (H x Hx).
      + intros H x Hx. specialize (H (out_struct x) (in_map (@out_struct K) _ _ Hx)). cbn [map hd] in H. exact H.
    - rewrite all_eqb_spec. split.
      + intros H s Hs. apply in_map_iff in Hs as (x & <- & Hx). cbn [map hd]. apply (H x Hx).
      + intros H x Hx. specialize (H (in_struct x) (in_map (@in_struct K) _ _ Hx)). cbn [map hd] in H. exact H.
  Qed.

  (* the constructors: exact characterisation of acceptance *)
  Theorem mk_block_ok_iff b td (l : list op) e :
    mk_block b td l = Ok e <->
    e = Block fresh b td l /\ List.length l = nleaves td /\ l <> [] /\ shared_ok b l.
  Proof.
    unfold mk_block. destruct (Nat.eqb (List.length l) (nleaves td)) eqn:El; cbn [negb].
    2:{ split; [discriminate|]. intros (_ & H & _). apply Nat.eqb_neq in El. contradiction. }
    apply Nat.eqb_eq in El.
    destruct l as [|a r]; [split; [discriminate|intros (_ & _ & H & _); congruence]|].
    assert (Hne : a :: r <> []) by discriminate.
    pose proof (shared_ok_all_eqb b (a :: r) Hne) as Hs.
    destruct b.
    - destruct (all_eqb (map (@out_struct K) (a :: r))) eqn:Ea.
      + split; [intros H; inversion H; subst; repeat split; auto; apply Hs; reflexivity|intros (-> & _); reflexivity].
      + split; [discriminate|]. intros (_ & _ & _ & H). apply Hs in H. discriminate.
    - split; [intros H; inversion H; subst; repeat split; auto|intros (-> & _); reflexivity].
    - destruct (all_eqb (map (@in_struct K) (a :: r))) eqn:Ea.
      + split; [intros H; inversion H; subst; repeat split; auto; apply Hs; reflexivity|intros (-> & _); reflexivity].
      + split; [discriminate|]. intros (_ & _ & _ & H). apply Hs in H. discriminate.
  Qed.

  Theorem ctor_accepts_match b td (l : list op) :
    List.length l = nleaves td -> l <> [] -> shared_ok b l -> mk_block b td l = Ok (Block fresh b td l).
  Proof. intros H1 H2 H3. apply mk_block_ok_iff. auto. Qed.

  (* two blocks that disagree on the shared structure: ValueError, whatever the container *)
  Theorem ctor_rejects_mismatch b td (l : list op) x y :
    List.length l = nleaves td -> In x l -> In y l ->
    (b = BRow /\ out_struct x <> out_struct y) \/ (b = BCol /\ in_struct x <> in_struct y) ->
    mk_block b td l = Err ValueError.
  Proof.
    intros Hlen Hx Hy Hb. unfold mk_block. rewrite Hlen, Nat.eqb_refl. cbn [negb].
    destruct l as [|a r]; [destruct Hx|].
    assert (Hne : a :: r <> []) by discriminate.
    destruct Hb as [[-> Hd]|[-> Hd]].
    - destruct (all_eqb (map (@out_struct K) (a :: r))) eqn:Ea; [|reflexivity].
      exfalso. apply (shared_ok_all_eqb BRow (a :: r) Hne) in Ea. cbn [shared_ok hd] in Ea.
      apply Hd. rewrite (Ea x Hx), (Ea y Hy). reflexivity.
    - destruct (all_eqb (map (@in_struct K) (a :: r))) eqn:Ea; [|reflexivity].
      exfalso. apply (shared_ok_all_eqb BCol (a :: r) Hne) in Ea. cbn [shared_ok hd] in Ea.
      apply Hd. rewrite (Ea x Hx), (Ea y Hy). reflexivity.
  Qed.

  (* ... in particular two blocks whose shared structures have the same LEAVES (shapes, dtypes, order) but
     another container - kind (list / tuple / dict / Stokes class), dict keys, nesting, a leaf against a
     singleton container: anything `shape_of` (the treedef, dict keys included) sees *)
  Theorem ctor_rejects_other_container b td (l : list op) x y :
    List.length l = nleaves td -> In x l -> In y l ->
    (b = BRow /\ shape_of (out_struct x) <> shape_of (out_struct y)) \/
    (b = BCol /\ shape_of (in_struct x) <> shape_of (in_struct y)) ->
    mk_block b td l = Err ValueError.
  Proof.
    intros Hlen Hx Hy Hb. apply (ctor_rejects_mismatch b td l x y Hlen Hx Hy).
    destruct Hb as [[-> Hd]|[-> Hd]]; [left|right]; (split; [reflexivity|]); intros E; apply Hd; now rewrite E.
  Qed.

  (* two structures are equal exactly when their treedefs and their leaves are: what the constructors compare *)
  Lemma app_inv_same_length A (a a' b b' : list A) :
    List.length a = List.length a' -> a ++ b = a' ++ b' -> a = a' /\ b = b'.
  Proof.
    revert a'. induction a as [|u a IH]; intros [|u' a'] Hl H; cbn in *; try discriminate; auto.
    injection H as -> H. injection Hl as Hl. destruct (IH a' Hl H) as [-> ->]. auto.
  Qed.
  Lemma shape_of_flatten_length A (s t : pt A) :
    shape_of s = shape_of t -> List.length (flatten s) = List.length (flatten t).
  Proof.
    intros H. apply (f_equal (fun u => List.length (flatten u))) in H. unfold shape_of in H.
    now rewrite !flatten_pmap, !map_length in H.
  Qed.
  Lemma pt_eq_of_shape_flatten A : forall s t : pt A,
    shape_of s = shape_of t -> flatten s = flatten t -> s = t.
  Proof.
    intros s. induction s as [a|k cs IH] using pt_ind'; intros [b|k' cs'] Hs Hf; cbn in Hs, Hf; try discriminate.
    - now injection Hf as ->.
    - injection Hs as -> Hm. f_equal.
      revert cs' Hm Hf. induction IH as [|x xs Hx _ IHl]; intros [|y ys] Hm Hf; cbn in *; try discriminate; auto.
      injection Hm as Hxy Hm.
      destruct (app_inv_same_length _ _ _ _ _ (shape_of_flatten_length _ x y Hxy) Hf) as [H1 H2].
      f_equal; auto.
  Qed.
  Theorem struct_eq_iff_treedef_leaves (s t : struct) :
    s = t <-> shape_of s = shape_of t /\ flatten s = flatten t.
  Proof. split; [intros ->; auto|intros [H1 H2]; now apply pt_eq_of_shape_flatten]. Qed.

  (* the remaining error kinds, as the code: operators[0] of an empty container *)
  Theorem ctor_empty b td : nleaves td = 0 -> mk_block b td (@nil op) = Err IndexError.
  Proof. intros H. unfold mk_block. cbn [List.length]. rewrite H. reflexivity. Qed.
  Theorem ctor_never_other b td (l : list op) :
    (exists e, mk_block b td l = Ok e) \/ mk_block b td l = Err ValueError \/ mk_block b td l = Err IndexError.
  Proof.
    unfold mk_block. destruct (negb _); [auto|]. destruct l; [auto|].
    destruct b; try destruct (all_eqb _); eauto.
  Qed.

  Lemma allwf_Forall (l : list op) :
    (fix all (l : list op) : bool := match l with [] => true | x :: xs => wfo x && all xs end) l = true <->
    Forall (fun x => wfo x = true) l.
  Proof.
    induction l as [|a r IH]; [split; auto|]. rewrite andb_true_iff, IH. split.
    - intros [H1 H2]. constructor; auto.
    - intros H. inversion H; auto.
  Qed.

  (* what a constructor returns is a well-formed operator *)
  Theorem ctor_result_wf b td (l : list op) e :
    mk_block b td l = Ok e -> Forall (fun x => wfo x = true) l -> wfo e = true.
  Proof.
    intros H Hl. apply mk_block_ok_iff in H as (-> & Hlen & Hne & Hs).
    cbn [wfo]. apply (shared_ok_all_eqb b l Hne) in Hs.
    destruct l as [|a r]; [congruence|].
    assert (H0 : Nat.eqb (List.length (a :: r)) 0 = false) by reflexivity.
    rewrite H0, Hlen, Nat.eqb_refl. cbn [negb andb].
    apply allwf_Forall in Hl. rewrite Hl, andb_true_r.
    destruct b; auto.
  Qed.

  (* ---------- transposes: row <-> column of the transposed blocks, same container ---------- *)
  Definition tkind (b : bkind) : bkind := match b with BRow => BCol | BDiag => BDiag | BCol => BRow end.

  Theorem block_transposes i b td (l : list op) :
    transpose (Block i b td l) = Block fresh (tkind b) td (map (@transpose K) l).
  Proof. destruct b; reflexivity. Qed.

  Lemma shape_of_pmap A B (f : A -> B) (c : pt A) : shape_of (pmap f c) = shape_of c.
  Proof.
    unfold shape_of. induction c as [a|k cs IH] using pt_ind'; cbn; [reflexivity|]. f_equal.
    rewrite map_map. induction IH as [|x xs Hx _ IHl]; cbn; [reflexivity|]. now rewrite Hx, IHl.
  Qed.

  Theorem block_transposes_container i b (c : container K) :
    transpose (block_of i b c) = block_of fresh (tkind b) (pmap (@transpose K) c).
  Proof. unfold block_of. rewrite block_transposes, shape_of_pmap, flatten_pmap. reflexivity. Qed.

  Theorem block_transpose_structs i b td (l : list op) :
    Forall (fun x => in_struct (transpose x) = out_struct x /\ out_struct (transpose x) = in_struct x) l ->
    in_struct (transpose (Block i b td l)) = out_struct (Block i b td l) /\
    out_struct (transpose (Block i b td l)) = in_struct (Block i b td l).
  Proof.
    intros HF. rewrite block_transposes. unfold in_struct, out_struct. cbn [structs].
    assert (Hio : map (fun x => fst (structs x)) (map (@transpose K) l) = map (fun x => snd (structs x)) l /\
                  map (fun x => snd (structs x)) (map (@transpose K) l) = map (fun x => fst (structs x)) l).
    { induction HF as [|x r [Hx Hx'] _ [IH IH']]; cbn; [auto|]. unfold in_struct, out_struct in Hx, Hx'.
      rewrite Hx, Hx', IH, IH'. auto. }
    destruct Hio as [Hi Ho].
    rewrite Hi, Ho. destruct b; cbn; auto.
  Qed.

  Theorem block_transpose_involutive i b td (l : list op) :
    Forall (fun x => transpose (transpose x) = x) l ->
    transpose (transpose (Block i b td l)) = Block fresh b td l.
  Proof.
    intros HF. rewrite !block_transposes. f_equal; [now destruct b|].
    rewrite map_map. induction HF as [|x r Hx _ IH]; cbn; [reflexivity|]. now rewrite Hx, IH.
  Qed.
End Plain.

(* ---------- tree maps over containers = the flattened (td, l) form of the model ---------- *)
Section TreeMaps.
  Variables A B : Type.

  Lemma nleaves_shape_of (c : pt A) : nleaves (shape_of c) = List.length (flatten c).
  Proof. unfold nleaves, shape_of. rewrite flatten_pmap. apply map_length. Qed.

  Lemma build_aux_app (d : pt B) td ys rest : List.length ys = nleaves td ->
    build_aux d td (ys ++ rest) = (build d td ys, rest).
  Proof. intros H. apply split_build_aux. apply split_build. exact H. Qed.

  Lemma build_node (d : pt B) k tds ys :
    build d (Node k tds) ys = Node k (fst (build_list (build_aux d) tds ys)).
  Proof. unfold build. cbn [build_aux]. destruct (build_list (build_aux d) tds ys). reflexivity. Qed.

  Lemma omap2_app (f : A -> pt B -> option (pt B)) l1 l2 : forall xs1 xs2, List.length l1 = List.length xs1 ->
    omap2 f (l1 ++ l2) (xs1 ++ xs2) =
    match omap2 f l1 xs1, omap2 f l2 xs2 with Some a, Some b => Some (a ++ b) | _, _ => None end.
  Proof.
    induction l1 as [|e r IH]; intros [|x xs1] xs2 H; cbn in H; try discriminate.
    - cbn. destruct (omap2 f l2 xs2); reflexivity.
    - cbn. rewrite IH by lia. destruct (f e x); [|reflexivity].
      destruct (omap2 f r xs1); [|reflexivity]. destruct (omap2 f l2 xs2); reflexivity.
  Qed.
  Lemma omap2_length (f : A -> pt B -> option (pt B)) l : forall xs ys,
    omap2 f l xs = Some ys -> List.length ys = List.length l /\ List.length xs = List.length l.
  Proof.
    induction l as [|e r IH]; intros [|x xs] ys H; cbn in H; try discriminate.
    - inversion H; auto.
    - destruct (f e x); [|discriminate]. destruct (omap2 f r xs) as [ys'|] eqn:E; [|discriminate].
      inversion H; subst. destruct (IH _ _ E). cbn. lia.
  Qed.
  Lemma omapl_app (f : A -> option (pt B)) l1 l2 :
    omapl f (l1 ++ l2) = match omapl f l1, omapl f l2 with Some a, Some b => Some (a ++ b) | _, _ => None end.
  Proof.
    induction l1 as [|e r IH]; cbn.
    - destruct (omapl f l2); reflexivity.
    - rewrite IH. destruct (f e); [|reflexivity]. destruct (omapl f r); [|reflexivity]. destruct (omapl f l2); reflexivity.
  Qed.
  Lemma omapl_length (f : A -> option (pt B)) l : forall ys, omapl f l = Some ys -> List.length ys = List.length l.
  Proof.
    induction l as [|e r IH]; intros ys H; cbn in H.
    - inversion H; reflexivity.
    - destruct (f e); [|discriminate]. destruct (omapl f r) as [ys'|]; [|discriminate].
      inversion H; subst. cbn. now rewrite (IH _ eq_refl).
  Qed.

  (* splitting along a prefix and flattening *)
  Lemma flatten_split td : forall (x : pt B) xs, split_prefix td x = Some xs ->
    flatten x = List.concat (map (@flatten B) xs).
  Proof.
    induction td as [u|k cs IH] using pt_ind'; intros x xs H.
    - cbn in H. inversion H; subst. cbn. now rewrite app_nil_r.
    - cbn [split_prefix] in H. destruct x as [a|k' xs0]; [discriminate|].
      destruct (ckind_eqb k k'); [|discriminate]. cbn [flatten].
      revert xs0 xs H. induction IH as [|c cs' Hc _ IHl]; intros xs0 xs H.
      + destruct xs0; [|discriminate]. cbn in H. inversion H; reflexivity.
      + destruct xs0 as [|x0 xs1]; [discriminate|]. cbn [split_list] in H.
        destruct (split_prefix c x0) as [a|] eqn:Ea; [|discriminate].
        destruct (split_list (@split_prefix B) cs' xs1) as [b|] eqn:Eb; [|discriminate].
        inversion H; subst xs. cbn [flat_map]. rewrite map_app, concat_app.
        rewrite (Hc _ _ Ea), (IHl _ _ Eb). reflexivity.
  Qed.
End TreeMaps.

Section TreeMapsOp.
  Variable K : Type.
  Notation op := (op K).
  Notation value := (value K).

  (* jax.tree.map(f, blocks, x) = unflatten(treedef, [f(b, x_b) for the blocks in leaf order]) *)
  Lemma tmap2_flat (f : op -> value -> option value) (c : container K) : forall (d x : value),
    tmap2 f c x =
    obind (split_prefix (shape_of c) x) (fun xs => option_map (build d (shape_of c)) (omap2 f (flatten c) xs)).
  Proof.
    induction c as [e|k cs IH] using pt_ind'; intros d x.
    - cbn. destruct (f e x); reflexivity.
    - destruct x as [a|k' xs]; [reflexivity|]. cbn [tmap2 shape_of pmap split_prefix flatten].
      destruct (ckind_eqb k k'); [|reflexivity].
      assert (Hl : forall xs,
        (fix go (cs : list (container K)) (xs : list value) : option (list value) :=
           match cs, xs with
           | [], [] => Some []
           | c :: cs', x :: xs' =>
               match tmap2 f c x, go cs' xs' with
               | Some y, Some ys => Some (y :: ys)
               | _, _ => None
               end
           | _, _ => None
           end) cs xs =
        obind (split_list (@split_prefix (list K)) (map (pmap (fun _ => tt)) cs) xs) (fun xss =>
          option_map (fun ys => fst (build_list (build_aux d) (map (pmap (fun _ => tt)) cs) ys))
            (omap2 f (flat_map flatten cs) xss))).
      { clear xs. induction IH as [|c cs' Hc _ IHl]; intros [|x0 xs']; try reflexivity.
        cbn [map split_list flat_map]. rewrite (Hc d x0), IHl. fold (shape_of c).
        destruct (split_prefix (shape_of c) x0) as [a|] eqn:Ea; cbn [obind]; [|reflexivity].
        destruct (split_list (@split_prefix (list K)) (map (pmap (fun _ => tt)) cs') xs') as [b|] eqn:Eb; cbn [obind].
        2:{ destruct (option_map _ _); reflexivity. }
        assert (Hla : List.length (flatten c) = List.length a).
        { rewrite (split_length _ _ Ea). symmetry. apply nleaves_shape_of. }
        unfold Denote.value in *. rewrite (omap2_app op (list K) f (flatten c) (flat_map flatten cs') a b Hla).
        destruct (omap2 f (flatten c) a) as [ya|] eqn:Eya; cbn [option_map]; [|reflexivity].
        destruct (omap2 f (flat_map flatten cs') b) as [yb|]; cbn [option_map]; [|reflexivity].
        cbn [build_list]. rewrite build_aux_app.
        - destruct (build_list (build_aux d) (map (pmap (fun _ => tt)) cs') yb). reflexivity.
        - destruct (omap2_length _ _ _ _ _ _ Eya) as [H1 _]. rewrite H1. symmetry. apply nleaves_shape_of. }
      rewrite Hl. destruct (split_list _ _ xs) as [xss|]; cbn [obind]; [|reflexivity].
      destruct (omap2 f (flat_map flatten cs) xss) as [ys|]; cbn [option_map]; [|reflexivity].
      f_equal. symmetry. apply build_node.
  Qed.

  (* jax.tree.map(f, blocks) *)
  Lemma tmap1_flat (f : op -> option value) (c : container K) : forall (d : value),
    tmap1 f c = option_map (build d (shape_of c)) (omapl f (flatten c)).
  Proof.
    induction c as [e|k cs IH] using pt_ind'; intros d.
    - cbn. destruct (f e); reflexivity.
    - cbn [tmap1 shape_of pmap flatten].
      assert (Hl :
        (fix go (cs : list (container K)) : option (list value) :=
           match cs with
           | [] => Some []
           | c :: cs' => match tmap1 f c, go cs' with
                         | Some y, Some ys => Some (y :: ys)
                         | _, _ => None
                         end
           end) cs =
        option_map (fun ys => fst (build_list (build_aux d) (map (pmap (fun _ => tt)) cs) ys))
          (omapl f (flat_map flatten cs))).
      { induction IH as [|c cs' Hc _ IHl]; [reflexivity|].
        cbn [map flat_map]. rewrite (Hc d), IHl. unfold Denote.value in *.
        rewrite (omapl_app op (list K) f (flatten c) (flat_map flatten cs')). fold (shape_of c).
        destruct (omapl f (flatten c)) as [ya|] eqn:Eya; cbn [option_map]; [|reflexivity].
        destruct (omapl f (flat_map flatten cs')) as [yb|]; cbn [option_map]; [|reflexivity].
        cbn [build_list]. rewrite build_aux_app.
        - destruct (build_list (build_aux d) (map (pmap (fun _ => tt)) cs') yb). reflexivity.
        - rewrite (omapl_length _ _ _ _ _ Eya). symmetry. apply nleaves_shape_of. }
      rewrite Hl. destruct (omapl f (flat_map flatten cs)) as [ys|]; cbn [option_map]; [|reflexivity].
      f_equal. symmetry. apply build_node.
  Qed.

  Lemma combine_app X Y (l1 l2 : list X) (a b : list Y) : List.length l1 = List.length a ->
    combine (l1 ++ l2) (a ++ b) = combine l1 a ++ combine l2 b.
  Proof.
    revert a. induction l1 as [|x r IH]; intros [|y a] H; cbn in H; try discriminate; [reflexivity|].
    cbn. f_equal. apply IH. lia.
  Qed.

  (* the (block, sub-tree of x) pairs in leaf order *)
  Lemma tzip_flat (c : container K) : forall x : value,
    tzip c x = option_map (combine (flatten c)) (split_prefix (shape_of c) x).
  Proof.
    induction c as [e|k cs IH] using pt_ind'; intros x; [reflexivity|].
    destruct x as [a|k' xs]; [reflexivity|]. cbn [tzip shape_of pmap split_prefix flatten].
    destruct (ckind_eqb k k'); [|reflexivity].
    revert xs. induction IH as [|c cs' Hc _ IHl]; intros [|x0 xs']; try reflexivity.
    cbn [map split_list flat_map]. rewrite (Hc x0), IHl. fold (shape_of c).
    destruct (split_prefix (shape_of c) x0) as [a|] eqn:Ea; cbn [option_map]; [|reflexivity].
    destruct (split_list (@split_prefix (list K)) (map (pmap (fun _ => tt)) cs') xs') as [b|]; cbn [option_map]; [|reflexivity].
    rewrite combine_app; [reflexivity|].
    rewrite (split_length _ _ Ea). symmetry. apply nleaves_shape_of.
  Qed.

  Lemma omapl_combine (f : op -> value -> option value) l : forall xs, List.length l = List.length xs ->
    omapl (fun p => f (fst p) (snd p)) (combine l xs) = omap2 f l xs.
  Proof.
    induction l as [|e r IH]; intros [|x xs] H; cbn in H; try discriminate; [reflexivity|].
    cbn. rewrite IH by lia. reflexivity.
  Qed.

  (* every (td, l) with as many blocks as leaves is the flattening of a container *)
  Lemma container_exists : forall td (l : list op), List.length l = nleaves td ->
    exists c : container K, shape_of c = td /\ flatten c = l.
  Proof.
    unfold nleaves. induction td as [[]|k cs IH] using pt_ind'; intros l H.
    - destruct l as [|e [|? ?]]; try discriminate. exists (Leaf e). auto.
    - cbn [flatten] in H.
      assert (Hl : forall l, List.length l = List.length (flat_map flatten cs) ->
                exists ccs : list (container K), map (@shape_of op) ccs = cs /\ flat_map flatten ccs = l).
      { clear l H. induction IH as [|c cs' Hc _ IHl]; intros l H.
        - destruct l; [|discriminate]. exists []. auto.
        - cbn [flat_map] in H. rewrite app_length in H.
          destruct (Hc (firstn (List.length (flatten c)) l)) as (c0 & H1 & H2); [rewrite firstn_length; lia|].
          destruct (IHl (skipn (List.length (flatten c)) l)) as (cc & H3 & H4); [rewrite skipn_length; lia|].
          exists (c0 :: cc). cbn. rewrite H1, H2, H3, H4. split; [reflexivity|apply firstn_skipn]. }
      destruct (Hl l H) as (ccs & H1 & H2). exists (Node k ccs). split; [|exact H2].
      unfold shape_of in *. cbn. f_equal. exact H1.
  Qed.
End TreeMapsOp.

Section BlocksL.
  Variable K : Type.
  Variables (k0 k1 : K) (kadd kmul ksub : K -> K -> K) (kopp : K -> K) (kinv : K -> K).
  Hypothesis Kth : ring_theory k0 k1 kadd kmul ksub kopp (@eq K).
  Add Ring Kring10 : Kth.
  Variable keqb : K -> K -> bool.
  Hypothesis keqb_eq : forall a b, keqb a b = true -> a = b.
  Notation op := (op K).
  Notation value := (value K).
  Variable leafsem : op -> value -> option value.
  Notation denote := (denote kadd kmul leafsem).
  Notation chain := (chain kadd kmul leafsem).
  Notation vsum := (vsum kadd).
  Notation vadd := (vadd kadd).
  Notation chain_le := (chain_le kadd kmul leafsem).
  Notation den_le := (den_le kadd kmul leafsem).
  Notation matmul := (matmul keqb kmul).
  Notation block_rule := (block_rule keqb kmul).
  Notation apply_rule := (apply_rule keqb kmul).
  Notation guard_ok := (guard_ok keqb).
  Notation binv := (binv k1 kmul keqb kinv).
  Notation inverse := (inverse keqb k1 kmul kinv).
  Notation reduce := (reduce keqb k1 kmul).

  Lemma bind_ok A B (r : result A) (f : A -> result B) b :
    bind r f = Ok b -> exists a, r = Ok a /\ f a = Ok b.
  Proof. destruct r; cbn; [eauto|discriminate]. Qed.


  (* ---------- matrix-free specifications, for any container ---------- *)
  Lemma block_of_len (c : container K) :
    negb (Nat.eqb (List.length (flatten c)) (nleaves (shape_of c))) = false.
  Proof. rewrite nleaves_shape_of, Nat.eqb_refl. reflexivity. Qed.

  Theorem blockdiag_spec i (c : container K) x :
    denote (block_of i BDiag c) x = tmap2 denote c x.
  Proof.
    unfold block_of. rewrite denote_block, block_of_len, (tmap2_flat K denote c x x). reflexivity.
  Qed.
  Theorem blockcol_spec i (c : container K) x :
    denote (block_of i BCol c) x = tmap1 (fun e => denote e x) c.
  Proof.
    unfold block_of. rewrite denote_block, block_of_len, (tmap1_flat K (fun e => denote e x) c x). reflexivity.
  Qed.
  (* the sum, over the blocks in pytree-leaf order, of block(x_block) - arity one included *)
  Theorem blockrow_spec i (c : container K) x :
    denote (block_of i BRow c) x =
    obind (tzip c x) (fun ps => obind (omapl (fun p => denote (fst p) (snd p)) ps) vsum).
  Proof.
    unfold block_of. rewrite denote_block, block_of_len, tzip_flat.
    destruct (split_prefix (shape_of c) x) as [xs|] eqn:E; cbn [obind option_map]; [|reflexivity].
    rewrite omapl_combine; [reflexivity|].
    transitivity (nleaves (shape_of c)); [symmetry; apply nleaves_shape_of|symmetry; exact (split_length _ _ E)].
  Qed.
  Theorem blockrow_single_bare i e x : denote (block_of i BRow (Leaf e)) x = denote e x.
  Proof. rewrite blockrow_spec. cbn. destruct (denote e x); reflexivity. Qed.
  Theorem blockrow_single i k e x : denote (block_of i BRow (Node k [Leaf e])) (Node k [x]) = denote e x.
  Proof. rewrite blockrow_spec. cbn. rewrite ckind_eqb_refl. cbn. destruct (denote e x); reflexivity. Qed.
  Theorem block_term_is_container i b td (l : list op) : List.length l = nleaves td ->
    exists c : container K, Block i b td l = block_of i b c.
  Proof. intros H. destruct (container_exists K td l H) as (c & <- & <-). exists c. reflexivity. Qed.

  (* ---------- the four block rules ---------- *)
  Section Rules.
    Variable rr : op -> result op.

    (* NoReduction exactly when the two containers differ as trees (fix b6d3122) *)
    Theorem block_rules_fire_iff_same_treedef reduced il bl tdl ll ir br tdr lr :
      block_rule rr reduced (Block il bl tdl ll) (Block ir br tdr lr) = Ok None <-> tdl <> tdr.
    Proof.
      unfold Algebra.block_rule. destruct (pt_eqb (fun _ _ : unit => true) tdl tdr) eqn:E; cbn [negb].
      - apply (pt_eqb_eq _ (@unit_eqb_eq)) in E. split; [|congruence].
        intros H. exfalso.
        destruct (mapM2 matmul ll lr) as [prods|]; cbn [bind] in H; [|discriminate].
        match type of H with bind ?r _ = _ => destruct r end; cbn [bind] in H; [|discriminate].
        match type of H with bind ?r _ = _ => destruct r end; cbn [bind] in H; discriminate.
      - split; [|reflexivity]. intros _ ->. rewrite pt_eqb_refl in E; [discriminate|reflexivity].
    Qed.

    (* when it fires, it returns ONE operator: the reduced block operator of the pairwise products,
       or - row times column - the reduced SUM of the pairwise products *)
    Theorem block_rule_result reduced il bl td ll ir br lr new :
      block_rule rr reduced (Block il bl td ll) (Block ir br td lr) = Ok (Some new) ->
      exists prods built red,
        mapM2 matmul ll lr = Ok prods /\
        match reduced with
        | Some b => mk_block b td prods = Ok built
        | None => prods <> [] /\ built = AddOp fresh prods
        end /\
        rr built = Ok red /\ new = [red].
    Proof.
      unfold Algebra.block_rule. rewrite pt_eqb_refl by reflexivity. cbn [negb]. intros H.
      apply bind_ok in H as (prods & Hp & H). apply bind_ok in H as (built & Hb & H).
      apply bind_ok in H as (red & Hr & H). inversion H; subst new.
      exists prods, built, red. repeat split; auto.
      destruct reduced; [exact Hb|]. destruct prods; [discriminate|]. inversion Hb. split; [discriminate|reflexivity].
    Qed.

    Hypothesis LF : leaf_facts K kadd kmul leafsem.
    Hypothesis Hrr : forall e e', rr e = Ok e' -> den_le e e'.

    Theorem block_rules_sound ru l r new :
      In ru [RRowDiag; RDiagCol; RDiagDiag; RRowCol] ->
      guard_ok (guard_of ru) l r = true ->
      apply_rule rr ru l r = Ok (Some new) ->
      forall x y1 y, denote r x = Some y1 -> denote l y1 = Some y -> chain new x = Some y.
    Proof.
      intros _ Hg Ha x y1 y H1 H2.
      apply (rule_sound K k0 k1 kadd kmul ksub kopp Kth keqb keqb_eq leafsem LF rr Hrr ru l r new Hg Ha).
      unfold Denote.chain; cbn. rewrite H1. exact H2.
    Qed.

    Lemma mapM2_len A B C (f : A -> B -> result C) l l' r : mapM2 f l l' = Ok r ->
      List.length l = List.length l' /\ List.length r = List.length l.
    Proof.
      revert l' r. induction l as [|a l IH]; intros [|b l'] r H; cbn in H; try discriminate.
      - inversion H; auto.
      - apply bind_ok in H as (c & Hc & H). apply bind_ok in H as (cs & Hcs & H). inversion H; subst.
        destruct (IH _ _ Hcs). cbn. lia.
    Qed.

    (* BlockRow @ BlockColumn: the SUM over the blocks of the block-wise products *)
    Theorem row_col_is_sum il td ll ir lr new :
      block_rule rr None (Block il BRow td ll) (Block ir BCol td lr) = Ok (Some new) ->
      exists prods red, new = [red] /\ mapM2 matmul ll lr = Ok prods /\ rr (AddOp fresh prods) = Ok red /\
        forall x ys zs y,
          omapl (fun e => denote e x) lr = Some ys ->     (* every column block applied to x *)
          omap2 denote ll ys = Some zs ->                  (* row block i applied to the i-th result *)
          vsum zs = Some y -> denote red x = Some y.
    Proof.
      intros H. destruct (block_rule_result None _ _ _ _ _ _ _ _ H) as (prods & built & red & Hp & (Hne & ->) & Hr & ->).
      exists prods, red. repeat split; auto. intros x ys zs y Hys Hzs Hy.
      apply (Hrr _ _ Hr). rewrite denote_add.
      destruct (mapM2_matmul K k0 k1 kadd kmul ksub kopp Kth keqb keqb_eq leafsem LF _ _ _ Hp) as (HF & Hlen & _).
      rewrite (products_apply_col K kadd kmul leafsem _ _ _ HF Hlen x ys zs Hys Hzs). exact Hy.
    Qed.
  End Rules.

  (* ---------- BlockDiagonalOperator.inverse ---------- *)
  Lemma binv_go fuel order (l : list op) :
    (fix go (l : list op) : result (list op) :=
       match l with
       | [] => Ok []
       | x :: xs => y <- binv fuel order x ;; ys <- go xs ;; Ok (y :: ys)
       end) l = mapM (binv fuel order) l.
  Proof. induction l as [|a r IH]; [reflexivity|]. cbn [mapM]. now rewrite IH. Qed.

  (* every block square: the block-diagonal operator of the blocks' own inverses *)
  Theorem blockdiag_inverse fuel order i td l :
    forallb (@is_square K) l = true ->
    binv fuel order (Block i BDiag td l) = (l' <- mapM (binv fuel order) l ;; Ok (Block fresh BDiag td l')).
  Proof. intros H. cbn [BlockMat.binv]. rewrite H, binv_go. reflexivity. Qed.

  (* otherwise the default: InverseOperator(self) - refused unless the whole operator is square *)
  Theorem blockdiag_inverse_default fuel order i td l :
    forallb (@is_square K) l = false ->
    binv fuel order (Block i BDiag td l) =
    if negb (is_square (Block i BDiag td l)) then Err ValueError
    else (r <- reduce fuel order (Block i BDiag td l) ;; Ok (Wrap fresh WInverse r)).
  Proof. intros H. cbn [BlockMat.binv]. rewrite H. unfold Algebra.inverse. rewrite H. reflexivity. Qed.

  Theorem binv_not_blockdiag fuel order e :
    (forall i td l, e <> Block i BDiag td l) -> binv fuel order e = inverse fuel order e.
  Proof. intros H. destruct e as [| | | | | |i [] td l]; try reflexivity. exfalso. eapply H; reflexivity. Qed.

  (* block-wise inverses invert the block-diagonal operator *)
  Lemma omap2_inverse (l l' : list op) :
    Forall2 (fun b b' => forall x y, denote b x = Some y -> denote b' y = Some x) l l' ->
    forall xs ys, omap2 denote l xs = Some ys -> omap2 denote l' ys = Some xs.
  Proof.
    induction 1 as [|b b' r r' Hb _ IH]; intros [|x xs] ys H; cbn in H; try discriminate.
    - inversion H; reflexivity.
    - destruct (denote b x) as [y|] eqn:E; [|discriminate].
      destruct (omap2 denote r xs) as [ys'|] eqn:E2; [|discriminate]. inversion H; subst ys.
      cbn. rewrite (Hb _ _ E), (IH _ _ E2). reflexivity.
  Qed.
  Lemma omap2_len (f : op -> value -> option value) l : forall xs ys,
    omap2 f l xs = Some ys -> List.length ys = List.length l /\ List.length xs = List.length l.
  Proof.
    induction l as [|e r IH]; intros [|x xs] ys H; cbn in H; try discriminate.
    - inversion H; auto.
    - destruct (f e x); [|discriminate]. destruct (omap2 f r xs) as [ys'|] eqn:E; [|discriminate].
      inversion H; subst. destruct (IH _ _ E). cbn. lia.
  Qed.

  Theorem blockdiag_inverse_sound i i' td l l' :
    Forall2 (fun b b' => forall x y, denote b x = Some y -> denote b' y = Some x) l l' ->
    forall x y, denote (Block i BDiag td l) x = Some y -> denote (Block i' BDiag td l') y = Some x.
  Proof.
    intros HF x y H. rewrite denote_block in *.
    assert (Hlen : List.length l' = List.length l) by (clear - HF; induction HF; cbn; congruence).
    rewrite Hlen. destruct (negb (Nat.eqb (List.length l) (nleaves td))) eqn:El; [discriminate|].
    apply negb_false_iff, Nat.eqb_eq in El.
    destruct (split_prefix td x) as [xs|] eqn:Ex; [|discriminate]. cbn [obind] in H.
    unfold denote_list in *. destruct (omap2 denote l xs) as [ys|] eqn:Ey; [|discriminate].
    cbn in H. inversion H; subst y. destruct (omap2_len _ _ _ _ Ey) as [Hy _].
    rewrite split_build by exact (eq_trans Hy El). cbn [obind]. rewrite (omap2_inverse _ _ HF _ _ Ey). cbn. f_equal.
    rewrite (build_dflt_irrelevant x) by (rewrite (split_length _ _ Ex); apply Nat.le_refl).
    apply build_split. exact Ex.
  Qed.
End BlocksL.

(* ---------- sequences of .T / .I on block-diagonal operators; lazy wrappers as blocks ---------- *)
Section StepsL.
  Variable K : Type.
  Variables (k1 : K) (kmul : K -> K -> K) (kinv : K -> K).
  Variable keqb : K -> K -> bool.
  Notation op := (op K).
  Notation binv := (binv k1 kmul keqb kinv).
  Notation inverse := (inverse keqb k1 kmul kinv).
  Notation reduce := (reduce keqb k1 kmul).
  Notation steps := (steps k1 kmul keqb kinv).
  Notation square_along := (square_along k1 kmul keqb kinv).

  Theorem lazy_transpose_inverse fuel order i x e' :
    binv fuel order (Wrap i WTranspose x) = Ok e' ->
    is_square (Wrap i WTranspose x) = true /\
    exists r, reduce fuel order (Wrap i WTranspose x) = Ok r /\ e' = Wrap fresh WInverse r.
  Proof.
    cbn [BlockMat.binv]. unfold Algebra.inverse. cbn [wcls isinst existsb subclass].
    replace (isinst CTranspose [CAbstractLazyInverse]) with false by reflexivity.
    destruct (is_square (Wrap i WTranspose x)) eqn:Es; cbn [negb]; [|discriminate].
    intros H. split; [reflexivity|].
    destruct (reduce fuel order (Wrap i WTranspose x)) as [r|er] eqn:Er; cbn in H; [|discriminate].
    exists r. split; [reflexivity|]. now inversion H.
  Qed.

  Theorem lazy_inverse_inverse fuel order i w x :
    isinst (wcls w) [CAbstractLazyInverse] = true -> binv fuel order (Wrap i w x) = Ok x.
  Proof. intros H. cbn [BlockMat.binv]. unfold Algebra.inverse. now rewrite H. Qed.

  Lemma mapM_ok A (l : list A) : mapM (@Ok A) l = Ok l.
  Proof. induction l as [|a r IH]; [reflexivity|]. cbn. now rewrite IH. Qed.
  Lemma mapM_map A B C (g : A -> B) (f : B -> result C) l : mapM f (map g l) = mapM (fun a => f (g a)) l.
  Proof. induction l as [|a r IH]; [reflexivity|]. cbn. now rewrite IH. Qed.
  Lemma mapM_bind_ok A B C (f : A -> result B) (g : B -> result C) l : forall l',
    mapM (fun a => b <- f a ;; g b) l = Ok l' <-> exists m, mapM f l = Ok m /\ mapM g m = Ok l'.
  Proof.
    induction l as [|a r IH]; intros l'; cbn.
    - split; [intros H; exists []; now split|intros (m & Hm & H); inversion Hm; subst; exact H].
    - destruct (f a) as [b|e]; cbn.
      2:{ split; [discriminate|intros (m & Hm & _); discriminate]. }
      destruct (g b) as [c|e] eqn:Eg; cbn.
      2:{ split; [discriminate|]. intros (m & Hm & H). destruct (mapM f r); cbn in Hm; [|discriminate].
          inversion Hm; subst. cbn in H. rewrite Eg in H. discriminate. }
      destruct (mapM (fun a0 => b0 <- f a0 ;; g b0) r) as [cs|e] eqn:Er; cbn.
      + destruct (proj1 (IH cs) eq_refl) as (m & Hm & Hg). rewrite Hm. cbn. split.
        * intros H. exists (b :: m). split; [reflexivity|]. cbn. rewrite Eg, Hg. exact H.
        * intros (m' & Hm' & H). inversion Hm'; subst. cbn in H. rewrite Eg, Hg in H. exact H.
      + split; [discriminate|]. intros (m & Hm & H). destruct (mapM f r) as [m0|]; cbn in Hm; [|discriminate].
        inversion Hm; subst. cbn in H. rewrite Eg in H. cbn in H.
        destruct (mapM g m0) as [cs|] eqn:Eg0; cbn in H; [|discriminate].
        assert (Hx : Err e = Ok cs) by (apply (proj2 (IH cs)); exists m0; now split).
        discriminate.
  Qed.

  (* any sequence of .T / .I on a block-diagonal operator is taken block by block, in the same container, as long as
     the blocks met by an inverse are square *)
  Theorem blockdiag_steps fuel order s : forall i td l e',
    square_along fuel order s l ->
    (steps fuel order s (Block i BDiag td l) = Ok e' <->
     exists l', mapM (steps fuel order s) l = Ok l' /\ e' = Block (oid_after s i) BDiag td l').
  Proof.
    induction s as [|[|] r IH]; intros i td l e' Hsq.
    - cbn [steps oid_after]. rewrite mapM_ok. split.
      + intros H; inversion H; subst. now exists l.
      + intros (l' & Hl & ->). now inversion Hl.
    - cbn [steps transpose]. cbn [square_along] in Hsq. rewrite (IH fresh td (map (@transpose K) l) e' Hsq).
      rewrite mapM_map. destruct r; reflexivity.
    - cbn [steps]. destruct Hsq as [Hs Hn]. rewrite (blockdiag_inverse K k1 kmul kinv keqb fuel order i td l Hs).
      split.
      + intros H. destruct (mapM (binv fuel order) l) as [m|] eqn:Em; cbn in H; [|discriminate].
        apply (IH fresh td m e' (Hn m eq_refl)) in H as (l' & Hl & ->).
        exists l'. split; [|destruct r; reflexivity]. apply mapM_bind_ok. now exists m.
      + intros (l' & Hl & ->). apply mapM_bind_ok in Hl as (m & Hm & Hl). rewrite Hm. cbn.
        apply (IH fresh td m _ (Hn m Hm)). exists l'. split; [exact Hl|destruct r; reflexivity].
  Qed.
End StepsL.

(* ---------- values of a given structure, split along a container ---------- *)
Section HasS.
  Variable K : Type.
  Notation value := (value K).
  Notation hasS := (@hasS K).

  Lemma hasS_split td : forall (x : value) (s : struct) ss,
    hasS x s = true -> split_prefix td s = Some ss ->
    exists xs, split_prefix td x = Some xs /\ Forall2 (fun x s => hasS x s = true) xs ss.
  Proof.
    induction td as [u|k cs IH] using pt_ind'; intros x s ss Hx Hs.
    - cbn in Hs. inversion Hs; subst. exists [x]. split; [reflexivity|]. constructor; auto.
    - cbn [split_prefix] in Hs. destruct s as [sd|k' ss0]; [discriminate|].
      destruct (ckind_eqb k k') eqn:Ek; [|discriminate]. apply ckind_eqb_eq in Ek; subst k'.
      destruct x as [d|kx xs0]; [discriminate|]. cbn [BlockMat.hasS] in Hx.
      apply andb_true_iff in Hx as [Hk Hx]. apply ckind_eqb_eq in Hk; subst kx.
      cbn [split_prefix]. rewrite ckind_eqb_refl.
      revert xs0 ss0 ss Hx Hs. induction IH as [|c cs' Hc _ IHl]; intros xs0 ss0 ss Hx Hs.
      + destruct ss0; [|discriminate]. destruct xs0; [|discriminate]. cbn in Hs. inversion Hs; subst.
        exists []. split; [reflexivity|constructor].
      + destruct ss0 as [|s0 ss1]; [discriminate|]. destruct xs0 as [|x0 xs1]; [discriminate|].
        apply andb_true_iff in Hx as [Hx0 Hx1]. cbn [split_list] in Hs.
        destruct (split_prefix c s0) as [a|] eqn:Ea; [|discriminate].
        destruct (split_list (@split_prefix sds) cs' ss1) as [b|] eqn:Eb; [|discriminate].
        inversion Hs; subst ss.
        destruct (Hc _ _ _ Hx0 Ea) as (xa & Hxa & Fa). destruct (IHl _ _ _ Hx1 Eb) as (xb & Hxb & Fb).
        exists (xa ++ xb). cbn [split_list]. rewrite Hxa, Hxb. split; [reflexivity|]. now apply Forall2_app.
  Qed.

  Lemma app_eq_len X (a a' b b' : list X) : a' ++ b' = a ++ b -> List.length a' = List.length a -> a' = a /\ b' = b.
  Proof.
    revert a. induction a' as [|x r IH]; intros [|y a] H Hl; cbn in *; try discriminate; [auto|].
    inversion H; subst. destruct (IH a H2 ltac:(lia)) as [-> ->]. auto.
  Qed.

  Lemma F2_len X Y (R : X -> Y -> Prop) l l' : Forall2 R l l' -> List.length l = List.length l'.
  Proof. induction 1; cbn; congruence. Qed.

  Lemma hasS_join td : forall (x : value) (s : struct) xs ss,
    split_prefix td x = Some xs -> split_prefix td s = Some ss ->
    Forall2 (fun x s => hasS x s = true) xs ss -> hasS x s = true.
  Proof.
    induction td as [u|k cs IH] using pt_ind'; intros x s xs ss Hx Hs HF.
    - cbn in Hx, Hs. inversion Hx; inversion Hs; subst. inversion HF; subst. assumption.
    - cbn [split_prefix] in Hx, Hs. destruct s as [sd|k' ss0]; [discriminate|].
      destruct (ckind_eqb k k') eqn:Ek; [|discriminate]. apply ckind_eqb_eq in Ek; subst k'.
      destruct x as [d|kx xs0]; [discriminate|].
      destruct (ckind_eqb k kx) eqn:Ek; [|discriminate]. apply ckind_eqb_eq in Ek; subst kx.
      cbn [BlockMat.hasS]. rewrite ckind_eqb_refl. cbn [andb].
      revert xs0 ss0 xs ss Hx Hs HF. induction IH as [|c cs' Hc _ IHl]; intros xs0 ss0 xs ss Hx Hs HF.
      + destruct ss0; [|discriminate]. destruct xs0; [|discriminate]. reflexivity.
      + destruct ss0 as [|s0 ss1]; [discriminate|]. destruct xs0 as [|x0 xs1]; [discriminate|].
        cbn [split_list] in Hx, Hs.
        destruct (split_prefix c s0) as [a|] eqn:Ea; [|discriminate].
        destruct (split_list (@split_prefix sds) cs' ss1) as [b|] eqn:Eb; [|discriminate].
        destruct (split_prefix c x0) as [xa|] eqn:Exa; [|discriminate].
        destruct (split_list (@split_prefix (list K)) cs' xs1) as [xb|] eqn:Exb; [|discriminate].
        inversion Hx; inversion Hs; subst xs ss.
        assert (Hlen : List.length xa = List.length a).
        { rewrite (split_length _ _ Exa), (split_length _ _ Ea). reflexivity. }
        apply Forall2_app_inv_l in HF as (a' & b' & Fa & Fb & Heq).
        assert (a' = a /\ b' = b) as [-> ->].
        { apply app_eq_len; [symmetry; exact Heq|]. rewrite <- (F2_len _ _ _ _ _ Fa). exact Hlen. }
        rewrite (Hc _ _ _ _ Exa Ea Fa). cbn [andb]. eapply IHl; eauto.
  Qed.
End HasS.

Section MatForms.
  Variable K : Type.
  Variables (k0 k1 : K) (kadd kmul ksub : K -> K -> K) (kopp : K -> K).
  Hypothesis Kth : ring_theory k0 k1 kadd kmul ksub kopp (@eq K).
  Add Ring KringM : Kth.
  Notation op := (op K).
  Notation value := (value K).
  Variable leafsem : op -> value -> option value.
  Notation denote := (denote kadd kmul leafsem).
  Notation dotk := (dotk k0 kadd kmul).
  Notation mv := (mv k0 kadd kmul).
  Notation zeros := (zeros k0).
  Notation block_diag := (block_diag k0).
  Notation acts_as := (acts_as k0 kadd kmul).
  Notation vadd := (vadd kadd).
  Notation vsum := (vsum kadd).
  Notation hasS := (@hasS K).
  Notation vflat := (@vflat K).
  Notation matrix := (matrix K).
  Notation hstack2 := (@hstack2 K).
  Definition zipadd (u v : list K) : list K := map (fun p => kadd (fst p) (snd p)) (combine u v).
  Definition sumn (l : list nat) : nat := fold_right Nat.add 0 l.

  (* --- dot products and matrix-vector products --- *)
  Lemma dotk_cons a u b v : dotk (a :: u) (b :: v) = kadd (kmul a b) (dotk u v).
  Proof. reflexivity. Qed.
  Lemma dotk_app u1 : forall v1 u2 v2, List.length u1 = List.length v1 ->
    dotk (u1 ++ u2) (v1 ++ v2) = kadd (dotk u1 v1) (dotk u2 v2).
  Proof.
    induction u1 as [|a u1 IH]; intros [|b v1] u2 v2 H; cbn in H; try discriminate.
    - cbn [app]. change (dotk [] []) with k0. ring.
    - cbn [app]. rewrite !dotk_cons, IH by lia. ring.
  Qed.
  Lemma dotk_zeros_l n : forall v, dotk (zeros n) v = k0.
  Proof.
    induction n as [|n IH]; intros [|b v]; try reflexivity.
    change (zeros (S n)) with (k0 :: zeros n). rewrite dotk_cons, IH. ring.
  Qed.
  Lemma zeros_length n : List.length (zeros n) = n.
  Proof. apply repeat_length. Qed.

  Lemma zipadd_app u1 : forall v1 u2 v2, List.length u1 = List.length v1 ->
    zipadd (u1 ++ u2) (v1 ++ v2) = zipadd u1 v1 ++ zipadd u2 v2.
  Proof. intros v1 u2 v2 H. unfold zipadd. rewrite combine_app by exact H. apply map_app. Qed.
  Lemma zipadd_length u v : List.length u = List.length v -> List.length (zipadd u v) = List.length u.
  Proof. intros H. unfold zipadd. rewrite map_length, combine_length. lia. Qed.

  Lemma mv_length (M : matrix) v : List.length (mv M v) = List.length M.
  Proof. apply map_length. Qed.
  Lemma mv_hstack2 (A : matrix) : forall (B : matrix) u v,
    Forall (fun row => List.length row = List.length u) A -> List.length A = List.length B ->
    mv (hstack2 A B) (u ++ v) = zipadd (mv A u) (mv B v).
  Proof.
    induction A as [|ra A IH]; intros [|rb B] u v HF Hl; cbn in Hl; try discriminate; [reflexivity|].
    inversion HF as [|? ? Hra HA]; subst.
    change (hstack2 (ra :: A) (rb :: B)) with ((ra ++ rb) :: hstack2 A B).
    change (mv ((ra ++ rb) :: hstack2 A B) (u ++ v)) with (dotk (ra ++ rb) (u ++ v) :: mv (hstack2 A B) (u ++ v)).
    rewrite dotk_app by exact Hra. rewrite IH by (auto; lia). reflexivity.
  Qed.
  Lemma hstack2_rows (A B : matrix) n m :
    Forall (fun row => List.length row = n) A -> Forall (fun row => List.length row = m) B ->
    Forall (fun row => List.length row = n + m) (hstack2 A B).
  Proof.
    revert B. induction A as [|ra A IH]; intros [|rb B] HA HB; try constructor.
    - inversion HA; inversion HB; subst. cbn. now rewrite app_length.
    - inversion HA; inversion HB; subst. now apply IH.
  Qed.
  Lemma hstack2_length (A B : matrix) : List.length A = List.length B -> List.length (hstack2 A B) = List.length A.
  Proof. intros H. unfold hstack2. rewrite map_length, combine_length. lia. Qed.
  Lemma mv_vstack (Ms : list matrix) v : mv (vstack Ms) v = List.concat (map (fun M => mv M v) Ms).
  Proof. unfold vstack, BlockMat.mv. apply concat_map. Qed.

  Definition bd_ok (Mw : matrix * nat) (v : list K) : Prop :=
    List.length v = snd Mw /\ Forall (fun row => List.length row = snd Mw) (fst Mw).
  Lemma mv_block_diag MWs vs : Forall2 bd_ok MWs vs ->
    mv (block_diag MWs) (List.concat vs) = List.concat (map (fun p => mv (fst (fst p)) (snd p)) (combine MWs vs)).
  Proof.
    induction 1 as [|[A wa] v r vr [Hv HA] _ IH]; [reflexivity|]. cbn [fst snd] in *.
    cbn [BlockMat.block_diag List.concat combine map fst snd]. unfold BlockMat.mv at 1. rewrite map_app. f_equal.
    - rewrite map_map. apply map_ext_in. intros row Hr. rewrite Forall_forall in HA.
      rewrite dotk_app by (rewrite (HA row Hr); auto). rewrite dotk_zeros_l. ring.
    - rewrite map_map. fold (mv (block_diag r) (List.concat vr)) in IH. rewrite <- IH.
      unfold BlockMat.mv. apply map_ext. intros row.
      rewrite dotk_app by (rewrite zeros_length; auto). rewrite dotk_zeros_l. ring.
  Qed.
  Lemma block_diag_rows MWs :
    Forall (fun Mw => Forall (fun row => List.length row = snd Mw) (fst Mw)) MWs ->
    Forall (fun row => List.length row = total_width MWs) (block_diag MWs).
  Proof.
    induction 1 as [|[A wa] r HA _ IH]; [constructor|]. cbn [fst snd] in *.
    cbn [BlockMat.block_diag total_width fold_right snd]. apply Forall_app. split; apply Forall_forall; intros row Hr.
    - apply in_map_iff in Hr as (r0 & <- & Hr0). rewrite Forall_forall in HA.
      rewrite app_length, zeros_length, (HA r0 Hr0). reflexivity.
    - apply in_map_iff in Hr as (r0 & <- & Hr0). rewrite Forall_forall in IH.
      rewrite app_length, zeros_length, (IH r0 Hr0). reflexivity.
  Qed.
  Lemma block_diag_length MWs : List.length (block_diag MWs) = sumn (map (fun Mw => List.length (fst Mw)) MWs).
  Proof.
    induction MWs as [|[A wa] r IH]; [reflexivity|]. cbn [BlockMat.block_diag map sumn fold_right fst].
    rewrite app_length, !map_length. fold (sumn (map (fun Mw : matrix * nat => List.length (fst Mw)) r)). now rewrite IH.
  Qed.

  (* --- values: flattening, structure, sums --- *)
  Lemma vflat_leaf u : vflat (Leaf u) = u.
  Proof. unfold BlockMat.vflat. cbn. apply app_nil_r. Qed.
  Lemma concat_concat X (l : list (list (list X))) : List.concat (List.concat l) = List.concat (map (@List.concat X) l).
  Proof. induction l as [|a r IH]; [reflexivity|]. cbn. now rewrite concat_app, IH. Qed.
  Lemma vflat_split td (x : value) xs : split_prefix td x = Some xs -> vflat x = List.concat (map vflat xs).
  Proof.
    intros H. unfold BlockMat.vflat. rewrite (flatten_split _ td x xs H), concat_concat, map_map. reflexivity.
  Qed.
  Lemma vflat_node k (cs : list value) : vflat (Node k cs) = List.concat (map vflat cs).
  Proof. unfold BlockMat.vflat. cbn [flatten]. rewrite flat_map_concat_map, concat_concat, map_map. reflexivity. Qed.

  Lemma struct_size_node k (ss : list struct) : struct_size (Node k ss) = sumn (map struct_size ss).
  Proof.
    unfold struct_size. cbn [flatten]. induction ss as [|s r IH]; [reflexivity|].
    cbn [flat_map map sumn fold_right]. rewrite map_app.
    assert (Hs : forall a b, fold_right Nat.add 0 (a ++ b) = fold_right Nat.add 0 a + fold_right Nat.add 0 b).
    { induction a as [|x a IHa]; intros b; cbn; [reflexivity|]. rewrite IHa. lia. }
    rewrite Hs. unfold sumn in IH. now rewrite IH.
  Qed.
  Lemma struct_size_split td (s : struct) ss : split_prefix td s = Some ss ->
    struct_size s = sumn (map struct_size ss).
  Proof.
    intros H. unfold struct_size. rewrite (flatten_split _ td s ss H).
    clear H. induction ss as [|a r IH]; [reflexivity|]. cbn [map List.concat sumn fold_right]. rewrite map_app.
    assert (Hs : forall a b, fold_right Nat.add 0 (a ++ b) = fold_right Nat.add 0 a + fold_right Nat.add 0 b).
    { induction a0 as [|x a0 IHa]; intros b; cbn; [reflexivity|]. rewrite IHa. lia. }
    rewrite Hs. unfold sumn in IH. now rewrite IH.
  Qed.

  Lemma hasS_vflat_len : forall (x : value) s, hasS x s = true -> List.length (vflat x) = struct_size s.
  Proof.
    induction x as [u|k cs IH] using pt_ind'; intros [sd|k' ss] H; try discriminate.
    - cbn in H. apply Nat.eqb_eq in H. rewrite vflat_leaf. unfold struct_size. cbn. lia.
    - cbn [BlockMat.hasS] in H. apply andb_true_iff in H as [_ H].
      rewrite vflat_node, struct_size_node.
      revert ss H. induction IH as [|c cs' Hc _ IHl]; intros [|s0 ss] H; try discriminate; [reflexivity|].
      apply andb_true_iff in H as [H0 H1]. cbn [map List.concat sumn fold_right]. rewrite app_length.
      rewrite (Hc _ H0). f_equal. apply IHl. exact H1.
  Qed.

  Lemma vadd_flat : forall a b c, vadd a b = Some c ->
    List.length (vflat a) = List.length (vflat b) /\ vflat c = zipadd (vflat a) (vflat b).
  Proof.
    induction a as [u|k cs IH] using pt_ind'; intros [v|k' cs'] c H; cbn [Denote.vadd] in H; try discriminate.
    - destruct (Nat.eqb (List.length u) (List.length v)) eqn:E; [|discriminate]. apply Nat.eqb_eq in E.
      inversion H; subst c. rewrite !vflat_leaf. split; [exact E|reflexivity].
    - destruct (ckind_eqb k k'); [|discriminate].
      match type of H with option_map _ ?G = _ => destruct G as [zs|] eqn:Ez end; [|discriminate].
      cbn in H. inversion H; subst c. clear H. rewrite !vflat_node.
      revert cs' zs Ez. induction IH as [|x xs Hx _ IHl]; intros [|y ys] zs Ez; try discriminate.
      + inversion Ez; subst. split; reflexivity.
      + destruct (vadd x y) as [z|] eqn:Exy; [|discriminate].
        match type of Ez with match ?G with _ => _ end = _ => destruct G as [zs'|] eqn:Ez' end; [|discriminate].
        inversion Ez; subst zs. destruct (Hx _ _ Exy) as [L1 F1]. destruct (IHl _ _ Ez') as [L2 F2].
        cbn [map List.concat]. rewrite !app_length, L1, L2, F1, F2. split; [reflexivity|].
        symmetry. apply zipadd_app. exact L1.
  Qed.

  Lemma vadd_hasS : forall a b s, hasS a s = true -> hasS b s = true ->
    exists c, vadd a b = Some c /\ hasS c s = true.
  Proof.
    induction a as [u|k cs IH] using pt_ind'; intros [v|k' cs'] [sd|ks ss] Ha Hb; try discriminate.
    - cbn in Ha, Hb. apply Nat.eqb_eq in Ha, Hb. cbn [Denote.vadd]. rewrite Ha, Hb, Nat.eqb_refl.
      eexists. split; [reflexivity|]. cbn. rewrite map_length, combine_length, Ha, Hb. rewrite Nat.min_id. apply Nat.eqb_refl.
    - cbn [BlockMat.hasS] in Ha, Hb. apply andb_true_iff in Ha as [Ka Ha]. apply andb_true_iff in Hb as [Kb Hb].
      apply ckind_eqb_eq in Ka, Kb. subst k k'. cbn [Denote.vadd]. rewrite ckind_eqb_refl.
      assert (Hl : exists zs,
        (fix go (l l' : list value) : option (list value) :=
           match l, l' with
           | [], [] => Some []
           | x :: xs, y :: ys => match vadd x y, go xs ys with
                                 | Some z, Some zs => Some (z :: zs)
                                 | _, _ => None
                                 end
           | _, _ => None
           end) cs cs' = Some zs /\
        (fix go (l : list value) (l' : list struct) : bool :=
           match l, l' with
           | [], [] => true
           | a :: r, b :: r' => hasS a b && go r r'
           | _, _ => false
           end) zs ss = true).
      { revert cs' ss Ha Hb. induction IH as [|x xs Hx _ IHl]; intros [|y ys] [|s0 ss] Ha Hb; try discriminate.
        - exists []. auto.
        - apply andb_true_iff in Ha as [Ha0 Ha1]. apply andb_true_iff in Hb as [Hb0 Hb1].
          destruct (Hx _ _ Ha0 Hb0) as (z & Hz & Hzs). destruct (IHl _ _ Ha1 Hb1) as (zs & Hzs1 & Hzs2).
          exists (z :: zs). rewrite Hz, Hzs1. split; [reflexivity|]. now rewrite Hzs, Hzs2. }
      destruct Hl as (zs & H1 & H2). rewrite H1. eexists. split; [reflexivity|].
      cbn [BlockMat.hasS]. rewrite ckind_eqb_refl. exact H2.
  Qed.

  Lemma Forall2_map_r X Y Z (R : X -> Z -> Prop) (f : Y -> Z) xs ys :
    Forall2 R xs (map f ys) <-> Forall2 (fun x y => R x (f y)) xs ys.
  Proof.
    revert xs. induction ys as [|y ys IH]; intros xs; split; intros H; inversion H; subst; try constructor; auto.
    - now apply IH.
    - now apply IH.
  Qed.

  Definition fstep := (fun (acc : option value) (z : value) => obind acc (fun a => vadd a z)).

  (* --- block row: hstack --- *)
  Lemma row_fold so : forall (l : list op) (Ms : list matrix),
    Forall2 (fun b M => acts_as (denote b) (in_struct b) so M) l Ms ->
    forall xs, Forall2 (fun x b => hasS x (in_struct b) = true) xs l ->
    forall acc (Macc : matrix) vdone,
      hasS acc so = true -> vflat acc = mv Macc vdone ->
      Forall (fun row => List.length row = List.length vdone) Macc -> List.length Macc = struct_size so ->
      exists ys y, omap2 denote l xs = Some ys /\ fold_left fstep ys (Some acc) = Some y /\ hasS y so = true /\
        vflat y = mv (fold_left hstack2 Ms Macc) (vdone ++ List.concat (map vflat xs)).
  Proof.
    induction 1 as [|b M l Ms Hb _ IH]; intros xs Hxs acc Macc vdone Hacc Hv Hrows Hlen.
    - inversion Hxs; subst. exists [], acc. cbn. rewrite app_nil_r. auto.
    - inversion Hxs as [|x ? xs' ? Hx Hxs']; subst.
      destruct Hb as (HM & HMl & Hact). destruct (Hact x Hx) as (yb & Hyb & Hsb & Hfb).
      destruct (vadd_hasS _ _ _ Hacc Hsb) as (acc' & Hadd & Hacc').
      destruct (vadd_flat _ _ _ Hadd) as [_ Hflat].
      assert (Hv' : vflat acc' = mv (hstack2 Macc M) (vdone ++ vflat x)).
      { rewrite Hflat, Hv, Hfb. symmetry. apply mv_hstack2; [exact Hrows|congruence]. }
      assert (Hrows' : Forall (fun row => List.length row = List.length (vdone ++ vflat x)) (hstack2 Macc M)).
      { rewrite app_length. apply hstack2_rows; [exact Hrows|]. rewrite (hasS_vflat_len _ _ Hx). exact HM. }
      assert (Hlen' : List.length (hstack2 Macc M) = struct_size so) by (rewrite hstack2_length; congruence).
      destruct (IH xs' Hxs' acc' _ _ Hacc' Hv' Hrows' Hlen') as (ys & y & H1 & H2 & H3 & H4).
      exists (yb :: ys), y. cbn [omap2 fold_left]. rewrite Hyb, H1. unfold fstep at 2. cbn [obind]. rewrite Hadd.
      repeat split; auto. cbn [map List.concat fold_left]. rewrite app_assoc. exact H4.
  Qed.
  Lemma row_fold_dims : forall (Ms : list matrix) (ws : list nat) (Macc : matrix) w m,
    Forall2 (fun (M : matrix) wi => Forall (fun row => List.length row = wi) M /\ List.length M = m) Ms ws ->
    Forall (fun row => List.length row = w) Macc -> List.length Macc = m ->
    Forall (fun row => List.length row = w + sumn ws) (fold_left hstack2 Ms Macc) /\
    List.length (fold_left hstack2 Ms Macc) = m.
  Proof.
    intros Ms ws Macc w m H. revert Macc w. induction H as [|M wi Ms ws [HM HMl] _ IH]; intros Macc w Hr Hl.
    - cbn. rewrite Nat.add_0_r. auto.
    - cbn [fold_left sumn fold_right]. rewrite Nat.add_assoc. apply IH.
      + now apply hstack2_rows.
      + rewrite hstack2_length; congruence.
  Qed.

  Lemma in_struct_block i b td (l : list op) :
    in_struct (Block i b td l) =
    match b with BCol => hd dummy_struct (map (@in_struct K) l) | _ => build dummy_struct td (map (@in_struct K) l) end.
  Proof. destruct b; reflexivity. Qed.
  Lemma out_struct_block i b td (l : list op) :
    out_struct (Block i b td l) =
    match b with BRow => hd dummy_struct (map (@out_struct K) l) | _ => build dummy_struct td (map (@out_struct K) l) end.
  Proof. destruct b; reflexivity. Qed.

  Theorem blockrow_matrix i td (l : list op) (Ms : list matrix) so :
    List.length l = nleaves td -> l <> [] ->
    Forall2 (fun b M => acts_as (denote b) (in_struct b) so M) l Ms ->
    acts_as (denote (Block i BRow td l)) (in_struct (Block i BRow td l)) so (hstack Ms).
  Proof.
    intros Hlen Hne HF. rewrite in_struct_block.
    set (ins := map (@in_struct K) l). set (si := build dummy_struct td ins).
    assert (Hsplit : split_prefix td si = Some ins) by (apply split_build; unfold ins; now rewrite map_length).
    destruct HF as [|b0 M0 l' Ms' Hb0 HF']; [congruence|]. cbn [hstack].
    pose proof Hb0 as (HM0 & HM0l & Hact0).
    assert (Hdims : Forall2 (fun (M : matrix) wi => Forall (fun row => List.length row = wi) M /\ List.length M = struct_size so)
                      Ms' (map (fun b => struct_size (in_struct b)) l')).
    { clear - HF'. induction HF' as [|b M l Ms (H1 & H2 & _) _ IH]; constructor; auto. }
    destruct (row_fold_dims _ _ M0 _ _ Hdims HM0 HM0l) as [Hrows Hl].
    repeat split.
    - rewrite (struct_size_split td si ins Hsplit). unfold ins. cbn [map sumn fold_right].
      rewrite map_map. exact Hrows.
    - exact Hl.
    - intros x Hx. destruct (hasS_split K td x si ins Hx Hsplit) as (xs & Hxs & HFx).
      unfold ins in HFx. apply Forall2_map_r in HFx. inversion HFx as [|x0 ? xs' ? Hx0 HFx']; subst.
      destruct (Hact0 x0 Hx0) as (y0 & Hy0 & Hs0 & Hf0).
      destruct (row_fold so l' Ms' HF' xs' HFx' y0 M0 (vflat x0) Hs0 Hf0) as (ys & y & H1 & H2 & H3 & H4).
      { rewrite (hasS_vflat_len _ _ Hx0). exact HM0. } { exact HM0l. }
      exists y. rewrite denote_block, Hlen, Nat.eqb_refl. cbn [negb]. rewrite Hxs. cbn [obind].
      unfold denote_list. cbn [omap2]. rewrite Hy0, H1. cbn [obind Denote.vsum]. split; [exact H2|]. split; [exact H3|].
      rewrite (vflat_split td x _ Hxs). exact H4.
  Qed.

  (* --- block column: vstack --- *)
  Lemma col_map si : forall (l : list op) (Ms : list matrix),
    Forall2 (fun b M => acts_as (denote b) si (out_struct b) M) l Ms ->
    forall x, hasS x si = true ->
    exists ys, omapl (fun e => denote e x) l = Some ys /\
      Forall2 (fun y b => hasS y (out_struct b) = true) ys l /\
      List.concat (map vflat ys) = List.concat (map (fun M => mv M (vflat x)) Ms).
  Proof.
    induction 1 as [|b M l Ms (_ & _ & Hact) _ IH]; intros x Hx.
    - exists []. repeat split; constructor.
    - destruct (Hact x Hx) as (y & Hy & Hs & Hf). destruct (IH x Hx) as (ys & H1 & H2 & H3).
      exists (y :: ys). cbn [omapl map List.concat]. rewrite Hy, H1, Hf, H3. repeat split; auto.
  Qed.

  Theorem blockcol_matrix i td (l : list op) (Ms : list matrix) si :
    List.length l = nleaves td ->
    Forall2 (fun b M => acts_as (denote b) si (out_struct b) M) l Ms ->
    acts_as (denote (Block i BCol td l)) si (out_struct (Block i BCol td l)) (vstack Ms).
  Proof.
    intros Hlen HF. rewrite out_struct_block.
    set (outs := map (@out_struct K) l). set (so := build dummy_struct td outs).
    assert (Hsplit : split_prefix td so = Some outs) by (apply split_build; unfold outs; now rewrite map_length).
    repeat split.
    - unfold vstack. clear - HF. induction HF as [|b M l Ms (H1 & _) _ IH]; [constructor|].
      cbn [List.concat]. apply Forall_app. auto.
    - rewrite (struct_size_split td so outs Hsplit). unfold vstack, outs. clear - HF.
      induction HF as [|b M l Ms (_ & H2 & _) _ IH]; [reflexivity|].
      cbn [List.concat map sumn fold_right]. rewrite app_length, H2. f_equal. exact IH.
    - intros x Hx. destruct (col_map si l Ms HF x Hx) as (ys & H1 & H2 & H3).
      assert (Hyl : List.length ys = nleaves td).
      { exact (eq_trans (omapl_length _ _ _ _ _ H1) Hlen). }
      exists (build x td ys). rewrite denote_block, Hlen, Nat.eqb_refl. cbn [negb]. rewrite H1. cbn [option_map].
      split; [reflexivity|]. split.
      + eapply (hasS_join K td); [apply split_build; exact Hyl|exact Hsplit|].
        unfold outs. apply Forall2_map_r. exact H2.
      + rewrite (vflat_split td _ ys (split_build x td ys Hyl)), mv_vstack. exact H3.
  Qed.

  (* --- block diagonal: block_diag --- *)
  Lemma diag_map : forall (l : list op) (Ms : list matrix),
    Forall2 (fun b M => acts_as (denote b) (in_struct b) (out_struct b) M) l Ms ->
    forall xs, Forall2 (fun x b => hasS x (in_struct b) = true) xs l ->
    exists ys, omap2 denote l xs = Some ys /\
      Forall2 (fun y b => hasS y (out_struct b) = true) ys l /\
      List.concat (map vflat ys) =
      mv (block_diag (combine Ms (map (fun b => struct_size (in_struct b)) l))) (List.concat (map vflat xs)).
  Proof.
    intros l Ms HF xs Hxs.
    assert (Hbd : Forall2 bd_ok (combine Ms (map (fun b => struct_size (in_struct b)) l)) (map vflat xs)).
    { revert xs Hxs. induction HF as [|b M l Ms (H1 & _ & _) _ IH]; intros xs Hxs; inversion Hxs; subst; [constructor|].
      cbn [map combine]. constructor; [|now apply IH]. split; cbn [fst snd]; [now apply hasS_vflat_len|exact H1]. }
    rewrite (mv_block_diag _ _ Hbd). clear Hbd.
    revert xs Hxs. induction HF as [|b M l Ms (_ & _ & Hact) _ IH]; intros xs Hxs; inversion Hxs as [|x ? xs' ? Hx Hxs']; subst.
    - exists []. repeat split; constructor.
    - destruct (Hact x Hx) as (y & Hy & Hs & Hf). destruct (IH xs' Hxs') as (ys & H1 & H2 & H3).
      exists (y :: ys). cbn [omap2 map List.concat combine fst snd]. rewrite Hy, H1, Hf, H3. repeat split; auto.
  Qed.

  Theorem blockdiag_matrix i td (l : list op) (Ms : list matrix) :
    List.length l = nleaves td ->
    Forall2 (fun b M => acts_as (denote b) (in_struct b) (out_struct b) M) l Ms ->
    acts_as (denote (Block i BDiag td l)) (in_struct (Block i BDiag td l)) (out_struct (Block i BDiag td l))
      (block_diag (combine Ms (map (fun b => struct_size (in_struct b)) l))).
  Proof.
    intros Hlen HF. rewrite in_struct_block, out_struct_block.
    set (ins := map (@in_struct K) l). set (outs := map (@out_struct K) l).
    set (si := build dummy_struct td ins). set (so := build dummy_struct td outs).
    assert (Hsi : split_prefix td si = Some ins) by (apply split_build; unfold ins; now rewrite map_length).
    assert (Hso : split_prefix td so = Some outs) by (apply split_build; unfold outs; now rewrite map_length).
    repeat split.
    - rewrite (struct_size_split td si ins Hsi). unfold ins. rewrite map_map.
      replace (sumn (map (fun x => struct_size (in_struct x)) l))
        with (total_width (combine Ms (map (fun b => struct_size (in_struct b)) l))).
      + apply block_diag_rows. clear - HF. induction HF as [|b M l Ms (H1 & _) _ IH]; constructor; auto.
      + clear - HF. induction HF as [|b M l Ms _ _ IH]; [reflexivity|]. cbn [map combine total_width fold_right snd sumn].
        f_equal. exact IH.
    - rewrite block_diag_length, (struct_size_split td so outs Hso). unfold outs. rewrite map_map. clear - HF.
      induction HF as [|b M l Ms (_ & H2 & _) _ IH]; [reflexivity|]. cbn [map combine sumn fold_right fst]. rewrite H2.
      f_equal. exact IH.
    - intros x Hx. destruct (hasS_split K td x si ins Hx Hsi) as (xs & Hxs & HFx).
      unfold ins in HFx. apply Forall2_map_r in HFx.
      destruct (diag_map l Ms HF xs HFx) as (ys & H1 & H2 & H3).
      assert (Hyl : List.length ys = nleaves td).
      { destruct (omap2_length _ _ _ _ _ _ H1) as [Hy _]. exact (eq_trans Hy Hlen). }
      exists (build x td ys). rewrite denote_block, Hlen, Nat.eqb_refl. cbn [negb]. rewrite Hxs. cbn [obind].
      unfold denote_list. rewrite H1. cbn [option_map]. split; [reflexivity|]. split.
      + eapply (hasS_join K td); [apply split_build; exact Hyl|exact Hso|].
        unfold outs. apply Forall2_map_r. exact H2.
      + rewrite (vflat_split td _ ys (split_build x td ys Hyl)), (vflat_split td x xs Hxs). exact H3.
  Qed.
End MatForms.

(* ---------- adjointness is closed under the block constructions ---------- *)
Section Adjoint.
  Variable K : Type.
  Variables (k0 k1 : K) (kadd kmul ksub : K -> K -> K) (kopp : K -> K).
  Hypothesis Kth : ring_theory k0 k1 kadd kmul ksub kopp (@eq K).
  Add Ring KringA : Kth.
  Notation op := (op K).
  Notation value := (value K).
  Variable leafsem : op -> value -> option value.
  Notation denote := (denote kadd kmul leafsem).
  Notation dotk := (dotk k0 kadd kmul).
  Notation vdot := (vdot k0 kadd kmul).
  Notation sumk := (sumk k0 kadd).
  Notation adjoint_pair := (adjoint_pair k0 kadd kmul).
  Notation vadd := (vadd kadd).
  Notation vsum := (vsum kadd).
  Notation fstep := (fstep K kadd).
  Notation zipadd := (zipadd K kadd).

  Lemma dotk_zipadd u : forall v w, List.length u = List.length v ->
    dotk (zipadd u v) w = kadd (dotk u w) (dotk v w).
  Proof.
    induction u as [|a u IH]; intros [|b v] w H; cbn in H; try discriminate.
    - cbn. ring.
    - destruct w as [|c w]; [cbn; ring|].
      change (zipadd (a :: u) (b :: v)) with (kadd a b :: zipadd u v).
      rewrite !(dotk_cons K k0 kadd kmul), IH by lia. ring.
  Qed.
  Lemma dotk_comm u : forall v, dotk u v = dotk v u.
  Proof.
    induction u as [|a u IH]; intros [|b v]; try reflexivity.
    rewrite !(dotk_cons K k0 kadd kmul), IH. ring.
  Qed.
  Lemma sumk_app l1 l2 : sumk (l1 ++ l2) = kadd (sumk l1) (sumk l2).
  Proof. unfold BlockMat.sumk. induction l1 as [|a r IH]; cbn [app fold_right]; [ring|]. rewrite IH. ring. Qed.

  Lemma vdot_comm : forall a b, vdot a b = vdot b a.
  Proof.
    induction a as [u|k cs IH] using pt_ind'; intros [v|k' cs']; try reflexivity.
    - cbn. apply dotk_comm.
    - cbn [BlockMat.vdot]. revert cs'. induction IH as [|x xs Hx _ IHl]; intros [|y ys]; try reflexivity.
      rewrite Hx, IHl. reflexivity.
  Qed.

  Lemma vdot_vadd_l : forall a b c, vadd a b = Some c -> forall y, vdot c y = kadd (vdot a y) (vdot b y).
  Proof.
    induction a as [u|k cs IH] using pt_ind'; intros [v|k' cs'] c H y; cbn [Denote.vadd] in H; try discriminate.
    - destruct (Nat.eqb (List.length u) (List.length v)) eqn:E; [|discriminate]. apply Nat.eqb_eq in E.
      inversion H; subst c. destruct y as [w|ky ws]; cbn [BlockMat.vdot]; [|ring].
      apply (dotk_zipadd u v w E).
    - destruct (ckind_eqb k k'); [|discriminate].
      match type of H with option_map _ ?G = _ => destruct G as [zs|] eqn:Ez end; [|discriminate].
      cbn in H. inversion H; subst c. clear H. destruct y as [w|ky ws]; cbn [BlockMat.vdot]; [ring|].
      revert cs' zs ws Ez. induction IH as [|x xs Hx _ IHl]; intros [|y' ys] zs ws Ez; try discriminate.
      + inversion Ez; subst. ring.
      + destruct (vadd x y') as [z|] eqn:Exy; [|discriminate].
        match type of Ez with match ?G with _ => _ end = _ => destruct G as [zs'|] eqn:Ez' end; [|discriminate].
        inversion Ez; subst zs. destruct ws as [|w ws']; [ring|].
        rewrite (Hx _ _ Exy w), (IHl _ _ ws' Ez'). ring.
  Qed.

  Lemma fold_fstep_none ys : fold_left fstep ys None = None.
  Proof. induction ys; cbn; auto. Qed.
  Lemma vdot_fold ys : forall acc y, fold_left fstep ys (Some acc) = Some y ->
    forall t, vdot y t = kadd (vdot acc t) (sumk (map (fun z => vdot z t) ys)).
  Proof.
    induction ys as [|z ys IH]; intros acc y H t.
    - cbn in H. inversion H; subst. cbn. ring.
    - cbn [fold_left] in H. unfold BlocksL.fstep at 2 in H. cbn [obind] in H.
      destruct (vadd acc z) as [acc'|] eqn:E; [|rewrite fold_fstep_none in H; discriminate].
      rewrite (IH _ _ H t), (vdot_vadd_l _ _ _ E t). cbn [map]. unfold BlockMat.sumk. cbn [fold_right]. ring.
  Qed.
  Lemma vdot_vsum ys y : vsum ys = Some y -> forall t, vdot y t = sumk (map (fun z => vdot z t) ys).
  Proof.
    destruct ys as [|y0 r]; [discriminate|]. cbn [Denote.vsum]. intros H t.
    rewrite (vdot_fold r y0 y H t). reflexivity.
  Qed.

  Lemma vdot_split td : forall (x x' : value) xs xs',
    split_prefix td x = Some xs -> split_prefix td x' = Some xs' ->
    vdot x x' = sumk (map (fun p => vdot (fst p) (snd p)) (combine xs xs')).
  Proof.
    induction td as [u|k cs IH] using pt_ind'; intros x x' xs xs' H H'.
    - cbn in H, H'. inversion H; inversion H'; subst. cbn. ring.
    - cbn [split_prefix] in H, H'. destruct x as [a|k1' cs1]; [discriminate|]. destruct x' as [a|k2' cs2]; [discriminate|].
      destruct (ckind_eqb k k1'); [|discriminate]. destruct (ckind_eqb k k2'); [|discriminate].
      cbn [BlockMat.vdot].
      revert cs1 cs2 xs xs' H H'. induction IH as [|c cs' Hc _ IHl]; intros cs1 cs2 xs xs' H H'.
      + destruct cs1; [|discriminate]. destruct cs2; [|discriminate]. inversion H; inversion H'; subst. reflexivity.
      + destruct cs1 as [|x1 cs1]; [discriminate|]. destruct cs2 as [|x2 cs2]; [discriminate|].
        cbn [split_list] in H, H'.
        destruct (split_prefix c x1) as [a|] eqn:Ea; [|discriminate].
        destruct (split_list (@split_prefix (list K)) cs' cs1) as [b|] eqn:Eb; [|discriminate].
        destruct (split_prefix c x2) as [a'|] eqn:Ea'; [|discriminate].
        destruct (split_list (@split_prefix (list K)) cs' cs2) as [b'|] eqn:Eb'; [|discriminate].
        inversion H; inversion H'; subst xs xs'.
        rewrite combine_app by (rewrite (split_length _ _ Ea), (split_length _ _ Ea'); reflexivity).
        rewrite map_app, sumk_app, (Hc _ _ _ _ Ea Ea'), (IHl _ _ _ _ Eb Eb'). reflexivity.
  Qed.

  Lemma adjoint_sym f g : adjoint_pair f g -> adjoint_pair g f.
  Proof. intros H y x gy fx Hg Hf. rewrite (vdot_comm gy x), (vdot_comm y fx). symmetry. eapply H; eauto. Qed.

  Lemma F2_flip X Y (R : X -> Y -> Prop) l l' : Forall2 R l l' -> Forall2 (fun y x => R x y) l' l.
  Proof. induction 1; constructor; auto. Qed.

  Theorem blockrow_col_adjoint i i' td (l l' : list op) :
    Forall2 (fun b b' => adjoint_pair (denote b) (denote b')) l l' ->
    adjoint_pair (denote (Block i BRow td l)) (denote (Block i' BCol td l')).
  Proof.
    intros HF x y fx gy Hf Hg. rewrite denote_block in Hf, Hg.
    destruct (negb (Nat.eqb (List.length l) (nleaves td))) eqn:El; [discriminate|].
    destruct (negb (Nat.eqb (List.length l') (nleaves td))) eqn:El'; [discriminate|].
    apply negb_false_iff, Nat.eqb_eq in El, El'.
    destruct (split_prefix td x) as [xs|] eqn:Ex; [|discriminate]. cbn [obind] in Hf.
    unfold denote_list in Hf. destruct (omap2 denote l xs) as [ys|] eqn:Ey; [|discriminate]. cbn [obind] in Hf.
    destruct (omapl (fun e => denote e y) l') as [gys|] eqn:Eg; [|discriminate]. cbn in Hg. inversion Hg; subst gy.
    rewrite (vdot_vsum ys fx Hf y).
    rewrite (vdot_split td x (build y td gys) xs gys Ex).
    2:{ apply split_build. exact (eq_trans (omapl_length _ _ _ _ _ Eg) El'). }
    f_equal. clear - HF Ey Eg. revert xs ys gys Ey Eg.
    induction HF as [|b b' l l' Hb _ IH]; intros [|x0 xs] ys gys Ey Eg; cbn in Ey, Eg; try discriminate.
    - inversion Ey; inversion Eg; subst. reflexivity.
    - destruct (denote b x0) as [y0|] eqn:E0; [|discriminate].
      destruct (omap2 denote l xs) as [ys'|] eqn:E1; [|discriminate].
      destruct (denote b' y) as [g0|] eqn:E2; [|discriminate].
      destruct (omapl (fun e => denote e y) l') as [gys'|] eqn:E3; [|discriminate].
      inversion Ey; inversion Eg; subst. cbn [map combine fst snd]. rewrite (Hb _ _ _ _ E0 E2), (IH _ _ _ E1 eq_refl). reflexivity.
  Qed.

  Theorem blockcol_row_adjoint i i' td (l l' : list op) :
    Forall2 (fun b b' => adjoint_pair (denote b) (denote b')) l l' ->
    adjoint_pair (denote (Block i BCol td l)) (denote (Block i' BRow td l')).
  Proof.
    intros HF. apply adjoint_sym. apply blockrow_col_adjoint.
    induction HF as [|a b l l' H _ IH]; [constructor|constructor; [apply adjoint_sym; exact H|exact IH]].
  Qed.

  Theorem blockdiag_adjoint i i' td (l l' : list op) :
    Forall2 (fun b b' => adjoint_pair (denote b) (denote b')) l l' ->
    adjoint_pair (denote (Block i BDiag td l)) (denote (Block i' BDiag td l')).
  Proof.
    intros HF x y fx gy Hf Hg. rewrite denote_block in Hf, Hg.
    destruct (negb (Nat.eqb (List.length l) (nleaves td))) eqn:El; [discriminate|].
    destruct (negb (Nat.eqb (List.length l') (nleaves td))) eqn:El'; [discriminate|].
    apply negb_false_iff, Nat.eqb_eq in El, El'.
    destruct (split_prefix td x) as [xs|] eqn:Ex; [|discriminate]. cbn [obind] in Hf.
    destruct (split_prefix td y) as [ws|] eqn:Ew; [|discriminate]. cbn [obind] in Hg.
    unfold denote_list in Hf, Hg.
    destruct (omap2 denote l xs) as [ys|] eqn:Ey; [|discriminate]. cbn in Hf. inversion Hf; subst fx.
    destruct (omap2 denote l' ws) as [gws|] eqn:Eg; [|discriminate]. cbn in Hg. inversion Hg; subst gy.
    destruct (omap2_length _ _ _ _ _ _ Ey) as [Hy _]. destruct (omap2_length _ _ _ _ _ _ Eg) as [Hgw _].
    rewrite (vdot_split td (build x td ys) y ys ws (split_build x td ys (eq_trans Hy El)) Ew).
    rewrite (vdot_split td x (build y td gws) xs gws Ex (split_build y td gws (eq_trans Hgw El'))).
    f_equal. clear - HF Ey Eg. revert xs ys ws gws Ey Eg.
    induction HF as [|b b' l l' Hb _ IH]; intros [|x0 xs] ys [|w0 ws] gws Ey Eg; cbn in Ey, Eg; try discriminate.
    - inversion Ey; inversion Eg; subst. reflexivity.
    - destruct (denote b x0) as [y0|] eqn:E0; [|discriminate].
      destruct (omap2 denote l xs) as [ys'|] eqn:E1; [|discriminate].
      destruct (denote b' w0) as [g0|] eqn:E2; [|discriminate].
      destruct (omap2 denote l' ws) as [gws'|] eqn:E3; [|discriminate].
      inversion Ey; inversion Eg; subst. cbn [map combine fst snd]. rewrite (Hb _ _ _ _ E0 E2), (IH _ _ _ _ E1 E3). reflexivity.
  Qed.

  (* if every block's transpose() is its adjoint, so is the block operator's *)
  Theorem block_transpose_adjoint i b td (l : list op) :
    Forall (fun x => adjoint_pair (denote x) (denote (transpose x))) l ->
    adjoint_pair (denote (Block i b td l)) (denote (transpose (Block i b td l))).
  Proof.
    intros HF. rewrite block_transposes.
    assert (H2 : Forall2 (fun x x' => adjoint_pair (denote x) (denote x')) l (map (@transpose K) l)).
    { induction HF; constructor; auto. }
    destruct b; cbn [tkind].
    - now apply blockrow_col_adjoint.
    - now apply blockdiag_adjoint.
    - now apply blockcol_row_adjoint.
  Qed.
End Adjoint.

(* ---------- the matrix of `acts_as` is the one read off basis vectors ---------- *)
Section Columns.
  Variable K : Type.
  Variables (k0 k1 : K) (kadd kmul ksub : K -> K -> K) (kopp : K -> K).
  Hypothesis Kth : ring_theory k0 k1 kadd kmul ksub kopp (@eq K).
  Add Ring KringC : Kth.
  Notation value := (value K).
  Notation dotk := (dotk k0 kadd kmul).
  Notation mv := (mv k0 kadd kmul).
  Notation acts_as := (acts_as k0 kadd kmul).
  Notation hasS := (@hasS K).
  Notation vflat := (@vflat K).
  Notation unflat := (@unflat K).
  Notation basisk := (basisk k0 k1).

  Lemma firstn_add X (v : list X) a : forall b, firstn (a + b) v = firstn a v ++ firstn b (skipn a v).
  Proof. revert v. induction a as [|a IH]; intros [|x v] b; cbn; try reflexivity; [now rewrite firstn_nil|]. now rewrite IH. Qed.
  Lemma skipn_add X (v : list X) a : forall b, skipn (a + b) v = skipn b (skipn a v).
  Proof. revert v. induction a as [|a IH]; intros [|x v] b; cbn; try reflexivity; [now rewrite skipn_nil|]. apply IH. Qed.

  Lemma unflat_ok : forall (s : struct) (v : list K), struct_size s <= List.length v ->
    hasS (fst (unflat s v)) s = true /\ vflat (fst (unflat s v)) = firstn (struct_size s) v /\
    snd (unflat s v) = skipn (struct_size s) v.
  Proof.
    induction s as [sd|k ss IH] using pt_ind'; intros v Hv.
    - assert (Hs : struct_size (Leaf sd) = leaf_size sd) by (unfold struct_size; cbn; lia).
      rewrite Hs in *. cbn [BlockMat.unflat fst snd BlockMat.hasS]. rewrite (vflat_leaf K), firstn_length_le by exact Hv.
      rewrite Nat.eqb_refl. auto.
    - rewrite (struct_size_node k ss) in *. cbn [BlockMat.unflat].
      assert (Hl : forall v, sumn (map struct_size ss) <= List.length v ->
        let r := (fix go (ss : list struct) (v : list K) : list value * list K :=
             match ss with
             | [] => ([], v)
             | s :: ss' => let '(c, r1) := unflat s v in let '(cs, r2) := go ss' r1 in (c :: cs, r2)
             end) ss v in
        (fix go (l : list value) (l' : list struct) : bool :=
           match l, l' with
           | [], [] => true
           | a :: r, b :: r' => hasS a b && go r r'
           | _, _ => false
           end) (fst r) ss = true /\
        List.concat (map vflat (fst r)) = firstn (sumn (map struct_size ss)) v /\
        snd r = skipn (sumn (map struct_size ss)) v).
      { clear v Hv. induction IH as [|s ss' Hs _ IHl]; intros v Hv.
        - cbn. auto.
        - cbn [map sumn fold_right] in Hv |- *. fold (sumn (map struct_size ss')) in *.
          destruct (Hs v ltac:(lia)) as (H1 & H2 & H3).
          destruct (unflat s v) as [c r1]. cbn [fst snd] in *. subst r1.
          destruct (IHl (skipn (struct_size s) v) ltac:(rewrite skipn_length; lia)) as (H4 & H5 & H6).
          match goal with |- context [let '(cs, r2) := ?G in _] => destruct G as [cs r2] end.
          cbn [fst snd] in *. rewrite H1, H4. cbn [map List.concat]. rewrite H2, H5, H6, firstn_add, skipn_add. auto. }
      specialize (Hl v Hv). cbn zeta in Hl.
      match goal with |- context [let '(cs, r) := ?G in _] => destruct G as [cs r] end.
      cbn [fst snd] in *. destruct Hl as (H1 & H2 & H3). cbn [BlockMat.hasS]. rewrite ckind_eqb_refl, H1.
      rewrite (vflat_node K). auto.
  Qed.

  Lemma dotk_basis_gen (row : list K) : forall a j,
    dotk row (map (fun i => if Nat.eqb i j then k1 else k0) (seq a (List.length row))) =
    if (a <=? j) && (j <? a + List.length row) then nth (j - a) row k0 else k0.
  Proof.
    induction row as [|r0 row IH]; intros a j.
    - destruct ((a <=? j) && (j <? a + List.length (@nil K))); [destruct (j - a)|]; reflexivity.
    - cbn [List.length seq map]. rewrite (dotk_cons K k0 kadd kmul), IH.
      destruct (Nat.eqb a j) eqn:Eaj.
      + apply Nat.eqb_eq in Eaj; subst j.
        replace (S a <=? a) with false by (symmetry; apply Nat.leb_gt; lia). cbn [andb].
        replace (a <=? a) with true by (symmetry; apply Nat.leb_le; lia).
        replace (a <? a + S (List.length row)) with true by (symmetry; apply Nat.ltb_lt; lia).
        cbn [andb]. rewrite Nat.sub_diag. cbn. ring.
      + apply Nat.eqb_neq in Eaj.
        destruct (a <=? j) eqn:E1; cbn [andb].
        * apply Nat.leb_le in E1. replace (S a <=? j) with true by (symmetry; apply Nat.leb_le; lia). cbn [andb].
          replace (j <? a + S (List.length row)) with (j <? S a + List.length row)
            by (f_equal; lia).
          destruct (j <? S a + List.length row); [|ring].
          replace (j - a) with (S (j - S a)) by lia. cbn [nth]. ring.
        * apply Nat.leb_gt in E1. replace (S a <=? j) with false by (symmetry; apply Nat.leb_gt; lia). cbn [andb]. ring.
  Qed.
  Lemma dotk_basis (row : list K) n j : List.length row = n -> j < n -> dotk row (basisk n j) = nth j row k0.
  Proof.
    intros <- Hj. unfold BlockMat.basisk. rewrite dotk_basis_gen. cbn [Nat.leb andb Nat.add].
    replace (j <? List.length row) with true by (symmetry; apply Nat.ltb_lt; exact Hj). now rewrite Nat.sub_0_r.
  Qed.
  Lemma basisk_length n j : List.length (basisk n j) = n.
  Proof. unfold BlockMat.basisk. now rewrite map_length, seq_length. Qed.

  Lemma omapl_all X Y (g : X -> option Y) (h : X -> Y) l :
    (forall j, In j l -> g j = Some (h j)) -> omapl g l = Some (map h l).
  Proof.
    induction l as [|a r IH]; intros H; [reflexivity|]. cbn. rewrite (H a (or_introl eq_refl)), IH; [reflexivity|].
    intros j Hj. apply H. now right.
  Qed.

  (* the columns AbstractLinearOperator.as_matrix reads off the basis vectors are the columns of M *)
  Theorem acts_as_columns (f : value -> option value) si so (M : matrix K) :
    acts_as f si so M -> columns k0 k1 f si = Some (columns_of k0 (struct_size si) M).
  Proof.
    intros (Hrows & _ & Hact). unfold columns, columns_of. apply omapl_all. intros j Hj.
    apply in_seq in Hj. set (n := struct_size si) in *.
    destruct (unflat_ok si (basisk n j)) as (H1 & H2 & _); [rewrite basisk_length; unfold n; lia|].
    destruct (Hact _ H1) as (y & Hy & _ & Hf). rewrite Hy. cbn [option_map]. f_equal. rewrite Hf, H2.
    rewrite firstn_all2 by (rewrite basisk_length; unfold n; lia).
    unfold BlockMat.mv, column_of. apply map_ext_in. intros row Hr. rewrite Forall_forall in Hrows.
    apply dotk_basis; [apply Hrows; exact Hr|lia].
  Qed.
End Columns.

(* ---------- the dense matrices (columns from basis vectors) of the block operators ---------- *)
Section Dense.
  Variable K : Type.
  Variables (k0 k1 : K) (kadd kmul ksub : K -> K -> K) (kopp : K -> K).
  Hypothesis Kth : ring_theory k0 k1 kadd kmul ksub kopp (@eq K).
  Notation op := (op K).
  Variable leafsem : op -> value K -> option (value K).
  Notation denote := (denote kadd kmul leafsem).
  Notation acts_as := (acts_as k0 kadd kmul).
  Notation gmat := (fun e => columns k0 k1 (denote e) (in_struct e)).

  Theorem blockrow_dense i td (l : list op) (Ms : list (matrix K)) so :
    List.length l = nleaves td -> l <> [] ->
    Forall2 (fun b M => acts_as (denote b) (in_struct b) so M) l Ms ->
    gmat (Block i BRow td l) = Some (columns_of k0 (struct_size (in_struct (Block i BRow td l))) (hstack Ms)).
  Proof.
    intros H1 H2 H3. eapply (acts_as_columns K k0 k1 kadd kmul ksub kopp Kth).
    exact (blockrow_matrix K k0 k1 kadd kmul ksub kopp Kth leafsem i td l Ms so H1 H2 H3).
  Qed.
  Theorem blockdiag_dense i td (l : list op) (Ms : list (matrix K)) :
    List.length l = nleaves td ->
    Forall2 (fun b M => acts_as (denote b) (in_struct b) (out_struct b) M) l Ms ->
    gmat (Block i BDiag td l) =
    Some (columns_of k0 (struct_size (in_struct (Block i BDiag td l)))
            (block_diag k0 (combine Ms (map (fun b => struct_size (in_struct b)) l)))).
  Proof.
    intros H1 H2. eapply (acts_as_columns K k0 k1 kadd kmul ksub kopp Kth).
    exact (blockdiag_matrix K k0 k1 kadd kmul ksub kopp Kth leafsem i td l Ms H1 H2).
  Qed.
  Theorem blockcol_dense i td (l : list op) (Ms : list (matrix K)) :
    List.length l = nleaves td -> l <> [] ->
    Forall2 (fun b M => acts_as (denote b) (in_struct (Block i BCol td l)) (out_struct b) M) l Ms ->
    gmat (Block i BCol td l) = Some (columns_of k0 (struct_size (in_struct (Block i BCol td l))) (vstack Ms)).
  Proof.
    intros H1 _ H2. eapply (acts_as_columns K k0 k1 kadd kmul ksub kopp Kth).
    exact (blockcol_matrix K k0 kadd kmul leafsem i td l Ms _ H1 H2).
  Qed.
End Dense.

From Coq Require Import Qcanon.
From Furax Require Import Model.Exec.
Local Close Scope Q_scope.
Local Close Scope Qc_scope.
Local Open Scope nat_scope.

(* ---------- stage 2: the executable leaf semantics satisfies the hypothesis of the matrix forms ---------- *)
Lemma Qc_ring : ring_theory Exec.k0 Exec.k1 Qcplus Qcmult Qcminus Qcopp (@eq Qc).
Proof. exact Qcrt. Qed.

(* a leaf operator whose action is a measured matrix of the right dimensions acts as that matrix *)
Theorem exec_table_leaf_acts_as (tb : table) i c si so p m :
  let e : xop := Prim i c si so p in
  (i =? 0)%N = false -> lookup tb (2 * i)%N = Some m ->
  Forall (fun row => List.length row = struct_size (in_struct e)) m ->
  List.length m = struct_size (out_struct e) ->
  acts_as Exec.k0 Qcplus Qcmult (Exec.leafsem tb e) (in_struct e) (out_struct e) m.
Proof.
  intros e Hi Hm Hrows Hlen. split; [exact Hrows|]. split; [exact Hlen|]. intros x Hx.
  unfold Exec.leafsem. fold e.
  change (has_struct x (in_struct e)) with (hasS x (in_struct e)). rewrite Hx. cbn [negb].
  unfold e at 1. rewrite Hi, Hm. unfold apply_matrix.
  change (has_struct x (in_struct e)) with (hasS x (in_struct e)). rewrite Hx.
  eexists. split; [reflexivity|].
  assert (Hl : struct_size (out_struct e) <= List.length (matvec m (vflatten x))).
  { unfold matvec. rewrite map_length. lia. }
  destruct (unflat_ok K (out_struct e) (matvec m (vflatten x)) Hl) as (H1 & H2 & _).
  split; [exact H1|]. etransitivity; [exact H2|].
  rewrite firstn_all2 by (unfold matvec; rewrite map_length; lia). reflexivity.
Qed.
