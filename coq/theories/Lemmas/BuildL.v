(* C02: the arithmetic dunders (@, +, -, unary -, scalar * and /) denote the product, sum,
   difference, negation and scalar multiples of their operands; structures of the results;
   rejection of mismatching operands. *)
From Coq Require Import List Bool Arith ZArith NArith QArith String Lia Ring.
From Furax Require Import Base.Pytree Model.Op Model.Algebra Model.Denote Model.Wf Lemmas.DenoteL Lemmas.Sound.
Import ListNotations.
Local Close Scope Q_scope.
Local Open Scope nat_scope.

Section Build.
  Variable K : Type.
  Variables (k0 k1 : K) (kadd kmul ksub : K -> K -> K) (kopp : K -> K) (kinv : K -> K).
  Hypothesis Kth : ring_theory k0 k1 kadd kmul ksub kopp (@eq K).
  Add Ring KringB : Kth.
  Variable keqb : K -> K -> bool.
  Hypothesis keqb_eq : forall a b, keqb a b = true -> a = b.
  Notation op := (op K).
  Notation value := (value K).
  Variable leafsem : op -> value -> option value.
  Hypothesis LF : leaf_facts K kadd kmul leafsem.
  Notation denote := (denote kadd kmul leafsem).
  Notation chain := (chain kadd kmul leafsem).
  Notation vscale := (vscale kmul).
  Notation vadd := (vadd kadd).
  Notation vsum := (vsum kadd).
  Notation chain_le := (chain_le kadd kmul leafsem).
  Notation same := (same keqb).
  Notation matmul := (matmul keqb kmul).
  Notation smul := (smul keqb kmul).
  Notation sdiv := (sdiv keqb kmul kinv).
  Notation neg := (neg keqb k1 kmul kopp).
  Notation sub := (sub keqb k1 kmul kopp).
  Notation add := (@add K).

  (* ---------- pointwise sums of values ---------- *)
  Definition zipadd (u v : list K) : list K := map (fun p => kadd (fst p) (snd p)) (combine u v).
  Lemma zipadd_length u v : List.length u = List.length v -> List.length (zipadd u v) = List.length v.
  Proof. intros H. unfold zipadd. rewrite map_length, combine_length, H. apply Nat.min_id. Qed.
  Lemma zipadd_assoc u : forall v t, List.length u = List.length v -> List.length v = List.length t ->
    zipadd (zipadd u v) t = zipadd u (zipadd v t).
  Proof.
    unfold zipadd. induction u as [|a u IH]; intros [|b v] [|c t]; cbn; try discriminate; auto.
    intros H1 H2. f_equal; [ring|]. apply IH; lia.
  Qed.

  Lemma vadd_leaf u v : vadd (Leaf u) (Leaf v) =
    if Nat.eqb (List.length u) (List.length v) then Some (Leaf (zipadd u v)) else None.
  Proof. reflexivity. Qed.

  (* (a + (z + w)) defined  ->  ((a + z) + w) defined and equal *)
  Lemma vadd_assoc a : forall z w zw y, vadd z w = Some zw -> vadd a zw = Some y ->
    exists az, vadd a z = Some az /\ vadd az w = Some y.
  Proof.
    induction a as [u|kd cs IH] using pt_ind'; intros z w zw y Hzw Hy.
    - destruct zw as [q|? ?]; [|discriminate].
      destruct z as [v|? ?], w as [t|? ?]; try discriminate.
      + rewrite vadd_leaf in Hzw, Hy.
        destruct (Nat.eqb (List.length v) (List.length t)) eqn:E1; [|discriminate].
        inversion Hzw; subst q. apply Nat.eqb_eq in E1.
        rewrite zipadd_length in Hy by assumption.
        destruct (Nat.eqb (List.length u) (List.length t)) eqn:E2; [|discriminate].
        apply Nat.eqb_eq in E2. inversion Hy; subst y.
        exists (Leaf (zipadd u v)). rewrite !vadd_leaf.
        assert (E3 : List.length u = List.length v) by lia.
        rewrite (proj2 (Nat.eqb_eq _ _) E3). split; [reflexivity|].
        rewrite zipadd_length by assumption. rewrite (proj2 (Nat.eqb_eq _ _) E1).
        f_equal. f_equal. apply zipadd_assoc; assumption.
      + cbn in Hzw.
        match type of Hzw with (if ?c then _ else _) = _ => destruct c; [|discriminate] end.
        match type of Hzw with option_map _ ?G = _ => destruct G; discriminate end.
    - destruct zw as [?|kzw czw]; [discriminate|].
      destruct z as [?|kz cz], w as [?|kw cw]; try discriminate.
      { cbn in Hzw. destruct (Nat.eqb _ _); discriminate. }
      cbn [Denote.vadd] in Hzw, Hy |- *.
      destruct (ckind_eqb kz kw) eqn:Ek1; [|discriminate].
      destruct (ckind_eqb kd kzw) eqn:Ek2; [|discriminate].
      apply ckind_eqb_eq in Ek1. apply ckind_eqb_eq in Ek2. subst kw kzw.
      match type of Hzw with option_map _ ?G = _ => destruct G as [lzw|] eqn:Ezw; [|discriminate] end.
      cbn in Hzw. inversion Hzw; subst kd czw. clear Hzw.
      match type of Hy with option_map _ ?G = _ => destruct G as [ly|] eqn:Ey; [|discriminate] end.
      cbn in Hy. inversion Hy; subst y. clear Hy.
      rewrite ckind_eqb_refl.
      assert (Hl : exists laz,
        (fix go (l l' : list value) : option (list value) :=
           match l, l' with
           | [], [] => Some []
           | x :: xs, y :: ys =>
               match Denote.vadd kadd x y, go xs ys with
               | Some z, Some zs => Some (z :: zs)
               | _, _ => None
               end
           | _, _ => None
           end) cs cz = Some laz /\
        (fix go (l l' : list value) : option (list value) :=
           match l, l' with
           | [], [] => Some []
           | x :: xs, y :: ys =>
               match Denote.vadd kadd x y, go xs ys with
               | Some z, Some zs => Some (z :: zs)
               | _, _ => None
               end
           | _, _ => None
           end) laz cw = Some ly).
      { revert cz cw lzw ly Ezw Ey.
        induction IH as [|c r Hc _ IHr]; intros cz cw lzw ly Ezw Ey.
        - destruct lzw; [|discriminate]. inversion Ey; subst ly.
          destruct cz, cw; try discriminate.
          + exists []. split; reflexivity.
          + repeat match type of Ezw with match ?G with _ => _ end = _ => destruct G end; discriminate.
        - destruct lzw as [|zw1 lzw]; [discriminate|].
          destruct cz as [|z1 cz], cw as [|w1 cw]; try discriminate.
          destruct (Denote.vadd kadd z1 w1) as [zw1'|] eqn:E1; [|discriminate].
          match type of Ezw with match ?G with _ => _ end = _ => destruct G as [lzw'|] eqn:E2; [|discriminate] end.
          inversion Ezw; subst zw1' lzw'. clear Ezw.
          destruct (Denote.vadd kadd c zw1) as [y1|] eqn:E3; [|discriminate].
          match type of Ey with match ?G with _ => _ end = _ => destruct G as [ly'|] eqn:E4; [|discriminate] end.
          inversion Ey; subst ly. clear Ey.
          destruct (Hc z1 w1 zw1 y1 E1 E3) as (az1 & Ha1 & Ha2).
          destruct (IHr cz cw lzw ly' E2 E4) as (laz & Hl1 & Hl2).
          exists (az1 :: laz). rewrite Ha1, Hl1, Ha2, Hl2. split; reflexivity. }
      destruct Hl as (laz & Hl1 & Hl2).
      exists (Node kz laz). rewrite Hl1. cbn. split; [reflexivity|].
      rewrite ckind_eqb_refl, Hl2. reflexivity.
  Qed.

  Definition fstep := (fun (acc : option value) (z : value) => obind acc (fun a => vadd a z)).
  Lemma fold_none l : fold_left fstep l None = None.
  Proof. induction l; cbn; auto. Qed.
  Lemma vsum_cons y r : vsum (y :: r) = fold_left fstep r (Some y).
  Proof. reflexivity. Qed.

  Lemma fold_shift a : forall zs z b y,
    fold_left fstep zs (Some z) = Some b -> vadd a b = Some y ->
    fold_left fstep zs (vadd a z) = Some y.
  Proof.
    induction zs as [|w zs IH]; intros z b y Hb Hy; cbn in *.
    - inversion Hb; subst. exact Hy.
    - destruct (vadd z w) as [zw|] eqn:Ezw; [|rewrite fold_none in Hb; discriminate].
      specialize (IH zw b y Hb Hy).
      (* vadd a zw is defined, else the fold is None *)
      destruct (vadd a zw) as [azw|] eqn:Ea; [|rewrite fold_none in IH; discriminate].
      destruct (vadd_assoc a z w zw azw Ezw Ea) as (az & H1 & H2).
      rewrite H1. cbn. rewrite H2. exact IH.
  Qed.

  Lemma vsum_app ys zs a b y : vsum ys = Some a -> vsum zs = Some b -> vadd a b = Some y ->
    vsum (ys ++ zs) = Some y.
  Proof.
    destruct ys as [|y0 ys]; [discriminate|]. destruct zs as [|z zs]; [discriminate|].
    cbn [app]. rewrite !vsum_cons. rewrite fold_left_app. intros Ha Hb Hy. rewrite Ha.
    cbn [fold_left]. change (fstep (Some a) z) with (vadd a z). eapply fold_shift; eauto.
  Qed.

  (* ---------- A + B ---------- *)
  Lemma omapl_app (f : op -> option value) l1 l2 :
    omapl f (l1 ++ l2) = match omapl f l1, omapl f l2 with
                         | Some a, Some b => Some (a ++ b) | _, _ => None end.
  Proof.
    induction l1 as [|e l1 IH]; cbn.
    - destruct (omapl f l2); reflexivity.
    - destruct (f e); [|reflexivity]. rewrite IH. destruct (omapl f l1), (omapl f l2); reflexivity.
  Qed.

  Lemma add_operands_den b x yb : denote b x = Some yb ->
    exists ybs, omapl (fun e => denote e x) (add_operands b) = Some ybs /\ vsum ybs = Some yb.
  Proof.
    destruct b; cbn [add_operands]; intros H;
      try (exists [yb]; cbn [omapl]; rewrite H; split; reflexivity).
    rewrite denote_add in H. destruct (omapl _ l) as [ybs|]; [|discriminate]. exists ybs. split; auto.
  Qed.

  Theorem add_sound a b c : add a b = Ok c ->
    forall x ya yb y, denote a x = Some ya -> denote b x = Some yb -> vadd ya yb = Some y ->
    denote c x = Some y.
  Proof.
    unfold Algebra.add.
    destruct (negb (struct_eqb (in_struct a) (in_struct b))); [discriminate|].
    destruct (negb (struct_eqb (out_struct a) (out_struct b))); [discriminate|].
    intros H x ya yb y Ha Hb Hy.
    assert (Hgen : forall la, omapl (fun e => denote e x) la = None \/
              (exists yas, omapl (fun e => denote e x) la = Some yas) ) by (intros la; destruct (omapl _ la); eauto).
    destruct (add_operands_den b x yb Hb) as (ybs & Hob & Hsb).
    assert (Hsingle : forall e ye, denote e x = Some ye -> omapl (fun e => denote e x) [e] = Some [ye]).
    { intros e ye He. cbn. now rewrite He. }
    assert (Hcase : forall la yas, omapl (fun e => denote e x) la = Some yas -> vsum yas = Some ya ->
              denote (AddOp fresh (la ++ add_operands b)) x = Some y).
    { intros la yas H1 H2. rewrite denote_add, omapl_app, H1, Hob. cbn [obind].
      eapply vsum_app; eauto. }
    destruct a as [ia ca sia soa pa|ia wa ea|ia sa|ia ka sa|ia la|ia la|ia ba tda la].
    6: { (* a is a sum *)
      inversion H; subst c. rewrite denote_add in Ha.
      destruct (omapl _ la) as [yas|] eqn:E; [|discriminate]. eapply Hcase; eauto. }
    all: destruct b as [ib cb sib sob pb|ib wb eb|ib sb|ib kb sb|ib lb|ib lb|ib bb tdb lb];
      inversion H; subst c;
      match goal with
      | |- Denote.denote _ _ _ (AddOp _ (?a :: ?l)) _ = _ =>
          change (a :: l) with ([a] ++ l);
          first [ change l with (add_operands (AddOp ib l)) | change [a; ?b] with ([a] ++ add_operands b) ]
      end.
    all: try (eapply (Hcase [_] [ya]); [apply Hsingle; exact Ha | reflexivity]).
  Qed.

  Lemma matmul_sound_pt a b c : matmul a b = Ok c ->
    forall x y1 y, denote b x = Some y1 -> denote a y1 = Some y -> denote c x = Some y.
  Proof.
    intros H x y1 y H1 H2.
    pose proof (matmul_sound K k0 k1 kadd kmul ksub kopp Kth keqb keqb_eq leafsem LF a b c H x y) as Hs.
    unfold Denote.chain in Hs. cbn [fold_right obind] in Hs. apply Hs. rewrite H1. exact H2.
  Qed.

  (* ---------- k * A, A / k, -A, A - B ---------- *)
  Theorem smul_sound k a c : smul k a = Ok c ->
    forall x y, denote a x = Some y -> denote c x = Some (vscale k y).
  Proof.
    unfold Algebra.smul. intros H x y Ha.
    pose proof (matmul_sound K k0 k1 kadd kmul ksub kopp Kth keqb keqb_eq leafsem LF _ _ _ H) as Hs.
    specialize (Hs x (vscale k y)). unfold Denote.chain in Hs. cbn [fold_right obind] in Hs.
    apply Hs. rewrite Ha. reflexivity.
  Qed.

  Theorem sdiv_sound a k c : sdiv a k = Ok c ->
    forall x y, denote a x = Some y -> denote c x = Some (vscale (kinv k) y).
  Proof. unfold Algebra.sdiv. apply smul_sound. Qed.

  Lemma mapM_smul k l l' : mapM (smul k) l = Ok l' ->
    forall x ys, omapl (fun e => denote e x) l = Some ys ->
    omapl (fun e => denote e x) l' = Some (map (vscale k) ys).
  Proof.
    revert l'. induction l as [|e l IH]; intros l' H x ys Hy; cbn [mapM bind omapl] in *.
    - inversion H; inversion Hy; subst. reflexivity.
    - destruct (smul k e) as [e'|] eqn:Ee; [|discriminate]. cbn [bind] in H.
      destruct (mapM (smul k) l) as [l1|] eqn:El; [|discriminate]. cbn [bind] in H. inversion H; subst l'.
      destruct (denote e x) as [y1|] eqn:E1; [|discriminate].
      destruct (omapl _ l) as [ys1|] eqn:E2; [|discriminate]. inversion Hy; subst ys.
      cbn [omapl map]. rewrite (smul_sound _ _ _ Ee x y1 E1). rewrite (IH l1 eq_refl x ys1 E2). reflexivity.
  Qed.

  Theorem neg_sound a c : neg a = Ok c ->
    forall x y, denote a x = Some y -> denote c x = Some (vscale (kopp k1) y).
  Proof.
    unfold Algebra.neg. destruct a as [ia ca sia soa pa|ia wa ea|ia sa|ia ka sa|ia la|ia la|ia ba tda la];
      try apply smul_sound.
    intros H x y Ha. destruct (mapM _ la) as [l'|] eqn:El; [|discriminate]. cbn in H. inversion H; subst c.
    rewrite denote_add in Ha |- *. destruct (omapl _ la) as [ys|] eqn:Ey; [|discriminate]. cbn in Ha.
    rewrite (mapM_smul _ _ _ El x ys Ey). cbn. rewrite (vsum_vscale Kth). now rewrite Ha.
  Qed.

  Theorem sub_sound a b c : sub a b = Ok c ->
    forall x ya yb y, denote a x = Some ya -> denote b x = Some yb ->
    vadd ya (vscale (kopp k1) yb) = Some y -> denote c x = Some y.
  Proof.
    unfold Algebra.sub.
    destruct (negb (struct_eqb (in_struct a) (in_struct b))); [discriminate|].
    destruct (negb (struct_eqb (out_struct a) (out_struct b))); [discriminate|].
    destruct (neg b) as [nb|] eqn:En; [|discriminate]. cbn. intros H x ya yb y Ha Hb Hy.
    eapply add_sound; eauto. eapply neg_sound; eauto.
  Qed.

  (* ---------- however the product is parenthesised ---------- *)
  Theorem matmul_assoc_sound a b c ab abc bc abc' :
    matmul a b = Ok ab -> matmul ab c = Ok abc -> matmul b c = Ok bc -> matmul a bc = Ok abc' ->
    forall x y, chain [a; b; c] x = Some y -> denote abc x = Some y /\ denote abc' x = Some y.
  Proof.
    intros H1 H2 H3 H4 x y Hc.
    pose proof (matmul_sound K k0 k1 kadd kmul ksub kopp Kth keqb keqb_eq leafsem LF) as MS.
    assert (CS : forall e z, denote e z = chain [e] z) by reflexivity.
    rewrite !CS. clear CS. split.
    - apply (MS _ _ _ H2).
      change [ab; c] with ([ab] ++ [c]). change [a; b; c] with ([a; b] ++ [c]) in Hc.
      revert x y Hc. apply chain_le_app; [apply (MS _ _ _ H1)|apply chain_le_refl].
    - apply (MS _ _ _ H4).
      change [a; bc] with ([a] ++ [bc]). change [a; b; c] with ([a] ++ [b; c]) in Hc.
      revert x y Hc. apply chain_le_app; [apply chain_le_refl|apply (MS _ _ _ H3)].
  Qed.

  (* ---------- structures of the results, rejection of mismatching operands ---------- *)
  Notation wfo := (@wfo K).
  Notation chain_ok := (@chain_ok K).

  Lemma struct_eqb_true a b : struct_eqb a b = true <-> a = b.
  Proof. split; [apply struct_eqb_eq|intros ->; apply struct_eqb_refl]. Qed.

  Fixpoint allwf (l : list op) : bool := match l with [] => true | x :: xs => wfo x && allwf xs end.
  Lemma wfo_comp i l : wfo (Comp i l) = negb (Nat.eqb (List.length l) 0) && chain_ok l && allwf l.
  Proof.
    reflexivity.
  Qed.
  Lemma allwf_app l1 l2 : allwf (l1 ++ l2) = allwf l1 && allwf l2.
  Proof. induction l1; cbn; [reflexivity|]. rewrite IHl1. now rewrite andb_assoc. Qed.

  Lemma in_struct_comp i (l : list op) d : l <> [] -> in_struct (Comp i l) = in_struct (last l d).
  Proof.
    intros Hl. unfold in_struct. cbn [structs fst].
    induction l as [|a l IH]; [congruence|]. destruct l as [|b l]; [reflexivity|].
    cbn [map last] in *. apply IH. discriminate.
  Qed.
  Lemma out_struct_comp i (l : list op) d : l <> [] -> out_struct (Comp i l) = out_struct (hd d l).
  Proof. intros Hl. destruct l; [congruence|reflexivity]. Qed.

  Lemma last_app_nonempty (l1 l2 : list op) d : l2 <> [] -> last (l1 ++ l2) d = last l2 d.
  Proof.
    intros H. induction l1 as [|a l1 IH]; [reflexivity|]. cbn [app].
    destruct (l1 ++ l2) eqn:E; [destruct l1; cbn in E; congruence|]. exact IH.
  Qed.

  Lemma chain_ok_app l1 l2 d : chain_ok l1 = true -> chain_ok l2 = true ->
    (l1 <> [] -> l2 <> [] -> in_struct (last l1 d) = out_struct (hd d l2)) ->
    chain_ok (l1 ++ l2) = true.
  Proof.
    induction l1 as [|a l1 IH]; intros H1 H2 H3; [exact H2|].
    destruct l1 as [|b l1].
    - cbn [app]. destruct l2 as [|c l2]; [reflexivity|].
      change (chain_ok (a :: c :: l2)) with (struct_eqb (in_struct a) (out_struct c) && chain_ok (c :: l2)).
      rewrite H2. rewrite andb_true_r. apply struct_eqb_true.
      apply (H3 ltac:(discriminate) ltac:(discriminate)).
    - change (chain_ok (a :: b :: l1)) with (struct_eqb (in_struct a) (out_struct b) && chain_ok (b :: l1)) in H1.
      apply andb_true_iff in H1 as [Ha Hb].
      change (chain_ok ((a :: b :: l1) ++ l2)) with (struct_eqb (in_struct a) (out_struct b) && chain_ok ((b :: l1) ++ l2)).
      rewrite Ha. cbn [andb].
      apply IH; auto. intros _ Hl2. apply H3; [discriminate|exact Hl2].
  Qed.

  Lemma operands_wf b : wfo b = true ->
    operands b <> [] /\ chain_ok (operands b) = true /\ allwf (operands b) = true /\
    (forall d, in_struct (last (operands b) d) = in_struct b) /\
    (forall d, out_struct (hd d (operands b)) = out_struct b).
  Proof.
    destruct b; cbn [operands]; intros H;
      try (split; [discriminate|]; split; [reflexivity|]; split; [cbn [allwf]; rewrite H; reflexivity|];
           split; intros; reflexivity).
    rewrite wfo_comp in H. apply andb_true_iff in H as [H H3]. apply andb_true_iff in H as [H1 H2].
    assert (Hl : l <> []) by (destruct l; [discriminate|discriminate]).
    repeat split; auto; intros d; symmetry; [apply in_struct_comp|apply out_struct_comp]; auto.
  Qed.

  Lemma wrap_structs i w x : in_struct (Wrap i w x : op) = out_struct x /\ out_struct (Wrap i w x : op) = in_struct x.
  Proof. unfold in_struct, out_struct. cbn [structs]. destruct (structs x); auto. Qed.

  Lemma lazy_inverse_wf a x : lazy_inverse_of a = Some x -> wfo a = true ->
    in_struct a = out_struct x /\ out_struct a = in_struct x /\ in_struct x = out_struct x.
  Proof.
    destruct a; try discriminate. cbn [lazy_inverse_of Wf.wfo].
    destruct (isinst (wcls w) [CAbstractLazyInverse]); [|discriminate].
    intros H Hw. inversion H; subst. apply andb_true_iff in Hw as [_ Hs].
    destruct (wrap_structs i w x). repeat split; auto. now apply struct_eqb_true.
  Qed.

  Lemma base_matmul_wf a b c : wfo a = true -> wfo b = true -> base_matmul keqb a b = Ok c ->
    wfo c = true /\ in_struct c = in_struct b /\ out_struct c = out_struct a.
  Proof.
    intros Wa Wb. unfold base_matmul.
    destruct (struct_eqb (in_struct a) (out_struct b)) eqn:Es; [|discriminate]. cbn [negb].
    apply struct_eqb_true in Es.
    assert (Hdef : c = Comp fresh [a; b] -> wfo c = true /\ in_struct c = in_struct b /\ out_struct c = out_struct a).
    { intros ->. rewrite wfo_comp. cbn [List.length Nat.eqb negb Wf.chain_ok allwf].
      rewrite Wa, Wb. rewrite (proj2 (struct_eqb_true _ _) Es). repeat split; reflexivity. }
    destruct b as [ib cb sib sob pb|ib wb eb|ib sb|ib kb sb|ib lb|ib lb|ib bb tdb lb];
      cbn [lazy_inverse_of]; try (intros H; inversion H; subst; now apply Hdef).
    - destruct (isinst (wcls wb) [CAbstractLazyInverse]) eqn:Ei; [|intros H; inversion H; subst; now apply Hdef].
      destruct (same eb a) eqn:Esame; [|intros H; inversion H; subst; now apply Hdef].
      intros H; inversion H; subst c. apply same_eq in Esame; [|exact keqb_eq]. subst eb.
      destruct (lazy_inverse_wf (Wrap ib wb a) a) as (H1 & H2 & H3); [cbn [lazy_inverse_of]; now rewrite Ei|exact Wb|].
      split; [reflexivity|]. split.
      * transitivity (in_struct a); [reflexivity|congruence].
      * transitivity (in_struct a); [reflexivity|congruence].
    - intros H; inversion H; subst c. destruct (operands_wf _ Wb) as (Hn & Hc & Hw & Hin & Hout).
      cbn [operands] in *. rewrite wfo_comp.
      change (a :: lb) with ([a] ++ lb). rewrite allwf_app, Hw. cbn [allwf]. rewrite Wa.
      rewrite (chain_ok_app [a] lb a); auto.
      + cbn [app List.length Nat.eqb negb andb]. repeat split.
        * rewrite (in_struct_comp _ (a :: lb) a) by discriminate.
          destruct lb as [|b0 lb]; [congruence|]. cbn [last]. change (last (b0 :: lb) a) with (last (b0 :: lb) a).
          rewrite <- (Hin a). reflexivity.
      + intros _ _. cbn [last]. rewrite Es. symmetry. apply Hout.
  Qed.

  Theorem matmul_wf a b c : wfo a = true -> wfo b = true -> matmul a b = Ok c ->
    wfo c = true /\ in_struct c = in_struct b /\ out_struct c = out_struct a.
  Proof.
    intros Wa Wb. unfold Algebra.matmul.
    destruct a as [ia ca sia soa pa|ia wa ea|ia sa|ia ka sa|ia la|ia la|ia ba tda la];
      try (apply base_matmul_wf; assumption).
    - (* lazy wrapper on the left *)
      destruct (lazy_inverse_of (Wrap ia wa ea)) as [x|] eqn:El; [|apply base_matmul_wf; assumption].
      destruct (same x b) eqn:Esame; [|apply base_matmul_wf; assumption].
      intros H; inversion H; subst c. apply same_eq in Esame; [|exact keqb_eq]. subst x.
      destruct (lazy_inverse_wf _ _ El Wa) as (H1 & H2 & H3).
      split; [reflexivity|]. split.
      + transitivity (in_struct (Wrap ia wa ea)); [reflexivity|congruence].
      + transitivity (in_struct (Wrap ia wa ea)); [reflexivity|congruence].
    - (* identity *)
      destruct (struct_eqb (in_struct (Ident ia sa)) (out_struct b)) eqn:Es; [|discriminate]. cbn [negb].
      apply struct_eqb_true in Es. intros H; inversion H; subst c. repeat split; auto.
    - (* scalar *)
      destruct b as [ib cb sib sob pb|ib wb eb|ib sb|ib kb sb|ib lb|ib lb|ib bb tdb lb];
        try (apply base_matmul_wf; assumption).
      destruct (struct_eqb (in_struct (Homoth ia ka sa)) (out_struct (Homoth ib kb sb))) eqn:Es; [|discriminate].
      cbn [negb]. apply struct_eqb_true in Es. intros H; inversion H; subst c.
      repeat split; auto.
    - (* composition on the left *)
      destruct (struct_eqb (in_struct (Comp ia la)) (out_struct b)) eqn:Es; [|discriminate]. cbn [negb].
      apply struct_eqb_true in Es. intros H; inversion H; subst c.
      destruct (operands_wf _ Wb) as (Hn & Hc & Hw & Hin & Hout).
      destruct (operands_wf _ Wa) as (Hna & Hca & Hwa & Hina & Houta). cbn [operands] in *.
      assert (Hne : la ++ operands b <> []) by (destruct la; [congruence|discriminate]).
      rewrite wfo_comp, allwf_app, Hwa, Hw.
      rewrite (chain_ok_app la (operands b) b); auto.
      + split.
        * destruct (la ++ operands b) eqn:E; [congruence|reflexivity].
        * split.
          -- rewrite (in_struct_comp _ _ b Hne). rewrite last_app_nonempty; [apply Hin|exact Hn].
          -- rewrite (out_struct_comp _ _ b Hne). destruct la as [|a0 la]; [congruence|].
             cbn [app hd]. symmetry. rewrite <- (Houta b). reflexivity.
      + intros _ _. rewrite Hina, Hout. exact Es.
  Qed.

  Theorem matmul_mismatch a b : struct_eqb (in_struct a) (out_struct b) = false -> matmul a b = Err ValueError.
  Proof.
    intros Es. assert (Hb : base_matmul keqb a b = Err ValueError) by (unfold base_matmul; now rewrite Es).
    unfold Algebra.matmul.
    destruct a as [ia ca sia soa pa|ia wa ea|ia sa|ia ka sa|ia la|ia la|ia ba tda la]; try exact Hb.
    - destruct (lazy_inverse_of (Wrap ia wa ea)) as [x|] eqn:El; [|exact Hb].
      destruct (same x b) eqn:Esame; [|exact Hb]. exfalso.
      apply same_eq in Esame; [|exact keqb_eq]. subst x.
      cbn [lazy_inverse_of] in El. destruct (isinst _ _); [|discriminate]. inversion El; subst ea.
      destruct (wrap_structs ia wa b) as [H1 _]. rewrite H1, struct_eqb_refl in Es. discriminate.
    - now rewrite Es.
    - destruct b; try exact Hb. now rewrite Es.
    - now rewrite Es.
  Qed.

  Theorem add_mismatch a b :
    struct_eqb (in_struct a) (in_struct b) = false \/ struct_eqb (out_struct a) (out_struct b) = false ->
    add a b = Err ValueError.
  Proof.
    unfold Algebra.add. intros [H|H]; rewrite H; cbn [negb]; [reflexivity|].
    destruct (negb (struct_eqb (in_struct a) (in_struct b))); reflexivity.
  Qed.
  Theorem sub_mismatch a b :
    struct_eqb (in_struct a) (in_struct b) = false \/ struct_eqb (out_struct a) (out_struct b) = false ->
    sub a b = Err ValueError.
  Proof.
    unfold Algebra.sub. intros [H|H]; rewrite H; cbn [negb]; [reflexivity|].
    destruct (negb (struct_eqb (in_struct a) (in_struct b))); reflexivity.
  Qed.

  (* the structures of a sum are those of its operands *)
  Lemma in_struct_add i (l : list op) d : in_struct (AddOp i l) = in_struct (hd d l) \/ l = [].
  Proof. destruct l; [now right|now left]. Qed.
  Theorem add_structs a b c : wfo a = true -> add a b = Ok c ->
    in_struct c = in_struct a /\ out_struct c = out_struct a.
  Proof.
    intros Wa. unfold Algebra.add.
    destruct (negb (struct_eqb (in_struct a) (in_struct b))); [discriminate|].
    destruct (negb (struct_eqb (out_struct a) (out_struct b))); [discriminate|].
    destruct a as [ia ca sia soa pa|ia wa ea|ia sa|ia ka sa|ia la|ia la|ia ba tda la].
    6: { intros H; inversion H; subst c. cbn [Wf.wfo] in Wa. destruct la as [|a0 la]; [discriminate|]. split; reflexivity. }
    all: destruct b; intros H; inversion H; subst c; split; reflexivity.
  Qed.

  Theorem smul_structs k a c : wfo a = true -> smul k a = Ok c ->
    wfo c = true /\ in_struct c = in_struct a /\ out_struct c = out_struct a.
  Proof.
    intros Wa H. unfold Algebra.smul in H.
    destruct (matmul_wf (Homoth fresh k (out_struct a)) a c eq_refl Wa H) as (H1 & H2 & H3). auto.
  Qed.
End Build.
