(* C02: the arithmetic dunders (@, +, -, unary -, scalar * and /) denote the product, sum,
   difference, negation and scalar multiples of their operands; structures of the results;
   rejection of mismatching operands. *)
From Coq Require Import List Bool Arith ZArith NArith QArith String Lia Ring.
From Furax Require Import Base.Pytree Model.Op Model.Algebra Model.Denote Model.Wf Lemmas.DenoteL Lemmas.Sound.
Import ListNotations.
Local Close Scope Q_scope.
Local Open Scope nat_scope.

Section Build.
  Variable K : Type.
  Variables (k0 k1 : K) (kadd kmul ksub : K -> K -> K) (kopp : K -> K) (kinv : K -> K).
  Hypothesis Kth : ring_theory k0 k1 kadd kmul ksub kopp (@eq K).
  Add Ring KringB : Kth.
  Variable keqb : K -> K -> bool.
  Hypothesis keqb_eq : forall a b, keqb a b = true -> a = b.
  Notation op := (op K).
  Notation value := (value K).
  Variable leafsem : op -> value -> option value.
  Hypothesis LF : leaf_facts K kadd kmul leafsem.
  Notation denote := (denote kadd kmul leafsem).
  Notation chain := (chain kadd kmul leafsem).
  Notation vscale := (vscale kmul).
  Notation vadd := (vadd kadd).
  Notation vsum := (vsum kadd).
  Notation chain_le := (chain_le kadd kmul leafsem).
  Notation same := (same keqb).
  Notation matmul := (matmul keqb kmul).
  Notation smul := (smul keqb kmul).
  Notation sdiv := (sdiv keqb kmul kinv).
  Notation neg := (neg keqb k1 kmul kopp).
  Notation sub := (sub keqb k1 kmul kopp).
  Notation add := (@add K).

  (* ---------- pointwise sums of values ---------- *)
  Definition zipadd (u v : list K) : list K := map (fun p => kadd (fst p) (snd p)) (combine u v).
  Lemma zipadd_length u v : List.length u = List.length v -> List.length (zipadd u v) = List.length v.
  Proof. intros H. unfold zipadd. rewrite map_length, combine_length, H. apply Nat.min_id. Qed.
  Lemma zipadd_assoc u : forall v t, List.length u = List.length v -> List.length v = List.length t ->
    zipadd (zipadd u v) t = zipadd u (zipadd v t).
  Proof.
    unfold zipadd. induction u as [|a u IH]; intros [|b v] [|c t]; cbn; try discriminate; auto.
    intros H1 H2. f_equal; [ring|]. apply IH; lia.
  Qed.

  Lemma vadd_leaf u v : vadd (Leaf u) (Leaf v) =
    if Nat.eqb (List.length u) (List.length v) then Some (Leaf (zipadd u v)) else None.
  Proof. reflexivity. Qed.

  (* (a + (z + w)) defined  ->  ((a + z) + w) defined and equal *)
  Lemma vadd_assoc a : forall z w zw y, vadd z w = Some zw -> vadd a zw = Some y ->
    exists az, vadd a z = Some az /\ vadd az w = Some y.
  Proof.
    induction a as [u|kd cs IH] using pt_ind'; intros z w zw y Hzw Hy.
    - destruct zw as [q|? ?]; [|discriminate].
      destruct z as [v|? ?], w as [t|? ?]; try discriminate.
      + rewrite vadd_leaf in Hzw, Hy.
        destruct (Nat.eqb (List.length v) (List.length t)) eqn:E1; [|discriminate].
        inversion Hzw; subst q. apply Nat.eqb_eq in E1.
        rewrite zipadd_length in Hy by assumption.
        destruct (Nat.eqb (List.length u) (List.length t)) eqn:E2; [|discriminate].
        apply Nat.eqb_eq in E2. inversion Hy; subst y.
        exists (Leaf (zipadd u v)). rewrite !vadd_leaf.
        assert (E3 : List.length u = List.length v) by lia.
        rewrite (proj2 (Nat.eqb_eq _ _) E3). split; [reflexivity|].
        rewrite zipadd_length by assumption. rewrite (proj2 (Nat.eqb_eq _ _) E1).
        f_equal. f_equal. apply zipadd_assoc; assumption.
      + cbn in Hzw.
        match type of Hzw with (if ?c then _ else _) = _ => destruct c; [|discriminate] end.
        match type of Hzw with option_map _ ?G = _ => destruct G; discriminate end.
    - destruct zw as [?|kzw czw]; [discriminate|].
      destruct z as [?|kz cz], w as [?|kw cw]; try discriminate.
      { cbn in Hzw. destruct (Nat.eqb _ _); discriminate. }
      cbn [Denote.vadd] in Hzw, Hy |- *.
      destruct (ckind_eqb kz kw) eqn:Ek1; [|discriminate].
      destruct (ckind_eqb kd kzw) eqn:Ek2; [|discriminate].
      apply ckind_eqb_eq in Ek1. apply ckind_eqb_eq in Ek2. subst kw kzw.
      match type of Hzw with option_map _ ?G = _ => destruct G as [lzw|] eqn:Ezw; [|discriminate] end.
      cbn in Hzw. inversion Hzw; subst kd czw. clear Hzw.
      match type of Hy with option_map _ ?G = _ => destruct G as [ly|] eqn:Ey; [|discriminate] end.
      cbn in Hy. inversion Hy; subst y. clear Hy.
      rewrite ckind_eqb_refl.
      assert (Hl : exists laz,
        (fix go (l l' : list value) : option (list value) :=
           match l, l' with
           | [], [] => Some []
           | x :: xs, y :: ys =>
               match Denote.vadd kadd x y, go xs ys with
               | Some z, Some zs => Some (z :: zs)
               | _, _ => None
               end
           | _, _ => None
           end) cs cz = Some laz /\
        (fix go (l l' : list value) : option (list value) :=
           match l, l' with
           | [], [] => Some []
           | x :: xs, y :: ys =>
               match Denote.vadd kadd x y, go xs ys with
               | Some z, Some zs => Some (z :: zs)
               | _, _ => None
               end
           | _, _ => None
           end) laz cw = Some ly).
      { revert cz cw lzw ly Ezw Ey.
        induction IH as [|c r Hc _ IHr]; intros cz cw lzw ly Ezw Ey.
        - destruct lzw; [|discriminate]. inversion Ey; subst ly.
          destruct cz, cw; try discriminate.
          + exists []. split; reflexivity.
          + repeat match type of Ezw with match ?G with _ => _ end = _ => destruct G end; discriminate.
        - destruct lzw as [|zw1 lzw]; [discriminate|].
          destruct cz as [|z1 cz], cw as [|w1 cw]; try discriminate.
          destruct (Denote.vadd kadd z1 w1) as [zw1'|] eqn:E1; [|discriminate].
          match type of Ezw with match ?G with _ => _ end = _ => destruct G as [lzw'|] eqn:E2; [|discriminate] end.
          inversion Ezw; subst zw1' lzw'. clear Ezw.
          destruct (Denote.vadd kadd c zw1) as [y1|] eqn:E3; [|discriminate].
          match type of Ey with match ?G with _ => _ end = _ => destruct G as [ly'|] eqn:E4; [|discriminate] end.
          inversion Ey; subst ly. clear Ey.
          destruct (Hc z1 w1 zw1 y1 E1 E3) as (az1 & Ha1 & Ha2).
          destruct (IHr cz cw lzw ly' E2 E4) as (laz & Hl1 & Hl2).
          exists (az1 :: laz). rewrite Ha1, Hl1, Ha2, Hl2. split; reflexivity. }
      destruct Hl as (laz & Hl1 & Hl2).
      exists (Node kz laz). rewrite Hl1. cbn. split; [reflexivity|].
      rewrite ckind_eqb_refl, Hl2. reflexivity.
  Qed.

  Definition fstep := (fun (acc : option value) (z : value) => obind acc (fun a => vadd a z)).
  Lemma fold_none l : fold_left fstep l None = None.
  Proof. induction l; cbn; auto. Qed.
  Lemma vsum_cons y r : vsum (y :: r) = fold_left fstep r (Some y).
  Proof. reflexivity. Qed.

  Lemma fold_shift a : forall zs z b y,
    fold_left fstep zs (Some z) = Some b -> vadd a b = Some y ->
    fold_left fstep zs (vadd a z) = Some y.
  Proof.
    induction zs as [|w zs IH]; intros z b y Hb Hy; cbn in *.
    - inversion Hb; subst. exact Hy.
    - destruct (vadd z w) as [zw|] eqn:Ezw; [|rewrite fold_none in Hb; discriminate].
      specialize (IH zw b y Hb Hy).
      (* vadd a zw is defined, else the fold is None *)
      destruct (vadd a zw) as [azw|] eqn:Ea; [|rewrite fold_none in IH; discriminate].
      destruct (vadd_assoc a z w zw azw Ezw Ea) as (az & H1 & H2).
      rewrite H1. cbn. rewrite H2. exact IH.
  Qed.

  Lemma vsum_app ys zs a b y : vsum ys = Some a -> vsum zs = Some b -> vadd a b = Some y ->
    vsum (ys ++ zs) = Some y.
  Proof.
    destruct ys as [|y0 ys]; [discriminate|]. destruct zs as [|z zs]; [discriminate|].
    cbn [app]. rewrite !vsum_cons. rewrite fold_left_app. intros Ha Hb Hy. rewrite Ha.
    cbn [fold_left]. change (fstep (Some a) z) with (vadd a z). eapply fold_shift; eauto.
  Qed.

  (* ---------- A + B ---------- *)
  Lemma omapl_app (f : op -> option value) l1 l2 :
    omapl f (l1 ++ l2) = match omapl f l1, omapl f l2 with
                         | Some a, Some b => Some (a ++ b) | _, _ => None end.
  Proof.
    induction l1 as [|e l1 IH]; cbn.
    - destruct (omapl f l2); reflexivity.
    - destruct (f e); [|reflexivity]. rewrite IH. destruct (omapl f l1), (omapl f l2); reflexivity.
  Qed.

  Lemma add_operands_den b x yb : denote b x = Some yb ->
    exists ybs, omapl (fun e => denote e x) (add_operands b) = Some ybs /\ vsum ybs = Some yb.
  Proof.
    destruct b; cbn [add_operands]; intros H;
      try (exists [yb]; cbn [omapl]; rewrite H; split; reflexivity).
    rewrite denote_add in H. destruct (omapl _ l) as [ybs|]; [|discriminate]. exists ybs. split; auto.
  Qed.

  Theorem add_sound a b c : add a b = Ok c ->
    forall x ya yb y, denote a x = Some ya -> denote b x = Some yb -> vadd ya yb = Some y ->
    denote c x = Some y.
  Proof.
    unfold Algebra.add.
    destruct (negb (struct_eqb (in_struct a) (in_struct b))); [discriminate|].
    destruct (negb (struct_eqb (out_struct a) (out_struct b))); [discriminate|].
    intros H x ya yb y Ha Hb Hy.
    assert (Hgen : forall la, omapl (fun e => denote e x) la = None \/
              (exists yas, omapl (fun e => denote e x) la = Some yas) ) by (intros la; destruct (omapl _ la); eauto).
    destruct (add_operands_den b x yb Hb) as (ybs & Hob & Hsb).
    assert (Hsingle : forall e ye, denote e x = Some ye -> omapl (fun e => denote e x) [e] = Some [ye]).
    { intros e ye He. cbn. now rewrite He. }
    assert (Hcase : forall la yas, omapl (fun e => denote e x) la = Some yas -> vsum yas = Some ya ->
              denote (AddOp fresh (la ++ add_operands b)) x = Some y).
    { intros la yas H1 H2. rewrite denote_add, omapl_app, H1, Hob. cbn [obind].
      eapply vsum_app; eauto. }
    destruct a as [ia ca sia soa pa|ia wa ea|ia sa|ia ka sa|ia la|ia la|ia ba tda la].
    6: { (* a is a sum *)
      inversion H; subst c. rewrite denote_add in Ha.
      destruct (omapl _ la) as [yas|] eqn:E; [|discriminate]. eapply Hcase; eauto. }
    all: destruct b as [ib cb sib sob pb|ib wb eb|ib sb|ib kb sb|ib lb|ib lb|ib bb tdb lb];
      inversion H; subst c;
      match goal with
      | |- Denote.denote _ _ _ (AddOp _ (?a :: ?l)) _ = _ =>
          change (a :: l) with ([a] ++ l);
          first [ change l with (add_operands (AddOp ib l)) | change [a; ?b] with ([a] ++ add_operands b) ]
      end.
    all: try (eapply (Hcase [_] [ya]); [apply Hsingle; exact Ha | reflexivity]).
  Qed.
End Build.
