From Coq Require Import ZArith List Bool Lia Arith.
From Furax Require Import Model.Config.
Import ListNotations.

Lemma run_app s h1 h2 :
  run s (h1 ++ h2) =
  let (s1, o1) := run s h1 in let (s2, o2) := run s1 h2 in (s2, o1 ++ o2).
Proof.
  revert s; induction h1 as [|e h1 IH]; intros s; cbn [run app].
  - destruct (run s h2); reflexivity.
  - destruct (step s e) as [s1 o]. rewrite IH. destruct (run s1 h1) as [s2 o1].
    destruct (run s2 h2); reflexivity.
Qed.

Lemma final_app s h1 h2 : final s (h1 ++ h2) = final (final s h1) h2.
Proof. unfold final. rewrite run_app. destruct (run s h1) as [s1 o1]; cbn [fst].
  destruct (run s1 h2); reflexivity. Qed.

Lemma final_cons s e h : final s (e :: h) = final (fst (step s e)) h.
Proof. unfold final; cbn [run]. destruct (step s e) as [s1 o]; cbn [fst].
  destruct (run s1 h); reflexivity. Qed.

(* ConfigState.__eq__ compares every field: equal means identical *)
Lemma cfg_eqb_sound_l a b : cfg_eqb a b = true <-> a = b.
Proof.
  unfold cfg_eqb. destruct a as [a1 a2 a3 a4], b as [b1 b2 b3 b4]; cbn. split.
  - intros H. apply andb_prop in H as [H H4]. apply andb_prop in H as [H H3].
    apply andb_prop in H as [H1 H2].
    apply Z.eqb_eq in H1, H2, H3, H4. now subst.
  - intros H; inversion H; subst. now rewrite !Z.eqb_refl.
Qed.

(* a hit in the jit cache under a sound equality hands back the configuration itself *)
Lemma jit_lookup_sound_l (eqb : cfg -> cfg -> bool) fn c cache c' :
  (forall a b, eqb a b = true -> a = b) ->
  jit_lookup eqb fn c cache = Some c' -> c' = c.
Proof.
  intros Hs. unfold jit_lookup.
  destruct (find (fun p => Nat.eqb (fst p) fn && eqb c (snd p)) cache) as [p|] eqn:E; [|discriminate].
  cbn. intros H; inversion H; subst. apply find_some in E as [_ E].
  apply andb_prop in E as [_ E]. symmetry. now apply Hs.
Qed.

(* ... and it matters: were solver_options left out of the comparison, an inverse created with
   options 1 passed after one created with options 0 would run with options 0 *)
Lemma jit_lookup_unsound_example_l :
  jit_lookup eqb_ignoring_options 0 (mkCfg 0 0 1 0) [(0%nat, mkCfg 0 0 0 0)] = Some (mkCfg 0 0 0 0).
Proof. reflexivity. Qed.

(* every route of application observes the captured configuration and leaves the objects alone *)
Lemma step_apply_via_l s r i :
  snd (step s (ApplyVia r i)) = nth_error (invs s) i /\
  cur (fst (step s (ApplyVia r i))) = cur s /\ stack (fst (step s (ApplyVia r i))) = stack s /\
  invs (fst (step s (ApplyVia r i))) = invs s /\ presets (fst (step s (ApplyVia r i))) = presets s.
Proof.
  cbn [step]. destruct (nth_error (invs s) i) as [c|]; [|repeat split; auto].
  destruct r as [| |fn|]; cbn; repeat split; auto;
  destruct (jit_lookup cfg_eqb fn c (jcache s)) as [c'|] eqn:E; cbn; auto.
  apply jit_lookup_sound_l in E; [subst; auto|]. intros a b H. now apply cfg_eqb_sound_l.
Qed.

Lemma step_derive_l s d i :
  cur (fst (step s (Derive d i))) = cur s /\ stack (fst (step s (Derive d i))) = stack s /\
  presets (fst (step s (Derive d i))) = presets s.
Proof. cbn [step]. destruct (nth_error (invs s) i); cbn; auto. Qed.

(* The open blocks ks (innermost first) explain the variable and the token stack, given the presets. *)
Inductive Inv (ps : list cfg) (base : cfg) (st0 : list cfg) : cfg -> list cfg -> list blk -> Prop :=
| Inv0 : Inv ps base st0 base st0 []
| InvK c st ks k : Inv ps base st0 c st ks -> Inv ps base st0 (replace c k) (c :: st) (BKw k :: ks)
| InvP c st ks i p : Inv ps base st0 c st ks -> nth_error ps i = Some p ->
    Inv ps base st0 p (c :: st) (BPre i :: ks).

Lemma Inv_cur ps base st0 c st ks :
  Inv ps base st0 c st ks -> c = active ps base ks.
Proof.
  induction 1 as [|c st ks k H IH|c st ks i p H IH Hn]; cbn [active].
  - reflexivity.
  - now rewrite <- IH.
  - now rewrite Hn.
Qed.

Lemma Inv_nil ps base st0 c st : Inv ps base st0 c st [] -> c = base /\ st = st0.
Proof. inversion 1; auto. Qed.

Lemma Inv_cons_inv ps base st0 c st b ks :
  Inv ps base st0 c st (b :: ks) -> exists c' st', st = c' :: st' /\ Inv ps base st0 c' st' ks.
Proof. intros H. inversion H; subst; eauto. Qed.

(* presets are only ever appended: what explains the state keeps explaining it *)
Lemma Inv_mono ps x base st0 c st ks :
  Inv ps base st0 c st ks -> Inv (ps ++ x) base st0 c st ks.
Proof.
  induction 1 as [|c st ks k H IH|c st ks i p H IH Hn]; [constructor|constructor; exact IH|].
  econstructor; [exact IH|]. rewrite nth_error_app1; [exact Hn|].
  apply nth_error_Some. rewrite Hn. discriminate.
Qed.

Lemma track_inv base st0 h : forall s ks ks',
  track (length (presets s)) h ks = Some ks' ->
  Inv (presets s) base st0 (cur s) (stack s) ks ->
  Inv (presets (final s h)) base st0 (cur (final s h)) (stack (final s h)) ks'.
Proof.
  induction h as [|e h IH]; intros s ks ks' Ht HI.
  - cbn in Ht. inversion Ht; subst. exact HI.
  - rewrite final_cons. destruct e; cbn [track] in Ht.
    + eapply IH; [exact Ht|]. cbn. constructor. exact HI.
    + destruct ks as [|k ks0]; [discriminate|].
      destruct (Inv_cons_inv _ _ _ _ _ _ _ HI) as (c & st & Hs & H1).
      cbn [step]. rewrite Hs. cbn [fst]. eapply IH; [exact Ht|exact H1].
    + destruct ks as [|k ks0]; [discriminate|].
      destruct (Inv_cons_inv _ _ _ _ _ _ _ HI) as (c & st & Hs & H1).
      cbn [step]. rewrite Hs. cbn [fst]. eapply IH; [exact Ht|exact H1].
    + eapply IH; [exact Ht|]. cbn. exact HI.
    + eapply IH; [exact Ht|]. cbn. exact HI.
    + eapply IH; [exact Ht|]. cbn. exact HI.
    + destruct (step_derive_l s d i) as (Hc & Hs & Hp).
      eapply IH; [rewrite Hp; exact Ht|]. rewrite Hc, Hs, Hp. exact HI.
    + destruct (step_apply_via_l s r i) as (_ & Hc & Hs & _ & Hp).
      eapply IH; [rewrite Hp; exact Ht|]. rewrite Hc, Hs, Hp. exact HI.
    + eapply IH; [cbn; rewrite app_length, Nat.add_1_r; exact Ht|]. cbn. apply Inv_mono. exact HI.
    + destruct (Nat.ltb i (length (presets s))) eqn:Ei; [|discriminate].
      apply Nat.ltb_lt in Ei. destruct (nth_error (presets s) i) as [p|] eqn:En.
      * cbn [step]. rewrite En. cbn [fst]. eapply IH; [exact Ht|]. cbn. econstructor; eassumption.
      * apply nth_error_None in En. lia.
Qed.

(* leaving every block restores exactly what was active before it, at any depth,
   through normal and exceptional exits alike, whether the block was opened by `with Config(...)`
   or by entering a Config object built elsewhere *)
Lemma restore_l s h :
  well_nested (length (presets s)) h -> cur (final s h) = cur s /\ stack (final s h) = stack s.
Proof.
  intros Hw. apply (Inv_nil (presets (final s h)) (cur s) (stack s)).
  eapply track_inv; [exact Hw|]. constructor.
Qed.

(* inside nested blocks the active configuration is explained by the open blocks *)
Lemma innermost_l s h ks :
  track (length (presets s)) h [] = Some ks ->
  cur (final s h) = active (presets (final s h)) (cur s) ks.
Proof.
  intros Ht. eapply Inv_cur. eapply track_inv; [exact Ht|]. constructor.
Qed.

(* with inline blocks only: the outer configuration overridden level by level *)
Lemma active_kw_l ps base ks : active ps base (map BKw ks) = fold_left replace (rev ks) base.
Proof.
  induction ks as [|k ks IH]; [reflexivity|].
  cbn [map active rev]. rewrite fold_left_app. cbn [fold_left]. now rewrite IH.
Qed.

Lemma ends_with_defaults_l h : well_nested 0 h -> cur (final init h) = default_cfg.
Proof. intros H. now destruct (restore_l init h H). Qed.

(* a Read observes the variable *)
Lemma read_l s h : observe s (h ++ [Read]) = observe s h ++ [Some (cur (final s h))].
Proof. unfold observe, final. rewrite run_app. destruct (run s h) as [s1 o1]; reflexivity. Qed.

(* captured configurations: the list only grows at the end *)
Lemma invs_mono s h : exists extra, invs (final s h) = invs s ++ extra.
Proof.
  revert s; induction h as [|e h IH]; intros s.
  - exists []. unfold final; cbn. now rewrite app_nil_r.
  - rewrite final_cons. destruct (IH (fst (step s e))) as [ex Hex]. rewrite Hex.
    assert (H1 : exists x, invs (fst (step s e)) = invs s ++ x).
    { destruct e.
      - exists []. cbn. now rewrite app_nil_r.
      - exists []. cbn [step]. destruct (stack s); cbn; now rewrite app_nil_r.
      - exists []. cbn [step]. destruct (stack s); cbn; now rewrite app_nil_r.
      - eexists. cbn. reflexivity.
      - exists []. cbn. now rewrite app_nil_r.
      - exists []. cbn. now rewrite app_nil_r.
      - cbn [step]. destruct (nth_error (invs s) i); cbn; [eexists; reflexivity|].
        exists []. now rewrite app_nil_r.
      - exists []. destruct (step_apply_via_l s r i) as (_ & _ & _ & -> & _). now rewrite app_nil_r.
      - exists []. cbn. now rewrite app_nil_r.
      - exists []. cbn [step]. destruct (nth_error (presets s) i); cbn; now rewrite app_nil_r. }
    destruct H1 as [x ->]. rewrite <- app_assoc. eexists; reflexivity.
Qed.

(* A lazy inverse created after h1 keeps using the configuration active at that moment,
   whatever happens afterwards (h2 arbitrary, not even well nested). *)
Lemma capture_l s h1 h2 :
  let i := length (invs (final s h1)) in
  observe s (h1 ++ NewInverse :: h2 ++ [ApplyInverse i]) =
  observe s (h1 ++ NewInverse :: h2) ++ [Some (cur (final s h1))].
Proof.
  intros i. replace (h1 ++ NewInverse :: h2 ++ [ApplyInverse i])
    with ((h1 ++ NewInverse :: h2) ++ [ApplyInverse i]) by (rewrite <- app_assoc; reflexivity).
  unfold observe. rewrite run_app.
  destruct (run s (h1 ++ NewInverse :: h2)) as [s2 o2] eqn:E. cbn [run step snd].
  f_equal. f_equal.
  assert (Hs2 : s2 = final s (h1 ++ NewInverse :: h2)) by (unfold final; now rewrite E).
  rewrite Hs2, final_app, final_cons. cbn [step fst].
  set (s1 := final s h1) in *.
  destruct (invs_mono (mkT (cur s1) (stack s1) (invs s1 ++ [cur s1]) (jcache s1) (presets s1)) h2) as [ex Hex].
  rewrite Hex. cbn [invs]. rewrite <- app_assoc. rewrite nth_error_app2 by (subst i; lia).
  subst i. now rewrite Nat.sub_diag.
Qed.

(* Threads and contexts: each thread's state and observations are those of its own history run
   alone, for every interleaving (l is an arbitrary global schedule). *)
Lemma upd_same g t s : upd g t s t = s.
Proof. unfold upd. now rewrite Nat.eqb_refl. Qed.
Lemma upd_other g t s t' : t' <> t -> upd g t s t' = g t'.
Proof. unfold upd. intros H. apply Nat.eqb_neq in H. now rewrite H. Qed.

Definition only_events (l : list gevent) : Prop :=
  forall e, In e l -> match e with Ev _ _ => True | _ => False end.

Lemma isolation_l l : forall g t,
  (forall e, In e l -> touches t e = true -> match e with Ev _ _ => True | _ => False end) ->
  fst (grun g l) t = final (g t) (project t l) /\
  obs_of t (snd (grun g l)) = observe (g t) (project t l).
Proof.
  induction l as [|e l IH]; intros g t Hev.
  - cbn. auto.
  - cbn [grun]. destruct (gstep g e) as [g1 o] eqn:Eg.
    destruct (grun g1 l) as [g2 os] eqn:Er. cbn [fst snd].
    assert (Hl : forall e0, In e0 l -> touches t e0 = true -> match e0 with Ev _ _ => True | _ => False end)
      by (intros e0 Hi; apply Hev; now right).
    specialize (IH g1 t Hl). rewrite Er in IH. cbn [fst snd] in IH. destruct IH as [IH1 IH2].
    destruct e as [t' e|t1 t2|t1|t1 t2]; cbn [gstep] in Eg.
    + destruct (step (g t') e) as [s1 o1] eqn:Es. inversion Eg; subst g1 o; clear Eg.
      cbn [project obs_of]. destruct (Nat.eqb t' t) eqn:Et.
      * apply Nat.eqb_eq in Et; subst t'. rewrite upd_same in IH1, IH2.
        rewrite final_cons, Es. cbn [fst]. split; [exact IH1|].
        unfold observe in *. cbn [run]. rewrite Es. destruct (run s1 (project t l)); cbn [snd] in *.
        now rewrite IH2.
      * apply Nat.eqb_neq in Et. rewrite upd_other in IH1, IH2 by congruence. auto.
    + inversion Eg; subst g1 o; clear Eg. cbn [project].
      assert (Hne : t2 <> t).
      { intros ->. specialize (Hev (Fork t1 t) (or_introl eq_refl)). cbn in Hev.
        rewrite Nat.eqb_refl in Hev. exact (Hev eq_refl). }
      rewrite upd_other in IH1, IH2 by congruence. auto.
    + inversion Eg; subst g1 o; clear Eg. cbn [project].
      assert (Hne : t1 <> t).
      { intros ->. specialize (Hev (Spawn t) (or_introl eq_refl)). cbn in Hev.
        rewrite Nat.eqb_refl in Hev. exact (Hev eq_refl). }
      rewrite upd_other in IH1, IH2 by congruence. auto.
    + inversion Eg; subst g1 o; clear Eg. cbn [project].
      assert (Hne : t2 <> t).
      { intros ->. specialize (Hev (Hand t1 t) (or_introl eq_refl)). cbn in Hev.
        rewrite Nat.eqb_refl in Hev. exact (Hev eq_refl). }
      rewrite upd_other in IH1, IH2 by congruence. auto.
Qed.

(* a forked context / spawned thread starts from a copy / from the defaults and then evolves alone *)
Lemma fork_copy_l g t t' : cur (fst (gstep g (Fork t t')) t') = cur (g t).
Proof. cbn. now rewrite upd_same. Qed.
Lemma spawn_default_l g t : cur (fst (gstep g (Spawn t)) t) = default_cfg.
Proof. cbn. now rewrite upd_same. Qed.
Lemma hand_default_l g t t' :
  cur (fst (gstep g (Hand t t')) t') = default_cfg /\ stack (fst (gstep g (Hand t t')) t') = [] /\
  presets (fst (gstep g (Hand t t')) t') = presets (g t).
Proof. cbn. now rewrite upd_same. Qed.
(* an event of another thread never changes this thread's state *)
Lemma frame_l g e t : touches t e = false -> fst (gstep g e) t = g t.
Proof.
  destruct e as [t' e|t1 t2|t1|t1 t2]; cbn; intros H.
  - destruct (step (g t') e). cbn. apply upd_other. intros ->. now rewrite Nat.eqb_refl in H.
  - apply upd_other. intros ->. now rewrite Nat.eqb_refl in H.
  - apply upd_other. intros ->. now rewrite Nat.eqb_refl in H.
  - apply upd_other. intros ->. now rewrite Nat.eqb_refl in H.
Qed.

(* The effect of applying a lazy inverse (mv) is that of the configuration captured at creation,
   and the effect tells every setting apart wherever that setting can matter. *)
Lemma capture_effect_l fails s h1 h2 :
  let i := length (invs (final s h1)) in
  effects fails (observe s (h1 ++ NewInverse :: h2 ++ [ApplyInverse i])) =
  effects fails (observe s (h1 ++ NewInverse :: h2)) ++ [Some (mv fails (cur (final s h1)))].
Proof.
  intros i. unfold effects. subst i. rewrite capture_l. rewrite map_app. reflexivity.
Qed.

Lemma mv_returned_l fails c s o k :
  mv fails c = Returned s o k -> c_solver c = s /\ c_options c = o /\ c_callback c = k.
Proof.
  unfold mv. destruct (fails (c_solver c) (c_options c) && negb (c_throw c =? 0)); [discriminate|].
  intros H; inversion H; auto.
Qed.

Lemma mv_raised_l fails c :
  mv fails c = Raised <-> fails (c_solver c) (c_options c) = true /\ c_throw c <> 0%Z.
Proof.
  unfold mv. destruct (fails (c_solver c) (c_options c)); cbn [andb].
  - destruct (Z.eqb_spec (c_throw c) 0) as [E|E]; cbn [negb]; split.
    + discriminate.
    + intros [_ H]; contradiction.
    + auto.
    + reflexivity.
  - split; [discriminate|]. intros [H _]; discriminate.
Qed.

(* a probe on which the solve fails and a probe on which it succeeds determine every setting
   (solver_throw up to its truth value, which is all lineax looks at) *)
Lemma effects_determine_l c c' :
  mv all_fail c = mv all_fail c' -> mv none_fail c = mv none_fail c' ->
  (c_throw c =? 0)%Z = (c_throw c' =? 0)%Z /\ c_solver c = c_solver c' /\
  c_options c = c_options c' /\ c_callback c = c_callback c'.
Proof.
  unfold mv, all_fail, none_fail. cbn [andb].
  destruct (c_throw c =? 0)%Z, (c_throw c' =? 0)%Z; cbn [negb]; intros H1 H2;
    try discriminate; inversion H2; auto.
Qed.

(* changing one setting alone changes the effect, in the situations where that setting matters *)
Lemma throw_visible_l fails c c' :
  fails (c_solver c) (c_options c) = true -> c_solver c' = c_solver c -> c_options c' = c_options c ->
  (c_throw c =? 0)%Z <> (c_throw c' =? 0)%Z -> mv fails c <> mv fails c'.
Proof.
  intros Hf Hs Ho Ht. unfold mv. rewrite Hs, Ho, Hf. cbn [andb].
  destruct (c_throw c =? 0)%Z, (c_throw c' =? 0)%Z; cbn [negb]; try congruence; discriminate.
Qed.
Lemma others_visible_l fails c c' :
  (fails (c_solver c) (c_options c) = false \/ c_throw c = 0%Z) ->
  (c_solver c <> c_solver c' \/ c_options c <> c_options c' \/ c_callback c <> c_callback c') ->
  mv fails c <> mv fails c'.
Proof.
  intros Hok Hd E.
  assert (Hr : mv fails c = Returned (c_solver c) (c_options c) (c_callback c)).
  { unfold mv. destruct Hok as [H|H]; rewrite H; [reflexivity|]. rewrite andb_false_r. reflexivity. }
  rewrite E in Hr. apply mv_returned_l in Hr. destruct Hr as (H1 & H2 & H3).
  destruct Hd as [H|[H|H]]; congruence.
Qed.

(* ---- after the creation: derived objects and routes of application ------------------------------ *)

Lemma final_snoc s h e : final s (h ++ [e]) = fst (step (final s h) e).
Proof. rewrite final_app. unfold final at 1. cbn [run]. destruct (step (final s h) e); reflexivity. Qed.

(* an application through ANY route observes the configuration stored for the object *)
Lemma apply_via_l s h r j :
  observe s (h ++ [ApplyVia r j]) = observe s h ++ [nth_error (invs (final s h)) j].
Proof.
  unfold observe, final. rewrite run_app. destruct (run s h) as [s1 o1]. cbn [run fst snd].
  destruct (step s1 (ApplyVia r j)) as [s2 o] eqn:E. cbn [snd]. f_equal. f_equal.
  destruct (step_apply_via_l s1 r j) as (H & _). rewrite E in H. exact H.
Qed.

Lemma pfold_fst h st : fst (fold_left pstep h st) = (fst st + length h)%nat.
Proof.
  revert st; induction h as [|e h IH]; intros st; cbn [fold_left length].
  - lia.
  - rewrite IH. destruct st as [n acc]. cbn. lia.
Qed.

(* Every object - the lazy inverses and whatever is derived from them by any chain of reductions
   of expressions holding them, pytree round trips and .I.I - carries the configuration that was
   active at the creation event it stems from (prov): the NewInverse at the root of the chain, or
   the .I.I that made a new lazy inverse.  Nothing that happens afterwards changes it. *)
Lemma provenance_l s h : invs s = [] ->
  length (prov h) = length (invs (final s h)) /\
  forall j p, nth_error (prov h) j = Some p ->
    (p < length h)%nat /\ nth_error (invs (final s h)) j = Some (cur (final s (firstn p h))).
Proof.
  intros Hs. induction h as [|x h IH] using rev_ind.
  - unfold prov, final; cbn. rewrite Hs. split; [reflexivity|]. intros [|j] p; discriminate.
  - destruct IH as [HL HP]. unfold prov in *. rewrite fold_left_app. cbn [fold_left].
    pose proof (pfold_fst h (0%nat, [])) as Hn.
    destruct (fold_left pstep h (0%nat, [])) as [n acc]. cbn [fst snd] in *.
    rewrite Nat.add_0_l in Hn. subst n.
    rewrite final_snoc. set (s1 := final s h) in *.
    assert (Hold : forall j p, nth_error acc j = Some p ->
              (p < length (h ++ [x]))%nat /\
              forall extra, nth_error (invs s1 ++ extra) j = Some (cur (final s (firstn p (h ++ [x]))))).
    { intros j p H. destruct (HP j p H) as [Hlt Hv]. split; [rewrite app_length; cbn; lia|].
      intros extra. rewrite nth_error_app1 by (apply nth_error_Some; rewrite Hv; discriminate).
      rewrite firstn_app. replace (p - length h)%nat with 0%nat by lia. cbn [firstn].
      rewrite app_nil_r. exact Hv. }
    assert (Hsame : forall st', invs st' = invs s1 ->
              length acc = length (invs st') /\
              forall j p, nth_error acc j = Some p ->
                (p < length (h ++ [x]))%nat /\
                nth_error (invs st') j = Some (cur (final s (firstn p (h ++ [x]))))).
    { intros st' E. rewrite E. split; [exact HL|]. intros j p H. destruct (Hold j p H) as [H1 H2].
      split; [exact H1|]. specialize (H2 []). now rewrite app_nil_r in H2. }
    assert (Hnew : forall st' v q, invs st' = invs s1 ++ [v] ->
              (q < length (h ++ [x]))%nat -> v = cur (final s (firstn q (h ++ [x]))) ->
              length (acc ++ [q]) = length (invs st') /\
              forall j p, nth_error (acc ++ [q]) j = Some p ->
                (p < length (h ++ [x]))%nat /\
                nth_error (invs st') j = Some (cur (final s (firstn p (h ++ [x]))))).
    { intros st' v q E Hq Hv. rewrite E. split; [rewrite !app_length; cbn; lia|].
      intros j p H. destruct (Nat.lt_ge_cases j (length acc)) as [Hj|Hj].
      - rewrite nth_error_app1 in H by exact Hj. destruct (Hold j p H) as [H1 H2]. auto.
      - rewrite nth_error_app2 in H by exact Hj.
        destruct (j - length acc)%nat as [|k] eqn:Ek; [|destruct k; discriminate].
        cbn in H. inversion H; subst p. split; [exact Hq|].
        assert (j = length (invs s1)) by lia. subst j.
        rewrite nth_error_app2 by lia. rewrite Nat.sub_diag. cbn. now rewrite Hv. }
    assert (Hfull : firstn (length h) (h ++ [x]) = h).
    { rewrite firstn_app, Nat.sub_diag, firstn_all. cbn. apply app_nil_r. }
    destruct x; cbn [pstep snd].
    + apply Hsame. reflexivity.
    + apply Hsame. cbn [step]. destruct (stack s1); reflexivity.
    + apply Hsame. cbn [step]. destruct (stack s1); reflexivity.
    + apply (Hnew _ (cur s1) (length h)); [reflexivity|rewrite app_length; cbn; lia|].
      now rewrite Hfull.
    + apply Hsame. reflexivity.
    + apply Hsame. reflexivity.
    + destruct (nth_error acc i) as [p|] eqn:Ei.
      * destruct (HP i p Ei) as [Hlt Hv]. cbn [step]. fold s1 in Hv. rewrite Hv. cbn [fst].
        destruct d.
        -- apply (Hnew _ (cur (final s (firstn p h))) p); [reflexivity|rewrite app_length; cbn; lia|].
           rewrite firstn_app. replace (p - length h)%nat with 0%nat by lia. cbn [firstn].
           now rewrite app_nil_r.
        -- apply (Hnew _ (cur (final s (firstn p h))) p); [reflexivity|rewrite app_length; cbn; lia|].
           rewrite firstn_app. replace (p - length h)%nat with 0%nat by lia. cbn [firstn].
           now rewrite app_nil_r.
        -- apply (Hnew _ (cur s1) (length h)); [reflexivity|rewrite app_length; cbn; lia|].
           now rewrite Hfull.
      * apply Hsame. cbn [step].
        assert (Hnone : nth_error (invs s1) i = None).
        { apply nth_error_None. rewrite <- HL. now apply nth_error_None. }
        now rewrite Hnone.
    + apply Hsame. now destruct (step_apply_via_l s1 r i) as (_ & _ & _ & -> & _).
    + apply Hsame. reflexivity.
    + apply Hsame. cbn [step]. destruct (nth_error (presets s1) i); reflexivity.
Qed.

(* The clause at full strength: object j, which stems from the creation event at position p of the
   history, applied through any route after anything else has happened, uses the configuration
   that was active just before position p. *)
Lemma capture_everywhere_l s h r j p : invs s = [] ->
  nth_error (prov h) j = Some p ->
  observe s (h ++ [ApplyVia r j]) = observe s h ++ [Some (cur (final s (firstn p h)))].
Proof.
  intros Hs Hp. rewrite apply_via_l. destruct (provenance_l s h Hs) as [_ H].
  destruct (H j p Hp) as [_ ->]. reflexivity.
Qed.

Lemma capture_everywhere_effect_l fails s h r j p : invs s = [] ->
  nth_error (prov h) j = Some p ->
  effects fails (observe s (h ++ [ApplyVia r j])) =
  effects fails (observe s h) ++ [Some (mv fails (cur (final s (firstn p h))))].
Proof.
  intros Hs Hp. unfold effects. rewrite (capture_everywhere_l s h r j p Hs Hp), map_app. reflexivity.
Qed.

(* the provenance of the objects is total: as many entries as objects *)
Lemma prov_length_l s h : invs s = [] -> length (prov h) = length (invs (final s h)).
Proof. intros Hs. now destruct (provenance_l s h Hs). Qed.

(* one derivation step, spelled out: deriving from object i (by reduce / round trip) right after h
   gives an object with the configuration of object i, whatever is active at that moment *)
Lemma derive_keeps_l s h d i c : d <> DInvInv ->
  nth_error (invs (final s h)) i = Some c ->
  invs (final s (h ++ [Derive d i])) = invs (final s h) ++ [c].
Proof.
  intros Hd Hi. rewrite final_snoc. cbn [step]. rewrite Hi. cbn. destruct d; congruence.
Qed.
Lemma inv_inv_is_new_l s h i c :
  nth_error (invs (final s h)) i = Some c ->
  invs (final s (h ++ [Derive DInvInv i])) = invs (final s h) ++ [cur (final s h)].
Proof. intros Hi. rewrite final_snoc. cbn [step]. rewrite Hi. reflexivity. Qed.

(* ---- Config objects built at one place and entered at another ("presets") ------------------------ *)

Lemma presets_mono s h : exists extra, presets (final s h) = presets s ++ extra.
Proof.
  revert s; induction h as [|e h IH]; intros s.
  - exists []. unfold final; cbn. now rewrite app_nil_r.
  - rewrite final_cons. destruct (IH (fst (step s e))) as [ex Hex]. rewrite Hex.
    assert (H1 : exists x, presets (fst (step s e)) = presets s ++ x).
    { destruct e.
      - exists []. cbn. now rewrite app_nil_r.
      - exists []. cbn [step]. destruct (stack s); cbn; now rewrite app_nil_r.
      - exists []. cbn [step]. destruct (stack s); cbn; now rewrite app_nil_r.
      - exists []. cbn. now rewrite app_nil_r.
      - exists []. cbn. now rewrite app_nil_r.
      - exists []. cbn. now rewrite app_nil_r.
      - exists []. destruct (step_derive_l s d i) as (_ & _ & ->). now rewrite app_nil_r.
      - exists []. destruct (step_apply_via_l s r i) as (_ & _ & _ & _ & ->). now rewrite app_nil_r.
      - eexists. cbn. reflexivity.
      - exists []. cbn [step]. destruct (nth_error (presets s) i); cbn; now rewrite app_nil_r. }
    destruct H1 as [x ->]. rewrite <- app_assoc. eexists; reflexivity.
Qed.

(* Config.__init__: the object built after h1 holds replace(configuration active at BUILD, kwargs),
   whatever happens afterwards (h2 arbitrary) *)
Lemma preset_built_l s h1 k h2 :
  nth_error (presets (final s (h1 ++ Build k :: h2))) (length (presets (final s h1)))
  = Some (replace (cur (final s h1)) k).
Proof.
  rewrite final_app, final_cons. cbn [step fst]. set (s1 := final s h1).
  destruct (presets_mono (mkT (cur s1) (stack s1) (invs s1) (jcache s1)
                              (presets s1 ++ [replace (cur s1) k])) h2) as [ex Hex].
  rewrite Hex. cbn [presets]. rewrite <- app_assoc. rewrite nth_error_app2 by lia.
  now rewrite Nat.sub_diag.
Qed.

(* Entering preset i after h makes ITS instance active (whatever was active: nothing is inherited at
   ENTER time); it is active again whenever the blocks opened inside are closed; and leaving the
   block - normally or by an exception - restores the configuration that was active when the block
   was ENTERED (cur (final s h)), wherever and whenever the object was BUILT. *)
Lemma enter_preset_l s h i c h' x :
  nth_error (presets (final s h)) i = Some c -> (x = Exit \/ x = ExitExc) ->
  well_nested (length (presets (final s h))) h' ->
  cur (final s (h ++ [EnterP i])) = c /\
  cur (final s (h ++ EnterP i :: h')) = c /\
  cur (final s (h ++ EnterP i :: h' ++ [x])) = cur (final s h) /\
  stack (final s (h ++ EnterP i :: h' ++ [x])) = stack (final s h).
Proof.
  intros Hn Hx Hw. set (s1 := final s h) in *.
  assert (E1 : fst (step s1 (EnterP i)) = mkT c (cur s1 :: stack s1) (invs s1) (jcache s1) (presets s1))
    by (cbn [step]; rewrite Hn; reflexivity).
  split; [|split].
  - rewrite final_snoc. fold s1. now rewrite E1.
  - rewrite final_app, final_cons. fold s1. rewrite E1.
    now destruct (restore_l (mkT c (cur s1 :: stack s1) (invs s1) (jcache s1) (presets s1)) h' Hw).
  - replace (h ++ EnterP i :: h' ++ [x]) with ((h ++ EnterP i :: h') ++ [x])
      by (rewrite <- app_assoc; reflexivity).
    rewrite final_snoc. rewrite final_app, final_cons. fold s1. rewrite E1.
    destruct (restore_l (mkT c (cur s1 :: stack s1) (invs s1) (jcache s1) (presets s1)) h' Hw) as [_ Hs].
    cbn [stack] in Hs. destruct Hx as [-> | ->]; cbn [step]; rewrite Hs; cbn; auto.
Qed.

(* the same for an inline block `with Config(k)` (object built where it is entered) *)
Lemma enter_inline_l s h k h' x :
  (x = Exit \/ x = ExitExc) -> well_nested (length (presets (final s h))) h' ->
  cur (final s (h ++ [Enter k])) = replace (cur (final s h)) k /\
  cur (final s (h ++ Enter k :: h')) = replace (cur (final s h)) k /\
  cur (final s (h ++ Enter k :: h' ++ [x])) = cur (final s h) /\
  stack (final s (h ++ Enter k :: h' ++ [x])) = stack (final s h).
Proof.
  intros Hx Hw. set (s1 := final s h) in *.
  split; [|split].
  - rewrite final_snoc. fold s1. reflexivity.
  - rewrite final_app, final_cons. fold s1. cbn [step fst].
    now destruct (restore_l (mkT (replace (cur s1) k) (cur s1 :: stack s1) (invs s1) (jcache s1) (presets s1)) h' Hw).
  - replace (h ++ Enter k :: h' ++ [x]) with ((h ++ Enter k :: h') ++ [x])
      by (rewrite <- app_assoc; reflexivity).
    rewrite final_snoc. rewrite final_app, final_cons. fold s1. cbn [step fst].
    destruct (restore_l (mkT (replace (cur s1) k) (cur s1 :: stack s1) (invs s1) (jcache s1) (presets s1)) h' Hw) as [_ Hs].
    cbn [stack] in Hs. destruct Hx as [-> | ->]; cbn [step]; rewrite Hs; cbn; auto.
Qed.

(* a lazy inverse created inside a preset block captures the preset's instance *)
Lemma capture_in_preset_l s h i c h2 :
  nth_error (presets (final s h)) i = Some c ->
  let j := length (invs (final s h)) in
  observe s (h ++ EnterP i :: NewInverse :: h2 ++ [ApplyInverse j]) =
  observe s (h ++ EnterP i :: NewInverse :: h2) ++ [Some c].
Proof.
  intros Hn j.
  assert (Hc : cur (final s (h ++ [EnterP i])) = c /\ invs (final s (h ++ [EnterP i])) = invs (final s h)).
  { rewrite final_snoc. cbn [step]. rewrite Hn. cbn. auto. }
  destruct Hc as [Hc Hi].
  pose proof (capture_l s (h ++ [EnterP i]) h2) as H. cbn zeta in H. rewrite Hc, Hi in H.
  rewrite <- !app_assoc in H. exact H.
Qed.

(* Re-entry: the stack discipline does not care whether two frames come from the same Config object.
   Entering preset i again while its own block is open is one more frame: the inner exit gives back
   the preset's instance, the outer exit the configuration active before the outer enter. *)
Lemma reenter_l s h i c x y :
  nth_error (presets (final s h)) i = Some c -> (x = Exit \/ x = ExitExc) -> (y = Exit \/ y = ExitExc) ->
  cur (final s (h ++ [EnterP i; EnterP i])) = c /\
  cur (final s (h ++ [EnterP i; EnterP i; x])) = c /\
  cur (final s (h ++ [EnterP i; EnterP i; x; y])) = cur (final s h) /\
  stack (final s (h ++ [EnterP i; EnterP i; x; y])) = stack (final s h).
Proof.
  intros Hn Hx Hy. rewrite !final_app. set (s1 := final s h) in *.
  rewrite !final_cons. cbn [step]. rewrite Hn. cbn [fst presets]. rewrite Hn. cbn [fst].
  destruct Hx as [-> | ->], Hy as [-> | ->]; cbn; auto.
Qed.
