From Coq Require Import ZArith List Bool Lia Arith.
From Furax Require Import Model.Config.
Import ListNotations.

Lemma run_app s h1 h2 :
  run s (h1 ++ h2) =
  let (s1, o1) := run s h1 in let (s2, o2) := run s1 h2 in (s2, o1 ++ o2).
Proof.
  revert s; induction h1 as [|e h1 IH]; intros s; cbn [run app].
  - destruct (run s h2); reflexivity.
  - destruct (step s e) as [s1 o]. rewrite IH. destruct (run s1 h1) as [s2 o1].
    destruct (run s2 h2); reflexivity.
Qed.

Lemma final_app s h1 h2 : final s (h1 ++ h2) = final (final s h1) h2.
Proof. unfold final. rewrite run_app. destruct (run s h1) as [s1 o1]; cbn [fst].
  destruct (run s1 h2); reflexivity. Qed.

Lemma final_cons s e h : final s (e :: h) = final (fst (step s e)) h.
Proof. unfold final; cbn [run]. destruct (step s e) as [s1 o]; cbn [fst].
  destruct (run s1 h); reflexivity. Qed.

(* The open blocks ks (innermost first) explain the variable and the token stack. *)
Inductive Inv (base : cfg) (st0 : list cfg) : cfg -> list cfg -> list kw -> Prop :=
| Inv0 : Inv base st0 base st0 []
| InvS c st ks k : Inv base st0 c st ks -> Inv base st0 (replace c k) (c :: st) (k :: ks).

Lemma Inv_cur base st0 c st ks :
  Inv base st0 c st ks -> c = fold_left replace (rev ks) base.
Proof.
  induction 1 as [|c st ks k H IH]; [reflexivity|].
  cbn [rev]. rewrite fold_left_app. cbn [fold_left]. now rewrite <- IH.
Qed.

Lemma Inv_nil base st0 c st : Inv base st0 c st [] -> c = base /\ st = st0.
Proof. inversion 1; auto. Qed.

Lemma track_inv base st0 h : forall s ks ks',
  track h ks = Some ks' ->
  Inv base st0 (cur s) (stack s) ks ->
  Inv base st0 (cur (final s h)) (stack (final s h)) ks'.
Proof.
  induction h as [|e h IH]; intros s ks ks' Ht HI.
  - cbn in Ht. inversion Ht; subst. exact HI.
  - rewrite final_cons. destruct e; cbn [track] in Ht.
    + eapply IH; [exact Ht|]. cbn. constructor. exact HI.
    + destruct ks as [|k ks0]; [discriminate|]. eapply IH; [exact Ht|].
      inversion HI as [|c st ks1 k1 H1 Hc Hs Hk]; subst. cbn [step]. rewrite <- Hs. cbn. exact H1.
    + destruct ks as [|k ks0]; [discriminate|]. eapply IH; [exact Ht|].
      inversion HI as [|c st ks1 k1 H1 Hc Hs Hk]; subst. cbn [step]. rewrite <- Hs. cbn. exact H1.
    + eapply IH; [exact Ht|]. cbn. exact HI.
    + eapply IH; [exact Ht|]. cbn. exact HI.
    + eapply IH; [exact Ht|]. cbn. exact HI.
Qed.

(* leaving every block restores exactly what was active before it, at any depth,
   through normal and exceptional exits alike *)
Lemma restore_l s h :
  well_nested h -> cur (final s h) = cur s /\ stack (final s h) = stack s.
Proof.
  intros Hw. apply (Inv_nil (cur s) (stack s)).
  eapply track_inv; [exact Hw|]. constructor.
Qed.

(* inside nested blocks the active configuration is the outer one overridden level by level *)
Lemma innermost_l s h ks :
  track h [] = Some ks ->
  cur (final s h) = fold_left replace (rev ks) (cur s).
Proof.
  intros Ht. eapply Inv_cur. eapply track_inv; [exact Ht|]. constructor.
Qed.

Lemma ends_with_defaults_l h : well_nested h -> cur (final init h) = default_cfg.
Proof. intros H. now destruct (restore_l init h H). Qed.

(* a Read observes the variable *)
Lemma read_l s h : observe s (h ++ [Read]) = observe s h ++ [Some (cur (final s h))].
Proof. unfold observe, final. rewrite run_app. destruct (run s h) as [s1 o1]; reflexivity. Qed.

(* captured configurations: the list only grows at the end *)
Lemma invs_mono s h : exists extra, invs (final s h) = invs s ++ extra.
Proof.
  revert s; induction h as [|e h IH]; intros s.
  - exists []. unfold final; cbn. now rewrite app_nil_r.
  - rewrite final_cons. destruct (IH (fst (step s e))) as [ex Hex]. rewrite Hex.
    destruct e; cbn [step fst invs]; try (eexists; reflexivity).
    + destruct (stack s); cbn; eexists; reflexivity.
    + destruct (stack s); cbn; eexists; reflexivity.
    + rewrite <- app_assoc. eexists; reflexivity.
Qed.

(* A lazy inverse created after h1 keeps using the configuration active at that moment,
   whatever happens afterwards (h2 arbitrary, not even well nested). *)
Lemma capture_l s h1 h2 :
  let i := length (invs (final s h1)) in
  observe s (h1 ++ NewInverse :: h2 ++ [ApplyInverse i]) =
  observe s (h1 ++ NewInverse :: h2) ++ [Some (cur (final s h1))].
Proof.
  intros i. replace (h1 ++ NewInverse :: h2 ++ [ApplyInverse i])
    with ((h1 ++ NewInverse :: h2) ++ [ApplyInverse i]) by (rewrite <- app_assoc; reflexivity).
  unfold observe. rewrite run_app.
  destruct (run s (h1 ++ NewInverse :: h2)) as [s2 o2] eqn:E. cbn [run step snd].
  f_equal. f_equal.
  assert (Hs2 : s2 = final s (h1 ++ NewInverse :: h2)) by (unfold final; now rewrite E).
  rewrite Hs2, final_app, final_cons. cbn [step fst].
  set (s1 := final s h1) in *.
  destruct (invs_mono (mkT (cur s1) (stack s1) (invs s1 ++ [cur s1])) h2) as [ex Hex].
  rewrite Hex. cbn [invs]. rewrite <- app_assoc. rewrite nth_error_app2 by (subst i; lia).
  subst i. now rewrite Nat.sub_diag.
Qed.

(* Threads and contexts: each thread's state and observations are those of its own history run
   alone, for every interleaving (l is an arbitrary global schedule). *)
Lemma upd_same g t s : upd g t s t = s.
Proof. unfold upd. now rewrite Nat.eqb_refl. Qed.
Lemma upd_other g t s t' : t' <> t -> upd g t s t' = g t'.
Proof. unfold upd. intros H. apply Nat.eqb_neq in H. now rewrite H. Qed.

Definition only_events (l : list gevent) : Prop :=
  forall e, In e l -> match e with Ev _ _ => True | _ => False end.

Lemma isolation_l l : forall g t,
  (forall e, In e l -> touches t e = true -> match e with Ev _ _ => True | _ => False end) ->
  fst (grun g l) t = final (g t) (project t l) /\
  obs_of t (snd (grun g l)) = observe (g t) (project t l).
Proof.
  induction l as [|e l IH]; intros g t Hev.
  - cbn. auto.
  - cbn [grun]. destruct (gstep g e) as [g1 o] eqn:Eg.
    destruct (grun g1 l) as [g2 os] eqn:Er. cbn [fst snd].
    assert (Hl : forall e0, In e0 l -> touches t e0 = true -> match e0 with Ev _ _ => True | _ => False end)
      by (intros e0 Hi; apply Hev; now right).
    specialize (IH g1 t Hl). rewrite Er in IH. cbn [fst snd] in IH. destruct IH as [IH1 IH2].
    destruct e as [t' e|t1 t2|t1]; cbn [gstep] in Eg.
    + destruct (step (g t') e) as [s1 o1] eqn:Es. inversion Eg; subst g1 o; clear Eg.
      cbn [project obs_of]. destruct (Nat.eqb t' t) eqn:Et.
      * apply Nat.eqb_eq in Et; subst t'. rewrite upd_same in IH1, IH2.
        rewrite final_cons, Es. cbn [fst]. split; [exact IH1|].
        unfold observe in *. cbn [run]. rewrite Es. destruct (run s1 (project t l)); cbn [snd] in *.
        now rewrite IH2.
      * apply Nat.eqb_neq in Et. rewrite upd_other in IH1, IH2 by congruence. auto.
    + inversion Eg; subst g1 o; clear Eg. cbn [project].
      assert (Hne : t2 <> t).
      { intros ->. specialize (Hev (Fork t1 t) (or_introl eq_refl)). cbn in Hev.
        rewrite Nat.eqb_refl in Hev. exact (Hev eq_refl). }
      rewrite upd_other in IH1, IH2 by congruence. auto.
    + inversion Eg; subst g1 o; clear Eg. cbn [project].
      assert (Hne : t1 <> t).
      { intros ->. specialize (Hev (Spawn t) (or_introl eq_refl)). cbn in Hev.
        rewrite Nat.eqb_refl in Hev. exact (Hev eq_refl). }
      rewrite upd_other in IH1, IH2 by congruence. auto.
Qed.

(* a forked context / spawned thread starts from a copy / from the defaults and then evolves alone *)
Lemma fork_copy_l g t t' : cur (fst (gstep g (Fork t t')) t') = cur (g t).
Proof. cbn. now rewrite upd_same. Qed.
Lemma spawn_default_l g t : cur (fst (gstep g (Spawn t)) t) = default_cfg.
Proof. cbn. now rewrite upd_same. Qed.
(* an event of another thread never changes this thread's state *)
Lemma frame_l g e t : touches t e = false -> fst (gstep g e) t = g t.
Proof.
  destruct e as [t' e|t1 t2|t1]; cbn; intros H.
  - destruct (step (g t') e). cbn. apply upd_other. intros ->. now rewrite Nat.eqb_refl in H.
  - apply upd_other. intros ->. now rewrite Nat.eqb_refl in H.
  - apply upd_other. intros ->. now rewrite Nat.eqb_refl in H.
Qed.

(* The effect of applying a lazy inverse (mv) is that of the configuration captured at creation,
   and the effect tells every setting apart wherever that setting can matter. *)
Lemma capture_effect_l fails s h1 h2 :
  let i := length (invs (final s h1)) in
  effects fails (observe s (h1 ++ NewInverse :: h2 ++ [ApplyInverse i])) =
  effects fails (observe s (h1 ++ NewInverse :: h2)) ++ [Some (mv fails (cur (final s h1)))].
Proof.
  intros i. unfold effects. subst i. rewrite capture_l. rewrite map_app. reflexivity.
Qed.

Lemma mv_returned_l fails c s o k :
  mv fails c = Returned s o k -> c_solver c = s /\ c_options c = o /\ c_callback c = k.
Proof.
  unfold mv. destruct (fails (c_solver c) (c_options c) && negb (c_throw c =? 0)); [discriminate|].
  intros H; inversion H; auto.
Qed.

Lemma mv_raised_l fails c :
  mv fails c = Raised <-> fails (c_solver c) (c_options c) = true /\ c_throw c <> 0%Z.
Proof.
  unfold mv. destruct (fails (c_solver c) (c_options c)); cbn [andb].
  - destruct (Z.eqb_spec (c_throw c) 0) as [E|E]; cbn [negb]; split.
    + discriminate.
    + intros [_ H]; contradiction.
    + auto.
    + reflexivity.
  - split; [discriminate|]. intros [H _]; discriminate.
Qed.

(* a probe on which the solve fails and a probe on which it succeeds determine every setting
   (solver_throw up to its truth value, which is all lineax looks at) *)
Lemma effects_determine_l c c' :
  mv all_fail c = mv all_fail c' -> mv none_fail c = mv none_fail c' ->
  (c_throw c =? 0)%Z = (c_throw c' =? 0)%Z /\ c_solver c = c_solver c' /\
  c_options c = c_options c' /\ c_callback c = c_callback c'.
Proof.
  unfold mv, all_fail, none_fail. cbn [andb].
  destruct (c_throw c =? 0)%Z, (c_throw c' =? 0)%Z; cbn [negb]; intros H1 H2;
    try discriminate; inversion H2; auto.
Qed.

(* changing one setting alone changes the effect, in the situations where that setting matters *)
Lemma throw_visible_l fails c c' :
  fails (c_solver c) (c_options c) = true -> c_solver c' = c_solver c -> c_options c' = c_options c ->
  (c_throw c =? 0)%Z <> (c_throw c' =? 0)%Z -> mv fails c <> mv fails c'.
Proof.
  intros Hf Hs Ho Ht. unfold mv. rewrite Hs, Ho, Hf. cbn [andb].
  destruct (c_throw c =? 0)%Z, (c_throw c' =? 0)%Z; cbn [negb]; try congruence; discriminate.
Qed.
Lemma others_visible_l fails c c' :
  (fails (c_solver c) (c_options c) = false \/ c_throw c = 0%Z) ->
  (c_solver c <> c_solver c' \/ c_options c <> c_options c' \/ c_callback c <> c_callback c') ->
  mv fails c <> mv fails c'.
Proof.
  intros Hok Hd E.
  assert (Hr : mv fails c = Returned (c_solver c) (c_options c) (c_callback c)).
  { unfold mv. destruct Hok as [H|H]; rewrite H; [reflexivity|]. rewrite andb_false_r. reflexivity. }
  rewrite E in Hr. apply mv_returned_l in Hr. destruct Hr as (H1 & H2 & H3).
  destruct Hd as [H|[H|H]]; congruence.
Qed.
