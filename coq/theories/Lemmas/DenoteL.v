(* Unfolding equations of `denote` and basic facts about chains, sums and scaling. *)
From Coq Require Import List Bool Arith ZArith NArith QArith String Lia Ring.
From Furax Require Import Base.Pytree Model.Op Model.Algebra Model.Denote.
Import ListNotations.
Set Implicit Arguments.
Local Close Scope Q_scope.
Local Open Scope nat_scope.

Section DenL.
  Variable K : Type.
  Variables (k0 k1 : K) (kadd kmul ksub : K -> K -> K) (kopp : K -> K).
  Hypothesis Kth : ring_theory k0 k1 kadd kmul ksub kopp (@eq K).
  Add Ring Kring : Kth.
  Notation op := (op K).
  Notation value := (value K).
  Variable leafsem : op -> value -> option value.
  Notation denote := (denote kadd kmul leafsem).
  Notation chain := (chain kadd kmul leafsem).
  Notation vadd := (vadd kadd).
  Notation vsum := (vsum kadd).
  Notation vscale := (vscale kmul).

  Lemma denote_comp i l x : denote (Comp i l) x = chain l x.
  Proof. cbn [Denote.denote]. unfold Denote.chain. induction l as [|e r IH]; cbn; [reflexivity|]. now rewrite IH. Qed.

  Lemma denote_add i l x : denote (AddOp i l) x = obind (omapl (fun e => denote e x) l) vsum.
  Proof. cbn [Denote.denote]. f_equal. induction l as [|e r IH]; cbn; [reflexivity|]. now rewrite IH. Qed.

  Definition denote_list (l : list op) (xs : list value) : option (list value) := omap2 denote l xs.

  Lemma denote_block i b td l x :
    denote (Block i b td l) x =
    if negb (Nat.eqb (List.length l) (nleaves td)) then None else
    match b with
    | BDiag => obind (split_prefix td x) (fun xs => option_map (fun ys => build x td ys) (denote_list l xs))
    | BCol => option_map (fun ys => build x td ys) (omapl (fun e => denote e x) l)
    | BRow => obind (split_prefix td x) (fun xs => obind (denote_list l xs) vsum)
    end.
  Proof.
    cbn [Denote.denote]. destruct (negb (Nat.eqb (List.length l) (nleaves td))); [reflexivity|].
    destruct b.
    - destruct (split_prefix td x) as [xs|]; [|reflexivity]. cbn [obind]. f_equal.
      unfold denote_list. revert xs. induction l as [|e r IH]; intros [|y ys]; cbn; try reflexivity. now rewrite IH.
    - destruct (split_prefix td x) as [xs|]; [|reflexivity]. cbn [obind]. f_equal.
      unfold denote_list. revert xs. induction l as [|e r IH]; intros [|y ys]; cbn; try reflexivity. now rewrite IH.
    - f_equal. induction l as [|e r IH]; cbn; [reflexivity|]. now rewrite IH.
  Qed.

  Lemma chain_nil x : chain [] x = Some x.
  Proof. reflexivity. Qed.
  Lemma chain_cons e l x : chain (e :: l) x = obind (chain l x) (denote e).
  Proof. reflexivity. Qed.
  Lemma chain_app l1 l2 x : chain (l1 ++ l2) x = obind (chain l2 x) (chain l1).
  Proof.
    induction l1 as [|e r IH]; cbn [app].
    - destruct (chain l2 x); reflexivity.
    - rewrite chain_cons, IH. destruct (chain l2 x) as [y|]; cbn [obind]; [|reflexivity].
      now rewrite chain_cons.
  Qed.
  Lemma chain_single e x : chain [e] x = denote e x.
  Proof. reflexivity. Qed.

  (* "e' does whatever e does" *)
  Definition den_le (e e' : op) : Prop := forall x y, denote e x = Some y -> denote e' x = Some y.
  Definition chain_le (l l' : list op) : Prop := forall x y, chain l x = Some y -> chain l' x = Some y.

  Lemma chain_le_refl l : chain_le l l.
  Proof. intros x y H; exact H. Qed.
  Lemma chain_le_trans a b c : chain_le a b -> chain_le b c -> chain_le a c.
  Proof. intros H1 H2 x y H; auto. Qed.
  Lemma chain_le_app a a' b b' : chain_le a a' -> chain_le b b' -> chain_le (a ++ b) (a' ++ b').
  Proof.
    intros Ha Hb x y. rewrite !chain_app. destruct (chain b x) as [z|] eqn:E; [|discriminate].
    rewrite (Hb _ _ E). cbn [obind]. apply Ha.
  Qed.
  Lemma chain_le_splice pre mid mid' post :
    chain_le mid mid' -> chain_le (pre ++ mid ++ post) (pre ++ mid' ++ post).
  Proof. intros H. apply chain_le_app; [apply chain_le_refl|]. apply chain_le_app; [exact H|apply chain_le_refl]. Qed.
  Lemma chain_le_Forall2 l l' : Forall2 den_le l l' -> chain_le l l'.
  Proof.
    induction 1 as [|e e' r r' He _ IH]; [apply chain_le_refl|].
    intros x y. rewrite !chain_cons. destruct (chain r x) as [z|] eqn:E; [|discriminate].
    rewrite (IH _ _ E). cbn [obind]. apply He.
  Qed.

  (* scaling *)
  Lemma vscale_vscale a b x : vscale a (vscale b x) = vscale (kmul a b) x.
  Proof.
    unfold Denote.vscale. induction x as [d|k cs IH] using pt_ind'; cbn.
    - f_equal. rewrite map_map. apply map_ext. intros; ring.
    - f_equal. rewrite map_map. induction IH as [|c r Hc _ IHr]; cbn; [reflexivity|]. now rewrite Hc, IHr.
  Qed.
  Lemma vscale_one x : vscale k1 x = x.
  Proof.
    unfold Denote.vscale. induction x as [d|k cs IH] using pt_ind'; cbn.
    - f_equal. rewrite <- (map_id d) at 2. apply map_ext. intros; ring.
    - f_equal. induction IH as [|c r Hc _ IHr]; cbn; [reflexivity|]. now rewrite Hc, IHr.
  Qed.

  Lemma vadd_vscale k a b : vadd (vscale k a) (vscale k b) = option_map (vscale k) (vadd a b).
  Proof.
    unfold Denote.vscale. revert b. induction a as [u|kd cs IH] using pt_ind'; intros [v|kd' cs']; cbn; try reflexivity.
    - rewrite !map_length. destruct (Nat.eqb (List.length u) (List.length v)); [|reflexivity]. cbn. f_equal. f_equal.
      revert v. induction u as [|a u IHu]; intros [|b v]; cbn; try reflexivity. f_equal; [ring|apply IHu].
    - destruct (ckind_eqb kd kd'); [|reflexivity].
      match goal with |- option_map _ ?A = option_map _ (option_map _ ?B) =>
        assert (HAB : A = option_map (map (pmap (map (kmul k)))) B) end.
      { revert cs'. induction IH as [|c r Hc _ IHr]; intros [|c' r']; cbn; try reflexivity.
        rewrite Hc. destruct (Denote.vadd kadd c c') as [z|]; cbn; [|reflexivity].
        rewrite IHr.
        match goal with |- context [option_map _ ?G] => destruct G end; reflexivity. }
      rewrite HAB.
      match goal with |- context [option_map _ (option_map _ ?B)] => destruct B end; reflexivity.
  Qed.

  Lemma vsum_vscale k ys : vsum (map (vscale k) ys) = option_map (vscale k) (vsum ys).
  Proof.
    destruct ys as [|y r]; [reflexivity|]. cbn [Denote.vsum map].
    assert (H : forall acc, fold_left (fun acc z => obind acc (fun a => vadd a z)) (map (vscale k) r) (option_map (vscale k) acc)
                          = option_map (vscale k) (fold_left (fun acc z => obind acc (fun a => vadd a z)) r acc)).
    { induction r as [|z r IH]; intros acc; cbn [fold_left map]; [reflexivity|].
      rewrite <- IH. f_equal. destruct acc as [a|]; cbn; [|reflexivity]. apply vadd_vscale. }
    apply (H (Some y)).
  Qed.
End DenL.
