(* Proofs about Model/Diagonal.v (property C11). *)
From Coq Require Import ZArith NArith List Bool Lia Permutation.
From Furax Require Import Model.Axes Lemmas.AxesL Model.Diagonal.
Import ListNotations.
Open Scope nat_scope.

Lemma scalar_axes_length : forall nd a, length (scalar_axes nd a) = nd.
Proof. intros. unfold scalar_axes. destruct (0 <=? a)%Z; rewrite map_length, seq_length; reflexivity. Qed.
