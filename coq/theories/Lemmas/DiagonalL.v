(* Proofs about Model/Diagonal.v (property C11).  The moveaxis permutation model and the n-d index
   lemmas are those of Lemmas/AxesL.v (imported read-only). *)
From Coq Require Import ZArith NArith List Bool Lia Permutation.
From Furax Require Import Model.Axes Lemmas.AxesL Model.Diagonal.
Import ListNotations.
Open Scope nat_scope.

(* ========================================================================================== *)
(* 1. axis_destination forms *)

Lemma scalar_axes_length : forall nd a, length (scalar_axes nd a) = nd.
Proof. intros. unfold scalar_axes. destruct (0 <=? a)%Z; rewrite map_length, seq_length; reflexivity. Qed.

Lemma nth_map_seq0 : forall (A : Type) (f : nat -> A) n k d, k < n -> nth k (map f (seq 0 n)) d = f k.
Proof.
  intros A f n k d Hk. rewrite (nth_indep _ d (f 0)) by (rewrite map_length, seq_length; exact Hk).
  rewrite map_nth. rewrite seq_nth by exact Hk. reflexivity.
Qed.

(* a >= 0: (a, a+1, ..., a+nd-1);  a < 0: (a-nd+1, ..., a-1, a) *)
Lemma scalar_axes_nth : forall nd a k, k < nd ->
  nth k (scalar_axes nd a) 0%Z =
  (if (0 <=? a)%Z then a + Z.of_nat k else a - Z.of_nat (nd - 1 - k))%Z.
Proof.
  intros nd a k Hk. unfold scalar_axes. destruct (0 <=? a)%Z; rewrite nth_map_seq0 by exact Hk; lia.
Qed.

Lemma scalar_forms : forall cls v a ins,
  Diag_ctor cls v (AInt a) ins =
  Diag_ctor cls v (ASeq (match v with VLeaf vs => scalar_axes (length vs) a | VTree => [] end)) ins.
Proof. intros cls [vs|] a ins; reflexivity. Qed.

(* ========================================================================================== *)
(* 2. _normalize_axes, left/right broadcast dimensions *)

Lemma has_dup_false : forall l, has_dup l = false <-> NoDup l.
Proof.
  induction l as [|a l IH]; simpl.
  - split; [constructor | reflexivity].
  - rewrite orb_false_iff, IH. split.
    + intros [H1 H2]. constructor; [|exact H2]. intros Hin.
      assert (E : existsb (Z.eqb a) l = true) by (apply existsb_exists; exists a; split; [exact Hin | apply Z.eqb_refl]).
      congruence.
    + intros H. inversion H as [|? ? Hn Hd]; subst. split; [|exact Hd].
      destruct (existsb (Z.eqb a) l) eqn:E; [|reflexivity].
      apply existsb_exists in E. destruct E as [x [Hx Ex]]. apply Z.eqb_eq in Ex. subst. contradiction.
Qed.

Lemma normalize_axes_ok : forall axes r ax,
  normalize_axes axes r = Ok ax <-> (ax = map (norm_axis r) axes /\ NoDup ax).
Proof.
  intros axes r ax. unfold normalize_axes.
  destruct (has_dup (map (norm_axis r) axes)) eqn:E.
  - split; [discriminate|]. intros [E1 E2]. subst. apply has_dup_false in E2. congruence.
  - apply has_dup_false in E. split.
    + intros H. inversion H. subst. split; [reflexivity | exact E].
    + intros [E1 _]. subst. reflexivity.
Qed.

Lemma normalize_axes_err : forall axes r e,
  normalize_axes axes r = Err e -> e = ValueError /\ ~ NoDup (map (norm_axis r) axes).
Proof.
  intros axes r e. unfold normalize_axes. destruct (has_dup (map (norm_axis r) axes)) eqn:E; [|discriminate].
  intros H. inversion H. split; [reflexivity|]. intros ND. apply has_dup_false in ND. congruence.
Qed.

Lemma fold_min_le : forall l a x, In x (a :: l) -> (fold_right Z.min a l <= x)%Z.
Proof.
  induction l as [|b l IH]; intros a x H; simpl in *.
  - destruct H as [H|[]]. lia.
  - destruct H as [H|[H|H]].
    + subst. specialize (IH x x (or_introl eq_refl)). lia.
    + subst. lia.
    + specialize (IH a x (or_intror H)). lia.
Qed.

Lemma fold_max_ge : forall l a x, In x (a :: l) -> (x <= fold_right Z.max a l)%Z.
Proof.
  induction l as [|b l IH]; intros a x H; simpl in *.
  - destruct H as [H|[]]. lia.
  - destruct H as [H|[H|H]].
    + subst. specialize (IH x x (or_introl eq_refl)). lia.
    + subst. lia.
    + specialize (IH a x (or_intror H)). lia.
Qed.

Lemma fold_min_In : forall l a, In (fold_right Z.min a l) (a :: l).
Proof.
  induction l as [|b l IH]; intros a; simpl; [left; reflexivity|].
  destruct (IH a) as [H|H].
  - destruct (Z.min_spec b (fold_right Z.min a l)) as [[_ E]|[_ E]]; rewrite E; [right; left; reflexivity|].
    left. exact H.
  - destruct (Z.min_spec b (fold_right Z.min a l)) as [[_ E]|[_ E]]; rewrite E; [right; left; reflexivity|].
    right. right. exact H.
Qed.

Lemma fold_max_In : forall l a, In (fold_right Z.max a l) (a :: l).
Proof.
  induction l as [|b l IH]; intros a; simpl; [left; reflexivity|].
  destruct (IH a) as [H|H].
  - destruct (Z.max_spec b (fold_right Z.max a l)) as [[_ E]|[_ E]]; rewrite E; [left; exact H|].
    right; left; reflexivity.
  - destruct (Z.max_spec b (fold_right Z.max a l)) as [[_ E]|[_ E]]; rewrite E; [right; right; exact H|].
    right; left; reflexivity.
Qed.

(* what the two numbers are: the least L, R >= 0 such that every axis + L lies in [0, L + r + R) *)
Definition lr_spec (ax : list Z) (r L R : nat) : Prop :=
  (forall a, In a ax -> 0 <= a + Z.of_nat L < Z.of_nat (L + R + r))%Z /\
  (L = 0 \/ In (- Z.of_nat L)%Z ax) /\
  (R = 0 \/ In (Z.of_nat (r + R) - 1)%Z ax).

Lemma lr_dims_spec : forall ax r L R, lr_dims ax r = Ok (L, R) -> ax <> [] /\ lr_spec ax r L R.
Proof.
  intros [|a l] r L R H; simpl in H; [discriminate|]. inversion H as [[HL HR]]. clear H.
  split; [discriminate|].
  set (mn := fold_right Z.min a l) in *. set (mx := fold_right Z.max a l) in *.
  pose proof (fold_min_In l a) as Hmn. pose proof (fold_max_In l a) as Hmx. fold mn in Hmn. fold mx in Hmx.
  unfold lr_spec. split; [|split].
  - intros x Hx. pose proof (fold_min_le l a x Hx) as H1. pose proof (fold_max_ge l a x Hx) as H2.
    fold mn in H1. fold mx in H2. lia.
  - destruct (Z_lt_le_dec mn 0) as [Hneg|Hpos].
    + right. match goal with |- In ?t _ => replace t with mn by lia end. exact Hmn.
    + left. lia.
  - destruct (Z_lt_le_dec (mx - Z.of_nat r + 1) 1) as [Hs|Hb].
    + left. lia.
    + right. match goal with |- In ?t _ => replace t with mx by lia end. exact Hmx.
Qed.

Lemma lr_dims_nonempty : forall ax r, ax <> [] -> exists L R, lr_dims ax r = Ok (L, R).
Proof. intros [|a l] r H; [congruence|]. simpl. eauto. Qed.

Lemma lr_dims_err : forall ax r e, lr_dims ax r = Err e -> ax = [] /\ e = ValueError.
Proof. intros [|a l] r e H; simpl in H; inversion H. split; reflexivity. Qed.

(* ========================================================================================== *)
(* 3. the reshaped diagonal: jnp.moveaxis(diagonal.reshape(shape + (1,)*n), range(nd), axes + left) *)

Definition shifted (L : nat) (ax : list Z) : list nat := map (fun a => Z.to_nat (a + Z.of_nat L)%Z) ax.

(* its shape: the k-th value axis at position ax_k + left, unit axes elsewhere *)
Definition dspec (vs : shape) (axn : list nat) (T : nat) : shape :=
  map (fun m => nth (index_of m axn) vs 1) (seq 0 T).

Lemma nth_ones : forall n k d, k < n -> nth k (ones n) d = 1.
Proof. unfold ones. induction n as [|n IH]; intros k d Hk; [lia|]. destruct k; simpl; [reflexivity | apply IH; lia]. Qed.

Lemma ones_length : forall n, length (ones n) = n.
Proof. intros. apply repeat_length. Qed.

Lemma index_of_notin : forall m l, ~ In m l -> index_of m l = length l.
Proof.
  induction l as [|x l IH]; intros H; simpl; [reflexivity|].
  destruct (x =? m) eqn:E; [apply Nat.eqb_eq in E; subst; exfalso; apply H; left; reflexivity|].
  f_equal. apply IH. intros Hin. apply H. right. exact Hin.
Qed.

Lemma NoDup_map_inj_in : forall (A B : Type) (f : A -> B) l,
  (forall x y, In x l -> In y l -> f x = f y -> x = y) -> NoDup l -> NoDup (map f l).
Proof.
  intros A B f. induction l as [|a l IH]; intros Hinj ND; simpl; [constructor|].
  inversion ND as [|? ? Hn Hd]; subst. constructor.
  - intros Hin. apply in_map_iff in Hin. destruct Hin as [x [E Hx]].
    assert (x = a) by (apply Hinj; [right; exact Hx | left; reflexivity | exact E]). subst. contradiction.
  - apply IH; [|exact Hd]. intros x y Hx Hy. apply Hinj; right; assumption.
Qed.

Lemma nz_of_nat : forall T k, nz T (Z.of_nat k) = k.
Proof. intros. unfold nz. destruct (Z.of_nat k <? 0)%Z eqn:E; [apply Z.ltb_lt in E; lia | lia]. Qed.

Section Plan.
  Variables (vs : shape) (ax : list Z) (r L R : nat).
  Hypothesis Hlen : length ax = length vs.
  Hypothesis HND : NoDup ax.
  Hypothesis Hrange : forall a, In a ax -> (0 <= a + Z.of_nat L < Z.of_nat (L + R + r))%Z.
  Let T := L + R + r.
  Let axn := shifted L ax.
  Let nd := length vs.
  Let src := map Z.of_nat (seq 0 (length ax)).
  Let dst := map (fun a => (a + Z.of_nat L)%Z) ax.
  Let p := moveaxis_order T (seq 0 nd) axn.

  Lemma axn_length : length axn = nd.
  Proof. unfold axn, shifted. rewrite map_length. exact Hlen. Qed.

  Lemma axn_lt : forall x, In x axn -> x < T.
  Proof.
    intros x Hx. unfold axn, shifted in Hx. apply in_map_iff in Hx. destruct Hx as [a [E Ha]].
    specialize (Hrange a Ha). unfold T. lia.
  Qed.

  Lemma axn_NoDup : NoDup axn.
  Proof.
    unfold axn, shifted. apply NoDup_map_inj_in; [|exact HND].
    intros x y Hx Hy E. pose proof (Hrange x Hx). pose proof (Hrange y Hy). lia.
  Qed.

  Lemma nd_le_T : nd <= T.
  Proof.
    rewrite <- axn_length. rewrite <- (seq_length T 0).
    apply NoDup_incl_length; [apply axn_NoDup|]. intros x Hx. apply in_seq. pose proof (axn_lt x Hx). lia.
  Qed.

  Lemma padded_length : length (diag_padded_shape vs L R r) = T.
  Proof.
    unfold diag_padded_shape. rewrite app_length, ones_length. pose proof nd_le_T. unfold nd, T in *. lia.
  Qed.

  Lemma nz_src : map (nz T) src = seq 0 nd.
  Proof.
    unfold src. rewrite map_map. rewrite Hlen. fold nd.
    rewrite (map_ext _ (fun k => k)) by (intros; apply nz_of_nat). apply map_id.
  Qed.

  Lemma nz_dst : map (nz T) dst = axn.
  Proof.
    unfold dst, axn, shifted. rewrite map_map. apply map_ext_in. intros a Ha.
    specialize (Hrange a Ha). unfold nz. destruct (a + Z.of_nat L <? 0)%Z eqn:E; [apply Z.ltb_lt in E; lia | reflexivity].
  Qed.

  Lemma plan_legalZ : legalZ T src dst.
  Proof.
    unfold legalZ. repeat split.
    - unfold src. rewrite Forall_forall. intros x Hx. apply in_map_iff in Hx. destruct Hx as [k [E Hk]].
      apply in_seq in Hk. pose proof nd_le_T. unfold nd in *. unfold in_rangeZ. lia.
    - unfold dst. rewrite Forall_forall. intros x Hx. apply in_map_iff in Hx. destruct Hx as [a [E Ha]].
      specialize (Hrange a Ha). unfold in_rangeZ, T. lia.
    - unfold src, dst. rewrite !map_length, seq_length. reflexivity.
    - rewrite nz_src. apply seq_NoDup.
    - rewrite nz_dst. apply axn_NoDup.
  Qed.

  Lemma plan_legal : legal T (seq 0 nd) axn.
  Proof. pose proof (legalZ_legal _ _ _ plan_legalZ) as H. rewrite nz_src, nz_dst in H. exact H. Qed.

  Lemma plan_perm : moveaxis_perm T src dst = Ok p.
  Proof. rewrite moveaxis_perm_legal by exact plan_legalZ. rewrite nz_src, nz_dst. reflexivity. Qed.

  Lemma p_spec : mspec T (seq 0 nd) axn p.
  Proof. apply order_spec. exact plan_legal. Qed.

  (* p[ax_k + left] = k *)
  Lemma p_at_axis : forall k, k < nd -> nth (nth k axn 0) p 0 = k.
  Proof.
    intros k Hk. destruct p_spec as (_ & _ & _ & H & _). rewrite seq_length in H.
    rewrite H by exact Hk. apply seq_nth. exact Hk.
  Qed.

  Lemma dspec_length : length (dspec vs axn T) = T.
  Proof. unfold dspec. rewrite map_length, seq_length. reflexivity. Qed.

  Lemma dspec_at_axis : forall k, k < nd -> nth (nth k axn 0) (dspec vs axn T) 0 = nth k vs 0.
  Proof.
    intros k Hk. unfold dspec.
    assert (Hm : nth k axn 0 < T) by (apply axn_lt, nth_In; rewrite axn_length; exact Hk).
    rewrite nth_map_seq0 by exact Hm.
    rewrite index_of_nth by (try apply axn_NoDup; rewrite axn_length; exact Hk).
    apply nth_indep. exact Hk.
  Qed.

  Lemma dspec_off_axis : forall m, m < T -> ~ In m axn -> nth m (dspec vs axn T) 0 = 1.
  Proof.
    intros m Hm Hn. unfold dspec. rewrite nth_map_seq0 by exact Hm.
    rewrite index_of_notin by exact Hn. rewrite axn_length. apply nth_overflow. unfold nd. lia.
  Qed.

  Lemma plan_dshape : permute 0 (diag_padded_shape vs L R r) p = dspec vs axn T.
  Proof.
    destruct p_spec as (Hlp & NDp & Hbp & Hk & _).
    apply (nth_ext _ _ 0 0); [rewrite permute_length, dspec_length; exact Hlp|].
    intros m Hm. rewrite permute_length, Hlp in Hm.
    rewrite nth_permute by (rewrite Hlp; exact Hm).
    destruct (mem_nat m axn) eqn:E.
    - apply mem_nat_In in E. destruct (In_nth _ _ 0 E) as [k [Hk1 Hk2]]. rewrite axn_length in Hk1.
      rewrite <- Hk2. rewrite p_at_axis by exact Hk1. rewrite dspec_at_axis by exact Hk1.
      unfold diag_padded_shape. apply app_nth1. exact Hk1.
    - pose proof (spec_mem_equiv T _ _ p plan_legal p_spec m Hm) as Em. rewrite E in Em.
      apply mem_nat_false in Em. apply mem_nat_false in E.
      rewrite dspec_off_axis by assumption.
      assert (Hpm : nth m p 0 < T) by (apply Hbp, nth_In; lia).
      assert (Hge : nd <= nth m p 0).
      { destruct (le_lt_dec nd (nth m p 0)) as [H|H]; [exact H|]. exfalso. apply Em. apply in_seq. lia. }
      unfold diag_padded_shape. rewrite app_nth2 by exact Hge. apply nth_ones. unfold nd, T in *. lia.
  Qed.
End Plan.

(* ========================================================================================== *)
(* 4. broadcasting of shapes *)

Definition compat (a b : nat) : Prop := a = b \/ a = 1 \/ b = 1.
Definition bmax (a b : nat) : nat := if a =? 1 then b else a.
Definition zipw (f : nat -> nat -> nat) (a b : list nat) : list nat :=
  map (fun q => f (fst q) (snd q)) (combine a b).

Lemma bc1_ok_iff : forall a b c, bc1 a b = Ok c <-> (compat a b /\ c = bmax a b).
Proof.
  intros a b c. unfold bc1, compat, bmax.
  destruct (Nat.eqb_spec a b) as [E1|E1]; destruct (Nat.eqb_spec a 1) as [E2|E2];
    destruct (Nat.eqb_spec b 1) as [E3|E3]; split;
    try (intros H; inversion H; subst; split; [lia | lia]);
    try (intros [H1 H2]; subst; f_equal; lia);
    try (intros [H1 H2]; exfalso; lia); try discriminate.
Qed.

Lemma bc1_err : forall a b e, bc1 a b = Err e -> e = ValueError /\ ~ compat a b.
Proof.
  intros a b e. unfold bc1, compat.
  destruct (a =? b) eqn:E1; [discriminate|]. destruct (a =? 1) eqn:E2; [discriminate|].
  destruct (b =? 1) eqn:E3; [discriminate|]. intros H. inversion H.
  apply Nat.eqb_neq in E1, E2, E3. split; [reflexivity | lia].
Qed.

Lemma mapM2_bc1_ok : forall a b c, length a = length b ->
  (mapM2 bc1 a b = Ok c <-> (Forall2 compat a b /\ c = zipw bmax a b)).
Proof.
  induction a as [|x a IH]; intros [|y b] c Hl; simpl in Hl; try lia.
  - simpl. split; [intros H; inversion H; split; [constructor | reflexivity] | intros [_ E]; subst; reflexivity].
  - simpl. rewrite bind_ok. split.
    + intros [z [Hz H]]. rewrite bind_ok in H. destruct H as [cs [Hcs H]]. inversion H; subst.
      apply bc1_ok_iff in Hz. destruct Hz as [Hc Ez]. apply IH in Hcs; [|lia]. destruct Hcs as [HF Ec].
      split; [constructor; assumption|]. unfold zipw in *. simpl. congruence.
    + intros [HF Ec]. inversion HF as [|? ? ? ? Hc HF']; subst.
      exists (bmax x y). split; [apply bc1_ok_iff; split; [exact Hc | reflexivity]|].
      rewrite bind_ok. exists (zipw bmax a b). split; [apply IH; [lia | split; [exact HF' | reflexivity]] | reflexivity].
Qed.

Lemma mapM2_bc1_err : forall a b e, mapM2 bc1 a b = Err e -> e = ValueError /\ ~ Forall2 compat a b.
Proof.
  induction a as [|x a IH]; intros [|y b] e H; simpl in H; try discriminate.
  destruct (bc1 x y) as [z|e'] eqn:Ez; simpl in H.
  - destruct (mapM2 bc1 a b) as [cs|e''] eqn:Ecs; simpl in H; [discriminate|]. inversion H; subst.
    destruct (IH b e Ecs) as [E1 E2]. split; [exact E1|]. intros HF. inversion HF; subst. contradiction.
  - inversion H; subst. apply bc1_err in Ez. destruct Ez as [E1 E2]. split; [exact E1|].
    intros HF. inversion HF; subst. contradiction.
Qed.

Lemma Forall2_nth_iff : forall (P : nat -> nat -> Prop) a b, length a = length b ->
  (Forall2 P a b <-> forall m, m < length a -> P (nth m a 0) (nth m b 0)).
Proof.
  intros P. induction a as [|x a IH]; intros [|y b] Hl; simpl in Hl; try lia.
  - split; [intros _ m Hm; simpl in Hm; lia | constructor].
  - split.
    + intros H m Hm. inversion H; subst. destruct m; simpl; [assumption|]. apply IH; [lia | assumption | simpl in Hm; lia].
    + intros H. constructor; [apply (H 0); simpl; lia|]. apply IH; [lia|]. intros m Hm. apply (H (S m)). simpl. lia.
Qed.

Lemma zipw_length : forall f a b, length a = length b -> length (zipw f a b) = length a.
Proof. intros. unfold zipw. rewrite map_length, combine_length. lia. Qed.

Lemma zipw_nth : forall f a b m, length a = length b -> m < length a ->
  nth m (zipw f a b) 0 = f (nth m a 0) (nth m b 0).
Proof.
  intros f. induction a as [|x a IH]; intros [|y b] m Hl Hm; simpl in *; try lia.
  destruct m; [reflexivity|]. apply IH; lia.
Qed.

Lemma pad_left_full : forall n s, n <= length s -> pad_left n s = s.
Proof. intros n s H. unfold pad_left. replace (n - length s) with 0 by lia. reflexivity. Qed.

(* the reshaped input leaf, right-aligned against a shape of rank L + R + r *)
Definition xpad (sh : shape) (L R : nat) : shape := ones L ++ sh ++ ones R.

Lemma pad_left_xshape : forall sh L R, pad_left (L + R + length sh) (sh ++ ones R) = xpad sh L R.
Proof.
  intros. unfold pad_left, xpad. rewrite app_length, ones_length.
  replace (L + R + length sh - (length sh + R)) with L by lia. reflexivity.
Qed.

Lemma xpad_length : forall sh L R, length (xpad sh L R) = L + R + length sh.
Proof. intros. unfold xpad. rewrite !app_length, !ones_length. lia. Qed.

(* size of the leaf axis at the (normalised, possibly out-of-range) position a: 1 outside the leaf *)
Definition axis_size (sh : shape) (a : Z) : nat :=
  if ((0 <=? a) && (a <? Z.of_nat (length sh)))%Z then nth (Z.to_nat a) sh 0 else 1.

Lemma xpad_nth : forall sh L R m, m < L + R + length sh ->
  nth m (xpad sh L R) 0 = axis_size sh (Z.of_nat m - Z.of_nat L).
Proof.
  intros sh L R m Hm. unfold xpad, axis_size.
  destruct (le_lt_dec L m) as [H1|H1].
  - rewrite app_nth2 by (rewrite ones_length; exact H1). rewrite ones_length.
    destruct (le_lt_dec (length sh) (m - L)) as [H2|H2].
    + rewrite app_nth2 by exact H2.
      replace ((0 <=? Z.of_nat m - Z.of_nat L)%Z && (Z.of_nat m - Z.of_nat L <? Z.of_nat (length sh))%Z) with false
        by (symmetry; apply andb_false_iff; right; apply Z.ltb_ge; lia).
      apply nth_ones. lia.
    + rewrite app_nth1 by exact H2.
      replace ((0 <=? Z.of_nat m - Z.of_nat L)%Z && (Z.of_nat m - Z.of_nat L <? Z.of_nat (length sh))%Z) with true
        by (symmetry; apply andb_true_iff; split; [apply Z.leb_le | apply Z.ltb_lt]; lia).
      f_equal. lia.
  - rewrite app_nth1 by (rewrite ones_length; exact H1).
    replace ((0 <=? Z.of_nat m - Z.of_nat L)%Z && (Z.of_nat m - Z.of_nat L <? Z.of_nat (length sh))%Z) with false
      by (symmetry; apply andb_false_iff; left; apply Z.leb_gt; lia).
    apply nth_ones. exact H1.
Qed.

(* ========================================================================================== *)
(* 5. the decisions taken for one leaf, in closed form *)

Definition finish (cls : dclass) (sh : shape) (pl : plan) : res plan :=
  match cls with
  | DBroadcast => Ok pl
  | DStrict => if shape_eqb (p_out pl) sh then Ok pl else Err ValueError
  end.

Lemma leaf_plan_closed : forall cls vs axes sh ax L R,
  length axes = length vs -> ax = map (norm_axis (length sh)) axes -> NoDup ax ->
  lr_dims ax (length sh) = Ok (L, R) ->
  let T := L + R + length sh in
  let axn := shifted L ax in
  leaf_plan cls vs axes sh =
  bind (mapM2 bc1 (dspec vs axn T) (xpad sh L R)) (fun out =>
  finish cls sh (mkPlan ax L R (moveaxis_order T (seq 0 (length vs)) axn) (dspec vs axn T) (sh ++ ones R) out)).
Proof.
  intros cls vs axes sh ax L R Hlen Eax ND Hlr T axn.
  assert (Hlen' : length ax = length vs) by (rewrite Eax, map_length; exact Hlen).
  destruct (lr_dims_spec _ _ _ _ Hlr) as [_ (Hrange & _)].
  unfold leaf_plan.
  assert (En : normalize_axes axes (length sh) = Ok ax) by (apply normalize_axes_ok; split; assumption).
  rewrite En. cbn [bind]. rewrite Hlr. cbn [bind fst snd].
  rewrite (padded_length vs ax (length sh) L R Hlen' ND Hrange).
  rewrite (plan_perm vs ax (length sh) L R Hlen' ND Hrange). cbn [bind].
  rewrite (plan_dshape vs ax (length sh) L R Hlen' ND Hrange).
  unfold broadcast_shapes.
  rewrite (dspec_length vs ax (length sh) L R), app_length, ones_length.
  replace (Nat.max (L + R + length sh) (length sh + R)) with (L + R + length sh) by lia.
  rewrite pad_left_full by (rewrite (dspec_length vs ax (length sh) L R); lia).
  rewrite pad_left_xshape. fold T. fold axn.
  destruct (mapM2 bc1 (dspec vs axn T) (xpad sh L R)) as [out|e]; [|reflexivity].
  cbn [bind]. destruct cls; reflexivity.
Qed.

Lemma finish_ok : forall cls sh pl pl', finish cls sh pl = Ok pl' ->
  pl' = pl /\ (cls = DStrict -> p_out pl = sh).
Proof.
  intros [|] sh pl pl' H; simpl in H.
  - inversion H. split; [reflexivity | discriminate].
  - destruct (shape_eqb (p_out pl) sh) eqn:E; [|discriminate].
    assert (E' : pl' = pl) by congruence. subst pl'.
    split; [reflexivity|]. intros _. apply shape_eqb_eq. exact E.
Qed.

(* everything an accepted leaf went through *)
Lemma leaf_plan_ok_inv : forall cls vs axes sh pl,
  length axes = length vs -> leaf_plan cls vs axes sh = Ok pl ->
  let ax := map (norm_axis (length sh)) axes in
  exists L R out,
    let T := L + R + length sh in
    let axn := shifted L ax in
    NoDup ax /\ lr_dims ax (length sh) = Ok (L, R) /\
    mapM2 bc1 (dspec vs axn T) (xpad sh L R) = Ok out /\
    pl = mkPlan ax L R (moveaxis_order T (seq 0 (length vs)) axn) (dspec vs axn T) (sh ++ ones R) out /\
    (cls = DStrict -> out = sh).
Proof.
  intros cls vs axes sh pl Hlen H ax.
  destruct (normalize_axes axes (length sh)) as [ax'|e] eqn:En;
    [|unfold leaf_plan in H; rewrite En in H; discriminate].
  apply normalize_axes_ok in En. destruct En as [Eax ND]. fold ax in Eax. subst ax'.
  destruct (lr_dims ax (length sh)) as [[L R]|e] eqn:Hlr.
  - rewrite (leaf_plan_closed cls vs axes sh ax L R Hlen eq_refl ND Hlr) in H.
    apply bind_ok in H. destruct H as [out [Hout Hf]]. apply finish_ok in Hf. destruct Hf as [E1 E2].
    exists L, R, out. repeat split; try assumption.
  - unfold leaf_plan in H. replace (normalize_axes axes (length sh)) with (Ok ax) in H
      by (symmetry; apply normalize_axes_ok; split; [reflexivity | exact ND]).
    cbn [bind] in H. rewrite Hlr in H. discriminate.
Qed.

(* ========================================================================================== *)
(* 6. element level *)

Lemma in_range_nth_iff : forall s I, length I = length s ->
  (in_range s I <-> forall m, m < length s -> nth m I 0 < nth m s 0).
Proof. intros s I Hl. unfold in_range. rewrite (Forall2_nth_iff lt I s Hl). rewrite Hl. reflexivity. Qed.

Lemma prod_app_ones : forall s e, prod (s ++ ones e) = prod s.
Proof.
  intros s e. rewrite prod_app. replace (prod (ones e)) with 1; [lia|].
  induction e as [|e IH]; [reflexivity|]. simpl. unfold ones in IH. rewrite <- IH. reflexivity.
Qed.

Lemma ravel_ones : forall e J, in_range (ones e) J -> ravel (ones e) J = 0.
Proof.
  induction e as [|e IH]; intros J H; [destruct J; reflexivity|].
  inversion H as [|j n J' s' Hj HF]; subst. simpl.
  change (repeat 1 e) with (ones e). rewrite IH by exact HF. lia.
Qed.

Lemma ravel_app_ones : forall s e J, in_range (s ++ ones e) J ->
  ravel (s ++ ones e) J = ravel s (firstn (length s) J).
Proof.
  induction s as [|n s IH]; intros e J H.
  - simpl. rewrite ravel_ones by exact H. destruct J; reflexivity.
  - simpl in H. inversion H as [|j n' J' s' Hj HF]; subst. simpl.
    rewrite prod_app_ones. rewrite IH by exact HF. reflexivity.
Qed.

Lemma nth_skipn' : forall (l : list nat) n j, nth j (skipn n l) 0 = nth (n + j) l 0.
Proof.
  intros l n. revert l. induction n as [|n IH]; intros l j; [reflexivity|].
  destruct l as [|a l]; [destruct j; reflexivity|]. simpl. apply IH.
Qed.

Lemma clip_lt : forall x z i, (x = 1 \/ x = z) -> i < z -> clip x i < x.
Proof.
  intros x z i H Hi. unfold clip. destruct (Nat.eqb_spec x 1) as [E|E]; [lia|].
  destruct H; [contradiction | lia].
Qed.

Lemma bmax_left : forall a b, compat a b -> a = 1 \/ a = bmax a b.
Proof. intros a b H. unfold bmax, compat in *. destruct (Nat.eqb_spec a 1); lia. Qed.
Lemma bmax_right : forall a b, compat a b -> b = 1 \/ b = bmax a b.
Proof. intros a b H. unfold bmax, compat in *. destruct (Nat.eqb_spec a 1); lia. Qed.

Section Elementwise.
  Variable K : Type.
  Variable k0 : K.
  Variable kmul : K -> K -> K.
  Notation getK := (get K k0).

  Lemma get_map_indices : forall out (f : list nat -> K) I, in_range out I ->
    nth (ravel out I) (map f (indices out)) k0 = f I.
  Proof.
    intros out f I H. destruct (nth_ravel_indices _ _ H) as [Hlt Hn].
    rewrite (nth_indep _ k0 (f [])) by (rewrite map_length, indices_length; exact Hlt).
    rewrite map_nth. rewrite Hn. reflexivity.
  Qed.

  Lemma get_mul_arr : forall out (a b : arr K) I, in_range out I ->
    getK (mul_arr K k0 kmul out a b) I =
    kmul (getK a (bidx (ashape a) I)) (getK b (bidx (ashape b) I)).
  Proof. intros. unfold get at 1. unfold mul_arr. cbn [ashape adata]. apply get_map_indices. assumption. Qed.

  Lemma get_broadcast_to : forall out (a : arr K) I, in_range out I ->
    getK (broadcast_to K k0 out a) I = getK a (bidx (ashape a) I).
  Proof.
    intros. unfold get at 1. unfold broadcast_to. cbn [ashape adata].
    apply (get_map_indices out (fun I0 => getK a (bidx (ashape a) I0))). assumption.
  Qed.

  Lemma wf_mul_arr : forall out (a b : arr K), wf_arr (mul_arr K k0 kmul out a b).
  Proof. intros. unfold wf_arr, mul_arr. simpl. rewrite map_length. apply indices_length. Qed.

  (* reshape to shape + (1,)*e keeps the data: reading at J reads the original at J[:rank] *)
  Lemma get_padded : forall s e data J, in_range (s ++ ones e) J ->
    getK (mkArr (s ++ ones e) data) J = getK (mkArr s data) (firstn (length s) J).
  Proof. intros. unfold get. cbn [ashape adata]. rewrite ravel_app_ones by assumption. reflexivity. Qed.

  (* The element formula for one leaf.  vs = values shape, sh = leaf shape (rank r), ax = normalised
     axes, L / R = left / right broadcast dimensions.  Output axis L + j is the leaf's axis j, output
     axis L + ax_k carries the k-th axis of the values; unit axes are read at index 0. *)
  Definition d_index (vs : shape) (axn : list nat) (I : list nat) : list nat :=
    map (fun k => clip (nth k vs 0) (nth (nth k axn 0) I 0)) (seq 0 (length vs)).
  Definition x_index (sh : shape) (L : nat) (I : list nat) : list nat :=
    map (fun j => clip (nth j sh 0) (nth (L + j) I 0)) (seq 0 (length sh)).

  Theorem mv_leaf_elementwise : forall cls (d x : arr K) axes y,
    length axes = length (ashape d) ->
    mv_leaf K k0 kmul cls d axes x = Ok y ->
    let vs := ashape d in
    let sh := ashape x in
    let ax := map (norm_axis (length sh)) axes in
    exists L R,
      let T := L + R + length sh in
      let axn := shifted L ax in
      NoDup ax /\ lr_dims ax (length sh) = Ok (L, R) /\
      Forall2 compat (dspec vs axn T) (xpad sh L R) /\
      ashape y = zipw bmax (dspec vs axn T) (xpad sh L R) /\
      (cls = DStrict -> ashape y = sh) /\
      wf_arr y /\
      forall I, in_range (ashape y) I ->
        getK y I = kmul (getK d (d_index vs axn I)) (getK x (x_index sh L I)).
  Proof.
    intros cls d x axes y Hlen H vs sh ax.
    unfold mv_leaf in H. apply bind_ok in H. destruct H as [pl [Hpl Hy]].
    destruct (leaf_plan_ok_inv cls vs axes sh pl Hlen Hpl) as (L & R & out & ND & Hlr & Hout & Epl & Hstrict).
    fold ax in ND, Hlr, Hout, Epl. exists L, R. intros T axn. fold T in Hout, Epl. fold axn in Hout, Epl.
    assert (Hlen' : length ax = length vs) by (unfold ax; rewrite map_length; exact Hlen).
    destruct (lr_dims_spec _ _ _ _ Hlr) as [_ (Hrange & _)].
    set (r := length sh) in *. set (nd := length vs) in *.
    set (p := moveaxis_order T (seq 0 nd) axn) in *.
    pose proof (dspec_length vs ax r L R) as Hdl. fold T axn in Hdl.
    pose proof (xpad_length sh L R) as Hxl. fold r T in Hxl.
    apply mapM2_bc1_ok in Hout; [|lia]. destruct Hout as [HF Eout].
    inversion Hy as [Ey]. clear Hy. subst pl. cbn [p_out p_perm p_L p_R p_xshape] in *.
    split; [exact ND|]. split; [exact Hlr|]. split; [exact HF|]. split; [exact Eout|].
    split; [exact Hstrict|]. split; [apply wf_mul_arr|].
    intros I HI. unfold mul_arr in HI. cbn [ashape] in HI.
    assert (Hol : length out = T) by (rewrite Eout, zipw_length by lia; exact Hdl).
    assert (HlI : length I = T) by (rewrite (in_range_length _ _ HI); exact Hol).
    assert (HIlt : forall m, m < T -> nth m I 0 < nth m out 0).
    { intros m Hm. apply (proj1 (in_range_nth_iff out I (eq_trans HlI (eq_sym Hol))) HI). lia. }
    assert (Hcm : forall m, m < T -> compat (nth m (dspec vs axn T) 0) (nth m (xpad sh L R) 0)).
    { intros m Hm. apply (proj1 (Forall2_nth_iff compat _ _ (eq_trans Hdl (eq_sym Hxl))) HF). lia. }
    assert (Hom : forall m, m < T -> nth m out 0 = bmax (nth m (dspec vs axn T) 0) (nth m (xpad sh L R) 0)).
    { intros m Hm. rewrite Eout. apply zipw_nth; lia. }
    rewrite get_mul_arr by exact HI. f_equal.
    - (* the values *)
      unfold reshaped_diagonal. cbn [p_perm p_L p_R]. change (length (ashape x)) with r. change (ashape d) with vs.
      set (sh1 := diag_padded_shape vs L R r).
      set (d0 := mkArr sh1 (adata d)).
      assert (Hs1 : length sh1 = T) by (apply (padded_length vs ax r L R Hlen' ND Hrange)).
      pose proof (plan_dshape vs ax r L R Hlen' ND Hrange) as Hds. fold T axn nd p sh1 in Hds.
      pose proof (p_spec vs ax r L R Hlen' ND Hrange) as Hps. fold T axn nd p in Hps.
      destruct Hps as (Hlp & NDp & Hbp & Hkp & _).
      pose proof (plan_legal vs ax r L R Hlen' ND Hrange) as HLg. fold T axn nd in HLg.
      fold sh1. fold d0. rewrite shape_transpose. change (ashape d0) with sh1. rewrite Hds.
      set (B := bidx (dspec vs axn T) I).
      assert (EB : B = zipw clip (dspec vs axn T) I).
      { unfold B, bidx. rewrite HlI, Hdl, Nat.sub_diag. reflexivity. }
      assert (HBl : length B = T) by (rewrite EB, zipw_length by lia; exact Hdl).
      assert (HBn : forall m, m < T -> nth m B 0 = clip (nth m (dspec vs axn T) 0) (nth m I 0)).
      { intros m Hm. rewrite EB. apply zipw_nth; lia. }
      assert (HBr : in_range (dspec vs axn T) B).
      { apply in_range_nth_iff; [lia|]. rewrite Hdl. intros m Hm. rewrite HBn by exact Hm.
        apply (clip_lt _ (nth m out 0)); [|apply HIlt; exact Hm].
        rewrite Hom by exact Hm. apply bmax_left. apply Hcm. exact Hm. }
      rewrite get_transpose by (change (ashape d0) with sh1; rewrite Hds; exact HBr).
      set (J := permute 0 B (invperm p)).
      assert (Hinv : forall m, m < T -> nth m (invperm p) 0 < length p /\ nth (nth m (invperm p) 0) p 0 = m).
      { apply invperm_right; [exact Hlp|]. intros m Hm. apply order_In; assumption. }
      assert (HJr : in_range sh1 J).
      { assert (E : permute 0 (permute 0 sh1 p) (invperm p) = sh1).
        { apply (permute_compose_id _ 0 T); [rewrite invperm_length; exact Hlp | exact Hs1 | exact Hinv]. }
        rewrite <- E. unfold J. rewrite Hds. apply in_range_permute; [exact HBr|].
        intros k Hk. rewrite Hdl.
        apply In_nth with (d := 0) in Hk. destruct Hk as [m [Hm Ek]]. rewrite invperm_length in Hm.
        rewrite <- Ek. rewrite <- Hlp. apply Hinv. lia. }
      unfold d0, sh1, diag_padded_shape. unfold sh1, diag_padded_shape in HJr.
      rewrite get_padded by exact HJr.
      assert (Ed : mkArr vs (adata d) = d) by (destruct d; reflexivity). rewrite Ed. f_equal.
      assert (HJl : length J = T) by (unfold J; rewrite permute_length, invperm_length; exact Hlp).
      pose proof (nd_le_T vs ax r L R Hlen' ND Hrange) as Hnd. fold T nd in Hnd.
      rewrite firstn_map_nth by (fold nd; lia). unfold d_index. fold nd.
      apply map_ext_in. intros k Hk. apply in_seq in Hk.
      assert (Hak : nth k axn 0 < T).
      { apply (axn_lt vs ax r L R Hlen' Hrange). apply nth_In. rewrite (axn_length vs ax L Hlen'). lia. }
      unfold J. rewrite nth_permute by (rewrite invperm_length, Hlp; lia).
      rewrite nth_invperm by (rewrite Hlp; lia).
      assert (Eidx : index_of k p = nth k axn 0).
      { rewrite <- (p_at_axis vs ax r L R Hlen' ND Hrange k) at 1 by lia. fold T axn nd p.
        apply index_of_nth; [exact NDp | rewrite Hlp; exact Hak]. }
      rewrite Eidx. rewrite HBn by exact Hak.
      rewrite (dspec_at_axis vs ax r L R Hlen' ND Hrange) by lia. reflexivity.
    - (* the input leaf *)
      cbn [ashape].
      set (xsh := sh ++ ones R).
      assert (Hxsl : length xsh = r + R) by (unfold xsh; rewrite app_length, ones_length; reflexivity).
      set (Jx := bidx xsh I).
      assert (EJ : Jx = zipw clip xsh (skipn L I)).
      { unfold Jx, bidx. rewrite HlI, Hxsl. replace (T - (r + R)) with L by (unfold T; lia). reflexivity. }
      assert (Hsl : length (skipn L I) = r + R) by (rewrite skipn_length, HlI; unfold T; lia).
      assert (HJn : forall j, j < r + R -> nth j Jx 0 = clip (nth j xsh 0) (nth (L + j) I 0)).
      { intros j Hj. rewrite EJ. rewrite zipw_nth by lia. rewrite nth_skipn'. reflexivity. }
      assert (Hxp : forall j, j < r + R -> nth (L + j) (xpad sh L R) 0 = nth j xsh 0).
      { intros j Hj. unfold xpad. rewrite app_nth2 by (rewrite ones_length; lia). rewrite ones_length.
        f_equal. lia. }
      assert (HJr : in_range xsh Jx).
      { apply in_range_nth_iff; [rewrite EJ, zipw_length by lia; reflexivity|]. rewrite Hxsl.
        intros j Hj. rewrite HJn by exact Hj.
        assert (Hm : L + j < T) by (unfold T; lia).
        apply (clip_lt _ (nth (L + j) out 0)); [|apply HIlt; exact Hm].
        rewrite Hom by exact Hm. rewrite <- Hxp by exact Hj. apply bmax_right. apply Hcm. exact Hm. }
      unfold xsh in HJr |- *. rewrite get_padded by exact HJr.
      assert (Ex : mkArr sh (adata x) = x) by (destruct x; reflexivity). rewrite Ex. f_equal.
      rewrite firstn_map_nth by (fold xsh; fold Jx; rewrite EJ, zipw_length by lia; fold r; lia).
      unfold x_index. fold r. apply map_ext_in. intros j Hj. apply in_seq in Hj.
      fold xsh. fold Jx. rewrite HJn by lia. f_equal. unfold xsh. apply app_nth1. fold r. lia.
  Qed.
End Elementwise.

(* ========================================================================================== *)
(* 7. exact characterisation of what the constructors accept *)

(* a legal specification for one leaf: the normalised axes are distinct and every value axis is
   compatible with the leaf axis it lands on (an axis outside the leaf lands on a new unit axis);
   for the strict class it must land inside the leaf and must not enlarge it *)
Definition leaf_ok (cls : dclass) (vs : shape) (axes : list Z) (sh : shape) : Prop :=
  let ax := map (norm_axis (length sh)) axes in
  NoDup ax /\
  forall k, k < length vs ->
    let a := nth k ax 0%Z in
    match cls with
    | DBroadcast => compat (nth k vs 0) (axis_size sh a)
    | DStrict => (0 <= a < Z.of_nat (length sh))%Z /\ (nth k vs 0 = axis_size sh a \/ nth k vs 0 = 1)
    end.

Lemma nth_shifted : forall L ax k, k < length ax ->
  nth k (shifted L ax) 0 = Z.to_nat (nth k ax 0%Z + Z.of_nat L)%Z.
Proof.
  intros L ax k Hk. unfold shifted.
  rewrite (nth_indep _ 0 (Z.to_nat (0 + Z.of_nat L)%Z)) by (rewrite map_length; exact Hk).
  apply (map_nth (fun a => Z.to_nat (a + Z.of_nat L)%Z)).
Qed.

Lemma xpad_00 : forall sh, xpad sh 0 0 = sh.
Proof. intros. unfold xpad. simpl. apply app_nil_r. Qed.

Lemma leaf_plan_err_kind : forall cls vs axes sh e, length axes = length vs ->
  leaf_plan cls vs axes sh = Err e -> e = ValueError.
Proof.
  intros cls vs axes sh e Hlen H.
  destruct (normalize_axes axes (length sh)) as [ax|e'] eqn:En.
  - pose proof En as En'. apply normalize_axes_ok in En'. destruct En' as [Eax ND].
    destruct (lr_dims ax (length sh)) as [[L R]|e''] eqn:Hlr.
    + rewrite (leaf_plan_closed cls vs axes sh ax L R Hlen Eax ND Hlr) in H.
      destruct (mapM2 bc1 _ _) as [out|e3] eqn:Eo; cbn [bind] in H.
      * destruct cls; simpl in H; [discriminate|]. destruct (shape_eqb _ _); [discriminate|]. congruence.
      * inversion H; subst. apply mapM2_bc1_err in Eo. tauto.
    + unfold leaf_plan in H. rewrite En in H. cbn [bind] in H. rewrite Hlr in H. cbn [bind] in H.
      apply lr_dims_err in Hlr. destruct Hlr. congruence.
  - unfold leaf_plan in H. rewrite En in H. cbn [bind] in H. apply normalize_axes_err in En. destruct En. congruence.
Qed.

Lemma leaf_plan_iff : forall cls vs axes sh, length axes = length vs -> vs <> [] ->
  ((exists pl, leaf_plan cls vs axes sh = Ok pl) <-> leaf_ok cls vs axes sh).
Proof.
  intros cls vs axes sh Hlen Hne. set (r := length sh). set (ax := map (norm_axis r) axes).
  assert (Hlen' : length ax = length vs) by (unfold ax; rewrite map_length; exact Hlen).
  split.
  - intros [pl Hpl].
    destruct (leaf_plan_ok_inv cls vs axes sh pl Hlen Hpl) as (L & R & out & ND & Hlr & Hout & _ & Hstrict).
    fold r ax in ND, Hlr, Hout. destruct (lr_dims_spec _ _ _ _ Hlr) as [_ (Hrange & _)].
    pose proof (dspec_length vs ax r L R) as Hdl. pose proof (xpad_length sh L R) as Hxl. fold r in Hxl.
    apply mapM2_bc1_ok in Hout; [|lia]. destruct Hout as [HF Eout].
    unfold leaf_ok. cbv zeta. fold r ax. split; [exact ND|]. intros k Hk. set (a := nth k ax 0%Z).
    assert (Hin : In a ax) by (apply nth_In; lia).
    pose proof (Hrange a Hin) as Ha.
    set (m := nth k (shifted L ax) 0).
    assert (Em : m = Z.to_nat (a + Z.of_nat L)%Z) by (apply nth_shifted; lia).
    assert (Hm : m < L + R + r) by lia.
    pose proof (proj1 (Forall2_nth_iff compat _ _ (eq_trans Hdl (eq_sym Hxl))) HF m) as Hc.
    rewrite Hdl in Hc. specialize (Hc Hm). fold m in Hc.
    unfold m in Hc at 1. rewrite (dspec_at_axis vs ax r L R Hlen' ND Hrange k Hk) in Hc.
    rewrite xpad_nth in Hc by exact Hm. replace (Z.of_nat m - Z.of_nat L)%Z with a in Hc by lia.
    destruct cls; [exact Hc|].
    specialize (Hstrict eq_refl).
    assert (Hol : length out = L + R + r) by (rewrite Eout, zipw_length by lia; exact Hdl).
    assert (HLR : L = 0 /\ R = 0) by (rewrite Hstrict in Hol; fold r in Hol; lia). destruct HLR; subst L R.
    split; [lia|].
    assert (Eo : nth m out 0 = bmax (nth k vs 0) (axis_size sh a)).
    { rewrite Eout. rewrite zipw_nth by lia. unfold m at 1.
      rewrite (dspec_at_axis vs ax r 0 0 Hlen' ND Hrange k Hk). rewrite xpad_nth by exact Hm.
      f_equal. f_equal. lia. }
    rewrite Hstrict in Eo.
    assert (Es : axis_size sh a = nth m sh 0).
    { unfold axis_size. fold r.
      replace ((0 <=? a)%Z && (a <? Z.of_nat r)%Z) with true
        by (symmetry; apply andb_true_iff; split; [apply Z.leb_le | apply Z.ltb_lt]; lia).
      f_equal. lia. }
    rewrite <- Es in Eo. unfold bmax in Eo. destruct (Nat.eqb_spec (nth k vs 0) 1); [right; assumption | left; congruence].
  - intros [ND Hk]. fold r ax in ND, Hk.
    assert (Hax : ax <> []) by (intros E; rewrite E in Hlen'; destruct vs; [congruence | discriminate]).
    destruct (lr_dims_nonempty ax r Hax) as (L & R & Hlr).
    destruct (lr_dims_spec _ _ _ _ Hlr) as [_ (Hrange & HLmin & HRmin)].
    pose proof (dspec_length vs ax r L R) as Hdl. pose proof (xpad_length sh L R) as Hxl. fold r in Hxl.
    rewrite (leaf_plan_closed cls vs axes sh ax L R Hlen eq_refl ND Hlr). fold r.
    set (T := L + R + r) in *. set (axn := shifted L ax) in *.
    (* position-wise facts *)
    assert (Hpos : forall m, m < T ->
              (exists k, k < length vs /\ m = nth k axn 0 /\ nth m (dspec vs axn T) 0 = nth k vs 0 /\
                         nth m (xpad sh L R) 0 = axis_size sh (nth k ax 0%Z)) \/
              nth m (dspec vs axn T) 0 = 1).
    { intros m Hm. destruct (mem_nat m axn) eqn:E.
      - left. apply mem_nat_In in E. destruct (In_nth _ _ 0 E) as [k [Hk1 Hk2]].
        pose proof (axn_length vs ax L Hlen') as Hal. fold axn in Hal. rewrite Hal in Hk1. exists k. split; [exact Hk1|]. split; [auto|].
        split; [rewrite <- Hk2; apply (dspec_at_axis vs ax r L R Hlen' ND Hrange k Hk1)|].
        rewrite xpad_nth by exact Hm. f_equal. rewrite <- Hk2. unfold axn. rewrite nth_shifted by lia.
        assert (Hin : In (nth k ax 0%Z) ax) by (apply nth_In; lia). pose proof (Hrange _ Hin). lia.
      - right. apply mem_nat_false in E. apply (dspec_off_axis vs ax r L R Hlen'); assumption. }
    assert (HF : Forall2 compat (dspec vs axn T) (xpad sh L R)).
    { apply (Forall2_nth_iff compat); [lia|]. rewrite Hdl. intros m Hm.
      destruct (Hpos m Hm) as [(k & Hk1 & _ & E1 & E2)|E1].
      - rewrite E1, E2. specialize (Hk k Hk1). cbv zeta in Hk. destruct cls; [exact Hk|].
        destruct Hk as [_ [H|H]]; unfold compat; [left; exact H | right; left; exact H].
      - rewrite E1. right. left. reflexivity. }
    assert (Hout : mapM2 bc1 (dspec vs axn T) (xpad sh L R) = Ok (zipw bmax (dspec vs axn T) (xpad sh L R)))
      by (apply mapM2_bc1_ok; [lia | split; [exact HF | reflexivity]]).
    rewrite Hout. cbn [bind]. destruct cls; [eexists; reflexivity|].
    (* strict: the broadcast shape is the leaf shape *)
    assert (HL0 : L = 0).
    { destruct HLmin as [H|H]; [exact H|]. destruct (In_nth _ _ 0%Z H) as [k [Hk1 Hk2]].
      rewrite Hlen' in Hk1. specialize (Hk k Hk1). cbv zeta in Hk. rewrite Hk2 in Hk. lia. }
    assert (HR0 : R = 0).
    { destruct HRmin as [H|H]; [exact H|]. destruct (In_nth _ _ 0%Z H) as [k [Hk1 Hk2]].
      rewrite Hlen' in Hk1. specialize (Hk k Hk1). cbv zeta in Hk. rewrite Hk2 in Hk. lia. }
    assert (Eo : zipw bmax (dspec vs axn T) (xpad sh L R) = sh).
    { apply (nth_ext _ _ 0 0); [rewrite zipw_length by lia; rewrite Hdl; unfold T, r; lia|].
      intros m Hm. rewrite zipw_length, Hdl in Hm by lia. rewrite zipw_nth by lia.
      assert (Ex : nth m (xpad sh L R) 0 = nth m sh 0) by (rewrite HL0, HR0, xpad_00; reflexivity).
      destruct (Hpos m Hm) as [(k & Hk1 & _ & E1 & E2)|E1].
      - rewrite E1. rewrite Ex in E2 |- *. specialize (Hk k Hk1). cbv zeta in Hk.
        destruct Hk as [_ [H|H]]; unfold bmax.
        + rewrite H, <- E2. destruct (nth m sh 0 =? 1); reflexivity.
        + rewrite H. reflexivity.
      - rewrite E1, Ex. reflexivity. }
    unfold finish. cbn [p_out]. rewrite Eo.
    replace (shape_eqb sh sh) with true by (symmetry; apply shape_eqb_eq; reflexivity).
    eexists; reflexivity.
Qed.

Lemma mapM_err : forall (A B : Type) (f : A -> res B) l e, mapM f l = Err e -> exists a, In a l /\ f a = Err e.
Proof.
  intros A B f. induction l as [|a l IH]; intros e H; simpl in H; [discriminate|].
  destruct (f a) as [b|e'] eqn:Ea; simpl in H.
  - destruct (mapM f l) as [bs|e''] eqn:El; simpl in H; [discriminate|]. inversion H; subst.
    destruct (IH e eq_refl) as [a' [Hin Ha']]. exists a'. split; [right; exact Hin | exact Ha'].
  - inversion H; subst. exists a. split; [left; reflexivity | exact Ea].
Qed.

Lemma leaf_out_ok_iff : forall cls vs axes sh,
  (exists o, leaf_out cls vs axes sh = Ok o) <-> (exists pl, leaf_plan cls vs axes sh = Ok pl).
Proof.
  intros. unfold leaf_out. split.
  - intros [o H]. apply bind_ok in H. destruct H as [pl [H _]]. exists pl. exact H.
  - intros [pl H]. rewrite H. eexists; reflexivity.
Qed.

Definition legal_spec (cls : dclass) (vs : shape) (axes : list Z) (ins : list shape) : Prop :=
  vs <> [] /\ Forall (leaf_ok cls vs axes) ins.

(* the constructor accepts exactly the legal specifications ... *)
Theorem ctor_iff : forall cls vs a ins,
  let axes := axis_tuple (length vs) a in
  length axes = length vs ->
  (Diag_ctor cls (VLeaf vs) a ins = Ok (mkDiag cls vs axes ins) <-> legal_spec cls vs axes ins).
Proof.
  intros cls vs a ins axes Hlen. unfold Diag_ctor, legal_spec. fold axes.
  destruct (Nat.eqb_spec (length vs) 0) as [E|E].
  - split; [discriminate|]. intros [H _]. destruct vs; [congruence | discriminate].
  - assert (Hne : vs <> []) by (intros ->; apply E; reflexivity).
    unfold d_out_structure. cbn [d_cls d_vshape d_axes d_in]. split.
    + intros H. apply bind_ok in H. destruct H as [outs [Ho _]]. split; [exact Hne|].
      apply mapM_Forall2 in Ho. clear -Ho Hlen Hne. induction Ho as [|sh o ins outs H _ IH]; constructor; [|exact IH].
      apply (leaf_plan_iff cls vs axes sh Hlen Hne). apply leaf_out_ok_iff. exists o. exact H.
    + intros [_ HF].
      assert (G : exists outs, mapM (leaf_out cls vs axes) ins = Ok outs).
      { apply mapM_ok_exists. rewrite Forall_forall in *. intros sh Hsh. apply leaf_out_ok_iff.
        apply (leaf_plan_iff cls vs axes sh Hlen Hne). apply HF. exact Hsh. }
      destruct G as [outs G]. rewrite G. reflexivity.
Qed.

(* ... returns nothing else when it accepts ... *)
Lemma ctor_ok_fields : forall cls v a ins op, Diag_ctor cls v a ins = Ok op ->
  exists vs, v = VLeaf vs /\ vs <> [] /\ op = mkDiag cls vs (axis_tuple (length vs) a) ins /\
             exists outs, d_out_structure op = Ok outs.
Proof.
  intros cls [vs|] a ins op H; simpl in H; [|discriminate].
  destruct (Nat.eqb_spec (length vs) 0) as [E|E]; [discriminate|].
  apply bind_ok in H. destruct H as [outs [Ho H]]. inversion H; subst. clear H.
  exists vs. split; [reflexivity|]. split; [intros ->; apply E; reflexivity|]. split; [reflexivity|].
  exists outs. exact Ho.
Qed.

(* ... and raises ValueError on everything else: pytree-valued values, scalar (rank-0) values, and any
   specification that is illegal for some leaf (axes duplicated after normalisation, incompatible
   sizes, or - strict class - a shape change) *)
Theorem ctor_rejects_l : forall cls v a ins,
  match v with
  | VTree => True
  | VLeaf vs => length (axis_tuple (length vs) a) = length vs /\
                ~ legal_spec cls vs (axis_tuple (length vs) a) ins
  end ->
  Diag_ctor cls v a ins = Err ValueError.
Proof.
  intros cls [vs|] a ins H; [|reflexivity]. destruct H as [Hlen Hn].
  destruct (Diag_ctor cls (VLeaf vs) a ins) as [op|e] eqn:Ec.
  - exfalso. apply Hn. pose proof Ec as Ec'. apply ctor_ok_fields in Ec'.
    destruct Ec' as (vs' & Ev & _ & Eop & _). inversion Ev; subst vs'. subst op.
    apply (ctor_iff cls vs a ins Hlen). exact Ec.
  - f_equal. unfold Diag_ctor in Ec. destruct (Nat.eqb_spec (length vs) 0) as [E|E]; [congruence|].
    unfold d_out_structure in Ec. cbn [d_cls d_vshape d_axes d_in] in Ec.
    destruct (mapM _ ins) as [outs|e'] eqn:Em; cbn [bind] in Ec; [discriminate|]. inversion Ec; subst e'.
    apply mapM_err in Em. destruct Em as [sh [_ Hsh]]. unfold leaf_out in Hsh.
    destruct (leaf_plan cls vs _ sh) as [pl|e'] eqn:Ep; cbn [bind] in Hsh; [discriminate|]. inversion Hsh; subst e'.
    apply (leaf_plan_err_kind _ _ _ _ _ Hlen Ep).
Qed.

(* the scalar forms of axis_destination always have the right length *)
Lemma axis_tuple_int_length : forall nd a, length (axis_tuple nd (AInt a)) = nd.
Proof. intros. apply scalar_axes_length. Qed.

(* ========================================================================================== *)
(* 8. the strict class = the broadcast class restricted to shape-preserving specifications *)

Lemma leaf_plan_strict : forall vs axes sh,
  leaf_plan DStrict vs axes sh =
  bind (leaf_plan DBroadcast vs axes sh) (fun pl =>
  if shape_eqb (p_out pl) sh then Ok pl else Err ValueError).
Proof.
  intros. unfold leaf_plan.
  destruct (normalize_axes axes (length sh)) as [ax|e]; [|reflexivity]. cbn [bind].
  destruct (lr_dims ax (length sh)) as [lr|e]; [|reflexivity]. cbn [bind].
  destruct (moveaxis_perm _ _ _) as [p|e]; [|reflexivity]. cbn [bind].
  destruct (broadcast_shapes _ _) as [out|e]; reflexivity.
Qed.

Lemma leaf_out_strict : forall vs axes sh o,
  leaf_out DStrict vs axes sh = Ok o <-> (leaf_out DBroadcast vs axes sh = Ok o /\ o = sh).
Proof.
  intros. unfold leaf_out. rewrite leaf_plan_strict.
  destruct (leaf_plan DBroadcast vs axes sh) as [pl|e]; cbn [bind]; [|split; [discriminate | intros [H _]; discriminate]].
  destruct (shape_eqb (p_out pl) sh) eqn:E; cbn [bind].
  - apply shape_eqb_eq in E. split; [intros H; inversion H; subst; split; [reflexivity | reflexivity]|].
    intros [H _]. exact H.
  - split; [discriminate|]. intros [H Eo]. inversion H; subst.
    assert (shape_eqb (p_out pl) (p_out pl) = true) by (apply shape_eqb_eq; reflexivity). congruence.
Qed.

Lemma out_structure_strict : forall vs axes ins outs,
  mapM (leaf_out DStrict vs axes) ins = Ok outs <->
  (mapM (leaf_out DBroadcast vs axes) ins = Ok ins /\ outs = ins).
Proof.
  intros vs axes. induction ins as [|sh ins IH]; intros outs; simpl.
  - split; [intros H; inversion H; auto | intros [_ ->]; reflexivity].
  - rewrite !bind_ok. split.
    + intros [o [Ho H]]. apply bind_ok in H. destruct H as [os [Hos H]]. inversion H; subst.
      apply leaf_out_strict in Ho. destruct Ho as [Ho ->]. apply IH in Hos. destruct Hos as [Hos ->].
      split; [|reflexivity]. exists sh. split; [exact Ho|]. rewrite Hos. reflexivity.
    + intros [[o [Ho H]] ->]. apply bind_ok in H. destruct H as [os [Hos H]]. inversion H; subst.
      exists sh. split; [apply leaf_out_strict; split; [exact Ho | reflexivity]|].
      rewrite bind_ok. exists ins. split; [apply IH; split; [exact Hos | reflexivity] | reflexivity].
Qed.

Theorem strict_iff_shape_preserving : forall v a ins,
  (exists op, Diag_ctor DStrict v a ins = Ok op) <->
  (exists op', Diag_ctor DBroadcast v a ins = Ok op' /\ d_out_structure op' = Ok ins).
Proof.
  intros [vs|] a ins; simpl; [|split; [intros [? H] | intros [? [H _]]]; discriminate].
  destruct (Nat.eqb_spec (length vs) 0) as [E|E]; [split; [intros [? H] | intros [? [H _]]]; discriminate|].
  unfold d_out_structure. cbn [d_cls d_vshape d_axes d_in]. split.
  - intros [op H]. apply bind_ok in H. destruct H as [outs [Ho _]].
    apply out_structure_strict in Ho. destruct Ho as [Ho _].
    eexists. rewrite Ho. cbn [bind]. split; [reflexivity|]. cbn [d_cls d_vshape d_axes d_in]. exact Ho.
  - intros [op' [H Ho]]. apply bind_ok in H. destruct H as [outs [Hb Eop]]. inversion Eop; subst op'.
    cbn [d_cls d_vshape d_axes d_in] in Ho.
    assert (Hs : mapM (leaf_out DStrict vs (axis_tuple (length vs) a)) ins = Ok ins)
      by (apply out_structure_strict; split; [exact Ho | reflexivity]).
    rewrite Hs. eexists; reflexivity.
Qed.

Theorem strict_out_structure : forall v a ins op,
  Diag_ctor DStrict v a ins = Ok op -> d_out_structure op = Ok ins.
Proof.
  intros v a ins op H. apply ctor_ok_fields in H. destruct H as (vs & _ & _ & Eop & outs & Ho).
  subst op. unfold d_out_structure in *. cbn [d_cls d_vshape d_axes d_in] in *.
  pose proof Ho as Ho'. apply out_structure_strict in Ho'. destruct Ho' as [_ ->]. exact Ho.
Qed.

(* ========================================================================================== *)
(* 9. pytrees: every leaf is treated on its own (its own rank normalises the axes) *)

Lemma mapM_app : forall (A B : Type) (f : A -> res B) l m,
  mapM f (l ++ m) = bind (mapM f l) (fun a => bind (mapM f m) (fun b => Ok (a ++ b))).
Proof.
  intros A B f. induction l as [|x l IH]; intros m; simpl.
  - destruct (mapM f m); reflexivity.
  - destruct (f x) as [b|e]; [|reflexivity]. simpl. rewrite IH.
    destruct (mapM f l) as [bs|e]; [|reflexivity]. simpl. destruct (mapM f m); reflexivity.
Qed.

Section Tree.
  Variable K : Type.
  Variable k0 : K.
  Variable kmul : K -> K -> K.
  Notation getK := (get K k0).

  (* what "multiplies the leaf by the values laid along the destination axes, with NumPy
     broadcasting" means for one leaf x with result y *)
  Definition leaf_spec (cls : dclass) (d : arr K) (axes : list Z) (x y : arr K) : Prop :=
    let vs := ashape d in
    let sh := ashape x in
    let ax := map (norm_axis (length sh)) axes in
    exists L R,
      let T := L + R + length sh in
      let axn := shifted L ax in
      NoDup ax /\ lr_dims ax (length sh) = Ok (L, R) /\
      Forall2 compat (dspec vs axn T) (xpad sh L R) /\
      ashape y = zipw bmax (dspec vs axn T) (xpad sh L R) /\
      (cls = DStrict -> ashape y = sh) /\
      wf_arr y /\
      forall I, in_range (ashape y) I ->
        getK y I = kmul (getK d (d_index vs axn I)) (getK x (x_index sh L I)).

  Lemma mv_leaf_defined : forall cls (d x : arr K) axes o,
    leaf_out cls (ashape d) axes (ashape x) = Ok o ->
    exists y, mv_leaf K k0 kmul cls d axes x = Ok y /\ ashape y = o.
  Proof.
    intros cls d x axes o H. unfold leaf_out in H. apply bind_ok in H. destruct H as [pl [Hpl Ho]].
    inversion Ho; subst. unfold mv_leaf. rewrite Hpl. cbn [bind]. eexists. split; reflexivity.
  Qed.

  Lemma diag_mv_leaves : forall cls (d : arr K) axes (x : list (arr K)) outs,
    length axes = length (ashape d) ->
    mapM (leaf_out cls (ashape d) axes) (map ashape x) = Ok outs ->
    exists y, mapM (mv_leaf K k0 kmul cls d axes) x = Ok y /\ map ashape y = outs /\
              Forall2 (leaf_spec cls d axes) x y.
  Proof.
    intros cls d axes x outs Hlen. revert outs. induction x as [|a x IH]; intros outs H; simpl in H.
    - inversion H. exists []. repeat split. constructor.
    - apply bind_ok in H. destruct H as [o [Ho H]]. apply bind_ok in H. destruct H as [os [Hos H]].
      inversion H; subst. destruct (mv_leaf_defined _ _ _ _ _ Ho) as [y [Hy Ey]].
      destruct (IH os Hos) as [ys [Hys [Eys HF]]].
      exists (y :: ys). simpl. rewrite Hy. cbn [bind]. rewrite Hys. cbn [bind].
      split; [reflexivity|]. split; [simpl; congruence|]. constructor; [|exact HF].
      apply (mv_leaf_elementwise K k0 kmul cls d a axes y Hlen Hy).
  Qed.

  Theorem diag_mv_elementwise : forall cls v a ins op (d : arr K) (x : list (arr K)),
    Diag_ctor cls v a ins = Ok op -> length (d_axes op) = length (d_vshape op) ->
    ashape d = d_vshape op -> map ashape x = ins ->
    exists y, diag_mv K k0 kmul op d x = Ok y /\ d_out_structure op = Ok (map ashape y) /\
              Forall2 (leaf_spec cls d (d_axes op)) x y.
  Proof.
    intros cls v a ins op d x Hc Hlen Hd Hx.
    destruct (ctor_ok_fields _ _ _ _ _ Hc) as (vs & _ & _ & Eop & outs & Ho).
    subst op. cbn [d_axes d_vshape d_cls d_in] in *. unfold d_out_structure in *.
    cbn [d_axes d_vshape d_cls d_in] in *. subst vs. rewrite <- Hx in Ho.
    destruct (diag_mv_leaves cls d _ x outs Hlen Ho) as [y [Hy [Ey HF]]].
    exists y. unfold diag_mv. cbn [d_axes d_cls]. split; [exact Hy|]. split; [|exact HF].
    rewrite Ey. rewrite <- Hx. exact Ho.
  Qed.

  (* leaves do not interact: a pytree is processed leaf by leaf *)
  Lemma diag_mv_app : forall op (d : arr K) x x',
    diag_mv K k0 kmul op d (x ++ x') =
    bind (diag_mv K k0 kmul op d x) (fun y => bind (diag_mv K k0 kmul op d x') (fun y' => Ok (y ++ y'))).
  Proof. intros. unfold diag_mv. apply mapM_app. Qed.

  Lemma diag_mv_deterministic : forall op (d : arr K) x y y',
    diag_mv K k0 kmul op d x = Ok y -> diag_mv K k0 kmul op d x = Ok y' -> y = y'.
  Proof. intros. congruence. Qed.
End Tree.

(* ========================================================================================== *)
(* 10. DiagonalOperator.as_matrix is the dense matrix of mv (columns = images of the basis vectors) *)

Lemma combine_app_short : forall (A B : Type) (l l' : list A) (m : list B), length l = length m ->
  combine (l ++ l') m = combine l m.
Proof.
  intros A B. induction l as [|a l IH]; intros l' [|b m] H; simpl in *; try lia.
  - destruct l'; reflexivity.
  - f_equal. apply IH. lia.
Qed.

Lemma clip_in_range : forall sh I, in_range sh I -> map (fun q => clip (fst q) (snd q)) (combine sh I) = I.
Proof.
  intros sh I H. induction H as [|i n I s Hi HF IH]; [reflexivity|]. simpl. rewrite IH. f_equal.
  unfold clip. destruct (Nat.eqb_spec n 1); lia.
Qed.

Lemma bidx_padded_self : forall sh e I, in_range sh I -> bidx (sh ++ ones e) I = I.
Proof.
  intros sh e I H. unfold bidx. pose proof (in_range_length _ _ H) as Hl.
  rewrite app_length. replace (length I - (length sh + length (ones e))) with 0 by lia. simpl.
  rewrite combine_app_short by lia. apply clip_in_range. exact H.
Qed.

Lemma ravel_app_short : forall s e I, length I = length s -> ravel (s ++ ones e) I = ravel s I.
Proof.
  induction s as [|n s IH]; intros e I H.
  - destruct I; [|discriminate]. simpl. destruct (ones e); reflexivity.
  - destruct I as [|i I]; [discriminate|]. simpl. rewrite prod_app_ones. rewrite IH by (simpl in H; lia). reflexivity.
Qed.

Lemma strict_plan_fields : forall vs axes sh pl, leaf_plan DStrict vs axes sh = Ok pl ->
  p_out pl = sh /\ p_xshape pl = sh ++ ones (p_R pl).
Proof.
  intros vs axes sh pl H. unfold leaf_plan in H.
  destruct (normalize_axes axes (length sh)) as [ax|e]; [|discriminate]. cbn [bind] in H.
  destruct (lr_dims ax (length sh)) as [lr|e]; [|discriminate]. cbn [bind] in H.
  destruct (moveaxis_perm _ _ _) as [p|e]; [|discriminate]. cbn [bind] in H.
  destruct (broadcast_shapes _ _) as [out|e]; [|discriminate]. cbn [bind] in H.
  destruct (shape_eqb out sh) eqn:E; [|discriminate]. inversion H; subst. cbn [p_out p_xshape p_R].
  split; [apply shape_eqb_eq; exact E | reflexivity].
Qed.

Section MatrixD.
  Variable K : Type.
  Variables k0 k1 : K.
  Variable kmul : K -> K -> K.
  Hypothesis kmul_0_r : forall v, kmul v k0 = k0.
  Hypothesis kmul_1_r : forall v, kmul v k1 = v.
  Notation getK := (get K k0).

  Definition zipk (a b : list K) : list K := map (fun q => kmul (fst q) (snd q)) (combine a b).

  Lemma zipk_maps : forall (A : Type) (f g : A -> K) l,
    zipk (map f l) (map g l) = map (fun i => kmul (f i) (g i)) l.
  Proof. intros A f g. induction l as [|a l IH]; [reflexivity|]. unfold zipk in *. simpl. rewrite IH. reflexivity. Qed.

  Lemma zipk_app : forall a a' b b', length a = length b -> zipk (a ++ a') (b ++ b') = zipk a b ++ zipk a' b'.
  Proof.
    induction a as [|x a IH]; intros a' [|y b] b' H; simpl in H; try lia; [reflexivity|].
    unfold zipk in *. simpl. f_equal. apply IH. lia.
  Qed.

  (* on one leaf the strict operator multiplies the row-major data entry by entry by the vector
     that as_matrix puts on the diagonal *)
  Lemma mv_leaf_strict_data : forall (d x : arr K) axes dv, wf_arr x ->
    diag_leaf_vector K k0 d axes (ashape x) = Ok dv ->
    exists y, mv_leaf K k0 kmul DStrict d axes x = Ok y /\ ashape y = ashape x /\
              adata y = zipk dv (adata x) /\ length dv = length (adata x).
  Proof.
    intros d x axes dv Hwf H. unfold diag_leaf_vector in H. apply bind_ok in H. destruct H as [pl [Hpl Hdv]].
    destruct (strict_plan_fields _ _ _ _ Hpl) as [Eo Ex].
    unfold mv_leaf. rewrite Hpl. cbn [bind]. eexists. split; [reflexivity|].
    inversion Hdv as [Edv]. clear Hdv. rewrite Eo, Ex.
    set (d' := reshaped_diagonal K k0 pl d (length (ashape x))).
    unfold mul_arr, broadcast_to. cbn [ashape adata]. split; [reflexivity|]. split.
    - assert (Ed : adata x = map (getK x) (indices (ashape x))) by (symmetry; apply (get_data K k0 x Hwf)).
      etransitivity; [|rewrite Ed, zipk_maps; reflexivity]. apply map_ext_in. intros I HI.
      apply indices_in_range in HI. f_equal. rewrite bidx_padded_self by exact HI.
      unfold get. cbn [ashape adata]. rewrite ravel_app_short by (apply in_range_length; exact HI). reflexivity.
    - rewrite map_length, indices_length. symmetry. exact Hwf.
  Qed.

  Lemma diag_mv_strict_flat : forall (d : arr K) axes (x : list (arr K)) dvs, Forall wf_arr x ->
    mapM (diag_leaf_vector K k0 d axes) (map ashape x) = Ok dvs ->
    exists y, mapM (mv_leaf K k0 kmul DStrict d axes) x = Ok y /\
              flat K y = zipk (concat dvs) (flat K x) /\ length (concat dvs) = length (flat K x).
  Proof.
    intros d axes. induction x as [|a x IH]; intros dvs Hwf H; simpl in H.
    - inversion H. exists []. repeat split.
    - apply bind_ok in H. destruct H as [dv [Hdv H]]. apply bind_ok in H. destruct H as [dvs' [Hdvs H]].
      inversion H; subst. inversion Hwf as [|? ? Hwa Hwx]; subst.
      destruct (mv_leaf_strict_data d a axes dv Hwa Hdv) as [y [Hy [_ [Ey El]]]].
      destruct (IH dvs' Hwx Hdvs) as [ys [Hys [Eys Els]]].
      exists (y :: ys). simpl. rewrite Hy. cbn [bind]. rewrite Hys. cbn [bind]. split; [reflexivity|].
      unfold flat in *. simpl. rewrite Ey, Eys. split; [symmetry; apply zipk_app; exact El|].
      rewrite !app_length. congruence.
  Qed.

  Lemma zipk_basis : forall dv n j, length dv = n ->
    zipk dv (basis K k0 k1 n j) = map (fun i => if j =? i then nth j dv k0 else k0) (seq 0 n).
  Proof.
    intros dv n j Hl. rewrite <- (map_nth_seq K k0 dv) at 1. rewrite Hl. unfold basis. rewrite zipk_maps.
    apply map_ext. intros i. rewrite (Nat.eqb_sym j i).
    destruct (Nat.eqb_spec i j) as [->|_]; [apply kmul_1_r | apply kmul_0_r].
  Qed.

  (* C04 for the diagonal operator: the override equals the generic column-by-column construction *)
  Theorem diag_as_matrix_l : forall op (d : arr K) m, d_cls op = DStrict ->
    diag_as_matrix K k0 op d = Ok m ->
    columns K k0 k1 (diag_mv K k0 kmul op d) (d_in op) = Ok m.
  Proof.
    intros op d m Hcls H. unfold diag_as_matrix in H. apply bind_ok in H. destruct H as [dv [Hdv Em]].
    inversion Em; subst m. clear Em. unfold diag_vector in Hdv. apply bind_ok in Hdv.
    destruct Hdv as [dvs [Hdvs Edv]]. inversion Edv; subst dv. clear Edv.
    set (s := d_in op) in *. set (n := tree_size s).
    assert (Hn : length (concat dvs) = n).
    { destruct (unflat_conforms K s (basis K k0 k1 n 0) (basis_length K k0 k1 n 0)) as [C1 C2].
      rewrite <- C1 in Hdvs. destruct (diag_mv_strict_flat d _ _ dvs C2 Hdvs) as [y [_ [_ El]]].
      rewrite El. rewrite flat_unflat by apply basis_length. apply basis_length. }
    unfold columns, diag_of. fold n. rewrite Hn. apply mapM_map. intros j _.
    destruct (unflat_conforms K s (basis K k0 k1 n j) (basis_length K k0 k1 n j)) as [C1 C2].
    pose proof Hdvs as Hdvs'. rewrite <- C1 in Hdvs'.
    destruct (diag_mv_strict_flat d _ _ dvs C2 Hdvs') as [y [Hy [Ey _]]].
    unfold diag_mv. rewrite Hcls. rewrite Hy. cbn [bind]. f_equal. rewrite Ey.
    rewrite flat_unflat by apply basis_length. apply zipk_basis. exact Hn.
  Qed.
End MatrixD.

(* ========================================================================================== *)
(* 11. DiagonalInverseOperator *)

(* the inverse is constructible exactly when the operator was (same class, same axis tuple) *)
Lemma inverse_ctor_same : forall v a ins op, Diag_ctor DStrict v a ins = Ok op -> Diag_inverse_ctor op = Ok op.
Proof.
  intros v a ins op H. pose proof H as H'. apply ctor_ok_fields in H'.
  destruct H' as (vs & Ev & Hne & Eop & outs & Ho). subst op v. unfold Diag_inverse_ctor, Diag_ctor.
  cbn [d_vshape d_axes d_in axis_tuple]. destruct (Nat.eqb_spec (length vs) 0) as [E|E].
  - destruct vs; [congruence | discriminate].
  - rewrite Ho. reflexivity.
Qed.

Section Inverse.
  Variable K : Type.
  Variables k0 k1 : K.
  Variable kmul : K -> K -> K.
  Variable kis0 : K -> bool.
  Variable kinv : K -> K.
  Hypothesis kis0_spec : forall v, kis0 v = true <-> v = k0.
  Hypothesis kmul_0_l : forall v, kmul k0 v = k0.
  Hypothesis kinv_l : forall v, v <> k0 -> kmul (kinv v) v = k1.

  (* the pseudo-inverse value: 0 on zeros, a left inverse elsewhere (Moore-Penrose for a diagonal) *)
  Lemma pinv_mul : forall v, kmul (pinv K k0 kis0 kinv v) v = if kis0 v then k0 else k1.
  Proof.
    intros v. unfold pinv. destruct (kis0 v) eqn:E; [apply kmul_0_l|].
    apply kinv_l. intros Hv. apply kis0_spec in Hv. congruence.
  Qed.

  Lemma inverse_values_shape : forall d, ashape (inverse_values K k0 kis0 kinv d) = ashape d.
  Proof. reflexivity. Qed.

  (* .I.diagonal[J] = where(d[J] != 0, 1/d[J], 0) at every multi-index *)
  Lemma inverse_values_get : forall d J, in_range (ashape d) J -> wf_arr d ->
    get K k0 (inverse_values K k0 kis0 kinv d) J = pinv K k0 kis0 kinv (get K k0 d J).
  Proof.
    intros d J HJ Hwf. unfold get, inverse_values. cbn [ashape adata].
    destruct (nth_ravel_indices _ _ HJ) as [Hlt _]. unfold wf_arr in Hwf.
    rewrite (nth_indep _ k0 (pinv K k0 kis0 kinv k0)) by (rewrite map_length; lia).
    apply map_nth.
  Qed.
End Inverse.

(* ========================================================================================== *)
(* 12. no state is carried from one leaf to the next: the verdict of the constructor and the result of
      mv are decided leaf by leaf, whatever the other leaves and whatever their order *)

(* the constructor accepts a pytree iff it accepts the values (empty pytree) and accepts EVERY leaf taken
   on its own - in particular the strict class rejects as soon as ANY leaf, in any position, would
   change shape (with strict_iff_shape_preserving on the one-leaf structures) *)
Theorem ctor_leafwise : forall cls v a ins,
  (exists op, Diag_ctor cls v a ins = Ok op) <->
  ((exists op, Diag_ctor cls v a [] = Ok op) /\
   Forall (fun sh => exists op, Diag_ctor cls v a [sh] = Ok op) ins).
Proof.
  intros cls [vs|] a ins; simpl.
  2:{ split; [intros [? H] | intros [[? H] _]]; discriminate. }
  destruct (Nat.eqb_spec (length vs) 0) as [E|E].
  { split; [intros [? H] | intros [[? H] _]]; discriminate. }
  unfold d_out_structure. cbn [d_cls d_vshape d_axes d_in]. split.
  - intros [op H]. apply bind_ok in H. destruct H as [outs [Ho _]].
    split; [eexists; reflexivity|].
    assert (G : exists m, mapM (leaf_out cls vs (axis_tuple (length vs) a)) ins = Ok m) by (exists outs; exact Ho).
    apply mapM_ok_exists in G. rewrite Forall_forall in *. intros sh Hsh. destruct (G sh Hsh) as [o Eo].
    cbn [mapM]. rewrite Eo. cbn [bind]. eexists; reflexivity.
  - intros [_ HF].
    assert (G : exists m, mapM (leaf_out cls vs (axis_tuple (length vs) a)) ins = Ok m).
    { apply mapM_ok_exists. rewrite Forall_forall in *. intros sh Hsh. destruct (HF sh Hsh) as [op H].
      cbn [mapM] in H. destruct (leaf_out cls vs (axis_tuple (length vs) a) sh) as [o|e]; [exists o; reflexivity | discriminate]. }
    destruct G as [m G]. rewrite G. cbn [bind]. eexists; reflexivity.
Qed.

(* hence the order of the leaves (and which container holds them) cannot matter *)
Theorem ctor_order_irrelevant : forall cls v a ins ins', Permutation ins ins' ->
  ((exists op, Diag_ctor cls v a ins = Ok op) <-> (exists op, Diag_ctor cls v a ins' = Ok op)).
Proof.
  intros cls v a ins ins' HP. rewrite (ctor_leafwise cls v a ins), (ctor_leafwise cls v a ins').
  split; intros [H0 HF]; (split; [exact H0|]).
  - exact (Permutation_Forall HP HF).
  - exact (Permutation_Forall (Permutation_sym HP) HF).
Qed.

(* each leaf of the result of a multi-leaf call is the result of the one-leaf call on that leaf *)
Theorem mv_leafwise : forall (K : Type) (k0 : K) (kmul : K -> K -> K) op (d : arr K) x y,
  diag_mv K k0 kmul op d x = Ok y ->
  Forall2 (fun xi yi => diag_mv K k0 kmul op d [xi] = Ok [yi]) x y.
Proof.
  intros K k0 kmul op d x y H. unfold diag_mv in *. apply mapM_Forall2 in H.
  induction H as [|xi yi x y Hi _ IH]; constructor; [|exact IH].
  cbn [mapM]. rewrite Hi. reflexivity.
Qed.

(* and a leaf on which the one-leaf call raises makes the whole call raise *)
Theorem mv_leaf_error : forall (K : Type) (k0 : K) (kmul : K -> K -> K) op (d : arr K) x xi e,
  In xi x -> diag_mv K k0 kmul op d [xi] = Err e -> exists e', diag_mv K k0 kmul op d x = Err e'.
Proof.
  intros K k0 kmul op d x xi e Hin He. unfold diag_mv in *.
  destruct (mapM (mv_leaf K k0 kmul (d_cls op) d (d_axes op)) x) as [y|e'] eqn:E; [|exists e'; reflexivity].
  exfalso. apply mapM_Forall2 in E. clear -E Hin He. induction E as [|a b x y Hab _ IH]; [destruct Hin|].
  destruct Hin as [->|Hin]; [|exact (IH Hin)].
  cbn [mapM] in He. rewrite Hab in He. discriminate.
Qed.
