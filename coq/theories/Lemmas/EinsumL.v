(* Proofs about Model/Einsum.v: the subscript rewriting of DenseBlockDiagonalOperator.transpose
   (facts, rejection conditions, involution) and the adjoint theorem for the einsum semantics. *)
From Coq Require Import ZArith List Bool Ascii Arith Lia Permutation Ring.
From Furax Require Import Model.Einsum.
Import ListNotations.

(* ======================================================================================== *)
(* Part A: strings *)

Lemma mem_In c s : mem c s = true <-> In c s.
Proof.
  unfold mem. rewrite existsb_exists. split.
  - intros [x [H1 H2]]. apply Ascii.eqb_eq in H2. subst; auto.
  - intros H. exists c. split; auto. apply Ascii.eqb_refl.
Qed.

Lemma mem_false c s : mem c s = false <-> ~ In c s.
Proof. rewrite <- mem_In. destruct (mem c s); split; congruence. Qed.

Lemma inter_diff_In A B C c : In c (inter_diff A B C) <-> In c A /\ In c B /\ ~ In c C.
Proof.
  unfold inter_diff. rewrite nodup_In, filter_In, andb_true_iff, negb_true_iff, mem_In, mem_false.
  tauto.
Qed.

Lemma inter_diff_NoDup A B C : NoDup (inter_diff A B C).
Proof. apply NoDup_nodup. Qed.

Lemma single_iff (s : str) a : NoDup s -> (s = [a] <-> (forall c, In c s <-> c = a)).
Proof.
  intros ND. split.
  - intros ->. simpl. intros c. split; [intros [H|[]]; auto | intros ->; auto].
  - intros H. destruct s as [|x [|y t]].
    + exfalso. apply (proj2 (H a) eq_refl).
    + f_equal. apply H. left; auto.
    + exfalso. assert (x = a) by (apply H; left; auto).
      assert (y = a) by (apply H; right; left; auto). subst.
      inversion ND. apply H2. left; auto.
Qed.

Lemma str_eqb_eq a b : str_eqb a b = true <-> a = b.
Proof.
  revert b. induction a as [|x a IH]; destruct b as [|y b]; simpl; split; try congruence; auto.
  - rewrite andb_true_iff, Ascii.eqb_eq, IH. intros [-> ->]; auto.
  - intros H. inversion H; subst. rewrite Ascii.eqb_refl. simpl. apply IH. auto.
Qed.

(* ---------- remove_ellipsis ---------- *)

Lemma remove_ellipsis_incl_len n : forall s c, length s <= n -> In c (remove_ellipsis s) -> In c s.
Proof.
  induction n as [|n IH]; intros s c Hl.
  - destruct s; simpl in *; [tauto | lia].
  - destruct s as [|a [|b [|e s3]]]; simpl; auto.
    destruct (Ascii.eqb a c_dot && Ascii.eqb b c_dot && Ascii.eqb e c_dot).
    + intros H. right; right; right. apply IH; auto. simpl in Hl. lia.
    + intros [H|H]; auto. right. apply (IH (b :: e :: s3)); auto. simpl in *. lia.
Qed.

Lemma remove_ellipsis_incl s c : In c (remove_ellipsis s) -> In c s.
Proof. apply (remove_ellipsis_incl_len (length s)). auto. Qed.

Lemma remove_ellipsis_nodots s : no_dots s -> remove_ellipsis s = s.
Proof.
  unfold no_dots. induction s as [|a s IH]; simpl; auto.
  intros H. assert (Ha : Ascii.eqb a c_dot = false).
  { apply Ascii.eqb_neq. intros ->. apply H. left; auto. }
  assert (Hs : remove_ellipsis s = s) by (apply IH; intros X; apply H; right; auto).
  rewrite Ha. simpl. destruct s as [|b [|e s3]]; rewrite ?Hs; auto.
Qed.

Lemma remove_ellipsis_eq3 a b e s3 :
  remove_ellipsis (a :: b :: e :: s3) =
  if Ascii.eqb a c_dot && Ascii.eqb b c_dot && Ascii.eqb e c_dot then remove_ellipsis s3
  else a :: remove_ellipsis (b :: e :: s3).
Proof. reflexivity. Qed.

(* a character map that fixes the dot (and sends nothing else to it) commutes with the removal *)
Lemma remove_ellipsis_map_len (f : ascii -> ascii) :
  (forall c, Ascii.eqb (f c) c_dot = Ascii.eqb c c_dot) ->
  forall n s, length s <= n -> remove_ellipsis (map f s) = map f (remove_ellipsis s).
Proof.
  intros Hf. induction n as [|n IH]; intros s Hl.
  - destruct s; simpl in *; [auto | lia].
  - destruct s as [|a [|b [|e s3]]]; try reflexivity.
    change (map f (a :: b :: e :: s3)) with (f a :: f b :: f e :: map f s3).
    rewrite !remove_ellipsis_eq3, !Hf.
    destruct (Ascii.eqb a c_dot && Ascii.eqb b c_dot && Ascii.eqb e c_dot).
    + apply IH. simpl in Hl. lia.
    + rewrite map_cons. f_equal. apply (IH (b :: e :: s3)). simpl in *. lia.
Qed.

Lemma remove_ellipsis_map f s :
  (forall c, Ascii.eqb (f c) c_dot = Ascii.eqb c c_dot) ->
  remove_ellipsis (map f s) = map f (remove_ellipsis s).
Proof. intros Hf. apply (remove_ellipsis_map_len f Hf (length s)). auto. Qed.

(* ---------- swap_chr ---------- *)

Lemma swap_chr_invol sa ta c : swap_chr sa ta (swap_chr sa ta c) = c.
Proof.
  unfold swap_chr.
  destruct (Ascii.eqb_spec c sa) as [->|H1].
  - destruct (Ascii.eqb_spec ta sa) as [->|H2]; auto. rewrite Ascii.eqb_refl. auto.
  - destruct (Ascii.eqb_spec c ta) as [->|H2].
    + rewrite Ascii.eqb_refl. auto.
    + apply Ascii.eqb_neq in H1, H2. rewrite H1, H2. auto.
Qed.

Lemma swap_chr_l sa ta : swap_chr sa ta sa = ta.
Proof. unfold swap_chr. rewrite Ascii.eqb_refl. auto. Qed.

Lemma swap_chr_r sa ta : swap_chr sa ta ta = sa.
Proof.
  unfold swap_chr. destruct (Ascii.eqb_spec ta sa) as [->|H]; auto. rewrite Ascii.eqb_refl. auto.
Qed.

Lemma swap_chr_other sa ta c : c <> sa -> c <> ta -> swap_chr sa ta c = c.
Proof. intros H1 H2. unfold swap_chr. apply Ascii.eqb_neq in H1, H2. rewrite H1, H2. auto. Qed.

Lemma swap_chr_inj sa ta a b : swap_chr sa ta a = swap_chr sa ta b -> a = b.
Proof. intros H. rewrite <- (swap_chr_invol sa ta a), H. apply swap_chr_invol. Qed.

Lemma map_swap_invol sa ta s : map (swap_chr sa ta) (map (swap_chr sa ta) s) = s.
Proof. rewrite map_map. rewrite <- (map_id s) at 2. apply map_ext. apply swap_chr_invol. Qed.

Lemma In_map_swap sa ta c s : In c (map (swap_chr sa ta) s) <-> In (swap_chr sa ta c) s.
Proof.
  rewrite in_map_iff. split.
  - intros [x [H1 H2]]. subst. rewrite swap_chr_invol. auto.
  - intros H. exists (swap_chr sa ta c). split; auto. apply swap_chr_invol.
Qed.

(* swapping two members of a set of letters does not change the set *)
Lemma In_map_swap_same sa ta c s : In sa s -> In ta s -> (In c (map (swap_chr sa ta) s) <-> In c s).
Proof.
  intros Hs Ht. rewrite In_map_swap.
  destruct (Ascii.eqb_spec c sa) as [->|H1]; [rewrite swap_chr_l; tauto|].
  destruct (Ascii.eqb_spec c ta) as [->|H2]; [rewrite swap_chr_r; tauto|].
  rewrite swap_chr_other; tauto.
Qed.

Lemma map_swap_fix sa ta s : ~ In sa s -> ~ In ta s -> map (swap_chr sa ta) s = s.
Proof.
  intros H1 H2. rewrite <- (map_id s) at 2. apply map_ext_in. intros c Hc.
  apply swap_chr_other; intros ->; auto.
Qed.

(* ---------- replace_first ---------- *)

Lemma set_nth_index_In c a s : In c (set_nth (index_of c s) a s) -> c <> a -> In c s.
Proof.
  induction s as [|x s IH]; simpl; auto.
  destruct (Ascii.eqb_spec x c) as [->|Hx]; simpl.
  - auto.
  - intros [H|H] Hn; auto.
Qed.

(* when the new letter is absent from o and the old one absent from the result, replacing the
   first occurrence is the same as swapping the two letters everywhere *)
Lemma replace_first_map sa ta o :
  ~ In sa o -> ~ In ta (replace_first ta sa o) -> map (swap_chr sa ta) o = replace_first ta sa o.
Proof.
  unfold replace_first. induction o as [|a o IH]; simpl; auto.
  intros Hs. destruct (Ascii.eqb_spec a ta) as [->|Ha]; simpl.
  - intros Ht. rewrite swap_chr_r. f_equal. apply map_swap_fix; tauto.
  - intros Ht. rewrite swap_chr_other; [|intros ->; tauto|auto]. f_equal. apply IH; tauto.
Qed.

Lemma replace_first_absent ta sa o : ~ In ta o -> replace_first ta sa o = o.
Proof.
  unfold replace_first. induction o as [|a o IH]; simpl; auto.
  intros H. destruct (Ascii.eqb_spec a ta) as [->|Ha]; [tauto|]. simpl. f_equal. apply IH. tauto.
Qed.

Lemma index_of_lt c s : In c s -> index_of c s < length s.
Proof.
  induction s as [|a s IH]; simpl; [tauto|].
  intros H. destruct (Ascii.eqb_spec a c); [lia|]. destruct H; [congruence|]. apply IH in H. lia.
Qed.

(* ---------- split / join ---------- *)

Lemma split_on_nonnil c s : split_on c s <> [].
Proof.
  induction s as [|a s IH]; simpl; [congruence|].
  destruct (Ascii.eqb a c); [congruence|]. destruct (split_on c s); simpl; congruence.
Qed.

Lemma split_on_one c s x : split_on c s = [x] -> s = x /\ ~ In c x.
Proof.
  revert x. induction s as [|a s IH]; simpl; intros x.
  - intros H. inversion H. auto.
  - destruct (Ascii.eqb_spec a c) as [->|Ha].
    + intros H. inversion H. exfalso. apply (split_on_nonnil c s). auto.
    + destruct (split_on c s) as [|h t] eqn:E; simpl; intros H; inversion H; subst.
      * exfalso. apply (split_on_nonnil c s). auto.
      * destruct (IH h eq_refl) as [-> Hn]. split; auto. simpl. intros [X|X]; auto.
Qed.

Lemma split_on_two c s x y : split_on c s = [x; y] -> s = x ++ c :: y /\ ~ In c x /\ ~ In c y.
Proof.
  revert x. induction s as [|a s IH]; simpl; intros x.
  - congruence.
  - destruct (Ascii.eqb_spec a c) as [->|Ha].
    + intros H. inversion H; subst. apply split_on_one in H2. destruct H2 as [-> Hn]. simpl. auto.
    + destruct (split_on c s) as [|h t] eqn:E; simpl; intros H; inversion H; subst.
      destruct (IH h eq_refl) as [-> [H1 H2]]. simpl. repeat split; auto. intros [X|X]; auto.
Qed.

Lemma split_on_absent c s : ~ In c s -> split_on c s = [s].
Proof.
  induction s as [|a s IH]; simpl; auto.
  intros H. destruct (Ascii.eqb_spec a c) as [->|Ha]; [tauto|]. rewrite IH; auto.
Qed.

Lemma split_on_app c x y : ~ In c x -> ~ In c y -> split_on c (x ++ c :: y) = [x; y].
Proof.
  intros Hx Hy. induction x as [|a x IH]; simpl.
  - rewrite Ascii.eqb_refl. rewrite split_on_absent; auto.
  - destruct (Ascii.eqb_spec a c) as [->|Ha]; [exfalso; apply Hx; left; auto|].
    rewrite IH; auto. intros X; apply Hx; right; auto.
Qed.

Fixpoint join_arrow (ps : list str) : str :=
  match ps with
  | [] => []
  | [x] => x
  | x :: t => x ++ c_dash :: c_gt :: join_arrow t
  end.

Lemma join_arrow_cons_head a ps : ps <> [] -> join_arrow (cons_head a ps) = a :: join_arrow ps.
Proof. destruct ps as [|h [|h' t]]; simpl; congruence. Qed.

Lemma split_arrow_eq2 a b s2 :
  split_arrow (a :: b :: s2) =
  if Ascii.eqb a c_dash && Ascii.eqb b c_gt then [] :: split_arrow s2
  else cons_head a (split_arrow (b :: s2)).
Proof. reflexivity. Qed.

Lemma cons_head_nonnil a ps : cons_head a ps <> [].
Proof. destruct ps; simpl; congruence. Qed.

Lemma split_arrow_nonnil_len n : forall s, length s <= n -> split_arrow s <> [] /\ join_arrow (split_arrow s) = s.
Proof.
  induction n as [|n IH]; intros s Hl.
  - destruct s; simpl in *; [split; congruence | lia].
  - destruct s as [|a [|b s2]].
    + simpl. split; congruence.
    + simpl. split; congruence.
    + rewrite split_arrow_eq2.
      destruct (Ascii.eqb a c_dash && Ascii.eqb b c_gt) eqn:E.
      * apply andb_true_iff in E. destruct E as [E1 E2].
        apply Ascii.eqb_eq in E1, E2. subst.
        destruct (IH s2) as [H1 H2]; [simpl in Hl; lia|]. split; [congruence|].
        destruct (split_arrow s2) as [|p ps] eqn:E; [congruence|].
        change (join_arrow ([] :: p :: ps)) with (c_dash :: c_gt :: join_arrow (p :: ps)).
        rewrite H2. auto.
      * destruct (IH (b :: s2)) as [H1 H2]; [simpl in *; lia|].
        split; [apply cons_head_nonnil|].
        rewrite join_arrow_cons_head; auto. rewrite H2. auto.
Qed.

Lemma split_arrow_join s r o : split_arrow s = [r; o] -> s = r ++ c_dash :: c_gt :: o.
Proof.
  intros H. destruct (split_arrow_nonnil_len (length s) s (le_n _)) as [_ J].
  rewrite H in J. simpl in J. auto.
Qed.

(* ---------- parse ---------- *)

Lemma parse_ok s l r o :
  parse_subscripts s = Ok (l, r, o) <->
  exists rest, split_on c_comma s = [l; rest] /\ split_arrow rest = [r; o].
Proof.
  unfold parse_subscripts. split.
  - destruct (split_on c_comma s) as [|x [|y [|z t]]]; try congruence.
    destruct (split_arrow y) as [|u [|v [|w t]]] eqn:E; try congruence.
    intros H. inversion H; subst. exists y. auto.
  - intros [rest [-> ->]]. auto.
Qed.

Lemma parse_err s e : parse_subscripts s = Err e -> e = ValueError.
Proof.
  unfold parse_subscripts.
  destruct (split_on c_comma s) as [|x [|y [|z t]]]; try congruence.
  destruct (split_arrow y) as [|u [|v [|w t]]]; congruence.
Qed.

Lemma parse_join s l r o : parse_subscripts s = Ok (l, r, o) -> s = join_subscripts l r o.
Proof.
  rewrite parse_ok. intros [rest [H1 H2]]. apply split_on_two in H1. destruct H1 as [-> _].
  apply split_arrow_join in H2. subst. reflexivity.
Qed.

Lemma parse_no_comma s l r o : parse_subscripts s = Ok (l, r, o) -> ~ In c_comma l.
Proof. rewrite parse_ok. intros [rest [H1 H2]]. apply split_on_two in H1. tauto. Qed.

(* the blocks' subscript can be replaced by any comma-free string *)
Lemma parse_replace_left s l r o l' :
  parse_subscripts s = Ok (l, r, o) -> ~ In c_comma l' ->
  parse_subscripts (join_subscripts l' r o) = Ok (l', r, o).
Proof.
  rewrite parse_ok. intros [rest [H1 H2]] Hl'. apply parse_ok. exists rest.
  apply split_on_two in H1. destruct H1 as [_ [_ Hr]].
  pose proof (split_arrow_join _ _ _ H2) as J. unfold join_subscripts. rewrite <- J.
  split; auto. apply split_on_app; auto.
Qed.

(* ---------- the core of _get_transposed_subscripts ---------- *)

Section Core.
  Variable sw : ascii -> ascii -> str -> str.

  Lemma core_ok l r o l' r' o' :
    transposed_core sw l r o = Ok (l', r', o') <->
    exists sa ta,
      inter_diff (remove_ellipsis l) (remove_ellipsis r) (remove_ellipsis o) = [sa] /\
      inter_diff (remove_ellipsis l) (remove_ellipsis o) (remove_ellipsis r) = [ta] /\
      replace_first ta sa o = r /\ l' = sw sa ta l /\ r' = r /\ o' = o.
  Proof.
    unfold transposed_core. split.
    - destruct (inter_diff (remove_ellipsis l) (remove_ellipsis r) (remove_ellipsis o)) as [|sa [|? ?]];
        try congruence.
      destruct (inter_diff (remove_ellipsis l) (remove_ellipsis o) (remove_ellipsis r)) as [|ta [|? ?]];
        try congruence.
      destruct (str_eqb (replace_first ta sa o) r) eqn:E; try congruence.
      apply str_eqb_eq in E. intros H. inversion H; subst. exists sa, ta. auto 10.
    - intros [sa [ta [-> [-> [H [-> [-> ->]]]]]]].
      apply str_eqb_eq in H. rewrite H. auto.
  Qed.

  Lemma core_err l r o e : transposed_core sw l r o = Err e -> e = ValueError.
  Proof.
    unfold transposed_core.
    destruct (inter_diff (remove_ellipsis l) (remove_ellipsis r) (remove_ellipsis o)) as [|sa [|? ?]];
      try congruence.
    destruct (inter_diff (remove_ellipsis l) (remove_ellipsis o) (remove_ellipsis r)) as [|ta [|? ?]];
      try congruence.
    destruct (str_eqb (replace_first ta sa o) r); congruence.
  Qed.

  Lemma core_total l r o : (exists t, transposed_core sw l r o = Ok t) \/ transposed_core sw l r o = Err ValueError.
  Proof.
    destruct (transposed_core sw l r o) as [t|e] eqn:E; [left; eauto|right].
    apply core_err in E. subst. auto.
  Qed.
End Core.

Lemma contracted_single l r o sa :
  inter_diff (remove_ellipsis l) (remove_ellipsis r) (remove_ellipsis o) = [sa] <->
  (forall c, contracted l r o c <-> c = sa).
Proof.
  rewrite single_iff by apply inter_diff_NoDup. unfold contracted.
  split; intros H c; rewrite <- H, inter_diff_In; tauto.
Qed.

Lemma free_single l r o ta :
  inter_diff (remove_ellipsis l) (remove_ellipsis o) (remove_ellipsis r) = [ta] <->
  (forall c, free_axis l r o c <-> c = ta).
Proof.
  rewrite single_iff by apply inter_diff_NoDup. unfold free_axis.
  split; intros H c; rewrite <- H, inter_diff_In; tauto.
Qed.

(* (a) what an accepted rewriting looks like *)
Lemma rewrite_facts_l l r o l' r' o' :
  transposed_triple l r o = Ok (l', r', o') ->
  r' = r /\ o' = o /\
  exists sa ta,
    (forall c, contracted l r o c <-> c = sa) /\
    (forall c, free_axis l r o c <-> c = ta) /\
    sa <> ta /\
    replace_first ta sa o = r /\
    l' = map (swap_chr sa ta) l.
Proof.
  unfold transposed_triple. rewrite core_ok.
  intros [sa [ta [H1 [H2 [H3 [H4 [H5 H6]]]]]]]. split; [auto|]. split; [auto|].
  exists sa, ta. rewrite contracted_single in H1. rewrite free_single in H2.
  split; [exact H1|]. split; [exact H2|]. split; [|split; auto].
  intros ->. destruct (proj2 (H1 ta) eq_refl) as [_ [X _]].
  destruct (proj2 (H2 ta) eq_refl) as [_ [_ Y]]. auto.
Qed.

(* (b) the exact acceptance condition; every rejection is a ValueError *)
Lemma accepts_iff_l l r o :
  (exists t, transposed_triple l r o = Ok t) <->
  exists sa ta,
    (forall c, contracted l r o c <-> c = sa) /\
    (forall c, free_axis l r o c <-> c = ta) /\
    replace_first ta sa o = r.
Proof.
  split.
  - intros [[[l' r'] o'] H]. apply rewrite_facts_l in H.
    destruct H as [_ [_ [sa [ta [H1 [H2 [_ [H3 _]]]]]]]]. exists sa, ta. auto.
  - intros [sa [ta [H1 [H2 H3]]]]. exists (map (swap_chr sa ta) l, r, o).
    unfold transposed_triple. apply core_ok. exists sa, ta.
    rewrite contracted_single, free_single. auto 10.
Qed.

Lemma rejects_l l r o e :
  transposed_triple l r o = Err e ->
  e = ValueError /\
  ~ exists sa ta,
      (forall c, contracted l r o c <-> c = sa) /\
      (forall c, free_axis l r o c <-> c = ta) /\
      replace_first ta sa o = r.
Proof.
  intros H. split; [eapply core_err; eauto|].
  intros X. apply accepts_iff_l in X. destruct X as [t X]. congruence.
Qed.

(* string level *)
Lemma transposed_ok s s' :
  transposed_subscripts s = Ok s' <->
  exists l r o l', parse_subscripts s = Ok (l, r, o) /\ transposed_triple l r o = Ok (l', r, o) /\
                   s' = join_subscripts l' r o.
Proof.
  unfold transposed_subscripts, transposed_gen. split.
  - destruct (parse_subscripts s) as [[[l r] o]|e] eqn:P; try congruence.
    fold transposed_triple.
    destruct (transposed_triple l r o) as [[[l' r'] o']|e] eqn:T; try congruence.
    intros H. inversion H; subst. pose proof (rewrite_facts_l _ _ _ _ _ _ T) as [-> [-> _]].
    exists l, r, o, l'. auto.
  - intros [l [r [o [l' [-> [H ->]]]]]]. fold transposed_triple. rewrite H. auto.
Qed.

Lemma transposed_err s e : transposed_subscripts s = Err e -> e = ValueError.
Proof.
  unfold transposed_subscripts, transposed_gen.
  destruct (parse_subscripts s) as [[[l r] o]|e'] eqn:P.
  - destruct (transposed_core swap_left_fixed l r o) as [[[l' r'] o']|e'] eqn:T; try congruence.
    intros H. inversion H; subst. eapply core_err; eauto.
  - intros H. inversion H; subst. eapply parse_err; eauto.
Qed.

(* (c) rewriting twice gives the subscripts back *)
Lemma swap_dot_eqb sa ta c : sa <> c_dot -> ta <> c_dot ->
  Ascii.eqb (swap_chr sa ta c) c_dot = Ascii.eqb c c_dot.
Proof.
  intros Hs Ht. unfold swap_chr.
  destruct (Ascii.eqb_spec c sa) as [->|H1].
  - apply Ascii.eqb_neq in Hs, Ht. rewrite Hs, Ht. auto.
  - destruct (Ascii.eqb_spec c ta) as [->|H2]; auto.
    apply Ascii.eqb_neq in Hs, Ht. rewrite Hs, Ht. auto.
Qed.

Lemma involutive_triple l r o l' :
  dots_wellformed l ->
  transposed_triple l r o = Ok (l', r, o) -> transposed_triple l' r o = Ok (l, r, o).
Proof.
  intros WF H. unfold transposed_triple in *. rewrite core_ok in H.
  destruct H as [sa [ta [H1 [H2 [H3 [H4 _]]]]]]. apply core_ok. exists sa, ta.
  assert (Hsa : In sa (remove_ellipsis l)).
  { assert (X : In sa [sa]) by (left; auto). rewrite <- H1, inter_diff_In in X. tauto. }
  assert (Hta : In ta (remove_ellipsis l)).
  { assert (X : In ta [ta]) by (left; auto). rewrite <- H2, inter_diff_In in X. tauto. }
  assert (Ds : sa <> c_dot) by (intros ->; auto).
  assert (Dt : ta <> c_dot) by (intros ->; auto).
  assert (RL : remove_ellipsis l' = map (swap_chr sa ta) (remove_ellipsis l)).
  { subst l'. apply remove_ellipsis_map. intros c. apply swap_dot_eqb; auto. }
  rewrite RL. repeat split; auto.
  - apply single_iff; [apply inter_diff_NoDup|]. intros c. rewrite inter_diff_In, In_map_swap_same by auto.
    rewrite <- inter_diff_In, H1. simpl. intuition.
  - apply single_iff; [apply inter_diff_NoDup|]. intros c. rewrite inter_diff_In, In_map_swap_same by auto.
    rewrite <- inter_diff_In, H2. simpl. intuition.
  - subst l'. unfold swap_left_fixed. symmetry. apply map_swap_invol.
Qed.

Lemma involutive_l s s1 l r o :
  parse_subscripts s = Ok (l, r, o) -> dots_wellformed l ->
  transposed_subscripts s = Ok s1 -> transposed_subscripts s1 = Ok s.
Proof.
  intros P WF H. apply transposed_ok in H. destruct H as [l0 [r0 [o0 [l' [P' [T ->]]]]]].
  rewrite P in P'. inversion P'; subst l0 r0 o0. clear P'.
  apply transposed_ok. exists l', r, o, l. repeat split.
  - apply parse_replace_left with (s := s) (l := l); auto.
    pose proof (parse_no_comma _ _ _ _ P) as NC.
    apply rewrite_facts_l in T. destruct T as [_ [_ [sa [ta [H1 [H2 [_ [_ ->]]]]]]]].
    rewrite In_map_swap. intros X.
    assert (In sa l) by (apply remove_ellipsis_incl; apply (proj2 (H1 sa) eq_refl)).
    assert (In ta l) by (apply remove_ellipsis_incl; apply (proj2 (H2 ta) eq_refl)).
    destruct (Ascii.eqb_spec c_comma sa) as [E|N1]; [congruence|].
    destruct (Ascii.eqb_spec c_comma ta) as [E|N2]; [congruence|].
    rewrite swap_chr_other in X; auto.
  - apply involutive_triple; auto.
  - apply parse_join; auto.
Qed.

(* ======================================================================================== *)
(* Part B: finite sums over a commutative ring, nested sums over letter assignments *)

Lemma skipn_skipn' {A} (x y : nat) (l : list A) : skipn x (skipn y l) = skipn (y + x) l.
Proof.
  revert l. induction y as [|y IH]; intros l; simpl; auto.
  destruct l; simpl; auto. destruct x; auto.
Qed.

Lemma firstn_add {A} (a b : nat) (l : list A) : firstn (a + b) l = firstn a l ++ firstn b (skipn a l).
Proof.
  revert l. induction a as [|a IH]; intros l; simpl; auto.
  destruct l; simpl; [destruct b; auto|]. f_equal. apply IH.
Qed.

Lemma firstn1_skipn {A} (d : A) off (l : list A) : off < length l -> firstn 1 (skipn off l) = [nth off l d].
Proof.
  revert l. induction off as [|off IH]; intros l H; destruct l; simpl in *; try lia; auto.
  apply IH. lia.
Qed.

Lemma map_flat_map {A B C} (f : B -> C) (g : A -> list B) l :
  map f (flat_map g l) = flat_map (fun a => map f (g a)) l.
Proof. induction l; simpl; auto. rewrite map_app. congruence. Qed.

Lemma flat_map_ext_in {A B} (f g : A -> list B) l :
  (forall a, In a l -> f a = g a) -> flat_map f l = flat_map g l.
Proof.
  induction l; simpl; auto. intros H. rewrite H by auto. f_equal. apply IHl. auto.
Qed.

Lemma NoDup_app_intro {A} (l1 l2 : list A) :
  NoDup l1 -> NoDup l2 -> (forall x, In x l1 -> In x l2 -> False) -> NoDup (l1 ++ l2).
Proof.
  induction l1 as [|a l1 IH]; simpl; auto. intros H1 H2 H. inversion H1; subst.
  constructor.
  - rewrite in_app_iff. intros [X|X]; auto. apply (H a); auto.
  - apply IH; auto. intros x X1 X2. apply (H x); auto.
Qed.

(* ---------- multi-indices ---------- *)

Lemma idx_eqb_eq a b : idx_eqb a b = true <-> a = b.
Proof.
  revert b. induction a as [|x a IH]; destruct b as [|y b]; simpl; split; try congruence; auto.
  - rewrite andb_true_iff, Nat.eqb_eq, IH. intros [-> ->]; auto.
  - intros H. inversion H; subst. rewrite Nat.eqb_refl. simpl. apply IH. auto.
Qed.

Lemma In_all_indices sh : forall J, In J (all_indices sh) <-> Forall2 lt J sh.
Proof.
  induction sh as [|n sh IH]; intros J; simpl.
  - split.
    + intros [<-|[]]. constructor.
    + intros H. inversion H. auto.
  - rewrite in_flat_map. split.
    + intros [i [Hi HJ]]. apply in_map_iff in HJ. destruct HJ as [J' [<- HJ']].
      apply in_seq in Hi. constructor; [lia|]. apply IH. auto.
    + intros H. inversion H as [|i n' J' sh' Hi HJ']; subst.
      exists i. split; [apply in_seq; lia|]. apply in_map. apply IH. auto.
Qed.

Lemma NoDup_all_indices sh : NoDup (all_indices sh).
Proof.
  induction sh as [|n sh IH]; simpl.
  - constructor; auto. constructor.
  - assert (G : forall m k, NoDup (flat_map (fun i => map (cons i) (all_indices sh)) (seq k m))).
    { induction m as [|m IHm]; intros k; simpl; [constructor|].
      apply NoDup_app_intro.
      - apply FinFun.Injective_map_NoDup; auto. intros a b H. inversion H; auto.
      - apply IHm.
      - intros J H1 H2. apply in_map_iff in H1. destruct H1 as [J1 [<- _]].
        apply in_flat_map in H2. destruct H2 as [i [Hi HJ]]. apply in_seq in Hi.
        apply in_map_iff in HJ. destruct HJ as [J2 [E _]]. inversion E. lia. }
    apply G.
Qed.

Lemma upd_same sg c i : upd sg c i c = i.
Proof. unfold upd. rewrite Ascii.eqb_refl. auto. Qed.

Lemma upd_other sg c i c' : c' <> c -> upd sg c i c' = sg c'.
Proof. intros H. unfold upd. apply Ascii.eqb_neq in H. rewrite H. auto. Qed.

Lemma upd_comm sg a i b j : a <> b -> forall c, upd (upd sg a i) b j c = upd (upd sg b j) a i c.
Proof.
  intros H c. unfold upd.
  destruct (Ascii.eqb_spec c b) as [Hb|Hb]; destruct (Ascii.eqb_spec c a) as [Ha|Ha]; auto. congruence.
Qed.

Lemma upd_ext sg sg' c i : (forall x, sg x = sg' x) -> forall x, upd sg c i x = upd sg' c i x.
Proof. intros H x. unfold upd. rewrite H. auto. Qed.

Section Adjoint.
  Variable K : Type.
  Variables (k0 k1 : K) (kadd kmul ksub : K -> K -> K) (kopp : K -> K).
  Hypothesis Kth : ring_theory k0 k1 kadd kmul ksub kopp (@eq K).
  Add Ring Kring : Kth.
  Local Infix "+k" := kadd (at level 50, left associativity).
  Local Infix "*k" := kmul (at level 40, left associativity).

  Local Notation arrK := (arr K).
  Local Notation sumL := (sum_list K k0 kadd).
  Local Notation nsumK := (nsum K k0 kadd).
  Local Notation getK := (get K k0).

  Definition smap {A} (f : A -> K) (l : list A) : K := sumL (map f l).

  Lemma sum_n_smap n f : sum_n K k0 kadd n f = smap f (seq 0 n).
  Proof. reflexivity. Qed.

  Lemma smap_cons {A} (f : A -> K) a l : smap f (a :: l) = f a +k smap f l.
  Proof. reflexivity. Qed.

  Lemma smap_ext_in {A} (f g : A -> K) l : (forall a, In a l -> f a = g a) -> smap f l = smap g l.
  Proof.
    induction l as [|a l IH]; intros H; auto. rewrite !smap_cons, H, IH; auto.
    - intros; apply H; right; auto.
    - left; auto.
  Qed.

  Lemma smap_zero {A} (l : list A) : smap (fun _ => k0) l = k0.
  Proof. induction l as [|a l IH]; auto. rewrite smap_cons, IH. ring. Qed.

  Lemma smap_add {A} (f g : A -> K) l : smap (fun a => f a +k g a) l = smap f l +k smap g l.
  Proof. induction l as [|a l IH]; [unfold smap; simpl; ring|]. rewrite !smap_cons, IH. ring. Qed.

  Lemma smap_mul_r {A} (f : A -> K) c l : smap (fun a => f a *k c) l = smap f l *k c.
  Proof. induction l as [|a l IH]; [unfold smap; simpl; ring|]. rewrite !smap_cons, IH. ring. Qed.

  Lemma smap_exchange {A B} (f : A -> B -> K) la lb :
    smap (fun a => smap (fun b => f a b) lb) la = smap (fun b => smap (fun a => f a b) la) lb.
  Proof.
    induction la as [|a la IH].
    - unfold smap at 1. simpl. symmetry. apply (smap_zero lb).
    - rewrite smap_cons, IH. rewrite <- smap_add. apply smap_ext_in. intros b _. reflexivity.
  Qed.

  Lemma smap_delta {A} (eqb : A -> A -> bool) (g : A -> K) a l :
    (forall x, eqb a x = true <-> a = x) -> NoDup l -> In a l ->
    smap (fun x => if eqb a x then g x else k0) l = g a.
  Proof.
    intros He. induction l as [|x l IH]; intros ND Hin; [destruct Hin|].
    inversion ND; subst. rewrite smap_cons. destruct Hin as [->|Hin].
    - rewrite (proj2 (He a) eq_refl).
      rewrite (smap_ext_in _ (fun _ => k0)); [rewrite smap_zero; ring|].
      intros y Hy. destruct (eqb a y) eqn:E; auto. apply He in E. subst. tauto.
    - destruct (eqb a x) eqn:E; [apply He in E; subst; tauto|]. rewrite IH; auto. ring.
  Qed.

  (* ---------- nested sums ---------- *)

  Definition Fext (F : assignment -> K) : Prop :=
    forall sg sg', (forall c, sg c = sg' c) -> F sg = F sg'.

  Lemma nsum_cons c V d F sg :
    nsumK (c :: V) d F sg = smap (fun i => nsumK V d F (upd sg c i)) (seq 0 (d c)).
  Proof. reflexivity. Qed.

  (* the summand is only evaluated at assignments that are in range on V and agree with the
     starting assignment elsewhere *)
  Lemma nsum_ext_bounded V d F G : forall sg,
    (forall tau, (forall c, In c V -> tau c < d c) -> (forall c, ~ In c V -> tau c = sg c) -> F tau = G tau) ->
    nsumK V d F sg = nsumK V d G sg.
  Proof.
    induction V as [|c V IH]; intros sg H.
    - simpl. apply H; [intros c []|intros; reflexivity].
    - rewrite !nsum_cons. apply smap_ext_in. intros i Hi. apply in_seq in Hi. apply IH.
      intros tau Hb Ho. apply H.
      + intros x [<-|Hx]; auto.
        destruct (in_dec ascii_dec c V) as [Hc|Hc]; auto. rewrite Ho, upd_same; auto. lia.
      + intros x Hx. simpl in Hx. rewrite Ho by tauto. apply upd_other. intros ->. tauto.
  Qed.

  Lemma nsum_ext V d F G sg : (forall tau, F tau = G tau) -> nsumK V d F sg = nsumK V d G sg.
  Proof. intros H. apply nsum_ext_bounded. auto. Qed.

  Lemma nsum_sigma_ext V d F : Fext F -> forall sg sg',
    (forall c, sg c = sg' c) -> nsumK V d F sg = nsumK V d F sg'.
  Proof.
    intros HF. induction V as [|c V IH]; intros sg sg' H.
    - simpl. apply HF. auto.
    - rewrite !nsum_cons. apply smap_ext_in. intros i _. apply IH. apply upd_ext. auto.
  Qed.

  Lemma nsum_dims_ext V d d' F : (forall c, In c V -> d c = d' c) -> forall sg,
    nsumK V d F sg = nsumK V d' F sg.
  Proof.
    induction V as [|c V IH]; intros H sg; auto.
    rewrite !nsum_cons, <- H by (left; auto). apply smap_ext_in. intros i _. apply IH.
    intros; apply H; right; auto.
  Qed.

  Lemma nsum_mul_r V d F k : forall sg, nsumK V d (fun tau => F tau *k k) sg = nsumK V d F sg *k k.
  Proof.
    induction V as [|c V IH]; intros sg; auto.
    rewrite !nsum_cons, <- smap_mul_r. apply smap_ext_in. intros i _. apply IH.
  Qed.

  Lemma nsum_smap {A} V d (F : assignment -> A -> K) (l : list A) : forall sg,
    nsumK V d (fun tau => smap (fun j => F tau j) l) sg = smap (fun j => nsumK V d (fun tau => F tau j) sg) l.
  Proof.
    induction V as [|c V IH]; intros sg; auto.
    rewrite nsum_cons.
    rewrite (smap_ext_in _ (fun i => smap (fun j => nsumK V d (fun tau => F tau j) (upd sg c i)) l))
      by (intros i _; apply IH).
    rewrite smap_exchange. apply smap_ext_in. intros j _. rewrite nsum_cons. reflexivity.
  Qed.

  Lemma nsum_swap_head a b V d F sg : a <> b -> Fext F ->
    nsumK (a :: b :: V) d F sg = nsumK (b :: a :: V) d F sg.
  Proof.
    intros Hab HF. rewrite !nsum_cons.
    rewrite (smap_ext_in _ (fun i => smap (fun j => nsumK V d F (upd (upd sg a i) b j)) (seq 0 (d b))))
      by (intros i _; apply nsum_cons).
    rewrite smap_exchange. apply smap_ext_in. intros j _. rewrite nsum_cons.
    apply smap_ext_in. intros i _. apply nsum_sigma_ext; auto. apply upd_comm. auto.
  Qed.

  Lemma nsum_perm V V' d F : Permutation V V' -> NoDup V -> Fext F ->
    forall sg, nsumK V d F sg = nsumK V' d F sg.
  Proof.
    intros P. induction P as [|x l l' P IH|x y l|l l' l'' P1 IH1 P2 IH2]; intros ND HF sg.
    - reflexivity.
    - inversion ND; subst. rewrite !nsum_cons. apply smap_ext_in. intros i _. apply IH; auto.
    - apply nsum_swap_head; auto. inversion ND; subst. intros ->. apply H1. left; auto.
    - rewrite IH1; auto. apply IH2; auto. eapply Permutation_NoDup; eauto.
  Qed.

  (* renaming the letters along an involution *)
  Lemma nsum_rename (p : ascii -> ascii) V d F : (forall c, p (p c) = c) -> Fext F -> forall sg,
    nsumK V d F sg =
    nsumK (map p V) (fun c => d (p c)) (fun tau => F (fun c => tau (p c))) (fun c => sg (p c)).
  Proof.
    intros Hp HF. induction V as [|c V IH]; intros sg.
    { simpl. apply HF. intros c. rewrite Hp. auto. }
    rewrite map_cons, !nsum_cons, Hp. apply smap_ext_in. intros i _. rewrite IH.
    apply nsum_sigma_ext.
    - intros s1 s2 H. apply HF. intros x. apply H.
    - intros x. unfold upd.
      destruct (Ascii.eqb_spec (p x) c) as [E|E]; destruct (Ascii.eqb_spec x (p c)) as [E'|E']; auto.
      + subst c. rewrite Hp in E'. congruence.
      + subst x. rewrite Hp in E. congruence.
  Qed.

  (* ---------- flat row-major data versus multi-indices ---------- *)

  Lemma chunks_firstn (dat : list K) off P n :
    flat_map (fun i => firstn P (skipn (off + i * P) dat)) (seq 0 n) = firstn (n * P) (skipn off dat).
  Proof.
    induction n as [|n IH]; [reflexivity|].
    rewrite seq_S, flat_map_app, IH. simpl flat_map. rewrite app_nil_r.
    rewrite Nat.mul_succ_l, firstn_add, skipn_skipn'. reflexivity.
  Qed.

  Lemma map_nth_ravel sh : forall off (dat : list K),
    off + prodn sh <= length dat ->
    map (fun J => nth (off + ravel sh J) dat k0) (all_indices sh) = firstn (prodn sh) (skipn off dat).
  Proof.
    induction sh as [|n sh IH]; intros off dat H.
    - simpl. rewrite Nat.add_0_r. symmetry. apply firstn1_skipn. simpl in H. lia.
    - change (all_indices (n :: sh)) with (flat_map (fun i => map (cons i) (all_indices sh)) (seq 0 n)).
      change (prodn (n :: sh)) with (n * prodn sh) in *.
      rewrite map_flat_map.
      rewrite (flat_map_ext_in _ (fun i => firstn (prodn sh) (skipn (off + i * prodn sh) dat))).
      + apply chunks_firstn.
      + intros i Hi. apply in_seq in Hi. rewrite map_map.
        rewrite <- IH by nia. apply map_ext. intros J. simpl. f_equal. lia.
  Qed.

  Lemma data_get (a : arrK) : wf_arr K a -> data a = map (getK a) (all_indices (shape a)).
  Proof.
    intros H. unfold wf_arr in H. pose proof (map_nth_ravel (shape a) 0 (data a)) as M.
    simpl in M. rewrite <- H, firstn_all in M. symmetry. apply M. lia.
  Qed.

  Local Notation dotL := (dot_list K k0 kadd kmul).
  Local Notation dotK := (dot K k0 kadd kmul).

  Lemma dot_list_map {A} (f g : A -> K) l : dotL (map f l) (map g l) = smap (fun x => f x *k g x) l.
  Proof. induction l as [|a l IH]; simpl; auto. rewrite IH. reflexivity. Qed.

  Lemma dot_list_comm a : forall b, dotL a b = dotL b a.
  Proof. induction a as [|x a IH]; destruct b; simpl; auto. rewrite IH. ring. Qed.

  Lemma dot_comm (a b : arrK) : dotK a b = dotK b a.
  Proof. apply dot_list_comm. Qed.

  (* ---------- the triple sum ---------- *)

  Definition Phi (l r o : str) (d : ascii -> nat) (B x y : arrK) : K :=
    nsumK (letters l r o) d
      (fun sg => getK B (map sg l) *k getK x (map sg r) *k getK y (map sg o)) sg0.

  Lemma In_letters c l r o : In c (letters l r o) <-> In c l \/ In c r \/ In c o.
  Proof. unfold letters. rewrite nodup_In, !in_app_iff. tauto. Qed.

  Lemma Forall2_lt_map (tau d : ascii -> nat) o :
    (forall c, In c o -> tau c < d c) -> Forall2 lt (map tau o) (map d o).
  Proof.
    induction o as [|c o IH]; simpl; intros H; constructor.
    - apply H. auto.
    - apply IH. auto.
  Qed.

  Local Notation einsumD := (einsum_d K k0 kadd kmul).

  (* <einsum(l,r->o)(B,x), y> is the sum over ALL assignments of B[l] x[r] y[o] *)
  Lemma inner_einsum l r o d B x y :
    shape y = map d o -> wf_arr K y -> dotK (einsumD l r o d B x) y = Phi l r o d B x y.
  Proof.
    intros Hs Hw. unfold dot, einsum_d. simpl data. rewrite (data_get y Hw), Hs, dot_list_map.
    unfold einsum_at, Phi.
    rewrite (smap_ext_in _ (fun J => nsumK (letters l r o) d
        (fun sg => (if idx_eqb (map sg o) J then getK B (map sg l) *k getK x (map sg r) else k0) *k getK y J) sg0))
      by (intros; symmetry; apply nsum_mul_r).
    rewrite <- nsum_smap with (F := fun sg J =>
      (if idx_eqb (map sg o) J then getK B (map sg l) *k getK x (map sg r) else k0) *k getK y J).
    apply nsum_ext_bounded. intros tau Hb _.
    rewrite (smap_ext_in _ (fun J => if idx_eqb (map tau o) J
        then getK B (map tau l) *k getK x (map tau r) *k getK y J else k0))
      by (intros J _; destruct (idx_eqb (map tau o) J); ring).
    apply smap_delta with (g := fun J => getK B (map tau l) *k getK x (map tau r) *k getK y J).
    - intros J. apply idx_eqb_eq.
    - apply NoDup_all_indices.
    - apply In_all_indices. apply Forall2_lt_map. intros c Hc. apply Hb. apply In_letters. auto.
  Qed.

  (* the triple sum is invariant under renaming the letters along an involution *)
  Lemma Phi_rename (p : ascii -> ascii) l r o d B x y :
    (forall c, p (p c) = c) -> map p o = r ->
    Phi l r o d B x y = Phi (map p l) r o (fun c => d (p c)) B y x.
  Proof.
    intros Hp Hr.
    assert (Ho : map p r = o).
    { rewrite <- Hr, map_map. rewrite <- (map_id o) at 2. apply map_ext. auto. }
    unfold Phi.
    rewrite (nsum_rename p); auto.
    2:{ intros s1 s2 H. rewrite !(map_ext s1 s2) by auto. reflexivity. }
    change (fun c => sg0 (p c)) with sg0.
    rewrite (nsum_perm (map p (letters l r o)) (letters (map p l) r o)).
    - apply nsum_ext. intros tau.
      rewrite <- !(map_map p tau), Hr, Ho. ring.
    - apply NoDup_Permutation.
      + apply FinFun.Injective_map_NoDup; [|apply NoDup_nodup].
        intros a b H. rewrite <- (Hp a), H. auto.
      + apply NoDup_nodup.
      + intros c. rewrite In_letters.
        assert (M : forall s, In c (map p s) <-> In (p c) s).
        { intros s. rewrite in_map_iff. split.
          - intros [z [E Hz]]. subst. rewrite Hp. auto.
          - intros Hz. exists (p c). auto. }
        assert (Er : In c r <-> In (p c) o) by (rewrite <- Hr; apply M).
        assert (Eo : In c o <-> In (p c) r) by (rewrite <- Ho; apply M).
        rewrite !M, In_letters. tauto.
    - apply FinFun.Injective_map_NoDup; [|apply NoDup_nodup].
      intros a b H. rewrite <- (Hp a), H. auto.
    - intros s1 s2 H. rewrite !(map_ext (fun c => s1 (p c)) (fun c => s2 (p c))) by (intros; apply H).
      reflexivity.
  Qed.

  (* adjointness for any renaming involution p that maps the output subscript onto the leaf's *)
  Lemma adjoint_d (p : ascii -> ascii) l r o d B x y :
    (forall c, p (p c) = c) -> map p o = r ->
    shape x = map d r -> shape y = map d o -> wf_arr K x -> wf_arr K y ->
    dotK (einsumD l r o d B x) y = dotK x (einsumD (map p l) r o (fun c => d (p c)) B y).
  Proof.
    intros Hp Hr Sx Sy Wx Wy. rewrite inner_einsum; auto.
    rewrite dot_comm, inner_einsum; auto.
    - apply Phi_rename; auto.
    - rewrite Sx, <- Hr, map_map. reflexivity.
  Qed.

  Lemma einsum_d_dims_ext l r o d d' B x :
    (forall c, In c (letters l r o) -> d c = d' c) -> einsumD l r o d B x = einsumD l r o d' B x.
  Proof.
    intros H. unfold einsum_d.
    assert (E : map d o = map d' o).
    { apply map_ext_in. intros c Hc. apply H. apply In_letters. auto. }
    rewrite E. f_equal. apply map_ext. intros J. unfold einsum_at. apply nsum_dims_ext. auto.
  Qed.

  (* ---------- letter dimensions computed from the operand shapes ---------- *)

  Lemma lookup_In c env n : lookup c env = Some n -> In (c, n) env.
  Proof.
    induction env as [|[c' m] env IH]; simpl; [congruence|].
    destruct (Ascii.eqb_spec c c') as [->|H].
    - intros E. inversion E. auto.
    - auto.
  Qed.

  Lemma In_lookup c env : In c (map fst env) -> exists n, lookup c env = Some n.
  Proof.
    induction env as [|[c' m] env IH]; simpl; [tauto|].
    destruct (Ascii.eqb_spec c c') as [->|H]; [eauto|].
    intros [E|E]; [congruence|auto].
  Qed.

  Lemma dim_of_fun (g : ascii -> nat) env :
    (forall c n, In (c, n) env -> n = g c) -> forall c, In c (map fst env) -> dim_of env c = g c.
  Proof.
    intros H c Hc. unfold dim_of. destruct (In_lookup c env Hc) as [n E]. rewrite E.
    apply H. apply lookup_In. auto.
  Qed.

  Lemma consistent_fun env :
    forallb (fun q => Nat.eqb (dim_of env (fst q)) (snd q)) env = true <->
    (forall c n, In (c, n) env -> n = dim_of env c).
  Proof.
    rewrite forallb_forall. split.
    - intros H c n Hin. specialize (H (c, n) Hin). simpl in H. apply Nat.eqb_eq in H. auto.
    - intros H [c n] Hin. simpl. apply Nat.eqb_eq. symmetry. auto.
  Qed.

  Lemma map_combine_fun (g : ascii -> nat) l : forall sh,
    length l = length sh -> (forall c n, In (c, n) (combine l sh) -> n = g c) -> map g l = sh.
  Proof.
    induction l as [|c l IH]; destruct sh as [|n sh]; simpl; try congruence; auto.
    intros E H. f_equal.
    - symmetry. apply H. auto.
    - apply IH; auto.
  Qed.

  Lemma In_combine_maps {A B C} (f : A -> B) (g : A -> C) l a b :
    In (a, b) (combine (map f l) (map g l)) -> exists z, In z l /\ a = f z /\ b = g z.
  Proof.
    induction l as [|z l IH]; simpl; [tauto|].
    intros [E|E].
    - inversion E. exists z. auto.
    - destruct (IH E) as [z' [H1 H2]]. exists z'. auto.
  Qed.

  Lemma fst_combine {A B} (l : list A) : forall (sh : list B), length l = length sh -> map fst (combine l sh) = l.
  Proof.
    induction l as [|c l IH]; destruct sh; simpl; try congruence; auto.
    intros E. f_equal. apply IH. auto.
  Qed.

  Lemma accepted_nodots l r o l' r' o' :
    no_dots l -> no_dots r -> no_dots o -> transposed_triple l r o = Ok (l', r', o') ->
    r' = r /\ o' = o /\
    exists sa ta, In sa l /\ In sa r /\ ~ In sa o /\ In ta l /\ In ta o /\ ~ In ta r /\ sa <> ta /\
      map (swap_chr sa ta) o = r /\ map (swap_chr sa ta) r = o /\ l' = map (swap_chr sa ta) l.
  Proof.
    intros Nl Nr No H. apply rewrite_facts_l in H.
    destruct H as [-> [-> [sa [ta [H1 [H2 [Hne [H3 H4]]]]]]]]. split; auto. split; auto.
    exists sa, ta.
    destruct (proj2 (H1 sa) eq_refl) as [A1 [A2 A3]].
    destruct (proj2 (H2 ta) eq_refl) as [B1 [B2 B3]].
    rewrite remove_ellipsis_nodots in A1, A2, A3, B1, B2, B3 by auto.
    assert (M : map (swap_chr sa ta) o = r).
    { rewrite <- H3. apply replace_first_map; auto. rewrite H3. auto. }
    repeat (split; auto).
    rewrite <- M. apply map_swap_invol.
  Qed.

  Local Notation einsumP := (einsum_plain K k0 kadd kmul).

  (* the core of (d): any exchange of two letters sa, ta that maps the output subscript onto the
     leaf subscript, applied to the blocks' subscript, gives the adjoint *)
  Lemma adjoint_plain_gen sa ta l r o (B x y Ax : arrK) :
    In sa l -> ~ In sa o -> map (swap_chr sa ta) o = r ->
    einsumP l r o B x = Some Ax ->
    shape y = shape Ax -> wf_arr K y ->
    exists ATy, einsumP (map (swap_chr sa ta) l) r o B y = Some ATy /\ shape ATy = shape x /\
                dotK Ax y = dotK x ATy.
  Proof.
    intros Sl So Mo HE Sy Wy.
    assert (Mr : map (swap_chr sa ta) r = o) by (rewrite <- Mo; apply map_swap_invol).
    set (p := swap_chr sa ta) in *.
    assert (Hp : forall c, p (p c) = c) by (intros; apply swap_chr_invol).
    unfold einsum_plain in HE.
    set (env := combine l (shape B) ++ combine r (shape x)) in *.
    destruct (shapes_ok env l r o (shape B) (shape x) && wf_arrb K B && wf_arrb K x) eqn:C;
      [|discriminate].
    inversion HE; subst Ax; clear HE.
    apply andb_true_iff in C. destruct C as [C Wx]. apply andb_true_iff in C. destruct C as [C WB].
    unfold shapes_ok in C.
    apply andb_true_iff in C. destruct C as [C C4]. apply andb_true_iff in C. destruct C as [C C3].
    apply andb_true_iff in C. destruct C as [C1 C2].
    apply Nat.eqb_eq in C1, C2, Wx. pose proof (proj1 (consistent_fun env) C3) as C3'. clear C3. rename C3' into C3.
    set (d := dim_of env) in *.
    assert (DB : map d l = shape B).
    { apply map_combine_fun; auto. intros c n Hin. apply C3. unfold env. apply in_or_app. auto. }
    assert (Dx : map d r = shape x).
    { apply map_combine_fun; auto. intros c n Hin. apply C3. unfold env. apply in_or_app. auto. }
    simpl in Sy.
    set (d' := fun c => d (p c)).
    set (env' := combine (map p l) (shape B) ++ combine r (shape y)).
    assert (Ll : length (map p l) = length (shape B)) by (rewrite map_length; auto).
    assert (Lr : length r = length (shape y)).
    { rewrite Sy, map_length, <- Mo, map_length. auto. }
    assert (P' : forall c n, In (c, n) env' -> n = d' c).
    { intros c n Hin. unfold env' in Hin. apply in_app_or in Hin. destruct Hin as [Hin|Hin].
      - rewrite <- DB in Hin. apply In_combine_maps in Hin. destruct Hin as [z [_ [-> ->]]].
        unfold d'. rewrite Hp. auto.
      - rewrite Sy, <- Mr, map_map in Hin. rewrite <- (map_id r) in Hin at 1.
        apply In_combine_maps in Hin. destruct Hin as [z [_ [-> ->]]]. reflexivity. }
    assert (F' : map fst env' = map p l ++ r).
    { unfold env'. rewrite map_app, !fst_combine; auto. }
    assert (Oin : forall c, In c o -> In c (map fst env')).
    { intros c Hc. rewrite F'. apply in_or_app.
      destruct (Ascii.eqb_spec c ta) as [->|N].
      - left. apply in_map_iff. exists sa. split; auto. apply swap_chr_l.
      - right. rewrite <- Mo. apply in_map_iff. exists c. split; auto.
        apply swap_chr_other; auto. intros ->. auto. }
    assert (D' : forall c, In c (letters (map p l) r o) -> dim_of env' c = d' c).
    { intros c Hc. apply dim_of_fun; auto. apply In_letters in Hc.
      destruct Hc as [Hc|[Hc|Hc]]; auto; rewrite F'; apply in_or_app; auto. }
    exists (einsumD (map p l) r o (dim_of env') B y).
    split; [|split].
    - unfold einsum_plain. fold env'.
      replace (shapes_ok env' (map p l) r o (shape B) (shape y) && wf_arrb K B && wf_arrb K y) with true; auto.
      symmetry. rewrite !andb_true_iff. split; [split|].
      + unfold shapes_ok. rewrite !andb_true_iff. repeat split.
        * apply Nat.eqb_eq; auto.
        * apply Nat.eqb_eq; auto.
        * apply consistent_fun. intros c n Hin. rewrite (P' c n Hin). symmetry.
          apply dim_of_fun; auto. apply in_map_iff. exists (c, n). auto.
        * apply forallb_forall. intros c Hc. destruct (In_lookup c env' (Oin c Hc)) as [n E].
          rewrite E. auto.
      + auto.
      + apply Nat.eqb_eq. auto.
    - simpl. rewrite (map_ext_in (dim_of env') d').
      + unfold d'. rewrite <- (map_map p d), Mo. auto.
      + intros c Hc. exact (D' c (proj2 (In_letters c _ _ _) (or_intror (or_intror Hc)))).
    - rewrite (einsum_d_dims_ext _ _ _ (dim_of env') d') by auto.
      apply (adjoint_d p l r o d B x y); auto.
  Qed.

  (* (d) the rewritten subscripts compute the exact adjoint, on the executable model *)
  Theorem adjoint_plain l r o l' r' o' (B x y Ax : arrK) :
    no_dots l -> no_dots r -> no_dots o ->
    transposed_triple l r o = Ok (l', r', o') ->
    einsumP l r o B x = Some Ax ->
    shape y = shape Ax -> wf_arr K y ->
    exists ATy, einsumP l' r' o' B y = Some ATy /\ shape ATy = shape x /\ dotK Ax y = dotK x ATy.
  Proof.
    intros Nl Nr No HT HE Sy Wy.
    destruct (accepted_nodots _ _ _ _ _ _ Nl Nr No HT) as
      [-> [-> [sa [ta [Sl [Sr [So [Tl [To [Tr [Hne [Mo [Mr ->]]]]]]]]]]]]].
    apply adjoint_plain_gen; auto.
  Qed.

  (* ---------- the tokenised front end (jnp.einsum) on ellipsis-free subscripts ---------- *)

  Lemma tokenize_nodots s : no_dots s -> tokenize s = Some (map TL s).
  Proof.
    unfold no_dots. induction s as [|a s IH]; simpl; auto.
    intros H. assert (Ha : Ascii.eqb a c_dot = false).
    { apply Ascii.eqb_neq. intros ->. apply H. left; auto. }
    rewrite Ha, IH; auto.
  Qed.

  Lemma count_ell_TL s : count_ell (map TL s) = 0.
  Proof. unfold count_ell. induction s; simpl; auto. Qed.

  Lemma expand_TL s e m : expand (map TL s) e m = s.
  Proof. unfold expand. induction s; simpl; auto. f_equal. auto. Qed.

  Local Notation einsumE := (einsum K k0 kadd kmul).

  Lemma einsum_nodots l r o B x :
    no_dots l -> no_dots r -> no_dots o -> einsumE l r o B x = einsumP l r o B x.
  Proof.
    intros Nl Nr No. unfold einsum.
    rewrite !tokenize_nodots by auto. unfold ell_rank. rewrite !count_ell_TL, !map_length.
    destruct (Nat.eqb (length l) (length (shape B))) eqn:E1.
    - destruct (Nat.eqb (length r) (length (shape x))) eqn:E2.
      + rewrite !expand_TL. reflexivity.
      + unfold einsum_plain, shapes_ok. rewrite E1, E2. reflexivity.
    - unfold einsum_plain, shapes_ok. rewrite E1. reflexivity.
  Qed.

  Lemma no_dots_swap sa ta l : no_dots l -> In sa l -> In ta l -> no_dots (map (swap_chr sa ta) l).
  Proof.
    unfold no_dots. intros N Hs Ht. rewrite In_map_swap. intros X.
    destruct (Ascii.eqb_spec c_dot sa) as [E|N1]; [subst; auto|].
    destruct (Ascii.eqb_spec c_dot ta) as [E|N2]; [subst; auto|].
    rewrite swap_chr_other in X; auto.
  Qed.

  Theorem adjoint_einsum l r o l' r' o' (B x y Ax : arrK) :
    no_dots l -> no_dots r -> no_dots o ->
    transposed_triple l r o = Ok (l', r', o') ->
    einsumE l r o B x = Some Ax ->
    shape y = shape Ax -> wf_arr K y ->
    exists ATy, einsumE l' r' o' B y = Some ATy /\ shape ATy = shape x /\ dotK Ax y = dotK x ATy.
  Proof.
    intros Nl Nr No HT HE Sy Wy. rewrite einsum_nodots in HE by auto.
    destruct (adjoint_plain _ _ _ _ _ _ B x y Ax Nl Nr No HT HE Sy Wy) as [ATy [H1 [H2 H3]]].
    exists ATy. split; auto.
    destruct (accepted_nodots _ _ _ _ _ _ Nl Nr No HT) as
      [-> [-> [sa [ta [Sl [_ [_ [Tl [_ [_ [_ [_ [_ ->]]]]]]]]]]]]].
    rewrite einsum_nodots; auto. apply no_dots_swap; auto.
  Qed.

  (* ---------- mv on the leaves of a pytree ---------- *)

  Local Notation dotsK := (dot_leaves K k0 kadd kmul).
  Local Notation mvK := (mv K k0 kadd kmul).

  Definition in_structure_of (Axs ys : list arrK) : Prop :=
    Forall2 (fun y Ax => shape y = shape Ax /\ wf_arr K y) ys Axs.

  Lemma adjoint_map2o l r o l' r' o' :
    no_dots l -> no_dots r -> no_dots o -> transposed_triple l r o = Ok (l', r', o') ->
    forall Bs xs Axs ys,
      map2o K (einsumE l r o) Bs xs = Some Axs -> in_structure_of Axs ys ->
      exists ATys, map2o K (einsumE l' r' o') Bs ys = Some ATys /\
                   Forall2 (fun a x => shape a = shape x) ATys xs /\ dotsK Axs ys = dotsK xs ATys.
  Proof.
    intros Nl Nr No HT. unfold in_structure_of.
    induction Bs as [|B Bs IH]; intros xs Axs ys HM HF.
    - destruct xs; simpl in HM; [|discriminate]. inversion HM; subst. inversion HF; subst.
      exists []. simpl. auto.
    - destruct xs as [|x xs]; simpl in HM; [discriminate|].
      destruct (einsumE l r o B x) as [Ax|] eqn:E1; [|discriminate].
      destruct (map2o K (einsumE l r o) Bs xs) as [Axs'|] eqn:E2; [|discriminate].
      inversion HM; subst. inversion HF as [|y Ax' ys' Axs'' [Sy Wy] HF']; subst.
      destruct (adjoint_einsum _ _ _ _ _ _ B x y Ax Nl Nr No HT E1 Sy Wy) as [ATy [H1 [H2 H3]]].
      destruct (IH xs Axs' ys' E2 HF') as [ATys [G1 [G2 G3]]].
      exists (ATy :: ATys). simpl. rewrite H1, G1, H3, G3. auto.
  Qed.

  Lemma map2o_length (f : arrK -> arrK -> option arrK) : forall Bs xs ys,
    map2o K f Bs xs = Some ys -> length xs = length ys.
  Proof.
    induction Bs as [|B Bs IH]; intros xs ys H; destruct xs as [|x xs]; simpl in H; try discriminate.
    - inversion H. auto.
    - destruct (f B x); [|discriminate]. destruct (map2o K f Bs xs) eqn:E; [|discriminate].
      inversion H. simpl. f_equal. eapply IH; eauto.
  Qed.

  Lemma Forall2_len {A B} (R : A -> B -> Prop) l l' : Forall2 R l l' -> length l = length l'.
  Proof. induction 1; simpl; auto. Qed.

  Lemma map_const_length {A B C} (b : C) (xs : list A) : forall (ys : list B),
    length xs = length ys -> map (fun _ => b) xs = map (fun _ => b) ys.
  Proof. induction xs; destruct ys; simpl; try congruence. intros H. f_equal. auto. Qed.

  (* the operator with the rewritten subscripts and the SAME block data is the adjoint, leaf by leaf,
     for one shared block array and for one block array per leaf *)
  Theorem adjoint_mv l r o l' r' o' bl xs ys Axs :
    no_dots l -> no_dots r -> no_dots o -> transposed_triple l r o = Ok (l', r', o') ->
    mvK l r o bl xs = Some Axs -> in_structure_of Axs ys ->
    exists ATys, mvK l' r' o' bl ys = Some ATys /\
                 Forall2 (fun a x => shape a = shape x) ATys xs /\ dotsK Axs ys = dotsK xs ATys.
  Proof.
    intros Nl Nr No HT HM HF. destruct bl as [B|Bs]; simpl in *.
    - rewrite (map_const_length B ys xs).
      + apply (adjoint_map2o l r o l' r' o' Nl Nr No HT _ xs Axs ys HM HF).
      + apply map2o_length in HM. unfold in_structure_of in HF. apply Forall2_len in HF. lia.
    - apply (adjoint_map2o l r o l' r' o' Nl Nr No HT _ xs Axs ys HM HF).
  Qed.
End Adjoint.

(* ---------------------------------------------------------------------------------------- *)
(* The first clause of C14 over the model, for every carrier (no ring needed): mv applies
   einsum(l,r->o)(blocks, leaf) to EACH leaf - the one shared block array, or the block array at the
   same position - and nothing else; it is defined exactly when every per-leaf einsum is (and, per
   leaf, the trees match); on a pytree without leaves it returns the pytree without leaves. *)
Section EachLeaf.
  Variable K : Type.
  Variables (k0 : K) (kadd kmul : K -> K -> K).
  Local Notation einsumE := (einsum K k0 kadd kmul).
  Local Notation mvK := (mv K k0 kadd kmul).

  Lemma map2o_Forall3 (f : arr K -> arr K -> option (arr K)) : forall Bs xs ys,
    map2o K f Bs xs = Some ys <->
    length Bs = length xs /\ length ys = length xs /\
    forall n B x, nth_error Bs n = Some B -> nth_error xs n = Some x ->
                  exists y, nth_error ys n = Some y /\ f B x = Some y.
  Proof.
    induction Bs as [|B Bs IH]; intros [|x xs] ys; simpl.
    - split.
      + intros H; inversion H; subst. repeat split; auto. intros [|n] B x HB; discriminate HB.
      + intros (_ & Hl & _). destruct ys; [reflexivity|discriminate Hl].
    - split; [discriminate|]. intros (Hl & _); discriminate Hl.
    - split; [discriminate|]. intros (Hl & _); discriminate Hl.
    - split.
      + destruct (f B x) as [y|] eqn:E; [|discriminate].
        destruct (map2o K f Bs xs) as [ys'|] eqn:E2; [|discriminate].
        intros H; inversion H; subst ys. apply IH in E2. destruct E2 as (L1 & L2 & HN).
        simpl. repeat split; try (f_equal; assumption).
        intros [|n] B' x' HB Hx; simpl in *.
        * inversion HB; inversion Hx; subst. exists y; split; [reflexivity|assumption].
        * apply (HN n B' x' HB Hx).
      + intros (L1 & L2 & HN). destruct ys as [|y ys]; [discriminate L2|].
        destruct (HN 0 B x eq_refl eq_refl) as (y' & Hy & Hf). simpl in Hy. inversion Hy; subst y'.
        rewrite Hf.
        assert (E2 : map2o K f Bs xs = Some ys).
        { apply IH. simpl in L1, L2. repeat split; try lia.
          intros n B' x' HB Hx. apply (HN (S n) B' x' HB Hx). }
        rewrite E2. reflexivity.
  Qed.

  Lemma nth_error_map_const {A B} (b : B) (xs : list A) n x :
    nth_error xs n = Some x -> nth_error (map (fun _ => b) xs) n = Some b.
  Proof.
    revert n; induction xs as [|a xs IH]; intros [|n] H; simpl in *; try discriminate; auto.
  Qed.

  (* one shared block array: the n-th output leaf is einsum(B, n-th leaf), for every leaf *)
  Lemma mv_shared_each_leaf l r o (B : arr K) xs ys :
    mvK l r o (Shared B) xs = Some ys <->
    length ys = length xs /\
    forall n x, nth_error xs n = Some x -> exists y, nth_error ys n = Some y /\ einsumE l r o B x = Some y.
  Proof.
    unfold mv. rewrite map2o_Forall3. rewrite map_length. split.
    - intros (_ & L & HN). split; [exact L|]. intros n x Hx.
      apply (HN n B x (nth_error_map_const B xs n x Hx) Hx).
    - intros (L & HN). repeat split; auto. intros n B' x HB Hx.
      rewrite (nth_error_map_const B xs n x Hx) in HB. inversion HB; subst B'. apply (HN n x Hx).
  Qed.

  (* one block array per leaf: the n-th output leaf is einsum(n-th block array, n-th leaf) *)
  Lemma mv_perleaf_each_leaf l r o Bs xs ys :
    mvK l r o (PerLeaf Bs) xs = Some ys <->
    length Bs = length xs /\ length ys = length xs /\
    forall n B x, nth_error Bs n = Some B -> nth_error xs n = Some x ->
                  exists y, nth_error ys n = Some y /\ einsumE l r o B x = Some y.
  Proof. unfold mv. apply map2o_Forall3. Qed.

  (* a pytree without leaves is mapped to itself, whatever the blocks *)
  Lemma mv_no_leaves l r o (B : arr K) :
    mvK l r o (Shared B) [] = Some [] /\ mvK l r o (PerLeaf []) [] = Some [].
  Proof. split; reflexivity. Qed.
End EachLeaf.
