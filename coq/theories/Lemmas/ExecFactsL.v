(* Second stage for the core properties (C01, C03, C04, C06): the ASSUMPTIONS the core theorems make about
   leaf operators are satisfied by the executable leaf semantics `Exec.leafsem tb` that the correspondence
   harness runs, for an ARBITRARY table `tb` of measured matrices.
   Part 1 (unconditional): every leaf of `leafsem tb` is homogeneous and additive - `lin_facts` of C04
     (Lemmas/AsMatrixL.v) in full, hence `lf_hom` of Sound.leaf_facts (C01), and `denote_linear` for
     `Exec.den tb` with no hypothesis.
   Part 2 (under the decidable consistency condition `table_okb tb e` on the table): the lazy-inverse
     facts lf_inv_l / lf_inv_r (C01; if_lazy_* of C06) and the adjointness facts of C03 for table-backed
     wrappers and symmetric classes. *)
From Coq Require Import List Bool Arith NArith ZArith QArith Qcanon Lia Ring.
From Furax Require Import Base.Pytree Model.Op Model.Algebra Model.Denote Model.Wf Model.Exec Model.Structs
  Model.AsMatrix Model.Adjoint Model.Inverse
  Lemmas.DenoteL Lemmas.Sound Lemmas.AsMatrixL Lemmas.StructsL Lemmas.MuellerExecL Lemmas.TransposeL
  Lemmas.TransposeExecL Lemmas.AsMatrixExecL.
Import ListNotations.
Local Close Scope Q_scope.
Local Close Scope Qc_scope.
Local Open Scope nat_scope.

Notation xvscale := (vscale Qcmult).
Notation xvadd := (vadd Qcplus).
Notation xladd := (ladd K Qcplus).
Notation lsc k := (map (Qcmult k)).
Notation vsh := (pmap (@List.length K)).
Notation unfl := (vunflat K).
Notation unfl_list := (vunflat_list K).

(* ====================================================================================== *)
(* Part 1 - linearity of every leaf of the executable semantics                           *)
(* ====================================================================================== *)

(* a partial map on values that is homogeneous and additive wherever it is defined *)
Definition linmap (f : xvalue -> option xvalue) : Prop :=
  (forall k x, f (xvscale k x) = option_map (xvscale k) (f x)) /\
  (forall x y z x' y', xvadd x y = Some z -> f x = Some x' -> f y = Some y' ->
     exists z', xvadd x' y' = Some z' /\ f z = Some z').

Lemma linmap_none : linmap (fun _ => None).
Proof. split; [reflexivity|]. intros; discriminate. Qed.

(* ---------- structures are kept by scaling and addition ---------- *)
Lemma has_struct_sh_eq (x y : xvalue) s : vsh x = vsh y -> has_struct x s = has_struct y s.
Proof.
  intros H. change (AsMatrix.vhas K x s = AsMatrix.vhas K y s). apply eq_true_iff_eq.
  rewrite !(vhas_vsh K), H. reflexivity.
Qed.
Lemma has_struct_vscale k (x : xvalue) s : has_struct (xvscale k x) s = has_struct x s.
Proof. apply has_struct_sh_eq, vsh_vscale. Qed.

Lemma linmap_guard s f : linmap f -> linmap (fun x => if negb (has_struct x s) then None else f x).
Proof.
  intros [Hh Ha]. split.
  - intros k x. rewrite has_struct_vscale. destruct (negb (has_struct x s)); [reflexivity|apply Hh].
  - intros x y z x' y' Hz Hx Hy.
    destruct (negb (has_struct x s)) eqn:Ex; [discriminate|]. destruct (negb (has_struct y s)); [discriminate|].
    destruct (vadd_spec K Qcplus _ _ _ Hz) as (_ & S2 & _).
    rewrite (has_struct_sh_eq z x s S2), Ex. eapply Ha; eauto.
Qed.

(* ---------- vectors ---------- *)
Lemma xladd_nil_l v : xladd [] v = [].
Proof. reflexivity. Qed.
Lemma xladd_nil_r u : xladd u [] = [].
Proof. destruct u; reflexivity. Qed.
Lemma xladd_cons a u b v : xladd (a :: u) (b :: v) = Qcplus a b :: xladd u v.
Proof. reflexivity. Qed.
Lemma xladd_len u : forall v, List.length u = List.length v -> List.length (xladd u v) = List.length u.
Proof. intros v H. rewrite (ladd_length K), H. apply Nat.min_id. Qed.
Lemma xladd_firstn n : forall a b, firstn n (xladd a b) = xladd (firstn n a) (firstn n b).
Proof.
  induction n as [|n IH]; intros [|x a] [|y b]; try reflexivity.
  cbn [firstn]. rewrite !xladd_cons. cbn [firstn]. now rewrite IH.
Qed.
Lemma xladd_skipn n : forall a b, List.length a = List.length b -> skipn n (xladd a b) = xladd (skipn n a) (skipn n b).
Proof.
  induction n as [|n IH]; intros [|x a] [|y b] H; cbn in H; try discriminate; try reflexivity.
  rewrite xladd_cons. cbn [skipn]. apply IH. lia.
Qed.

Lemma dot_nil_l v : dot [] v = k0.
Proof. reflexivity. Qed.
Lemma dot_nil_r u : dot u [] = k0.
Proof. destruct u; reflexivity. Qed.
Lemma dot_cons a u b v : dot (a :: u) (b :: v) = Qcplus (Qcmult a b) (dot u v).
Proof. reflexivity. Qed.
Lemma dot_scale k row : forall v, dot row (lsc k v) = Qcmult k (dot row v).
Proof.
  induction row as [|a row IH]; intros [|b v]; cbn [map]; rewrite ?dot_nil_l, ?dot_nil_r, ?dot_cons, ?IH;
    change K with Qc; unfold k0; ring.
Qed.
Lemma dot_add row : forall u v, List.length u = List.length v ->
  dot row (xladd u v) = Qcplus (dot row u) (dot row v).
Proof.
  induction row as [|a row IH]; intros [|b u] [|c v] H; cbn in H; try discriminate;
    rewrite ?xladd_cons, ?xladd_nil_l, ?dot_nil_l, ?dot_nil_r, ?dot_cons; try (change K with Qc; unfold k0; ring).
  rewrite IH by lia. change K with Qc. ring.
Qed.
Lemma matvec_scale m k v : Exec.matvec m (lsc k v) = lsc k (Exec.matvec m v).
Proof. unfold Exec.matvec. rewrite map_map. apply map_ext. intros row. apply dot_scale. Qed.
Lemma matvec_add m u v : List.length u = List.length v -> Exec.matvec m (xladd u v) = xladd (Exec.matvec m u) (Exec.matvec m v).
Proof.
  intros H. unfold Exec.matvec. induction m as [|row m IH]; [reflexivity|]. cbn [map]. rewrite xladd_cons, IH.
  f_equal. now apply dot_add.
Qed.

(* ---------- unflatten commutes with scaling and addition (no condition on the length) ---------- *)
Lemma vunflat_map (f : K -> K) : forall s v,
  unfl s (map f v) = (pmap (map f) (fst (unfl s v)), map f (snd (unfl s v))).
Proof.
  induction s as [sd|k ss IH] using pt_ind'; intros v.
  - cbn [vunflat fst snd pmap]. now rewrite firstn_map, skipn_map.
  - rewrite !(vunflat_node K).
    assert (HL : forall v, unfl_list ss (map f v) =
              (map (pmap (map f)) (fst (unfl_list ss v)), map f (snd (unfl_list ss v)))).
    { clear v. induction IH as [|s ss' Hs _ IHl]; intros w; cbn [vunflat_list]; [reflexivity|].
      rewrite Hs. destruct (unfl s w) as [c r1]. cbn [fst snd]. rewrite IHl.
      destruct (unfl_list ss' r1) as [cs r2]. reflexivity. }
    rewrite HL. destruct (unfl_list ss v) as [cs r]. reflexivity.
Qed.

Lemma vunflat_add : forall s a b, List.length a = List.length b ->
  xvadd (fst (unfl s a)) (fst (unfl s b)) = Some (fst (unfl s (xladd a b))) /\
  snd (unfl s (xladd a b)) = xladd (snd (unfl s a)) (snd (unfl s b)) /\
  List.length (snd (unfl s a)) = List.length (snd (unfl s b)).
Proof.
  induction s as [sd|k ss IH] using pt_ind'; intros a b H.
  - cbn [vunflat fst snd vadd]. rewrite !firstn_length, !skipn_length, H, Nat.eqb_refl.
    rewrite xladd_firstn, xladd_skipn by exact H. auto.
  - rewrite !(vunflat_node K).
    assert (HL : forall a b, List.length a = List.length b ->
              omap2 xvadd (fst (unfl_list ss a)) (fst (unfl_list ss b)) = Some (fst (unfl_list ss (xladd a b))) /\
              snd (unfl_list ss (xladd a b)) = xladd (snd (unfl_list ss a)) (snd (unfl_list ss b)) /\
              List.length (snd (unfl_list ss a)) = List.length (snd (unfl_list ss b))).
    { clear a b H. induction IH as [|s ss' Hs _ IHl]; intros a b H; cbn [vunflat_list].
      - cbn [fst snd omap2]. auto.
      - destruct (Hs a b H) as (A1 & A2 & A3).
        destruct (unfl s a) as [ca ra], (unfl s b) as [cb rb], (unfl s (xladd a b)) as [cz rz]. cbn [fst snd] in *.
        subst rz. destruct (IHl ra rb A3) as (B1 & B2 & B3).
        destruct (unfl_list ss' ra) as [csa r2a], (unfl_list ss' rb) as [csb r2b],
          (unfl_list ss' (xladd ra rb)) as [csz r2z]. cbn [fst snd] in *.
        cbn [omap2]. rewrite A1, B1. auto. }
    destruct (HL a b H) as (B1 & B2 & B3).
    destruct (unfl_list ss a) as [csa ra], (unfl_list ss b) as [csb rb], (unfl_list ss (xladd a b)) as [csz rz].
    cbn [fst snd] in *. rewrite (vadd_node K), ckind_eqb_refl. repeat split; auto.
    transitivity (option_map (Node k) (Some csz)); [f_equal; exact B1|reflexivity].
Qed.

(* ---------- a leaf acting through a dense matrix ---------- *)
Lemma linmap_apply_matrix m si so : linmap (apply_matrix m si so).
Proof.
  split.
  - intros k x. unfold apply_matrix. rewrite has_struct_vscale. destruct (has_struct x si); [|reflexivity].
    cbn [option_map]. f_equal. change (vflatten (xvscale k x)) with (vflat K (xvscale k x)).
    rewrite (vflat_vscale K), matvec_scale. change (unflatten so) with (unfl so). now rewrite vunflat_map.
  - intros x y z x' y' Hz Hx Hy. unfold apply_matrix in *.
    destruct (has_struct x si) eqn:Ex; [|discriminate]. destruct (has_struct y si); [|discriminate].
    injection Hx as <-. injection Hy as <-.
    destruct (vadd_spec K Qcplus _ _ _ Hz) as (S1 & S2 & S3).
    rewrite (has_struct_sh_eq z x si S2), Ex.
    change (vflatten z) with (vflat K z). rewrite S3.
    rewrite matvec_add by (apply (vsh_length K); exact S1).
    destruct (vunflat_add so (Exec.matvec m (vflat K x)) (Exec.matvec m (vflat K y))) as (A1 & _ & _).
    { unfold Exec.matvec. now rewrite !map_length. }
    eexists. split; [exact A1|reflexivity].
Qed.

(* ---------- QU rotation and its transpose ---------- *)
Lemma rot_lists_scale tr k a : forall q u,
  rot_lists tr a (lsc k q) (lsc k u) = option_map (fun p => (lsc k (fst p), lsc k (snd p))) (rot_lists tr a q u).
Proof.
  induction a as [|an a IH]; intros [|qn q] [|un u]; cbn [map rot_lists option_map]; try reflexivity.
  destruct (cs2 an) as [[c s]|]; [|reflexivity]. rewrite IH.
  destruct (rot_lists tr a q u) as [[qs us]|]; cbn [option_map fst snd map]; [|reflexivity].
  f_equal. destruct tr; f_equal; f_equal; ring.
Qed.
Lemma rot_lists_add tr a : forall q u q2 u2 r1 r2,
  rot_lists tr a q u = Some r1 -> rot_lists tr a q2 u2 = Some r2 ->
  rot_lists tr a (xladd q q2) (xladd u u2) = Some (xladd (fst r1) (fst r2), xladd (snd r1) (snd r2)).
Proof.
  induction a as [|an a IH]; intros [|qn q] [|un u] [|qn2 q2] [|un2 u2] r1 r2 H1 H2;
    cbn [rot_lists] in H1, H2; try discriminate.
  - injection H1 as <-. injection H2 as <-. reflexivity.
  - rewrite !xladd_cons. cbn [rot_lists]. destruct (cs2 an) as [[c s]|]; [|discriminate].
    destruct (rot_lists tr a q u) as [[qs us]|] eqn:R1; [|discriminate].
    destruct (rot_lists tr a q2 u2) as [[qs2 us2]|] eqn:R2; [|discriminate].
    injection H1 as <-. injection H2 as <-. rewrite (IH _ _ _ _ _ _ R1 R2). cbn [fst snd]. rewrite !xladd_cons.
    f_equal. destruct tr; f_equal; f_equal; ring.
Qed.

(* vadd on two Stokes-like nodes whose children are leaves *)
Definition zipadd (ls ls' : list (list K)) : list (list K) := map (fun p => xladd (fst p) (snd p)) (combine ls ls').
Lemma vadd_leaves k ls : forall k' ls' z,
  xvadd (Node k (map (@Leaf (list K)) ls)) (Node k' (map (@Leaf (list K)) ls')) = Some z ->
  k = k' /\ map (@List.length K) ls = map (@List.length K) ls' /\ z = Node k (map (@Leaf (list K)) (zipadd ls ls')).
Proof.
  intros k' ls' z H. rewrite (vadd_node K) in H. destruct (ckind_eqb k k') eqn:Ek; [|discriminate].
  apply ckind_eqb_eq in Ek. subst k'. split; [reflexivity|].
  match type of H with context [omap2 ?f ?a ?b] => destruct (omap2 f a b) as [zs|] eqn:E; [|discriminate] end.
  injection H as <-.
  assert (HL : map (@List.length K) ls = map (@List.length K) ls' /\ zs = map (@Leaf (list K)) (zipadd ls ls')).
  { revert ls' zs E. induction ls as [|l ls IH]; intros [|l' ls'] zs E; cbn [map omap2] in E; try discriminate.
    - injection E as <-. split; reflexivity.
    - cbn [vadd] in E. destruct (Nat.eqb (List.length l) (List.length l')) eqn:El; [|discriminate].
      apply Nat.eqb_eq in El.
      match type of E with context [omap2 ?f ?a ?b] => destruct (omap2 f a b) as [zs'|] eqn:E'; [|discriminate] end.
      injection E as <-. destruct (IH _ _ E') as [I1 I2]. cbn [map]. rewrite El, I1, I2. split; reflexivity. }
  destruct HL as [H1 H2]. now rewrite H1, H2.
Qed.
Lemma vadd_leaves_def k ls ls' : map (@List.length K) ls = map (@List.length K) ls' ->
  xvadd (Node k (map (@Leaf (list K)) ls)) (Node k (map (@Leaf (list K)) ls')) =
  Some (Node k (map (@Leaf (list K)) (zipadd ls ls'))).
Proof.
  intros H. rewrite (vadd_node K), ckind_eqb_refl.
  assert (E : omap2 xvadd (map (@Leaf (list K)) ls) (map (@Leaf (list K)) ls') = Some (map (@Leaf (list K)) (zipadd ls ls'))).
  { revert ls' H. induction ls as [|l ls IH]; intros [|l' ls'] H; cbn [map] in H; try discriminate; [reflexivity|].
    injection H as H1 H2. cbn [map omap2 vadd].
    match goal with |- context [Nat.eqb ?a ?b] => replace (Nat.eqb a b) with true by (symmetry; apply Nat.eqb_eq; exact H1) end.
    match goal with |- context [omap2 ?f ?a ?b] => replace (omap2 f a b) with (Some (map (@Leaf (list K)) (zipadd ls ls'))) by (symmetry; exact (IH _ H2)) end.
    reflexivity. }
  transitivity (option_map (Node k) (Some (map (@Leaf (list K)) (zipadd ls ls')))); [f_equal; exact E|reflexivity].
Qed.

Ltac dm := repeat match goal with
  | |- context [match ?v with _ => _ end] => is_var v; destruct v; cbn [vscale pmap map option_map]; try reflexivity
  end.

Ltac unleaf cs := match cs with
  | @nil _ => constr:(@nil (list K))
  | Leaf ?a :: ?r => let r' := unleaf r in constr:(a :: r')
  end.
(* Hz : xvadd (Node k [Leaf ..]) (Node k' [Leaf ..]) = Some z  ~>  z explicit, same kind, same lengths *)
Ltac add_leaves Hz z :=
  match type of Hz with xvadd (Node ?k ?cs) (Node ?k' ?cs') = _ =>
    let l := unleaf cs in let l' := unleaf cs' in
    let Ek := fresh "Ek" in let El := fresh "El" in let Ez := fresh "Ez" in
    destruct (vadd_leaves k l k' l' z Hz) as (Ek & El & Ez);
    try discriminate Ek; cbn [map] in El; try discriminate El; subst z
  end.

Lemma linmap_rot tr a : linmap (rot_value tr a).
Proof.
  split.
  - intros k x. unfold rot_value, vscale. dm;
      rewrite rot_lists_scale; match goal with |- context [rot_lists ?t ?aa ?q ?u] => destruct (rot_lists t aa q u) as [[? ?]|] end;
      reflexivity.
  - intros x y z x' y' Hz Hx Hy. unfold rot_value in Hx, Hy. split_match Hx; split_match Hy; add_leaves Hz z.
    all: try (injection Hx as <-; injection Hy as <-; eexists; split; [exact Hz|reflexivity]).
    all: match type of Hx with context [rot_lists ?t ?aa ?q ?u] => destruct (rot_lists t aa q u) as [[q1 u1]|] eqn:R1; [|discriminate Hx] end;
         match type of Hy with context [rot_lists ?t ?aa ?q ?u] => destruct (rot_lists t aa q u) as [[q2 u2]|] eqn:R2; [|discriminate Hy] end;
         injection Hx as <-; injection Hy as <-;
         destruct (rot_lists_len _ _ _ _ _ _ R1) as [L1 L1']; destruct (rot_lists_len _ _ _ _ _ _ R2) as [L2 L2'];
         eexists; (split; [|cbn [zipadd combine map fst snd rot_value]; rewrite (rot_lists_add tr a _ _ _ _ _ _ R1 R2); cbn [fst snd]; reflexivity]).
    + apply (vadd_leaves_def (KStokes 2) [q1; u1] [q2; u2]). cbn [map] in *. congruence.
    + apply (vadd_leaves_def (KStokes 3) [_; q1; u1] [_; q2; u2]). cbn [map] in *. congruence.
    + apply (vadd_leaves_def (KStokes 4) [_; q1; u1; _] [_; q2; u2; _]). cbn [map] in *. congruence.
Qed.

(* ---------- half-wave plate ---------- *)
Lemma negl_scale k u : negl (lsc k u) = lsc k (negl u).
Proof. unfold negl. rewrite !map_map. apply map_ext. intros; ring. Qed.
Lemma negl_add u : forall v, negl (xladd u v) = xladd (negl u) (negl v).
Proof.
  unfold negl. induction u as [|a u IH]; intros [|b v]; try reflexivity.
  cbn [map]. rewrite !xladd_cons. cbn [map]. rewrite IH. f_equal. ring.
Qed.
Lemma negl_length u : List.length (negl u) = List.length u.
Proof. apply map_length. Qed.

(* goal: xvadd (Node k [Leaf ..]) (Node k [Leaf ..]) = Some _ *)
Ltac add_def :=
  match goal with |- xvadd (Node ?k ?cs) (Node ?k ?cs') = _ =>
    let l := unleaf cs in let l' := unleaf cs' in
    transitivity (Some (Node k (map (@Leaf (list K)) (zipadd l l')))); [apply (vadd_leaves_def k l l'); cbn [map]|cbn [zipadd combine map fst snd]]
  end.

Lemma linmap_hwp : linmap hwp_value.
Proof.
  split.
  - intros k x. unfold hwp_value, vscale. dm; cbn [option_map pmap map]; rewrite ?negl_scale; reflexivity.
  - intros x y z x' y' Hz Hx Hy. unfold hwp_value in Hx, Hy. split_match Hx; split_match Hy; add_leaves Hz z;
      injection Hx as <-; injection Hy as <-; (eexists; split; [|reflexivity]); add_def;
      rewrite ?negl_length, ?negl_add; solve [exact El | reflexivity].
Qed.

(* ---------- polariser ---------- *)
Notation polc := (fun p : K * K => Qcmult half (Qcplus (fst p) (snd p))).
Lemma half_scale k i : map (Qcmult half) (lsc k i) = lsc k (map (Qcmult half) i).
Proof. rewrite !map_map. apply map_ext. intros; ring. Qed.
Lemma half_add i : forall i2, map (Qcmult half) (xladd i i2) = xladd (map (Qcmult half) i) (map (Qcmult half) i2).
Proof.
  induction i as [|a i IH]; intros [|b i2]; try reflexivity.
  rewrite xladd_cons. cbn [map]. rewrite xladd_cons, IH. f_equal. ring.
Qed.
Lemma polc_scale k : forall i q, map polc (combine (lsc k i) (lsc k q)) = lsc k (map polc (combine i q)).
Proof.
  induction i as [|a i IH]; intros [|b q]; try reflexivity. cbn [map combine fst snd]. rewrite IH. f_equal. ring.
Qed.
Lemma polc_add : forall i q i2 q2, List.length i = List.length i2 -> List.length q = List.length q2 ->
  map polc (combine (xladd i i2) (xladd q q2)) = xladd (map polc (combine i q)) (map polc (combine i2 q2)).
Proof.
  induction i as [|a i IH]; intros [|b q] [|a2 i2] [|b2 q2] H1 H2; cbn in H1, H2; try discriminate; try reflexivity.
  rewrite !xladd_cons. cbn [combine map fst snd]. rewrite xladd_cons, IH by lia. f_equal. ring.
Qed.
Lemma polc_len (i q : list K) : List.length i = List.length q -> List.length (map polc (combine i q)) = List.length i.
Proof. intros H. rewrite map_length, combine_length, H. apply Nat.min_id. Qed.

Lemma vadd_leaf_def (u v : list K) : List.length u = List.length v -> xvadd (Leaf u) (Leaf v) = Some (Leaf (xladd u v)).
Proof.
  intros H. cbn [vadd].
  match goal with |- context [Nat.eqb ?a ?b] => replace (Nat.eqb a b) with true by (symmetry; apply Nat.eqb_eq; exact H) end.
  reflexivity.
Qed.

Ltac fold_ladd := repeat match goal with
  | |- context [map (fun p : ?T => Qcplus (fst p) (snd p)) (combine ?a ?b)] =>
      change (map (fun p : T => Qcplus (fst p) (snd p)) (combine a b)) with (xladd a b)
  end.

Lemma linmap_pol : linmap pol_value.
Proof.
  split.
  - intros k x. unfold pol_value, vscale. dm; cbn [option_map pmap map]; rewrite ?half_scale; try reflexivity;
      rewrite !map_length; unfold K; match goal with |- context [Nat.eqb ?a ?b] => destruct (Nat.eqb a b) end;
      cbn [option_map pmap]; rewrite ?polc_scale; reflexivity.
  - intros x y z x' y' Hz Hx Hy. unfold pol_value in Hx, Hy. split_match Hx; split_match Hy;
      rewrite (vadd_node K) in Hz; cbn [ckind_eqb Nat.eqb] in Hz; try discriminate Hz;
      cbn [omap2 vadd] in Hz;
      repeat match type of Hz with context [Nat.eqb ?a ?b] =>
        destruct (Nat.eqb a b) eqn:?; cbn [omap2 vadd option_map] in Hz; [|discriminate Hz] end;
      try match type of Hz with context [omap2 ?f ?a ?b] => destruct (omap2 f a b); cbn [option_map] in Hz; [|discriminate Hz] end;
      injection Hz as <-; fold_ladd;
      repeat match goal with H : Nat.eqb _ _ = true |- _ => apply Nat.eqb_eq in H end.
    1-2: injection Hx as <-; injection Hy as <-; (eexists; split; [|reflexivity]);
         rewrite vadd_leaf_def by (rewrite !map_length; assumption); now rewrite half_add.
    all: match type of Hx with context [Nat.eqb ?a ?b] => destruct (Nat.eqb a b) eqn:Ex; [|discriminate Hx] end;
         match type of Hy with context [Nat.eqb ?a ?b] => destruct (Nat.eqb a b) eqn:Ey; [|discriminate Hy] end;
         apply Nat.eqb_eq in Ex, Ey; injection Hx as <-; injection Hy as <-;
         (eexists; split; [|cbn [pol_value]; rewrite !xladd_len by assumption;
            replace (Nat.eqb _ _) with true by (symmetry; apply Nat.eqb_eq; exact Ex); reflexivity]);
         rewrite vadd_leaf_def by (rewrite !polc_len by assumption; assumption);
         rewrite polc_add by assumption; reflexivity.
Qed.

(* ---------- 1-d diagonal ---------- *)
Lemma dmap_scale (c : nat -> K) k : forall ns d,
  map (fun p : nat * K => Qcmult (c (fst p)) (snd p)) (combine ns (lsc k d)) =
  lsc k (map (fun p : nat * K => Qcmult (c (fst p)) (snd p)) (combine ns d)).
Proof. induction ns as [|n ns IH]; intros [|x d]; try reflexivity. cbn [map combine fst snd]. rewrite IH. f_equal. ring. Qed.
Lemma dmap_add (c : nat -> K) : forall d d2 n, List.length d = List.length d2 ->
  map (fun p : nat * K => Qcmult (c (fst p)) (snd p)) (combine (seq n (List.length (xladd d d2))) (xladd d d2)) =
  xladd (map (fun p : nat * K => Qcmult (c (fst p)) (snd p)) (combine (seq n (List.length d)) d))
        (map (fun p : nat * K => Qcmult (c (fst p)) (snd p)) (combine (seq n (List.length d2)) d2)).
Proof.
  induction d as [|x d IH]; intros [|y d2] n H; cbn in H; try discriminate; [reflexivity|].
  rewrite xladd_cons. cbn [List.length seq combine map fst snd]. rewrite xladd_cons, IH by lia. f_equal. ring.
Qed.
Lemma diag_leaf_scale axis v sd k d : Exec.diag_leaf axis v sd (lsc k d) = lsc k (Exec.diag_leaf axis v sd d).
Proof. unfold Exec.diag_leaf. rewrite map_length. apply (dmap_scale (fun i => Q2Qc (nth ((i / _) mod _) v 0%Q))). Qed.
Lemma diag_leaf_add axis v sd d d2 : List.length d = List.length d2 ->
  Exec.diag_leaf axis v sd (xladd d d2) = xladd (Exec.diag_leaf axis v sd d) (Exec.diag_leaf axis v sd d2).
Proof. intros H. unfold Exec.diag_leaf. apply (dmap_add (fun i => Q2Qc (nth ((i / _) mod _) v 0%Q))). exact H. Qed.
Lemma diag_leaf_length axis v sd (d : list K) : List.length (Exec.diag_leaf axis v sd d) = List.length d.
Proof. unfold Exec.diag_leaf. rewrite map_length, combine_length, seq_length. apply Nat.min_id. Qed.

Fixpoint dgo (f : struct -> xvalue -> xvalue) (l : list xvalue) (l' : list struct) : list xvalue :=
  match l, l' with a :: r, b :: r' => f b a :: dgo f r r' | _, _ => [] end.
Lemma diag_value_node axis v k cs k' ss :
  Exec.diag_value axis v (Node k' ss) (Node k cs) = Node k (dgo (Exec.diag_value axis v) cs ss).
Proof.
  cbn [Exec.diag_value]. f_equal. revert ss. induction cs as [|c cs IH]; intros [|s ss]; try reflexivity.
  cbn [dgo]. f_equal. apply IH.
Qed.

Lemma diag_value_scale axis v k : forall s x, Exec.diag_value axis v s (xvscale k x) = xvscale k (Exec.diag_value axis v s x).
Proof.
  unfold vscale. induction s as [sd|ks ss IH] using pt_ind'; intros [d|kx cs]; try reflexivity.
  - cbn [pmap Exec.diag_value]. f_equal. apply diag_leaf_scale.
  - cbn [pmap]. rewrite !diag_value_node. cbn [pmap]. f_equal.
    revert cs. induction IH as [|s0 ss Hs _ IHs]; intros [|c cs]; try reflexivity.
    cbn [map dgo]. now rewrite Hs, IHs.
Qed.

Lemma diag_value_add axis v : forall s x y z, xvadd x y = Some z ->
  xvadd (Exec.diag_value axis v s x) (Exec.diag_value axis v s y) = Some (Exec.diag_value axis v s z).
Proof.
  induction s as [sd|ks ss IH] using pt_ind'; intros [d|kx cs] [d2|ky cs2] z Hz; try discriminate Hz.
  - cbn [vadd] in Hz. destruct (Nat.eqb (List.length d) (List.length d2)) eqn:E; [|discriminate]. injection Hz as <-.
    apply Nat.eqb_eq in E. cbn [Exec.diag_value]. fold_ladd. rewrite vadd_leaf_def by (rewrite !diag_leaf_length; exact E).
    now rewrite diag_leaf_add.
  - (* structure is a leaf, values are containers: diag_value is the identity *)
    pose proof Hz as Hz'. rewrite (vadd_node K) in Hz'. destruct (ckind_eqb kx ky); [|discriminate].
    match type of Hz' with context [omap2 ?f ?a ?b] => destruct (omap2 f a b); [|discriminate] end.
    injection Hz' as <-. exact Hz.
  - pose proof Hz as Hz'. cbn [vadd] in Hz'. destruct (Nat.eqb (List.length d) (List.length d2)); [|discriminate].
    injection Hz' as <-. exact Hz.
  - rewrite (vadd_node K) in Hz. destruct (ckind_eqb kx ky) eqn:Ek; [|discriminate].
    match type of Hz with context [omap2 ?f ?a ?b] => destruct (omap2 f a b) as [zs|] eqn:E; [|discriminate] end.
    injection Hz as <-. rewrite !diag_value_node, (vadd_node K), Ek.
    assert (HL : omap2 xvadd (dgo (Exec.diag_value axis v) cs ss) (dgo (Exec.diag_value axis v) cs2 ss) =
                 Some (dgo (Exec.diag_value axis v) zs ss)).
    { clear Ek. revert cs cs2 zs E. induction IH as [|s0 ss Hs _ IHs]; intros [|c cs] [|c2 cs2] zs E; cbn [omap2] in E; try discriminate.
      - injection E as <-. reflexivity.
      - repeat match type of E with (match ?t with _ => _ end) = _ => destruct t; [|discriminate E] end.
        injection E as <-. reflexivity.
      - injection E as <-. reflexivity.
      - match type of E with (match ?t with _ => _ end) = _ => destruct t as [z0|] eqn:E0; [|discriminate E] end.
        match type of E with (match ?t with _ => _ end) = _ => destruct t as [zs'|] eqn:E'; [|discriminate E] end.
        injection E as <-. cbn [dgo omap2]. rewrite (Hs _ _ _ E0).
        match goal with |- context [omap2 ?f ?a ?b] => replace (omap2 f a b) with (Some (dgo (Exec.diag_value axis v) zs' ss)) by (symmetry; exact (IHs _ _ _ E')) end.
        reflexivity. }
    transitivity (option_map (Node kx) (Some (dgo (Exec.diag_value axis v) zs ss))); [f_equal; exact HL|reflexivity].
Qed.

Lemma linmap_diag axis v s : linmap (fun x => Some (Exec.diag_value axis v s x)).
Proof.
  split.
  - intros k x. cbn [option_map]. f_equal. apply diag_value_scale.
  - intros x y z x' y' Hz Hx Hy. injection Hx as <-. injection Hy as <-. eexists. split; [|reflexivity].
    now apply diag_value_add.
Qed.

(* ---------- every leaf of the executable semantics, for every table ---------- *)
Lemma leafsem_linmap tb (e : xop) : linmap (leafsem tb e).
Proof.
  unfold leafsem. apply linmap_guard.
  destruct e as [i c si so p|i w inner|i s|i k s|i l|i l|i b td l]; try apply linmap_none.
  - destruct (if (i =? 0)%N then None else lookup tb (2 * i)%N) as [m|]; [apply linmap_apply_matrix|].
    destruct c, p;
      first [apply linmap_none | apply linmap_rot | apply linmap_hwp | apply linmap_pol | apply linmap_diag
            | match goal with |- context [lookup tb ?k] => destruct (lookup tb k); [apply linmap_apply_matrix|apply linmap_none] end].
  - destruct (if (i =? 0)%N then None else lookup tb (2 * i)%N) as [m|]; [apply linmap_apply_matrix|].
    destruct w, inner as [j c sj soj p| | | | | |]; try apply linmap_none;
      try (match goal with |- context [lookup tb ?k] => destruct (lookup tb k); [apply linmap_apply_matrix|apply linmap_none] end).
    destruct c, p; first [apply linmap_none | apply linmap_rot].
Qed.

Theorem exec_lin_facts tb : lin_facts K Qcplus Qcmult (leafsem tb).
Proof.
  constructor.
  - intros e k x _. apply (proj1 (leafsem_linmap tb e)).
  - intros e x y z x' y' _. apply (proj2 (leafsem_linmap tb e)).
Qed.

(* lf_hom of Sound.leaf_facts (C01) is the same statement *)
Theorem exec_lf_hom tb : forall (e : xop) k x, leaflike K e = true ->
  leafsem tb e (xvscale k x) = option_map (xvscale k) (leafsem tb e x).
Proof. exact (la_hom _ _ _ _ (exec_lin_facts tb)). Qed.

(* C04 for the executable model, with no hypothesis on the leaves *)
Theorem exec_denote_homogeneous tb : forall (e : xop) k x,
  den tb e (xvscale k x) = option_map (xvscale k) (den tb e x).
Proof. exact (denote_hom' K k0 k1 Qcplus Qcmult Qcminus Qcopp Qcrt (leafsem tb) (exec_lin_facts tb)). Qed.
Theorem exec_denote_additive tb : forall (e : xop) x y z x' y', xvadd x y = Some z ->
  den tb e x = Some x' -> den tb e y = Some y' -> exists z', xvadd x' y' = Some z' /\ den tb e z = Some z'.
Proof. exact (denote_additive K k0 k1 Qcplus Qcmult Qcminus Qcopp Qcrt (leafsem tb) (exec_lin_facts tb)). Qed.
Theorem exec_denote_linear tb : forall (e : xop) a b x y x' y' z, den tb e x = Some x' -> den tb e y = Some y' ->
  xvadd (xvscale a x) (xvscale b y) = Some z ->
  exists z', xvadd (xvscale a x') (xvscale b y') = Some z' /\ den tb e z = Some z'.
Proof. exact (denote_linear_l K k0 k1 Qcplus Qcmult Qcminus Qcopp Qcrt (leafsem tb) (exec_lin_facts tb)). Qed.

(* ====================================================================================== *)
(* Part 2 - facts that hold under a decidable consistency condition on the table          *)
(* ====================================================================================== *)
Notation Q7 f := (f K k0 k1 Qcplus Qcmult Qcminus Qcopp Qcrt) (only parsing).
Notation mcols := (matvec_cols K k0 Qcplus Qcmult).
Notation xzeros := (zeros K k0).
Notation xonehot := (onehot K k0 k1).
Notation gcols tb := (generic_columns K k0 k1 Qcplus Qcmult (leafsem tb)).
Notation xhonest tb := (honest K Qcplus Qcmult (leafsem tb)).
Notation xcolsok := (colsok K).

(* ---------- column-form and row-form matrix-vector products ---------- *)
Lemma scale_plus (a b : K) c : map (Qcmult (Qcplus a b)) c = xladd (map (Qcmult a) c) (map (Qcmult b) c).
Proof. induction c as [|x c IH]; [reflexivity|]. cbn [map]. rewrite xladd_cons, IH. f_equal. ring. Qed.
Lemma mcols_scale nr cols k : forall v, mcols nr cols (lsc k v) = lsc k (mcols nr cols v).
Proof.
  induction cols as [|c cs IH]; intros [|a v]; cbn [map matvec_cols]; try (now rewrite (Q7 lscale_zeros)).
  now rewrite IH, (Q7 lscale_ladd), (Q7 lscale_lscale).
Qed.
Lemma mcols_add nr cols : forall u v, List.length u = List.length v ->
  mcols nr cols (xladd u v) = xladd (mcols nr cols u) (mcols nr cols v).
Proof.
  induction cols as [|c cs IH]; intros [|a u] [|b v] H; cbn in H; try discriminate;
    try (cbn [matvec_cols]; symmetry; apply (Q7 ladd_zeros_l), (zeros_length K)).
  rewrite xladd_cons. cbn [matvec_cols]. rewrite IH by lia. now rewrite scale_plus, (Q7 ladd_interchange).
Qed.
Lemma dot_zeros row : forall n, dot row (xzeros n) = k0.
Proof.
  induction row as [|a row IH]; intros [|n]; try reflexivity. unfold zeros. cbn [repeat]. rewrite dot_cons.
  fold (xzeros n). rewrite IH. change K with Qc. unfold k0. ring.
Qed.
Lemma dot_comm u v : dot u v = dot v u.
Proof. apply xdot_comm. Qed.
Lemma dot_mcols w nr cols : xcolsok nr cols -> forall v, dot w (mcols nr cols v) = dot (map (dot w) cols) v.
Proof.
  induction 1 as [|c cs Hc Hcs IH]; intros [|a v]; cbn [map matvec_cols]; rewrite ?dot_zeros, ?dot_nil_l, ?dot_nil_r; try reflexivity.
  rewrite dot_add by (rewrite map_length, (mv_length K k0 Qcplus Qcmult nr cs Hcs); exact Hc).
  rewrite dot_scale, IH, dot_cons. change K with Qc. ring.
Qed.

(* a linear map of vectors of length n that fixes the basis vectors is the identity *)
Lemma list_lin_id (g : list K -> list K) n :
  (forall k v, g (lsc k v) = lsc k (g v)) ->
  (forall u v, List.length u = n -> List.length v = n -> g (xladd u v) = xladd (g u) (g v)) ->
  (forall v, List.length (g v) = n) ->
  (forall j, j < n -> g (xonehot n j) = xonehot n j) ->
  forall v, List.length v = n -> g v = v.
Proof.
  intros Hs Ha Hl Hb.
  assert (HZ : g (xzeros n) = xzeros n).
  { destruct n as [|n'].
    - specialize (Hl (xzeros 0)). destruct (g (xzeros 0)); [reflexivity|discriminate].
    - assert (E : xzeros (S n') = lsc k0 (xonehot (S n') 0)) by (now rewrite (Q7 lscale0), (onehot_length K k0 k1)).
      rewrite E, Hs, Hb by lia. reflexivity. }
  assert (G : forall w k, k + List.length w = n -> g (xzeros k ++ w) = xzeros k ++ w).
  { induction w as [|a w IH]; intros k Hk; cbn [List.length] in Hk.
    - rewrite app_nil_r. replace k with n by lia. exact HZ.
    - rewrite (Q7 vector_step k a w). replace (k + S (List.length w)) with n by lia.
      rewrite Ha; [|now rewrite map_length, (onehot_length K k0 k1)|rewrite app_length, (zeros_length K); lia].
      rewrite Hs, Hb by lia. now rewrite IH by lia. }
  intros v Hv. exact (G v 0 Hv).
Qed.

(* ---------- decidable checks ---------- *)
Lemma keqb_eq a b : keqb a b = true -> a = b.
Proof. apply Qc_eq_bool_correct. Qed.
Definition veqb (u v : list K) : bool := list_eqb keqb u v.
Lemma veqb_eq u v : veqb u v = true -> u = v.
Proof. apply list_eqb_eq, keqb_eq. Qed.
Definition meqb (A B : matrix) : bool := list_eqb veqb A B.
Lemma meqb_eq A B : meqb A B = true -> A = B.
Proof. apply list_eqb_eq, veqb_eq. Qed.
(* g fixes every basis vector of length n *)
Definition roundtrip_id (n : nat) (g : list K -> list K) : bool :=
  forallb (fun j => veqb (g (xonehot n j)) (xonehot n j)) (seq 0 n).
Lemma roundtrip_spec n g : roundtrip_id n g = true -> forall j, j < n -> g (xonehot n j) = xonehot n j.
Proof.
  unfold roundtrip_id. rewrite forallb_forall. intros H j Hj. apply veqb_eq, H, in_seq. lia.
Qed.
(* m is a (size so) x (size si) array given by its rows *)
Definition dims_okb (si so : struct) (m : matrix) : bool :=
  Nat.eqb (List.length m) (struct_size so) && forallb (fun r => Nat.eqb (List.length r) (struct_size si)) m.
Lemma dims_okb_spec si so m : dims_okb si so m = true ->
  List.length m = struct_size so /\ Forall (fun r => List.length r = struct_size si) m.
Proof.
  unfold dims_okb. intros H. apply andb_true_iff in H as [H1 H2]. apply Nat.eqb_eq in H1. split; [exact H1|].
  apply Forall_forall. intros r Hr. rewrite forallb_forall in H2. now apply Nat.eqb_eq, H2.
Qed.

(* the matrix measured on the real object with identity i (Exec.leafsem looks it up first) *)
Definition stored (tb : table) (i : N) : option matrix := if (i =? 0)%N then None else lookup tb (2 * i)%N.
(* declared structures of a table-free polariser: one flat output leaf as large as the first Stokes leaf *)
Definition pol_okb (si so : struct) : bool :=
  match si, so with
  | Node (KStokes _) (Leaf a :: _), Leaf b => Nat.eqb (leaf_size a) (leaf_size b)
  | _, _ => false
  end.
(* "matrices have the dimensions of the declared structures" for one leaf operator *)
Definition leaf_okb (tb : table) (e : xop) : bool :=
  let si := in_struct e in
  let so := out_struct e in
  match e with
  | Prim i c _ _ p =>
      match stored tb i with
      | Some m => dims_okb si so m
      | None =>
          match c, p with
          | CQURotation, PAngles _ => true
          | CHWP, _ => true
          | CLinearPolarizer, _ => pol_okb si so
          | CDiagonal, PDiag _ _ => true
          | _, PKey k => match lookup tb k with Some m => dims_okb si so m | None => true end
          | _, _ => true
          end
      end
  | Wrap i _ _ => match stored tb i with Some m => dims_okb si so m | None => true end
  | _ => true
  end.
(* consistency of the matrix stored for a lazy wrapper with the matrix of its operand (C04's generic
   columns of the operand under the same table): a lazy INVERSE wrapper stores a two-sided inverse
   (N M e_j = e_j and M N e_j = e_j for every basis vector); a lazy TRANSPOSE wrapper (TransposeOperator,
   ReshapeTranspose, ObservationMatrixTranspose, QURotationTranspose) stores the transposed matrix (the
   rows of N are the columns of M) *)
Definition wrap_okb (tb : table) (i : N) (w : wkind) (x : xop) : bool :=
  match stored tb i with
  | None => true
  | Some N =>
      match gcols tb x with
      | None => false
      | Some cols =>
          (if isinst (wcls w) [CAbstractLazyInverse]
           then roundtrip_id (in_size x) (fun v => Exec.matvec N (mcols (out_size x) cols v)) &&
                roundtrip_id (out_size x) (fun v => mcols (out_size x) cols (Exec.matvec N v))
           else true) &&
          (if lazyT w then meqb N cols else true)
      end
  end.
Fixpoint table_okb (tb : table) (e : xop) : bool :=
  let all := fix all (l : list xop) : bool :=
    match l with [] => true | x :: xs => table_okb tb x && all xs end in
  match e with
  | Prim _ _ _ _ _ => leaf_okb tb e
  | Wrap i w x => table_okb tb x && leaf_okb tb e && wrap_okb tb i w x
  | Ident _ _ | Homoth _ _ _ => true
  | Comp _ l | AddOp _ l | Block _ _ _ l => all l
  end.

(* ---------- structures of the operands ---------- *)
Lemma wrap_in i w (x : xop) : in_struct (Wrap i w x) = out_struct x.
Proof. unfold in_struct, out_struct. cbn [structs]. destruct (structs x); reflexivity. Qed.
Lemma wrap_out i w (x : xop) : out_struct (Wrap i w x) = in_struct x.
Proof. unfold in_struct, out_struct. cbn [structs]. destruct (structs x); reflexivity. Qed.

Lemma table_okb_comp tb i l : table_okb tb (Comp i l) = forallb (table_okb tb) l.
Proof. cbn [table_okb]. induction l as [|x xs IH]; [reflexivity|]. cbn [forallb]. now rewrite <- IH. Qed.
Lemma table_okb_add tb i l : table_okb tb (AddOp i l) = forallb (table_okb tb) l.
Proof. cbn [table_okb]. induction l as [|x xs IH]; [reflexivity|]. cbn [forallb]. now rewrite <- IH. Qed.
Lemma table_okb_block tb i b td l : table_okb tb (Block i b td l) = forallb (table_okb tb) l.
Proof. cbn [table_okb]. induction l as [|x xs IH]; [reflexivity|]. cbn [forallb]. now rewrite <- IH. Qed.

(* ---------- every leaf returns a value of its declared output structure (leaf_honest of C05) ---------- *)
Lemma am_honest m si so (x y : xvalue) : List.length m = struct_size so ->
  apply_matrix m si so x = Some y -> has_struct y so = true.
Proof. intros L H. rewrite has_struct_vhas. eapply apply_matrix_honest; [|exact H]. lia. Qed.

Lemma pol_honest si so (x y : xvalue) : pol_okb si so = true -> has_struct x si = true ->
  pol_value x = Some y -> has_struct y so = true.
Proof.
  intros Hok Hx Hy. unfold pol_okb in Hok.
  destruct si as [|ks cs]; try discriminate Hok. destruct ks; try discriminate Hok.
  destruct cs as [|[a|] ss]; try discriminate Hok. destruct so as [b|]; [|discriminate Hok]. apply Nat.eqb_eq in Hok.
  unfold pol_value in Hy. split_match Hy; cbn [has_struct] in Hx; apply andb_true_iff in Hx as [_ Hx];
    apply andb_true_iff in Hx as [Hd _]; unfold leaf_ok in Hd; apply Nat.eqb_eq in Hd.
  1-2: injection Hy as <-; cbn [has_struct]; unfold leaf_ok; apply Nat.eqb_eq; rewrite map_length; exact (eq_trans Hd Hok).
  all: match type of Hy with context [Nat.eqb ?u ?v] => destruct (Nat.eqb u v) eqn:E; [|discriminate Hy] end;
       apply Nat.eqb_eq in E; injection Hy as <-; cbn [has_struct]; unfold leaf_ok; apply Nat.eqb_eq;
       rewrite map_length, combine_length; etransitivity; [|exact (eq_trans Hd Hok)];
       etransitivity; [apply f_equal; symmetry; exact E|apply Nat.min_id].
Qed.

Lemma diag_value_sh axis v : forall s (x : xvalue), has_struct x s = true -> vsh (Exec.diag_value axis v s x) = vsh x.
Proof.
  induction s as [sd|ks ss IH] using pt_ind'; intros [d|kx cs] Hx; try discriminate Hx.
  - cbn [Exec.diag_value pmap]. now rewrite diag_leaf_length.
  - rewrite diag_value_node. cbn [pmap]. f_equal.
    change (AsMatrix.vhas K (Node kx cs) (Node ks ss) = true) in Hx. rewrite (AsMatrixL.vhas_node K) in Hx.
    apply andb_true_iff in Hx as [_ Hx]. revert cs Hx.
    induction IH as [|s0 ss Hs _ IHs]; intros [|c cs] Hx; cbn [all2] in Hx; try discriminate Hx; [reflexivity|].
    apply andb_true_iff in Hx as [H1 H2]. cbn [dgo map]. rewrite (Hs c H1), (IHs cs H2). reflexivity.
Qed.
Lemma diag_value_struct axis v s (x : xvalue) : has_struct x s = true -> has_struct (Exec.diag_value axis v s x) s = true.
Proof. intros H. rewrite (has_struct_sh_eq _ x s (diag_value_sh axis v s x H)). exact H. Qed.

Lemma exec_leaf_honest_ok tb (e : xop) : leaflike K e = true -> leaf_okb tb e = true -> leaf_honest K (leafsem tb) e.
Proof.
  intros Hl Hok x y Hx Hy. rewrite <- has_struct_vhas in Hx |- *.
  unfold leafsem in Hy. rewrite Hx in Hy. cbn [negb] in Hy.
  destruct e as [i c si so p|i w inner| | | | |]; try discriminate Hl; unfold leaf_okb, stored in Hok.
  - destruct (if (i =? 0)%N then None else lookup tb (2 * i)%N) as [m|].
    + apply dims_okb_spec in Hok as [L _]. exact (am_honest _ _ _ _ _ L Hy).
    + destruct c, p; try discriminate Hy; unfold in_struct, out_struct in *; cbn [structs square_cls fst snd] in *;
        first [ rewrite (rot_value_struct _ _ _ _ _ Hy); exact Hx
              | rewrite (hwp_value_struct _ _ _ Hy); exact Hx
              | exact (pol_honest _ _ _ _ Hok Hx Hy)
              | injection Hy as <-; apply diag_value_struct; exact Hx
              | match type of Hy with context [lookup tb ?k] => destruct (lookup tb k) as [m|]; [|discriminate Hy] end;
                apply dims_okb_spec in Hok as [L _]; exact (am_honest _ _ _ _ _ L Hy) ].
  - rewrite wrap_in, wrap_out in *.
    destruct (if (i =? 0)%N then None else lookup tb (2 * i)%N) as [m|].
    + apply dims_okb_spec in Hok as [L _]. exact (am_honest _ _ _ _ _ L Hy).
    + destruct w, inner as [j c sj soj p| | | | | |]; try discriminate Hy;
        try (match type of Hy with context [lookup tb ?k] => destruct (lookup tb k) as [m|]; [|discriminate Hy] end;
             refine (am_honest _ _ _ _ _ _ Hy); apply transpose_m_length).
      destruct c, p; try discriminate Hy. unfold in_struct, out_struct in *; cbn [structs square_cls fst snd] in *.
      rewrite (rot_value_struct _ _ _ _ _ Hy); exact Hx.
Qed.

Lemma table_ok_leaves tb : forall e : xop, table_okb tb e = true -> Forall (leaf_honest K (leafsem tb)) (leaves e).
Proof.
  assert (HL : forall l : list xop,
            Forall (fun e => table_okb tb e = true -> Forall (leaf_honest K (leafsem tb)) (leaves e)) l ->
            forallb (table_okb tb) l = true -> Forall (leaf_honest K (leafsem tb)) (flat_map (@leaves K) l)).
  { induction 1 as [|x xs Hx _ IH]; intros H; cbn [flat_map]; [constructor|].
    cbn [forallb] in H. apply andb_true_iff in H as [H1 H2]. apply Forall_app. auto. }
  induction e as [i c si so p|i w e IH|i s|i k s|i l IH|i l IH|i b td l IH] using op_ind'; intros H; cbn [leaves].
  - constructor; [|constructor]. now apply exec_leaf_honest_ok.
  - cbn [table_okb] in H. apply andb_true_iff in H as [H _]. apply andb_true_iff in H as [_ H].
    constructor; [|constructor]. now apply exec_leaf_honest_ok.
  - constructor.
  - constructor.
  - rewrite table_okb_comp in H. now apply HL.
  - rewrite table_okb_add in H. now apply HL.
  - rewrite table_okb_block in H. now apply HL.
Qed.

(* the honesty premise of C04's apply_is_matvec, from the dimension checks *)
Theorem exec_honest_ok tb (e : xop) : wfo e = true -> table_okb tb e = true -> xhonest tb e.
Proof.
  intros W T x y Hx Hy. rewrite (AsMatrixExecL.vhas_same K) in Hx.
  destruct (sizes_agree_l K Qcplus Qcmult (leafsem tb) e W (table_ok_leaves tb e T) x y Hx Hy) as [_ H]. exact H.
Qed.
Lemma exec_out_struct_ok tb (e : xop) : wfo e = true -> table_okb tb e = true ->
  forall x y, has_struct x (in_struct e) = true -> den tb e x = Some y -> has_struct y (out_struct e) = true.
Proof.
  intros W T x y Hx Hy. rewrite has_struct_vhas in Hx |- *.
  exact (out_structure_honest_l K Qcplus Qcmult (leafsem tb) e W (table_ok_leaves tb e T) x y Hx Hy).
Qed.

(* ---------- a wrapper with a stored matrix; the matrix of its operand ---------- *)
Lemma leafsem_wrap_stored tb i w (e : xop) N y : stored tb i = Some N ->
  leafsem tb (Wrap i w e) y = apply_matrix N (out_struct e) (in_struct e) y.
Proof.
  intros H. unfold leafsem. rewrite wrap_in, wrap_out. unfold stored in H. rewrite H.
  unfold apply_matrix. destruct (has_struct y (out_struct e)); reflexivity.
Qed.
Lemma gcols_ok tb (e : xop) cols : xhonest tb e -> gcols tb e = Some cols ->
  List.length cols = in_size e /\ xcolsok (out_size e) cols.
Proof.
  intros Hh Hg. destruct (generic_columns_spec K k0 k1 Qcplus Qcmult (leafsem tb) e cols Hh Hg) as [L N].
  split; [exact L|]. unfold colsok. apply Forall_forall. intros c Hc.
  destruct (In_nth _ _ [] Hc) as (j & Hj & <-). rewrite L in Hj. destruct (N j Hj) as (y & _ & -> & Ly). exact Ly.
Qed.
(* C04's apply_is_matvec for the executable model: no assumption on the leaves is left *)
Theorem exec_den_flat tb (e : xop) cols : wfo e = true -> table_okb tb e = true -> gcols tb e = Some cols ->
  forall x y, has_struct x (in_struct e) = true -> den tb e x = Some y ->
  vflatten y = mcols (out_size e) cols (vflatten x).
Proof.
  intros W T G x y Hx Hy.
  exact (columns_matvec K k0 k1 Qcplus Qcmult Qcminus Qcopp Qcrt (leafsem tb) (exec_lin_facts tb) e cols
           (exec_honest_ok tb e W T) G x y Hx Hy).
Qed.

Lemma inv_left N nr cols n : xcolsok nr cols ->
  roundtrip_id n (fun v => Exec.matvec N (mcols nr cols v)) = true -> List.length N = n ->
  forall v, List.length v = n -> Exec.matvec N (mcols nr cols v) = v.
Proof.
  intros C R L. apply (list_lin_id (fun v => Exec.matvec N (mcols nr cols v)) n).
  - intros k v. cbv beta. now rewrite mcols_scale, matvec_scale.
  - intros u v Hu Hv. cbv beta. rewrite mcols_add by congruence. apply matvec_add.
    now rewrite !(mv_length K k0 Qcplus Qcmult nr cols C).
  - intros v. unfold Exec.matvec. now rewrite map_length.
  - exact (roundtrip_spec _ _ R).
Qed.
Lemma inv_right N nr cols : xcolsok nr cols ->
  roundtrip_id nr (fun v => mcols nr cols (Exec.matvec N v)) = true ->
  forall v, List.length v = nr -> mcols nr cols (Exec.matvec N v) = v.
Proof.
  intros C R. apply (list_lin_id (fun v => mcols nr cols (Exec.matvec N v)) nr).
  - intros k v. cbv beta. now rewrite matvec_scale, mcols_scale.
  - intros u v Hu Hv. cbv beta. rewrite matvec_add by congruence. apply mcols_add. unfold Exec.matvec. now rewrite !map_length.
  - intros v. apply (mv_length K k0 Qcplus Qcmult nr cols C).
  - exact (roundtrip_spec _ _ R).
Qed.

Lemma table_okb_wrap tb i w (e : xop) N : table_okb tb (Wrap i w e) = true -> stored tb i = Some N ->
  table_okb tb e = true /\ dims_okb (out_struct e) (in_struct e) N = true /\
  exists cols, gcols tb e = Some cols /\
    (isinst (wcls w) [CAbstractLazyInverse] = true ->
       roundtrip_id (in_size e) (fun v => Exec.matvec N (mcols (out_size e) cols v)) = true /\
       roundtrip_id (out_size e) (fun v => mcols (out_size e) cols (Exec.matvec N v)) = true) /\
    (lazyT w = true -> N = cols).
Proof.
  cbn [table_okb]. intros H S. apply andb_true_iff in H as [H H3]. apply andb_true_iff in H as [H1 H2].
  unfold leaf_okb in H2. cbv beta iota zeta in H2. rewrite S, wrap_in, wrap_out in H2.
  unfold wrap_okb in H3. rewrite S in H3. destruct (gcols tb e) as [cols|]; [|discriminate].
  apply andb_true_iff in H3 as [A B]. split; [exact H1|]. split; [exact H2|]. exists cols. split; [reflexivity|]. split.
  - intros Hi. rewrite Hi in A. now apply andb_true_iff in A.
  - intros Hl. rewrite Hl in B. now apply meqb_eq.
Qed.

(* ---------- lf_inv_l / lf_inv_r of Sound.leaf_facts (if_lazy_l / if_lazy_r, if_diag_*, if_rot_* of C06) ---------- *)
(* a lazy inverse wrapper whose stored matrix passed the check undoes its operand, on both sides *)
Theorem exec_lf_inv_l tb i w (e : xop) N :
  wfo e = true -> table_okb tb (Wrap i w e) = true ->
  isinst (wcls w) [CAbstractLazyInverse] = true -> stored tb i = Some N ->
  forall x y1 y, has_struct x (in_struct e) = true ->
    den tb e x = Some y1 -> leafsem tb (Wrap i w e) y1 = Some y -> y = x.
Proof.
  intros We T Hi S x y1 y Hx H1 H2.
  destruct (table_okb_wrap tb i w e N T S) as (Te & D & cols & G & HI & _). destruct (HI Hi) as [RA _].
  apply dims_okb_spec in D as [LN _].
  destruct (gcols_ok tb e cols (exec_honest_ok tb e We Te) G) as [_ C].
  rewrite (leafsem_wrap_stored tb i w e N y1 S) in H2. unfold apply_matrix in H2.
  destruct (has_struct y1 (out_struct e)); [|discriminate]. injection H2 as <-.
  rewrite (exec_den_flat tb e cols We Te G x y1 Hx H1).
  rewrite (inv_left N (out_size e) cols (in_size e) C RA LN) by exact (vhas_length K _ _ Hx).
  exact (flat_unflat K x _ Hx).
Qed.
Theorem exec_lf_inv_r tb i w (e : xop) N :
  wfo e = true -> table_okb tb (Wrap i w e) = true ->
  isinst (wcls w) [CAbstractLazyInverse] = true -> stored tb i = Some N ->
  forall x y1 y, leafsem tb (Wrap i w e) x = Some y1 -> den tb e y1 = Some y -> y = x.
Proof.
  intros We T Hi S x y1 y H1 H2.
  destruct (table_okb_wrap tb i w e N T S) as (Te & D & cols & G & HI & _). destruct (HI Hi) as [_ RB].
  apply dims_okb_spec in D as [LN _].
  destruct (gcols_ok tb e cols (exec_honest_ok tb e We Te) G) as [_ C].
  rewrite (leafsem_wrap_stored tb i w e N x S) in H1. unfold apply_matrix in H1.
  destruct (has_struct x (out_struct e)) eqn:Hx; [|discriminate]. injection H1 as <-.
  set (v := Exec.matvec N (vflatten x)) in *.
  assert (Lv : List.length v = struct_size (in_struct e)) by (unfold v, Exec.matvec; rewrite map_length; exact LN).
  assert (Hy1 : has_struct (fst (unflatten (in_struct e) v)) (in_struct e) = true) by exact (unflat_vhas K _ _ Lv).
  pose proof (exec_den_flat tb e cols We Te G _ y Hy1 H2) as F.
  change (vflatten (fst (unflatten (in_struct e) v))) with (vflat K (unflat K (in_struct e) v)) in F.
  rewrite (unflat_flat K _ _ Lv) in F. unfold v in F.
  rewrite (inv_right N (out_size e) cols C RB) in F by exact (vhas_length K _ _ Hx).
  pose proof (exec_out_struct_ok tb e We Te _ y Hy1 H2) as Hy.
  apply (vsh_flat_inj K); [|exact F].
  rewrite (proj1 (vhas_vsh K y _) Hy), (proj1 (vhas_vsh K x _) Hx). reflexivity.
Qed.
(* when the operand is itself a leaf the structure premise is automatic: exactly the field lf_inv_l *)
Lemma den_leaf_struct tb (e : xop) x y : leaflike K e = true -> den tb e x = Some y -> has_struct x (in_struct e) = true.
Proof.
  intros Hl H. assert (E : den tb e x = leafsem tb e x) by (destruct e; try discriminate Hl; reflexivity).
  rewrite E in H. unfold leafsem in H. destruct (has_struct x (in_struct e)); [reflexivity|discriminate].
Qed.
Corollary exec_lf_inv_l_leaf tb i w (e : xop) N : leaflike K e = true ->
  wfo e = true -> table_okb tb (Wrap i w e) = true ->
  isinst (wcls w) [CAbstractLazyInverse] = true -> stored tb i = Some N ->
  forall x y1 y, den tb e x = Some y1 -> leafsem tb (Wrap i w e) y1 = Some y -> y = x.
Proof. intros Hl We T Hi S x y1 y H1 H2. eapply exec_lf_inv_l; eauto. eapply den_leaf_struct; eauto. Qed.

(* ---------- adjointness of the table-backed lazy transposes (af_linear_transpose, af_rotT, af_reshapeT,
   af_obsT of C03's adj_facts) ---------- *)
Lemma inner_flat s (a b : xvalue) : has_struct a s = true -> has_struct b s = true ->
  xinner a b = dot (vflatten a) (vflatten b).
Proof.
  intros Ha Hb. pose proof (vflatten_length _ _ Ha) as La.
  destruct (inner_unflatten s (vflatten a) b Hb) as [E _]; [lia|].
  change (fst (unflatten s (vflatten a))) with (unflat K s (vflat K a)) in E. rewrite (flat_unflat K a s Ha) in E.
  rewrite E, firstn_all2 by lia. reflexivity.
Qed.
Theorem exec_af_lazyT tb i w (x0 : xop) N :
  wfo x0 = true -> table_okb tb (Wrap i w x0) = true -> lazyT w = true -> stored tb i = Some N ->
  forall x y fx gy, has_struct x (in_struct x0) = true ->
    den tb x0 x = Some fx -> leafsem tb (Wrap i w x0) y = Some gy -> xinner fx y = xinner x gy.
Proof.
  intros W T Hl S x y fx gy Hx H1 H2.
  destruct (table_okb_wrap tb i w x0 N T S) as (Te & D & cols & G & _ & HT). specialize (HT Hl). subst N.
  apply dims_okb_spec in D as [LN _].
  destruct (gcols_ok tb x0 cols (exec_honest_ok tb x0 W Te) G) as [_ C].
  rewrite (leafsem_wrap_stored tb i w x0 cols y S) in H2. unfold apply_matrix in H2.
  destruct (has_struct y (out_struct x0)) eqn:Hy; [|discriminate]. injection H2 as <-.
  pose proof (exec_out_struct_ok tb x0 W Te x fx Hx H1) as Hfx.
  set (v := Exec.matvec cols (vflatten y)).
  assert (Lv : List.length v = struct_size (in_struct x0)) by (unfold v, Exec.matvec; rewrite map_length; exact LN).
  rewrite (inner_flat (out_struct x0) fx y Hfx Hy).
  rewrite (inner_flat (in_struct x0) x (fst (unflatten (in_struct x0) v)) Hx (unflat_vhas K _ _ Lv)).
  change (vflatten (fst (unflatten (in_struct x0) v))) with (vflat K (unflat K (in_struct x0) v)).
  rewrite (unflat_flat K _ _ Lv), (exec_den_flat tb x0 cols W Te G x fx Hx H1).
  rewrite (dot_comm (mcols _ _ _)), (dot_mcols _ _ _ C), (dot_comm (vflatten x)).
  f_equal. unfold v, Exec.matvec. apply map_ext. intros r. apply dot_comm.
Qed.
Corollary exec_af_lazyT_leaf tb i w (x0 : xop) N : leaflike K x0 = true ->
  wfo x0 = true -> table_okb tb (Wrap i w x0) = true -> lazyT w = true -> stored tb i = Some N ->
  xadjoint (den tb x0) (leafsem tb (Wrap i w x0)).
Proof. intros Hl W T Hw S x y fx gy H1 H2. eapply exec_af_lazyT; eauto. eapply den_leaf_struct; eauto. Qed.

(* ---------- adjointness of the other table-backed leaves (af_self, af_dinv, fresh lazy transposes) ---------- *)
(* the matrix through which a primitive acts under `leafsem tb` (None: closed form or no action) *)
Definition prim_matrix (tb : table) (e : xop) : option matrix :=
  match e with
  | Prim i c _ _ p =>
      match stored tb i with
      | Some m => Some m
      | None =>
          match c, p with
          | CQURotation, PAngles _ => None
          | CHWP, _ => None
          | CLinearPolarizer, _ => None
          | CDiagonal, PDiag _ _ => None
          | _, PKey k => lookup tb k
          | _, _ => None
          end
      end
  | _ => None
  end.
Lemma guard_apply_matrix m si so (x : xvalue) :
  (if negb (has_struct x si) then None else apply_matrix m si so x) = apply_matrix m si so x.
Proof. unfold apply_matrix. destruct (has_struct x si); reflexivity. Qed.
Lemma prim_matrix_acts tb (e : xop) m : prim_matrix tb e = Some m ->
  forall x, leafsem tb e x = apply_matrix m (in_struct e) (out_struct e) x.
Proof.
  intros H x. destruct e as [i c si so p| | | | | |]; try discriminate H. unfold prim_matrix, stored in H. unfold leafsem.
  destruct (if (i =? 0)%N then None else lookup tb (2 * i)%N) as [m'|].
  - injection H as ->. apply guard_apply_matrix.
  - destruct c, p; try discriminate H; rewrite H; apply guard_apply_matrix.
Qed.

(* a leaf acting through a SYMMETRIC matrix between equal structures is self-adjoint *)
Definition sym_okb (si so : struct) (m : matrix) : bool :=
  dims_okb si so m && struct_eqb si so && meqb m (transpose_m m (struct_size si)).
Lemma sym_matrix_adjoint si so m (x y fx gy : xvalue) : sym_okb si so m = true ->
  apply_matrix m si so x = Some fx -> apply_matrix m si so y = Some gy -> xinner fx y = xinner x gy.
Proof.
  unfold sym_okb. intros H H1 H2. apply andb_true_iff in H as [H Sy]. apply andb_true_iff in H as [D Sq].
  apply struct_eqb_eq in Sq. subst so. apply meqb_eq in Sy. apply dims_okb_spec in D as [L R].
  eapply (apply_matrix_adjoint m si si); [split; [exact R|exact L]|exact H1|]. rewrite <- Sy. exact H2.
Qed.
Definition sym_leaf_okb (tb : table) (e : xop) : bool :=
  match prim_matrix tb e with Some m => sym_okb (in_struct e) (out_struct e) m | None => true end.
(* af_self of C03's adj_facts, for every table: measured matrix symmetric, or closed form (HWP, 1-d diagonal) *)
Theorem exec_af_self tb i c si so p : returns_self_on_transpose c = true ->
  sym_leaf_okb tb (Prim i c si so p) = true ->
  xadjoint (leafsem tb (Prim i c si so p)) (leafsem tb (Prim i c si so p)).
Proof.
  intros Hc Hs x y fx gy H1 H2. unfold sym_leaf_okb in Hs.
  destruct (prim_matrix tb (Prim i c si so p)) as [m|] eqn:P.
  - rewrite (prim_matrix_acts tb _ m P x) in H1. rewrite (prim_matrix_acts tb _ m P y) in H2. exact (sym_matrix_adjoint _ _ _ _ _ _ _ Hs H1 H2).
  - unfold leafsem in H1, H2. unfold prim_matrix, stored in P.
    destruct (has_struct x (in_struct (Prim i c si so p : xop))) eqn:Hx; cbn [negb] in H1; [|discriminate H1].
    destruct (has_struct y (in_struct (Prim i c si so p : xop))) eqn:Hy; cbn [negb] in H2; [|discriminate H2].
    destruct (if (i =? 0)%N then None else lookup tb (2 * i)%N) as [m'|]; [discriminate P|].
    destruct c; try discriminate Hc; destruct p; try discriminate H1; try (rewrite P in H1; discriminate H1).
    all: try (eapply hwp_value_symmetric; eassumption).
    injection H1 as <-. injection H2 as <-. apply diag_value_symmetric.
Qed.
(* af_dinv: a DiagonalInverseOperator with a measured symmetric matrix (without one it has no action) *)
Definition dinv_okb (tb : table) (i : N) (x0 : xop) : bool :=
  match stored tb i with Some m => sym_okb (out_struct x0) (in_struct x0) m | None => true end.
Theorem exec_af_dinv tb i (x0 : xop) : dinv_okb tb i x0 = true ->
  xadjoint (leafsem tb (Wrap i WDiagInv x0)) (leafsem tb (Wrap i WDiagInv x0)).
Proof.
  intros Hs x y fx gy H1 H2. unfold dinv_okb in Hs. destruct (stored tb i) as [m|] eqn:S.
  - rewrite (leafsem_wrap_stored tb i _ x0 m x S) in H1. rewrite (leafsem_wrap_stored tb i _ x0 m y S) in H2. exact (sym_matrix_adjoint _ _ _ _ _ _ _ Hs H1 H2).
  - unfold leafsem in H1. unfold stored in S. rewrite S in H1. destruct (negb _) in H1; [discriminate|].
    destruct x0; discriminate H1.
Qed.
(* the lazy transposes that have NO measured matrix of their own (created by transpose(): object id 0):
   the model gives them transpose_m of the matrix found under the key of the wrapped primitive; this is
   the adjoint provided the primitive really acts through that matrix *)
Definition fresh_okb (tb : table) (i : N) (w : wkind) (x0 : xop) : bool :=
  match stored tb i with
  | Some _ => true
  | None =>
      match w, x0 with
      | (WTranspose | WReshapeT | WObsT), Prim j _ _ _ p =>
          match lookup tb (wrap_key j p) with
          | Some m =>
              match prim_matrix tb x0 with
              | Some m' => meqb m m' && dims_okb (in_struct x0) (out_struct x0) m
              | None => false
              end
          | None => true
          end
      | _, _ => true
      end
  end.
Theorem exec_af_fresh tb i w (x0 : xop) : stored tb i = None -> fresh_okb tb i w x0 = true ->
  (w = WTranspose \/ w = WReshapeT \/ w = WObsT) ->
  xadjoint (den tb x0) (leafsem tb (Wrap i w x0)).
Proof.
  intros S Hf Hw x y fx gy H1 H2. unfold fresh_okb in Hf. rewrite S in Hf.
  unfold leafsem in H2. rewrite wrap_in, wrap_out in H2. unfold stored in S. rewrite S in H2.
  destruct (has_struct y (out_struct x0)) eqn:Hy; cbn [negb] in H2; [|discriminate H2].
  destruct x0 as [j c si so p| | | | | |]; try (destruct Hw as [->|[->| ->]]; discriminate H2).
  assert (E : exists m, lookup tb (wrap_key j p) = Some m /\
                apply_matrix (transpose_m m (struct_size (in_struct (Prim j c si so p : xop))))
                  (out_struct (Prim j c si so p : xop)) (in_struct (Prim j c si so p : xop)) y = Some gy).
  { unfold wrap_key. destruct Hw as [->|[->| ->]];
      (destruct (lookup tb match p with PKey k => k | _ => (2 * j)%N end) as [m|]; [|discriminate H2]); eauto. }
  destruct E as (m & Hk & H2').
  assert (Hf' : match prim_matrix tb (Prim j c si so p) with
                | Some m' => meqb m m' && dims_okb (in_struct (Prim j c si so p : xop)) (out_struct (Prim j c si so p : xop)) m
                | None => false end = true).
  { destruct Hw as [->|[->| ->]]; rewrite Hk in Hf; exact Hf. }
  destruct (prim_matrix tb (Prim j c si so p)) as [m'|] eqn:P; [|discriminate Hf'].
  apply andb_true_iff in Hf' as [Em D]. apply meqb_eq in Em. subst m'. apply dims_okb_spec in D as [L R].
  change (den tb (Prim j c si so p) x) with (leafsem tb (Prim j c si so p) x) in H1.
  rewrite (prim_matrix_acts tb _ m P) in H1.
  exact (apply_matrix_adjoint m _ _ x y fx gy (conj R L) H1 H2').
Qed.

(* af_dense: the DenseBlockDiagonalOperator that transpose() re-creates (object id 0) acts through the matrix
   stored under the adjoint key; adjoint iff that matrix is the transpose of the original's *)
Definition dense_okb (tb : table) (i : N) (si so : struct) (k : N) : bool :=
  match lookup tb (tkey k) with
  | Some mt =>
      match prim_matrix tb (Prim i CDense si so (PKey k)) with
      | Some m => dims_okb si so m && meqb mt (transpose_m m (struct_size si))
      | None => false
      end
  | None => true
  end.
Theorem exec_af_dense tb i si so k : dense_okb tb i si so k = true ->
  xadjoint (leafsem tb (Prim i CDense si so (PKey k))) (leafsem tb (Prim fresh CDense so si (PKey (tkey k)))).
Proof.
  intros Hd x y fx gy H1 H2. unfold dense_okb in Hd.
  unfold leafsem at 1 in H2. unfold in_struct, out_struct in H2. cbn [structs square_cls fst snd] in H2.
  change (fresh =? 0)%N with true in H2. cbv iota in H2.
  destruct (lookup tb (tkey k)) as [mt|]; [|destruct (negb _) in H2; discriminate H2].
  rewrite guard_apply_matrix in H2.
  destruct (prim_matrix tb (Prim i CDense si so (PKey k))) as [m|] eqn:P; [|discriminate Hd].
  apply andb_true_iff in Hd as [D Em]. apply meqb_eq in Em. subst mt. apply dims_okb_spec in D as [L R].
  rewrite (prim_matrix_acts tb _ m P x) in H1. unfold in_struct, out_struct in H1. cbn [structs square_cls fst snd] in H1.
  exact (apply_matrix_adjoint m si so x y fx gy (conj R L) H1 H2).
Qed.
(* af_move holds for `leafsem tb` only vacuously: the MoveAxisOperator that transpose() re-creates has object
   id 0 and no table entry, so `leafsem tb` gives it no action (the C03 harness uses Adjoint.leafsemT, which
   looks such operators up by their parameters); the real fact is C13 moveaxis_T_inverse *)
Theorem exec_af_move_vacuous tb i si so s d :
  xadjoint (leafsem tb (Prim i CMoveAxis si so (PAxes s d))) (leafsem tb (Prim fresh CMoveAxis so si (PAxes d s))).
Proof.
  intros x y fx gy _ H. unfold leafsem in H. destruct (negb _) in H; [discriminate H|].
  change (fresh =? 0)%N with true in H. discriminate H.
Qed.
