(* Proofs about Model/Index.v (C12). *)
From Coq Require Import ZArith NArith List Bool Arith Lia Permutation Ring Sorted.
From Furax Require Import Model.Op Model.Algebra Model.Index.
Import ListNotations.
Local Open Scope nat_scope.

Lemma nth_map_gen {A B} (f : A -> B) l i d d' : i < length l -> nth i (map f l) d = f (nth i l d').
Proof. intros H. rewrite (nth_indep _ d (f d')) by (now rewrite map_length). apply map_nth. Qed.
Lemma nth_map_seq {A} (f : nat -> A) a n i d : i < n -> nth i (map f (seq a n)) d = f (a + i).
Proof. intros H. rewrite (nth_map_gen f _ _ d 0) by (now rewrite seq_length). now rewrite seq_nth. Qed.

(* ============================================================================================ *)
(* Part 1: gather / scatter-add for an ARBITRARY selection list (hence for every index expression) *)
Section Lin.
  Variable K : Type.
  Variables (k0 k1 : K) (kadd kmul ksub : K -> K -> K) (kopp : K -> K).
  Hypothesis Kth : ring_theory k0 k1 kadd kmul ksub kopp (@eq K).
  Add Ring KrIndex : Kth.
  Notation gather_data := (gather_data k0).
  Notation scatter_at := (scatter_at k0 kadd).
  Notation scatter_add := (scatter_add k0 kadd).
  Notation dot := (dot k0 kadd kmul).
  Notation nat_mul := (nat_mul k0 kadd).

  Lemma gather_length sel x : length (gather_data sel x) = length sel.
  Proof. unfold Index.gather_data. now rewrite map_length. Qed.
  Lemma scatter_add_length n sel y : length (scatter_add n sel y) = n.
  Proof. unfold Index.scatter_add. now rewrite map_length, seq_length. Qed.
  Lemma scatter_add_nth n sel y i : i < n -> nth i (scatter_add n sel y) k0 = scatter_at i sel y.
  Proof.
    intros Hi. unfold Index.scatter_add. now rewrite nth_map_seq.
  Qed.

  Lemma dot_zero x : forall a n, dot x (map (fun _ => k0) (seq a n)) = k0.
  Proof.
    induction x as [|b x IH]; intros a n; [reflexivity|].
    destruct n as [|n]; [reflexivity|]. cbn. rewrite IH. ring.
  Qed.
  Lemma dot_plus x f g : forall a n,
    dot x (map (fun i => kadd (f i) (g i)) (seq a n)) = kadd (dot x (map f (seq a n))) (dot x (map g (seq a n))).
  Proof.
    induction x as [|b x IH]; intros a n; [cbn; ring|].
    destruct n as [|n]; [cbn; ring|]. cbn. rewrite IH. ring.
  Qed.
  Lemma dot_single x : forall a s v,
    dot x (map (fun i => if s =? i then v else k0) (seq a (length x))) =
    if a <=? s then kmul (nth (s - a) x k0) v else k0.
  Proof.
    induction x as [|b x IH]; intros a s v.
    - cbn [length seq map Index.dot]. destruct (a <=? s); [|reflexivity].
      replace (nth (s - a) (@nil K) k0) with k0 by (destruct (s - a); reflexivity). ring.
    - cbn [length seq map Index.dot]. rewrite IH.
      destruct (Nat.eqb_spec s a) as [->|Hne].
      + rewrite Nat.leb_refl, Nat.sub_diag. cbn [nth].
        destruct (Nat.leb_spec (S a) a); [lia|]. ring.
      + destruct (Nat.leb_spec a s) as [Hle|Hgt].
        * destruct (Nat.leb_spec (S a) s); [|lia].
          replace (s - a) with (S (s - S a)) by lia. cbn [nth]. ring.
        * destruct (Nat.leb_spec (S a) s); [lia|]. ring.
  Qed.

  (* <P x, y> = <x, P^T y>: the scatter-add is the adjoint of the gather *)
  Lemma adjoint_l sel : forall x y,
    dot (gather_data sel x) y = dot x (scatter_add (length x) sel y).
  Proof.
    induction sel as [|s sel IH]; intros x y.
    - cbn. unfold Index.scatter_add. cbn. now rewrite dot_zero.
    - destruct y as [|v y].
      + cbn. unfold Index.scatter_add. cbn. now rewrite dot_zero.
      + cbn [Index.gather_data map Index.dot]. fold (gather_data sel x). rewrite IH.
        unfold Index.scatter_add.
        rewrite (map_ext (fun i => scatter_at i (s :: sel) (v :: y))
                         (fun i => kadd (if s =? i then v else k0) (scatter_at i sel y))).
        2:{ intros i. cbn. destruct (s =? i); ring. }
        rewrite dot_plus, dot_single. cbn. rewrite Nat.sub_0_r. reflexivity.
  Qed.

  (* (P^T P x)[i] = multiplicity of i in sel times x[i] *)
  Lemma scatter_gather_at sel x i :
    scatter_at i sel (gather_data sel x) = nat_mul (count_occ Nat.eq_dec sel i) (nth i x k0).
  Proof.
    induction sel as [|s sel IH]; [reflexivity|].
    cbn [Index.gather_data map Index.scatter_at count_occ]. fold (gather_data sel x).
    destruct (Nat.eqb_spec s i) as [->|Hne].
    - destruct (Nat.eq_dec i i); [|congruence]. cbn. now rewrite IH.
    - destruct (Nat.eq_dec s i); [congruence|]. exact IH.
  Qed.
  Lemma PtP_multiplicity_l n sel x i : i < n ->
    nth i (scatter_add n sel (gather_data sel x)) k0 = nat_mul (count_occ Nat.eq_dec sel i) (nth i x k0).
  Proof. intros Hi. rewrite scatter_add_nth by assumption. apply scatter_gather_at. Qed.

  Lemma scatter_at_notin i sel : ~ In i sel -> forall y, scatter_at i sel y = k0.
  Proof.
    induction sel as [|s sel IH]; intros Hn y; [reflexivity|].
    destruct y as [|v y]; [reflexivity|]. cbn.
    destruct (Nat.eqb_spec s i) as [->|_]; [exfalso; apply Hn; now left|].
    apply IH. intros H; apply Hn; now right.
  Qed.
  Lemma scatter_at_nodup sel : NoDup sel -> forall j y, j < length sel -> length y = length sel ->
    scatter_at (nth j sel 0) sel y = nth j y k0.
  Proof.
    induction 1 as [|s sel Hnin Hnd IH]; intros j y Hj Hy; [cbn in Hj; lia|].
    destruct y as [|v y]; [discriminate|]. cbn in Hy, Hj.
    destruct j as [|j].
    - cbn. rewrite Nat.eqb_refl, scatter_at_notin by assumption. ring.
    - cbn [nth Index.scatter_at].
      destruct (Nat.eqb_spec s (nth j sel 0)) as [E|_].
      + exfalso. apply Hnin. rewrite E. apply nth_In. lia.
      + apply IH; lia.
  Qed.

  (* the unit vector e_i, as a list indexed from a *)
  Definition unit_from (a i len : nat) : list K := map (fun k => if k =? i then k1 else k0) (seq a len).
  Lemma scatter_at_unit p sel : forall a i,
    scatter_at p sel (unit_from a i (length sel)) =
    if (a <=? i) && (i <? a + length sel) && (nth (i - a) sel 0 =? p) then k1 else k0.
  Proof.
    induction sel as [|s sel IH]; intros a i.
    - cbn [length Index.scatter_at].
      destruct (Nat.leb_spec a i); cbn [andb]; [|reflexivity].
      destruct (Nat.ltb_spec i (a + 0)); [lia|reflexivity].
    - unfold unit_from in *. cbn [length seq map Index.scatter_at]. rewrite IH.
      destruct (Nat.eqb_spec a i) as [->|Hne].
      + rewrite Nat.leb_refl, Nat.sub_diag. cbn [nth].
        destruct (Nat.leb_spec (S i) i); [lia|]. cbn [andb].
        destruct (Nat.ltb_spec i (i + S (length sel))); [|lia]. cbn [andb].
        destruct (s =? p); ring.
      + destruct (Nat.leb_spec a i) as [Hle|Hgt].
        * destruct (Nat.leb_spec (S a) i); [|lia]. cbn [andb].
          replace (i - a) with (S (i - S a)) by lia. cbn [nth].
          replace (i <? a + S (length sel)) with (i <? S a + length sel).
          2:{ destruct (Nat.ltb_spec i (S a + length sel)), (Nat.ltb_spec i (a + S (length sel))); try reflexivity; lia. }
          destruct (s =? p); ring.
        * destruct (Nat.leb_spec (S a) i); [lia|]. cbn [andb]. destruct (s =? p); ring.
  Qed.

  Hypothesis k1_neq_k0 : k1 <> k0.

  (* P P^T = id exactly when no input element is selected twice *)
  Lemma PPt_identity_iff_l n sel : Forall (fun p => p < n) sel ->
    ((forall y, length y = length sel -> gather_data sel (scatter_add n sel y) = y) <-> NoDup sel).
  Proof.
    intros Hin. split.
    - intros H. apply (NoDup_nth sel 0). intros i j Hi Hj Heq.
      destruct (Nat.eq_dec i j) as [|Hne]; [assumption|exfalso].
      set (y := unit_from 0 i (length sel)).
      assert (Hy : length y = length sel) by (unfold y, unit_from; now rewrite map_length, seq_length).
      specialize (H y Hy).
      assert (E : nth j (gather_data sel (scatter_add n sel y)) k0 = nth j y k0) by now rewrite H.
      unfold Index.gather_data in E.
      rewrite (nth_map_gen _ _ _ k0 0) in E by assumption.
      rewrite scatter_add_nth in E.
      2:{ rewrite Forall_forall in Hin. apply Hin, nth_In, Hj. }
      rewrite <- Heq in E. unfold y in E. rewrite scatter_at_unit in E.
      cbn [Nat.leb andb] in E. rewrite Nat.sub_0_r, Nat.eqb_refl in E.
      destruct (Nat.ltb_spec i (0 + length sel)); [|lia]. cbn [andb] in E.
      unfold unit_from in E. rewrite nth_map_seq in E by assumption. cbn in E.
      destruct (Nat.eqb_spec j i); [lia|]. now apply k1_neq_k0.
    - intros Hnd y Hy. apply (nth_ext _ _ k0 k0).
      + now rewrite gather_length.
      + intros j Hj. rewrite gather_length in Hj. unfold Index.gather_data.
        rewrite (nth_map_gen _ _ _ k0 0) by assumption. rewrite scatter_add_nth.
        2:{ rewrite Forall_forall in Hin. apply Hin, nth_In, Hj. }
        now apply scatter_at_nodup.
  Qed.
End Lin.

(* ============================================================================================ *)
(* Part 2: the multiplicity pipeline of TransposeIndexRule (Model/Algebra.v: unique_counts,
   coverage_of, norm_index) *)
Local Open Scope Z_scope.

Definition lookup (v : Z) (l : list (Z * Z)) : Z :=
  fold_right (fun p acc => if fst p =? v then snd p + acc else acc) 0 l.
Definition zcount (d : list Z) (v : Z) : Z := Z.of_nat (count_occ Z.eq_dec d v).

Lemma lookup_insert v z l : lookup v (insert_sorted z l) = lookup v l + (if z =? v then 1 else 0).
Proof.
  induction l as [|[y c] r IH]; cbn [insert_sorted lookup fold_right fst snd].
  - destruct (z =? v); lia.
  - destruct (Z.eqb_spec z y) as [->|Hzy].
    + cbn [lookup fold_right fst snd]. fold (lookup v r). destruct (y =? v); lia.
    + destruct (z <? y).
      * cbn [lookup fold_right fst snd]. fold (lookup v r). destruct (z =? v), (y =? v); lia.
      * cbn [lookup fold_right fst snd]. fold (lookup v r) (lookup v (insert_sorted z r)).
        rewrite IH. destruct (y =? v), (z =? v); lia.
Qed.
Lemma lookup_fold v d : forall acc,
  lookup v (fold_left (fun acc z => insert_sorted z acc) d acc) = lookup v acc + zcount d v.
Proof.
  unfold zcount. induction d as [|z d IH]; intros acc; cbn [fold_left count_occ]; [lia|].
  rewrite IH, lookup_insert. destruct (Z.eq_dec z v) as [->|Hne].
  - rewrite Z.eqb_refl. lia.
  - destruct (Z.eqb_spec z v); [congruence|]. lia.
Qed.
Lemma lookup_unique_counts v d : lookup v (unique_counts d) = zcount d v.
Proof. unfold unique_counts. now rewrite lookup_fold. Qed.

(* keys: strictly increasing, all taken from the data *)
Definition keys (l : list (Z * Z)) : list Z := map fst l.
Lemma insert_keys_in z l k : In k (keys (insert_sorted z l)) -> k = z \/ In k (keys l).
Proof.
  induction l as [|[y c] r IH]; cbn [insert_sorted keys map fst].
  - intros [H|[]]; now left.
  - destruct (z =? y).
    + cbn [keys map fst]. intros H; now right.
    + destruct (z <? y).
      * cbn [keys map fst In]. intros [H|H]; [now left|now right].
      * cbn [keys map fst In]. intros [H|H]; [right; now left|].
        apply IH in H as [H|H]; [now left|right; now right].
Qed.
Lemma insert_sorted_ss z l : StronglySorted Z.lt (keys l) -> StronglySorted Z.lt (keys (insert_sorted z l)).
Proof.
  induction l as [|[y c] r IH]; cbn [insert_sorted keys map fst]; intros H.
  - constructor; constructor.
  - inversion H as [|? ? Hs Hf]; subst.
    destruct (Z.eqb_spec z y) as [->|Hzy]; [cbn [keys map fst]; now constructor|].
    destruct (Z.ltb_spec z y) as [Hlt|Hge].
    + cbn [keys map fst]. constructor; [exact H|]. constructor; [exact Hlt|].
      eapply Forall_impl; [|exact Hf]. cbn. intros; lia.
    + cbn [keys map fst]. constructor; [now apply IH|].
      rewrite Forall_forall. intros k Hk. apply insert_keys_in in Hk as [->|Hk]; [lia|].
      rewrite Forall_forall in Hf. now apply Hf.
Qed.
Lemma unique_counts_inv d : forall acc, StronglySorted Z.lt (keys acc) ->
  let r := fold_left (fun acc z => insert_sorted z acc) d acc in
  StronglySorted Z.lt (keys r) /\ (forall k, In k (keys r) -> In k (keys acc) \/ In k d).
Proof.
  induction d as [|z d IH]; intros acc Hs; cbn [fold_left].
  - split; [assumption|]. intros k H; now left.
  - destruct (IH (insert_sorted z acc) (insert_sorted_ss z acc Hs)) as [H1 H2]. split; [exact H1|].
    intros k Hk. apply H2 in Hk as [Hk|Hk]; [|right; now right].
    apply insert_keys_in in Hk as [->|Hk]; [right; now left|now left].
Qed.
Lemma ss_length ks : forall a n, StronglySorted Z.lt ks -> Forall (fun k => a <= k < n) ks ->
  Z.of_nat (length ks) <= Z.max 0 (n - a).
Proof.
  induction ks as [|k ks IH]; intros a n Hs Hf; [cbn; lia|].
  inversion Hs as [|? ? Hs' Hlt]; subst. inversion Hf as [|? ? Hk Hf']; subst.
  assert (H := IH (k + 1) n Hs').
  cbn [length]. rewrite Nat2Z.inj_succ.
  assert (Forall (fun j => k + 1 <= j < n) ks).
  { rewrite Forall_forall in *. intros j Hj. specialize (Hlt j Hj). specialize (Hf' j Hj). lia. }
  specialize (H H0). lia.
Qed.

Lemma cov_entry (n : nat) (j : nat) uc : (0 < n)%nat ->
  fold_right (fun p acc => let '(v, c) := p in
     if (v =? Z.of_nat j) || (v + Z.of_nat n =? Z.of_nat j) then c + acc else acc) 0 uc
  = lookup (Z.of_nat j) uc + lookup (Z.of_nat j - Z.of_nat n) uc.
Proof.
  intros Hn. induction uc as [|[v c] r IH]; [reflexivity|].
  cbn [fold_right lookup fst snd]. fold (lookup (Z.of_nat j) r) (lookup (Z.of_nat j - Z.of_nat n) r).
  rewrite IH.
  destruct (Z.eqb_spec v (Z.of_nat j)), (Z.eqb_spec (v + Z.of_nat n) (Z.of_nat j)),
           (Z.eqb_spec v (Z.of_nat j - Z.of_nat n)); cbn [orb]; lia.
Qed.

Definition zin_range (n : nat) (z : Z) : Prop := - Z.of_nat n <= z < Z.of_nat n.
Lemma in_range_iff n z : in_range n z = true <-> zin_range n z.
Proof. unfold in_range, zin_range. rewrite andb_true_iff, Z.leb_le, Z.ltb_lt. tauto. Qed.

Lemma count_norm n d j : Forall (zin_range n) d -> (j < n)%nat ->
  Z.of_nat (count_occ Nat.eq_dec (map (norm n) d) j) = zcount d (Z.of_nat j) + zcount d (Z.of_nat j - Z.of_nat n).
Proof.
  unfold zcount. intros Hd Hj. induction Hd as [|z d Hz Hd IH]; [reflexivity|].
  cbn [map count_occ]. unfold zin_range in Hz.
  destruct (Nat.eq_dec (norm n z) j) as [E|E];
    destruct (Z.eq_dec z (Z.of_nat j)) as [E1|E1];
    destruct (Z.eq_dec z (Z.of_nat j - Z.of_nat n)) as [E2|E2];
    unfold norm, normZ in E; destruct (Z.ltb_spec z 0); try lia.
Qed.

Lemma coverage_length n d : length (coverage_of n d) = n.
Proof. unfold coverage_of. now rewrite map_length, seq_length. Qed.

(* whenever the distinct RAW values fit in the n slots of jnp.unique(size=n), the pipeline yields the
   multiplicities (negative aliases land on the cell they wrap to; fill rows count 0) *)
Lemma coverage_bounded n d j : Forall (zin_range n) d -> (length (unique_counts d) <= n)%nat -> (j < n)%nat ->
  nth j (coverage_of n d) 0 = Z.of_nat (count_occ Nat.eq_dec (map (norm n) d) j).
Proof.
  intros Hd Hlen Hj. unfold coverage_of. rewrite firstn_all2 by assumption.
  rewrite nth_map_seq by assumption. cbn [Nat.add].
  rewrite cov_entry by lia. rewrite !lookup_unique_counts. symmetry. now apply count_norm.
Qed.

Lemma norm_index_range n d : Forall (zin_range n) d -> Forall (fun k => 0 <= k < Z.of_nat n) (norm_index n d).
Proof.
  unfold norm_index. intros H. rewrite Forall_forall in *. intros k Hk.
  apply in_map_iff in Hk as [z [<- Hz]]. specialize (H z Hz). unfold zin_range in H.
  destruct (Z.ltb_spec z 0); lia.
Qed.
Lemma norm_index_map n d : norm_index n d = map (normZ n) d.
Proof. reflexivity. Qed.
Lemma normZ_idem n z : zin_range n z -> normZ n (normZ n z) = normZ n z.
Proof.
  unfold zin_range, normZ. intros H. destruct (Z.ltb_spec z 0); [|now destruct (Z.ltb_spec z 0); [lia|]].
  destruct (Z.ltb_spec (z + Z.of_nat n) 0); [lia|reflexivity].
Qed.
Lemma norm_index_idem n d : Forall (zin_range n) d -> map (norm n) (norm_index n d) = map (norm n) d.
Proof.
  rewrite norm_index_map. intros H. rewrite map_map. apply map_ext_in. intros z Hz.
  rewrite Forall_forall in H. unfold norm. now rewrite normZ_idem by auto.
Qed.
Lemma unique_counts_norm_len n d : Forall (zin_range n) d -> (length (unique_counts (norm_index n d)) <= n)%nat.
Proof.
  intros Hd. unfold unique_counts.
  destruct (unique_counts_inv (norm_index n d) [] (SSorted_nil _)) as [Hs Hin]. cbn zeta in *.
  set (r := fold_left _ _ _) in *.
  assert (Hf : Forall (fun k => 0 <= k < Z.of_nat n) (keys r)).
  { apply norm_index_range in Hd. rewrite Forall_forall in *. intros k Hk.
    apply Hin in Hk as [[]|Hk]. now apply Hd. }
  assert (H := ss_length (keys r) 0 (Z.of_nat n) Hs Hf).
  unfold keys in H. rewrite map_length in H. lia.
Qed.

(* the code after fix 0c57282: for every n and every in-bounds index array (any rank - the data are
   flattened -, repeated entries, negative aliases) *)
Lemma multiplicity_code_correct_l n d j : Forall (zin_range n) d -> (j < n)%nat ->
  nth j (coverage_of n (norm_index n d)) 0 = Z.of_nat (count_occ Nat.eq_dec (map (norm n) d) j).
Proof.
  intros Hd Hj. rewrite coverage_bounded; try assumption.
  - now rewrite norm_index_idem.
  - eapply Forall_impl; [|apply norm_index_range, Hd]. unfold zin_range. cbn. intros; lia.
  - now apply unique_counts_norm_len.
Qed.
Local Close Scope Z_scope.

(* ============================================================================================ *)
(* Part 3: the outer-product gather of native indexing: counting, injectivity *)

Definition sumn (l : list nat) : nat := fold_right Nat.add 0 l.
Notation cnt := (count_occ Nat.eq_dec).

Lemma cnt_flat_map {A} (f : A -> list nat) l x : cnt (flat_map f l) x = sumn (map (fun c => cnt (f c) x) l).
Proof. induction l as [|a l IH]; [reflexivity|]. cbn. now rewrite count_occ_app, IH. Qed.
Lemma cnt_le1_nodup l : (forall x, cnt l x <= 1) -> NoDup l.
Proof. intros H. apply (NoDup_count_occ Nat.eq_dec). exact H. Qed.
Lemma nodup_cnt_le1 l x : NoDup l -> cnt l x <= 1.
Proof. intros H. now apply (NoDup_count_occ Nat.eq_dec). Qed.
Lemma cnt_seq a n i : cnt (seq a n) i = if (a <=? i) && (i <? a + n) then 1 else 0.
Proof.
  revert a. induction n as [|n IH]; intros a.
  - cbn [seq count_occ]. destruct (Nat.leb_spec a i), (Nat.ltb_spec i (a + 0)); cbn [andb]; try reflexivity; lia.
  - cbn [seq count_occ]. rewrite IH.
    destruct (Nat.eq_dec a i) as [->|Hne].
    + destruct (Nat.leb_spec (S i) i); [lia|]. rewrite Nat.leb_refl.
      destruct (Nat.ltb_spec i (i + S n)); [reflexivity|lia].
    + destruct (Nat.leb_spec (S a) i), (Nat.leb_spec a i), (Nat.ltb_spec i (S a + n)), (Nat.ltb_spec i (a + S n));
        cbn [andb]; try reflexivity; lia.
Qed.

Lemma divmod_unique P i q i0 q0 : q < P -> q0 < P -> i * P + q = i0 * P + q0 -> i = i0 /\ q = q0.
Proof.
  intros Hq Hq0 E.
  assert (i = i0).
  { destruct (Nat.lt_trichotomy i i0) as [H|[H|H]]; [|assumption|]; exfalso; nia. }
  subst. lia.
Qed.
Lemma cnt_shift P L i i0 q0 : Forall (fun q => q < P) L -> q0 < P ->
  cnt (map (fun q => i * P + q) L) (i0 * P + q0) = if i =? i0 then cnt L q0 else 0.
Proof.
  intros HL Hq0. induction HL as [|q L Hq HL IH]; [now destruct (i =? i0)|].
  cbn [map count_occ]. rewrite IH.
  destruct (Nat.eq_dec (i * P + q) (i0 * P + q0)) as [E|E].
  - apply divmod_unique in E as [-> ->]; try assumption. rewrite Nat.eqb_refl.
    destruct (Nat.eq_dec q0 q0); [reflexivity|congruence].
  - destruct (Nat.eqb_spec i i0) as [->|Hne]; [|reflexivity].
    destruct (Nat.eq_dec q q0) as [->|]; [congruence|reflexivity].
Qed.
Lemma sumn_ind_cnt c i0 v : sumn (map (fun i => if i =? i0 then v else 0) c) = cnt c i0 * v.
Proof.
  induction c as [|i c IH]; [reflexivity|]. cbn [map sumn fold_right count_occ]. fold (sumn (map (fun i => if i =? i0 then v else 0) c)).
  rewrite IH. destruct (Nat.eqb_spec i i0) as [->|Hne].
  - destruct (Nat.eq_dec i0 i0); [|congruence]. lia.
  - destruct (Nat.eq_dec i i0); [congruence|]. lia.
Qed.
Lemma cnt_outer_step P L c i0 q0 : Forall (fun q => q < P) L -> q0 < P ->
  cnt (flat_map (fun i => map (fun q => i * P + q) L) c) (i0 * P + q0) = cnt c i0 * cnt L q0.
Proof.
  intros HL Hq0. rewrite cnt_flat_map.
  rewrite (map_ext _ (fun i => if i =? i0 then cnt L q0 else 0)) by (intros; now apply cnt_shift).
  apply sumn_ind_cnt.
Qed.

(* every axis selects coordinates inside its dimension *)
Definition inb (dims : shape) (cs : list (list nat)) : Prop :=
  Forall2 (fun n c => Forall (fun i => i < n) c) dims cs.

Lemma outer_lt dims : forall cs, inb dims cs -> Forall (fun q => q < prod dims) (outer dims cs).
Proof.
  induction dims as [|n dims IH]; intros cs H; inversion H as [|? c ? cs' Hc Hcs]; subst.
  - cbn. constructor; [lia|constructor].
  - cbn [outer prod fold_right]. fold (prod dims). rewrite Forall_forall. intros q Hq.
    apply in_flat_map in Hq as [i [Hi Hq]]. apply in_map_iff in Hq as [p [<- Hp]].
    specialize (IH cs' Hcs). rewrite Forall_forall in IH, Hc. specialize (IH p Hp). specialize (Hc i Hi). nia.
Qed.

(* multiplicity of a flat position = product over the axes of the multiplicities of its coordinates *)
Fixpoint prodcount (dims : shape) (cs : list (list nat)) (x : nat) : nat :=
  match dims, cs with
  | _ :: dims', c :: cs' => cnt c (x / prod dims') * prodcount dims' cs' (x mod prod dims')
  | _, _ => if x =? 0 then 1 else 0
  end.
Lemma cnt_outer dims : forall cs x, inb dims cs -> cnt (outer dims cs) x = prodcount dims cs x.
Proof.
  induction dims as [|n dims IH]; intros cs x H; inversion H as [|? c ? cs' Hc Hcs]; subst.
  - cbn [outer prodcount count_occ]. destruct (Nat.eq_dec 0 x) as [<-|Hne]; [reflexivity|]. destruct (Nat.eqb_spec x 0); [lia|reflexivity].
  - cbn [outer prodcount]. set (P := prod dims).
    assert (HL := outer_lt dims cs' Hcs). fold P in HL.
    destruct (Nat.eq_dec P 0) as [HP|HP].
    + (* an empty trailing axis: nothing is selected *)
      assert (E : outer dims cs' = []).
      { destruct (outer dims cs') as [|q L]; [reflexivity|]. inversion HL; subst. lia. }
      rewrite E. rewrite cnt_flat_map.
      rewrite <- IH, E by assumption. cbn [count_occ]. rewrite Nat.mul_0_r.
      clear. induction c as [|a c IHc]; [reflexivity|]. cbn [map sumn fold_right count_occ]. exact IHc.
    + rewrite (Nat.div_mod x P HP) at 1. rewrite (Nat.mul_comm P).
      rewrite cnt_outer_step; [|assumption|now apply Nat.mod_upper_bound].
      now rewrite IH.
Qed.

Lemma prodcount_le1 dims : forall cs x, Forall (fun c => NoDup c) cs -> prodcount dims cs x <= 1.
Proof.
  induction dims as [|n dims IH]; intros cs x H.
  - cbn. destruct cs; destruct (x =? 0); lia.
  - destruct cs as [|c cs]; [cbn; destruct (x =? 0); lia|].
    inversion H; subst. cbn [prodcount].
    assert (cnt c (x / prod dims) <= 1) by now apply nodup_cnt_le1.
    specialize (IH cs (x mod prod dims) H3). nia.
Qed.
Lemma NoDup_outer dims cs : inb dims cs -> Forall (fun c => NoDup c) cs -> NoDup (outer dims cs).
Proof.
  intros Hb Hn. apply cnt_le1_nodup. intros x. rewrite cnt_outer by assumption. now apply prodcount_le1.
Qed.

Lemma inb_length dims cs : inb dims cs -> length cs = length dims.
Proof. induction 1; cbn; congruence. Qed.

(* the transposed enumeration (advanced dimension first) selects the same positions as often *)
Lemma inb_replace dims : forall cs p c, inb dims cs -> In c (nth p cs []) -> inb dims (replace_nth p [c] cs).
Proof.
  induction dims as [|n dims IH]; intros cs p c H Hin; inversion H as [|? c0 ? cs' Hc Hcs]; subst.
  - destruct p; cbn; constructor.
  - destruct p as [|p]; cbn [replace_nth nth] in *.
    + constructor; [|assumption]. constructor; [|constructor]. rewrite Forall_forall in Hc. now apply Hc.
    + constructor; [assumption|]. now apply IH.
Qed.
Lemma sumn_scale {A} (f : A -> nat) k l : sumn (map (fun c => k * f c) l) = k * sumn (map f l).
Proof. induction l as [|a l IH]; cbn; [lia|]. fold (sumn (map (fun c => k * f c) l)) (sumn (map f l)). rewrite IH. lia. Qed.
Lemma sumn_scale_r {A} (f : A -> nat) k l : sumn (map (fun c => f c * k) l) = sumn (map f l) * k.
Proof. induction l as [|a l IH]; cbn; [lia|]. fold (sumn (map (fun c => f c * k) l)) (sumn (map f l)). rewrite IH. lia. Qed.
Lemma cnt_single c i : cnt [c] i = if c =? i then 1 else 0.
Proof. cbn. destruct (Nat.eq_dec c i) as [->|H]; [now rewrite Nat.eqb_refl|]. destruct (Nat.eqb_spec c i); [congruence|reflexivity]. Qed.
Lemma prodcount_front dims : forall cs p x, p < length cs -> length cs = length dims ->
  sumn (map (fun c => prodcount dims (replace_nth p [c] cs) x) (nth p cs [])) = prodcount dims cs x.
Proof.
  induction dims as [|n dims IH]; intros cs p x Hp Hl.
  - destruct cs; cbn in *; lia.
  - destruct cs as [|c0 cs]; [cbn in Hp; lia|]. destruct p as [|p]; cbn [replace_nth nth prodcount].
    + rewrite (map_ext _ (fun c => (if c =? x / prod dims then 1 else 0) * prodcount dims cs (x mod prod dims))).
      2:{ intros c. now rewrite cnt_single. }
      rewrite sumn_scale_r. f_equal. rewrite sumn_ind_cnt. lia.
    + rewrite sumn_scale. f_equal. apply IH; cbn in *; lia.
Qed.
Lemma cnt_front dims cs p x : inb dims cs -> p < length cs ->
  cnt (flat_map (fun c => outer dims (replace_nth p [c] cs)) (nth p cs [])) x = cnt (outer dims cs) x.
Proof.
  intros Hb Hp. rewrite cnt_flat_map, cnt_outer by assumption.
  rewrite <- (prodcount_front dims cs p x Hp) by (now apply inb_length).
  f_equal. apply map_ext_in. intros c Hc. apply cnt_outer. now apply inb_replace.
Qed.
Lemma front_permutation dims cs p : inb dims cs -> p < length cs ->
  Permutation (flat_map (fun c => outer dims (replace_nth p [c] cs)) (nth p cs [])) (outer dims cs).
Proof.
  intros Hb Hp. apply (Permutation_count_occ Nat.eq_dec). intros x. now apply cnt_front.
Qed.

(* full axes select everything, in order *)
Lemma map_add_seq P : forall a b, map (fun p => b + p) (seq a P) = seq (b + a) P.
Proof.
  induction P as [|P IH]; intros a b; [reflexivity|].
  cbn [seq map]. f_equal. rewrite IH. f_equal. lia.
Qed.
Lemma flat_seq P : forall n a,
  flat_map (fun i => map (fun p => i * P + p) (seq 0 P)) (seq a n) = seq (a * P) (n * P).
Proof.
  induction n as [|n IH]; intros a; [reflexivity|].
  cbn [seq flat_map]. rewrite IH, map_add_seq. replace (S n * P) with (P + n * P) by lia.
  rewrite seq_app. f_equal; f_equal; lia.
Qed.
Lemma outer_full sh : outer sh (map (fun n => seq 0 n) sh) = seq 0 (prod sh).
Proof.
  induction sh as [|n sh IH]; [reflexivity|].
  cbn [map outer prod fold_right]. fold (prod sh). rewrite IH. now rewrite flat_seq.
Qed.

(* ============================================================================================ *)
(* Part 4: slices, masks, resolution of an index tuple; unique_indices inference *)

Lemma NoDup_map_inj_in {A B} (f : A -> B) l :
  (forall x y, In x l -> In y l -> f x = f y -> x = y) -> NoDup l -> NoDup (map f l).
Proof.
  intros Hinj Hnd. induction Hnd as [|a l Hnin Hnd IH]; [constructor|].
  cbn. constructor.
  - intros Hin. apply in_map_iff in Hin as [y [Hy Hyin]]. apply Hnin.
    rewrite <- (Hinj y a); [assumption|now right|now left|assumption].
  - apply IH. intros x y Hx Hy. apply Hinj; now right.
Qed.

Local Open Scope Z_scope.
Lemma stride_bound a b k : 0 < b -> 0 <= k <= a / b -> k * b <= a.
Proof. intros Hb Hk. assert (H := Z.mul_div_le a b Hb). nia. Qed.

(* slice(start, stop, step).indices(n): every produced coordinate lies in [0, n), for ANY start, stop,
   step (None, negative, out of range), and the step is not 0 *)
Lemma slice_params_spec n a b c s0 st len : slice_params n a b c = Ok (s0, st, len) ->
  st <> 0 /\ 0 <= len /\ forall k, 0 <= k < len -> 0 <= s0 + k * st < Z.of_nat n.
Proof.
  unfold slice_params.
  remember (match c with None => 1 | Some s => s end) as st' eqn:Est.
  destruct (Z.eqb_spec st' 0) as [|Hst]; [discriminate|].
  remember (Z.of_nat n) as N eqn:EN. assert (HN : 0 <= N) by lia.
  remember (if 0 <? st' then 0 else -1) as lower eqn:El.
  remember (if 0 <? st' then N else N - 1) as upper eqn:Eu.
  assert (Hlu : lower <= upper /\ -1 <= lower /\ upper <= N /\ (0 < st' -> lower = 0 /\ upper = N)
                /\ (st' < 0 -> lower = -1 /\ upper = N - 1)).
  { subst lower upper. destruct (Z.ltb_spec 0 st'); lia. }
  assert (Hadj : forall v, lower <= (if v <? 0 then Z.max (v + N) lower else Z.min v upper) <= upper).
  { intros v. destruct (Z.ltb_spec v 0); lia. }
  remember (match a with None => if st' <? 0 then upper else lower
                    | Some v => if v <? 0 then Z.max (v + N) lower else Z.min v upper end) as S0 eqn:ES.
  remember (match b with None => if st' <? 0 then lower else upper
                    | Some v => if v <? 0 then Z.max (v + N) lower else Z.min v upper end) as E0 eqn:EE.
  assert (HS : lower <= S0 <= upper).
  { subst S0. destruct a as [v|]; [apply Hadj|]. destruct (st' <? 0); lia. }
  assert (HE : lower <= E0 <= upper).
  { subst E0. destruct b as [v|]; [apply Hadj|]. destruct (st' <? 0); lia. }
  clear ES EE Hadj El Eu.
  intros H. inversion H; subst s0 st len. clear H. split; [assumption|].
  destruct (Z.ltb_spec 0 st') as [Hpos|Hneg].
  - destruct Hlu as (_ & _ & _ & Hp & _). destruct (Hp Hpos) as [-> ->].
    destruct (Z.ltb_spec S0 E0) as [Hlt|Hge]; [|split; [lia|intros; lia]].
    assert (0 <= (E0 - S0 - 1) / st') by (apply Z.div_pos; lia).
    split; [lia|]. intros k Hk.
    assert (k * st' <= E0 - S0 - 1) by (apply stride_bound; lia). nia.
  - assert (Hn : st' < 0) by lia.
    destruct Hlu as (_ & _ & _ & _ & Hq). destruct (Hq Hn) as [-> ->].
    destruct (Z.ltb_spec E0 S0) as [Hlt|Hge]; [|split; [lia|intros; lia]].
    assert (0 <= (S0 - E0 - 1) / - st') by (apply Z.div_pos; lia).
    split; [lia|]. intros k Hk.
    assert (k * (- st') <= S0 - E0 - 1) by (apply stride_bound; lia). nia.
Qed.
Local Close Scope Z_scope.

Lemma slice_coords_spec n a b c cs : slice_coords n a b c = Ok cs ->
  NoDup cs /\ Forall (fun i => i < n) cs.
Proof.
  unfold slice_coords. destruct (slice_params n a b c) as [[[s0 st] len]|e] eqn:E; [|discriminate].
  intros H; inversion H; subst cs; clear H.
  apply slice_params_spec in E as (Hst & Hlen & Hk).
  assert (Hr : forall k, In k (seq 0 (Z.to_nat len)) -> (0 <= Z.of_nat k < len)%Z).
  { intros k Hin. apply in_seq in Hin. lia. }
  split.
  - apply NoDup_map_inj_in; [|apply seq_NoDup].
    intros x y Hx Hy Exy. apply Hr in Hx, Hy.
    assert (H1 := Hk _ Hx). assert (H2 := Hk _ Hy).
    assert ((s0 + Z.of_nat x * st = s0 + Z.of_nat y * st)%Z) by lia.
    assert ((Z.of_nat x - Z.of_nat y) * st = 0)%Z by lia.
    apply Z.mul_eq_0 in H0 as [|]; lia.
  - rewrite Forall_forall. intros i Hi. apply in_map_iff in Hi as [k [<- Hin]].
    apply Hr in Hin. specialize (Hk _ Hin). lia.
Qed.

Lemma tpf_range b : forall k x, In x (true_positions_from k b) -> k <= x < k + length b.
Proof.
  induction b as [|v b IH]; intros k x; cbn [true_positions_from length]; [intros []|].
  destruct v.
  - intros [<-|H]; [lia|]. apply IH in H. lia.
  - intros H. apply IH in H. lia.
Qed.
Lemma tpf_nodup b : forall k, NoDup (true_positions_from k b).
Proof.
  induction b as [|v b IH]; intros k; cbn [true_positions_from]; [constructor|].
  destruct v; [|apply IH]. constructor; [|apply IH].
  intros H. apply tpf_range in H. lia.
Qed.
Lemma true_positions_spec b : NoDup (true_positions b) /\ Forall (fun i => i < length b) (true_positions b).
Proof.
  split; [apply tpf_nodup|]. rewrite Forall_forall. intros x H. apply tpf_range in H. lia.
Qed.

(* a resolved axis is well formed: distinct coordinates inside the (merged) dimension *)
Definition ax_ok (a : axsel) : Prop := NoDup (a_coords a) /\ Forall (fun i => i < a_dim a) (a_coords a).
Definition ax_inb (a : axsel) : Prop := Forall (fun i => i < a_dim a) (a_coords a).

Lemma full_ax_ok n : ax_ok (full_ax n).
Proof. split; cbn; [apply seq_NoDup|]. rewrite Forall_forall. intros i H. apply in_seq in H. lia. Qed.

Lemma norm_lt n z : zin_range n z -> norm n z < n.
Proof. unfold zin_range, norm, normZ. intros H. destruct (Z.ltb_spec z 0); lia. Qed.

Lemma sh_eqb_eq a b : sh_eqb a b = true -> a = b.
Proof. unfold sh_eqb. apply list_eqb_eq. intros x y H. now apply Nat.eqb_eq. Qed.

Lemma resolve_entry_inb dims e a dims' : resolve_entry dims e = Ok (a, dims') -> ax_inb a.
Proof.
  unfold ax_inb. destruct e as [z|s1 s2 s3| |ash d|msh b]; cbn [resolve_entry].
  - destruct dims as [|n rest]; [discriminate|]. destruct (in_range n z) eqn:E; [|discriminate].
    intros H; inversion H; subst; cbn. constructor; [|constructor]. apply norm_lt. now apply in_range_iff.
  - destruct dims as [|n rest]; [discriminate|]. destruct (slice_coords n s1 s2 s3) as [cs|] eqn:E; [|discriminate].
    intros H; inversion H; subst; cbn. now apply slice_coords_spec in E as [_ ?].
  - discriminate.
  - destruct dims as [|n rest]; [discriminate|]. destruct (negb (length d =? prod ash)); [discriminate|].
    destruct (forallb (in_range n) d) eqn:E; [|discriminate].
    intros H; inversion H; subst; cbn. rewrite Forall_forall. intros i Hi.
    apply in_map_iff in Hi as [z [<- Hz]]. apply norm_lt, in_range_iff.
    rewrite forallb_forall in E. now apply E.
  - destruct ((length msh =? 0) || negb (length b =? prod msh)) eqn:E0; [discriminate|].
    destruct (sh_eqb (firstn (length msh) dims) msh); [|discriminate].
    intros H; inversion H; subst; cbn.
    apply orb_false_iff in E0 as [_ E0]. apply negb_false_iff, Nat.eqb_eq in E0. rewrite <- E0.
    apply true_positions_spec.
Qed.
Lemma resolve_entry_ok dims e a dims' : is_basic_or_mask e = true ->
  resolve_entry dims e = Ok (a, dims') -> ax_ok a.
Proof.
  intros Hb H. split; [|exact (resolve_entry_inb _ _ _ _ H)].
  destruct e as [z|s1 s2 s3| |ash d|msh b]; cbn [resolve_entry] in H; try discriminate.
  - destruct dims as [|n rest]; [discriminate|]. destruct (in_range n z); [|discriminate].
    inversion H; subst; cbn. constructor; [intros []|constructor].
  - destruct dims as [|n rest]; [discriminate|]. destruct (slice_coords n s1 s2 s3) as [cs|] eqn:E; [|discriminate].
    inversion H; subst; cbn. now apply slice_coords_spec in E as [? _].
  - destruct ((length msh =? 0) || negb (length b =? prod msh)); [discriminate|].
    destruct (sh_eqb (firstn (length msh) dims) msh); [|discriminate].
    inversion H; subst; cbn. apply true_positions_spec.
Qed.

Lemma resolve_inb fill l : forall dims axs, resolve fill dims l = Ok axs -> Forall ax_inb axs.
Proof.
  induction l as [|e l IH]; intros dims axs; cbn [resolve].
  - intros H; inversion H; subst. rewrite Forall_forall. intros a Ha.
    apply in_map_iff in Ha as [n [<- _]]. apply full_ax_ok.
  - assert (G : forall r, match resolve_entry dims e with
               | Ok (a, dims') => match resolve fill dims' l with Ok r => Ok (a :: r) | Err e0 => Err e0 end
               | Err e0 => Err e0 end = Ok r -> Forall ax_inb r).
    { intros r. destruct (resolve_entry dims e) as [[a dims']|] eqn:E; [|discriminate].
      destruct (resolve fill dims' l) as [r'|] eqn:E'; [|discriminate].
      intros H; inversion H; subst. constructor; [eapply resolve_entry_inb; eassumption|eapply IH; eassumption]. }
    destruct e; try exact (G axs).
    destruct (resolve fill (skipn fill dims) l) as [r|] eqn:E; [|discriminate].
    intros H; inversion H; subst. apply Forall_app. split; [|eapply IH; eassumption].
    rewrite Forall_forall. intros a Ha. apply in_map_iff in Ha as [n [<- _]]. apply full_ax_ok.
Qed.
Lemma resolve_ok fill l : forallb is_basic_or_mask l = true ->
  forall dims axs, resolve fill dims l = Ok axs -> Forall ax_ok axs.
Proof.
  induction l as [|e l IH]; intros Hb dims axs; cbn [resolve].
  - intros H; inversion H; subst. rewrite Forall_forall. intros a Ha.
    apply in_map_iff in Ha as [n [<- _]]. apply full_ax_ok.
  - cbn [forallb] in Hb. apply andb_true_iff in Hb as [Hb1 Hb2].
    assert (G : forall r, match resolve_entry dims e with
               | Ok (a, dims') => match resolve fill dims' l with Ok r => Ok (a :: r) | Err e0 => Err e0 end
               | Err e0 => Err e0 end = Ok r -> Forall ax_ok r).
    { intros r. destruct (resolve_entry dims e) as [[a dims']|] eqn:E; [|discriminate].
      destruct (resolve fill dims' l) as [r'|] eqn:E'; [|discriminate].
      intros H; inversion H; subst. constructor; [eapply resolve_entry_ok; eassumption|eapply IH; eassumption]. }
    destruct e; try exact (G axs).
    destruct (resolve fill (skipn fill dims) l) as [r|] eqn:E; [|discriminate].
    intros H; inversion H; subst. apply Forall_app. split; [|eapply IH; eassumption].
    rewrite Forall_forall. intros a Ha. apply in_map_iff in Ha as [n [<- _]]. apply full_ax_ok.
Qed.

Lemma inb_of_axs axs : Forall ax_inb axs -> inb (map a_dim axs) (map a_coords axs).
Proof. induction 1; cbn; constructor; assumption. Qed.
Lemma nodup_of_axs axs : Forall ax_ok axs -> Forall (fun c => NoDup c) (map a_coords axs).
Proof. induction 1 as [|a axs [H1 H2] _ IH]; cbn; constructor; assumption. Qed.
Lemma ax_ok_inb axs : Forall ax_ok axs -> Forall ax_inb axs.
Proof. apply Forall_impl. now intros a [_ H]. Qed.

Lemma find_arr_lt axs : forall k p, find_arr k axs = Some p -> k <= p < k + length axs.
Proof.
  induction axs as [|a axs IH]; intros k p; cbn [find_arr length]; [discriminate|].
  destruct (a_kind a).
  - intros H. apply IH in H. lia.
  - intros H. apply IH in H. lia.
  - intros H; inversion H; subst. lia.
Qed.

(* the gather computed by index_leaf, up to the order of enumeration, is the outer product of the
   resolved axes; in particular the selection of a basic / single-mask expression never repeats *)
Lemma index_leaf_perm sh l g : index_leaf sh l = Ok (Some g) ->
  exists axs, resolve (length sh - consumed l) sh l = Ok axs /\
    Permutation (g_sel g) (outer (map a_dim axs) (map a_coords axs)).
Proof.
  unfold index_leaf. destruct (1 <? count_ell l); [discriminate|].
  destruct (length sh <? consumed l); [discriminate|].
  destruct (resolve (length sh - consumed l) sh l) as [axs|] eqn:E; [|discriminate].
  intros H. exists axs. split; [reflexivity|].
  destruct ((length (filter is_arr l) =? 0) || ((length (filter is_arr l) =? 1) && adjacent l)).
  - inversion H; subst; cbn. apply Permutation_refl.
  - destruct (length (filter is_arr l) =? 1); [|discriminate].
    destruct (find_arr 0 axs) as [p|] eqn:Ef; [|discriminate].
    inversion H; subst; cbn [g_sel]. apply find_arr_lt in Ef.
    replace (a_coords (nth p axs (full_ax 0))) with (nth p (map a_coords axs) []).
    2:{ rewrite (nth_map_gen a_coords axs p [] (full_ax 0)) by lia. reflexivity. }
    apply front_permutation.
    + apply inb_of_axs. eapply resolve_inb; eassumption.
    + rewrite map_length. lia.
Qed.

Lemma unique_inference_sound_l sh l g : infer_unique l None = true ->
  index_leaf sh l = Ok (Some g) -> NoDup (g_sel g).
Proof.
  unfold infer_unique. destruct (forallb is_basic_or_mask l) eqn:Hb; [|discriminate]. intros _ H.
  apply index_leaf_perm in H as [axs [Hr Hp]].
  eapply Permutation_NoDup; [apply Permutation_sym; exact Hp|].
  assert (Hok := resolve_ok _ _ Hb _ _ Hr).
  apply NoDup_outer; [apply inb_of_axs, ax_ok_inb, Hok|apply nodup_of_axs, Hok].
Qed.

(* ============================================================================================ *)
(* Part 5: furax's own logic *)

(* ---- indexed_axes (the definition of Model/Algebra.v) in closed form ---- *)
Fixpoint nonfull_pos (l : list ientry) (k : nat) : list Z :=
  match l with
  | [] => []
  | e :: r => if is_slice_all e then nonfull_pos r (S k) else Z.of_nat k :: nonfull_pos r (S k)
  end.
Definition no_ell (l : list ientry) : Prop := forall e, In e l -> e <> IEll.

Lemma find_ell_app pre post : no_ell pre -> find_ell (pre ++ IEll :: post) = length pre.
Proof.
  induction pre as [|e pre IH]; intros H; [reflexivity|].
  cbn [app find_ell length]. assert (He : e <> IEll) by (apply H; now left).
  destruct e; try congruence; f_equal; apply IH; intros x Hx; apply H; now right.
Qed.
Lemma find_ell_none l : no_ell l -> find_ell l = length l.
Proof.
  induction l as [|e l IH]; intros H; [reflexivity|].
  cbn [find_ell length]. assert (He : e <> IEll) by (apply H; now left).
  destruct e; try congruence; f_equal; apply IH; intros x Hx; apply H; now right.
Qed.
Lemma axes_before_spec pre : forall rest k, axes_before (pre ++ rest) k (length pre) = nonfull_pos pre k.
Proof.
  induction pre as [|e pre IH]; intros rest k; [now destruct rest|].
  cbn [app length axes_before nonfull_pos]. destruct (is_slice_all e); now rewrite IH.
Qed.
Lemma axes_after_spec l : forall k n, axes_after l k n = map (fun z => (z - Z.of_nat n)%Z) (nonfull_pos l k).
Proof.
  induction l as [|e l IH]; intros k n; [reflexivity|].
  cbn [axes_after nonfull_pos]. destruct (is_slice_all e); cbn [map]; now rewrite IH.
Qed.
Lemma skipn_app_exact {A} (pre : list A) x post : skipn (S (length pre)) (pre ++ x :: post) = post.
Proof. induction pre as [|a pre IH]; [reflexivity|]. exact IH. Qed.

Lemma indexed_axes_ell pre post : no_ell pre ->
  indexed_axes (pre ++ IEll :: post) =
  nonfull_pos pre 0 ++ map (fun z => (z - Z.of_nat (length (pre ++ IEll :: post)))%Z) (nonfull_pos post (S (length pre))).
Proof.
  intros H. unfold indexed_axes. rewrite find_ell_app by assumption.
  now rewrite axes_before_spec, skipn_app_exact, axes_after_spec.
Qed.
Lemma indexed_axes_noell l : no_ell l -> indexed_axes l = nonfull_pos l 0.
Proof.
  intros H. unfold indexed_axes. rewrite find_ell_none by assumption.
  rewrite <- (app_nil_r l) at 1. rewrite axes_before_spec.
  rewrite skipn_all2 by lia. cbn. now rewrite app_nil_r.
Qed.
Lemma nonfull_pos_in l : forall k z, In z (nonfull_pos l k) <->
  exists j e, nth_error l j = Some e /\ is_slice_all e = false /\ z = Z.of_nat (k + j).
Proof.
  induction l as [|e l IH]; intros k z; cbn [nonfull_pos].
  - split; [intros []|]. intros (j & e & H & _). destruct j; discriminate.
  - destruct (is_slice_all e) eqn:E.
    + rewrite IH. split.
      * intros (j & e' & H1 & H2 & H3). exists (S j), e'. repeat split; try assumption. lia.
      * intros (j & e' & H1 & H2 & H3). destruct j as [|j]; [cbn in H1; congruence|].
        exists j, e'. repeat split; try assumption. lia.
    + cbn [In]. rewrite IH. split.
      * intros [<-|(j & e' & H1 & H2 & H3)].
        -- exists 0, e. repeat split; try assumption. f_equal; lia.
        -- exists (S j), e'. repeat split; try assumption. lia.
      * intros (j & e' & H1 & H2 & H3). destruct j as [|j].
        -- left. subst z. f_equal; lia.
        -- right. exists j, e'. repeat split; try assumption. lia.
Qed.
Lemma nonfull_pos_nil l k : nonfull_pos l k = [] <-> Forall (fun e => is_slice_all e = true) l.
Proof.
  revert k. induction l as [|e l IH]; intros k; cbn [nonfull_pos]; [split; constructor|].
  destruct (is_slice_all e) eqn:E.
  - rewrite IH. split; [now constructor|]. intros H; now inversion H.
  - split; [discriminate|]. intros H; inversion H; congruence.
Qed.

(* ---- no indexed axis => the operator is the identity on every leaf it applies to ---- *)
Definition fullish (e : ix) : Prop := e = XSlice None None None \/ e = XEll.

Lemma slice_full n : slice_coords n None None None = Ok (seq 0 n).
Proof.
  unfold slice_coords, slice_params. cbn [Z.eqb Z.ltb Z.compare].
  assert (E : (if (0 <? Z.of_nat n)%Z then ((Z.of_nat n - 0 - 1) / 1 + 1)%Z else 0%Z) = Z.of_nat n).
  { destruct (Z.ltb_spec 0 (Z.of_nat n)); [rewrite Z.div_1_r; lia|lia]. }
  rewrite E, Nat2Z.id. f_equal. rewrite <- (map_id (seq 0 n)) at 2. apply map_ext. intros k. lia.
Qed.
Lemma resolve_entry_full n rest : resolve_entry (n :: rest) (XSlice None None None) = Ok (full_ax n, rest).
Proof. cbn [resolve_entry]. rewrite slice_full. unfold full_ax. now rewrite seq_length. Qed.

Lemma resolve_fullish l : forall dims fill, Forall fullish l -> count_ell l <= 1 ->
  (count_ell l = 0 -> consumed l <= length dims) -> (count_ell l = 1 -> fill + consumed l = length dims) ->
  resolve fill dims l = Ok (map full_ax dims).
Proof.
  induction l as [|e l IH]; intros dims fill Hf Hc H0 H1; [reflexivity|].
  inversion Hf as [|? ? He Hf']; subst. destruct He as [->| ->].
  - change (count_ell (XSlice None None None :: l)) with (count_ell l) in *.
    change (consumed (XSlice None None None :: l)) with (1 + consumed l) in *.
    destruct dims as [|n rest]; [cbn [length] in *; destruct (count_ell l) as [|[|]]; lia|].
    cbn [resolve]. rewrite resolve_entry_full. rewrite IH; try assumption; cbn [length] in *; try lia.
    reflexivity.
  - change (count_ell (XEll :: l)) with (S (count_ell l)) in *.
    change (consumed (XEll :: l)) with (consumed l) in *.
    cbn [resolve]. rewrite IH; try assumption; try lia.
    + now rewrite <- map_app, firstn_skipn.
    + intros _. rewrite skipn_length. lia.
Qed.

Lemma full_ax_dims l : map a_dim (map full_ax l) = l.
Proof. rewrite map_map. cbn. apply map_id. Qed.
Lemma full_ax_coords l : map a_coords (map full_ax l) = map (fun n => seq 0 n) l.
Proof. now rewrite map_map. Qed.
Lemma full_ax_out l : concat (map a_out (map full_ax l)) = l.
Proof. rewrite map_map. cbn. induction l; cbn; congruence. Qed.

Lemma abs_slice_all e : is_slice_all (abs_entry e) = true -> e = XSlice None None None.
Proof. destruct e as [|[?|] [?|] [?|]| | |]; cbn; congruence. Qed.
Lemma abs_ell e : abs_entry e = IEll -> e = XEll.
Proof. destruct e as [|[?|] [?|] [?|]| | |]; cbn; congruence. Qed.

Lemma split_first_ell (l : list ientry) : no_ell l \/ exists pre post, l = pre ++ IEll :: post /\ no_ell pre.
Proof.
  induction l as [|e l IH]; [left; intros ? []|].
  destruct (ientry_eqb e IEll) eqn:E.
  - apply ientry_eqb_eq in E. subst. right. exists [], l. split; [reflexivity|intros ? []].
  - assert (e <> IEll). { intros ->. cbn in E. discriminate. }
    destruct IH as [IH|(pre & post & -> & Hp)].
    + left. intros x [<-|Hx]; auto.
    + right. exists (e :: pre), post. split; [reflexivity|]. intros x [<-|Hx]; auto.
Qed.

Lemma no_indexed_axis_fullish l : indexed_axes (map abs_entry l) = [] ->
  Forall fullish l /\ count_ell l <= 1.
Proof.
  intros H. destruct (split_first_ell (map abs_entry l)) as [Hn|(pre & post & E & Hp)].
  - rewrite indexed_axes_noell in H by assumption. apply nonfull_pos_nil in H.
    split.
    + rewrite Forall_forall in *. intros e He. left. apply abs_slice_all, H, in_map, He.
    + assert (G : forall l', (forall e, In e l' -> abs_entry e <> IEll) -> count_ell l' = 0).
      { induction l' as [|e l' IH]; intros Hl; [reflexivity|]. unfold count_ell. cbn [filter].
        destruct e; cbn [is_ell]; try (apply IH; intros; apply Hl; now right).
        exfalso. apply (Hl XEll); [now left|reflexivity]. }
      rewrite G; [lia|]. intros e He. apply Hn. now apply in_map.
  - rewrite E in H. rewrite indexed_axes_ell in H by assumption.
    apply app_eq_nil in H as [H1 H2]. apply map_eq_nil in H2.
    apply nonfull_pos_nil in H1, H2.
    apply map_eq_app in E as (lp & lr & -> & Ep & Er). destruct lr as [|x lq]; [discriminate|].
    cbn [map] in Er. inversion Er as [[Ex Eq]]. apply abs_ell in Ex. subst x.
    assert (Fp : Forall (fun e => e = XSlice None None None) lp).
    { rewrite Forall_forall in *. intros e He. apply abs_slice_all, H1. rewrite <- Ep. now apply in_map. }
    assert (Fq : Forall (fun e => e = XSlice None None None) lq).
    { rewrite Forall_forall in *. intros e He. apply abs_slice_all, H2. rewrite <- Eq. now apply in_map. }
    split.
    + apply Forall_app. split; [eapply Forall_impl; [|exact Fp]; intros; now left|].
      constructor; [now right|]. eapply Forall_impl; [|exact Fq]. intros; now left.
    + assert (G : forall l', Forall (fun e => e = XSlice None None None) l' -> count_ell l' = 0).
      { induction 1 as [|e l' -> _ IH]; [reflexivity|]. exact IH. }
      unfold count_ell in *. rewrite filter_app, app_length. cbn [filter is_ell length].
      rewrite (G lp Fp), (G lq Fq). lia.
Qed.

Lemma fullish_no_arr l : Forall fullish l -> length (filter is_arr l) = 0.
Proof. induction 1 as [|e l [->| ->] _ IH]; [reflexivity| |]; exact IH. Qed.

Lemma reduce_identity_only_if_noop_l o sh g : Index_reduce_is_identity o = true ->
  index_leaf sh (i_ix o) = Ok (Some g) -> g_sel g = seq 0 (prod sh) /\ g_out g = sh.
Proof.
  unfold Index_reduce_is_identity, Index_axes.
  destruct (indexed_axes (map abs_entry (i_ix o))) eqn:E; [|discriminate]. intros _.
  apply no_indexed_axis_fullish in E as [Hf Hc]. set (l := i_ix o) in *.
  unfold index_leaf. destruct (Nat.ltb_spec 1 (count_ell l)); [lia|].
  destruct (Nat.ltb_spec (length sh) (consumed l)) as [|Hle]; [discriminate|].
  rewrite (resolve_fullish l sh (length sh - consumed l) Hf Hc); try lia.
  rewrite fullish_no_arr by assumption. cbn [Nat.eqb orb].
  intros Hg; inversion Hg; subst g; cbn [g_sel g_out].
  now rewrite full_ax_dims, full_ax_coords, full_ax_out, outer_full.
Qed.

(* ---- PackOperator ---- *)
Lemma sh_eqb_refl a : sh_eqb a a = true.
Proof. unfold sh_eqb. induction a as [|x a IH]; cbn; [reflexivity|]. now rewrite Nat.eqb_refl. Qed.

Lemma pack_leaf_l msh bits rest : msh <> [] -> length bits = prod msh ->
  index_leaf (msh ++ rest) [XMask msh bits] =
  Ok (Some (mkG (length (true_positions bits) :: rest) (pack_sel bits (prod rest)))).
Proof.
  intros Hm Hb. unfold index_leaf.
  change (count_ell [XMask msh bits]) with 0. change (1 <? 0) with false. cbn iota.
  change (consumed [XMask msh bits]) with (length msh + 0). rewrite Nat.add_0_r, app_length.
  destruct (Nat.ltb_spec (length msh + length rest) (length msh)); [lia|].
  cbn [resolve resolve_entry].
  destruct (length msh =? 0) eqn:E0; [apply Nat.eqb_eq in E0; destruct msh; [congruence|discriminate]|].
  rewrite Hb, Nat.eqb_refl. cbn [negb orb].
  rewrite firstn_app, Nat.sub_diag, firstn_all, firstn_O, app_nil_r, sh_eqb_refl.
  rewrite skipn_app, Nat.sub_diag, skipn_all. cbn [skipn app].
  cbn [filter is_arr length Nat.eqb orb andb].
  unfold adjacent. cbn [dropwhile is_adv negb rev app forallb andb].
  cbn [map a_dim a_coords a_out concat]. rewrite full_ax_dims, full_ax_coords, full_ax_out.
  cbn [outer app]. rewrite outer_full. reflexivity.
Qed.

(* ---- one integer array on one axis: multiplicities along that axis ---- *)
Definition sel_axis (sh : shape) (a : nat) (c : list nat) : list nat :=
  outer sh (replace_nth a c (map (fun n => seq 0 n) sh)).

Lemma inb_full sh : inb sh (map (fun n => seq 0 n) sh).
Proof.
  induction sh as [|n sh IH]; cbn; constructor; [|assumption].
  rewrite Forall_forall. intros i H. apply in_seq in H. lia.
Qed.
Lemma inb_sel_axis sh : forall a c, a < length sh -> Forall (fun i => i < nth a sh 0) c ->
  inb sh (replace_nth a c (map (fun n => seq 0 n) sh)).
Proof.
  induction sh as [|n sh IH]; intros a c Ha Hc; [cbn in Ha; lia|].
  destruct a as [|a]; cbn [map replace_nth nth] in *.
  - constructor; [assumption|apply inb_full].
  - constructor; [|apply IH; [cbn in Ha; lia|assumption]].
    rewrite Forall_forall. intros i H. apply in_seq in H. lia.
Qed.
Lemma prodcount_full sh q : q < prod sh -> prodcount sh (map (fun n => seq 0 n) sh) q = 1.
Proof.
  intros Hq. rewrite <- cnt_outer by apply inb_full. rewrite outer_full, cnt_seq.
  cbn [Nat.leb andb Nat.add]. destruct (Nat.ltb_spec q (prod sh)); [reflexivity|lia].
Qed.
Lemma prodcount_sel_axis sh : forall a c p, a < length sh -> p < prod sh ->
  prodcount sh (replace_nth a c (map (fun n => seq 0 n) sh)) p = cnt c (coord sh a p).
Proof.
  induction sh as [|n sh IH]; intros a c p Ha Hp; [cbn in Ha; lia|].
  cbn [prod fold_right] in Hp. fold (prod sh) in Hp.
  assert (HP : prod sh <> 0) by (intros E; rewrite E in Hp; lia).
  destruct a as [|a]; cbn [map replace_nth prodcount coord].
  - rewrite prodcount_full by (now apply Nat.mod_upper_bound). lia.
  - rewrite cnt_seq. cbn [Nat.leb andb Nat.add].
    assert (p / prod sh < n) by (apply Nat.div_lt_upper_bound; [assumption|lia]).
    destruct (Nat.ltb_spec (p / prod sh) n); [|lia].
    rewrite IH; [lia|cbn in Ha; lia|now apply Nat.mod_upper_bound].
Qed.
Lemma cnt_sel_axis sh a c p : a < length sh -> Forall (fun i => i < nth a sh 0) c -> p < prod sh ->
  cnt (sel_axis sh a c) p = cnt c (coord sh a p).
Proof.
  intros Ha Hc Hp. unfold sel_axis. rewrite cnt_outer by (now apply inb_sel_axis).
  now apply prodcount_sel_axis.
Qed.
Lemma coord_lt sh : forall a p, a < length sh -> p < prod sh -> coord sh a p < nth a sh 0.
Proof.
  induction sh as [|n sh IH]; intros a p Ha Hp; [cbn in Ha; lia|].
  cbn [prod fold_right] in Hp. fold (prod sh) in Hp.
  assert (HP : prod sh <> 0) by (intros E; rewrite E in Hp; lia).
  destruct a as [|a]; cbn [coord nth].
  - apply Nat.div_lt_upper_bound; [assumption|lia].
  - apply IH; [cbn in Ha; lia|now apply Nat.mod_upper_bound].
Qed.

Section Lin2.
  Variable K : Type.
  Variables (k0 k1 : K) (kadd kmul ksub : K -> K -> K) (kopp : K -> K).
  Hypothesis Kth : ring_theory k0 k1 kadd kmul ksub kopp (@eq K).
  Add Ring KrIndex2 : Kth.
  Notation gather_data := (gather_data k0).
  Notation scatter_add := (scatter_add k0 kadd).
  Notation nat_mul := (nat_mul k0 kadd).
  Notation diag_along := (diag_along k0 kmul).

  Lemma nat_mul_one c x : kmul (nat_mul c k1) x = nat_mul c x.
  Proof. induction c as [|c IH]; cbn; [ring|]. rewrite <- IH. ring. Qed.

  (* the diagonal operator produced by TransposeIndexRule (coverage laid along the indexed axis) is
     P^T P on a leaf whose only indexed entry is the integer array d on axis a *)
  Lemma PtP_rule_sound_l sh a d x p : a < length sh -> Forall (zin_range (nth a sh 0)) d -> p < prod sh ->
    let n := nth a sh 0 in
    let sel := sel_axis sh a (map (norm n) d) in
    let v := map (fun c => nat_mul (Z.to_nat c) k1) (coverage_of n (norm_index n d)) in
    nth p (scatter_add (prod sh) sel (gather_data sel x)) k0 = nth p (diag_along sh a v x) k0.
  Proof.
    intros Ha Hd Hp n sel v.
    rewrite (PtP_multiplicity_l K k0 kadd) by assumption.
    unfold Index.diag_along. rewrite nth_map_seq by assumption. cbn [Nat.add].
    assert (Hj : coord sh a p < n) by now apply coord_lt.
    unfold v. rewrite (nth_map_gen _ _ _ k0 0%Z) by (now rewrite coverage_length).
    rewrite multiplicity_code_correct_l by assumption. rewrite Nat2Z.id, nat_mul_one.
    f_equal. unfold sel. apply cnt_sel_axis; try assumption.
    rewrite Forall_forall in *. intros i Hi. apply in_map_iff in Hi as [z [<- Hz]]. apply norm_lt. auto.
  Qed.
End Lin2.

(* ---- the constructor ---- *)
Lemma ctor_without_out_l a ins user gs : count_ell (wrap a) <= 1 -> existsb is_mask (wrap a) = false ->
  gathers ins (wrap a) = Ok gs ->
  Index_ctor a ins None user = Ok (mkIop (wrap a) ins (map g_out gs) (infer_unique (wrap a) user)).
Proof.
  intros Hc Hm Hg. unfold Index_ctor. destruct (Nat.ltb_spec 1 (count_ell (wrap a))); [lia|].
  now rewrite Hm, Hg.
Qed.
Lemma ctor_with_out_l a ins o user : count_ell (wrap a) <= 1 ->
  Index_ctor a ins (Some o) user = Ok (mkIop (wrap a) ins o (infer_unique (wrap a) user)).
Proof. intros Hc. unfold Index_ctor. now destruct (Nat.ltb_spec 1 (count_ell (wrap a))); [lia|]. Qed.
Lemma ctor_rejects_l a ins outs user :
  (1 < count_ell (wrap a) \/ (outs = None /\ existsb is_mask (wrap a) = true)) ->
  Index_ctor a ins outs user = Err ValueError.
Proof.
  unfold Index_ctor. intros [H|[-> H]].
  - now destruct (Nat.ltb_spec 1 (count_ell (wrap a))); [|lia].
  - destruct (1 <? count_ell (wrap a)); [reflexivity|]. now rewrite H.
Qed.
Lemma ctor_ok_inv_l a ins outs user o : Index_ctor a ins outs user = Ok o ->
  count_ell (wrap a) <= 1 /\ i_ix o = wrap a /\ i_in o = ins /\ i_unique o = infer_unique (wrap a) user /\
  match outs with
  | Some s => i_out o = s
  | None => existsb is_mask (wrap a) = false /\ exists gs, gathers ins (wrap a) = Ok gs /\ i_out o = map g_out gs
  end.
Proof.
  unfold Index_ctor. destruct (Nat.ltb_spec 1 (count_ell (wrap a))); [discriminate|].
  destruct outs as [s|].
  - intros H0; inversion H0; subst; cbn. repeat split; lia.
  - destruct (existsb is_mask (wrap a)); [discriminate|].
    destruct (gathers ins (wrap a)) as [gs|] eqn:E; [|discriminate].
    intros H0; inversion H0; subst; cbn. repeat split; try lia. now exists gs.
Qed.

(* unique_indices is inferred True exactly for the expressions without integer array *)
Lemma infer_unique_spec l user :
  infer_unique l user = if forallb is_basic_or_mask l then true else match user with Some b => b | None => false end.
Proof. reflexivity. Qed.

(* IndexTransposeRule fires exactly when the operator is flagged unique; TransposeIndexRule never
   fires on a unique operator *)
Lemma IndexTranspose_rule_spec o : IndexTranspose_rule o = if i_unique o then Some [] else None.
Proof. reflexivity. Qed.
Lemma TransposeIndex_rule_unique o : i_unique o = true -> TransposeIndex_rule o = Ok None.
Proof. intros H. unfold TransposeIndex_rule. rewrite H. now destruct (1 <? length (Index_axes o)). Qed.
Lemma TransposeIndex_rule_inv o axis cov : TransposeIndex_rule o = Ok (Some (axis, cov)) ->
  i_unique o = false /\ Index_axes o = [axis] /\
  exists sh rest ash d n, i_in o = sh :: rest /\ forallb (sh_eqb sh) rest = true /\
    py_nth (i_ix o) axis = Some (XArr ash d) /\ py_nth sh axis = Some n /\
    cov = coverage_of n (norm_index n d).
Proof.
  unfold TransposeIndex_rule. destruct (Nat.ltb_spec 1 (length (Index_axes o))) as [|Hl]; [discriminate|].
  destruct (i_unique o); [discriminate|]. destruct (i_in o) as [|sh rest]; [discriminate|].
  destruct (forallb (sh_eqb sh) rest) eqn:Es; [|discriminate]. cbn [negb].
  destruct (Index_axes o) as [|ax l'] eqn:Ea; [discriminate|].
  destruct (py_nth (i_ix o) ax) as [[| | |ash d|]|] eqn:Ei; try discriminate.
  destruct (py_nth sh ax) as [n|] eqn:En; [|discriminate].
  intros H; inversion H; subst. split; [reflexivity|]. split.
  - destruct l'; [reflexivity|cbn in Hl; lia].
  - exists sh, rest, ash, d, n. repeat split; assumption.
Qed.

(* ---- small closing facts ---- *)
Lemma coverage_raw_refuted : exists n d j, Forall (zin_range n) d /\ j < n /\
  nth j (coverage_of n d) 0%Z <> Z.of_nat (count_occ Nat.eq_dec (map (norm n) d) j).
Proof.
  exists 1, [0%Z; (-1)%Z], 0. repeat split.
  - repeat constructor; unfold zin_range; cbn; lia.
  - lia.
  - vm_compute. discriminate.
Qed.
Lemma pack_is_index_l msh bits ins :
  Pack_gathers (mkPop msh bits ins) = gathers ins (wrap (ASingle (XMask msh bits))).
Proof. reflexivity. Qed.
Lemma pack_nodup_l msh bits sh g : index_leaf sh [XMask msh bits] = Ok (Some g) -> NoDup (g_sel g).
Proof. apply unique_inference_sound_l. reflexivity. Qed.

(* ============================================================================================ *)
(* Part 6: TransposeIndexRule fires only on tuples whose gather is `sel_axis` *)
(* ---- the link: a tuple whose only indexed entry is an integer array gathers along that axis ---- *)
Notation FULL := (XSlice None None None).
Definition all_full (l : list ix) : Prop := Forall (fun e => e = FULL) l.

Lemma all_full_fullish l : all_full l -> Forall fullish l.
Proof. apply Forall_impl. intros e ->. now left. Qed.
Lemma all_full_count_ell l : all_full l -> count_ell l = 0.
Proof. induction 1 as [|e l -> _ IH]; [reflexivity|exact IH]. Qed.
Lemma all_full_consumed l : all_full l -> consumed l = length l.
Proof. induction 1 as [|e l -> _ IH]; [reflexivity|]. cbn [consumed fold_right consumes length] in *. fold (consumed l). lia. Qed.
Lemma count_ell_app a b : count_ell (a ++ b) = count_ell a + count_ell b.
Proof. unfold count_ell. now rewrite filter_app, app_length. Qed.
Lemma consumed_app a b : consumed (a ++ b) = consumed a + consumed b.
Proof. induction a as [|e a IH]; [reflexivity|]. cbn [app consumed fold_right]. fold (consumed (a ++ b)) (consumed a). lia. Qed.

Lemma skipn_skipn' {A} (l : list A) : forall a b, skipn b (skipn a l) = skipn (a + b) l.
Proof. induction l as [|x l IH]; intros a b; [now rewrite !skipn_nil|]. destruct a; [reflexivity|]. cbn. apply IH. Qed.
Lemma firstn_add {A} (l : list A) : forall a b, firstn (a + b) l = firstn a l ++ firstn b (skipn a l).
Proof. induction l as [|x l IH]; intros a b; [now rewrite !firstn_nil, skipn_nil, firstn_nil|]. destruct a; [reflexivity|]. cbn. now rewrite IH. Qed.

Lemma resolve_slices S1 : forall dims fill tail, all_full S1 -> length S1 <= length dims ->
  resolve fill dims (S1 ++ tail) =
  match resolve fill (skipn (length S1) dims) tail with
  | Ok r => Ok (map full_ax (firstn (length S1) dims) ++ r)
  | Err e => Err e
  end.
Proof.
  induction S1 as [|e S1 IH]; intros dims fill tail Hf Hl.
  - cbn. now destruct (resolve fill dims tail).
  - inversion Hf as [|? ? -> Hf']; subst. destruct dims as [|n rest]; [cbn in Hl; lia|].
    cbn [app resolve length]. rewrite resolve_entry_full. rewrite IH by (cbn in Hl; try assumption; lia).
    cbn [skipn firstn map app]. now destruct (resolve fill (skipn (length S1) rest) tail).
Qed.

Lemma resolve_arr_then_fullish n rest fill ash d T r : Forall fullish T -> count_ell T <= 1 ->
  (count_ell T = 0 -> consumed T <= length rest) -> (count_ell T = 1 -> fill + consumed T = length rest) ->
  resolve fill (n :: rest) (XArr ash d :: T) = Ok r ->
  r = mkAx n (map (norm n) d) ash KArr :: map full_ax rest /\ Forall (zin_range n) d.
Proof.
  intros Hf Hc H0 H1. cbn [resolve resolve_entry].
  destruct (negb (length d =? prod ash)); [discriminate|].
  destruct (forallb (in_range n) d) eqn:E; [|discriminate].
  rewrite (resolve_fullish T rest fill Hf Hc H0 H1). intros H; inversion H; subst. split; [reflexivity|].
  rewrite Forall_forall. intros z Hz. apply in_range_iff. rewrite forallb_forall in E. now apply E.
Qed.

Lemma coords_replace A n c o k B :
  map a_coords (map full_ax A ++ mkAx n c o k :: map full_ax B) =
  replace_nth (length A) c (map (fun m => seq 0 m) (A ++ n :: B)).
Proof. induction A as [|a A IH]; cbn [map app length replace_nth a_coords]; [now rewrite full_ax_coords|]. now rewrite IH. Qed.
Lemma dims_replace A n c o k B : map a_dim (map full_ax A ++ mkAx n c o k :: map full_ax B) = A ++ n :: B.
Proof. rewrite map_app. cbn [map a_dim]. now rewrite !full_ax_dims. Qed.

Lemma dropwhile_all {A} (f : A -> bool) l1 l2 : Forall (fun x => f x = true) l1 -> dropwhile f (l1 ++ l2) = dropwhile f l2.
Proof. induction 1 as [|x l1 Hx _ IH]; [reflexivity|]. cbn. now rewrite Hx. Qed.
Lemma adjacent_single P1 ash d P2 : Forall fullish P1 -> Forall fullish P2 -> adjacent (P1 ++ XArr ash d :: P2) = true.
Proof.
  intros H1 H2. unfold adjacent.
  assert (G : forall P, Forall fullish P -> Forall (fun e => negb (is_adv e) = true) P).
  { intros P. apply Forall_impl. now intros e [-> | ->]. }
  rewrite dropwhile_all by (apply G, H1). cbn [dropwhile is_adv negb rev].
  rewrite dropwhile_all by (apply Forall_rev, G, H2). reflexivity.
Qed.
Lemma narr_single P1 ash d P2 : Forall fullish P1 -> Forall fullish P2 ->
  length (filter is_arr (P1 ++ XArr ash d :: P2)) = 1.
Proof. intros H1 H2. rewrite filter_app, app_length. cbn [filter is_arr length]. now rewrite !fullish_no_arr. Qed.

Lemma skipn_cons_nth {A} (l : list A) k x rest : skipn k l = x :: rest ->
  nth_error l k = Some x /\ firstn k l ++ x :: rest = l /\ length (firstn k l) = k /\ length l = k + S (length rest).
Proof.
  intros E. assert (H := firstn_skipn k l). rewrite E in H.
  assert (Hl : length (skipn k l) = S (length rest)) by now rewrite E.
  rewrite skipn_length in Hl.
  assert (Hk : length (firstn k l) = k) by (rewrite firstn_length; lia).
  repeat split; try assumption; try lia.
  rewrite <- H at 1. rewrite nth_error_app2 by lia. now rewrite Hk, Nat.sub_diag.
Qed.

(* layout A: full slices, the array, then full slices with at most one Ellipsis *)
Lemma gather_A S1 ash d P2 sh g : all_full S1 -> Forall fullish P2 -> count_ell P2 <= 1 ->
  index_leaf sh (S1 ++ XArr ash d :: P2) = Ok (Some g) ->
  exists n, nth_error sh (length S1) = Some n /\ Forall (zin_range n) d /\
    g_sel g = sel_axis sh (length S1) (map (norm n) d).
Proof.
  intros H1 H2 Hc. unfold index_leaf.
  rewrite count_ell_app. change (count_ell (XArr ash d :: P2)) with (count_ell P2).
  rewrite (all_full_count_ell S1 H1). cbn [Nat.add].
  destruct (Nat.ltb_spec 1 (count_ell P2)); [lia|].
  rewrite consumed_app. change (consumed (XArr ash d :: P2)) with (1 + consumed P2).
  rewrite (all_full_consumed S1 H1).
  destruct (Nat.ltb_spec (length sh) (length S1 + (1 + consumed P2))) as [|Hle]; [discriminate|].
  rewrite resolve_slices by (try assumption; lia).
  destruct (skipn (length S1) sh) as [|n rest'] eqn:Esk.
  { exfalso. assert (Hl : length (skipn (length S1) sh) = 0) by now rewrite Esk. rewrite skipn_length in Hl. lia. }
  apply skipn_cons_nth in Esk as (Hn & Hsh & Hk & Hlen).
  destruct (resolve (length sh - (length S1 + (1 + consumed P2))) (n :: rest') (XArr ash d :: P2)) as [r0|] eqn:Er; [|discriminate].
  apply resolve_arr_then_fullish in Er as [-> Hd]; try assumption; try lia.
  rewrite narr_single by (try assumption; now apply all_full_fullish).
  rewrite adjacent_single by (try assumption; now apply all_full_fullish).
  cbn [Nat.eqb orb andb]. intros Hg; inversion Hg; subst g; cbn [g_sel].
  exists n. repeat split; try assumption.
  rewrite coords_replace, dims_replace, Hsh, Hk. reflexivity.
Qed.

(* layout B: full slices, the Ellipsis, full slices, the array, full slices *)
Lemma gather_B S1 S2 ash d S3 sh g : all_full S1 -> all_full S2 -> all_full S3 ->
  index_leaf sh (S1 ++ XEll :: S2 ++ XArr ash d :: S3) = Ok (Some g) ->
  exists n, nth_error sh (length sh - S (length S3)) = Some n /\ length S3 < length sh /\ Forall (zin_range n) d /\
    g_sel g = sel_axis sh (length sh - S (length S3)) (map (norm n) d).
Proof.
  intros H1 H2 H3. unfold index_leaf.
  assert (Ec : count_ell (S1 ++ XEll :: S2 ++ XArr ash d :: S3) = 1).
  { rewrite count_ell_app. change (count_ell (XEll :: S2 ++ XArr ash d :: S3)) with (S (count_ell (S2 ++ XArr ash d :: S3))).
    rewrite count_ell_app. change (count_ell (XArr ash d :: S3)) with (count_ell S3).
    rewrite !all_full_count_ell by assumption. reflexivity. }
  assert (Es : consumed (S1 ++ XEll :: S2 ++ XArr ash d :: S3) = length S1 + length S2 + 1 + length S3).
  { rewrite consumed_app. change (consumed (XEll :: S2 ++ XArr ash d :: S3)) with (consumed (S2 ++ XArr ash d :: S3)).
    rewrite consumed_app. change (consumed (XArr ash d :: S3)) with (1 + consumed S3).
    rewrite !all_full_consumed by assumption. lia. }
  rewrite Ec, Es. change (1 <? 1) with false. cbn iota.
  destruct (Nat.ltb_spec (length sh) (length S1 + length S2 + 1 + length S3)) as [|Hle]; [discriminate|].
  set (fill := length sh - (length S1 + length S2 + 1 + length S3)).
  rewrite resolve_slices by (try assumption; lia).
  cbn [resolve]. rewrite resolve_slices by (try assumption; rewrite !skipn_length; lia).
  rewrite !skipn_skipn'.
  set (k := length S1 + (fill + length S2)).
  assert (Ek : k = length sh - S (length S3)) by (unfold k, fill; lia).
  destruct (skipn k sh) as [|n rest'] eqn:Esk.
  { exfalso. assert (Hl : length (skipn k sh) = 0) by now rewrite Esk. rewrite skipn_length in Hl. lia. }
  apply skipn_cons_nth in Esk as (Hn & Hsh & Hk & Hlen).
  destruct (resolve fill (n :: rest') (XArr ash d :: S3)) as [r0|] eqn:Er; [|discriminate].
  apply resolve_arr_then_fullish in Er as [-> Hd];
    try (now apply all_full_fullish); rewrite ?all_full_count_ell, ?all_full_consumed by assumption; try lia.
  assert (Efn : map full_ax (firstn (length S1) sh) ++ map full_ax (firstn fill (skipn (length S1) sh)) ++
                map full_ax (firstn (length S2) (skipn (length S1 + fill) sh)) = map full_ax (firstn k sh)).
  { unfold k. rewrite <- !map_app. f_equal. rewrite (firstn_add sh (length S1) (fill + length S2)).
    rewrite (firstn_add (skipn (length S1) sh) fill (length S2)). now rewrite skipn_skipn'. }
  replace (S1 ++ XEll :: S2 ++ XArr ash d :: S3) with ((S1 ++ XEll :: S2) ++ XArr ash d :: S3)
    by (now rewrite <- app_assoc).
  assert (Hf12 : Forall fullish (S1 ++ XEll :: S2)).
  { apply Forall_app. split; [now apply all_full_fullish|]. constructor; [now right|now apply all_full_fullish]. }
  rewrite narr_single by (try assumption; now apply all_full_fullish).
  rewrite adjacent_single by (try assumption; now apply all_full_fullish).
  cbn [Nat.eqb orb andb]. intros Hg; inversion Hg; subst g; cbn [g_sel].
  exists n. rewrite <- Ek. repeat split; try assumption; try lia.
  assert (Ha : forall (a b c r : list axsel), a ++ b ++ c ++ r = (a ++ b ++ c) ++ r)
    by (intros; now rewrite <- !app_assoc).
  rewrite !Ha, Efn. unfold sel_axis.
  rewrite coords_replace, dims_replace, Hsh, Hk. reflexivity.
Qed.

Lemma nonfull_single L : forall k z, nonfull_pos L k = [z] ->
  exists F1 x F2, L = F1 ++ x :: F2 /\ Forall (fun e => is_slice_all e = true) F1 /\
    Forall (fun e => is_slice_all e = true) F2 /\ is_slice_all x = false /\ z = Z.of_nat (k + length F1).
Proof.
  induction L as [|a L IH]; intros k z; cbn [nonfull_pos]; [discriminate|].
  destruct (is_slice_all a) eqn:Ea.
  - intros H. apply IH in H as (F1 & x & F2 & -> & H1 & H2 & Hx & ->).
    exists (a :: F1), x, F2. repeat split; try assumption; [now constructor|]. cbn [length]. f_equal; lia.
  - intros H. inversion H as [[Hz Hn]]. apply nonfull_pos_nil in Hn.
    exists [], a, L. repeat split; try assumption; [constructor|]. cbn [length]. f_equal; lia.
Qed.
Lemma map_abs_all_full P : Forall (fun e => is_slice_all e = true) (map abs_entry P) -> all_full P.
Proof.
  induction P as [|e P IH]; intros H; [constructor|]. inversion H; subst.
  constructor; [now apply abs_slice_all|now apply IH].
Qed.
Lemma map_abs_split l F1 x F2 : map abs_entry l = F1 ++ x :: F2 ->
  exists P1 e P2, l = P1 ++ e :: P2 /\ map abs_entry P1 = F1 /\ abs_entry e = x /\ map abs_entry P2 = F2.
Proof.
  intros E. apply map_eq_app in E as (P1 & lr & -> & E1 & E2).
  destruct lr as [|e P2]; [discriminate|]. inversion E2; subst.
  now exists P1, e, P2.
Qed.
Lemma nth_error_mid {A} (P1 : list A) e P2 : nth_error (P1 ++ e :: P2) (length P1) = Some e.
Proof. rewrite nth_error_app2 by lia. now rewrite Nat.sub_diag. Qed.

Lemma layout l axis ash d : indexed_axes (map abs_entry l) = [axis] -> py_nth l axis = Some (XArr ash d) ->
  (exists S1 P2, l = S1 ++ XArr ash d :: P2 /\ all_full S1 /\ Forall fullish P2 /\ count_ell P2 <= 1 /\
     axis = Z.of_nat (length S1)) \/
  (exists S1 S2 S3, l = S1 ++ XEll :: S2 ++ XArr ash d :: S3 /\ all_full S1 /\ all_full S2 /\ all_full S3 /\
     axis = (- Z.of_nat (S (length S3)))%Z).
Proof.
  intros H Hp. destruct (split_first_ell (map abs_entry l)) as [Hn|(pre & post & E & Hpre)].
  - rewrite indexed_axes_noell in H by assumption.
    apply nonfull_single in H as (F1 & x & F2 & EL & HF1 & HF2 & Hx & ->).
    apply map_abs_split in EL as (P1 & e & P2 & -> & <- & <- & <-).
    apply map_abs_all_full in HF1, HF2. rewrite map_length in Hp. cbn [Nat.add] in *.
    unfold py_nth in Hp. destruct (Z.leb_spec 0 (Z.of_nat (length P1))); [|lia].
    rewrite Nat2Z.id, nth_error_mid in Hp. inversion Hp; subst e.
    left. exists P1, P2. split; [reflexivity|]. split; [assumption|]. split; [now apply all_full_fullish|].
    split; [rewrite all_full_count_ell by assumption; lia|now rewrite map_length].
  - rewrite E in H. rewrite indexed_axes_ell in H by assumption.
    apply app_eq_unit in H as [[H1 H2]|[H1 H2]].
    + (* the array comes after the Ellipsis *)
      apply nonfull_pos_nil in H1.
      destruct (nonfull_pos post (S (length pre))) as [|z [|z' zs]] eqn:Ez; try discriminate.
      cbn [map] in H2. inversion H2 as [Hax]. clear H2. subst axis.
      apply nonfull_single in Ez as (F1 & x & F2 & -> & HF1 & HF2 & Hx & ->).
      apply map_abs_split in E as (Lp & e0 & Lq & -> & Ep & E0 & Eq). apply abs_ell in E0. subst e0.
      apply map_abs_split in Eq as (Q1 & e & Q2 & -> & <- & <- & <-). subst pre.
      apply map_abs_all_full in H1, HF1, HF2.
      rewrite !app_length in *. cbn [length] in *. rewrite !app_length in *. cbn [length] in *.
      rewrite !map_length in *.
      unfold py_nth in Hp. rewrite !app_length in Hp. cbn [length] in Hp. rewrite !app_length in Hp. cbn [length] in Hp.
      destruct (Z.leb_spec 0 (Z.of_nat (S (length Lp) + length Q1) - Z.of_nat (length Lp + S (length Q1 + S (length Q2))))); [lia|].
      match type of Hp with (if ?c then _ else _) = _ => destruct c eqn:Ec end; [|discriminate].
      replace (Z.to_nat _) with (length (Lp ++ XEll :: Q1)) in Hp
        by (rewrite app_length; cbn [length]; lia).
      replace (Lp ++ XEll :: Q1 ++ e :: Q2) with ((Lp ++ XEll :: Q1) ++ e :: Q2) in Hp by (now rewrite <- app_assoc).
      rewrite nth_error_mid in Hp. inversion Hp; subst e.
      right. exists Lp, Q1, Q2. split; [reflexivity|]. split; [assumption|]. split; [assumption|].
      split; [assumption|]. lia.
    + (* the array comes before the Ellipsis *)
      apply map_eq_nil in H2. apply nonfull_pos_nil in H2.
      apply nonfull_single in H1 as (F1 & x & F2 & -> & HF1 & HF2 & Hx & ->).
      rewrite <- app_assoc in E. cbn [app] in E.
      apply map_abs_split in E as (P1 & e & P2 & -> & <- & <- & Eq).
      replace (F2 ++ IEll :: post) with (F2 ++ IEll :: post) in Eq by reflexivity.
      apply map_abs_split in Eq as (P2a & e0 & Q & -> & <- & E0 & <-). apply abs_ell in E0. subst e0.
      apply map_abs_all_full in HF1, HF2, H2. rewrite map_length in Hp. cbn [Nat.add] in *.
      unfold py_nth in Hp. destruct (Z.leb_spec 0 (Z.of_nat (length P1))); [|lia].
      rewrite Nat2Z.id, nth_error_mid in Hp. inversion Hp; subst e.
      left. exists P1, (P2a ++ XEll :: Q). split; [reflexivity|]. split; [assumption|]. split; [|split; [|now rewrite map_length]].
      * apply Forall_app. split; [now apply all_full_fullish|]. constructor; [now right|now apply all_full_fullish].
      * rewrite count_ell_app. change (count_ell (XEll :: Q)) with (S (count_ell Q)).
        rewrite !all_full_count_ell by assumption. lia.
Qed.

Lemma single_array_gather l sh axis ash d n g :
  indexed_axes (map abs_entry l) = [axis] -> py_nth l axis = Some (XArr ash d) -> py_nth sh axis = Some n ->
  index_leaf sh l = Ok (Some g) ->
  let a := axis_pos (length sh) axis in
  a < length sh /\ nth a sh 0 = n /\ Forall (zin_range n) d /\ g_sel g = sel_axis sh a (map (norm n) d).
Proof.
  intros Hax Hl Hs Hg a. destruct (layout l axis ash d Hax Hl) as
    [(S1 & P2 & -> & H1 & H2 & Hc & ->)|(S1 & S2 & S3 & -> & H1 & H2 & H3 & ->)].
  - apply gather_A in Hg as (n' & Hn & Hd & Hsel); try assumption.
    unfold py_nth in Hs. destruct (Z.leb_spec 0 (Z.of_nat (length S1))); [|lia].
    rewrite Nat2Z.id, Hn in Hs. inversion Hs; subst n'.
    assert (Ea : a = length S1).
    { unfold a, axis_pos. destruct (Z.ltb_spec (Z.of_nat (length S1)) 0); lia. }
    rewrite Ea. repeat split; try assumption.
    + apply nth_error_Some. congruence.
    + now apply nth_error_nth.
  - apply gather_B in Hg as (n' & Hn & Hlt & Hd & Hsel); try assumption.
    assert (Ea : a = length sh - S (length S3)).
    { unfold a, axis_pos. destruct (Z.ltb_spec (- Z.of_nat (S (length S3))) 0); lia. }
    unfold py_nth in Hs. destruct (Z.leb_spec 0 (- Z.of_nat (S (length S3)))); [lia|].
    destruct (Z.leb_spec 0 (Z.of_nat (length sh) + - Z.of_nat (S (length S3)))); [|lia].
    replace (Z.to_nat _) with (length sh - S (length S3)) in Hs by lia.
    rewrite Hn in Hs. inversion Hs; subst n'.
    rewrite Ea. repeat split; try assumption.
    + lia.
    + now apply nth_error_nth.
Qed.

Section Lin3.
  Variable K : Type.
  Variables (k0 k1 : K) (kadd kmul ksub : K -> K -> K) (kopp : K -> K).
  Hypothesis Kth : ring_theory k0 k1 kadd kmul ksub kopp (@eq K).

  (* whenever TransposeIndexRule fires, the diagonal operator it builds equals P^T P on every leaf
     (all leaves have the first leaf's shape) on which the index expression evaluates *)
  Lemma PtP_rule_sound_full o axis cov sh g x p :
    TransposeIndex_rule o = Ok (Some (axis, cov)) -> In sh (i_in o) ->
    index_leaf sh (i_ix o) = Ok (Some g) -> p < prod sh ->
    let a := axis_pos (length sh) axis in
    let v := map (fun c => nat_mul k0 kadd (Z.to_nat c) k1) cov in
    nth p (scatter_add k0 kadd (prod sh) (g_sel g) (gather_data k0 (g_sel g) x)) k0 =
    nth p (diag_along k0 kmul sh a v x) k0.
  Proof.
    intros Hr Hin Hg Hp a v.
    apply TransposeIndex_rule_inv in Hr as (_ & Hax & sh0 & rest & ash & d & n & Ein & Hall & Hix & Hn & ->).
    assert (sh = sh0).
    { rewrite Ein in Hin. destruct Hin as [<-|Hin]; [reflexivity|].
      rewrite forallb_forall in Hall. symmetry. now apply sh_eqb_eq, Hall. }
    subst sh0.
    destruct (single_array_gather _ _ _ _ _ _ _ Hax Hix Hn Hg) as (Ha & Hnth & Hd & Hsel).
    fold a in Ha, Hnth, Hsel. rewrite Hsel. subst n. unfold v.
    apply (PtP_rule_sound_l K k0 k1 kadd kmul ksub kopp Kth); assumption.
  Qed.
End Lin3.

(* ============================================================================================ *)
(* Part 7: two or more array entries (index_adv): positions in range, and pairwise distinct when no
   integer array takes part *)

Lemma otl_nth_error_flat {A} (l : list A) : flat_map (fun k => otl (nth_error l k)) (seq 0 (length l)) = l.
Proof.
  induction l as [|a l IH]; [reflexivity|].
  cbn [length seq flat_map nth_error otl app]. f_equal.
  rewrite <- seq_shift, flat_map_concat_map, map_map, <- flat_map_concat_map. exact IH.
Qed.
Lemma Forall_takewhile {A} (P : A -> Prop) f l : Forall P l -> Forall P (takewhile f l).
Proof. induction 1 as [|x l Hx _ IH]; cbn; [constructor|]. destruct (f x); [now constructor|constructor]. Qed.
Lemma Forall_dropwhile {A} (P : A -> Prop) f l : Forall P l -> Forall P (dropwhile f l).
Proof. induction 1 as [|x l Hx Hl IH]; cbn; [constructor|]. destruct (f x); [assumption|now constructor]. Qed.
Lemma takewhile_dropwhile {A} (f : A -> bool) l : takewhile f l ++ dropwhile f l = l.
Proof. induction l as [|x l IH]; cbn; [reflexivity|]. destruct (f x); cbn; [now rewrite IH|reflexivity]. Qed.
Lemma prod_app a b : prod (a ++ b) = prod a * prod b.
Proof. unfold prod. induction a as [|x a IH]; cbn [app fold_right]; [lia|rewrite IH; lia]. Qed.

Lemma bc_data_in B a x : In x (bc_data B a) -> In x (a_coords a).
Proof.
  unfold bc_data. intros H. apply in_flat_map in H as [p [_ H]].
  destruct (nth_error (a_coords a) p) as [c|] eqn:E; cbn in H; [|contradiction].
  destruct H as [<-|[]]. eapply nth_error_In; eassumption.
Qed.
Lemma sub_k_in B k a x : In x (sub_k B k a) -> In x (a_coords a).
Proof.
  unfold sub_k. destruct (ax_adv a); [|trivial].
  destruct (nth_error (bc_data B a) k) as [c|] eqn:E; cbn; [|contradiction].
  intros [<-|[]]. eapply bc_data_in, nth_error_In; eassumption.
Qed.
Lemma sub_k_nodup B k a : (ax_adv a = false -> NoDup (a_coords a)) -> NoDup (sub_k B k a).
Proof.
  unfold sub_k. destruct (ax_adv a); [|auto]. intros _.
  destruct (nth_error (bc_data B a) k); cbn; repeat constructor. intros [].
Qed.
Lemma sub_k_inb B k axs : Forall ax_inb axs -> inb (map a_dim axs) (map (sub_k B k) axs).
Proof.
  induction 1 as [|a axs Ha _ IH]; cbn; constructor; [|exact IH].
  unfold ax_inb in Ha. rewrite Forall_forall in *. intros x Hx. apply Ha. eapply sub_k_in; eassumption.
Qed.

Lemma front_sel_lt B axs : Forall ax_inb axs -> Forall (fun q => q < prod (map a_dim axs)) (front_sel B axs).
Proof.
  intros H. unfold front_sel. rewrite Forall_forall. intros q Hq.
  apply in_flat_map in Hq as [k [_ Hq]].
  assert (G := outer_lt _ _ (sub_k_inb B k axs H)). rewrite Forall_forall in G. now apply G.
Qed.

(* the multiplicity of a flat position is bounded by the multiplicity of ONE of its coordinates, when
   the other axes select distinct coordinates *)
Lemma prodcount_key d1 : forall n d2 x, exists d, forall c1 c c2, length c1 = length d1 ->
  Forall (fun c => NoDup c) c1 -> Forall (fun c => NoDup c) c2 ->
  prodcount (d1 ++ n :: d2) (c1 ++ c :: c2) x <= cnt c d.
Proof.
  induction d1 as [|m d1 IH]; intros n d2 x.
  - exists (x / prod d2). intros c1 c c2 Hl _ H2. destruct c1; [|discriminate]. cbn [app prodcount].
    assert (G := prodcount_le1 d2 c2 (x mod prod d2) H2). nia.
  - destruct (IH n d2 (x mod prod (d1 ++ n :: d2))) as [d Hd]. exists d.
    intros c1 c c2 Hl H1 H2. destruct c1 as [|c0 c1]; [discriminate|]. cbn [app prodcount].
    inversion H1; subst. injection Hl as Hl.
    assert (G := Hd c1 c c2 Hl H4 H2). assert (G0 := nodup_cnt_le1 c0 (x / prod (d1 ++ n :: d2)) H3). nia.
Qed.

Lemma sumn_le {A} (f g : A -> nat) l : (forall x, In x l -> f x <= g x) -> sumn (map f l) <= sumn (map g l).
Proof.
  induction l as [|a l IH]; intros H; cbn; [lia|]. fold (sumn (map f l)) (sumn (map g l)).
  assert (f a <= g a) by (apply H; now left). assert (sumn (map f l) <= sumn (map g l)) by (apply IH; intros; apply H; now right). lia.
Qed.

(* the broadcast-first enumeration never repeats a position when the basic axes select distinct
   coordinates and ONE advanced axis carries pairwise distinct values over the whole of B *)
Lemma front_nodup B axs : Forall ax_inb axs ->
  (forall a, In a axs -> ax_adv a = false -> NoDup (a_coords a)) ->
  (prod B <= 1 \/ exists a, In a axs /\ ax_adv a = true /\ NoDup (a_coords a) /\
                          bc_data B a = a_coords a /\ length (a_coords a) = prod B) ->
  NoDup (front_sel B axs).
Proof.
  intros Hinb Hbasic Hkey.
  assert (Hnd : forall k, Forall (fun c => NoDup c) (map (sub_k B k) axs)).
  { intros k. rewrite Forall_forall. intros c Hc. apply in_map_iff in Hc as [a [<- Ha]].
    apply sub_k_nodup. auto. }
  destruct Hkey as [Hsmall|(a & Ha & Hadv & Hnda & Hbc & Hlen)].
  - unfold front_sel. destruct (prod B) as [|[|n]]; [constructor| |lia].
    cbn [seq flat_map]. rewrite app_nil_r. apply NoDup_outer; [now apply sub_k_inb|apply Hnd].
  - apply cnt_le1_nodup. intros x. unfold front_sel. rewrite cnt_flat_map.
    apply in_split in Ha as (pre & post & ->).
    destruct (prodcount_key (map a_dim pre) (a_dim a) (map a_dim post) x) as [d Hd].
    eapply Nat.le_trans.
    + apply (sumn_le _ (fun k => cnt (otl (nth_error (a_coords a) k)) d)). intros k _.
      rewrite cnt_outer by (now apply sub_k_inb).
      rewrite !map_app. cbn [map]. specialize (Hnd k). rewrite map_app in Hnd. cbn [map] in Hnd.
      apply Forall_app in Hnd as [Hn1 Hn2]. inversion Hn2; subst.
      replace (otl (nth_error (a_coords a) k)) with (sub_k B k a).
      2:{ unfold sub_k. now rewrite Hadv, Hbc. }
      apply Hd; [now rewrite !map_length|assumption|assumption].
    + rewrite <- Hlen. rewrite <- cnt_flat_map. rewrite otl_nth_error_flat. now apply nodup_cnt_le1.
Qed.

(* an index array of the broadcast shape itself is not changed by the broadcast *)
Lemma map2_diag B : map2 (fun n m => if n =? m then seq 0 m else repeat 0 m) B B = map (fun n => seq 0 n) B.
Proof. induction B as [|n B IH]; cbn; [reflexivity|]. now rewrite Nat.eqb_refl, IH. Qed.
Lemma bc_data_same B a : a_out a = B -> length (a_coords a) = prod B -> bc_data B a = a_coords a.
Proof.
  intros Ho Hl. unfold bc_data. rewrite Ho, Nat.sub_diag. cbn [repeat app].
  rewrite map2_diag, outer_full, <- Hl. apply otl_nth_error_flat.
Qed.

(* ---- tuples without integer array: ints, slices, Ellipsis, masks ---- *)
Definition ax_m (a : axsel) : Prop :=
  ax_ok a /\ length (a_coords a) = prod (a_out a) /\ length (a_out a) <= 1.

Lemma full_ax_m n : ax_m (full_ax n).
Proof. split; [apply full_ax_ok|]. cbn. rewrite seq_length. split; lia. Qed.
Lemma resolve_entry_m dims e a dims' : is_basic_or_mask e = true ->
  resolve_entry dims e = Ok (a, dims') -> ax_m a.
Proof.
  intros Hb H. split; [eapply resolve_entry_ok; eassumption|].
  destruct e as [z|s1 s2 s3| |ash d|msh b]; cbn [resolve_entry] in H; try discriminate.
  - destruct dims as [|n rest]; [discriminate|]. destruct (in_range n z); [|discriminate].
    inversion H; subst; cbn. split; lia.
  - destruct dims as [|n rest]; [discriminate|]. destruct (slice_coords n s1 s2 s3) as [cs|] eqn:E; [|discriminate].
    inversion H; subst; cbn. split; lia.
  - destruct ((length msh =? 0) || negb (length b =? prod msh)); [discriminate|].
    destruct (sh_eqb (firstn (length msh) dims) msh); [|discriminate].
    inversion H; subst; cbn. split; lia.
Qed.
Lemma resolve_m fill l : forallb is_basic_or_mask l = true ->
  forall dims axs, resolve fill dims l = Ok axs -> Forall ax_m axs.
Proof.
  induction l as [|e l IH]; intros Hb dims axs; cbn [resolve].
  - intros H; inversion H; subst. rewrite Forall_forall. intros a Ha.
    apply in_map_iff in Ha as [n [<- _]]. apply full_ax_m.
  - cbn [forallb] in Hb. apply andb_true_iff in Hb as [Hb1 Hb2].
    assert (G : forall r, match resolve_entry dims e with
               | Ok (a, dims') => match resolve fill dims' l with Ok r => Ok (a :: r) | Err e0 => Err e0 end
               | Err e0 => Err e0 end = Ok r -> Forall ax_m r).
    { intros r. destruct (resolve_entry dims e) as [[a dims']|] eqn:E; [|discriminate].
      destruct (resolve fill dims' l) as [r'|] eqn:E'; [|discriminate].
      intros H; inversion H; subst. constructor; [eapply resolve_entry_m; eassumption|eapply IH; eassumption]. }
    destruct e; try exact (G axs).
    destruct (resolve fill (skipn fill dims) l) as [r|] eqn:E; [|discriminate].
    intros H; inversion H; subst. apply Forall_app. split; [|eapply IH; eassumption].
    rewrite Forall_forall. intros a Ha. apply in_map_iff in Ha as [n [<- _]]. apply full_ax_m.
Qed.

(* broadcasting shapes of rank <= 1 (ints: (), masks: (count,)): the result has at most one element,
   or is the shape of one of the operands *)
Lemma bshape_small s t B : length s <= 1 -> length t <= 1 -> bshape s t = Some B ->
  length B <= 1 /\ (prod B <= 1 \/ B = s \/ B = t).
Proof.
  intros Hs Ht. destruct s as [|x [|? ?]]; [| |cbn in Hs; lia]; (destruct t as [|y [|? ?]]; [| |cbn in Ht; lia]);
    unfold bshape; cbn.
  - intros H; inversion H; subst; cbn. split; [lia|]. left; lia.
  - intros H; inversion H; subst; cbn. split; [lia|]. right; now right.
  - intros H; inversion H; subst; cbn. split; [lia|]. right; now left.
  - destruct (Nat.eqb_spec x y) as [->|Hne].
    + intros H; inversion H; subst; cbn. split; [lia|]. right; now left.
    + destruct (Nat.eqb_spec x 1) as [->|Hx].
      * intros H; inversion H; subst; cbn. split; [lia|]. right; now right.
      * destruct (Nat.eqb_spec y 1) as [->|Hy]; [|discriminate].
        intros H; inversion H; subst; cbn. split; [lia|]. right; now left.
Qed.
Lemma bshapes_small l : forall B, Forall (fun s => length s <= 1) l -> bshapes l = Some B ->
  length B <= 1 /\ (prod B <= 1 \/ In B l).
Proof.
  induction l as [|s l IH]; intros B Hl; cbn [bshapes].
  - intros H; inversion H; subst; cbn. split; [lia|]. left; lia.
  - inversion Hl as [|? ? Hs Hl']; subst. destruct (bshapes l) as [t|] eqn:E; [|discriminate]. intros H.
    destruct (IH t Hl' eq_refl) as [Ht Hin].
    destruct (bshape_small s t B Hs Ht H) as [HB [Hp|[->| ->]]].
    + split; [assumption|now left].
    + split; [assumption|]. right; now left.
    + split; [assumption|]. destruct Hin as [Hp|Hin]; [now left|right; now right].
Qed.

Lemma ax_m_inb axs : Forall ax_m axs -> Forall ax_inb axs.
Proof. apply Forall_impl. now intros a [[_ H] _]. Qed.
Lemma ax_m_ok axs : Forall ax_m axs -> Forall ax_ok axs.
Proof. apply Forall_impl. now intros a [H _]. Qed.

Lemma front_nodup_m axs B : Forall ax_m axs -> adv_shape axs = Some B -> NoDup (front_sel B axs).
Proof.
  intros Hm HB. apply front_nodup.
  - now apply ax_m_inb.
  - intros a Ha _. rewrite Forall_forall in Hm. now destruct (Hm a Ha) as [[? _] _].
  - unfold adv_shape in HB. apply bshapes_small in HB as [_ [Hp|Hin]].
    + now left.
    + right. apply in_map_iff in Hin as [a [Ho Ha]]. apply filter_In in Ha as [Ha Hadv].
      rewrite Forall_forall in Hm. destruct (Hm a Ha) as [[Hnd _] [Hl _]].
      exists a. repeat split; try assumption.
      * apply bc_data_same; [assumption|now rewrite <- Ho].
      * now rewrite <- Ho.
    + rewrite Forall_forall. intros s Hs. apply in_map_iff in Hs as [a [<- Ha]].
      apply filter_In in Ha as [Ha _]. rewrite Forall_forall in Hm. now destruct (Hm a Ha) as [_ [_ ?]].
Qed.

Lemma adv_gather_nodup adj axs g : Forall ax_m axs -> adv_gather adj axs = Ok g -> NoDup (g_sel g).
Proof.
  intros Hm. unfold adv_gather. destruct adj.
  - set (pre := takewhile ax_basic axs). set (rest := dropwhile ax_basic axs).
    set (blk := takewhile ax_adv rest). set (post := dropwhile ax_adv rest).
    destruct (adv_shape blk) as [B|] eqn:EB; [|discriminate].
    intros H; inversion H; subst; cbn [g_sel]. clear H.
    assert (Hpre : Forall ax_m pre) by (now apply Forall_takewhile).
    assert (Hrest : Forall ax_m rest) by (now apply Forall_dropwhile).
    assert (Hblk : Forall ax_m blk) by (now apply Forall_takewhile).
    assert (Hpost : Forall ax_m post) by (now apply Forall_dropwhile).
    assert (Hmerged : ax_ok (mkAx (prod (map a_dim blk)) (front_sel B blk) B KArr)).
    { split; cbn; [now apply front_nodup_m|apply front_sel_lt; now apply ax_m_inb]. }
    assert (Hall : Forall ax_ok (pre ++ mkAx (prod (map a_dim blk)) (front_sel B blk) B KArr :: post)).
    { apply Forall_app. split; [now apply ax_m_ok|]. constructor; [assumption|now apply ax_m_ok]. }
    apply NoDup_outer; [apply inb_of_axs, ax_ok_inb, Hall|apply nodup_of_axs, Hall].
  - destruct (adv_shape axs) as [B|] eqn:EB; [|discriminate].
    intros H; inversion H; subst; cbn [g_sel]. now apply front_nodup_m.
Qed.

Lemma prod_merge pre blk post m : a_dim m = prod (map a_dim blk) ->
  prod (map a_dim (pre ++ m :: post)) = prod (map a_dim (pre ++ blk ++ post)).
Proof.
  intros E. rewrite !map_app, !prod_app. cbn [map]. change (prod (a_dim m :: map a_dim post)) with (a_dim m * prod (map a_dim post)).
  now rewrite E.
Qed.
Lemma adv_gather_lt adj axs g : Forall ax_inb axs -> adv_gather adj axs = Ok g ->
  Forall (fun q => q < prod (map a_dim axs)) (g_sel g).
Proof.
  intros Hm. unfold adv_gather. destruct adj.
  - set (pre := takewhile ax_basic axs). set (rest := dropwhile ax_basic axs).
    set (blk := takewhile ax_adv rest). set (post := dropwhile ax_adv rest).
    destruct (adv_shape blk) as [B|] eqn:EB; [|discriminate].
    intros H; inversion H; subst; cbn [g_sel]. clear H.
    assert (Hpre : Forall ax_inb pre) by (now apply Forall_takewhile).
    assert (Hrest : Forall ax_inb rest) by (now apply Forall_dropwhile).
    assert (Hblk : Forall ax_inb blk) by (now apply Forall_takewhile).
    assert (Hpost : Forall ax_inb post) by (now apply Forall_dropwhile).
    assert (Hall : Forall ax_inb (pre ++ mkAx (prod (map a_dim blk)) (front_sel B blk) B KArr :: post)).
    { apply Forall_app. split; [assumption|]. constructor; [|assumption]. unfold ax_inb; cbn. now apply front_sel_lt. }
    assert (G := outer_lt _ _ (inb_of_axs _ Hall)).
    assert (E : axs = pre ++ blk ++ post).
    { unfold pre, blk, post, rest. now rewrite !takewhile_dropwhile. }
    clearbody pre rest blk post. subst axs.
    rewrite (prod_merge pre blk post) in G by reflexivity. exact G.
  - destruct (adv_shape axs) as [B|] eqn:EB; [|discriminate].
    intros H; inversion H; subst; cbn [g_sel]. now apply front_sel_lt.
Qed.

(* the resolved axes tile the leaf: the product of the (merged) dimensions is the size of the leaf *)
Lemma resolve_entry_prod dims e a dims' : resolve_entry dims e = Ok (a, dims') -> a_dim a * prod dims' = prod dims.
Proof.
  destruct e as [z|s1 s2 s3| |ash d|msh b]; cbn [resolve_entry].
  - destruct dims as [|n rest]; [discriminate|]. destruct (in_range n z); [|discriminate].
    intros H; inversion H; subst; reflexivity.
  - destruct dims as [|n rest]; [discriminate|]. destruct (slice_coords n s1 s2 s3); [|discriminate].
    intros H; inversion H; subst; reflexivity.
  - discriminate.
  - destruct dims as [|n rest]; [discriminate|]. destruct (negb (length d =? prod ash)); [discriminate|].
    destruct (forallb (in_range n) d); [|discriminate]. intros H; inversion H; subst; reflexivity.
  - destruct ((length msh =? 0) || negb (length b =? prod msh)); [discriminate|].
    destruct (sh_eqb (firstn (length msh) dims) msh) eqn:E; [|discriminate].
    intros H; inversion H; subst; cbn [a_dim]. apply sh_eqb_eq in E.
    rewrite <- E at 1. rewrite <- prod_app. now rewrite firstn_skipn.
Qed.
Lemma resolve_prod fill l : forall dims axs, resolve fill dims l = Ok axs -> prod (map a_dim axs) = prod dims.
Proof.
  induction l as [|e l IH]; intros dims axs; cbn [resolve].
  - intros H; inversion H; subst. now rewrite full_ax_dims.
  - assert (G : forall r, match resolve_entry dims e with
               | Ok (a, dims') => match resolve fill dims' l with Ok r => Ok (a :: r) | Err e0 => Err e0 end
               | Err e0 => Err e0 end = Ok r -> prod (map a_dim r) = prod dims).
    { intros r. destruct (resolve_entry dims e) as [[a dims']|] eqn:E; [|discriminate].
      destruct (resolve fill dims' l) as [r'|] eqn:E'; [|discriminate].
      intros H; inversion H; subst. cbn [map prod fold_right]. fold (prod (map a_dim r')).
      rewrite (IH _ _ E'). eapply resolve_entry_prod; eassumption. }
    destruct e; try exact (G axs).
    destruct (resolve fill (skipn fill dims) l) as [r|] eqn:E; [|discriminate].
    intros H; inversion H; subst. rewrite map_app, prod_app, full_ax_dims, (IH _ _ E), <- prod_app.
    now rewrite firstn_skipn.
Qed.

(* ---- leaf_gather: every tuple (index_leaf for at most one array entry, index_adv beyond) ---- *)
Lemma index_adv_nodup sh l g : forallb is_basic_or_mask l = true -> index_adv sh l = Ok g -> NoDup (g_sel g).
Proof.
  intros Hb. unfold index_adv. destruct (1 <? count_ell l); [discriminate|].
  destruct (length sh <? consumed l); [discriminate|].
  destruct (resolve (length sh - consumed l) sh l) as [axs|] eqn:E; [|discriminate].
  apply adv_gather_nodup. eapply resolve_m; eassumption.
Qed.
Lemma index_adv_lt sh l g : index_adv sh l = Ok g -> Forall (fun q => q < prod sh) (g_sel g).
Proof.
  unfold index_adv. destruct (1 <? count_ell l); [discriminate|].
  destruct (length sh <? consumed l); [discriminate|].
  destruct (resolve (length sh - consumed l) sh l) as [axs|] eqn:E; [|discriminate].
  intros H. rewrite <- (resolve_prod _ _ _ _ E). eapply adv_gather_lt; [|eassumption].
  eapply resolve_inb; eassumption.
Qed.
Lemma index_leaf_lt sh l g : index_leaf sh l = Ok (Some g) -> Forall (fun q => q < prod sh) (g_sel g).
Proof.
  intros H. apply index_leaf_perm in H as [axs [Hr Hp]].
  rewrite Forall_forall. intros q Hq. eapply Permutation_in in Hq; [|exact Hp].
  rewrite <- (resolve_prod _ _ _ _ Hr).
  assert (G := outer_lt _ _ (inb_of_axs _ (resolve_inb _ _ _ _ Hr))). rewrite Forall_forall in G. now apply G.
Qed.

Lemma leaf_gather_inv sh l g : leaf_gather sh l = Ok g ->
  index_leaf sh l = Ok (Some g) \/ (index_leaf sh l = Ok None /\ index_adv sh l = Ok g).
Proof.
  unfold leaf_gather. destruct (index_leaf sh l) as [[g'|]|]; [|auto|discriminate].
  intros H; inversion H; subst. now left.
Qed.
Lemma leaf_gather_in_range sh l g : leaf_gather sh l = Ok g -> Forall (fun q => q < prod sh) (g_sel g).
Proof. intros H. apply leaf_gather_inv in H as [H|[_ H]]; [eapply index_leaf_lt; eassumption|eapply index_adv_lt; eassumption]. Qed.
Lemma unique_inference_sound_all sh l g : infer_unique l None = true ->
  leaf_gather sh l = Ok g -> NoDup (g_sel g).
Proof.
  intros Hu H. apply leaf_gather_inv in H as [H|[_ H]]; [eapply unique_inference_sound_l; eassumption|].
  unfold infer_unique in Hu. destruct (forallb is_basic_or_mask l) eqn:Hb; [|discriminate].
  eapply index_adv_nodup; eassumption.
Qed.

(* ---- the data-level theorems, instantiated on the gather of ANY index tuple ---- *)
Section Lin4.
  Variable K : Type.
  Variables (k0 k1 : K) (kadd kmul ksub : K -> K -> K) (kopp : K -> K).
  Hypothesis Kth : ring_theory k0 k1 kadd kmul ksub kopp (@eq K).

  Lemma leaf_adjoint_l sh l g (x y : list K) : leaf_gather sh l = Ok g -> length x = prod sh ->
    dot k0 kadd kmul (gather_data k0 (g_sel g) x) y = dot k0 kadd kmul x (scatter_add k0 kadd (prod sh) (g_sel g) y).
  Proof. intros _ <-. apply (adjoint_l K k0 k1 kadd kmul ksub kopp Kth). Qed.

  Lemma leaf_PPt_identity_iff_l sh l g : k1 <> k0 -> leaf_gather sh l = Ok g ->
    ((forall y, length y = length (g_sel g) ->
        gather_data k0 (g_sel g) (scatter_add k0 kadd (prod sh) (g_sel g) y) = y) <-> NoDup (g_sel g)).
  Proof.
    intros Hk H. apply (PPt_identity_iff_l K k0 k1 kadd kmul ksub kopp Kth Hk).
    eapply leaf_gather_in_range; eassumption.
  Qed.

  (* IndexTransposeRule on an operator whose flag was INFERRED: P P^T really is the identity *)
  Lemma leaf_PPt_inferred_l sh l g y : k1 <> k0 -> infer_unique l None = true -> leaf_gather sh l = Ok g ->
    length y = length (g_sel g) ->
    gather_data k0 (g_sel g) (scatter_add k0 kadd (prod sh) (g_sel g) y) = y.
  Proof.
    intros Hk Hu H. apply (leaf_PPt_identity_iff_l sh l g Hk H). eapply unique_inference_sound_all; eassumption.
  Qed.
End Lin4.


(* the presence of a mask alone does not make a selection injective: a mask with one True entry next to an
   integer array that repeats a value selects an element twice (the inference "unique as soon as there is a
   mask" would be unsound; the code's inference answers False here) *)
Lemma unique_if_any_mask_refuted_l : exists sh l g, existsb is_mask l = true /\ leaf_gather sh l = Ok g /\
  ~ NoDup (g_sel g) /\ infer_unique l None = false.
Proof.
  exists [2; 3], [XMask [2] [true; false]; XArr [2] [1; 1]%Z], (mkG [2] [1; 1]).
  repeat split; try reflexivity.
  cbn. intros H. inversion H as [|? ? Hn _]; subst. apply Hn. now left.
Qed.
