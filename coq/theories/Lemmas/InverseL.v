(* C06 - proofs about inverse() (Model/Inverse.v): closed forms over a field, Moore-Penrose
   conditions of the diagonal pseudo-inverse, block-diagonal inversion over any container, the
   general two-sided-inverse theorem under leaf facts, X.I.I, refusal of non-square operands, the
   certified matrix inverse behind the as_matrix() override of lazy inverses. *)
From Coq Require Import List Bool Arith ZArith NArith QArith Qcanon String Lia Ring Field.
From Furax Require Import Base.Pytree Model.Op Model.Algebra Model.Denote Model.Wf Model.Exec Model.Inverse
  Lemmas.DenoteL Lemmas.Sound Lemmas.MuellerExecL.
Import ListNotations.
Local Close Scope Q_scope.
Local Close Scope Qc_scope.
Local Open Scope nat_scope.

Section InvL.
  Variable K : Type.
  Variables (k0 k1 : K) (kadd kmul ksub : K -> K -> K) (kopp : K -> K) (kdiv : K -> K -> K) (kinv : K -> K).
  Hypothesis Fth : field_theory k0 k1 kadd kmul ksub kopp kdiv kinv (@eq K).
  Let Kth : ring_theory k0 k1 kadd kmul ksub kopp (@eq K) := F_R Fth.
  Add Field Kfield : Fth.
  Variable keqb : K -> K -> bool.
  Hypothesis keqb_spec : forall a b, keqb a b = true <-> a = b.
  Notation op := (op K).
  Notation value := (value K).
  Notation vscale := (vscale kmul).
  Notation pinv := (pinv K keqb k0 kinv).
  Notation emul := (emul K kmul).
  Notation nonzero := (nonzero K keqb k0).

  Lemma keqb_eq a b : keqb a b = true -> a = b.
  Proof. apply keqb_spec. Qed.
  Lemma keqb_false a b : keqb a b = false -> a <> b.
  Proof. intros H E. apply keqb_spec in E. congruence. Qed.
  Lemma keqb_refl a : keqb a a = true.
  Proof. now apply keqb_spec. Qed.

  (* ---------- scalars ---------- *)
  Lemma kinv_l k : k <> k0 -> kmul (kinv k) k = k1.
  Proof. intros H. field. exact H. Qed.
  Lemma kinv_r k : k <> k0 -> kmul k (kinv k) = k1.
  Proof. intros H. field. exact H. Qed.
  Lemma kinv_nonzero k : k <> k0 -> kinv k <> k0.
  Proof.
    intros H E. pose proof (kinv_l k H) as H1. rewrite E in H1.
    assert (H0 : kmul k0 k = k0) by ring. rewrite H0 in H1. exact (F_1_neq_0 Fth (eq_sym H1)).
  Qed.
  Lemma kinv_kinv k : k <> k0 -> kinv (kinv k) = k.
  Proof. intros H. field. split; [exact H|]. intros E. exact (F_1_neq_0 Fth E). Qed.

  Lemma vscale_inv_l k (x : value) : k <> k0 -> vscale (kinv k) (vscale k x) = x.
  Proof. intros H. rewrite (vscale_vscale Kth), kinv_l by exact H. apply (vscale_one Kth). Qed.
  Lemma vscale_inv_r k (x : value) : k <> k0 -> vscale k (vscale (kinv k) x) = x.
  Proof. intros H. rewrite (vscale_vscale Kth), kinv_r by exact H. apply (vscale_one Kth). Qed.

  (* ---------- the pseudo-inverse of a scalar and of a diagonal (as a vector) ---------- *)
  Lemma pinv_zero : pinv k0 = k0.
  Proof. unfold Inverse.pinv. now rewrite keqb_refl. Qed.
  Lemma pinv_regular k : k <> k0 -> pinv k = kinv k.
  Proof. intros H. unfold Inverse.pinv. destruct (keqb k k0) eqn:E; [apply keqb_eq in E; contradiction|reflexivity]. Qed.
  (* no cut-off: a non-zero entry, however small, is inverted - where(d != 0, 1/d, 0) is zero exactly at
     the zeros of d *)
  Lemma pinv_nonzero k : k <> k0 -> pinv k <> k0.
  Proof. intros H. rewrite pinv_regular by exact H. now apply kinv_nonzero. Qed.
  Lemma pinv_zero_iff k : pinv k = k0 <-> k = k0.
  Proof.
    split; [|intros ->; apply pinv_zero]. intros E.
    destruct (keqb k k0) eqn:Ek; [now apply keqb_eq|]. apply keqb_false in Ek.
    exfalso. exact (pinv_nonzero k Ek E).
  Qed.
  (* where(d != 0, 1/d, 0) * d: 0 on zeros, 1 elsewhere *)
  Lemma pinv_mul k : kmul (pinv k) k = if keqb k k0 then k0 else k1.
  Proof.
    unfold Inverse.pinv. destruct (keqb k k0) eqn:E; [ring|]. apply kinv_l. now apply keqb_false.
  Qed.
  Lemma pinv_apa k : kmul (kmul k (pinv k)) k = k.
  Proof.
    unfold Inverse.pinv. destruct (keqb k k0) eqn:E.
    - apply keqb_eq in E. subst. ring.
    - apply keqb_false in E. field. exact E.
  Qed.
  Lemma pinv_pap k : kmul (kmul (pinv k) k) (pinv k) = pinv k.
  Proof.
    unfold Inverse.pinv. destruct (keqb k k0) eqn:E.
    - ring.
    - apply keqb_false in E. field. exact E.
  Qed.
  (* the pseudo-inverse of the pseudo-inverse is the diagonal itself: D.I.I = D at value level *)
  Lemma pinv_pinv k : pinv (pinv k) = k.
  Proof.
    unfold Inverse.pinv at 2. destruct (keqb k k0) eqn:E.
    - apply keqb_eq in E. subst. apply pinv_zero.
    - apply keqb_false in E. rewrite pinv_regular by now apply kinv_nonzero. now apply kinv_kinv.
  Qed.

  Lemma emul_length d x : List.length (emul d x) = Nat.min (List.length d) (List.length x).
  Proof. unfold Inverse.emul. now rewrite map_length, combine_length. Qed.
  Lemma nonzero_cons a d : nonzero (a :: d) = true -> a <> k0 /\ nonzero d = true.
  Proof.
    unfold Inverse.nonzero. cbn [forallb]. intros H. apply andb_true_iff in H as [H1 H2].
    split; [|exact H2]. apply keqb_false. now apply negb_true_iff.
  Qed.
  (* diag_inv, value level: every entry non-zero -> the inverse diagonal undoes the diagonal, both ways *)
  Lemma emul_pinv_l d : forall x, nonzero d = true -> List.length x = List.length d ->
    emul (map pinv d) (emul d x) = x.
  Proof.
    induction d as [|a d IH]; intros [|b x] Hn Hl; cbn in Hl; try discriminate; [reflexivity|].
    apply nonzero_cons in Hn as [Ha Hd]. unfold Inverse.emul in *. cbn [map combine fst snd].
    f_equal; [|apply IH; [exact Hd|lia]]. rewrite pinv_regular by exact Ha. field. exact Ha.
  Qed.
  Lemma emul_pinv_r d : forall x, nonzero d = true -> List.length x = List.length d ->
    emul d (emul (map pinv d) x) = x.
  Proof.
    induction d as [|a d IH]; intros [|b x] Hn Hl; cbn in Hl; try discriminate; [reflexivity|].
    apply nonzero_cons in Hn as [Ha Hd]. unfold Inverse.emul in *. cbn [map combine fst snd].
    f_equal; [|apply IH; [exact Hd|lia]]. rewrite pinv_regular by exact Ha. field. exact Ha.
  Qed.
  (* with zeros: the composite is the projection on the non-zero entries *)
  Lemma emul_pinv_proj d : forall x, List.length x = List.length d ->
    emul (map pinv d) (emul d x) = emul (map (fun k => if keqb k k0 then k0 else k1) d) x.
  Proof.
    induction d as [|a d IH]; intros [|b x] Hl; cbn in Hl; try discriminate; [reflexivity|].
    unfold Inverse.emul in *. cbn [map combine fst snd]. f_equal; [|apply IH; lia].
    transitivity (kmul (kmul (pinv a) a) b); [ring|]. now rewrite pinv_mul.
  Qed.
  Lemma emul_apa d : emul (emul d (map pinv d)) d = d.
  Proof. induction d as [|a d IH]; [reflexivity|]. unfold Inverse.emul in *. cbn [map combine fst snd]. f_equal; [apply pinv_apa|exact IH]. Qed.
  Lemma emul_pap d : emul (emul (map pinv d) d) (map pinv d) = map pinv d.
  Proof. induction d as [|a d IH]; [reflexivity|]. unfold Inverse.emul in *. cbn [map combine fst snd]. f_equal; [apply pinv_pap|exact IH]. Qed.
  Lemma emul_comm a : forall b, emul a b = emul b a.
  Proof. induction a as [|x a IH]; intros [|y b]; try reflexivity. unfold Inverse.emul in *. cbn [map combine fst snd]. f_equal; [ring|apply IH]. Qed.
  Lemma map_pinv_pinv d : map pinv (map pinv d) = d.
  Proof. rewrite map_map. rewrite <- (map_id d) at 2. apply map_ext. intros; apply pinv_pinv. Qed.

  (* ---------- QU rotations: the transpose is the inverse when c^2 + s^2 = 1 ---------- *)
  Notation rot1 := (rot1 K kadd kmul kopp).
  Notation rotl := (rotl K kadd kmul kopp).
  Notation unit_cs := (unit_cs K k1 kadd kmul).
  Lemma rot1_inv t cs qu : unit_cs cs -> rot1 (negb t) cs (rot1 t cs qu) = qu.
  Proof.
    destruct cs as [c s], qu as [q u]. unfold Inverse.unit_cs. cbn [fst snd]. intros H.
    assert (Hq : forall q, kmul q (kadd (kmul c c) (kmul s s)) = q) by (intros; rewrite H; ring).
    unfold Inverse.rot1. destruct t; cbn [negb]; f_equal.
    - transitivity (kmul q (kadd (kmul c c) (kmul s s))); [ring|apply Hq].
    - transitivity (kmul u (kadd (kmul c c) (kmul s s))); [ring|apply Hq].
    - transitivity (kmul q (kadd (kmul c c) (kmul s s))); [ring|apply Hq].
    - transitivity (kmul u (kadd (kmul c c) (kmul s s))); [ring|apply Hq].
  Qed.
  Lemma rotl_inv t cs : forall qu, Forall unit_cs cs -> List.length qu = List.length cs ->
    rotl (negb t) cs (rotl t cs qu) = qu.
  Proof.
    induction cs as [|c cs IH]; intros [|p qu] HF Hl; cbn in Hl; try discriminate; [reflexivity|].
    inversion HF as [|? ? Hc Hcs]; subst. unfold Inverse.rotl in *. cbn [map combine fst snd].
    f_equal; [now apply rot1_inv|apply IH; [exact Hcs|lia]].
  Qed.

  (* ---------- matrices as functions ---------- *)
  Notation msum := (msum K k0 kadd).
  Notation fmul := (fmul K k0 kadd kmul).
  Notation fdiag := (fdiag K k0).
  Notation fid := (fid K k0 k1).
  Notation feq := (feq K).
  Notation ftr := (ftr K).
  Notation penrose := (penrose K k0 kadd kmul).
  Notation two_sided := (two_sided K k0 k1 kadd kmul).

  Lemma sum_ext (l : list nat) : forall f g : nat -> K, (forall i, In i l -> f i = g i) ->
    fold_right (fun i acc => kadd (f i) acc) k0 l = fold_right (fun i acc => kadd (g i) acc) k0 l.
  Proof. induction l as [|a l IH]; intros f g H; cbn; [reflexivity|]. rewrite (H a) by now left. f_equal. apply IH. intros; apply H; now right. Qed.
  Lemma sum_zero (l : list nat) : forall f : nat -> K, (forall i, In i l -> f i = k0) -> fold_right (fun i acc => kadd (f i) acc) k0 l = k0.
  Proof. induction l as [|a l IH]; intros f H; cbn; [reflexivity|]. rewrite (H a) by now left. rewrite IH by (intros; apply H; now right). ring. Qed.
  Lemma sum_single (l : list nat) : NoDup l -> forall (f : nat -> K) k, In k l -> (forall i, In i l -> i <> k -> f i = k0) ->
    fold_right (fun i acc => kadd (f i) acc) k0 l = f k.
  Proof.
    induction 1 as [|a l Hn Hd IH]; intros f k Hin Hz; [destruct Hin|]. cbn. destruct Hin as [->|Hin].
    - rewrite sum_zero; [ring|]. intros i Hi. apply Hz; [now right|]. intros ->. contradiction.
    - assert (Ha : f a = k0). { apply Hz; [now left|]. intros ->. contradiction. }
      rewrite Ha. rewrite (IH f k Hin); [ring|]. intros i Hi Hne. apply Hz; [now right|exact Hne].
  Qed.
  Lemma msum_ext n f g : (forall i, i < n -> f i = g i) -> msum n f = msum n g.
  Proof. intros H. apply sum_ext. intros i Hi. apply in_seq in Hi. apply H. lia. Qed.
  Lemma msum_single n f k : k < n -> (forall i, i < n -> i <> k -> f i = k0) -> msum n f = f k.
  Proof.
    intros Hk Hz. apply sum_single; [apply seq_NoDup|apply in_seq; lia|].
    intros i Hi. apply in_seq in Hi. apply Hz. lia.
  Qed.

  Lemma feq_refl n A : feq n A A.
  Proof. intros i j _ _. reflexivity. Qed.
  Lemma feq_sym n A B : feq n A B -> feq n B A.
  Proof. intros H i j Hi Hj. symmetry. now apply H. Qed.
  Lemma feq_trans n A B C : feq n A B -> feq n B C -> feq n A C.
  Proof. intros H1 H2 i j Hi Hj. rewrite H1 by assumption. now apply H2. Qed.
  Lemma fmul_feq n A A' B B' : feq n A A' -> feq n B B' -> feq n (fmul n A B) (fmul n A' B').
  Proof. intros HA HB i j Hi Hj. apply msum_ext. intros k Hk. rewrite HA, HB by assumption. reflexivity. Qed.
  Lemma ftr_feq n A B : feq n A B -> feq n (ftr A) (ftr B).
  Proof. intros H i j Hi Hj. unfold Inverse.ftr. now apply H. Qed.

  Lemma nth_emul a : forall b i, i < List.length a -> i < List.length b ->
    nth i (emul a b) k0 = kmul (nth i a k0) (nth i b k0).
  Proof.
    induction a as [|x a IH]; intros [|y b] [|i] Ha Hb; cbn in Ha, Hb; try lia; [reflexivity|].
    unfold Inverse.emul in *. cbn [map combine fst snd nth]. apply IH; lia.
  Qed.
  (* the product of two diagonal matrices is the diagonal matrix of the element-wise product *)
  Lemma fmul_fdiag a b : List.length b = List.length a ->
    feq (List.length a) (fmul (List.length a) (fdiag a) (fdiag b)) (fdiag (emul a b)).
  Proof.
    intros Hl i j Hi Hj. unfold Inverse.fmul, Inverse.fdiag. destruct (Nat.eqb i j) eqn:E.
    - apply Nat.eqb_eq in E. subst j. rewrite (msum_single _ _ i Hi).
      + rewrite !Nat.eqb_refl. symmetry. apply nth_emul; lia.
      + intros k Hk Hne. destruct (Nat.eqb i k) eqn:E; [apply Nat.eqb_eq in E; congruence|]. ring.
    - apply sum_zero. intros k Hk. destruct (Nat.eqb i k) eqn:E1; [|ring].
      apply Nat.eqb_eq in E1. subst k. rewrite E. ring.
  Qed.
  Lemma ftr_fdiag n d : feq n (ftr (fdiag d)) (fdiag d).
  Proof.
    intros i j _ _. unfold Inverse.ftr, Inverse.fdiag. rewrite (Nat.eqb_sym j i).
    destruct (Nat.eqb i j) eqn:E; [|reflexivity]. apply Nat.eqb_eq in E. now subst.
  Qed.
  Lemma map_pinv_length d : List.length (map pinv d) = List.length d.
  Proof. apply map_length. Qed.

  (* diag_pinv_moore_penrose: for EVERY diagonal (zeros allowed) where(d != 0, 1/d, 0) satisfies the
     four Penrose equations *)
  Theorem diag_pinv_penrose d : penrose (List.length d) (fdiag d) (fdiag (map pinv d)).
  Proof.
    set (n := List.length d). set (p := map pinv d).
    assert (Hp : List.length p = n) by apply map_length.
    assert (Hdp : feq n (fmul n (fdiag d) (fdiag p)) (fdiag (emul d p))) by (apply fmul_fdiag; exact Hp).
    assert (Hpd : feq n (fmul n (fdiag p) (fdiag d)) (fdiag (emul p d))).
    { rewrite <- Hp. apply fmul_fdiag. now rewrite Hp. }
    assert (Hl1 : List.length (emul d p) = n) by (rewrite emul_length, Hp; apply Nat.min_id).
    assert (Hl2 : List.length (emul p d) = n) by (rewrite emul_length, Hp; apply Nat.min_id).
    split.
    - eapply feq_trans; [apply fmul_feq; [exact Hdp|apply feq_refl]|].
      eapply feq_trans; [rewrite <- Hl1; apply fmul_fdiag; now rewrite Hl1|].
      unfold p. rewrite emul_apa. apply feq_refl.
    - eapply feq_trans; [apply fmul_feq; [exact Hpd|apply feq_refl]|].
      eapply feq_trans; [rewrite <- Hl2; apply fmul_fdiag; now rewrite Hl2, Hp|].
      unfold p. rewrite emul_pap. apply feq_refl.
    - eapply feq_trans; [apply ftr_feq; exact Hdp|].
      eapply feq_trans; [apply ftr_fdiag|]. apply feq_sym. exact Hdp.
    - eapply feq_trans; [apply ftr_feq; exact Hpd|].
      eapply feq_trans; [apply ftr_fdiag|]. apply feq_sym. exact Hpd.
  Qed.

  Lemma emul_pinv_ones d : nonzero d = true -> emul (map pinv d) d = map (fun _ => k1) d.
  Proof.
    induction d as [|a d IH]; intros Hn; [reflexivity|]. apply nonzero_cons in Hn as [Ha Hd].
    unfold Inverse.emul in *. cbn [map combine fst snd]. f_equal; [|now apply IH].
    rewrite pinv_regular by exact Ha. now apply kinv_l.
  Qed.
  Lemma fdiag_ones (d : list K) : feq (List.length d) (fdiag (map (fun _ => k1) d)) fid.
  Proof.
    intros i j Hi Hj. unfold Inverse.fdiag, Inverse.fid. destruct (Nat.eqb i j); [|reflexivity].
    clear Hj. revert i Hi. induction d as [|a d IH]; intros [|i] Hi; cbn in Hi |- *; try lia; [reflexivity|].
    apply IH. lia.
  Qed.
  (* diag_inv, matrix level *)
  Theorem diag_inv_matrix d : nonzero d = true -> two_sided (List.length d) (fdiag d) (fdiag (map pinv d)).
  Proof.
    intros Hn. set (n := List.length d). set (p := map pinv d).
    assert (Hp : List.length p = n) by apply map_length.
    split.
    - eapply feq_trans; [rewrite <- Hp; apply fmul_fdiag; now rewrite Hp|].
      unfold p. rewrite emul_pinv_ones by exact Hn. apply fdiag_ones.
    - eapply feq_trans; [apply fmul_fdiag; exact Hp|].
      rewrite emul_comm. unfold p. rewrite emul_pinv_ones by exact Hn. apply fdiag_ones.
  Qed.

  (* ---------- the certified matrix inverse ---------- *)
  Notation lmul := (lmul K k0 kadd kmul).
  Notation lid := (lid K k0 k1).
  Notation minv := (minv K keqb k0 k1 kadd kmul kopp kinv).
  Lemma lmat_eqb_eq A B : lmat_eqb K keqb A B = true -> A = B.
  Proof. unfold lmat_eqb. apply list_eqb_eq. intros a b. apply list_eqb_eq. exact keqb_eq. Qed.
  (* whatever the elimination does, an answer is returned only after N M = I and M N = I were checked *)
  Theorem minv_certified M N : minv M = Some N ->
    lmul (List.length M) N M = lid (List.length M) /\ lmul (List.length M) M N = lid (List.length M).
  Proof.
    unfold Inverse.minv. destruct (minv_raw K keqb k0 k1 kadd kmul kopp kinv M) as [N'|]; [|discriminate].
    destruct (is_inverse_of K keqb k0 k1 kadd kmul M N') eqn:E; [|discriminate]. intros H; injection H as <-.
    unfold is_inverse_of in E. apply andb_true_iff in E as [E1 E2]. split; now apply lmat_eqb_eq.
  Qed.
End InvL.

(* ------------------------------------------------------------------------------------------ *)
(* inverse() on expression trees *)
Section InvSound.
  Variable K : Type.
  Variables (k0 k1 : K) (kadd kmul ksub : K -> K -> K) (kopp : K -> K) (kdiv : K -> K -> K) (kinv : K -> K).
  Hypothesis Fth : field_theory k0 k1 kadd kmul ksub kopp kdiv kinv (@eq K).
  Let Kth : ring_theory k0 k1 kadd kmul ksub kopp (@eq K) := F_R Fth.
  Variable keqb : K -> K -> bool.
  Hypothesis keqb_spec : forall a b, keqb a b = true <-> a = b.
  Notation op := (op K).
  Notation value := (value K).
  Variable leafsem : op -> value -> option value.
  Variable regular : op -> bool.
  Variable fuel : nat.
  Variable order : list rule_id.
  Notation den := (denote kadd kmul leafsem).
  Notation denote_list := (denote_list kadd kmul leafsem).
  Notation inverse_r := (inverse_r K keqb k1 kmul kinv fuel order).
  Notation default_inverse := (default_inverse K keqb k1 kmul fuel order).
  Notation reduce := (reduce keqb k1 kmul fuel order).
  Notation winv := (winv K).
  Notation wpair := (wpair K kadd kmul leafsem).
  Notation inv_guard := (inv_guard K keqb k0 regular).
  Notation den_le := (den_le kadd kmul leafsem).

  Hypothesis LF : leaf_facts K kadd kmul leafsem.
  Hypothesis IF : inv_facts K kadd kmul leafsem regular.

  Let keqb_eq' : forall a b, keqb a b = true -> a = b := fun a b => proj1 (keqb_spec a b).

  Lemma bind_ok A B (r : result A) (f : A -> result B) b : bind r f = Ok b -> exists a, r = Ok a /\ f a = Ok b.
  Proof. destruct r; cbn; [eauto|discriminate]. Qed.
  Lemma wpair_sym e e' : wpair e e' -> wpair e' e.
  Proof. intros [H1 H2]. split; assumption. Qed.
  Lemma lazy_kinds w : isinst (wcls w) [CAbstractLazyInverse] = true -> w = WInverse \/ w = WDiagInv \/ w = WQURotT.
  Proof. destruct w; cbn; intros H; try discriminate; auto. Qed.

  (* ---------- the default: InverseOperator(self) of the reduced operand ---------- *)
  Lemma default_cases e e' : default_inverse e = Ok e' ->
    is_square e = true /\ exists r, reduce e = Ok r /\ e' = Wrap fresh WInverse r.
  Proof.
    unfold Inverse.default_inverse. destruct (is_square e); cbn [negb]; [|discriminate].
    intros H. apply bind_ok in H as (r & Hr & H). injection H as <-. eauto.
  Qed.
  Lemma default_sound e e' : default_inverse e = Ok e' -> wpair e e'.
  Proof.
    intros H. apply default_cases in H as (_ & r & Hr & ->).
    pose proof (reduce_sound_l K k0 k1 kadd kmul ksub kopp Kth keqb keqb_eq' leafsem LF fuel order e r Hr) as Hle.
    split; intros x y1 y H1 H2; cbn [Denote.denote] in *.
    - eapply (if_lazy_l _ _ _ _ _ IF); [apply Hle; exact H1|exact H2].
    - eapply (if_lazy_r _ _ _ _ _ IF); [exact H1|apply Hle; exact H2].
  Qed.
  (* inverse_refuses_nonsquare *)
  Lemma default_refuses e : is_square e = false -> default_inverse e = Err ValueError.
  Proof. intros H. unfold Inverse.default_inverse. now rewrite H. Qed.

  (* ---------- block-diagonal operators ---------- *)
  Lemma inverse_r_bdiag i td l :
    inverse_r (Block i BDiag td l) =
    if forallb (@is_square K) l then bind (mapM inverse_r l) (fun l' => mk_block BDiag td l')
    else default_inverse (Block i BDiag td l).
  Proof.
    cbn [Inverse.inverse_r]. destruct (forallb (@is_square K) l); [|reflexivity]. f_equal.
    induction l as [|b r IH]; [reflexivity|]. cbn [mapM]. now rewrite IH.
  Qed.
  Lemma mapM_F2 A B (f : A -> result B) l : forall l', mapM f l = Ok l' -> Forall2 (fun a b => f a = Ok b) l l'.
  Proof.
    induction l as [|a r IH]; intros l' H; cbn in H.
    - injection H as <-. constructor.
    - apply bind_ok in H as (b & Hb & H). apply bind_ok in H as (bs & Hbs & H). injection H as <-. constructor; auto.
  Qed.
  Lemma mk_bdiag_ok td (l' : list op) e' : mk_block BDiag td l' = Ok e' -> e' = Block fresh BDiag td l'.
  Proof. unfold mk_block. destruct (negb _); [discriminate|]. destruct l'; [discriminate|]. now intros H; injection H as <-. Qed.
  Lemma omap2_len (f : op -> value -> option value) l : forall xs ys,
    omap2 f l xs = Some ys -> List.length ys = List.length l.
  Proof.
    induction l as [|e r IH]; intros [|x xs] ys H; cbn in H; try discriminate.
    - now injection H as <-.
    - destruct (f e x); [|discriminate]. destruct (omap2 f r xs) as [ys'|] eqn:E; [|discriminate].
      injection H as <-. cbn. now rewrite (IH _ _ E).
  Qed.
  Lemma omap2_winv l l' : Forall2 (fun b b' => winv (den b) (den b')) l l' ->
    forall xs ys zs, omap2 den l xs = Some ys -> omap2 den l' ys = Some zs -> zs = xs.
  Proof.
    induction 1 as [|b b' r r' Hb _ IH]; intros [|x xs] ys zs H1 H2; cbn in H1; try discriminate.
    - injection H1 as <-. cbn in H2. now injection H2 as <-.
    - destruct (den b x) as [y|] eqn:Ey; [|discriminate].
      destruct (omap2 den r xs) as [ys'|] eqn:Eys; [|discriminate]. injection H1 as <-. cbn in H2.
      destruct (den b' y) as [z|] eqn:Ez; [|discriminate].
      destruct (omap2 den r' ys') as [zs'|] eqn:Ezs; [|discriminate]. injection H2 as <-.
      f_equal; [exact (Hb _ _ _ Ey Ez)|exact (IH _ _ _ Eys Ezs)].
  Qed.
  (* blockdiag_inv, one direction: block-wise left inverses give a left inverse, for ANY container
     (list / tuple / dict / nested: induction is inside split_prefix / build) *)
  Lemma blockdiag_winv i j td l l' : Forall2 (fun b b' => winv (den b) (den b')) l l' ->
    winv (den (Block i BDiag td l)) (den (Block j BDiag td l')).
  Proof.
    intros HF x y1 y H1 H2. rewrite denote_block in H1, H2.
    destruct (negb (Nat.eqb (List.length l) (nleaves td))) eqn:El; [discriminate|].
    destruct (negb (Nat.eqb (List.length l') (nleaves td))) eqn:El'; [discriminate|].
    apply negb_false_iff, Nat.eqb_eq in El.
    destruct (split_prefix td x) as [xs|] eqn:Ex; [|discriminate]. cbn [obind] in H1.
    destruct (denote_list l xs) as [ys|] eqn:Ey; [|discriminate]. cbn [option_map] in H1. injection H1 as <-.
    pose proof (omap2_len _ _ _ _ Ey) as Hly.
    rewrite split_build in H2 by exact (eq_trans Hly El). cbn [obind] in H2.
    destruct (denote_list l' ys) as [zs|] eqn:Ez; [|discriminate]. cbn [option_map] in H2. injection H2 as <-.
    assert (zs = xs) by exact (omap2_winv _ _ HF _ _ _ Ey Ez). subst zs.
    rewrite (build_dflt_irrelevant x (build x td ys) td xs)
      by (rewrite (split_length _ _ Ex); apply Nat.le_refl).
    eapply build_split. exact Ex.
  Qed.
  Lemma F2_flip A B (P : A -> B -> Prop) l l' : Forall2 P l l' -> Forall2 (fun b a => P a b) l' l.
  Proof. induction 1; constructor; auto. Qed.
  Lemma F2_impl A B (P Q : A -> B -> Prop) l l' : (forall a b, P a b -> Q a b) -> Forall2 P l l' -> Forall2 Q l l'.
  Proof. intros H. induction 1; constructor; auto. Qed.
  Theorem blockdiag_wpair i j td l l' : Forall2 wpair l l' -> wpair (Block i BDiag td l) (Block j BDiag td l').
  Proof.
    intros HF. split; apply blockdiag_winv.
    - eapply F2_impl; [|exact HF]. now intros a b [H _].
    - apply F2_flip. eapply F2_impl; [|exact HF]. now intros a b [_ H].
  Qed.

  Lemma guard_blocks i td l : inv_guard (Block i BDiag td l) = true -> Forall (fun b => inv_guard b = true) l.
  Proof.
    cbn [Inverse.inv_guard]. induction l as [|b r IH]; intros H; [constructor|].
    apply andb_true_iff in H as [H1 H2]. constructor; auto.
  Qed.

  (* ---------- the general statement ---------- *)
  (* For every expression tree e whose inverse() exists: under the guards (non-zero scalars, regular
     diagonals, at any depth of block-diagonal nesting) e.I undoes e and e undoes e.I wherever the
     applications are defined. *)
  Theorem inverse_sound : forall e e', inv_guard e = true -> inverse_r e = Ok e' -> wpair e e'.
  Proof.
    induction e as [i c si so p|i w x IH|i s|i k s|i l IH|i l IH|i b td l IH] using op_ind'; intros e' Hg H.
    - (* primitives *)
      destruct c; try (now apply default_sound).
      + (* diagonal *)
        cbn [Inverse.inverse_r] in H. injection H as <-. cbn [Inverse.inv_guard] in Hg.
        split; [apply (if_diag_l _ _ _ _ _ IF)|apply (if_diag_r _ _ _ _ _ IF)]; exact Hg.
      + (* move-axis *)
        cbn [Inverse.inv_guard] in Hg. destruct p as [| | | |s d|]; try discriminate.
        cbn in H. injection H as <-. split; apply (if_move _ _ _ _ _ IF).
      + (* QU rotation *)
        cbn in H. injection H as <-. split; [apply (if_rot_l _ _ _ _ _ IF)|apply (if_rot_r _ _ _ _ _ IF)].
    - (* lazy wrappers *)
      cbn [Inverse.inverse_r] in H. destruct (isinst (wcls w) [CAbstractLazyInverse]) eqn:Ew; [|now apply default_sound].
      injection H as <-. apply wpair_sym.
      destruct (lazy_kinds _ Ew) as [->|[->| ->]].
      + split; [apply (if_lazy_l _ _ _ _ _ IF)|apply (if_lazy_r _ _ _ _ _ IF)].
      + cbn [Inverse.inv_guard] in Hg. split; [apply (if_diag_l _ _ _ _ _ IF)|apply (if_diag_r _ _ _ _ _ IF)]; exact Hg.
      + split; [apply (if_rot_l _ _ _ _ _ IF)|apply (if_rot_r _ _ _ _ _ IF)].
    - (* identity *)
      cbn in H. injection H as <-. split; intros x y1 y H1 H2; cbn in *; congruence.
    - (* scalar *)
      cbn in H. injection H as <-. cbn [Inverse.inv_guard] in Hg.
      assert (Hk : k <> k0). { intros E. apply keqb_spec in E. rewrite E in Hg. discriminate. }
      split; intros x y1 y H1 H2; cbn [Denote.denote] in *; injection H1 as <-; injection H2 as <-.
      + now apply (vscale_inv_l K k0 k1 kadd kmul ksub kopp kdiv kinv Fth).
      + now apply (vscale_inv_r K k0 k1 kadd kmul ksub kopp kdiv kinv Fth).
    - now apply default_sound.
    - now apply default_sound.
    - destruct b; try (now apply default_sound).
      rewrite inverse_r_bdiag in H. destruct (forallb (@is_square K) l); [|now apply default_sound].
      apply bind_ok in H as (l' & Hl' & H). apply mk_bdiag_ok in H. subst e'.
      apply blockdiag_wpair. apply mapM_F2 in Hl'. pose proof (guard_blocks _ _ _ Hg) as HG.
      clear Hg. induction Hl' as [|a a' r r' Ha _ IHr]; [constructor|].
      inversion IH; subst. inversion HG; subst. constructor; auto.
  Qed.

  (* ---------- X.I.I ---------- *)
  (* structurally: the inverse of a lazy inverse is the stored operand ... *)
  Theorem inverse_of_lazy i w x : isinst (wcls w) [CAbstractLazyInverse] = true -> inverse_r (Wrap i w x) = Ok x.
  Proof. intros H. cbn [Inverse.inverse_r]. now rewrite H. Qed.
  (* ... which for the default InverseOperator is the REDUCED operand: X.I.I = X.reduce(), and that
     denotes X (C01) *)
  Theorem default_inverse_inverse e e' : default_inverse e = Ok e' ->
    exists r, reduce e = Ok r /\ inverse_r e' = Ok r /\ den_le e r.
  Proof.
    intros H. apply default_cases in H as (_ & r & Hr & ->). exists r. repeat split; [exact Hr|].
    exact (reduce_sound_l K k0 k1 kadd kmul ksub kopp Kth keqb keqb_eq' leafsem LF fuel order e r Hr).
  Qed.

  Lemma den_le_refl e : den_le e e.
  Proof. intros x y H; exact H. Qed.
  Lemma omap2_le l l' : Forall2 den_le l l' -> forall xs ys, omap2 den l xs = Some ys -> omap2 den l' xs = Some ys.
  Proof.
    induction 1 as [|e e' r r' He _ IH]; intros [|x xs] ys H; cbn in *; try exact H; try discriminate.
    destruct (den e x) as [y|] eqn:E; [|discriminate].
    destruct (omap2 den r xs) as [ys'|] eqn:E2; [|discriminate].
    rewrite (He _ _ E), (IH _ _ E2). exact H.
  Qed.
  Lemma blockdiag_le i j td l l' : Forall2 den_le l l' -> den_le (Block i BDiag td l) (Block j BDiag td l').
  Proof.
    intros HF x y H. rewrite denote_block in *.
    assert (Hlen : List.length l' = List.length l) by (clear - HF; induction HF; cbn; congruence).
    rewrite Hlen. destruct (negb _); [discriminate|].
    destruct (split_prefix td x) as [xs|]; [|discriminate]. cbn [obind] in *.
    destruct (denote_list l xs) as [ys|] eqn:E; [|discriminate].
    unfold DenoteL.denote_list in *. now rewrite (omap2_le _ _ HF _ _ E).
  Qed.
  Lemma plain_blocks i td l : plain K (Block i BDiag td l) = true -> Forall (fun b => plain K b = true) l.
  Proof.
    cbn [plain]. induction l as [|b r IH]; intros H; [constructor|].
    apply andb_true_iff in H as [H1 H2]. constructor; auto.
  Qed.
  Lemma square_blocks_inv i td l : square_blocks K (Block i BDiag td l) = true ->
    forallb (@is_square K) l = true /\ Forall (fun b => square_blocks K b = true) l.
  Proof.
    cbn [square_blocks]. intros H. apply andb_true_iff in H as [H1 H2]. split; [exact H1|].
    clear H1. induction l as [|b r IH]; [constructor|]. apply andb_true_iff in H2 as [H2 H3]. constructor; auto.
  Qed.

  (* inv_inv: for every operator that is not itself a lazy inverse (nor has such a block):
     whatever e does, e.I.I does too.  `square_blocks e'`: inverse() of square blocks returned
     square blocks (a decidable condition on the result; it holds on every real object). *)
  Theorem inv_inv : forall e e' e'', plain K e = true -> inv_guard e = true ->
    inverse_r e = Ok e' -> square_blocks K e' = true -> inverse_r e' = Ok e'' -> den_le e e''.
  Proof.
    induction e as [i c si so p|i w x IH|i s|i k s|i l IH|i l IH|i b td l IH] using op_ind';
      intros e' e'' Hp Hg H Hsq H2.
    - assert (Hdef : default_inverse (Prim i c si so p) = Ok e' -> den_le (Prim i c si so p) e'').
      { intros Hd. destruct (default_inverse_inverse _ _ Hd) as (r & _ & Hr & Hle). rewrite Hr in H2. injection H2 as <-. exact Hle. }
      destruct c; try (now apply Hdef).
      + cbn in H. injection H as <-. cbn in H2. injection H2 as <-. apply den_le_refl.
      + cbn [Inverse.inv_guard] in Hg. destruct p as [| | | |s d|]; try discriminate.
        cbn in H. injection H as <-. cbn in H2. injection H2 as <-.
        intros x y Hx. cbn [Denote.denote] in *. rewrite <- Hx. apply (if_move_oid _ _ _ _ _ IF).
      + cbn in H. injection H as <-. cbn in H2. injection H2 as <-. apply den_le_refl.
    - cbn [plain] in Hp. cbn [Inverse.inverse_r] in H.
      destruct (isinst (wcls w) [CAbstractLazyInverse]); [discriminate|].
      destruct (default_inverse_inverse _ _ H) as (r & _ & Hr & Hle). rewrite Hr in H2. injection H2 as <-. exact Hle.
    - cbn in H. injection H as <-. cbn in H2. injection H2 as <-. apply den_le_refl.
    - cbn in H. injection H as <-. cbn in H2. injection H2 as <-. cbn [Inverse.inv_guard] in Hg.
      assert (Hk : k <> k0). { intros E. apply keqb_spec in E. rewrite E in Hg. discriminate. }
      rewrite (kinv_kinv K k0 k1 kadd kmul ksub kopp kdiv kinv Fth k Hk). intros x y Hx. exact Hx.
    - destruct (default_inverse_inverse _ _ H) as (r & _ & Hr & Hle). rewrite Hr in H2. injection H2 as <-. exact Hle.
    - destruct (default_inverse_inverse _ _ H) as (r & _ & Hr & Hle). rewrite Hr in H2. injection H2 as <-. exact Hle.
    - assert (Hdef : default_inverse (Block i b td l) = Ok e' -> den_le (Block i b td l) e'').
      { intros Hd. destruct (default_inverse_inverse _ _ Hd) as (r & _ & Hr & Hle). rewrite Hr in H2. injection H2 as <-. exact Hle. }
      destruct b; try (now apply Hdef).
      rewrite inverse_r_bdiag in H. destruct (forallb (@is_square K) l); [|now apply Hdef].
      apply bind_ok in H as (l' & Hl' & H). apply mk_bdiag_ok in H. subst e'.
      apply square_blocks_inv in Hsq as [Hsq1 Hsq2].
      rewrite inverse_r_bdiag, Hsq1 in H2.
      apply bind_ok in H2 as (l'' & Hl'' & H2). apply mk_bdiag_ok in H2. subst e''.
      apply blockdiag_le. apply mapM_F2 in Hl', Hl''.
      pose proof (guard_blocks _ _ _ Hg) as HG. pose proof (plain_blocks _ _ _ Hp) as HP.
      clear Hg Hp Hsq1 Hdef. revert l'' Hl''.
      induction Hl' as [|a a' r r' Ha _ IHr]; intros l'' Hl''; inversion Hl''; subst; [constructor|].
      inversion IH; subst. inversion HG; subst. inversion HP; subst. inversion Hsq2; subst.
      constructor; eauto.
  Qed.

  (* ---------- refusal ---------- *)
  Notation closed_form := (closed_form K).
  Theorem refuses_nonsquare e : is_square e = false -> closed_form e = false -> inverse_r e = Err ValueError.
  Proof.
    intros Hs Hc. destruct e as [i c si so p|i w x|i s|i k s|i l|i l|i b td l]; cbn [Inverse.closed_form] in Hc; try discriminate;
      try (now apply default_refuses).
    - destruct c; try discriminate; now apply default_refuses.
    - cbn [Inverse.inverse_r]. rewrite Hc. now apply default_refuses.
    - destruct b; try (now apply default_refuses). rewrite inverse_r_bdiag, Hc. now apply default_refuses.
  Qed.
  (* whatever inverse() returns is a closed form or the lazy inverse of the reduced square operand *)
  Theorem inverse_ok_cases e e' : inverse_r e = Ok e' ->
    closed_form e = true \/ (is_square e = true /\ exists r, reduce e = Ok r /\ e' = Wrap fresh WInverse r).
  Proof.
    intros H. destruct (closed_form e) eqn:Hc; [now left|right].
    destruct e as [i c si so p|i w x|i s|i k s|i l|i l|i b td l]; cbn [Inverse.closed_form] in Hc; try discriminate;
      try (now apply default_cases).
    - destruct c; try discriminate; now apply default_cases.
    - cbn [Inverse.inverse_r] in H. rewrite Hc in H. now apply default_cases.
    - destruct b; try (now apply default_cases). rewrite inverse_r_bdiag, Hc in H. now apply default_cases.
  Qed.
  (* the closed forms never refuse: they do not look at the structures *)
  Theorem closed_forms_total i k s c si so p :
    (exists e', inverse_r (Homoth i k s) = Ok e') /\ inverse_r (Ident i s) = Ok (Ident i s) /\
    ((c = CDiagonal \/ c = CMoveAxis \/ c = CQURotation) -> exists e', inverse_r (Prim i c si so p) = Ok e').
  Proof.
    repeat split; [eexists; reflexivity|]. intros [->|[->| ->]]; eexists; reflexivity.
  Qed.
End InvSound.

(* ------------------------------------------------------------------------------------------ *)
(* the executable instance (Qc) *)
Lemma qc_keqb_spec (a b : K) : keqb a b = true <-> a = b.
Proof.
  split; [apply Qc_eq_bool_correct|]. intros ->. unfold keqb, Qc_eq_bool. destruct (Qc_eq_dec b b); congruence.
Qed.

(* lazy_inverse_matrix: as_matrix() of a lazy inverse is the matrix inverse of as_matrix() of its
   operand - by definition of the override, and the inverse is certified *)
Theorem lazy_inverse_matrix_l tb r N : as_matrix_lazy_inverse tb r = Some N ->
  exists M, gmat (isem tb inv_depth) r = Some M /\
    lmul K k0 Qcplus Qcmult (List.length M) N M = lid K k0 k1 (List.length M) /\
    lmul K k0 Qcplus Qcmult (List.length M) M N = lid K k0 k1 (List.length M).
Proof.
  unfold as_matrix_lazy_inverse. destruct (gmat (isem tb inv_depth) r) as [M|]; [|discriminate].
  intros H. exists M. split; [reflexivity|].
  exact (minv_certified K k0 k1 Qcplus Qcmult Qcopp Qcinv keqb qc_keqb_spec M N H).
Qed.
(* the lazy InverseOperator of the executable model acts through that matrix *)
Theorem isem_lazy_inverse tb n i r x y : leafsem tb (Wrap i WInverse r) x = None ->
  isem tb (S n) (Wrap i WInverse r) x = Some y ->
  exists M N, gmat (isem tb n) r = Some M /\ qminv M = Some N /\
    y = fst (unflatten (out_struct (Wrap i WInverse r)) (matvec (transpose_m N (List.length N)) (vflatten x))).
Proof.
  intros Hl H. cbn [isem] in H. rewrite Hl in H.
  destruct (negb (has_struct x (in_struct (Wrap i WInverse r)))) eqn:Es; [discriminate|].
  destruct (gmat (isem tb n) r) as [M|]; [|discriminate]. destruct (qminv M) as [N|] eqn:EN; [|discriminate].
  exists M, N. repeat split; try assumption. unfold apply_matrix in H.
  apply negb_false_iff in Es. rewrite Es in H. injection H as <-. reflexivity.
Qed.

(* ------------------------------------------------------------------------------------------ *)
(* `inverse_r` and the non-recursive `Algebra.inverse` agree unless a block of a block-diagonal
   operator is itself block-diagonal *)
Section Agree.
  Variable K : Type.
  Variable keqb : K -> K -> bool.
  Variables (k1 : K) (kmul : K -> K -> K) (kinv : K -> K).
  Variable fuel : nat.
  Variable order : list rule_id.
  Notation op := (op K).
  Notation inverse_r := (inverse_r K keqb k1 kmul kinv fuel order).
  Notation inverse_a := (Algebra.inverse keqb k1 kmul kinv fuel order).
  Notation default_inverse := (default_inverse K keqb k1 kmul fuel order).

  Lemma inverse_agree_nonblock (e : op) : is_bdiag K e = false -> inverse_a e = inverse_r e.
  Proof.
    destruct e as [i c si so p|i w x|i s|i k s|i l|i l|i b td l]; intros Hb; try reflexivity.
    all: destruct b; try discriminate; reflexivity.
  Qed.
  Lemma mapM_len A B (f : A -> result B) l : forall l', mapM f l = Ok l' -> List.length l' = List.length l.
  Proof.
    induction l as [|a r IH]; intros l' H; cbn in H.
    - now injection H as <-.
    - destruct (f a); [|discriminate]. cbn in H. destruct (mapM f r) as [bs|] eqn:E; [|discriminate].
      cbn in H. injection H as <-. cbn. now rewrite (IH _ eq_refl).
  Qed.
  Lemma mapM_ext A B (f g : A -> result B) l : Forall (fun a => f a = g a) l -> mapM f l = mapM g l.
  Proof. induction 1 as [|a r Ha _ IH]; [reflexivity|]. cbn. now rewrite Ha, IH. Qed.

  Theorem inverse_agrees (e : op) : wfo e = true -> flat_blocks K e = true -> inverse_a e = inverse_r e.
  Proof.
    intros Hwf Hflat. destruct (is_bdiag K e) eqn:Eb; [|now apply inverse_agree_nonblock].
    destruct e as [| | | | | |i b td l]; try discriminate. destruct b; try discriminate.
    rewrite (inverse_r_bdiag K k1 kmul kinv keqb fuel order). cbn [Algebra.inverse].
    destruct (forallb (@is_square K) l) eqn:Esq; [|reflexivity].
    cbn [flat_blocks] in Hflat.
    match goal with |- bind (mapM ?f l) _ = _ => set (inl := f) end.
    assert (Hpt : Forall (fun b => inl b = inverse_r b) l).
    { apply Forall_forall. intros b Hin.
      rewrite forallb_forall in Esq, Hflat. specialize (Esq b Hin). specialize (Hflat b Hin).
      apply negb_true_iff in Hflat. subst inl.
      destruct b as [j c si so p|j w x|j s|j k s|j l0|j l0|j b0 td0 l0]; try reflexivity.
      - destruct c; try reflexivity; cbn [Inverse.inverse_r]; unfold Inverse.default_inverse; now rewrite Esq.
      - cbn [Inverse.inverse_r]. destruct (isinst (wcls w) [CAbstractLazyInverse]); [reflexivity|].
        unfold Inverse.default_inverse. now rewrite Esq.
      - cbn [Inverse.inverse_r]. unfold Inverse.default_inverse. now rewrite Esq.
      - cbn [Inverse.inverse_r]. unfold Inverse.default_inverse. now rewrite Esq.
      - destruct b0; try discriminate; cbn [Inverse.inverse_r]; unfold Inverse.default_inverse; now rewrite Esq. }
    rewrite (mapM_ext _ _ _ _ _ Hpt). destruct (mapM inverse_r l) as [l'|] eqn:El'; [|reflexivity].
    cbn [bind]. pose proof (mapM_len _ _ _ _ _ El') as Hlen.
    cbn [wfo] in Hwf. apply andb_true_iff in Hwf as [Hwf _]. apply andb_true_iff in Hwf as [Hwf _].
    apply andb_true_iff in Hwf as [Hne Hlt].
    unfold mk_block. rewrite Hlen, Hlt. cbn [negb].
    destruct l' as [|b' r']; [|reflexivity]. cbn in Hlen. destruct l; [discriminate|discriminate].
  Qed.
End Agree.

(* ------------------------------------------------------------------------------------------ *)
(* second stage: the executable leaf semantics (Exec.leafsem, quarter-turn angles, no measured
   matrices) satisfies if_rot_l / if_rot_r on QU rotations: R(a)^T undoes R(a) and conversely *)
Lemma quad_unit n : Qcplus (Qcmult (fst (quad n)) (fst (quad n))) (Qcmult (snd (quad n)) (snd (quad n))) = k1.
Proof.
  unfold quad. destruct (mod4_cases n) as [H|[H|[H|H]]]; rewrite H; apply Qc_is_canon; reflexivity.
Qed.
Lemma rot_lists_inv t a : forall q u q1 u1 q2 u2,
  rot_lists t a q u = Some (q1, u1) -> rot_lists (negb t) a q1 u1 = Some (q2, u2) -> q2 = q /\ u2 = u.
Proof.
  induction a as [|an a IH]; intros q u q1 u1 q2 u2 H1 H2.
  - destruct q, u; cbn in H1; try discriminate. injection H1 as <- <-. cbn in H2. now injection H2 as <- <-.
  - destruct q as [|qn q], u as [|un u]; cbn [rot_lists] in H1; try discriminate.
    destruct (cs2 an) as [[c s]|] eqn:E; [|discriminate].
    destruct (rot_lists t a q u) as [[qs us]|] eqn:R1; [|discriminate]. injection H1 as <- <-.
    cbn [rot_lists] in H2. rewrite E in H2.
    destruct (rot_lists (negb t) a qs us) as [[qs2 us2]|] eqn:R2; [|discriminate]. injection H2 as <- <-.
    destruct (IH _ _ _ _ _ _ R1 R2) as [-> ->].
    apply cs2_some in E as [_ E]. pose proof (quad_unit (Qnum an)) as Hu. rewrite <- E in Hu. cbn [fst snd] in Hu.
    assert (Hq : forall z, Qcmult z (Qcplus (Qcmult c c) (Qcmult s s)) = z) by (intros; rewrite Hu; apply Qcmult_1_r).
    split; f_equal.
    + transitivity (Qcmult qn (Qcplus (Qcmult c c) (Qcmult s s))); [destruct t; cbn [negb]; ring|apply Hq].
    + transitivity (Qcmult un (Qcplus (Qcmult c c) (Qcmult s s))); [destruct t; cbn [negb]; ring|apply Hq].
Qed.
Lemma rot_value_inv t a x y1 y : rot_value t a x = Some y1 -> rot_value (negb t) a y1 = Some y -> y = x.
Proof.
  intros H1 H2. unfold rot_value in H1. split_match H1.
  - injection H1 as <-. cbn in H2. now injection H2 as <-.
  - destruct (rot_lists t a a0 a1) as [[q1 u1]|] eqn:R1; [|discriminate]. injection H1 as <-.
    cbn in H2. destruct (rot_lists (negb t) a q1 u1) as [[q2 u2]|] eqn:R2; [|discriminate]. injection H2 as <-.
    now destruct (rot_lists_inv _ _ _ _ _ _ _ _ R1 R2) as [-> ->].
  - destruct (rot_lists t a a1 a2) as [[q1 u1]|] eqn:R1; [|discriminate]. injection H1 as <-.
    cbn in H2. destruct (rot_lists (negb t) a q1 u1) as [[q2 u2]|] eqn:R2; [|discriminate]. injection H2 as <-.
    now destruct (rot_lists_inv _ _ _ _ _ _ _ _ R1 R2) as [-> ->].
  - destruct (rot_lists t a a1 a2) as [[q1 u1]|] eqn:R1; [|discriminate]. injection H1 as <-.
    cbn in H2. destruct (rot_lists (negb t) a q1 u1) as [[q2 u2]|] eqn:R2; [|discriminate]. injection H2 as <-.
    now destruct (rot_lists_inv _ _ _ _ _ _ _ _ R1 R2) as [-> ->].
Qed.
Ltac strip' H := match type of H with (if negb ?b then None else _) = Some _ => destruct b eqn:?; cbn [negb] in H; [|discriminate H] end.
Theorem exec_if_rot_l : forall i j sj soj a,
  winv K (lsem (R K j sj soj a)) (lsem (Wrap i WQURotT (R K j sj soj a))).
Proof.
  unfold R. intros i j sj soj a x y1 y H1 H2. rewrite lsem_R in H1. rewrite lsem_RT in H2. strip' H1. strip' H2.
  exact (rot_value_inv false a x y1 y H1 H2).
Qed.
Theorem exec_if_rot_r : forall i j sj soj a,
  winv K (lsem (Wrap i WQURotT (R K j sj soj a))) (lsem (R K j sj soj a)).
Proof.
  unfold R. intros i j sj soj a x y1 y H1 H2. rewrite lsem_RT in H1. rewrite lsem_R in H2. strip' H1. strip' H2.
  exact (rot_value_inv true a x y1 y H1 H2).
Qed.
