(* Structures of INVERTED operators (`inverse_structs` of C05) and the removal of the decidable
   premise `square_blocks e'` from `inv_inv` (C06), both from `reduce_structs`
   (Lemmas/ReduceStructsL.v).

   inverse() of a well-formed expression tree whose primitives satisfy `prims_ok` returns a
   well-formed tree with the two structures swapped.  The default path stores self.reduce() in a lazy
   InverseOperator: its structures are those of the operand by `reduce_structs`; the closed forms are
   read off the term; a block-diagonal operator with square blocks is inverted block by block, at
   any depth of nesting (induction over the expression tree).

   `prims_ok` of the result holds too, except for one boundary: jnp.moveaxis accepts REPEATED
   destination axes (Lemmas/AxesL.v, moveaxis_perm_ok_inv), and the transpose of such a MoveAxisOperator
   (source and destination exchanged) is not a legal moveaxis; `inv_movable` excludes it (decidable;
   `move_ok_sym`: distinct destination axes suffice). *)
From Coq Require Import List Bool Arith ZArith NArith QArith Qcanon String Lia Ring Field.
From Furax Require Import Base.Pytree Model.Op Model.Algebra Model.Denote Model.Wf Model.Exec Model.Inverse
  Lemmas.DenoteL Lemmas.Sound Lemmas.BuildL Lemmas.InverseL Lemmas.ReduceStructsL.
From Furax Require Model.Axes Lemmas.AxesL.
Import ListNotations.
Local Close Scope Q_scope.
Local Close Scope Qc_scope.
Local Open Scope nat_scope.

(* ---------- the transpose of a legal moveaxis with distinct destinations is a legal moveaxis ---------- *)
Definition dst_distinct (d : list Z) (si : struct) : Prop :=
  forall l, In l (flatten si) -> NoDup (map (AxesL.nz (List.length (s_shape l))) d).

Lemma move_leaf_sym s d a b : move_leaf s d a = Some b ->
  NoDup (map (AxesL.nz (List.length (s_shape a))) d) -> exists c, move_leaf d s b = Some c.
Proof.
  unfold move_leaf. destruct a as [sh dt]. cbn [s_shape s_dtype].
  destruct (Axes.moveaxis_perm (List.length sh) s d) as [p|] eqn:Ep; [|discriminate].
  intros H ND; inversion H; subst b; clear H. cbn [s_shape s_dtype].
  pose proof (moveaxis_perm_length _ _ _ _ Ep) as Hlen.
  rewrite AxesL.permute_length, Hlen.
  apply AxesL.moveaxis_perm_ok_inv in Ep as (Hs & Hd & Hl & NDs & _).
  assert (HL : AxesL.legalZ (List.length sh) d s).
  { apply AxesL.legalZ_sym. repeat split; assumption. }
  rewrite (AxesL.moveaxis_perm_legal _ _ _ HL). eexists; reflexivity.
Qed.

Lemma move_ok_sym s d si : move_ok s d si = true -> dst_distinct d si ->
  move_ok d s (move_struct s d si) = true.
Proof.
  unfold move_ok, move_struct, dst_distinct. intros H ND. rewrite flatten_pmap.
  rewrite forallb_forall in *. intros b Hb. apply in_map_iff in Hb as (a & <- & Ha).
  specialize (H a Ha). specialize (ND a Ha). unfold move_leaf_t.
  destruct (move_leaf s d a) as [b|] eqn:Eb; [|discriminate].
  destruct (move_leaf_sym _ _ _ _ Eb ND) as (c & ->). reflexivity.
Qed.

Section InvStructs.
  Variable K : Type.
  Variable keqb : K -> K -> bool.
  Hypothesis keqb_eq : forall a b, keqb a b = true -> a = b.
  Variables (k1 : K) (kmul : K -> K -> K) (kinv : K -> K).
  Variable fuel : nat.
  Variable order : list rule_id.
  Notation op := (op K).
  Notation wfo := (@wfo K).
  Notation allwf := (allwf K).
  Notation inverse_r := (inverse_r K keqb k1 kmul kinv fuel order).
  Notation inverse_a := (Algebra.inverse keqb k1 kmul kinv fuel order).
  Notation default_inverse := (default_inverse K keqb k1 kmul fuel order).
  Notation reduce := (reduce keqb k1 kmul fuel order).
  Notation plain := (plain K).
  Notation square_blocks := (square_blocks K).

  (* the transposes taken by inverse() are legal: every MoveAxisOperator met on the closed-form path
     (the operator itself, or a block of a block-diagonal operator, recursively) has a transpose
     whose moveaxis is defined on its declared output structure *)
  Fixpoint inv_movable (e : op) : bool :=
    match e with
    | Prim _ CMoveAxis _ so (PAxes s d) => move_ok d s so
    | Block _ BDiag _ l =>
        (fix all (l : list op) : bool := match l with [] => true | b :: r => inv_movable b && all r end) l
    | _ => true
    end.
  Fixpoint allmv (l : list op) : bool := match l with [] => true | b :: r => inv_movable b && allmv r end.
  Lemma mv_block i td l : inv_movable (Block i BDiag td l) = allmv l.
  Proof. reflexivity. Qed.

  (* what inverse() guarantees about its result *)
  Definition inv_rel (e e' : op) : Prop :=
    wfo e' = true /\ in_struct e' = out_struct e /\ out_struct e' = in_struct e /\
    (inv_movable e = true -> prims_ok e').

  Lemma wfo_wrap i w (x : op) :
    wfo (Wrap i w x) = wfo x && (if isinst (wcls w) [CAbstractLazyInverse] then is_square x else true).
  Proof. reflexivity. Qed.
  Lemma pk_wrap i w (x : op) : prims_okb (Wrap i w x) = prims_okb x.
  Proof. reflexivity. Qed.
  Lemma is_square_true (e : op) : is_square e = true <-> in_struct e = out_struct e.
  Proof. unfold is_square. apply struct_eqb_true. Qed.

  (* ---------- the default: InverseOperator(self.reduce()) ---------- *)
  Lemma default_inv e e' : default_inverse e = Ok e' ->
    is_square e = true /\ exists r, reduce e = Ok r /\ e' = Wrap fresh WInverse r.
  Proof.
    unfold Inverse.default_inverse. destruct (is_square e); cbn [negb]; [|discriminate].
    intros H. apply result_bind_ok in H as (r & Hr & H). inversion H; subst. eauto.
  Qed.
  Lemma default_structs e e' : wfo e = true -> prims_ok e -> default_inverse e = Ok e' ->
    wfo e' = true /\ prims_ok e' /\ in_struct e' = out_struct e /\ out_struct e' = in_struct e.
  Proof.
    intros W P H. apply default_inv in H as (S & r & Hr & ->).
    destruct (reduce_structs K keqb keqb_eq k1 kmul _ _ _ _ W P Hr) as (Wr & Pr & Ir & Or).
    destruct (wrap_structs K fresh WInverse r) as [-> ->]. rewrite Ir, Or.
    apply is_square_true in S. repeat split.
    - rewrite wfo_wrap, Wr. cbn. apply is_square_true. now rewrite Ir, Or.
    - exact Pr.
  Qed.
  Lemma default_rel e e' : wfo e = true -> prims_ok e -> default_inverse e = Ok e' -> inv_rel e e'.
  Proof.
    intros W P H. destruct (default_structs _ _ W P H) as (W' & P' & I' & O').
    unfold inv_rel. repeat split; auto.
  Qed.

  (* ---------- lists of blocks ---------- *)
  Lemma allwf_Forall l : allwf l = true -> Forall (fun e => wfo e = true) l.
  Proof.
    induction l as [|a r IH]; intros H; [constructor|]. cbn [BuildL.allwf] in H.
    apply andb_true_iff in H as [H1 H2]. constructor; auto.
  Qed.
  Lemma allpk_Forall (l : list op) : allpk l = true -> Forall (fun e => prims_ok e) l.
  Proof.
    induction l as [|a r IH]; intros H; [constructor|]. cbn [allpk] in H.
    apply andb_true_iff in H as [H1 H2]. constructor; auto.
  Qed.
  Lemma squares_maps (l : list op) :
    forallb (@is_square K) l = true <-> map (@in_struct K) l = map (@out_struct K) l.
  Proof.
    induction l as [|a r IH]; cbn [forallb map]; [split; reflexivity|].
    rewrite andb_true_iff, IH, is_square_true. split.
    - intros [-> ->]. reflexivity.
    - intros H; inversion H; auto.
  Qed.

  Lemma blocks_rel l : forall l',
    Forall2 (fun a b => inverse_r a = Ok b) l l' ->
    Forall (fun e => forall e', wfo e = true -> prims_ok e -> inverse_r e = Ok e' -> inv_rel e e') l ->
    allwf l = true -> allpk l = true ->
    allwf l' = true /\ map (@in_struct K) l' = map (@out_struct K) l /\
    map (@out_struct K) l' = map (@in_struct K) l /\ (allmv l = true -> allpk l' = true).
  Proof.
    induction 1 as [|a a' r r' Ha _ IHr]; intros IH W P.
    - repeat split; reflexivity.
    - inversion IH as [|? ? IHa IHl]; subst. cbn [BuildL.allwf allpk] in W, P.
      apply andb_true_iff in W as [Wa W]. apply andb_true_iff in P as [Pa P].
      destruct (IHa _ Wa Pa Ha) as (Wa' & Ia & Oa & Ma).
      destruct (IHr IHl W P) as (W' & I' & O' & M').
      cbn [BuildL.allwf map allmv allpk]. rewrite Wa', W', Ia, Oa, I', O'. repeat split.
      intros M. apply andb_true_iff in M as [M1 M2]. specialize (Ma M1). unfold prims_ok in Ma.
      now rewrite Ma, (M' M2).
  Qed.

  (* ---------- inverse_structs ---------- *)
  Theorem inverse_rel : forall e e', wfo e = true -> prims_ok e -> inverse_r e = Ok e' -> inv_rel e e'.
  Proof.
    induction e as [i c si so p|i w x IH|i s|i k s|i l IH|i l IH|i b td l IH] using op_ind';
      intros e' W P H.
    - (* primitives *)
      destruct c; try (now apply default_rel).
      + (* diagonal: DiagonalInverseOperator(self) *)
        cbn [Inverse.inverse_r] in H. inversion H; subst e'. clear H. unfold inv_rel.
        destruct (wrap_structs K fresh WDiagInv (Prim i CDiagonal si so p)) as [-> ->].
        repeat split; auto. rewrite wfo_wrap. cbn. apply struct_eqb_refl.
      + (* move-axis: the transpose *)
        destruct p as [| | | |s d|].
        1-4, 6: cbn in H; inversion H; subst e'; clear H;
          match goal with |- inv_rel ?e (Wrap _ _ _) =>
            destruct (wrap_structs K fresh WTranspose e) as [I' O'] end;
          unfold inv_rel; repeat split; auto.
        cbn in H. inversion H; subst e'. clear H. unfold inv_rel. repeat split; try reflexivity.
        cbn [inv_movable]. intros M. unfold prims_ok in *. cbn [prims_okb] in *.
        unfold moveaxis_okb in *. apply andb_true_iff in P as [P1 P2]. apply struct_eqb_eq in P2. subst so.
        rewrite M. cbn [andb]. apply struct_eqb_true. symmetry. now apply move_struct_round.
      + (* QU rotation: the transpose *)
        cbn in H. inversion H; subst e'. clear H. unfold inv_rel.
        destruct (wrap_structs K fresh WQURotT (Prim i CQURotation si so p)) as [-> ->].
        repeat split; auto. rewrite wfo_wrap. cbn. apply struct_eqb_refl.
    - (* lazy wrappers *)
      cbn [Inverse.inverse_r] in H.
      destruct (isinst (wcls w) [CAbstractLazyInverse]) eqn:Ew; [|now apply default_rel].
      inversion H; subst e'. clear H. rewrite wfo_wrap in W. apply andb_true_iff in W as [Wx _]. unfold inv_rel.
      destruct (wrap_structs K i w x) as [-> ->]. repeat split; auto.
    - cbn in H. inversion H; subst e'. unfold inv_rel. repeat split; auto.
    - cbn in H. inversion H; subst e'. unfold inv_rel. repeat split; auto.
    - now apply default_rel.
    - now apply default_rel.
    - destruct b; try (now apply default_rel).
      rewrite (inverse_r_bdiag K k1 kmul kinv keqb fuel order) in H.
      destruct (forallb (@is_square K) l) eqn:Esq; [|now apply default_rel].
      apply result_bind_ok in H as (l' & Hl' & H).
      rewrite wfo_block in W. apply andb_true_iff in W as [_ Wa].
      unfold prims_ok in P. rewrite pk_block in P.
      destruct (blocks_rel _ _ (mapM_F2 _ _ _ _ _ Hl') IH Wa P) as (W' & I' & O' & M').
      destruct (mk_block_ok K _ _ _ _ H W') as [-> Wn]. unfold inv_rel.
      destruct (structs_block K fresh BDiag td l') as [-> ->].
      destruct (structs_block K i BDiag td l) as [-> ->]. rewrite I', O'.
      repeat split; auto.
  Qed.

  Theorem inverse_structs : forall e e', wfo e = true -> prims_ok e -> inverse_r e = Ok e' ->
    wfo e' = true /\ in_struct e' = out_struct e /\ out_struct e' = in_struct e.
  Proof.
    intros e e' W P H. destruct (inverse_rel _ _ W P H) as (W' & I' & O' & _). auto.
  Qed.
  Theorem inverse_prims_ok : forall e e', wfo e = true -> prims_ok e -> inv_movable e = true ->
    inverse_r e = Ok e' -> prims_ok e'.
  Proof.
    intros e e' W P M H. destruct (inverse_rel _ _ W P H) as (_ & _ & _ & P'). auto.
  Qed.
  (* a square operator and its inverse have the same structures *)
  Corollary inverse_structs_square : forall e e', wfo e = true -> prims_ok e -> is_square e = true ->
    inverse_r e = Ok e' ->
    wfo e' = true /\ in_struct e' = in_struct e /\ out_struct e' = out_struct e /\ is_square e' = true.
  Proof.
    intros e e' W P S H. destruct (inverse_structs _ _ W P H) as (W' & I' & O').
    apply is_square_true in S. repeat split; auto; try congruence.
    apply is_square_true. congruence.
  Qed.
  (* squareness is preserved both ways *)
  Corollary inverse_square_iff : forall e e', wfo e = true -> prims_ok e -> inverse_r e = Ok e' ->
    is_square e' = is_square e.
  Proof.
    intros e e' W P H. destruct (inverse_structs _ _ W P H) as (_ & I' & O').
    unfold is_square. rewrite I', O'.
    destruct (struct_eqb (in_struct e) (out_struct e)) eqn:E.
    - apply struct_eqb_true in E. apply struct_eqb_true. now symmetry.
    - destruct (struct_eqb (out_struct e) (in_struct e)) eqn:E'; [|reflexivity].
      apply struct_eqb_true in E'. rewrite E', struct_eqb_refl in E. discriminate.
  Qed.
  (* the shared core model Algebra.inverse (no recursion into nested block-diagonal blocks) *)
  Corollary inverse_structs_core : forall e e', wfo e = true -> prims_ok e -> flat_blocks K e = true ->
    inverse_a e = Ok e' ->
    wfo e' = true /\ in_struct e' = out_struct e /\ out_struct e' = in_struct e.
  Proof.
    intros e e' W P F H. rewrite (inverse_agrees K keqb k1 kmul kinv fuel order e W F) in H.
    now apply inverse_structs.
  Qed.

  (* ---------- inverse() of a plain operator returns block-diagonal nodes with square blocks ---------- *)
  Lemma square_blocks_intro i td (l : list op) : forallb (@is_square K) l = true ->
    Forall (fun b => square_blocks b = true) l -> square_blocks (Block i BDiag td l) = true.
  Proof.
    intros H1 H2. cbn [Inverse.square_blocks]. rewrite H1. cbn [andb].
    induction H2 as [|b r Hb _ IHr]; [reflexivity|]. cbn [forallb] in H1.
    apply andb_true_iff in H1 as [_ H1]. now rewrite Hb, (IHr H1).
  Qed.
  Lemma default_sb e e' : default_inverse e = Ok e' -> square_blocks e' = true.
  Proof. intros H. apply default_inv in H as (_ & r & _ & ->). reflexivity. Qed.

  Theorem inverse_square_blocks : forall e e', wfo e = true -> prims_ok e -> plain e = true ->
    inverse_r e = Ok e' -> square_blocks e' = true.
  Proof.
    induction e as [i c si so p|i w x IH|i s|i k s|i l IH|i l IH|i b td l IH] using op_ind';
      intros e' W P Hp H.
    - destruct c; try (eapply default_sb; exact H).
      + cbn in H. inversion H; subst. reflexivity.
      + destruct p; cbn in H; inversion H; subst; reflexivity.
      + cbn in H. inversion H; subst. reflexivity.
    - cbn [Inverse.plain] in Hp. cbn [Inverse.inverse_r] in H.
      destruct (isinst (wcls w) [CAbstractLazyInverse]); [discriminate|]. now apply default_sb in H.
    - cbn in H. inversion H; subst. reflexivity.
    - cbn in H. inversion H; subst. reflexivity.
    - now apply default_sb in H.
    - now apply default_sb in H.
    - destruct b; try (now apply default_sb in H).
      rewrite (inverse_r_bdiag K k1 kmul kinv keqb fuel order) in H.
      destruct (forallb (@is_square K) l) eqn:Esq; [|now apply default_sb in H].
      apply result_bind_ok in H as (l' & Hl' & H).
      rewrite wfo_block in W. apply andb_true_iff in W as [_ Wa].
      unfold prims_ok in P. rewrite pk_block in P.
      pose proof (mapM_F2 _ _ _ _ _ Hl') as F2.
      assert (IHrel : Forall (fun e => forall e', wfo e = true -> prims_ok e -> inverse_r e = Ok e' -> inv_rel e e') l).
      { apply Forall_forall. intros a _. apply inverse_rel. }
      destruct (blocks_rel _ _ F2 IHrel Wa P) as (W' & I' & O' & _).
      destruct (mk_block_ok K _ _ _ _ H W') as [-> _].
      apply square_blocks_intro.
      + apply squares_maps. apply squares_maps in Esq. congruence.
      + pose proof (allwf_Forall _ Wa) as FW. pose proof (allpk_Forall _ P) as FP.
        pose proof (plain_blocks K _ _ _ Hp) as FPl. clear - F2 IH FW FP FPl.
        induction F2 as [|a a' r r' Ha _ IHr]; [constructor|].
        inversion IH; subst. inversion FW; subst. inversion FP; subst. inversion FPl; subst.
        constructor; eauto.
  Qed.
End InvStructs.
Arguments inv_movable {K} e.
Arguments inv_rel {K} e e'.

(* ------------------------------------------------------------------------------------------ *)
(* X.I.I is defined: inverse() of what inverse() returned for a plain, guarded operator succeeds *)
Section InvTwice.
  Variable K : Type.
  Variable keqb : K -> K -> bool.
  Hypothesis keqb_eq : forall a b, keqb a b = true -> a = b.
  Variables (k0 k1 : K) (kmul : K -> K -> K) (kinv : K -> K).
  Variable regular : op K -> bool.
  Variable fuel : nat.
  Variable order : list rule_id.
  Notation op := (op K).
  Notation inverse_r := (inverse_r K keqb k1 kmul kinv fuel order).
  Notation default_inverse := (default_inverse K keqb k1 kmul fuel order).
  Notation inv_guard := (inv_guard K keqb k0 regular).
  Notation plain := (plain K).

  Lemma default_twice e e' : default_inverse e = Ok e' -> exists e'', inverse_r e' = Ok e''.
  Proof.
    intros H. apply (default_inv K keqb k1 kmul fuel order) in H as (_ & r & _ & ->). exists r. reflexivity.
  Qed.
  Lemma F2_length A B (P : A -> B -> Prop) l l' : Forall2 P l l' -> List.length l' = List.length l.
  Proof. induction 1; cbn; congruence. Qed.

  Theorem inverse_twice_defined : forall e e', wfo e = true -> prims_ok e -> plain e = true ->
    inv_guard e = true -> inverse_r e = Ok e' -> exists e'', inverse_r e' = Ok e''.
  Proof.
    induction e as [i c si so p|i w x IH|i s|i k s|i l IH|i l IH|i b td l IH] using op_ind';
      intros e' W P Hp Hg H.
    - destruct c; try (eapply default_twice; exact H).
      + cbn in H. inversion H; subst. eexists; reflexivity.
      + cbn [Inverse.inv_guard] in Hg. destruct p; try discriminate.
        cbn in H. inversion H; subst. eexists; reflexivity.
      + cbn in H. inversion H; subst. eexists; reflexivity.
    - cbn [Inverse.plain] in Hp. cbn [Inverse.inverse_r] in H.
      destruct (isinst (wcls w) [CAbstractLazyInverse]); [discriminate|]. eapply default_twice; exact H.
    - cbn in H. inversion H; subst. eexists; reflexivity.
    - cbn in H. inversion H; subst. eexists; reflexivity.
    - eapply default_twice; exact H.
    - eapply default_twice; exact H.
    - destruct b; try (eapply default_twice; exact H).
      rewrite (inverse_r_bdiag K k1 kmul kinv keqb fuel order) in H.
      destruct (forallb (@is_square K) l) eqn:Esq; [|eapply default_twice; exact H].
      apply result_bind_ok in H as (l' & Hl' & H).
      pose proof W as W0. rewrite wfo_block in W. apply andb_true_iff in W as [Wn Wa].
      rewrite andb_true_r in Wn. apply andb_true_iff in Wn as [Wne Wlen].
      pose proof P as P0. unfold prims_ok in P. rewrite pk_block in P.
      pose proof (mapM_F2 _ _ _ _ _ Hl') as F2.
      assert (IHrel : Forall (fun e => forall e', wfo e = true -> prims_ok e -> inverse_r e = Ok e' -> inv_rel e e') l).
      { apply Forall_forall. intros a _. apply inverse_rel. exact keqb_eq. }
      destruct (blocks_rel K keqb k1 kmul kinv fuel order _ _ F2 IHrel Wa P) as (W' & I' & O' & _).
      destruct (mk_block_ok K _ _ _ _ H W') as [-> _].
      rewrite (inverse_r_bdiag K k1 kmul kinv keqb fuel order).
      assert (Esq' : forallb (@is_square K) l' = true).
      { apply squares_maps. apply squares_maps in Esq. congruence. }
      rewrite Esq'.
      assert (Hl'' : exists l'', mapM inverse_r l' = Ok l'').
      { pose proof (allwf_Forall K _ Wa) as FW. pose proof (allpk_Forall K _ P) as FP.
        pose proof (plain_blocks K _ _ _ Hp) as FPl. pose proof (guard_blocks K k0 keqb regular _ _ _ Hg) as FG.
        clear - F2 IH FW FP FPl FG.
        induction F2 as [|a a' r r' Ha _ IHr]; [exists []; reflexivity|].
        inversion IH as [|? ? IHa IHl]; subst. inversion FW; subst. inversion FP; subst. inversion FPl; subst.
        inversion FG; subst. destruct (IHa a') as (a'' & Ea); auto. destruct IHr as (r'' & Er); auto.
        exists (a'' :: r''). cbn [mapM]. rewrite Ea, Er. reflexivity. }
      destruct Hl'' as (l'' & El''). rewrite El''. cbn [bind].
      pose proof (mapM_len _ _ _ _ _ El'') as Len2. pose proof (F2_length _ _ _ _ _ F2) as Len1.
      unfold mk_block. rewrite Len2, Len1, Wlen. cbn [negb].
      destruct l'' as [|b'' r'']; [|eexists; reflexivity].
      cbn in Len2. rewrite <- Len2 in Len1. rewrite <- Len1 in Wne. discriminate.
  Qed.
End InvTwice.

(* ------------------------------------------------------------------------------------------ *)
(* inv_inv without the premise on the result *)
Section InvInvFull.
  Variable K : Type.
  Variables (k0 k1 : K) (kadd kmul ksub : K -> K -> K) (kopp : K -> K) (kdiv : K -> K -> K) (kinv : K -> K).
  Hypothesis Fth : field_theory k0 k1 kadd kmul ksub kopp kdiv kinv (@eq K).
  Variable keqb : K -> K -> bool.
  Hypothesis keqb_spec : forall a b, keqb a b = true <-> a = b.
  Variable leafsem : op K -> value K -> option (value K).
  Variable regular : op K -> bool.
  Variable fuel : nat.
  Variable order : list rule_id.
  Hypothesis LF : leaf_facts K kadd kmul leafsem.
  Hypothesis IF : inv_facts K kadd kmul leafsem regular.
  Notation inverse_r := (inverse_r K keqb k1 kmul kinv fuel order).

  Theorem inv_inv_full : forall e e' e'', wfo e = true -> prims_ok e -> plain K e = true ->
    inv_guard K keqb k0 regular e = true -> inverse_r e = Ok e' -> inverse_r e' = Ok e'' ->
    den_le kadd kmul leafsem e e''.
  Proof.
    intros e e' e'' W P Hp Hg H1 H2.
    apply (InverseL.inv_inv K k0 k1 kadd kmul ksub kopp kdiv kinv Fth keqb keqb_spec leafsem regular
             fuel order LF IF e e' e'' Hp Hg H1); [|exact H2].
    exact (inverse_square_blocks K keqb (fun a b => proj1 (keqb_spec a b)) k1 kmul kinv fuel order e e' W P Hp H1).
  Qed.
  (* ... and X.I.I exists *)
  Theorem inv_inv_total : forall e e', wfo e = true -> prims_ok e -> plain K e = true ->
    inv_guard K keqb k0 regular e = true -> inverse_r e = Ok e' ->
    exists e'', inverse_r e' = Ok e'' /\ den_le kadd kmul leafsem e e''.
  Proof.
    intros e e' W P Hp Hg H1.
    destruct (inverse_twice_defined K keqb (fun a b => proj1 (keqb_spec a b)) k0 k1 kmul kinv regular fuel order
                e e' W P Hp Hg H1) as (e'' & H2).
    exists e''. split; [exact H2|]. eapply inv_inv_full; eauto.
  Qed.
End InvInvFull.
