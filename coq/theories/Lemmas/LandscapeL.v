(* Proofs about the model of furax/landscapes.py (Model/Landscape.v): rounding, machine integers,
   the pixel2index loop, the mixed-radix bijection, the dtype rule, constructors and coverage.
   Statements used by Props/C17.v end in _l. *)
From Coq Require Import ZArith QArith Qabs List Bool Lia ZifyBool Sorted.
From Furax Require Import Model.Landscape.
Import ListNotations.
Open Scope Z_scope.
Arguments prod : simpl never.

(* ---------- machine integers ---------- *)
Lemma pow2_split : forall w, 0 < w -> 2 ^ w = 2 * 2 ^ (w - 1).
Proof. intros w H. replace w with (Z.succ (w - 1)) at 1 by lia. apply Z.pow_succ_r. lia. Qed.

Lemma pow2_pos : forall w, 0 < w -> 0 < 2 ^ (w - 1).
Proof. intros. apply Z.pow_pos_nonneg; lia. Qed.

Lemma in_range_iff : forall w z, in_range w z = true <-> int_min w <= z <= int_max w.
Proof. unfold in_range. intros. lia. Qed.

Lemma wrap_small : forall w z, 0 < w -> int_min w <= z <= int_max w -> wrap w z = z.
Proof.
  intros w z Hw [H1 H2]. unfold wrap, int_min, int_max in *.
  rewrite (pow2_split w Hw). pose proof (pow2_pos w Hw).
  rewrite Z.mod_small; lia.
Qed.

Lemma wrap_in_range : forall w z, 0 < w -> int_min w <= wrap w z <= int_max w.
Proof.
  intros w z Hw. unfold wrap, int_min, int_max.
  pose proof (pow2_pos w Hw). rewrite (pow2_split w Hw).
  pose proof (Z.mod_pos_bound (z + 2 ^ (w - 1)) (2 * 2 ^ (w - 1))). lia.
Qed.

Lemma sat_small : forall w z, int_min w <= z <= int_max w -> sat w z = z.
Proof. unfold sat. intros. lia. Qed.

Lemma sat_in_range : forall w z, 0 < w -> int_min w <= sat w z <= int_max w.
Proof. intros w z Hw. unfold sat, int_min, int_max. pose proof (pow2_pos w Hw). lia. Qed.

(* clamping does not change the outcome of the validity test against a dimension that fits *)
Lemma sat_valid : forall w z n, 0 < w -> 0 < n <= int_max w ->
  ((0 <=? sat w z) && (sat w z <? n)) = ((0 <=? z) && (z <? n)).
Proof.
  intros w z n Hw Hn. unfold sat, int_min, int_max in *. pose proof (pow2_pos w Hw). lia.
Qed.

Lemma sat_valid_eq : forall w z n, 0 < w -> 0 < n <= int_max w ->
  ((0 <=? z) && (z <? n)) = true -> sat w z = z.
Proof.
  intros w z n Hw Hn H. apply sat_small. unfold int_min, int_max in *. pose proof (pow2_pos w Hw). lia.
Qed.

(* ---------- rounding ---------- *)
Definition rhe_core (n d : Z) : Z :=
  let f := n / d in let r2 := 2 * (n mod d) in
  if r2 <? d then f else if d <? r2 then f + 1 else if Z.even f then f else f + 1.

Lemma rhe_unfold : forall q, round_half_even q = rhe_core (Qnum q) (Zpos (Qden q)).
Proof. reflexivity. Qed.

Lemma rhe_core_near : forall n d i, 0 < d -> 2 * Z.abs (n - i * d) < d -> rhe_core n d = i.
Proof.
  intros n d i Hd H. unfold rhe_core.
  pose proof (Z.div_mod n d ltac:(lia)) as E.
  pose proof (Z.mod_pos_bound n d Hd) as B.
  set (f := n / d) in *. set (r := n mod d) in *.
  assert (K : n - i * d = d * (f - i) + r) by lia.
  rewrite K in H. clear K E.
  set (k := f - i) in *.
  assert (H' : - d < 2 * (d * k) + 2 * r < d) by lia. clear H.
  assert (Hk : k <= -2 \/ k = -1 \/ k = 0 \/ 1 <= k) by lia.
  destruct (2 * r <? d) eqn:E1.
  - assert (k = 0) by (destruct Hk as [?|[?|[?|?]]]; nia). lia.
  - destruct (d <? 2 * r) eqn:E2.
    + assert (k = -1) by (destruct Hk as [?|[?|[?|?]]]; nia). lia.
    + exfalso. assert (2 * r = d) by lia. destruct Hk as [?|[?|[?|?]]]; nia.
Qed.

Lemma rhe_core_tie : forall i d, 0 < d -> rhe_core (2 * i * d + d) (2 * d) = if Z.even i then i else i + 1.
Proof.
  intros i d Hd. unfold rhe_core.
  assert (Ed : (2 * i * d + d) / (2 * d) = i).
  { symmetry. apply (Z.div_unique _ _ i d); lia. }
  assert (Em : (2 * i * d + d) mod (2 * d) = d).
  { symmetry. apply (Z.mod_unique _ _ i d); lia. }
  rewrite Ed, Em.
  destruct (2 * d <? 2 * d) eqn:E1; [lia|]. reflexivity.
Qed.

(* the rounded value is within 1/2 of the coordinate; exactly at 1/2 only towards an even integer *)
Lemma rhe_core_spec : forall n d, 0 < d ->
  let i := rhe_core n d in
  2 * Z.abs (n - i * d) <= d /\ (2 * Z.abs (n - i * d) = d -> Z.even i = true).
Proof.
  intros n d Hd. unfold rhe_core.
  pose proof (Z.div_mod n d ltac:(lia)) as E.
  pose proof (Z.mod_pos_bound n d Hd) as B.
  set (f := n / d) in *. set (r := n mod d) in *.
  assert (K0 : n - f * d = r) by lia.
  assert (K1 : n - (f + 1) * d = r - d) by lia.
  destruct (2 * r <? d) eqn:E1; cbv zeta.
  - rewrite K0. split; [lia|]. intros. exfalso. lia.
  - destruct (d <? 2 * r) eqn:E2.
    + rewrite K1. split; [lia|]. intros; exfalso; lia.
    + assert (2 * r = d) by lia. destruct (Z.even f) eqn:Ef.
      * rewrite K0. split; [lia|]. auto.
      * rewrite K1. split; [lia|]. intros _. rewrite Z.even_add, Ef. reflexivity.
Qed.

Lemma Qabs_half_Z : forall q i,
  (Qabs (q - inject_Z i) < 1 # 2)%Q <-> 2 * Z.abs (Qnum q - i * Zpos (Qden q)) < Zpos (Qden q).
Proof.
  intros [n d] i. unfold Qlt, Qabs, Qminus, Qplus, Qopp, inject_Z. cbn [Qnum Qden].
  rewrite Pos.mul_1_r. split; intros; lia.
Qed.

Lemma rhe_near : forall q i, (Qabs (q - inject_Z i) < 1 # 2)%Q -> round_half_even q = i.
Proof.
  intros q i H. rewrite rhe_unfold. apply rhe_core_near; [lia|]. apply Qabs_half_Z. exact H.
Qed.

Lemma rhe_inject_Z : forall i, round_half_even (inject_Z i) = i.
Proof.
  intro i. apply rhe_near. unfold Qminus. rewrite Qplus_opp_r. reflexivity.
Qed.

Lemma rhe_tie : forall i, round_half_even (inject_Z i + (1 # 2)) = if Z.even i then i else i + 1.
Proof.
  intro i. rewrite rhe_unfold. unfold Qplus, inject_Z. cbn [Qnum Qden].
  replace (i * 2 + 1 * 1) with (2 * i * 1 + 1) by lia.
  change (Z.pos (1 * 2)) with (2 * 1). apply (rhe_core_tie i 1). lia.
Qed.

Lemma rhe_spec : forall q, let i := round_half_even q in
  (Qabs (q - inject_Z i) <= 1 # 2)%Q /\ ((Qabs (q - inject_Z i) == 1 # 2)%Q -> Z.even i = true).
Proof.
  intros q. cbv zeta. rewrite rhe_unfold.
  pose proof (rhe_core_spec (Qnum q) (Zpos (Qden q)) ltac:(lia)) as [H1 H2]. cbv zeta in *.
  set (i := rhe_core (Qnum q) (Zpos (Qden q))) in *.
  destruct q as [n d]. unfold Qle, Qeq, Qabs, Qminus, Qplus, Qopp, inject_Z in *. cbn [Qnum Qden] in *.
  rewrite Pos.mul_1_r. split; [lia|]. intros. apply H2. lia.
Qed.

(* round does not depend on the representation of the rational *)
Lemma rhe_compat : forall q q', (q == q')%Q -> round_half_even q = round_half_even q'.
Proof.
  intros q q' E.
  destruct (rhe_spec q) as [A1 A2]. destruct (rhe_spec q') as [B1 B2].
  set (i := round_half_even q) in *. set (j := round_half_even q') in *.
  rewrite E in A1, A2.
  destruct q' as [n d]. unfold Qle, Qeq, Qabs, Qminus, Qplus, Qopp, inject_Z in *. cbn [Qnum Qden] in *.
  rewrite Pos.mul_1_r in *.
  assert (Hd : 0 < Zpos d) by lia. set (D := Zpos d) in *.
  assert (Z.abs (i - j) <= 1) by nia.
  destruct (Z.eq_dec i j) as [|N]; [assumption|exfalso].
  assert (Hi : Z.abs (n * 1 + - i * D) * 2 = D) by nia.
  assert (Hj : Z.abs (n * 1 + - j * D) * 2 = D) by nia.
  specialize (A2 ltac:(lia)). specialize (B2 ltac:(lia)).
  assert (i = j + 1 \/ j = i + 1) as [->| ->] by lia.
  - rewrite Z.even_add in A2. rewrite B2 in A2. discriminate.
  - rewrite Z.even_add in B2. rewrite A2 in B2. discriminate.
Qed.

(* ---------- products, closed forms, bijection ---------- *)


Lemma prod_nil : prod [] = 1.
Proof. reflexivity. Qed.

Lemma prod_cons0 : forall n ps, prod (n :: ps) = n * prod ps.
Proof. reflexivity. Qed.

Lemma prod_pos : forall ps, all_pos ps -> 0 < prod ps.
Proof. induction 1; [rewrite prod_nil; lia|]. rewrite prod_cons0. nia. Qed.

Lemma prod_app : forall a b, prod (a ++ b) = prod a * prod b.
Proof.
  induction a; intros.
  - rewrite prod_nil. cbn [app]. ring.
  - cbn [app]. rewrite !prod_cons0, IHa. ring.
Qed.

Lemma prod_rev : forall l, prod (rev l) = prod l.
Proof.
  induction l; cbn [rev]; [reflexivity|].
  rewrite prod_app, IHl, !prod_cons0, prod_nil. ring.
Qed.

Lemma prod_cons : forall n ps, prod (n :: ps) = n * prod ps.
Proof. reflexivity. Qed.

(* in-map coordinates have an index in [0, N) *)
Lemma ravel_range : forall cs ps, length cs = length ps -> in_map cs ps = true ->
  0 <= ravel cs ps < prod ps.
Proof.
  induction cs as [|c cs IH]; intros [|n ps] L H; simpl in *; try discriminate.
  - unfold prod; simpl; lia.
  - apply andb_prop in H as [H1 H2]. specialize (IH ps ltac:(lia) H2). rewrite prod_cons. nia.
Qed.

Lemma in_map_length_pos : forall cs ps, length cs = length ps -> in_map cs ps = true -> all_pos ps.
Proof.
  induction cs as [|c cs IH]; intros [|n ps] L H; simpl in *; try discriminate; constructor.
  - lia.
  - apply andb_prop in H as [_ H]. apply IH; [lia|assumption].
Qed.

(* index2pixel inverts ravel on the map ... *)
Lemma index2pixel_ravel : forall cs ps, length cs = length ps -> in_map cs ps = true ->
  index2pixel ps (ravel cs ps) = cs.
Proof.
  induction cs as [|c cs IH]; intros [|n ps] L H; simpl in *; try discriminate; [reflexivity|].
  apply andb_prop in H as [H1 H2].
  assert (Em : (c + n * ravel cs ps) mod n = c).
  { symmetry. apply (Z.mod_unique _ _ (ravel cs ps) c); lia. }
  assert (Ed : (c + n * ravel cs ps) / n = ravel cs ps).
  { symmetry. apply (Z.div_unique _ _ (ravel cs ps) c); lia. }
  rewrite Em, Ed. f_equal. apply IH; [lia|assumption].
Qed.

(* ... and ravel inverts index2pixel on [0, N) *)
Lemma ravel_index2pixel : forall ps i, all_pos ps -> 0 <= i < prod ps ->
  length (index2pixel ps i) = length ps /\
  in_map (index2pixel ps i) ps = true /\
  ravel (index2pixel ps i) ps = i.
Proof.
  induction ps as [|n ps IH]; intros i P H; simpl.
  - unfold prod in H; simpl in H. repeat split; lia.
  - inversion P as [|? ? Hn P']; subst. rewrite prod_cons in H.
    pose proof (Z.mod_pos_bound i n Hn).
    pose proof (Z.div_mod i n ltac:(lia)).
    assert (0 <= i / n < prod ps).
    { split; [apply Z.div_pos; lia|]. apply Z.div_lt_upper_bound; lia. }
    destruct (IH (i / n) P' ltac:(assumption)) as (A & B & C).
    repeat split; [lia| |lia]. rewrite B. lia.
Qed.

(* the documented formula: index = sum_k c_k * prod_{j<k} n_j *)
Lemma stride_sum_cons : forall c cs n ps,
  stride_sum (c :: cs) (n :: ps) = c + n * stride_sum cs ps.
Proof.
  intros. unfold stride_sum. cbn [length]. rewrite <- cons_seq. cbn [map fold_right nth firstn].
  rewrite <- seq_shift, map_map, prod_nil.
  replace (c * 1) with c by ring. f_equal.
  generalize (seq 0 (length cs)). induction l as [|k l IHl]; cbn [map fold_right]; [ring|].
  rewrite IHl. cbn [nth firstn]. rewrite prod_cons0. ring.
Qed.

Lemma ravel_stride_sum : forall cs ps, (length cs <= length ps)%nat -> ravel cs ps = stride_sum cs ps.
Proof.
  induction cs as [|c cs IH]; intros [|n ps] L; simpl in *; try reflexivity; try lia.
  rewrite stride_sum_cons, IH; [reflexivity|lia].
Qed.

(* first coordinate fastest = row-major order of the map array, whose shape is the reversed pixel_shape *)
Lemma horner_app : forall a b acc i n, length a = length b ->
  horner acc (a ++ [i]) (b ++ [n]) = horner acc a b * n + i.
Proof.
  induction a as [|x a IH]; intros [|y b] acc i n L; cbn [length] in L; try lia; cbn [app horner].
  - reflexivity.
  - apply IH. lia.
Qed.

Lemma horner_rev : forall cs ps acc, length cs = length ps ->
  horner acc (rev cs) (rev ps) = acc * prod ps + ravel cs ps.
Proof.
  induction cs as [|c cs IH]; intros [|n ps] acc L; cbn [length] in L; try lia; cbn [rev ravel].
  - cbn [horner]. rewrite prod_nil. ring.
  - rewrite horner_app by (rewrite !rev_length; lia). rewrite IH by lia. rewrite prod_cons0. ring.
Qed.

Lemma ravel_row_major : forall cs ps, length cs = length ps -> ravel cs ps = c_order (rev cs) (rev ps).
Proof. intros. unfold c_order. rewrite horner_rev by assumption. ring. Qed.

(* ---------- the loop over unbounded integers is the closed form ---------- *)
Lemma ideal_fold_spec : forall ias dims stride ind valid,
  ideal_fold ias dims stride ind valid = (ind + stride * ravel ias dims, valid && in_map ias dims).
Proof.
  induction ias as [|ia ias IH]; intros [|dim dims] stride ind valid; simpl;
    try (f_equal; [ring|rewrite andb_true_r; reflexivity]).
  rewrite IH. f_equal; [ring|]. rewrite !andb_assoc. reflexivity.
Qed.

Lemma p2i_ideal_spec : forall i0 is n0 ps,
  p2i_ideal (n0 :: ps) (i0 :: is) =
  if in_map (i0 :: is) (n0 :: ps) then ravel (i0 :: is) (n0 :: ps) else -1.
Proof.
  intros. unfold p2i_ideal. rewrite ideal_fold_spec. simpl. reflexivity.
Qed.

(* ---------- widths ---------- *)
Definition width_ok (x64 : bool) (w : Z) : Prop := w = 32 \/ (w = 64 /\ x64 = true).

Lemma int_max_32 : int_max 32 = 2147483647. Proof. reflexivity. Qed.
Lemma int_min_32 : int_min 32 = -2147483648. Proof. reflexivity. Qed.
Lemma int_max_64 : int_max 64 = 9223372036854775807. Proof. reflexivity. Qed.
Lemma int_min_64 : int_min 64 = -9223372036854775808. Proof. reflexivity. Qed.

Lemma width_ok_pos : forall x64 w, width_ok x64 w -> 0 < w.
Proof. intros x64 w [->|[-> _]]; lia. Qed.

Lemma int_min_neg : forall w, 0 < w -> int_min w < 0.
Proof. intros w H. unfold int_min. pose proof (pow2_pos w H). lia. Qed.

(* a Python int that fits the array's dtype meets the array unchanged *)
Lemma lit_fits : forall x64 w v, width_ok x64 w -> int_min w <= v <= int_max w -> lit x64 w v = Some v.
Proof.
  intros x64 w v W H. unfold lit.
  assert (R : in_range (py_width x64) v = true).
  { apply in_range_iff. destruct W as [->|[-> ->]]; unfold py_width.
    - rewrite int_max_32, int_min_32 in H. destruct x64; [rewrite int_max_64, int_min_64|rewrite int_max_32, int_min_32]; lia.
    - exact H. }
  rewrite R. f_equal. apply wrap_small; [eapply width_ok_pos; eauto|assumption].
Qed.

(* ---------- the machine loop computes the closed form whenever everything fits ---------- *)
Lemma p2i_fold_spec : forall x64 w, width_ok x64 w ->
  forall ias dims stride ind valid,
  all_pos dims -> 0 < stride -> stride * prod dims <= int_max w ->
  (valid = true -> 0 <= ind < stride) ->
  exists ind', p2i_fold x64 w ias dims stride ind valid = Some (ind', valid && in_map ias dims)
     /\ (valid && in_map ias dims = true -> ind' = ind + stride * ravel ias dims).
Proof.
  intros x64 w W. pose proof (width_ok_pos _ _ W) as Hw. pose proof (int_min_neg w Hw) as Hmin.
  induction ias as [|ia ias IH]; intros [|dim dims] stride ind valid P S B V; cbn [p2i_fold in_map ravel].
  - exists ind. rewrite andb_true_r. split; [reflexivity|intros; ring].
  - exists ind. rewrite andb_true_r. split; [reflexivity|intros; ring].
  - exists ind. rewrite andb_true_r. split; [reflexivity|intros; ring].
  - inversion P as [|? ? Hd P']; subst. rewrite prod_cons0 in B.
    pose proof (prod_pos dims P') as HP.
    set (Pd := prod dims) in *.
    assert (Hsd : stride * dim * Pd <= int_max w) by (rewrite <- Z.mul_assoc; exact B).
    assert (Hsd1 : stride * dim <= stride * dim * Pd) by nia.
    assert (Hdim : dim <= stride * dim) by nia.
    assert (Hstr : stride <= stride * dim) by nia.
    rewrite (lit_fits x64 w dim W) by lia. rewrite (lit_fits x64 w stride W) by lia.
    destruct (IH dims (stride * dim) (wrap w (ind + wrap w (ia * stride)))
                 (valid && ((0 <=? ia) && (ia <? dim))) P' ltac:(nia) ltac:(lia)) as (ind' & E & F).
    { intro T. apply andb_prop in T as [T1 T2]. specialize (V T1).
      assert (0 <= ia < dim) by lia.
      assert (0 <= ia * stride <= (dim - 1) * stride) by nia.
      rewrite (wrap_small w (ia * stride)) by nia.
      rewrite wrap_small by nia. nia. }
    exists ind'. split.
    + rewrite E. rewrite !andb_assoc. reflexivity.
    + intro T. rewrite !andb_assoc in T. rewrite !andb_assoc in F. rewrite (F T).
      apply andb_prop in T as [T _]. apply andb_prop in T as [T T3]. apply andb_prop in T as [T1 T2].
      specialize (V T1).
      assert (0 <= ia < dim) by lia.
      assert (0 <= ia * stride <= (dim - 1) * stride) by nia.
      rewrite (wrap_small w (ia * stride)) by nia.
      rewrite wrap_small by nia. ring.
Qed.

(* clamping by astype is invisible on and off the map *)
Lemma in_map_sat : forall w, 0 < w -> forall is ps, Forall (fun n => 0 < n <= int_max w) ps ->
  in_map (map (sat w) is) ps = in_map is ps.
Proof.
  intros w Hw. induction is as [|i is IH]; intros [|n ps] F; cbn [map in_map]; try reflexivity.
  inversion F; subst. rewrite sat_valid by assumption. rewrite IH by assumption. reflexivity.
Qed.

Lemma ravel_sat : forall w, 0 < w -> forall is ps, Forall (fun n => 0 < n <= int_max w) ps ->
  in_map is ps = true -> ravel (map (sat w) is) ps = ravel is ps.
Proof.
  intros w Hw. induction is as [|i is IH]; intros [|n ps] F H; cbn [map in_map ravel] in *; try reflexivity.
  inversion F as [|? ? Fn F']; subst. apply andb_prop in H as [H1 H2].
  rewrite (sat_valid_eq w i n) by assumption. rewrite IH by assumption. reflexivity.
Qed.

Lemma dims_le_prod : forall ps, all_pos ps -> Forall (fun n => 0 < n <= prod ps) ps.
Proof.
  induction 1 as [|n ps Hn P IH]; constructor.
  - rewrite prod_cons0. pose proof (prod_pos ps P). nia.
  - rewrite prod_cons0. eapply Forall_impl; [|exact IH]. cbv beta. intros a Ha. nia.
Qed.


Lemma fits_width : forall x64 N, fits x64 N -> width_ok x64 (width x64 N) /\ N <= int_max (width x64 N).
Proof.
  intros x64 N F. unfold width, requested_width, effective_width.
  destruct (N <=? int_max 32) eqn:E.
  - split; [left; destruct x64; reflexivity|]. destruct x64; lia.
  - destruct F as [F|[-> F]]; [lia|]. split; [right; auto|assumption].
Qed.


Lemma to_int_sat : forall w c, 0 < w -> to_int w c = sat w (ideal_of w c).
Proof.
  intros w c Hw. destruct c; cbn [to_int ideal_of]; try reflexivity; symmetry; apply sat_small.
  - unfold int_min, int_max. pose proof (pow2_pos w Hw). lia.
  - unfold int_min, int_max. pose proof (pow2_pos w Hw). lia.
  - unfold int_min, int_max. pose proof (pow2_pos w Hw). lia.
Qed.

Lemma ideal_of_fin : forall w qs, map (ideal_of w) (fin qs) = rounded qs.
Proof. intros. unfold fin, rounded. rewrite map_map. reflexivity. Qed.

Lemma fits_len : forall x64 N, fits x64 N -> (int_max 64 <? N) = false.
Proof.
  intros x64 N [F|[_ F]]; [rewrite int_max_32 in F; rewrite int_max_64|]; lia.
Qed.

Lemma p2i_gen_core : forall rule x64 N ps cs, fits x64 N ->
  p2i_gen rule x64 N ps cs = p2i_core rule x64 N ps cs.
Proof. intros. unfold p2i_gen. rewrite (fits_len x64 N) by assumption. reflexivity. Qed.

(* master statement: machine computation = unbounded computation, for every coordinate tuple *)
Lemma p2i_gen_ideal_coords : forall x64 N ps cs, all_pos ps -> prod ps <= N -> fits x64 N ->
  cs <> [] -> ps <> [] ->
  p2i_gen requested_width x64 N ps cs =
  Index (width x64 N) (p2i_ideal ps (map (ideal_of (width x64 N)) cs)).
Proof.
  intros x64 N ps cs P L F Hq Hp.
  destruct cs as [|c0 cs]; [contradiction|]. destruct ps as [|n0 ps]; [contradiction|].
  destruct (fits_width x64 N F) as [W M].
  rewrite p2i_gen_core by assumption.
  unfold p2i_core. fold (width x64 N). set (w := width x64 N) in *.
  pose proof (width_ok_pos _ _ W) as Hw. pose proof (int_min_neg w Hw) as Hmin.
  inversion P as [|? ? Hn0 P']; subst.
  pose proof (prod_pos ps P') as HP. rewrite prod_cons0 in L.
  assert (Hall : Forall (fun n => 0 < n <= int_max w) (n0 :: ps)).
  { eapply Forall_impl; [|apply dims_le_prod; exact P]. cbv beta. intros a Ha.
    rewrite prod_cons0 in Ha. lia. }
  inversion Hall as [|? ? Hn0' Hall']; subst.
  rewrite (lit_fits x64 w n0 W) by lia.
  rewrite (to_int_sat w c0 Hw). set (r0 := ideal_of w c0).
  rewrite sat_valid by assumption.
  assert (Em : map (to_int w) cs = map (sat w) (map (ideal_of w) cs)).
  { rewrite map_map. apply map_ext. intro c. apply to_int_sat. exact Hw. }
  rewrite Em. set (rs := map (ideal_of w) cs).
  destruct (p2i_fold_spec x64 w W (map (sat w) rs) ps n0 (sat w r0)
              ((0 <=? r0) && (r0 <? n0)) P' Hn0 ltac:(lia)) as (ind' & E & G).
  { intro T. rewrite (sat_valid_eq w r0 n0) by assumption. lia. }
  rewrite E. rewrite in_map_sat in * by assumption.
  f_equal. cbn [map]. fold r0. fold rs. rewrite p2i_ideal_spec. cbn [in_map ravel].
  destruct ((0 <=? r0) && (r0 <? n0) && in_map rs ps) eqn:V; [|reflexivity].
  rewrite (G eq_refl). apply andb_prop in V as [V1 V2].
  rewrite (sat_valid_eq w r0 n0) by assumption. rewrite ravel_sat by assumption. reflexivity.
Qed.

Lemma p2i_gen_ideal : forall x64 N ps qs, all_pos ps -> prod ps <= N -> fits x64 N ->
  qs <> [] -> ps <> [] ->
  p2i_gen requested_width x64 N ps (fin qs) = Index (width x64 N) (p2i_ideal ps (rounded qs)).
Proof.
  intros. rewrite p2i_gen_ideal_coords; try assumption.
  - rewrite ideal_of_fin. reflexivity.
  - destruct qs; [contradiction|discriminate].
Qed.

(* ---------- specification of pixel2index for real coordinates ---------- *)
Lemma p2i_gen_spec : forall x64 N ps qs, all_pos ps -> prod ps <= N -> fits x64 N ->
  qs <> [] -> ps <> [] ->
  p2i_gen requested_width x64 N ps (fin qs) =
  Index (width x64 N) (if in_map (rounded qs) ps then ravel (rounded qs) ps else -1).
Proof.
  intros x64 N ps qs P L F Hq Hp. rewrite p2i_gen_ideal by assumption.
  destruct qs as [|q qs]; [contradiction|]. destruct ps as [|n ps]; [contradiction|].
  unfold rounded. cbn [map]. rewrite p2i_ideal_spec. reflexivity.
Qed.

Lemma p2i_spec_l : forall x64 ps qs, all_pos ps -> fits x64 (prod ps) -> qs <> [] -> ps <> [] ->
  p2i x64 ps (fin qs) =
  Index (width x64 (prod ps)) (if in_map (rounded qs) ps then ravel (rounded qs) ps else -1).
Proof. intros. unfold p2i. apply p2i_gen_spec; try assumption. lia. Qed.


Lemma rounded_ints : forall cs, rounded (ints cs) = cs.
Proof.
  induction cs; [reflexivity|]. unfold rounded, ints in *. cbn [map]. rewrite rhe_inject_Z. f_equal. assumption.
Qed.

Lemma ints_nil : forall cs, ints cs <> [] <-> cs <> [].
Proof. intros [|c cs]; cbn; split; intro H; try contradiction; discriminate. Qed.

Lemma length_nonnil : forall (A B : Type) (a : list A) (b : list B), length a = length b -> b <> [] -> a <> [].
Proof. intros A B [|x a] [|y b] L H; try discriminate; try contradiction. Qed.

(* p2i_formula *)
Lemma p2i_formula_l : forall x64 ps cs, all_pos ps -> fits x64 (prod ps) -> ps <> [] ->
  length cs = length ps -> in_map cs ps = true ->
  p2i x64 ps (fin (ints cs)) = Index (width x64 (prod ps)) (stride_sum cs ps).
Proof.
  intros x64 ps cs P F Hp L H.
  rewrite p2i_spec_l; try assumption.
  - rewrite rounded_ints, H, ravel_stride_sum by lia. reflexivity.
  - apply ints_nil. eapply length_nonnil; eauto.
Qed.

(* row-major order of the map: the index addresses element (c_{d-1}, ..., c_0) of an array of
   shape (n_{d-1}, ..., n_0) = self.shape in C order *)
Lemma p2i_row_major_l : forall x64 ps cs, all_pos ps -> fits x64 (prod ps) -> ps <> [] ->
  length cs = length ps -> in_map cs ps = true ->
  p2i x64 ps (fin (ints cs)) = Index (width x64 (prod ps)) (c_order (rev cs) (rev ps)).
Proof.
  intros x64 ps cs P F Hp L H.
  rewrite p2i_spec_l; try assumption.
  - rewrite rounded_ints, H, ravel_row_major by assumption. reflexivity.
  - apply ints_nil. eapply length_nonnil; eauto.
Qed.

Lemma p2i_zero_coordinates_l : forall x64 ps, fits x64 (prod ps) -> p2i x64 ps [] = Raised TypeError.
Proof. intros. unfold p2i. rewrite p2i_gen_core by assumption. reflexivity. Qed.

(* p2i_range *)
Lemma p2i_range_l : forall x64 ps cs, all_pos ps -> fits x64 (prod ps) -> ps <> [] ->
  length cs = length ps -> in_map cs ps = true ->
  exists i, p2i x64 ps (fin (ints cs)) = Index (width x64 (prod ps)) i /\ 0 <= i < prod ps.
Proof.
  intros x64 ps cs P F Hp L H. exists (ravel cs ps). split; [|apply ravel_range; assumption].
  rewrite p2i_spec_l; try assumption.
  - rewrite rounded_ints, H. reflexivity.
  - apply ints_nil. eapply length_nonnil; eauto.
Qed.

(* whatever the real coordinates: -1 or an index of the map *)
Lemma p2i_total_l : forall x64 ps qs, all_pos ps -> fits x64 (prod ps) -> ps <> [] ->
  length qs = length ps ->
  exists i, p2i x64 ps (fin qs) = Index (width x64 (prod ps)) i /\
            ((in_map (rounded qs) ps = false /\ i = -1) \/
             (in_map (rounded qs) ps = true /\ 0 <= i < prod ps)).
Proof.
  intros x64 ps qs P F Hp L.
  rewrite p2i_spec_l; try assumption; [|eapply length_nonnil; eauto].
  destruct (in_map (rounded qs) ps) eqn:E; eexists; split; try reflexivity.
  - right. split; [reflexivity|]. apply ravel_range; [|assumption]. unfold rounded. rewrite map_length. exact L.
  - left. split; reflexivity.
Qed.

(* p2i_bijection *)
Lemma p2i_injective_l : forall x64 ps cs cs', all_pos ps -> fits x64 (prod ps) -> ps <> [] ->
  length cs = length ps -> in_map cs ps = true ->
  length cs' = length ps -> in_map cs' ps = true ->
  p2i x64 ps (fin (ints cs)) = p2i x64 ps (fin (ints cs')) -> cs = cs'.
Proof.
  intros x64 ps cs cs' P F Hp L H L' H' E.
  assert (Hc : ints cs <> []) by (apply ints_nil; eapply length_nonnil; eauto).
  assert (Hc' : ints cs' <> []) by (apply ints_nil; eapply length_nonnil; eauto).
  rewrite !p2i_spec_l in E by assumption. rewrite !rounded_ints, H, H' in E.
  injection E as E. rewrite <- (index2pixel_ravel cs ps L H), <- (index2pixel_ravel cs' ps L' H'), E.
  reflexivity.
Qed.

Lemma p2i_surjective_l : forall x64 ps i, all_pos ps -> fits x64 (prod ps) -> ps <> [] ->
  0 <= i < prod ps ->
  length (index2pixel ps i) = length ps /\ in_map (index2pixel ps i) ps = true /\
  p2i x64 ps (fin (ints (index2pixel ps i))) = Index (width x64 (prod ps)) i.
Proof.
  intros x64 ps i P F Hp Hi. destruct (ravel_index2pixel ps i P Hi) as (A & B & C).
  repeat split; try assumption.
  rewrite p2i_spec_l; try assumption.
  - rewrite rounded_ints, B, C. reflexivity.
  - apply ints_nil. eapply length_nonnil; eauto.
Qed.

Lemma p2i_inverse_l : forall x64 ps cs i, all_pos ps -> fits x64 (prod ps) -> ps <> [] ->
  length cs = length ps -> in_map cs ps = true ->
  p2i x64 ps (fin (ints cs)) = Index (width x64 (prod ps)) i -> index2pixel ps i = cs.
Proof.
  intros x64 ps cs i P F Hp L H E.
  rewrite p2i_spec_l in E; try assumption; [|apply ints_nil; eapply length_nonnil; eauto].
  rewrite rounded_ints, H in E. injection E as <-. apply index2pixel_ravel; assumption.
Qed.

(* p2i_outside *)
Lemma in_map_false_nth : forall cs ps k, (k < length cs)%nat -> (k < length ps)%nat ->
  ~ (0 <= nth k cs 0 < nth k ps 0) -> in_map cs ps = false.
Proof.
  induction cs as [|c cs IH]; intros [|n ps] k Lc Lp H; cbn [length] in *; try lia.
  cbn [in_map]. destruct k as [|k]; cbn [nth] in H.
  - destruct ((0 <=? c) && (c <? n)) eqn:E; [lia|reflexivity].
  - rewrite (IH ps k) by (assumption || lia). apply andb_false_r.
Qed.

Lemma in_map_true_nth : forall cs ps k, (k < length cs)%nat -> (k < length ps)%nat ->
  in_map cs ps = true -> 0 <= nth k cs 0 < nth k ps 0.
Proof.
  induction cs as [|c cs IH]; intros [|n ps] k Lc Lp H; cbn [length] in *; try lia.
  cbn [in_map] in H. apply andb_prop in H as [H1 H2]. destruct k as [|k]; cbn [nth].
  - lia.
  - apply IH; [lia|lia|assumption].
Qed.

Lemma p2i_outside_l : forall x64 ps qs k, all_pos ps -> fits x64 (prod ps) -> ps <> [] ->
  (k < length qs)%nat -> (k < length ps)%nat ->
  ~ (0 <= round_half_even (nth k qs 0%Q) < nth k ps 0) ->
  p2i x64 ps (fin qs) = Index (width x64 (prod ps)) (-1).
Proof.
  intros x64 ps qs k P F Hp Lq Lp H.
  rewrite p2i_spec_l; try assumption; [|destruct qs; [cbn in Lq; lia|discriminate]].
  rewrite (in_map_false_nth (rounded qs) ps k); try assumption.
  - reflexivity.
  - unfold rounded. rewrite map_length. exact Lq.
  - unfold rounded. rewrite <- (map_nth round_half_even qs 0%Q k) in H. exact H.
Qed.

(* -1 is returned only for a coordinate outside the map *)
Lemma p2i_minus_one_l : forall x64 ps qs, all_pos ps -> fits x64 (prod ps) -> ps <> [] ->
  length qs = length ps ->
  (p2i x64 ps (fin qs) = Index (width x64 (prod ps)) (-1) <-> in_map (rounded qs) ps = false).
Proof.
  intros x64 ps qs P F Hp L.
  destruct (p2i_total_l x64 ps qs P F Hp L) as (i & E & [[A B]|[A B]]); rewrite E, A.
  - subst. split; auto.
  - split; intro H; [injection H as H; lia|discriminate].
Qed.

(* p2i_rounding: only the rounded coordinates matter (for any dtype rule, any width) *)
Lemma p2i_gen_rounded : forall rule x64 N ps qs qs', rounded qs = rounded qs' ->
  p2i_gen rule x64 N ps (fin qs) = p2i_gen rule x64 N ps (fin qs').
Proof.
  intros rule x64 N ps qs qs' E. unfold p2i_gen.
  destruct (int_max 64 <? N); [reflexivity|]. unfold p2i_core.
  destruct qs as [|q qs], qs' as [|q' qs']; try discriminate; [reflexivity|].
  unfold rounded in E. cbn [map] in E. injection E as E0 E. cbn [fin map to_int].
  rewrite E0. destruct ps as [|n0 ps]; [reflexivity|].
  replace (map (to_int (effective_width x64 (rule N))) (map Fin qs))
    with (map (to_int (effective_width x64 (rule N))) (map Fin qs')); [reflexivity|].
  rewrite !map_map. cbn [to_int]. rewrite <- !(map_map round_half_even (sat _)). rewrite E. reflexivity.
Qed.

Lemma rounded_near : forall qs is,
  Forall2 (fun q i => (Qabs (q - inject_Z i) < 1 # 2)%Q) qs is -> rounded qs = is.
Proof.
  induction 1 as [|q i qs is H _ IH]; [reflexivity|]. unfold rounded in *. cbn [map].
  rewrite (rhe_near q i H), IH. reflexivity.
Qed.

Lemma p2i_rounding_l : forall x64 ps qs is,
  Forall2 (fun q i => (Qabs (q - inject_Z i) < 1 # 2)%Q) qs is ->
  p2i x64 ps (fin qs) = p2i x64 ps (fin (ints is)).
Proof.
  intros. unfold p2i. apply p2i_gen_rounded. rewrite rounded_ints. apply rounded_near. assumption.
Qed.

(* representation independence of the rational coordinates *)
Lemma p2i_Qeq_l : forall x64 ps qs qs', Forall2 Qeq qs qs' ->
  p2i x64 ps (fin qs) = p2i x64 ps (fin qs').
Proof.
  intros. unfold p2i. apply p2i_gen_rounded.
  induction H as [|q q' qs qs' H _ IH]; [reflexivity|]. unfold rounded in *. cbn [map].
  rewrite (rhe_compat q q' H), IH. reflexivity.
Qed.

(* ---------- infinite coordinates are outside; nan is not a real coordinate ---------- *)
Lemma p2i_infinite_l : forall x64 ps cs k, all_pos ps -> fits x64 (prod ps) -> ps <> [] ->
  (k < length ps)%nat -> (nth_error cs k = Some PInf \/ nth_error cs k = Some NInf) ->
  p2i x64 ps cs = Index (width x64 (prod ps)) (-1).
Proof.
  intros x64 ps cs k P F Hp Lp H. unfold p2i.
  assert (Lc : (k < length cs)%nat) by (apply nth_error_Some; destruct H as [H|H]; rewrite H; discriminate).
  rewrite p2i_gen_ideal_coords; try assumption; try lia; [|destruct cs; [cbn in Lc; lia|discriminate]].
  destruct (fits_width x64 (prod ps) F) as [W M]. set (w := width x64 (prod ps)) in *.
  pose proof (width_ok_pos _ _ W) as Hw. pose proof (int_min_neg w Hw) as Hmin.
  f_equal.
  assert (Hn : 0 < nth k ps 0 <= int_max w).
  { pose proof (dims_le_prod _ P) as D. rewrite Forall_forall in D.
    specialize (D (nth k ps 0) (nth_In _ _ Lp)). lia. }
  assert (Hf : in_map (map (ideal_of w) cs) ps = false).
  { apply (in_map_false_nth _ ps k); [rewrite map_length; exact Lc|exact Lp|].
    destruct H as [H|H]; apply (map_nth_error (ideal_of w)) in H; apply nth_error_nth with (d := 0) in H;
      rewrite H; cbn [ideal_of to_int]; lia. }
  destruct cs as [|c0 cs]; [cbn in Lc; lia|]. destruct ps as [|n0 ps]; [contradiction|].
  cbn [map] in *. rewrite p2i_ideal_spec, Hf. reflexivity.
Qed.

(* ---------- p2i_no_wrap: every manipulated integer fits the chosen width ---------- *)
Lemma fold_values_fit : forall w, 0 < w ->
  forall ias dims stride ind,
  all_pos dims -> 0 < stride -> stride * prod dims <= int_max w -> 0 <= ind < stride ->
  in_map ias dims = true ->
  Forall (fun v => in_range w v = true) (fold_values ias dims stride ind).
Proof.
  intros w Hw. pose proof (int_min_neg w Hw) as Hmin.
  induction ias as [|ia ias IH]; intros [|dim dims] stride ind P S B V H; cbn [fold_values]; try solve [constructor].
  inversion P as [|? ? Hd P']; subst. rewrite prod_cons0 in B.
  pose proof (prod_pos dims P') as HP. set (Pd := prod dims) in *.
  assert (Hsd : stride * dim * Pd <= int_max w) by (rewrite <- Z.mul_assoc; exact B).
  assert (Hsd1 : stride * dim <= stride * dim * Pd) by nia.
  assert (Hdim : dim <= stride * dim) by nia.
  assert (Hstr : stride <= stride * dim) by nia.
  cbn [in_map] in H. apply andb_prop in H as [H1 H2].
  assert (0 <= ia < dim) by lia.
  assert (0 <= ia * stride <= (dim - 1) * stride) by nia.
  assert (stride * dim <= int_max w) by lia.
  cbn [app]. do 5 (constructor; [cbv beta; apply in_range_iff; lia|]).
  apply IH; try assumption; lia.
Qed.

Lemma p2i_values_fit_l : forall x64 N ps is, all_pos ps -> prod ps <= N -> fits x64 N ->
  in_map is ps = true ->
  Forall (fun v => in_range (width x64 N) v = true) (p2i_values ps is).
Proof.
  intros x64 N ps is P L F H.
  destruct (fits_width x64 N F) as [W M]. set (w := width x64 N) in *.
  pose proof (width_ok_pos _ _ W) as Hw. pose proof (int_min_neg w Hw) as Hmin.
  destruct is as [|i0 is]; [constructor|]. destruct ps as [|n0 ps]; [constructor|].
  cbn [p2i_values app]. inversion P as [|? ? Hn0 P']; subst. rewrite prod_cons0 in L.
  pose proof (prod_pos ps P') as HP. cbn [in_map] in H. apply andb_prop in H as [H1 H2].
  assert (n0 <= n0 * prod ps) by nia.
  constructor; [cbv beta; apply in_range_iff; lia|]. constructor; [cbv beta; apply in_range_iff; lia|].
  apply fold_values_fit; try assumption; lia.
Qed.

(* once a coordinate is invalid, whatever the later (possibly wrapped) arithmetic does is masked *)
Lemma p2i_fold_masked : forall x64 w ias dims stride ind r,
  p2i_fold x64 w ias dims stride ind false = Some r -> snd r = false.
Proof.
  induction ias as [|ia ias IH]; intros [|dim dims] stride ind r H; cbn [p2i_fold] in H;
    try (injection H as <-; reflexivity).
  destruct (lit x64 w dim); [|discriminate]. destruct (lit x64 w stride); [|discriminate].
  cbn [andb] in H. eapply IH; eauto.
Qed.

(* ---------- dtype_wide_enough ---------- *)
Lemma dtype_wide_enough_l : forall x64 N, 0 <= N -> fits x64 N ->
  in_range (width x64 N) N = true /\ in_range (width x64 N) (N - 1) = true.
Proof.
  intros x64 N H0 F. destruct (fits_width x64 N F) as [W M].
  pose proof (int_min_neg _ (width_ok_pos _ _ W)). split; apply in_range_iff; lia.
Qed.

Lemma firstn_prod_le : forall ps k, all_pos ps -> 0 < prod (firstn k ps) <= prod ps.
Proof.
  induction ps as [|n ps IH]; intros k P.
  - rewrite firstn_nil, prod_nil. lia.
  - inversion P as [|? ? Hn P']; subst. pose proof (prod_pos ps P'). destruct k; cbn [firstn].
    + rewrite prod_nil, prod_cons0. nia.
    + rewrite !prod_cons0. specialize (IH k P'). nia.
Qed.

(* the dims and every stride (Python ints that meet the index array) fit as well *)
Lemma dims_strides_fit_l : forall x64 N ps, all_pos ps -> prod ps <= N -> fits x64 N ->
  Forall (fun n => in_range (width x64 N) n = true) ps /\
  forall k, in_range (width x64 N) (prod (firstn k ps)) = true.
Proof.
  intros x64 N ps P L F. destruct (fits_width x64 N F) as [W M].
  pose proof (int_min_neg _ (width_ok_pos _ _ W)). split.
  - eapply Forall_impl; [|apply dims_le_prod; exact P]. cbv beta. intros a Ha. apply in_range_iff. lia.
  - intro k. pose proof (firstn_prod_le ps k P). apply in_range_iff. lia.
Qed.

(* int32 is chosen exactly when N itself fits int32 *)
Lemma width_32_iff : forall N, requested_width N = 32 <-> N <= int_max 32.
Proof. intro N. unfold requested_width. destruct (N <=? int_max 32) eqn:E; split; intros; try lia; discriminate. Qed.

(* ---------- constructors ---------- *)
Lemma stokes_landscape_rejects : forall s p n,
  (exists e, stokes_landscape s p n = inr e) <->
  ((s = None /\ p = None) \/ (s <> None /\ p <> None)).
Proof.
  intros [s|] [p|] n; cbn; split; intros H.
  - right; split; discriminate.
  - eexists; reflexivity.
  - destruct H; discriminate.
  - destruct H as [[? ?]|[? ?]]; try discriminate; contradiction.
  - destruct H; discriminate.
  - destruct H as [[? ?]|[? ?]]; try discriminate; contradiction.
  - left; auto.
  - eexists; reflexivity.
Qed.

Lemma stokes_landscape_error_kind : forall s p n e, stokes_landscape s p n = inr e -> e = TypeError.
Proof. intros [s|] [p|] n e H; cbn in H; congruence. Qed.

Lemma stokes_landscape_shape : forall s n,
  stokes_landscape (Some s) None n = inl (mkLandscape s (rev s) n).
Proof. reflexivity. Qed.

Lemma stokes_landscape_pixel_shape : forall p n,
  stokes_landscape None (Some p) n = inl (mkLandscape (rev p) p n).
Proof. intros. cbn. rewrite rev_involutive. reflexivity. Qed.

Lemma stokes_landscape_either : forall p n,
  stokes_landscape None (Some p) n = stokes_landscape (Some (rev p)) None n.
Proof. intros. rewrite stokes_landscape_pixel_shape, stokes_landscape_shape, rev_involutive. reflexivity. Qed.

Lemma stokes_landscape_len : forall s p n l, stokes_landscape s p n = inl l ->
  l_pixel_shape l = rev (l_shape l) /\ len l = prod (l_shape l) /\ len l = prod (l_pixel_shape l) /\
  size l = n * len l.
Proof.
  intros [s|] [p|] n l H; cbn in H; try discriminate; injection H as <-; cbn [l_pixel_shape l_shape];
    unfold size, len; cbn [l_pixel_shape l_shape l_nstokes]; rewrite ?prod_rev; auto.
Qed.

Lemma stokes_landscape_p2i : forall s p n l x64 cs, stokes_landscape s p n = inl l ->
  landscape_p2i x64 l cs = p2i x64 (l_pixel_shape l) cs.
Proof.
  intros s p n l x64 cs H. destruct (stokes_landscape_len s p n l H) as (_ & _ & E & _).
  unfold landscape_p2i, p2i. rewrite E. reflexivity.
Qed.

Lemma healpix_landscape_len : forall nside n,
  len (healpix_landscape nside n) = 12 * nside ^ 2 /\
  l_pixel_shape (healpix_landscape nside n) = [12 * nside ^ 2] /\
  size (healpix_landscape nside n) = n * (12 * nside ^ 2).
Proof. intros. unfold size, len, healpix_landscape. cbn. rewrite !prod_cons0, prod_nil. repeat split; ring. Qed.

Lemma frequency_landscape_len : forall nside nf n,
  len (frequency_landscape nside nf n) = nf * (12 * nside ^ 2) /\
  l_pixel_shape (frequency_landscape nside nf n) = [12 * nside ^ 2].
Proof. intros. unfold len, frequency_landscape, healpix_landscape. cbn. rewrite !prod_cons0, prod_nil. split; [ring|reflexivity]. Qed.

(* HEALPix / frequency landscapes: a ring-scheme pixel number p (as produced by ang2pix) is its own index *)
Lemma healpix_p2i_l : forall x64 nside nf n p, 0 < nside -> 0 < nf ->
  fits x64 (nf * (12 * nside ^ 2)) -> 0 <= p < 12 * nside ^ 2 ->
  landscape_p2i x64 (frequency_landscape nside nf n) (fin (ints [p])) =
  Index (width x64 (nf * (12 * nside ^ 2))) p.
Proof.
  intros x64 nside nf n p Hn Hf F Hp. unfold landscape_p2i.
  destruct (frequency_landscape_len nside nf n) as [-> ->].
  assert (0 < 12 * nside ^ 2) by nia.
  rewrite p2i_gen_spec; try assumption; try discriminate.
  - rewrite rounded_ints. cbn [in_map ravel]. destruct ((0 <=? p) && (p <? 12 * nside ^ 2)) eqn:E; [|lia].
    cbn [andb]. f_equal. ring.
  - repeat constructor. assumption.
  - rewrite prod_cons0, prod_nil. nia.
Qed.

(* ---------- get_coverage ---------- *)
(* total count attached to the value p / to all values by unique *)
Fixpoint weight (ucs : list (Z * Z)) (p : Z) : Z :=
  match ucs with [] => 0 | ic :: r => (if fst ic =? p then snd ic else 0) + weight r p end.
Fixpoint total (ucs : list (Z * Z)) : Z :=
  match ucs with [] => 0 | ic :: r => snd ic + total r end.

Lemma weight_insert : forall x l p,
  weight (insert_count x l) p = weight l p + (if x =? p then 1 else 0).
Proof.
  induction l as [|[y c] l IH]; intro p; cbn [insert_count weight fst snd].
  - ring.
  - destruct (x <? y) eqn:E1; [cbn [weight fst snd]; ring|].
    destruct (x =? y) eqn:E2; cbn [weight fst snd].
    + assert (x = y) by lia. subst. destruct (y =? p); ring.
    + rewrite IH. ring.
Qed.

Lemma total_insert : forall x l, total (insert_count x l) = total l + 1.
Proof.
  induction l as [|[y c] l IH]; cbn [insert_count total fst snd]; [ring|].
  destruct (x <? y); [cbn [total fst snd]; ring|].
  destruct (x =? y); cbn [total fst snd]; [ring|]. rewrite IH. ring.
Qed.

Lemma weight_unique : forall l p, weight (unique_counts l) p = Z.of_nat (count_occ Z.eq_dec l p).
Proof.
  induction l as [|x l IH]; intro p; [reflexivity|].
  unfold unique_counts in *. cbn [fold_right count_occ]. rewrite weight_insert, IH.
  destruct (Z.eq_dec x p) as [->|N].
  - rewrite Z.eqb_refl. lia.
  - destruct (x =? p) eqn:E; lia.
Qed.

Lemma total_unique : forall l, total (unique_counts l) = Z.of_nat (length l).
Proof.
  induction l as [|x l IH]; [reflexivity|].
  unfold unique_counts in *. cbn [fold_right length]. rewrite total_insert, IH. lia.
Qed.

Lemma keys_insert : forall (Q : Z -> Prop) x l, Q x -> Forall (fun ic => Q (fst ic)) l ->
  Forall (fun ic => Q (fst ic)) (insert_count x l).
Proof.
  intros Q x l Hx. induction 1 as [|[y c] l Hy F IH]; cbn [insert_count].
  - repeat constructor. exact Hx.
  - destruct (x <? y); [repeat constructor; assumption|].
    destruct (x =? y); constructor; assumption.
Qed.

Lemma keys_unique : forall (Q : Z -> Prop) l, Forall Q l -> Forall (fun ic => Q (fst ic)) (unique_counts l).
Proof.
  intros Q. induction 1 as [|x l Hx F IH]; [constructor|].
  unfold unique_counts in *. cbn [fold_right]. apply keys_insert; assumption.
Qed.

(* the promises made to XLA (indices_are_sorted, unique_indices) hold: strictly increasing keys,
   and every count is positive *)
Lemma sorted_insert : forall x l, StronglySorted (fun a b => fst a < fst b) l ->
  StronglySorted (fun a b : Z * Z => fst a < fst b) (insert_count x l).
Proof.
  intros x l S. induction S as [|[y c] l S IH F]; cbn [insert_count].
  - repeat constructor.
  - destruct (x <? y) eqn:E1.
    + constructor; [constructor; assumption|]. constructor; [cbn; lia|].
      eapply Forall_impl; [|exact F]. cbn. intros; lia.
    + destruct (x =? y) eqn:E2.
      * constructor; assumption.
      * constructor; [assumption|].
        apply (keys_insert (fun k => y < k)); [lia|exact F].
Qed.

Lemma unique_counts_sorted : forall l, StronglySorted (fun a b : Z * Z => fst a < fst b) (unique_counts l).
Proof.
  induction l; [constructor|]. unfold unique_counts in *. cbn [fold_right]. apply sorted_insert. assumption.
Qed.

(* x.at[i].add(c) *)
Lemma add_nth_length : forall n c l, length (add_nth n c l) = length l.
Proof. induction n; intros c [|x l]; cbn [add_nth length]; auto. Qed.

Lemma add_nth_nth : forall n c l m, (n < length l)%nat ->
  nth m (add_nth n c l) 0 = nth m l 0 + (if Nat.eqb m n then c else 0).
Proof.
  induction n; intros c [|x l] m L; cbn [length] in L; try lia; cbn [add_nth].
  - destruct m; cbn [nth Nat.eqb]; ring.
  - destruct m; cbn [nth Nat.eqb]; [ring|]. apply IHn. lia.
Qed.

Lemma add_nth_sum : forall n c l, (n < length l)%nat -> zsum (add_nth n c l) = zsum l + c.
Proof.
  induction n; intros c [|x l] L; cbn [length] in L; try lia; cbn [add_nth]; unfold zsum in *; cbn [fold_right].
  - ring.
  - rewrite IHn by lia. ring.
Qed.

Lemma scatter_spec : forall ucs cov,
  Forall (fun ic => 0 <= fst ic < Z.of_nat (length cov)) ucs ->
  length (fold_left at_add ucs cov) = length cov /\
  (forall p, 0 <= p -> nth (Z.to_nat p) (fold_left at_add ucs cov) 0 = nth (Z.to_nat p) cov 0 + weight ucs p) /\
  zsum (fold_left at_add ucs cov) = zsum cov + total ucs.
Proof.
  induction ucs as [|[i c] ucs IH]; intros cov F; cbn [fold_left weight total].
  - repeat split; intros; ring.
  - inversion F as [|? ? Hi F']; subst. cbn [fst snd] in *.
    assert (E : at_add cov (i, c) = add_nth (Z.to_nat i) c cov).
    { unfold at_add. cbn [fst snd]. destruct (i <? 0) eqn:E1; [lia|].
      destruct ((0 <=? i) && (i <? Z.of_nat (length cov))) eqn:E2; [reflexivity|lia]. }
    rewrite E. specialize (IH (add_nth (Z.to_nat i) c cov)).
    rewrite add_nth_length in IH. destruct (IH F') as (A & B & C). repeat split.
    + exact A.
    + intros p Hp. rewrite (B p Hp), add_nth_nth by lia.
      destruct (Nat.eqb (Z.to_nat p) (Z.to_nat i)) eqn:E3.
      * apply Nat.eqb_eq in E3. assert (i = p) by lia. subst. rewrite Z.eqb_refl. ring.
      * apply Nat.eqb_neq in E3. destruct (i =? p) eqn:E4; [lia|ring].
    + rewrite C, add_nth_sum by lia. ring.
Qed.

Lemma repeat_nth0 : forall n m, nth m (repeat 0 n) 0 = 0.
Proof. induction n; destruct m; cbn; auto. Qed.
Lemma repeat_sum0 : forall n, zsum (repeat 0 n) = 0.
Proof. induction n; cbn; auto. Qed.

Lemma coverage_histogram_l : forall N idx, 0 <= N -> Forall (fun i => 0 <= i < N) idx ->
  length (get_coverage N idx) = Z.to_nat N /\
  (forall p, 0 <= p < N ->
     nth (Z.to_nat p) (get_coverage N idx) 0 = Z.of_nat (count_occ Z.eq_dec idx p)) /\
  zsum (get_coverage N idx) = Z.of_nat (length idx).
Proof.
  intros N idx HN F. unfold get_coverage.
  destruct (scatter_spec (unique_counts idx) (repeat 0 (Z.to_nat N))) as (A & B & C).
  { rewrite repeat_length, Z2Nat.id by lia. apply (keys_unique (fun i => 0 <= i < N)). exact F. }
  rewrite repeat_length in A. repeat split.
  - exact A.
  - intros p Hp. rewrite B by lia. rewrite repeat_nth0, weight_unique. ring.
  - rewrite C, repeat_sum0, total_unique. ring.
Qed.

(* ---------- broadcasting of the Sampling fields ---------- *)
Lemma prod_nonneg : forall s, all_nonneg s -> 0 <= prod s.
Proof.
  induction 1 as [|n s Hn _ IH]; [rewrite prod_nil; lia|rewrite prod_cons; lia].
Qed.

Lemma brel_nonneg : forall s t, Forall2 brel s t -> all_nonneg t -> all_nonneg s.
Proof.
  induction 1 as [|m n s t Hmn _ IH]; intros Ht; [constructor|].
  inversion Ht; subst. constructor; [unfold brel in Hmn; lia|apply IH; assumption].
Qed.

Lemma chunks_length : forall (A : Type) k n (l : list A), length (chunks k n l) = n.
Proof. induction n; intros; simpl; auto. Qed.

Lemma chunks_each : forall (A : Type) k n (l : list A), length l = (n * k)%nat ->
  Forall (fun c => length c = k) (chunks k n l).
Proof.
  induction n; intros l H; simpl; constructor.
  - apply firstn_length_le. lia.
  - apply IHn. rewrite skipn_length. lia.
Qed.

Lemma firstn_In : forall (A : Type) k (l : list A) x, In x (firstn k l) -> In x l.
Proof. intros A k l x H. rewrite <- (firstn_skipn k l). apply in_or_app. auto. Qed.
Lemma skipn_In : forall (A : Type) k (l : list A) x, In x (skipn k l) -> In x l.
Proof. intros A k l x H. rewrite <- (firstn_skipn k l). apply in_or_app. auto. Qed.

Lemma chunks_In : forall (A : Type) k n (l c : list A) x, In c (chunks k n l) -> In x c -> In x l.
Proof.
  induction n; intros l c x Hc Hx; simpl in Hc; [contradiction|].
  destruct Hc as [<-|Hc]; [eapply firstn_In; eauto|].
  eapply skipn_In. eapply IHn; eauto.
Qed.

Lemma flat_map_length_const : forall (A B : Type) (f : A -> list B) q cs,
  Forall (fun c => length (f c) = q) cs -> length (flat_map f cs) = (length cs * q)%nat.
Proof. induction 1; simpl; auto. rewrite app_length. lia. Qed.

Lemma concat_repeat_length : forall (A : Type) (x : list A) n,
  length (concat (repeat x n)) = (n * length x)%nat.
Proof. induction n; simpl; auto. rewrite app_length. lia. Qed.

Lemma bcast_length : forall (A : Type) s t, Forall2 brel s t -> all_nonneg t ->
  forall d : list A, length d = Z.to_nat (prod s) -> length (bcast s t d) = Z.to_nat (prod t).
Proof.
  induction 1 as [|m n s t Hmn Hst IH]; intros Ht d Hd; [exact Hd|].
  inversion Ht as [|? ? Hn Ht']; subst.
  pose proof (prod_nonneg _ Ht') as Pt. pose proof (prod_nonneg _ (brel_nonneg _ _ Hst Ht')) as Ps.
  rewrite prod_cons in *. simpl. destruct (m =? n) eqn:E.
  - assert (m = n) by lia. subst m.
    rewrite Z2Nat.inj_mul in Hd by lia. rewrite Z2Nat.inj_mul by lia.
    rewrite (flat_map_length_const _ _ _ (Z.to_nat (prod t))).
    + now rewrite chunks_length.
    + pose proof (chunks_each _ _ _ _ Hd) as Hc.
      eapply Forall_impl; [|exact Hc]. intros c Hlc. apply IH; auto.
  - destruct Hmn as [->| ->]; [lia|].
    rewrite concat_repeat_length, Z2Nat.inj_mul by lia. f_equal. apply IH; auto.
    rewrite Hd. f_equal. lia.
Qed.

Lemma bcast_In : forall (A : Type) s t (d : list A) x, In x (bcast s t d) -> In x d.
Proof.
  induction s as [|m s IH]; intros t d x H; [exact H|].
  destruct t as [|n t]; [exact H|]. simpl in H. destruct (m =? n).
  - apply in_flat_map in H. destruct H as (c & Hc & Hx). eapply chunks_In; eauto.
  - apply in_concat in H. destruct H as (c & Hc & Hx). apply repeat_spec in Hc. subst c. eauto.
Qed.

Lemma rev_repeat : forall (A : Type) (x : A) n, rev (repeat x n) = repeat x n.
Proof.
  induction n; simpl; auto. rewrite IHn. clear IHn.
  induction n; simpl; auto. now rewrite IHn.
Qed.

Lemma Forall2_rev : forall (A B : Type) (R : A -> B -> Prop) l l',
  Forall2 R l l' -> Forall2 R (rev l) (rev l').
Proof. induction 1; simpl; [constructor|]. apply Forall2_app; auto. Qed.

Lemma brel_repeat1 : forall r, Forall2 brel (repeat 1 (length r)) r.
Proof. induction r; simpl; constructor; auto. now right. Qed.
Lemma brel_refl : forall r, Forall2 brel r r.
Proof. induction r; constructor; auto. now left. Qed.

Lemma bdim_spec : forall a b c, bdim a b = Some c -> brel a c /\ brel b c /\ (0 <= a -> 0 <= b -> 0 <= c).
Proof.
  unfold bdim, brel. intros a b c H.
  destruct (a =? b) eqn:E1; [inversion H; lia|].
  destruct (a =? 1) eqn:E2; [inversion H; lia|].
  destruct (b =? 1) eqn:E3; [inversion H; lia|discriminate].
Qed.

Lemma bshape_rev_spec : forall r1 r2 r, bshape_rev r1 r2 = Some r ->
  (length r1 <= length r)%nat /\ (length r2 <= length r)%nat /\
  Forall2 brel (r1 ++ repeat 1 (length r - length r1)) r /\
  Forall2 brel (r2 ++ repeat 1 (length r - length r2)) r /\
  (all_nonneg r1 -> all_nonneg r2 -> all_nonneg r).
Proof.
  induction r1 as [|a r1 IH]; intros r2 r H; simpl in H.
  - inversion H; subst. simpl. rewrite Nat.sub_0_r, Nat.sub_diag, app_nil_r.
    split; [lia|]. split; [lia|]. split; [apply brel_repeat1|]. split; [apply brel_refl|auto].
  - destruct r2 as [|b r2].
    + inversion H; subst. simpl length. rewrite Nat.sub_diag, app_nil_r, Nat.sub_0_r.
      split; [lia|]. split; [simpl; lia|]. split; [apply brel_refl|]. split; [apply (brel_repeat1 (a :: r1))|auto].
    + destruct (bdim a b) as [c|] eqn:Ed; [|discriminate].
      destruct (bshape_rev r1 r2) as [r'|] eqn:Er; [|discriminate].
      inversion H; subst. destruct (IH _ _ Er) as (L1 & L2 & F1 & F2 & N).
      destruct (bdim_spec _ _ _ Ed) as (B1 & B2 & B3). simpl.
      split; [lia|]. split; [lia|]. split; [constructor; auto|]. split; [constructor; auto|].
      intros N1 N2. inversion N1; inversion N2; subst. constructor; [apply B3; assumption|apply N; assumption].
Qed.

Lemma bshape_spec : forall s1 s2 t, bshape s1 s2 = Some t ->
  broadcasts_to s1 t /\ broadcasts_to s2 t /\ (all_nonneg s1 -> all_nonneg s2 -> all_nonneg t).
Proof.
  unfold bshape, broadcasts_to, pad. intros s1 s2 t H.
  destruct (bshape_rev (rev s1) (rev s2)) as [r|] eqn:E; [|discriminate]. inversion H; subst. clear H.
  destruct (bshape_rev_spec _ _ _ E) as (L1 & L2 & F1 & F2 & N). rewrite !rev_length in *.
  split; [|split].
  - apply Forall2_rev in F1. rewrite rev_app_distr, rev_repeat, rev_involutive in F1. exact F1.
  - apply Forall2_rev in F2. rewrite rev_app_distr, rev_repeat, rev_involutive in F2. exact F2.
  - intros N1 N2. apply Forall_rev. apply N; apply Forall_rev; auto.
Qed.

Lemma prod_repeat1 : forall n, prod (repeat 1 n) = 1.
Proof. induction n; simpl; [apply prod_nil|]. rewrite prod_cons. lia. Qed.

Lemma broadcast_to_length : forall (A : Type) s t (d : list A), broadcasts_to s t -> all_nonneg t ->
  length d = Z.to_nat (prod s) -> length (broadcast_to s t d) = Z.to_nat (prod t).
Proof.
  unfold broadcast_to, broadcasts_to, pad. intros A s t d H Ht Hd. apply bcast_length; auto.
  rewrite prod_app, prod_repeat1, Z.mul_1_l. exact Hd.
Qed.

Lemma broadcast_to_In : forall (A : Type) s t (d : list A) x, In x (broadcast_to s t d) -> In x d.
Proof. unfold broadcast_to. intros. eapply bcast_In; eauto. Qed.

Lemma collect_length : forall w os w' l, collect w os = Ok w' l -> length l = length os.
Proof.
  induction os as [|o os IH]; intros w' l H; simpl in H; [inversion H; auto|].
  destruct o; [|discriminate]. destruct (collect w os) eqn:E; [|discriminate].
  inversion H; subst. simpl. f_equal. eapply IH; eauto.
Qed.

Lemma run_points_length : forall x64 l pts w idx, run_points x64 l pts = Ok w idx -> length idx = length pts.
Proof.
  unfold run_points, p2i_many. intros. erewrite collect_length; eauto. now rewrite map_length.
Qed.

Lemma sampling_coverage_spec_l : forall x64 l theta phi pa t w idx cov,
  well_formed theta -> well_formed phi -> all_nonneg pa ->
  sampling_coverage x64 (inl l) theta phi pa = Coverage t w idx cov ->
  bshape (f_shape theta) (f_shape phi) = Some t /\
  length idx = Z.to_nat (prod t) /\
  exists u, bshape t pa = Some u /\ 0 <= prod u /\
    cov = get_coverage (len l) (broadcast_to t u idx) /\
    length (broadcast_to t u idx) = Z.to_nat (prod u) /\
    (0 <= len l -> Forall (fun i => 0 <= i < len l) idx ->
       length cov = Z.to_nat (len l) /\ zsum cov = prod u /\
       forall p, 0 <= p < len l ->
         nth (Z.to_nat p) cov 0 = Z.of_nat (count_occ Z.eq_dec (broadcast_to t u idx) p)).
Proof.
  intros x64 l theta phi pa t w idx cov [Nt Lt] [Np Lp] Npa H. unfold sampling_coverage in H.
  destruct (bshape (f_shape theta) (f_shape phi)) as [t'|] eqn:Eb; [|discriminate].
  destruct (run_points _ _ _) as [w' idx'|] eqn:Er; [|discriminate].
  destruct (bshape t' pa) as [u|] eqn:Eu; [|discriminate].
  inversion H; subst. clear H.
  destruct (bshape_spec _ _ _ Eb) as (B1 & B2 & N). specialize (N Nt Np).
  destruct (bshape_spec _ _ _ Eu) as (B3 & _ & N'). specialize (N' N Npa).
  apply run_points_length in Er. rewrite map_length, combine_length in Er.
  rewrite !broadcast_to_length in Er by auto. rewrite Nat.min_id in Er.
  split; [reflexivity|]. split; [exact Er|]. exists u.
  pose proof (broadcast_to_length _ _ _ idx B3 N' Er) as Lb.
  repeat split; auto using prod_nonneg.
  - destruct (coverage_histogram_l (len l) (broadcast_to t u idx)) as (A1 & _ & _); auto.
    apply Forall_forall. intros x Hx. apply broadcast_to_In in Hx. rewrite Forall_forall in H0. auto.
  - destruct (coverage_histogram_l (len l) (broadcast_to t u idx)) as (_ & _ & A3); auto.
    { apply Forall_forall. intros x Hx. apply broadcast_to_In in Hx. rewrite Forall_forall in H0. auto. }
    rewrite A3, Lb. apply Z2Nat.id. now apply prod_nonneg.
  - intros p Hp. destruct (coverage_histogram_l (len l) (broadcast_to t u idx)) as (_ & A2 & _); auto.
    apply Forall_forall. intros x Hx. apply broadcast_to_In in Hx. rewrite Forall_forall in H0. auto.
Qed.
