(* C15, second stage - the executable leaf semantics of Model/Exec.v (quarter-turn angles `cs2`, no
   measured matrices: empty table) satisfies the facts about QU rotations, the half-wave plate and the
   polariser that Lemmas/Sound.v (C01: `leaf_facts`, fields lf_rr lf_rrT lf_rTr lf_rTrT lf_rot_hwp
   lf_rotT_hwp lf_pol_hwp) ASSUMES - all seven exactly as stated there (Model/Algebra.v `structs`
   makes the @square classes square, as the decorators do in furax). *)
From Coq Require Import List Bool Arith NArith ZArith QArith Qcanon Lia Ring.
From Furax Require Import Base.Pytree Model.Op Model.Algebra Model.Denote Model.Exec Lemmas.Sound.
Import ListNotations.
Local Close Scope Q_scope.
Local Close Scope Qc_scope.
Local Open Scope nat_scope.

Definition lsem : xop -> xvalue -> option xvalue := leafsem [].
Definition xden : xop -> xvalue -> option xvalue := denote Qcplus Qcmult lsem.

(* ---------- cos/sin of quarter turns ---------- *)
Definition quad (n : Z) : K * K :=
  match (n mod 4)%Z with
  | 0%Z => (k1, k0)
  | 1%Z => (k0, k1)
  | 2%Z => (Qcopp k1, k0)
  | _ => (k0, Qcopp k1)
  end.
Definition cmul (a b : K * K) : K * K :=
  (Qcminus (Qcmult (fst a) (fst b)) (Qcmult (snd a) (snd b)), Qcplus (Qcmult (snd a) (fst b)) (Qcmult (fst a) (snd b))).
Definition cconj (a : K * K) : K * K := (fst a, Qcopp (snd a)).

Lemma cs2_quad q : cs2 q = if negb (Qden q =? 1)%positive then None else Some (quad (Qnum q)).
Proof.
  unfold cs2, quad. destruct (negb (Qden q =? 1)%positive); [reflexivity|].
  destruct (Qnum q mod 4)%Z as [|[p|[p|p|]|]|p]; reflexivity.
Qed.
Lemma mod4_cases a : (a mod 4 = 0 \/ a mod 4 = 1 \/ a mod 4 = 2 \/ a mod 4 = 3)%Z.
Proof. pose proof (Z.mod_pos_bound a 4 ltac:(lia)). lia. Qed.
Ltac qc_pair := unfold cmul, cconj; cbn [fst snd]; f_equal; apply Qc_is_canon; reflexivity.
Lemma quad_add a b : quad (a + b) = cmul (quad a) (quad b).
Proof.
  unfold quad. rewrite Z.add_mod by lia.
  destruct (mod4_cases a) as [Ha|[Ha|[Ha|Ha]]], (mod4_cases b) as [Hb|[Hb|[Hb|Hb]]]; rewrite Ha, Hb;
    cbn -[Qcmult Qcminus Qcplus Qcopp k0 k1]; qc_pair.
Qed.
Lemma quad_opp a : quad (- a) = cconj (quad a).
Proof.
  unfold quad.
  assert (H : ((- a) mod 4 = (4 - a mod 4) mod 4)%Z).
  { replace (- a)%Z with ((4 - a mod 4) + (- (a / 4) - 1) * 4)%Z by (pose proof (Z.div_mod a 4 ltac:(lia)); lia).
    now rewrite Z.mod_add by lia. }
  rewrite H. destruct (mod4_cases a) as [Ha|[Ha|[Ha|Ha]]]; rewrite Ha; cbn -[Qcmult Qcminus Qcplus Qcopp k0 k1]; qc_pair.
Qed.

Lemma Qred_int n : Qred (Qmake n 1) = Qmake n 1.
Proof.
  unfold Qred. pose proof (Z.ggcd_gcd n 1) as Hg. pose proof (Z.ggcd_correct_divisors n 1) as Hd.
  destruct (Z.ggcd n 1) as [g [aa bb]]. cbn [fst snd] in *. rewrite Z.gcd_1_r in Hg. subst g.
  destruct Hd as [H1 H2]. rewrite Z.mul_1_l in H1, H2. subst. reflexivity.
Qed.
Lemma den1 q : negb (Qden q =? 1)%positive = false -> q = Qmake (Qnum q) 1.
Proof. destruct q as [n d]. cbn [Qden Qnum]. intros H. apply negb_false_iff, Pos.eqb_eq in H. now subst. Qed.
Lemma cs2_some q cs : cs2 q = Some cs -> q = Qmake (Qnum q) 1 /\ cs = quad (Qnum q).
Proof.
  rewrite cs2_quad. destruct (negb (Qden q =? 1)%positive) eqn:E; [discriminate|].
  intros H; injection H as <-. split; [now apply den1|reflexivity].
Qed.
Lemma cs2_int n : cs2 (Qmake n 1) = Some (quad n).
Proof. now rewrite cs2_quad. Qed.
Lemma cs2_add a b ca cb : cs2 a = Some ca -> cs2 b = Some cb -> cs2 (Qred (a + b)) = Some (cmul ca cb).
Proof.
  intros Ha Hb. apply cs2_some in Ha as [Ea ->], Hb as [Eb ->]. rewrite Ea, Eb.
  unfold Qplus. cbn [Qnum Qden]. rewrite !Z.mul_1_r. change (1 * 1)%positive with 1%positive.
  now rewrite Qred_int, cs2_int, quad_add.
Qed.
Lemma cs2_neg a ca : cs2 a = Some ca -> cs2 (Qred (- a)) = Some (cconj ca).
Proof.
  intros Ha. apply cs2_some in Ha as [Ea ->]. rewrite Ea. unfold Qopp. cbn [Qnum Qden].
  now rewrite Qred_int, cs2_int, quad_opp.
Qed.
Lemma cs2_sub a b ca cb : cs2 a = Some ca -> cs2 b = Some cb -> cs2 (Qred (a - b)) = Some (cmul ca (cconj cb)).
Proof.
  intros Ha Hb. apply cs2_some in Ha as [Ea ->], Hb as [Eb ->]. rewrite Ea, Eb.
  unfold Qminus, Qplus, Qopp. cbn [Qnum Qden]. rewrite !Z.mul_1_r. change (1 * 1)%positive with 1%positive.
  now rewrite Qred_int, cs2_int, quad_add, quad_opp.
Qed.

(* ---------- element-wise rotations ---------- *)
Definition sg (t : bool) (cs : K * K) : K * K := if t then cconj cs else cs.
Lemma rot_lists_comp t1 t2 (g : Q -> Q -> Q) :
  (forall al ar c1 c2, cs2 ar = Some c1 -> cs2 al = Some c2 -> cs2 (g al ar) = Some (cmul (sg t2 c2) (sg t1 c1))) ->
  forall ra la q u q1 u1 q2 u2,
    rot_lists t1 ra q u = Some (q1, u1) -> rot_lists t2 la q1 u1 = Some (q2, u2) ->
    rot_lists false (map (fun p => g (fst p) (snd p)) (combine la ra)) q u = Some (q2, u2).
Proof.
  intros Hg. induction ra as [|ar ra IH]; intros la q u q1 u1 q2 u2 H1 H2.
  - destruct q, u; cbn in H1; try discriminate. injection H1 as <- <-.
    destruct la; cbn in H2; [|discriminate]. injection H2 as <- <-. reflexivity.
  - destruct q as [|qn q], u as [|un u]; cbn [rot_lists] in H1; try discriminate.
    destruct (cs2 ar) as [[c1 s1]|] eqn:E1; [|discriminate].
    destruct (rot_lists t1 ra q u) as [[qs us]|] eqn:R1; [|discriminate]. injection H1 as <- <-.
    destruct la as [|al la]; cbn [rot_lists] in H2; [discriminate|].
    destruct (cs2 al) as [[c2 s2]|] eqn:E2; [|discriminate].
    destruct (rot_lists t2 la qs us) as [[qs2 us2]|] eqn:R2; [|discriminate]. injection H2 as <- <-.
    cbn [combine map fst snd rot_lists]. rewrite (Hg _ _ _ _ E1 E2), (IH _ _ _ _ _ _ _ R1 R2).
    unfold cmul, sg, cconj. destruct t1, t2; cbn [fst snd]; f_equal; f_equal; f_equal; ring.
Qed.

(* the four combinations, with the angle lists the model of QURotationRule computes *)
Lemma qsub_swap la ra : qsub ra la = map (fun p => Qred (snd p - fst p)%Q) (combine la ra).
Proof.
  unfold qsub. revert ra. induction la as [|a la IH]; intros [|b ra]; cbn; try reflexivity. now rewrite IH.
Qed.
Lemma qsub_neg la ra : qsub (qneg la) ra = map (fun p => Qred (Qred (- fst p) - snd p)%Q) (combine la ra).
Proof.
  unfold qsub, qneg. revert ra. induction la as [|a la IH]; intros [|b ra]; cbn; try reflexivity. now rewrite IH.
Qed.
Lemma cconj_cmul a b : cconj (cmul a b) = cmul (cconj a) (cconj b).
Proof. unfold cconj, cmul. cbn [fst snd]. f_equal; ring. Qed.
Lemma cmul_comm a b : cmul a b = cmul b a.
Proof. unfold cmul. f_equal; ring. Qed.

Lemma rot_lists_rr ra la q u q1 u1 q2 u2 :
  rot_lists false ra q u = Some (q1, u1) -> rot_lists false la q1 u1 = Some (q2, u2) ->
  rot_lists false (qadd la ra) q u = Some (q2, u2).
Proof. apply (rot_lists_comp false false (fun a b => Qred (a + b)%Q)). intros. now apply cs2_add. Qed.
Lemma rot_lists_rrT ra la q u q1 u1 q2 u2 :
  rot_lists true ra q u = Some (q1, u1) -> rot_lists false la q1 u1 = Some (q2, u2) ->
  rot_lists false (qsub la ra) q u = Some (q2, u2).
Proof. apply (rot_lists_comp true false (fun a b => Qred (a - b)%Q)). intros. now apply cs2_sub. Qed.
Lemma rot_lists_rTr ra la q u q1 u1 q2 u2 :
  rot_lists false ra q u = Some (q1, u1) -> rot_lists true la q1 u1 = Some (q2, u2) ->
  rot_lists false (qsub ra la) q u = Some (q2, u2).
Proof.
  rewrite qsub_swap. apply (rot_lists_comp false true (fun a b => Qred (b - a)%Q)). intros al ar c1 c2 H1 H2.
  cbn [sg]. rewrite cmul_comm. now apply cs2_sub.
Qed.
Lemma rot_lists_rTrT ra la q u q1 u1 q2 u2 :
  rot_lists true ra q u = Some (q1, u1) -> rot_lists true la q1 u1 = Some (q2, u2) ->
  rot_lists false (qsub (qneg la) ra) q u = Some (q2, u2).
Proof.
  rewrite qsub_neg. apply (rot_lists_comp true true (fun a b => Qred (Qred (- a) - b)%Q)). intros al ar c1 c2 H1 H2.
  cbn [sg]. apply cs2_sub; [now apply cs2_neg|exact H1].
Qed.

(* ---------- Stokes values ---------- *)
Ltac split_match H :=
  repeat match type of H with
         | context [match ?v with _ => _ end] => is_var v; destruct v; try discriminate H
         end.

Lemma rot_value_comp t1 t2 ra la lr :
  (forall q u q1 u1 q2 u2, rot_lists t1 ra q u = Some (q1, u1) -> rot_lists t2 la q1 u1 = Some (q2, u2) ->
     rot_lists false lr q u = Some (q2, u2)) ->
  forall x y1 y, rot_value t1 ra x = Some y1 -> rot_value t2 la y1 = Some y -> rot_value false lr x = Some y.
Proof.
  intros Hc x y1 y H1 H2. unfold rot_value in H1. split_match H1.
  - injection H1 as <-. cbn in H2. injection H2 as <-. reflexivity.
  - destruct (rot_lists t1 ra a a0) as [[q1 u1]|] eqn:R1; [|discriminate]. injection H1 as <-.
    cbn in H2. destruct (rot_lists t2 la q1 u1) as [[q2 u2]|] eqn:R2; [|discriminate]. injection H2 as <-.
    cbn. now rewrite (Hc _ _ _ _ _ _ R1 R2).
  - destruct (rot_lists t1 ra a0 a1) as [[q1 u1]|] eqn:R1; [|discriminate]. injection H1 as <-.
    cbn in H2. destruct (rot_lists t2 la q1 u1) as [[q2 u2]|] eqn:R2; [|discriminate]. injection H2 as <-.
    cbn. now rewrite (Hc _ _ _ _ _ _ R1 R2).
  - destruct (rot_lists t1 ra a0 a1) as [[q1 u1]|] eqn:R1; [|discriminate]. injection H1 as <-.
    cbn in H2. destruct (rot_lists t2 la q1 u1) as [[q2 u2]|] eqn:R2; [|discriminate]. injection H2 as <-.
    cbn. now rewrite (Hc _ _ _ _ _ _ R1 R2).
Qed.

(* ---------- the leaf semantics ---------- *)
Lemma lookup_nil_if (i : N) : (if (i =? 0)%N then None else lookup [] (2 * i)%N) = @None matrix.
Proof. now destruct (i =? 0)%N. Qed.
Lemma lsem_R i si so a x :
  lsem (Prim i CQURotation si so (PAngles a)) x = if negb (has_struct x si) then None else rot_value false a x.
Proof. unfold lsem, leafsem, in_struct, out_struct. cbn [structs fst snd square_cls]. now rewrite lookup_nil_if. Qed.
Lemma lsem_RT i j sj soj a x :
  lsem (Wrap i WQURotT (Prim j CQURotation sj soj (PAngles a))) x =
  if negb (has_struct x sj) then None else rot_value true a x.
Proof. unfold lsem, leafsem, in_struct, out_struct. cbn [structs fst snd square_cls]. now rewrite lookup_nil_if. Qed.
Lemma lsem_H i si so p x :
  lsem (Prim i CHWP si so p) x = if negb (has_struct x si) then None else hwp_value x.
Proof. unfold lsem, leafsem, in_struct, out_struct. cbn [structs fst snd square_cls]. now rewrite lookup_nil_if. Qed.
Lemma lsem_P i si so p x :
  lsem (Prim i CLinearPolarizer si so p) x = if negb (has_struct x si) then None else pol_value x.
Proof. unfold lsem, leafsem, in_struct, out_struct. cbn [structs fst snd square_cls]. now rewrite lookup_nil_if. Qed.

Ltac strip H := match type of H with (if negb ?b then None else _) = Some _ => destruct b eqn:?; cbn [negb] in H; [|discriminate H] end.

(* the four facts about products of rotations: exactly the fields of Sound.leaf_facts *)
Theorem exec_lf_rr : forall il sil sol la ir sir sor ra x y1 y,
  lsem (R K ir sir sor ra) x = Some y1 -> lsem (R K il sil sol la) y1 = Some y ->
  lsem (R K fresh sir sir (qadd la ra)) x = Some y.
Proof.
  unfold R. intros il sil sol la ir sir sor ra x y1 y H1 H2. rewrite lsem_R in H1. rewrite lsem_R in H2. rewrite lsem_R. strip H1. strip H2.
  cbn [negb]. exact (rot_value_comp false false ra la _ (rot_lists_rr ra la) x y1 y H1 H2).
Qed.
Theorem exec_lf_rrT : forall il sil sol la ir jr sjr sojr ra x y1 y,
  lsem (Wrap ir WQURotT (R K jr sjr sojr ra)) x = Some y1 -> lsem (R K il sil sol la) y1 = Some y ->
  lsem (R K fresh sjr sjr (qsub la ra)) x = Some y.
Proof.
  unfold R. intros il sil sol la ir jr sjr sojr ra x y1 y H1 H2. rewrite lsem_RT in H1. rewrite lsem_R in H2. rewrite lsem_R. strip H1. strip H2.
  cbn [negb]. exact (rot_value_comp true false ra la _ (rot_lists_rrT ra la) x y1 y H1 H2).
Qed.
Theorem exec_lf_rTr : forall il jl sjl sojl la ir sir sor ra x y1 y,
  lsem (R K ir sir sor ra) x = Some y1 -> lsem (Wrap il WQURotT (R K jl sjl sojl la)) y1 = Some y ->
  lsem (R K fresh sir sir (qsub ra la)) x = Some y.
Proof.
  unfold R. intros il jl sjl sojl la ir sir sor ra x y1 y H1 H2. rewrite lsem_RT in H2. rewrite lsem_R in H1. rewrite lsem_R. strip H1. strip H2.
  cbn [negb]. exact (rot_value_comp false true ra la _ (rot_lists_rTr ra la) x y1 y H1 H2).
Qed.
Theorem exec_lf_rTrT : forall il jl sjl sojl la ir jr sjr sojr ra x y1 y,
  lsem (Wrap ir WQURotT (R K jr sjr sojr ra)) x = Some y1 ->
  lsem (Wrap il WQURotT (R K jl sjl sojl la)) y1 = Some y ->
  lsem (R K fresh sjr sjr (qsub (qneg la) ra)) x = Some y.
Proof.
  unfold R. intros il jl sjl sojl la ir jr sjr sojr ra x y1 y H1 H2. rewrite lsem_RT in H1. rewrite lsem_RT in H2. rewrite lsem_R. strip H1. strip H2.
  cbn [negb]. exact (rot_value_comp true true ra la _ (rot_lists_rTrT ra la) x y1 y H1 H2).
Qed.

(* ---------- commutation with the half-wave plate ---------- *)
Lemma rot_lists_hwp t a : forall q u q' u', rot_lists t a q (negl u) = Some (q', u') ->
  exists u2, rot_lists (negb t) a q u = Some (q', u2) /\ u' = negl u2.
Proof.
  induction a as [|an a IH]; intros q u q' u' H.
  - destruct q, u; cbn in H; try discriminate. injection H as <- <-. exists []. split; reflexivity.
  - destruct q as [|qn q], u as [|un u]; cbn [negl map rot_lists] in H; try discriminate.
    destruct (cs2 an) as [[c s]|] eqn:E; [|discriminate].
    destruct (rot_lists t a q (map Qcopp u)) as [[qs us]|] eqn:R; [|discriminate]. injection H as <- <-.
    destruct (IH _ _ _ _ R) as (u2 & R2 & ->). cbn [rot_lists]. rewrite E, R2.
    exists ((Qcplus (Qcmult qn (if negb t then Qcopp s else s)) (Qcmult un c)) :: u2).
    destruct t; cbn [negb]; (split; [do 3 f_equal; ring | cbn [negl map]; f_equal; ring]).
Qed.
Lemma rot_value_hwp t a x y1 y : hwp_value x = Some y1 -> rot_value t a y1 = Some y ->
  exists y2, rot_value (negb t) a x = Some y2 /\ hwp_value y2 = Some y.
Proof.
  intros H1 H2. unfold hwp_value in H1. split_match H1; injection H1 as <-; cbn in H2.
  - injection H2 as <-. eexists. split; reflexivity.
  - destruct (rot_lists t a a0 (negl a1)) as [[q' u']|] eqn:R; [|discriminate]. injection H2 as <-.
    destruct (rot_lists_hwp _ _ _ _ _ _ R) as (u2 & R2 & ->). cbn. rewrite R2. eexists. split; reflexivity.
  - destruct (rot_lists t a a1 (negl a2)) as [[q' u']|] eqn:R; [|discriminate]. injection H2 as <-.
    destruct (rot_lists_hwp _ _ _ _ _ _ R) as (u2 & R2 & ->). cbn. rewrite R2. eexists. split; reflexivity.
  - destruct (rot_lists t a a1 (negl a2)) as [[q' u']|] eqn:R; [|discriminate]. injection H2 as <-.
    destruct (rot_lists_hwp _ _ _ _ _ _ R) as (u2 & R2 & ->). cbn. rewrite R2. eexists. split; reflexivity.
Qed.
Lemma pol_value_hwp x y1 : hwp_value x = Some y1 -> pol_value y1 = pol_value x.
Proof. intros H. unfold hwp_value in H. split_match H; injection H as <-; reflexivity. Qed.

(* structures are kept *)
Lemma rot_lists_len t a : forall q u q' u', rot_lists t a q u = Some (q', u') ->
  List.length q' = List.length q /\ List.length u' = List.length u.
Proof.
  induction a as [|an a IH]; intros q u q' u' H; destruct q, u; cbn [rot_lists] in H; try discriminate.
  - injection H as <- <-. auto.
  - destruct (cs2 an) as [[c s]|]; [|discriminate]. destruct (rot_lists t a q u) as [[qs us]|] eqn:R; [|discriminate].
    injection H as <- <-. destruct (IH _ _ _ _ R). cbn. auto.
Qed.
Lemma has_struct_len1 (k : ckind) (ls ls' : list (list K)) s :
  map (@List.length K) ls = map (@List.length K) ls' ->
  has_struct (Node k (map (@Leaf (list K)) ls)) s = has_struct (Node k (map (@Leaf (list K)) ls')) s.
Proof.
  intros H. destruct s as [sd|k' ss]; [reflexivity|]. cbn [has_struct]. f_equal.
  revert ls' ss H. induction ls as [|l ls IH]; intros [|l' ls'] ss H; try discriminate; [reflexivity|].
  cbn [map] in *. injection H as Hl Hr. destruct ss as [|s ss]; [reflexivity|].
  rewrite (IH _ _ Hr). f_equal. destruct s; [|reflexivity]. cbn. unfold leaf_ok. now rewrite Hl.
Qed.
Ltac hs :=
  match goal with
  | |- has_struct (Node ?k [Leaf ?a; Leaf ?b]) ?s = has_struct (Node ?k [Leaf ?a'; Leaf ?b']) ?s =>
      apply (has_struct_len1 k [a; b] [a'; b'])
  | |- has_struct (Node ?k [Leaf ?a; Leaf ?b; Leaf ?c]) ?s = has_struct (Node ?k [Leaf ?a'; Leaf ?b'; Leaf ?c']) ?s =>
      apply (has_struct_len1 k [a; b; c] [a'; b'; c'])
  | |- has_struct (Node ?k [Leaf ?a; Leaf ?b; Leaf ?c; Leaf ?d]) ?s =
       has_struct (Node ?k [Leaf ?a'; Leaf ?b'; Leaf ?c'; Leaf ?d']) ?s =>
      apply (has_struct_len1 k [a; b; c; d] [a'; b'; c'; d'])
  end.
Lemma hwp_value_struct x y s : hwp_value x = Some y -> has_struct y s = has_struct x s.
Proof.
  intros H. unfold hwp_value in H. split_match H; injection H as <-; try reflexivity;
    hs; cbn [map]; unfold negl; rewrite ?map_length; reflexivity.
Qed.
Lemma rot_value_struct t a x y s : rot_value t a x = Some y -> has_struct y s = has_struct x s.
Proof.
  intros H. unfold rot_value in H. split_match H; try (now injection H as <-);
    match type of H with context [rot_lists ?t ?a ?q ?u] =>
      destruct (rot_lists t a q u) as [[q' u']|] eqn:R; [|discriminate H]; injection H as <-;
      destruct (rot_lists_len _ _ _ _ _ _ R) as [L1 L2]; hs; cbn [map]; now rewrite L1, L2
    end.
Qed.

(* ---------- which terms are HWPs / polarisers / applicable rotations ---------- *)
Lemma is_hwp_inv (r : xop) : is_a r [CHWP] = true -> exists i si so p, r = Prim i CHWP si so p.
Proof.
  destruct r as [i c si so p|i w e|i s|i k s|i l|i l|i b td l]; unfold is_a, cls_of; intros H.
  - destruct c; try (vm_compute in H; discriminate H). eauto.
  - destruct w; vm_compute in H; discriminate H.
  - vm_compute in H; discriminate H.
  - vm_compute in H; discriminate H.
  - vm_compute in H; discriminate H.
  - vm_compute in H; discriminate H.
  - destruct b; vm_compute in H; discriminate H.
Qed.
Lemma is_pol_inv (r : xop) : is_a r [CLinearPolarizer] = true -> exists i si so p, r = Prim i CLinearPolarizer si so p.
Proof.
  destruct r as [i c si so p|i w e|i s|i k s|i l|i l|i b td l]; unfold is_a, cls_of; intros H.
  - destruct c; try (vm_compute in H; discriminate H). eauto.
  - destruct w; vm_compute in H; discriminate H.
  - vm_compute in H; discriminate H.
  - vm_compute in H; discriminate H.
  - vm_compute in H; discriminate H.
  - vm_compute in H; discriminate H.
  - destruct b; vm_compute in H; discriminate H.
Qed.
Lemma lsem_rot_angles i si so p x y : lsem (Prim i CQURotation si so p) x = Some y -> exists a, p = PAngles a.
Proof.
  unfold lsem, leafsem. destruct (negb _); [discriminate|]. rewrite lookup_nil_if.
  destruct p; try discriminate; eauto.
Qed.
Lemma lsem_rotT_inner i lx x y : lsem (Wrap i WQURotT lx) x = Some y ->
  exists j sj soj a, lx = Prim j CQURotation sj soj (PAngles a).
Proof.
  unfold lsem, leafsem. destruct (negb _); [discriminate|]. rewrite lookup_nil_if.
  destruct lx as [j c sj soj p| | | | | |]; try discriminate. destruct c; try discriminate.
  destruct p; try discriminate. eauto 6.
Qed.

(* R(a) HWP = HWP R(a).T : exactly the field lf_rot_hwp (QURotationOperator is @orthogonal, hence
   square: Model/Algebra.v `structs` gives out_structure = in_structure for the class) *)
Theorem exec_lf_rot_hwp : forall il sil sol pl r x y1 y, is_a r [CHWP] = true ->
  xden r x = Some y1 -> lsem (Prim il CQURotation sil sol pl) y1 = Some y ->
  exists y2, lsem (Wrap fresh WQURotT (Prim il CQURotation sil sol pl)) x = Some y2 /\ xden r y2 = Some y.
Proof.
  intros il sil sol pl r x y1 y Hr H1 H2. destruct (is_hwp_inv _ Hr) as (i & si & so & p & ->).
  destruct (lsem_rot_angles _ _ _ _ _ _ H2) as (a & ->).
  unfold xden in *. cbn [denote] in *. rewrite lsem_H in H1. rewrite lsem_R in H2. strip H1. strip H2.
  destruct (rot_value_hwp _ _ _ _ _ H1 H2) as (y2 & R2 & Hy). cbn [negb] in R2.
  exists y2. rewrite lsem_RT, lsem_H. rewrite (rot_value_struct _ _ _ _ si R2), Heqb.
  rewrite <- (hwp_value_struct _ _ sil H1), Heqb0. cbn [negb]. auto.
Qed.
(* R(a).T HWP = HWP R(a) : exactly the field lf_rotT_hwp *)
Theorem exec_lf_rotT_hwp : forall il lx r x y1 y, is_a r [CHWP] = true ->
  xden r x = Some y1 -> lsem (Wrap il WQURotT lx) y1 = Some y ->
  exists y2, xden lx x = Some y2 /\ xden r y2 = Some y.
Proof.
  intros il lx r x y1 y Hr H1 H2. destruct (is_hwp_inv _ Hr) as (i & si & so & p & ->).
  destruct (lsem_rotT_inner _ _ _ _ H2) as (j & sj & soj & a & ->).
  unfold xden in *. cbn [denote] in *. rewrite lsem_H in H1. rewrite lsem_RT in H2. strip H1. strip H2.
  destruct (rot_value_hwp _ _ _ _ _ H1 H2) as (y2 & R2 & Hy). cbn [negb] in R2.
  exists y2. rewrite lsem_R, lsem_H. rewrite (rot_value_struct _ _ _ _ si R2), Heqb.
  rewrite <- (hwp_value_struct _ _ sj H1), Heqb0. cbn [negb]. auto.
Qed.
(* P HWP = P : exactly the field lf_pol_hwp *)
Theorem exec_lf_pol_hwp : forall l r x y1 y, is_a l [CLinearPolarizer] = true -> is_a r [CHWP] = true ->
  xden r x = Some y1 -> xden l y1 = Some y -> xden l x = Some y.
Proof.
  intros l r x y1 y Hl Hr H1 H2. destruct (is_hwp_inv _ Hr) as (i & si & so & p & ->).
  destruct (is_pol_inv _ Hl) as (i' & si' & so' & p' & ->).
  unfold xden in *. cbn [denote] in *. rewrite lsem_H in H1. rewrite lsem_P in *. strip H1. strip H2.
  rewrite <- (hwp_value_struct _ _ si' H1), Heqb0. cbn [negb]. now rewrite <- (pol_value_hwp _ _ H1).
Qed.

