(* C15 - proofs about Model/Mueller.v: the four polarimetry operators realise their Mueller matrices on
   every Stokes kind, the angle algebra of the three binary rules, the factories, soundness of the scan.
   Everything is proved over an arbitrary commutative ring K and an arbitrary angle type A with
   c s : A -> K obeying the addition formulas (Section hypotheses; instances at the end and in
   Props/C15.v). *)
From Coq Require Import List Bool Arith NArith ZArith Lia Ring.
From Furax Require Import Base.Pytree Model.Mueller.
Import ListNotations.
Local Open Scope nat_scope.

(* ------------------------------------------------------------------------------------------ *)
(* NumPy broadcasting (pure index arithmetic) *)

Lemma size_cons d sh : size (d :: sh) = d * size sh.
Proof. reflexivity. Qed.

Lemma bcr_nil ro p : bcr ro [] p = 0.
Proof. now destruct ro. Qed.

Lemma bcr_lt : forall ra ro p, bcable_r ro ra = true -> p < size ro -> bcr ro ra p < size ra.
Proof.
  induction ra as [|e ra IH]; intros ro p Hb Hp; [rewrite bcr_nil; cbn; lia|].
  destruct ro as [|d ro]; [discriminate|]. cbn [bcable_r] in Hb. cbn [bcr]. rewrite size_cons. apply andb_true_iff in Hb as [He Hb].
  rewrite size_cons in Hp.
  assert (Hd : 0 < d) by (destruct d; [lia|lia]).
  assert (Hq : p / d < size ro) by (apply Nat.div_lt_upper_bound; lia).
  specialize (IH ro (p / d) Hb Hq).
  destruct (e =? 1) eqn:E1.
  - apply Nat.eqb_eq in E1; subst e. lia.
  - cbn [orb] in He. apply Nat.eqb_eq in He; subst e.
    pose proof (Nat.mod_upper_bound p d ltac:(lia)). nia.
Qed.

Lemma bcr_comp : forall ra rm ro p, bcable_r rm ra = true -> bcable_r ro rm = true -> p < size ro ->
  bcr rm ra (bcr ro rm p) = bcr ro ra p.
Proof.
  induction ra as [|e ra IH]; intros rm ro p Ha Hm Hp; [now rewrite !bcr_nil|].
  destruct rm as [|m rm]; [discriminate|]. destruct ro as [|d ro]; [discriminate|].
  cbn [bcable_r] in Ha, Hm. apply andb_true_iff in Ha as [He Ha]. apply andb_true_iff in Hm as [Hmd Hm].
  rewrite size_cons in Hp. assert (Hd : 0 < d) by (destruct d; lia).
  assert (Hq : p / d < size ro) by (apply Nat.div_lt_upper_bound; lia).
  cbn [bcr]. set (r := bcr ro rm (p / d)).
  assert (Hr : r < size rm) by (apply bcr_lt; assumption).
  destruct (m =? 1) eqn:M1.
  - apply Nat.eqb_eq in M1; subst m.
    assert (e = 1) by (destruct (e =? 1) eqn:E; [now apply Nat.eqb_eq|cbn in He; discriminate]).
    subst e. change (1 =? 1) with true. cbv iota.
    replace ((0 + 1 * r) / 1) with r by (rewrite Nat.div_1_r; lia).
    unfold r. rewrite IH by assumption. reflexivity.
  - cbn [orb] in Hmd. apply Nat.eqb_eq in Hmd; subst m.
    pose proof (Nat.mod_upper_bound p d ltac:(lia)) as Hmod.
    assert (Hdiv : (p mod d + d * r) / d = r).
    { rewrite Nat.mul_comm, Nat.div_add by lia. rewrite (Nat.div_small (p mod d) d) by lia. lia. }
    assert (Hmm : (p mod d + d * r) mod d = p mod d).
    { rewrite Nat.mul_comm, Nat.mod_add by lia. apply Nat.mod_small; lia. }
    rewrite Hdiv, Hmm. unfold r. rewrite IH by assumption. reflexivity.
Qed.

Lemma bshape_r_spec : forall ra rb ro, bcable_r ro ra = true -> bcable_r ro rb = true ->
  exists rm, bshape_r ra rb = Some rm /\ bcable_r ro rm = true /\ bcable_r rm ra = true /\ bcable_r rm rb = true.
Proof.
  assert (Hrefl : forall r, bcable_r r r = true).
  { induction r as [|d r IH]; [reflexivity|]. cbn. now rewrite Nat.eqb_refl, orb_true_r. }
  induction ra as [|e ra IH]; intros rb ro Ha Hb.
  - exists rb. cbn. repeat split; auto. now destruct rb.
  - destruct rb as [|f rb].
    + exists (e :: ra). cbn [bshape_r]. repeat split; auto.
    + destruct ro as [|d ro]; [discriminate|]. cbn [bcable_r] in Ha, Hb.
      apply andb_true_iff in Ha as [He Ha]. apply andb_true_iff in Hb as [Hf Hb].
      destruct (IH rb ro Ha Hb) as (rm & Hs & H1 & H2 & H3). cbn [bshape_r]. rewrite Hs.
      destruct (e =? 1) eqn:E1.
      * exists (f :: rm). cbn [bcable_r]. rewrite Hf, H1, H2, H3, E1, Nat.eqb_refl, orb_true_r. auto.
      * cbn [orb] in He. destruct (f =? 1) eqn:F1.
        -- exists (e :: rm). cbn [bcable_r]. rewrite He, H1, H2, H3, F1, Nat.eqb_refl, orb_true_r. auto.
        -- cbn [orb] in Hf. apply Nat.eqb_eq in He, Hf. subst e f. rewrite Nat.eqb_refl.
           exists (d :: rm). cbn [bcable_r]. rewrite H1, H2, H3, Nat.eqb_refl, !orb_true_r. auto.
Qed.

Lemma size_rev sh : size (rev sh) = size sh.
Proof.
  induction sh as [|d sh IH]; [reflexivity|]. cbn [rev]. unfold size in *. rewrite fold_right_app. cbn [fold_right].
  rewrite Nat.mul_1_r. rewrite <- IH. clear IH. generalize (rev sh) as l. induction l as [|x l IHl]; cbn; [lia|].
  rewrite IHl. lia.
Qed.

(* the three facts about broadcasting that the operator proofs use *)
Lemma bc_lt sh sa p : bcable sh sa = true -> p < size sh -> bc sh sa p < size sa.
Proof. unfold bcable, bc. intros Hb Hp. rewrite <- (size_rev sa). apply bcr_lt; [exact Hb|now rewrite size_rev]. Qed.
Lemma bc_comp sh sm sa p : bcable sm sa = true -> bcable sh sm = true -> p < size sh ->
  bc sm sa (bc sh sm p) = bc sh sa p.
Proof. unfold bcable, bc. intros Ha Hm Hp. apply bcr_comp; auto. now rewrite size_rev. Qed.
Lemma bshape_spec sh sa sb : bcable sh sa = true -> bcable sh sb = true ->
  exists sm, bshape sa sb = Some sm /\ bcable sh sm = true /\ bcable sm sa = true /\ bcable sm sb = true.
Proof.
  unfold bcable, bshape. intros Ha Hb. destruct (bshape_r_spec _ _ _ Ha Hb) as (rm & Hs & H1 & H2 & H3).
  exists (rev rm). rewrite Hs. cbn [option_map]. rewrite rev_involutive. auto.
Qed.

(* ------------------------------------------------------------------------------------------ *)
Section MuellerL.
  (* every lemma of the section takes ALL the section variables and hypotheses, in declaration order,
     so that Props/C15.v applies them uniformly *)
  Set Default Proof Using "All".
  Variable K : Type.
  Variables (k0 k1 : K) (kadd kmul ksub : K -> K -> K) (kopp : K -> K).
  Hypothesis Kth : ring_theory k0 k1 kadd kmul ksub kopp (@eq K).
  Add Ring Kring15 : Kth.
  Variable half : K.
  Variable A : Type.
  Variable a0 : A.
  Variables (aadd asub : A -> A -> A) (aneg : A -> A).
  Variables (c s : A -> K).
  Variable aeqb : A -> A -> bool.
  Hypothesis aeqb_eq : forall a b, aeqb a b = true -> a = b.
  Local Notation "a + b" := (kadd a b).
  Local Notation "a * b" := (kmul a b).
  Local Notation "a - b" := (ksub a b).
  Local Notation "- a" := (kopp a).
  (* c = cos(2 .), s = sin(2 .) *)
  Hypothesis c_add : forall a b, c (aadd a b) = c a * c b - s a * s b.
  Hypothesis s_add : forall a b, s (aadd a b) = s a * c b + c a * s b.
  Hypothesis c_0 : c a0 = k1.
  Hypothesis s_0 : s a0 = k0.
  Hypothesis c_neg : forall a, c (aneg a) = c a.
  Hypothesis s_neg : forall a, s (aneg a) = - s a.
  Hypothesis a_sub : forall a b, asub a b = aadd a (aneg b).

  Notation value := (value K).
  Notation tab := (@tab K).
  Notation at_ := (at_ k0).
  Notation field := (field A).
  Notation rot_q := (rot_q k0 kmul ksub c s).
  Notation rot_u := (rot_u k0 kadd kmul c s).
  Notation rotT_q := (rotT_q k0 kadd kmul c s).
  Notation rotT_u := (rotT_u k0 kadd kmul kopp c s).
  Notation negl := (negl kopp).
  Notation halfl := (halfl kmul half).
  Notation half_sum := (half_sum k0 kadd kmul half).
  Notation hwp_comps := (hwp_comps kopp).
  Notation rot_comps := (rot_comps k0 kadd kmul ksub c s).
  Notation rotT_comps := (rotT_comps k0 kadd kmul kopp c s).
  Notation pol_comps := (pol_comps k0 kadd kmul half).
  Notation hwp_mv := (hwp_mv kopp).
  Notation rot_mv := (rot_mv k0 kadd kmul ksub c s).
  Notation rotT_mv := (rotT_mv k0 kadd kmul kopp c s).
  Notation pol_mv := (pol_mv k0 kadd kmul half).
  Notation M_hwp := (M_hwp k0 k1 kopp).
  Notation M_rot := (M_rot k0 k1 kopp c s).
  Notation M_pol := (M_pol k0 half).
  Notation M_id := (M_id k0 k1).
  Notation mueller_comps := (mueller_comps k0 kadd kmul).
  Notation mueller_row := (mueller_row k0 kadd kmul).
  Notation mmul := (mmul k0 kadd kmul).
  Notation rowmul := (rowmul k0 kadd kmul).
  Notation unit_ang := (unit_ang k1 kadd kmul c s).
  Notation good_arr := (good_arr k1 kadd kmul c s).
  Notation good_op := (good_op k1 kadd kmul c s).
  Notation chain_le := (chain_le k0 kadd kmul ksub kopp half a0 c s).
  Notation mtrans := (mtrans k0).
  Notation field_of := (field_of a0).
  Notation arr_bin := (arr_bin a0).
  Notation arr_neg := (arr_neg aneg).
  Notation mv := (mv k0 kadd kmul ksub kopp half a0 c s).
  Notation chain_mv := (chain_mv k0 kadd kmul ksub kopp half a0 c s).
  Notation rules := (rules a0 aadd asub aneg aeqb).
  Notation scan := (@scan A).
  Notation reduce_chain := (reduce_chain a0 aadd asub aneg aeqb).

  (* ---------- tabulated lists ---------- *)
  Lemma tab_length n f : length (tab n f) = n.
  Proof. unfold Mueller.tab. now rewrite map_length, seq_length. Qed.
  Lemma at_tab n f p : p < n -> at_ (tab n f) p = f p.
  Proof.
    intros Hp. unfold Mueller.at_, Mueller.tab.
    rewrite (nth_indep _ k0 (f 0)) by (now rewrite map_length, seq_length).
    rewrite map_nth, seq_nth by exact Hp. reflexivity.
  Qed.
  Lemma tab_ext n f g : (forall p, p < n -> f p = g p) -> tab n f = tab n g.
  Proof. intros H. unfold Mueller.tab. apply map_ext_in. intros p Hp. apply in_seq in Hp. apply H. lia. Qed.
  Lemma tab_at l : tab (length l) (at_ l) = l.
  Proof.
    apply (nth_ext _ _ k0 k0); [apply tab_length|]. intros p Hp. rewrite tab_length in Hp.
    exact (at_tab _ _ _ Hp).
  Qed.
  Lemma as_tab m l : length l = m -> l = tab m (at_ l).
  Proof. intros <-. symmetry. apply tab_at. Qed.
  Lemma map_tab (f : K -> K) l : map f l = tab (length l) (fun p => f (at_ l p)).
  Proof.
    apply (nth_ext _ _ k0 k0); [now rewrite map_length, tab_length|]. intros p Hp. rewrite map_length in Hp.
    change (nth p (tab (length l) (fun p0 => f (at_ l p0))) k0) with (at_ (tab (length l) (fun p0 => f (at_ l p0))) p).
    rewrite at_tab by exact Hp. rewrite (nth_indep _ k0 (f k0)) by (now rewrite map_length).
    now rewrite map_nth.
  Qed.

  (* ---------- Stokes values ---------- *)
  Definition all_len (m : nat) (ls : list (list K)) : Prop := Forall (fun l => length l = m) ls.
  Lemma comps_ok_iff m (ls : list (list K)) : comps_ok m ls = true <-> (1 <= length ls <= 4 /\ all_len m ls).
  Proof.
    unfold comps_ok, all_len. rewrite !andb_true_iff, Nat.leb_le, Nat.leb_le, forallb_forall, Forall_forall.
    split; intros [[H1 H2] H3]; repeat split; auto; intros l Hl; specialize (H3 l Hl).
    - now apply Nat.eqb_eq. - now apply Nat.eqb_eq.
  Qed.
  Lemma leaves_of_map (ls : list (list K)) : leaves_of (map (@Leaf (list K)) ls) = Some ls.
  Proof. induction ls as [|l r IH]; cbn; [reflexivity|now rewrite IH]. Qed.
  Lemma leaves_of_inv (cs : list value) : forall ls, leaves_of cs = Some ls -> cs = map (@Leaf (list K)) ls.
  Proof.
    induction cs as [|[l|k cs'] r IH]; cbn; intros ls H; try discriminate.
    - now inversion H.
    - destruct (leaves_of r) as [lr|]; [|discriminate]. inversion H; subst. cbn. f_equal. now apply IH.
  Qed.
  Lemma view_mk m (ls : list (list K)) : comps_ok m ls = true -> view m (mk ls) = Some ls.
  Proof. intros H. unfold view, mk. now rewrite leaves_of_map, Nat.eqb_refl, H. Qed.
  Lemma view_inv m (x : value) ls : view m x = Some ls -> x = mk ls /\ comps_ok m ls = true.
  Proof.
    unfold view. destruct x as [|k cs]; [discriminate|]. destruct k; try discriminate.
    destruct (leaves_of cs) as [ls'|] eqn:E; [|discriminate].
    destruct (length ls' =? n) eqn:En; [|discriminate]. destruct (comps_ok m ls') eqn:Eo; [|discriminate].
    cbn. intros H; inversion H; subst ls'. apply Nat.eqb_eq in En. apply leaves_of_inv in E. subst.
    split; [reflexivity|exact Eo].
  Qed.
  Lemma mk_inj (ls ls' : list (list K)) : mk ls = mk ls' -> ls = ls'.
  Proof.
    unfold mk. intros H. inversion H as [[Hl Hm]]. clear H Hl.
    revert ls' Hm. induction ls as [|l r IH]; intros [|l' r']; cbn; intros H; try discriminate; auto.
    inversion H. f_equal; auto.
  Qed.

  (* the case analysis used everywhere: a valid component list has 1, 2, 3 or 4 entries of length m *)
  Lemma comps_cases m (ls : list (list K)) : comps_ok m ls = true ->
    (exists i, ls = [i] /\ length i = m) \/
    (exists q u, ls = [q; u] /\ length q = m /\ length u = m) \/
    (exists i q u, ls = [i; q; u] /\ length i = m /\ length q = m /\ length u = m) \/
    (exists i q u v, ls = [i; q; u; v] /\ length i = m /\ length q = m /\ length u = m /\ length v = m).
  Proof.
    intros H. apply comps_ok_iff in H as [[H1 H4] Ha]. unfold all_len in Ha.
    destruct ls as [|a [|b [|c0 [|d [|e r]]]]]; cbn in H1, H4; try lia.
    - left. inversion Ha; subst. eauto.
    - right; left. inversion Ha as [|? ? ? Hb]; subst. inversion Hb; subst. eauto 6.
    - right; right; left. inversion Ha as [|? ? ? Hb]; subst. inversion Hb as [|? ? ? Hc]; subst.
      inversion Hc; subst. eauto 8.
    - right; right; right. inversion Ha as [|? ? ? Hb]; subst. inversion Hb as [|? ? ? Hc]; subst.
      inversion Hc as [|? ? ? Hd]; subst. inversion Hd; subst. eauto 10.
  Qed.

  Ltac cases_of H :=
    let i := fresh "i" in let q := fresh "q" in let u := fresh "u" in let v := fresh "v" in
    let Hi := fresh "Hi" in let Hq := fresh "Hq" in let Hu := fresh "Hu" in let Hv := fresh "Hv" in
    destruct (comps_cases _ _ H) as
      [(i & -> & Hi)|[(q & u & -> & Hq & Hu)|[(i & q & u & -> & Hi & Hq & Hu)|(i & q & u & v & -> & Hi & Hq & Hu & Hv)]]].

  (* normal form of every component list occurring below: tab m (fun p => polynomial in at_ .. p) *)
  Ltac unfold_kernels :=
    unfold Mueller.rot_q, Mueller.rot_u, Mueller.rotT_q, Mueller.rotT_u, Mueller.negl, Mueller.halfl, Mueller.half_sum.
  Ltac norm_len := repeat (rewrite ?tab_length, ?map_length); repeat match goal with H : length _ = _ |- _ => rewrite !H end.
  Ltac tab_eq :=
    unfold_kernels; rewrite ?map_tab; norm_len;
    first [ apply tab_ext
          | (etransitivity; [apply as_tab; norm_len; reflexivity|]; apply tab_ext)
          | (symmetry; etransitivity; [apply as_tab; norm_len; reflexivity|]; symmetry; apply tab_ext) ];
    let p := fresh "p" in let Hp := fresh "Hp" in
    intros p Hp; rewrite ?map_tab; norm_len; rewrite ?at_tab by exact Hp.

  (* ---------- the operators preserve validity ---------- *)
  Lemma ok1 m (i : list K) : length i = m -> comps_ok m [i] = true.
  Proof. intros H. apply comps_ok_iff. cbn. split; [lia|]. repeat constructor; auto. Qed.
  Lemma ok2 m (q u : list K) : length q = m -> length u = m -> comps_ok m [q; u] = true.
  Proof. intros. apply comps_ok_iff. cbn. split; [lia|]. repeat constructor; auto. Qed.
  Lemma ok3 m (i q u : list K) : length i = m -> length q = m -> length u = m -> comps_ok m [i; q; u] = true.
  Proof. intros. apply comps_ok_iff. cbn. split; [lia|]. repeat constructor; auto. Qed.
  Lemma ok4 m (i q u v : list K) : length i = m -> length q = m -> length u = m -> length v = m -> comps_ok m [i; q; u; v] = true.
  Proof. intros. apply comps_ok_iff. cbn. split; [lia|]. repeat constructor; auto. Qed.
  Ltac ok_tac := first [apply ok1|apply ok2|apply ok3|apply ok4]; unfold_kernels; norm_len; auto.

  Lemma hwp_comps_ok m (ls : list (list K)) : comps_ok m ls = true -> exists ls', hwp_comps ls = Some ls' /\ comps_ok m ls' = true.
  Proof. intros H. cases_of H; eexists; (split; [reflexivity|ok_tac]). Qed.
  Lemma rot_comps_ok m ang (ls : list (list K)) : comps_ok m ls = true -> exists ls', rot_comps ang ls = Some ls' /\ comps_ok m ls' = true.
  Proof. intros H. cases_of H; eexists; (split; [reflexivity|ok_tac]). Qed.
  Lemma rotT_comps_ok m ang (ls : list (list K)) : comps_ok m ls = true -> exists ls', rotT_comps ang ls = Some ls' /\ comps_ok m ls' = true.
  Proof. intros H. cases_of H; eexists; (split; [reflexivity|ok_tac]). Qed.
  Lemma pol_comps_ok m (ls : list (list K)) : comps_ok m ls = true -> exists l, pol_comps ls = Some l /\ length l = m.
  Proof. intros H. cases_of H; eexists; (split; [reflexivity|unfold_kernels; norm_len; auto]). Qed.
  (* ---------- each operator is its Mueller matrix, on every Stokes kind ---------- *)
  Ltac each_leaf tac :=
    repeat match goal with
           | |- Some _ = Some _ => apply f_equal
           | |- _ :: _ = _ :: _ => apply f_equal2; [first [reflexivity|tac]|]
           | |- [] = [] => reflexivity
           end.
  Ltac mueller_leaf :=
    tab_eq; unfold Mueller.dotk, Mueller.col_at, Mueller.M_hwp, Mueller.M_rot, Mueller.M_id, Mueller.M_pol,
      Mueller.mtrans, Mueller.mmul, Mueller.rowmul, Mueller.dot4, Mueller.mcol; cbn; unfold Mueller.at_; ring.

  Lemma hwp_comps_mueller m (ls : list (list K)) : comps_ok m ls = true ->
    hwp_comps ls = Some (mueller_comps (fun _ => M_hwp) m ls).
  Proof.
    intros H. cases_of H; unfold Mueller.mueller_comps; cbn [Mueller.hwp_comps length sidx map];
      each_leaf mueller_leaf.
  Qed.
  Lemma rot_comps_mueller m ang (ls : list (list K)) : comps_ok m ls = true ->
    rot_comps ang ls = Some (mueller_comps (fun p => M_rot (ang p)) m ls).
  Proof.
    intros H. cases_of H; unfold Mueller.mueller_comps; cbn [Mueller.rot_comps length sidx map];
      each_leaf mueller_leaf.
  Qed.
  Lemma rotT_comps_mueller m ang (ls : list (list K)) : comps_ok m ls = true ->
    rotT_comps ang ls = Some (mueller_comps (fun p => mtrans (M_rot (ang p))) m ls).
  Proof.
    intros H. cases_of H; unfold Mueller.mueller_comps; cbn [Mueller.rotT_comps length sidx map];
      each_leaf mueller_leaf.
  Qed.
  Lemma pol_comps_mueller m (ls : list (list K)) : comps_ok m ls = true ->
    pol_comps ls = Some (mueller_row (fun _ => M_pol) m ls).
  Proof.
    intros H. cases_of H; unfold Mueller.mueller_row; cbn [Mueller.pol_comps length sidx]; apply f_equal; mueller_leaf.
  Qed.

  (* the matrices themselves *)
  Ltac list_eq :=
    repeat match goal with
           | |- _ :: _ = _ :: _ => apply f_equal2
           | |- [] = [] => reflexivity
           end.
  Lemma M_rot_neg_transpose a : M_rot (aneg a) = mtrans (M_rot a).
  Proof. unfold Mueller.M_rot, Mueller.mtrans, Mueller.mcol. cbn. rewrite c_neg, s_neg. list_eq; ring. Qed.
  Lemma M_rot_mul a b : mmul (M_rot a) (M_rot b) = M_rot (aadd a b).
  Proof.
    unfold Mueller.mmul, Mueller.rowmul, Mueller.M_rot, Mueller.mcol, Mueller.dot4. cbn. rewrite c_add, s_add.
    list_eq; ring.
  Qed.
  Lemma M_rot_zero : M_rot a0 = M_id.
  Proof. unfold Mueller.M_rot, Mueller.M_id. rewrite c_0, s_0. list_eq; ring. Qed.
  Lemma M_rot_hwp a : mmul (M_rot a) M_hwp = mmul M_hwp (M_rot (aneg a)).
  Proof.
    unfold Mueller.mmul, Mueller.rowmul, Mueller.M_rot, Mueller.M_hwp, Mueller.mcol, Mueller.dot4. cbn. rewrite c_neg, s_neg.
    list_eq; ring.
  Qed.
  Lemma M_hwp_involution : mmul M_hwp M_hwp = M_id.
  Proof.
    unfold Mueller.mmul, Mueller.rowmul, Mueller.M_id, Mueller.M_hwp, Mueller.mcol, Mueller.dot4. cbn.
    list_eq; ring.
  Qed.
  Lemma M_pol_hwp : rowmul M_pol M_hwp = M_pol.
  Proof.
    unfold Mueller.rowmul, Mueller.M_pol, Mueller.M_hwp, Mueller.mcol, Mueller.dot4. cbn.
    list_eq; ring.
  Qed.

  (* ---------- the algebra, component lists ---------- *)
  (* two angle fields that agree through c and s on the positions of a component *)
  Definition cs_eq (m : nat) (f g : field) : Prop := forall p, p < m -> c (f p) = c (g p) /\ s (f p) = s (g p).
  Ltac use_cs Hcs p Hp := destruct (Hcs p Hp) as [Hc_ Hs_]; rewrite ?Hc_, ?Hs_.

  Lemma rot_comps_ext m f g (ls : list (list K)) : comps_ok m ls = true -> cs_eq m f g ->
    rot_comps f ls = rot_comps g ls.
  Proof.
    intros H Hcs. cases_of H; cbn [Mueller.rot_comps]; each_leaf ltac:(tab_eq; use_cs Hcs p Hp; reflexivity).
  Qed.
  (* the transposed rotation is the rotation by the opposite angles *)
  Lemma rotT_comps_neg m f (ls : list (list K)) : comps_ok m ls = true ->
    rotT_comps f ls = rot_comps (fun p => aneg (f p)) ls.
  Proof.
    intros H. cases_of H; cbn [Mueller.rot_comps Mueller.rotT_comps];
      each_leaf ltac:(tab_eq; rewrite ?c_neg, ?s_neg; unfold Mueller.at_; ring).
  Qed.
  Lemma rot_rot_comps m f g (ls : list (list K)) : comps_ok m ls = true ->
    obind (rot_comps g ls) (rot_comps f) = rot_comps (fun p => aadd (f p) (g p)) ls.
  Proof.
    intros H. cases_of H; cbn [Mueller.rot_comps Mueller.obind];
      each_leaf ltac:(tab_eq; rewrite ?c_add, ?s_add; unfold Mueller.at_; ring).
  Qed.
  Lemma rot_zero_comps m f (ls : list (list K)) : comps_ok m ls = true ->
    (forall p, p < m -> c (f p) = k1 /\ s (f p) = k0) -> rot_comps f ls = Some ls.
  Proof.
    intros H Hcs. cases_of H; cbn [Mueller.rot_comps];
      each_leaf ltac:(tab_eq; use_cs Hcs p Hp; unfold Mueller.at_; ring).
  Qed.
  Lemma rot_hwp_comps m f (ls : list (list K)) : comps_ok m ls = true ->
    obind (hwp_comps ls) (rot_comps f) = obind (rotT_comps f ls) hwp_comps.
  Proof.
    intros H. cases_of H; cbn [Mueller.rot_comps Mueller.rotT_comps Mueller.hwp_comps Mueller.obind];
      each_leaf ltac:(tab_eq; unfold Mueller.at_; ring).
  Qed.
  Lemma rotT_hwp_comps m f (ls : list (list K)) : comps_ok m ls = true ->
    obind (hwp_comps ls) (rotT_comps f) = obind (rot_comps f ls) hwp_comps.
  Proof.
    intros H. cases_of H; cbn [Mueller.rot_comps Mueller.rotT_comps Mueller.hwp_comps Mueller.obind];
      each_leaf ltac:(tab_eq; unfold Mueller.at_; ring).
  Qed.
  Lemma hwp_hwp_comps m (ls : list (list K)) : comps_ok m ls = true -> obind (hwp_comps ls) hwp_comps = Some ls.
  Proof.
    intros H. cases_of H; cbn [Mueller.hwp_comps Mueller.obind]; each_leaf ltac:(tab_eq; unfold Mueller.at_; ring).
  Qed.
  Lemma pol_hwp_comps m (ls : list (list K)) : comps_ok m ls = true -> obind (hwp_comps ls) pol_comps = pol_comps ls.
  Proof. intros H. cases_of H; reflexivity. Qed.
  (* ---------- values: mv on Stokes pytrees ---------- *)
  Notation lift := (@lift K).
  Lemma lift_lift m (f g : list (list K) -> option (list (list K))) (x : value) :
    (forall ls ls', comps_ok m ls = true -> g ls = Some ls' -> comps_ok m ls' = true) ->
    obind (lift m g x) (lift m f) = lift m (fun ls => obind (g ls) f) x.
  Proof.
    intros Hg. unfold Mueller.lift. destruct (view m x) as [ls|] eqn:E; [|reflexivity].
    apply view_inv in E as [-> Hok]. destruct (g ls) as [ls'|] eqn:Eg; cbn [Mueller.obind option_map]; [|reflexivity].
    now rewrite (view_mk _ _ (Hg _ _ Hok Eg)).
  Qed.
  Lemma lift_ext m (f g : list (list K) -> option (list (list K))) (x : value) :
    (forall ls, comps_ok m ls = true -> f ls = g ls) -> lift m f x = lift m g x.
  Proof.
    intros H. unfold Mueller.lift. destruct (view m x) as [ls|] eqn:E; [|reflexivity].
    apply view_inv in E as [_ Hok]. now rewrite (H _ Hok).
  Qed.
  Lemma hwp_pres m (ls ls' : list (list K)) : comps_ok m ls = true -> hwp_comps ls = Some ls' -> comps_ok m ls' = true.
  Proof. intros H E. destruct (hwp_comps_ok _ _ H) as (l2 & E2 & H2). congruence. Qed.
  Lemma rot_pres m f (ls ls' : list (list K)) : comps_ok m ls = true -> rot_comps f ls = Some ls' -> comps_ok m ls' = true.
  Proof. intros H E. destruct (rot_comps_ok _ f _ H) as (l2 & E2 & H2). congruence. Qed.
  Lemma rotT_pres m f (ls ls' : list (list K)) : comps_ok m ls = true -> rotT_comps f ls = Some ls' -> comps_ok m ls' = true.
  Proof. intros H E. destruct (rotT_comps_ok _ f _ H) as (l2 & E2 & H2). congruence. Qed.

  Theorem hwp_mueller_l m (x : value) ls : view m x = Some ls ->
    hwp_mv m x = Some (mk (mueller_comps (fun _ => M_hwp) m ls)).
  Proof.
    intros E. unfold Mueller.hwp_mv, Mueller.lift. rewrite E. apply view_inv in E as [_ Hok].
    now rewrite (hwp_comps_mueller _ _ Hok).
  Qed.
  Theorem rot_mueller_l m f (x : value) ls : view m x = Some ls ->
    rot_mv m f x = Some (mk (mueller_comps (fun p => M_rot (f p)) m ls)).
  Proof.
    intros E. unfold Mueller.rot_mv, Mueller.lift. rewrite E. apply view_inv in E as [_ Hok].
    now rewrite (rot_comps_mueller _ _ _ Hok).
  Qed.
  Theorem rotT_mueller_l m f (x : value) ls : view m x = Some ls ->
    rotT_mv m f x = Some (mk (mueller_comps (fun p => mtrans (M_rot (f p))) m ls)) /\
    rotT_mv m f x = rot_mv m (fun p => aneg (f p)) x /\
    (forall p, mtrans (M_rot (f p)) = M_rot (aneg (f p))).
  Proof.
    intros E. unfold Mueller.rotT_mv, Mueller.rot_mv, Mueller.lift. rewrite E. apply view_inv in E as [_ Hok].
    rewrite (rotT_comps_mueller _ _ _ Hok). repeat split.
    - rewrite <- (rotT_comps_neg _ _ _ Hok), (rotT_comps_mueller _ _ _ Hok). reflexivity.
    - intros p. symmetry. apply M_rot_neg_transpose.
  Qed.
  Theorem pol_mueller_l m (x : value) ls : view m x = Some ls ->
    pol_mv m x = Some (Leaf (mueller_row (fun _ => M_pol) m ls)).
  Proof.
    intros E. unfold Mueller.pol_mv. rewrite E. apply view_inv in E as [_ Hok].
    now rewrite (pol_comps_mueller _ _ Hok).
  Qed.
  (* outside the four Stokes classes (or with components of another size) nothing is returned *)
  Lemma mv_none m f (x : value) : view m x = None ->
    hwp_mv m x = None /\ rot_mv m f x = None /\ rotT_mv m f x = None /\ pol_mv m x = None.
  Proof. intros E. unfold Mueller.hwp_mv, Mueller.rot_mv, Mueller.rotT_mv, Mueller.pol_mv, Mueller.lift. now rewrite E. Qed.
  Lemma lift_some m (g : list (list K) -> option (list (list K))) (x y : value) :
    (forall ls ls', comps_ok m ls = true -> g ls = Some ls' -> comps_ok m ls' = true) ->
    lift m g x = Some y -> exists ls ls', view m x = Some ls /\ g ls = Some ls' /\ y = mk ls' /\ comps_ok m ls' = true.
  Proof.
    intros Hg. unfold Mueller.lift. destruct (view m x) as [ls|] eqn:E; [|discriminate].
    destruct (g ls) as [ls'|] eqn:Eg; [|discriminate]. cbn [option_map]. intros H; injection H as <-.
    apply view_inv in E as [_ Hok]. eauto 8.
  Qed.

  Lemma rot_mv_ext m f g (x : value) : cs_eq m f g -> rot_mv m f x = rot_mv m g x.
  Proof. intros H. apply lift_ext. intros ls Hok. now apply (rot_comps_ext m). Qed.
  Lemma rotT_mv_neg m f (x : value) : rotT_mv m f x = rot_mv m (fun p => aneg (f p)) x.
  Proof. apply lift_ext. intros ls Hok. now apply (rotT_comps_neg m). Qed.
  Lemma rot_rot_mv m f g (x : value) :
    obind (rot_mv m g x) (rot_mv m f) = rot_mv m (fun p => aadd (f p) (g p)) x.
  Proof.
    unfold Mueller.rot_mv. rewrite lift_lift by (intros; eapply rot_pres; eauto).
    apply lift_ext. intros ls Hok. now apply (rot_rot_comps m).
  Qed.
  Lemma rot_hwp_mv m f (x : value) : obind (hwp_mv m x) (rot_mv m f) = obind (rotT_mv m f x) (hwp_mv m).
  Proof.
    unfold Mueller.rot_mv, Mueller.rotT_mv, Mueller.hwp_mv.
    rewrite !lift_lift by (intros; solve [eapply rotT_pres; eauto|eapply hwp_pres; eauto|eapply rot_pres; eauto]).
    apply lift_ext. intros ls Hok. now apply (rot_hwp_comps m).
  Qed.
  Lemma rotT_hwp_mv m f (x : value) : obind (hwp_mv m x) (rotT_mv m f) = obind (rot_mv m f x) (hwp_mv m).
  Proof.
    unfold Mueller.rot_mv, Mueller.rotT_mv, Mueller.hwp_mv.
    rewrite !lift_lift by (intros; solve [eapply rotT_pres; eauto|eapply hwp_pres; eauto|eapply rot_pres; eauto]).
    apply lift_ext. intros ls Hok. now apply (rotT_hwp_comps m).
  Qed.
  Lemma pol_hwp_mv m (x : value) : obind (hwp_mv m x) (pol_mv m) = pol_mv m x.
  Proof.
    unfold Mueller.hwp_mv, Mueller.pol_mv, Mueller.lift. destruct (view m x) as [ls|] eqn:E; [|reflexivity].
    apply view_inv in E as [_ Hok]. destruct (hwp_comps_ok _ _ Hok) as (ls' & E' & Hok').
    rewrite E'. cbn [option_map Mueller.obind]. rewrite (view_mk _ _ Hok'). rewrite <- (pol_hwp_comps _ _ Hok), E'. reflexivity.
  Qed.
  (* the transposed rotation undoes the rotation (both ways) when the angles are angles: c^2 + s^2 = 1 *)
  Definition unit_field (m : nat) (f : field) : Prop := forall p, p < m -> unit_ang (f p).
  Lemma rotT_rot_mv m f (x : value) ls : unit_field m f -> view m x = Some ls ->
    obind (rot_mv m f x) (rotT_mv m f) = Some x.
  Proof.
    intros Hu E. replace (obind (rot_mv m f x) (rotT_mv m f)) with (obind (rot_mv m f x) (rot_mv m (fun p => aneg (f p)))).
    2:{ destruct (rot_mv m f x); [cbn; now rewrite rotT_mv_neg|reflexivity]. }
    rewrite rot_rot_mv. unfold Mueller.rot_mv, Mueller.lift. rewrite E. apply view_inv in E as [-> Hok].
    rewrite (rot_zero_comps m); [reflexivity|exact Hok|]. intros p Hp. specialize (Hu p Hp). unfold Mueller.unit_ang in Hu.
    rewrite c_add, s_add, c_neg, s_neg. split.
    - rewrite <- Hu. ring.
    - ring.
  Qed.
  Lemma rot_rotT_mv m f (x : value) ls : unit_field m f -> view m x = Some ls ->
    obind (rotT_mv m f x) (rot_mv m f) = Some x.
  Proof.
    intros Hu E. rewrite rotT_mv_neg, rot_rot_mv. unfold Mueller.rot_mv, Mueller.lift. rewrite E.
    apply view_inv in E as [-> Hok].
    rewrite (rot_zero_comps m); [reflexivity|exact Hok|]. intros p Hp. specialize (Hu p Hp). unfold Mueller.unit_ang in Hu.
    rewrite c_add, s_add, c_neg, s_neg. split.
    - rewrite <- Hu. ring.
    - ring.
  Qed.

  (* ---------- angle arrays: what the rule computes on arrays is the pointwise operation on fields ---------- *)
  Lemma nth_tabA (F : nat -> A) n j : j < n -> nth j (map F (seq 0 n)) a0 = F j.
  Proof.
    intros Hj. rewrite (nth_indep _ a0 (F 0)) by (now rewrite map_length, seq_length).
    now rewrite map_nth, seq_nth.
  Qed.
  Lemma wf_arr_inv sh (a : aarr A) : wf_arr sh a = true -> bcable sh (ashape a) = true /\ length (adata a) = size (ashape a).
  Proof. unfold wf_arr. intros H. apply andb_true_iff in H as [H1 H2]. apply Nat.eqb_eq in H2. auto. Qed.
  Lemma field_of_bin sh (op : A -> A -> A) (a b : aarr A) : wf_arr sh a = true -> wf_arr sh b = true ->
    exists ab, arr_bin op a b = Some ab /\ wf_arr sh ab = true /\
      (forall p, p < size sh -> field_of sh ab p = op (field_of sh a p) (field_of sh b p)) /\
      (forall t, In t (adata ab) -> exists ta tb, In ta (adata a) /\ In tb (adata b) /\ t = op ta tb).
  Proof.
    intros Ha Hb. apply wf_arr_inv in Ha as [Ha La]. apply wf_arr_inv in Hb as [Hb Lb].
    destruct (bshape_spec _ _ _ Ha Hb) as (sm & Hs & Hm & Hma & Hmb).
    unfold Mueller.arr_bin. rewrite Hs. eexists; split; [reflexivity|]. split; [|split].
    - unfold wf_arr. cbn [ashape adata]. rewrite Hm, map_length, seq_length, Nat.eqb_refl. reflexivity.
    - intros p Hp. unfold Mueller.field_of. cbn [ashape adata].
      pose proof (bc_lt _ _ _ Hm Hp) as Hj. rewrite nth_tabA by exact Hj.
      now rewrite !bc_comp by assumption.
    - cbn [adata]. intros t Ht. apply in_map_iff in Ht as (j & <- & Hj). apply in_seq in Hj.
      exists (nth (bc sm (ashape a) j) (adata a) a0), (nth (bc sm (ashape b) j) (adata b) a0).
      split; [|split; [|reflexivity]]; apply nth_In.
      + rewrite La. apply bc_lt; [exact Hma|lia].
      + rewrite Lb. apply bc_lt; [exact Hmb|lia].
  Qed.
  Lemma wf_arr_neg sh (a : aarr A) : wf_arr sh (arr_neg a) = wf_arr sh a.
  Proof. unfold wf_arr, Mueller.arr_neg. cbn [ashape adata]. now rewrite map_length. Qed.
  Lemma field_of_neg sh (a : aarr A) p : wf_arr sh a = true -> p < size sh ->
    field_of sh (arr_neg a) p = aneg (field_of sh a p).
  Proof.
    intros Ha Hp. apply wf_arr_inv in Ha as [Ha La]. unfold Mueller.field_of, Mueller.arr_neg. cbn [ashape adata].
    pose proof (bc_lt _ _ _ Ha Hp) as Hj. rewrite <- La in Hj.
    rewrite (nth_indep _ a0 (aneg a0)) by (now rewrite map_length). now rewrite map_nth.
  Qed.
  Lemma good_field sh (a : aarr A) : good_arr sh a -> unit_field (size sh) (field_of sh a).
  Proof.
    intros [Hw Hu] p Hp. apply wf_arr_inv in Hw as [Ha La]. unfold Mueller.field_of.
    rewrite Forall_forall in Hu. apply Hu, nth_In. rewrite La. now apply bc_lt.
  Qed.
  Lemma unit_add a b : unit_ang a -> unit_ang b -> unit_ang (aadd a b).
  Proof.
    unfold Mueller.unit_ang. intros Ha Hb. rewrite c_add, s_add.
    transitivity ((c a * c a + s a * s a) * (c b * c b + s b * s b)); [ring|]. rewrite Ha, Hb. ring.
  Qed.
  Lemma unit_neg a : unit_ang a -> unit_ang (aneg a).
  Proof. unfold Mueller.unit_ang. intros Ha. rewrite c_neg, s_neg. rewrite <- Ha. ring. Qed.
  Lemma unit_sub a b : unit_ang a -> unit_ang b -> unit_ang (asub a b).
  Proof. intros. rewrite a_sub. apply unit_add; [|apply unit_neg]; assumption. Qed.
  Lemma good_neg sh (a : aarr A) : good_arr sh a -> good_arr sh (arr_neg a).
  Proof.
    intros [Hw Hu]. split; [now rewrite wf_arr_neg|]. unfold Mueller.arr_neg. cbn [adata].
    rewrite Forall_forall in *. intros t Ht. apply in_map_iff in Ht as (t' & <- & Ht'). apply unit_neg. auto.
  Qed.
  Lemma good_bin sh (op : A -> A -> A) (a b : aarr A) :
    (forall ta tb, unit_ang ta -> unit_ang tb -> unit_ang (op ta tb)) ->
    good_arr sh a -> good_arr sh b ->
    exists ab, arr_bin op a b = Some ab /\ good_arr sh ab /\
      forall p, p < size sh -> field_of sh ab p = op (field_of sh a p) (field_of sh b p).
  Proof.
    intros Hop [Hwa Hua] [Hwb Hub]. destruct (field_of_bin sh op a b Hwa Hwb) as (ab & E & Hw & Hf & Hin).
    exists ab. split; [exact E|]. split; [split; [exact Hw|]|exact Hf].
    rewrite Forall_forall in *. intros t Ht. destruct (Hin t Ht) as (ta & tb & Hta & Htb & ->). auto.
  Qed.

  (* ---------- the angle algebra of the rules, on operators ---------- *)
  Notation PRot := (@PRot A). Notation PRotT := (@PRotT A). Notation PHwp := (@PHwp A). Notation PPol := (@PPol A).
  Lemma chain_mv_2 sh l r (x : value) : chain_mv sh [l; r] x = obind (mv sh r x) (mv sh l).
  Proof. reflexivity. Qed.
  Lemma chain_mv_1 sh l (x : value) : chain_mv sh [l] x = mv sh l x.
  Proof. reflexivity. Qed.

  Lemma mv_R sh i a : mv sh (PRot i a) = rot_mv (size sh) (field_of sh a).
  Proof. reflexivity. Qed.
  Lemma mv_RT sh i a : mv sh (PRotT i a) = rotT_mv (size sh) (field_of sh a).
  Proof. reflexivity. Qed.
  Lemma mv_H sh : mv sh PHwp = hwp_mv (size sh).
  Proof. reflexivity. Qed.
  Lemma mv_P sh : mv sh PPol = pol_mv (size sh).
  Proof. reflexivity. Qed.
  Ltac mv_unfold := rewrite ?mv_R, ?mv_RT, ?mv_H, ?mv_P.

  (* R(a) R(b) = R(a + b) with `a + b` the broadcast sum the rule computes *)
  Theorem rot_rot_l sh i j (a b ab : aarr A) (x : value) : wf_arr sh a = true -> wf_arr sh b = true ->
    arr_bin aadd a b = Some ab ->
    chain_mv sh [PRot i a; PRot j b] x = mv sh (PRot 0%N ab) x.
  Proof.
    intros Ha Hb E. destruct (field_of_bin sh aadd a b Ha Hb) as (ab' & E' & _ & Hf & _).
    rewrite E in E'; inversion E'; subst ab'. rewrite chain_mv_2. mv_unfold. rewrite rot_rot_mv.
    apply rot_mv_ext. intros p Hp. now rewrite Hf.
  Qed.
  (* R(a) R(b)^T = R(a - b) *)
  Theorem rot_rotT_l sh i j (a b ab : aarr A) (x : value) : wf_arr sh a = true -> wf_arr sh b = true ->
    arr_bin asub a b = Some ab ->
    chain_mv sh [PRot i a; PRotT j b] x = mv sh (PRot 0%N ab) x.
  Proof.
    intros Ha Hb E. destruct (field_of_bin sh asub a b Ha Hb) as (ab' & E' & _ & Hf & _).
    rewrite E in E'; inversion E'; subst ab'. rewrite chain_mv_2. mv_unfold. rewrite rotT_mv_neg, rot_rot_mv.
    apply rot_mv_ext. intros p Hp. now rewrite Hf, a_sub.
  Qed.
  (* R(a)^T R(b) = R(b - a) *)
  Theorem rotT_rot_l sh i j (a b ab : aarr A) (x : value) : wf_arr sh a = true -> wf_arr sh b = true ->
    arr_bin asub b a = Some ab ->
    chain_mv sh [PRotT i a; PRot j b] x = mv sh (PRot 0%N ab) x.
  Proof.
    intros Ha Hb E. destruct (field_of_bin sh asub b a Hb Ha) as (ab' & E' & _ & Hf & _).
    rewrite E in E'; inversion E'; subst ab'. rewrite chain_mv_2. mv_unfold.
    replace (obind (rot_mv (size sh) (field_of sh b) x) (rotT_mv (size sh) (field_of sh a)))
      with (obind (rot_mv (size sh) (field_of sh b) x) (rot_mv (size sh) (fun p => aneg (field_of sh a p)))).
    2:{ destruct (rot_mv (size sh) (field_of sh b) x); [cbn; now rewrite rotT_mv_neg|reflexivity]. }
    rewrite rot_rot_mv. apply rot_mv_ext. intros p Hp. rewrite Hf, a_sub by exact Hp.
    rewrite !c_add, !s_add. split; ring.
  Qed.
  (* R(a)^T R(b)^T = R(-a - b) *)
  Theorem rotT_rotT_l sh i j (a b ab : aarr A) (x : value) : wf_arr sh a = true -> wf_arr sh b = true ->
    arr_bin asub (arr_neg a) b = Some ab ->
    chain_mv sh [PRotT i a; PRotT j b] x = mv sh (PRot 0%N ab) x.
  Proof.
    intros Ha Hb E. assert (Hna : wf_arr sh (arr_neg a) = true) by now rewrite wf_arr_neg.
    destruct (field_of_bin sh asub (arr_neg a) b Hna Hb) as (ab' & E' & _ & Hf & _).
    rewrite E in E'; inversion E'; subst ab'. rewrite chain_mv_2. mv_unfold.
    replace (obind (rotT_mv (size sh) (field_of sh b) x) (rotT_mv (size sh) (field_of sh a)))
      with (obind (rot_mv (size sh) (fun p => aneg (field_of sh b p)) x) (rot_mv (size sh) (fun p => aneg (field_of sh a p)))).
    2:{ rewrite (rotT_mv_neg _ _ x). destruct (rot_mv (size sh) (fun p => aneg (field_of sh b p)) x); [cbn; now rewrite rotT_mv_neg|reflexivity]. }
    rewrite rot_rot_mv. apply rot_mv_ext. intros p Hp. rewrite Hf, a_sub, field_of_neg by assumption. auto.
  Qed.
  (* R(a) HWP = HWP R(a)^T [= HWP R(-a)] and R(a)^T HWP = HWP R(a) *)
  Theorem rot_hwp_l sh i (a : aarr A) (x : value) :
    chain_mv sh [PRot i a; PHwp] x = chain_mv sh [PHwp; PRotT i a] x.
  Proof. rewrite !chain_mv_2. mv_unfold. apply rot_hwp_mv. Qed.
  Theorem rotT_hwp_l sh i (a : aarr A) (x : value) :
    chain_mv sh [PRotT i a; PHwp] x = chain_mv sh [PHwp; PRot i a] x.
  Proof. rewrite !chain_mv_2. mv_unfold. apply rotT_hwp_mv. Qed.
  Theorem pol_hwp_l sh (x : value) : chain_mv sh [PPol; PHwp] x = chain_mv sh [PPol] x.
  Proof. rewrite chain_mv_2, chain_mv_1. mv_unfold. apply pol_hwp_mv. Qed.
  (* ---------- chains and the scan ---------- *)
  Notation good_ops sh := (Forall (good_op sh)).
  Lemma chain_mv_app sh l1 l2 (x : value) : chain_mv sh (l1 ++ l2) x = obind (chain_mv sh l2 x) (chain_mv sh l1).
  Proof.
    induction l1 as [|a l1 IH]; cbn [app].
    - destruct (chain_mv sh l2 x); reflexivity.
    - change (chain_mv sh (a :: l1 ++ l2) x) with (obind (chain_mv sh (l1 ++ l2) x) (mv sh a)).
      rewrite IH. destruct (chain_mv sh l2 x); reflexivity.
  Qed.
  Lemma chain_le_refl sh l : chain_le sh l l.
  Proof. intros x y H; exact H. Qed.
  Lemma chain_le_trans sh l1 l2 l3 : chain_le sh l1 l2 -> chain_le sh l2 l3 -> chain_le sh l1 l3.
  Proof. intros H1 H2 x y H. auto. Qed.
  Lemma chain_le_eq sh l l' : (forall x : value, chain_mv sh l x = chain_mv sh l' x) -> chain_le sh l l'.
  Proof. intros H x y E. now rewrite <- H. Qed.
  Lemma chain_le_splice sh pre mid mid' suf : chain_le sh mid mid' ->
    chain_le sh (pre ++ mid ++ suf) (pre ++ mid' ++ suf).
  Proof.
    intros H x y. rewrite !chain_mv_app. destruct (chain_mv sh suf x) as [y1|]; [|discriminate].
    cbn [Mueller.obind]. destruct (chain_mv sh mid y1) as [y2|] eqn:E; [|discriminate].
    now rewrite (H _ _ E).
  Qed.

  Lemma list_eqb_eq' X (eqb : X -> X -> bool) : (forall a b, eqb a b = true -> a = b) ->
    forall l l', Mueller.list_eqb eqb l l' = true -> l = l'.
  Proof.
    intros He l. induction l as [|x xs IH]; intros [|y ys]; cbn; try discriminate; auto.
    intros H. apply andb_true_iff in H as [H1 H2]. f_equal; auto.
  Qed.
  Lemma arr_eqb_eq (a b : aarr A) : arr_eqb aeqb a b = true -> a = b.
  Proof.
    unfold arr_eqb. destruct a as [sa da], b as [sb db]. cbn [ashape adata]. intros H.
    apply andb_true_iff in H as [H1 H2]. apply list_eqb_eq' in H1; [|intros; now apply Nat.eqb_eq].
    apply list_eqb_eq' in H2; [|exact aeqb_eq]. now subst.
  Qed.
  Lemma same_rot_eq i (a : aarr A) j b : same_rot aeqb i a j b = true -> a = b.
  Proof. unfold same_rot. intros H. apply andb_true_iff in H as [_ H]. now apply arr_eqb_eq. Qed.

  Lemma rotT_rot_le sh i j (a : aarr A) : good_arr sh a -> chain_le sh [PRotT i a; PRot j a] [].
  Proof.
    intros Hg x y. rewrite chain_mv_2. mv_unfold. destruct (view (size sh) x) as [ls|] eqn:E.
    - rewrite (rotT_rot_mv _ _ _ _ (good_field _ _ Hg) E). auto.
    - destruct (mv_none (size sh) (field_of sh a) x E) as (_ & -> & _). discriminate.
  Qed.
  Lemma rot_rotT_le sh i j (a : aarr A) : good_arr sh a -> chain_le sh [PRot i a; PRotT j a] [].
  Proof.
    intros Hg x y. rewrite chain_mv_2. mv_unfold. destruct (view (size sh) x) as [ls|] eqn:E.
    - rewrite (rot_rotT_mv _ _ _ _ (good_field _ _ Hg) E). auto.
    - destruct (mv_none (size sh) (field_of sh a) x E) as (_ & _ & -> & _). discriminate.
  Qed.

  Lemma inverse_rule_sound sh l r new : good_op sh l -> good_op sh r ->
    inverse_rule aeqb l r = Red new -> good_ops sh new /\ chain_le sh [l; r] new.
  Proof.
    intros Hl Hr. destruct l as [i a|i a| |], r as [j b|j b| |]; cbn [inverse_rule]; try discriminate.
    - destruct (same_rot aeqb j b i a) eqn:E; [|discriminate]. intros H; injection H as <-.
      apply same_rot_eq in E; subst b. split; [constructor|]. now apply rot_rotT_le.
    - destruct (same_rot aeqb i a j b) eqn:E; [|discriminate]. intros H; injection H as <-.
      apply same_rot_eq in E; subst b. split; [constructor|]. now apply rotT_rot_le.
  Qed.
  Lemma red_rot_inv (o : option (aarr A)) new : red_rot o = Red new -> exists ab, o = Some ab /\ new = [PRot 0%N ab].
  Proof. destruct o as [ab|]; cbn; [|discriminate]. intros H; injection H as <-. eauto. Qed.
  Lemma qurot_rule_sound sh l r new : good_op sh l -> good_op sh r ->
    qurot_rule a0 aadd asub aneg l r = Red new -> good_ops sh new /\ chain_le sh [l; r] new.
  Proof.
    intros Hl Hr. destruct l as [i a|i a| |], r as [j b|j b| |]; cbn [qurot_rule]; try discriminate;
      cbn [Mueller.good_op] in Hl, Hr; intros H; apply red_rot_inv in H as (ab & E & ->).
    - destruct (good_bin sh aadd a b unit_add Hl Hr) as (ab' & E' & Hg & _). rewrite E in E'; injection E' as <-.
      split; [apply Forall_cons; [exact Hg|constructor]|]. apply chain_le_eq. intros x. rewrite chain_mv_1.
      apply rot_rot_l; [apply Hl|apply Hr|exact E].
    - destruct (good_bin sh asub a b unit_sub Hl Hr) as (ab' & E' & Hg & _). rewrite E in E'; injection E' as <-.
      split; [apply Forall_cons; [exact Hg|constructor]|]. apply chain_le_eq. intros x. rewrite chain_mv_1.
      apply rot_rotT_l; [apply Hl|apply Hr|exact E].
    - destruct (good_bin sh asub b a unit_sub Hr Hl) as (ab' & E' & Hg & _). rewrite E in E'; injection E' as <-.
      split; [apply Forall_cons; [exact Hg|constructor]|]. apply chain_le_eq. intros x. rewrite chain_mv_1.
      apply rotT_rot_l; [apply Hl|apply Hr|exact E].
    - destruct (good_bin sh asub (arr_neg a) b unit_sub (good_neg _ _ Hl) Hr) as (ab' & E' & Hg & _).
      rewrite E in E'; injection E' as <-.
      split; [apply Forall_cons; [exact Hg|constructor]|]. apply chain_le_eq. intros x. rewrite chain_mv_1.
      apply rotT_rotT_l; [apply Hl|apply Hr|exact E].
  Qed.
  Lemma qurot_rule_no_fail sh l r : good_op sh l -> good_op sh r -> qurot_rule a0 aadd asub aneg l r <> Fail A.
  Proof.
    intros Hl Hr. destruct l as [i a|i a| |], r as [j b|j b| |]; cbn [qurot_rule]; try discriminate;
      cbn [Mueller.good_op] in Hl, Hr.
    - destruct (good_bin sh aadd a b unit_add Hl Hr) as (ab' & -> & _). discriminate.
    - destruct (good_bin sh asub a b unit_sub Hl Hr) as (ab' & -> & _). discriminate.
    - destruct (good_bin sh asub b a unit_sub Hr Hl) as (ab' & -> & _). discriminate.
    - destruct (good_bin sh asub (arr_neg a) b unit_sub (good_neg _ _ Hl) Hr) as (ab' & -> & _). discriminate.
  Qed.
  Lemma rot_hwp_rule_sound sh l r new : good_op sh l -> good_op sh r ->
    rot_hwp_rule l r = Red new -> good_ops sh new /\ chain_le sh [l; r] new.
  Proof.
    intros Hl Hr. destruct l as [i a|i a| |], r as [j b|j b| |]; cbn [rot_hwp_rule]; try discriminate;
      intros H; injection H as <-; (split; [apply Forall_cons; [exact I|apply Forall_cons; [exact Hl|constructor]]|]); apply chain_le_eq; intros x.
    - apply rot_hwp_l. - apply rotT_hwp_l.
  Qed.
  Lemma pol_hwp_rule_sound sh l r new : good_op sh l -> good_op sh r ->
    pol_hwp_rule l r = Red new -> good_ops sh new /\ chain_le sh [l; r] new.
  Proof.
    intros Hl Hr. destruct l as [i a|i a| |], r as [j b|j b| |]; cbn [pol_hwp_rule]; try discriminate.
    intros H; injection H as <-. split; [apply Forall_cons; [exact I|constructor]|]. apply chain_le_eq. intros x. apply pol_hwp_l.
  Qed.

  (* the first rule of the registry that reduces the pair *)
  Theorem fire_sound_l sh l r new : good_op sh l -> good_op sh r ->
    fire rules l r = Red new -> good_ops sh new /\ chain_le sh [l; r] new.
  Proof.
    intros Hl Hr. unfold Mueller.rules. cbn [fire].
    destruct (inverse_rule aeqb l r) eqn:E1; [|intros H; injection H as <-; eapply inverse_rule_sound; eauto|discriminate].
    destruct (qurot_rule a0 aadd asub aneg l r) eqn:E2; [|intros H; injection H as <-; eapply qurot_rule_sound; eauto|discriminate].
    destruct (rot_hwp_rule l r) eqn:E3; [|intros H; injection H as <-; eapply rot_hwp_rule_sound; eauto|discriminate].
    destruct (pol_hwp_rule l r) eqn:E4; [discriminate|intros H; injection H as <-; eapply pol_hwp_rule_sound; eauto|discriminate].
  Qed.
  Theorem fire_no_fail_l sh l r : good_op sh l -> good_op sh r -> fire rules l r <> Fail A.
  Proof.
    intros Hl Hr. unfold Mueller.rules. cbn [fire].
    destruct (inverse_rule aeqb l r) eqn:E1; [|discriminate|].
    2:{ destruct l as [i a|i a| |], r as [j b|j b| |]; cbn [inverse_rule] in E1; try discriminate;
          match type of E1 with (if ?c then _ else _) = _ => destruct c; discriminate end. }
    destruct (qurot_rule a0 aadd asub aneg l r) eqn:E2; [|discriminate|exfalso; exact (qurot_rule_no_fail sh l r Hl Hr E2)].
    destruct (rot_hwp_rule l r) eqn:E3; [|discriminate|].
    2:{ destruct l as [i a|i a| |], r as [j b|j b| |]; cbn [rot_hwp_rule] in E3; discriminate. }
    destruct (pol_hwp_rule l r) eqn:E4; try discriminate.
    destruct l as [i a|i a| |], r as [j b|j b| |]; cbn [pol_hwp_rule] in E4; discriminate.
  Qed.

  Lemma nth_error_split (ops : list (pop A)) i l r :
    nth_error ops i = Some l -> nth_error ops (S i) = Some r ->
    ops = firstn i ops ++ [l; r] ++ skipn (i + 2) ops.
  Proof.
    revert i. induction ops as [|a ops IH]; intros [|i] Hl Hr; cbn in *; try discriminate.
    - injection Hl as ->. destruct ops as [|b ops]; cbn in *; [discriminate|]. now injection Hr as ->.
    - f_equal. now apply IH.
  Qed.

  (* the while loop, for any fuel, from any index *)
  Theorem scan_sound_l sh fuel : forall ops index res, good_ops sh ops ->
    scan fuel rules ops index = Some res -> good_ops sh res /\ chain_le sh ops res.
  Proof.
    induction fuel as [|fuel IH]; intros ops index res Hg H; [discriminate|].
    cbn [Mueller.scan] in H. destruct (S index <? length ops).
    - destruct (nth_error ops index) as [l|] eqn:El; [|discriminate].
      destruct (nth_error ops (S index)) as [r|] eqn:Er; [|discriminate].
      pose proof (nth_error_split _ _ _ _ El Er) as Hs.
      assert (Hg3 : good_ops sh (firstn index ops) /\ good_ops sh [l; r] /\ good_ops sh (skipn (index + 2) ops)).
      { rewrite Hs in Hg. apply Forall_app in Hg as [G1 G2]. apply Forall_app in G2 as [G2 G3]. auto. }
      destruct Hg3 as (G1 & G2 & G3). pose proof (Forall_inv G2) as Gl. pose proof (Forall_inv (Forall_inv_tail G2)) as Gr.
      destruct (fire rules l r) as [|new|] eqn:Ef; [eapply IH; eauto| |discriminate].
      destruct (fire_sound_l sh l r new Gl Gr Ef) as [Gn Hle].
      assert (Gops : good_ops sh (firstn index ops ++ new ++ skipn (index + 2) ops)).
      { apply Forall_app; split; [exact G1|]. apply Forall_app; split; assumption. }
      destruct (IH _ _ _ Gops H) as [Gres Hres]. split; [exact Gres|].
      eapply chain_le_trans; [|exact Hres]. rewrite Hs at 1. now apply chain_le_splice.
    - injection H as <-. split; [exact Hg|apply chain_le_refl].
  Qed.
  Theorem reduce_chain_sound_l sh fuel ops res : good_ops sh ops ->
    reduce_chain fuel ops = Some res -> good_ops sh res /\ chain_le sh ops res.
  Proof.
    unfold Mueller.reduce_chain. intros Hg. destruct ops as [|a [|b rest]];
      try (intros H; injection H as <-; split; [exact Hg|apply chain_le_refl]).
    now apply scan_sound_l.
  Qed.

  (* ---------- the factories ---------- *)
  Lemma hwp_create_comps m f (ls : list (list K)) : comps_ok m ls = true ->
    obind (obind (rot_comps f ls) hwp_comps) (rotT_comps f) =
    Some (mueller_comps (fun p => mmul (mtrans (M_rot (f p))) (mmul M_hwp (M_rot (f p)))) m ls).
  Proof.
    intros H. cases_of H; unfold Mueller.mueller_comps;
      cbn [Mueller.rot_comps Mueller.rotT_comps Mueller.hwp_comps Mueller.obind length sidx map];
      each_leaf mueller_leaf.
  Qed.
  Lemma pol_create_comps m f (ls : list (list K)) : comps_ok m ls = true ->
    obind (rot_comps f ls) pol_comps = Some (mueller_row (fun p => rowmul M_pol (M_rot (f p))) m ls).
  Proof.
    intros H. cases_of H; unfold Mueller.mueller_row;
      cbn [Mueller.rot_comps Mueller.pol_comps Mueller.obind length sidx]; apply f_equal; mueller_leaf.
  Qed.
  Theorem hwp_create_product_l sh i (a : aarr A) (x : value) ls : view (size sh) x = Some ls ->
    chain_mv sh (hwp_create i (Some a)) x =
    Some (mk (mueller_comps (fun p => mmul (mtrans (M_rot (field_of sh a p))) (mmul M_hwp (M_rot (field_of sh a p)))) (size sh) ls)).
  Proof.
    intros E. cbn [hwp_create]. change [PRotT i a; PHwp; PRot i a] with ([PRotT i a] ++ [PHwp; PRot i a]).
    rewrite chain_mv_app, chain_mv_2. mv_unfold. unfold Mueller.rot_mv, Mueller.hwp_mv.
    rewrite lift_lift by (intros; eapply rot_pres; eauto).
    change (chain_mv sh [PRotT i a]) with (lift (size sh) (rotT_comps (field_of sh a))).
    rewrite lift_lift.
    2:{ intros l1 l2 Hok Hc. destruct (rot_comps (field_of sh a) l1) as [l3|] eqn:E3; [|discriminate].
        cbn [Mueller.obind] in Hc. eapply hwp_pres; [eapply rot_pres; eauto|eauto]. }
    unfold Mueller.lift. rewrite E. apply view_inv in E as [_ Hok]. now rewrite (hwp_create_comps _ _ _ Hok).
  Qed.
  Theorem pol_create_product_l sh i (a : aarr A) (x : value) ls : view (size sh) x = Some ls ->
    chain_mv sh (pol_create i (Some a)) x =
    Some (Leaf (mueller_row (fun p => rowmul M_pol (M_rot (field_of sh a p))) (size sh) ls)).
  Proof.
    intros E. cbn [pol_create]. rewrite chain_mv_2. mv_unfold. unfold Mueller.rot_mv, Mueller.pol_mv, Mueller.lift.
    rewrite E. apply view_inv in E as [_ Hok]. destruct (rot_comps_ok _ (field_of sh a) _ Hok) as (ls' & E' & Hok').
    rewrite E'. cbn [option_map Mueller.obind]. rewrite (view_mk _ _ Hok').
    pose proof (pol_create_comps _ (field_of sh a) _ Hok) as Hc. rewrite E' in Hc. cbn [Mueller.obind] in Hc.
    rewrite Hc. reflexivity.
  Qed.
  (* what reduce() makes of HWPOperator.create(angles=a): HWP R(a + a) *)
  Theorem hwp_create_reduce_l sh i (a : aarr A) fuel : good_arr sh a ->
    exists aa, arr_bin aadd a a = Some aa /\
      reduce_chain (5 + fuel) (hwp_create i (Some a)) = Some [PHwp; PRot 0%N aa].
  Proof.
    intros Hg. destruct (good_bin sh aadd a a unit_add Hg Hg) as (aa & E & _). exists aa. split; [exact E|].
    cbn. rewrite E. reflexivity.
  Qed.
End MuellerL.

(* ------------------------------------------------------------------------------------------ *)
(* The executable instance satisfies the Section hypotheses (so the theorems are not vacuous and
   apply to the model terms the correspondence harness evaluates). *)
From Coq Require Import QArith Qcanon.
Lemma xeqb_eq a b : xeqb a b = true -> a = b.
Proof.
  destruct a as [a1 a2], b as [b1 b2]. unfold xeqb. cbn [fst snd]. intros H.
  apply andb_true_iff in H as [H1 H2]. apply Qc_eq_bool_correct in H1, H2. now subst.
Qed.
Lemma x_c_add a b : xc (xadd a b) = Qcminus (Qcmult (xc a) (xc b)) (Qcmult (xs a) (xs b)).
Proof. reflexivity. Qed.
Lemma x_s_add a b : xs (xadd a b) = Qcplus (Qcmult (xs a) (xc b)) (Qcmult (xc a) (xs b)).
Proof. reflexivity. Qed.
Lemma x_c_0 : xc x0 = Q2Qc 1.
Proof. reflexivity. Qed.
Lemma x_s_0 : xs x0 = Q2Qc 0.
Proof. reflexivity. Qed.
Lemma x_c_neg a : xc (xneg a) = xc a.
Proof. reflexivity. Qed.
Lemma x_s_neg a : xs (xneg a) = Qcopp (xs a).
Proof. reflexivity. Qed.
Lemma x_a_sub a b : xsub a b = xadd a (xneg b).
Proof. reflexivity. Qed.
