(* Normal form reached by the scan of AlgebraicReductionRule (C07): no adjacent pair of the result
   is reducible, at most one scalar factor remains, no identity factor remains. *)
From Coq Require Import List Bool Arith ZArith NArith QArith String Lia.
From Furax Require Import Base.Pytree Model.Op Model.Algebra.
Import ListNotations.
Local Close Scope Q_scope.
Local Open Scope nat_scope.

Section Normal.
  Variable K : Type.
  Variable keqb : K -> K -> bool.
  Variables (k1 : K) (kmul : K -> K -> K).
  Notation op := (op K).
  Variable rr : op -> result op.
  Variable order : list rule_id.
  Notation fires := (fires keqb kmul rr order).
  Notation scan := (scan keqb k1 kmul rr).
  Notation homothety_rule := (homothety_rule k1 kmul).

  Definition irreducible_at (ops : list op) (j : nat) : Prop :=
    forall l r, nth_error ops j = Some l -> nth_error ops (S j) = Some r -> fires l r = Ok None.
  Definition normal (ops : list op) : Prop := forall j, irreducible_at ops j.

  Lemma nth_error_splice_lt (ops new rest : list op) index j :
    j < index -> index <= List.length ops ->
    nth_error (firstn index ops ++ new ++ rest) j = nth_error ops j.
  Proof.
    intros Hj Hi. rewrite nth_error_app1 by (rewrite firstn_length; lia).
    revert ops index Hj Hi. induction j as [|j IHj]; intros [|a ops] [|index] Hj Hi; cbn in *; try lia; try reflexivity.
    apply IHj; lia.
  Qed.

  Lemma bind_ok A B (r : result A) (f : A -> result B) b :
    bind r f = Ok b -> exists a, r = Ok a /\ f a = Ok b.
  Proof. destruct r; cbn; [eauto|discriminate]. Qed.

  (* the loop invariant: every pair left of `index` is irreducible *)
  Lemma scan_normal fuel : forall ops index res,
    scan fuel order ops index = Ok res ->
    (forall j, j < index -> irreducible_at ops j) ->
    normal res.
  Proof.
    induction fuel as [|fuel IH]; intros ops index res Hs Hinv; [discriminate|].
    cbn [Algebra.scan] in Hs. destruct (Nat.ltb (S index) (List.length ops)) eqn:Hlt.
    - apply Nat.ltb_lt in Hlt.
      destruct (nth_error ops index) as [l|] eqn:El; [|discriminate].
      destruct (nth_error ops (S index)) as [r|] eqn:Er; [|discriminate].
      apply bind_ok in Hs as (fr & Hf & Hs). destruct fr as [new0|].
      + destruct (existsb _ (identity_rule new0)).
        * (* a scalar was produced: relocate, restart from the left *)
          eapply IH; [exact Hs|]. intros j Hj; lia.
        * (* splice and step back by one *)
          eapply IH; [exact Hs|]. intros j Hj l' r' Hl' Hr'.
          rewrite nth_error_splice_lt in Hl' by lia.
          rewrite nth_error_splice_lt in Hr' by lia.
          apply (Hinv j); [lia|exact Hl'|exact Hr'].
      + eapply IH; [exact Hs|]. intros j Hj.
        destruct (Nat.eq_dec j index) as [->|Hne].
        * intros l' r' Hl' Hr'. congruence.
        * apply Hinv; lia.
    - apply Nat.ltb_ge in Hlt. inversion Hs; subst res. intros j l r Hl Hr.
      destruct (Nat.lt_ge_cases j index) as [Hj|Hj]; [exact (Hinv j Hj l r Hl Hr)|].
      assert (S j < List.length ops) by (apply nth_error_Some; congruence). lia.
  Qed.

  (* ---------- scalar factors ---------- *)
  Definition nhom (ops : list op) : nat := List.length (filter (@is_homoth K) ops).
  Lemma nhom_app a b : nhom (a ++ b) = nhom a + nhom b.
  Proof. unfold nhom. now rewrite filter_app, app_length. Qed.
  Lemma nhom_others ops : nhom (filter (fun e => negb (is_homoth e)) ops) = 0.
  Proof.
    unfold nhom. induction ops as [|e r IH]; [reflexivity|]. cbn [filter].
    destruct (is_homoth e) eqn:E; cbn [negb]; [exact IH|]. cbn [filter]. now rewrite E.
  Qed.
  Lemma homothety_rule_one ops : nhom (homothety_rule ops) <= 1.
  Proof.
    unfold Algebra.homothety_rule. destruct ops as [|a [|b r]].
    - cbn. lia.
    - unfold nhom. cbn. destruct (is_homoth a); cbn; lia.
    - fold (nhom (a :: b :: r)).
      destruct (Nat.eqb (nhom (a :: b :: r)) 0) eqn:E0; [apply Nat.eqb_eq in E0; lia|].
      match goal with |- context [if ?c then a :: b :: r else _] => destruct c eqn:Ec end.
      + apply andb_true_iff in Ec as [Ec _]. apply Nat.eqb_eq in Ec. lia.
      + destruct (Nat.leb _ _).
        * change (nhom ([Homoth fresh (homoth_value k1 kmul (a :: b :: r)) (out_struct a)] ++
                        filter (fun e => negb (is_homoth e)) (a :: b :: r)) <= 1).
          rewrite nhom_app, nhom_others. unfold nhom; cbn. lia.
        * rewrite nhom_app, nhom_others. unfold nhom; cbn. lia.
  Qed.
  Lemma nhom_firstn ops n : nhom (firstn n ops) <= nhom ops.
  Proof. rewrite <- (firstn_skipn n ops) at 2. rewrite nhom_app. lia. Qed.
  Lemma nhom_skipn ops n : nhom (skipn n ops) <= nhom ops.
  Proof. rewrite <- (firstn_skipn n ops) at 2. rewrite nhom_app. lia. Qed.
  Lemma nhom_split ops n : nhom ops = nhom (firstn n ops) + nhom (skipn n ops).
  Proof. rewrite <- (firstn_skipn n ops) at 1. now rewrite nhom_app. Qed.
  Lemma skipn_add (l : list op) n m : skipn (n + m) l = skipn m (skipn n l).
  Proof. revert l; induction n as [|n IH]; intros [|a l]; cbn; auto. now destruct m. Qed.
  Lemma existsb_nhom l : existsb (@is_homoth K) l = false -> nhom l = 0.
  Proof.
    unfold nhom. induction l as [|e r IH]; [reflexivity|]. cbn. destruct (is_homoth e); [discriminate|]. exact IH.
  Qed.

  Lemma scan_one_scalar fuel : forall ops index res,
    scan fuel order ops index = Ok res -> nhom ops <= 1 -> nhom res <= 1.
  Proof.
    induction fuel as [|fuel IH]; intros ops index res Hs Hn; [discriminate|].
    cbn [Algebra.scan] in Hs. destruct (Nat.ltb (S index) (List.length ops)).
    - destruct (nth_error ops index) as [l|]; [|discriminate].
      destruct (nth_error ops (S index)) as [r|]; [|discriminate].
      apply bind_ok in Hs as (fr & Hf & Hs). destruct fr as [new0|].
      + destruct (existsb _ (identity_rule new0)) eqn:Eh.
        * eapply IH; [exact Hs|]. apply homothety_rule_one.
        * eapply IH; [exact Hs|]. rewrite !nhom_app, (existsb_nhom _ Eh).
          pose proof (nhom_split ops index) as H1.
          pose proof (nhom_skipn (skipn index ops) 2) as H2. rewrite <- skipn_add in H2. lia.
      + eapply IH; eauto.
    - inversion Hs; subst. exact Hn.
  Qed.

  (* ---------- identity factors ---------- *)
  Definition no_ident (ops : list op) : Prop := Forall (fun e => is_ident e = false) ops.
  Lemma identity_rule_no_ident ops : no_ident (identity_rule ops).
  Proof.
    unfold no_ident, identity_rule. apply Forall_forall. intros e He. apply filter_In in He as [_ He].
    now apply negb_true_iff in He.
  Qed.
  Lemma no_ident_app a b : no_ident a -> no_ident b -> no_ident (a ++ b).
  Proof. unfold no_ident. intros Ha Hb. induction Ha; cbn; auto. Qed.
  Lemma no_ident_firstn n ops : no_ident ops -> no_ident (firstn n ops).
  Proof. unfold no_ident. revert n. induction ops as [|a r IH]; intros [|n] H; cbn; try constructor;
    inversion H; subst; auto. Qed.
  Lemma no_ident_skipn n ops : no_ident ops -> no_ident (skipn n ops).
  Proof. unfold no_ident. revert n. induction ops as [|a r IH]; intros [|n] H; cbn; auto.
    inversion H; subst; auto. Qed.
  Lemma homothety_rule_no_ident ops : no_ident ops -> no_ident (homothety_rule ops).
  Proof.
    intros H. unfold Algebra.homothety_rule. destruct ops as [|a [|b r]]; try exact H.
    destruct (Nat.eqb _ 0); [exact H|].
    match goal with |- context [if ?c then a :: b :: r else _] => destruct c end; [exact H|].
    assert (Ho : no_ident (filter (fun e => negb (is_homoth e)) (a :: b :: r))).
    { unfold no_ident in *. rewrite Forall_forall in *. intros e He. apply filter_In in He as [He _]. auto. }
    destruct (Nat.leb _ _).
    - constructor; [reflexivity|exact Ho].
    - apply no_ident_app; [exact Ho|]. constructor; [reflexivity|constructor].
  Qed.
  Lemma scan_no_ident fuel : forall ops index res,
    scan fuel order ops index = Ok res -> no_ident ops -> no_ident res.
  Proof.
    induction fuel as [|fuel IH]; intros ops index res Hs Hn; [discriminate|].
    cbn [Algebra.scan] in Hs. destruct (Nat.ltb (S index) (List.length ops)).
    - destruct (nth_error ops index) as [l|]; [|discriminate].
      destruct (nth_error ops (S index)) as [r|]; [|discriminate].
      apply bind_ok in Hs as (fr & Hf & Hs). destruct fr as [new0|].
      + assert (Hsp : no_ident (firstn index ops ++ identity_rule new0 ++ skipn (index + 2) ops)).
        { apply no_ident_app; [now apply no_ident_firstn|].
          apply no_ident_app; [apply identity_rule_no_ident|now apply no_ident_skipn]. }
        destruct (existsb _ (identity_rule new0)).
        * eapply IH; [exact Hs|]. now apply homothety_rule_no_ident.
        * eapply IH; eauto.
      + eapply IH; eauto.
    - inversion Hs; subst. exact Hn.
  Qed.

  (* ---------- the n-ary rule as a whole ---------- *)
  Theorem algebraic_normal_l fuel ops res :
    algebraic_reduction keqb k1 kmul rr fuel order ops = Ok res -> 2 <= List.length ops ->
    normal res /\ nhom res <= 1 /\ (no_ident res \/ exists s, res = [Ident fresh s]).
  Proof.
    unfold Algebra.algebraic_reduction. destruct ops as [|a [|b rest]]; cbn [List.length]; try lia.
    intros H _. apply bind_ok in H as (res' & Hs & H).
    pose proof (scan_normal _ _ _ _ Hs ltac:(intros; lia)) as Hn.
    pose proof (scan_one_scalar _ _ _ _ Hs (homothety_rule_one _)) as H1.
    pose proof (scan_no_ident _ _ _ _ Hs (homothety_rule_no_ident _ (identity_rule_no_ident _))) as Hi.
    destruct res' as [|c r]; inversion H; subst res.
    - split; [|split].
      + intros j l r Hl Hr. destruct j; cbn in Hr; [discriminate|destruct j; discriminate].
      + unfold nhom; cbn; lia.
      + right. eauto.
    - auto.
  Qed.

  (* a pair on which some rule fires never stays adjacent in the result *)
  Corollary pattern_never_survives_l fuel ops res l r new j :
    algebraic_reduction keqb k1 kmul rr fuel order ops = Ok res -> 2 <= List.length ops ->
    fires l r = Ok (Some new) ->
    ~ (nth_error res j = Some l /\ nth_error res (S j) = Some r).
  Proof.
    intros H Hlen Hf [Hl Hr]. destruct (algebraic_normal_l _ _ _ H Hlen) as [Hn _].
    rewrite (Hn j l r Hl Hr) in Hf. discriminate.
  Qed.
End Normal.
