From Furax Require Import Base.Pytree Model.Op Model.Algebra.
