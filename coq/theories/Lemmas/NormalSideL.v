(* C07, placement clause: "at most one scalar factor remains, PLACED ON THE SIDE WITH FEWER
   ELEMENTS".

   What the code does (HomothetyRule.apply, Algebra.homothety_rule): on the chain as it stands it
   computes  on_left := out_size(first) <= in_size(last)  (first / last may themselves be scalars),
   and puts the merged scalar FIRST when on_left, LAST otherwise; a tie goes to the LEFT.

   Key fact: along a chain-compatible list (`typed ops si so`, Lemmas/ReduceStructsL.v) the output
   structure of the first factor is `so` and the input structure of the last factor is `si`, whether
   or not these factors are scalars (a scalar is square), and every step of the reduction (identity
   rule, scalar rule, every binary rule, the splice of the scan) keeps `typed _ si so`.  Hence the
   decision  |so| <= |si|  is the SAME at every relocation and at the end, and it coincides with the
   comparison of the first / last NON-scalar factors.  A firing that produces no scalar cannot move
   the scalar away from the end where it stands (it can only consume it); a firing that produces a
   scalar triggers a relocation.  So placement never goes stale. *)
From Coq Require Import List Bool Arith ZArith NArith QArith String Lia.
From Furax Require Import Base.Pytree Model.Op Model.Algebra Model.Wf Lemmas.Sound Lemmas.BuildL
  Lemmas.Normal Lemmas.ReduceStructsL.
Import ListNotations.
Local Close Scope Q_scope.
Local Open Scope nat_scope.

Section SideDefs.
  Variable K : Type.
  Notation op := (op K).
  Notation nhom := (nhom K).

  Definition nonscalars (ops : list op) : list op := filter (fun e => negb (is_homoth e)) ops.

  (* The statement about a chain.  If the chain has at least two factors and contains a scalar, then
     it contains exactly one, there is a non-scalar factor, and with first' / last' the first and the
     last non-scalar factors:
       out_size first' <= in_size last'  ->  the scalar is the FIRST factor   (ties go left: the code)
       in_size last'   <  out_size first' ->  the scalar is the LAST factor. *)
  Definition scalar_placed (ops : list op) : Prop :=
    2 <= List.length ops -> 1 <= nhom ops ->
    nhom ops = 1 /\
    exists f' ns, nonscalars ops = f' :: ns /\
      (out_size f' <= in_size (last (f' :: ns) f') -> is_homoth (hd f' ops) = true) /\
      (in_size (last (f' :: ns) f') < out_size f' -> is_homoth (last ops f') = true).

  (* the literal reading of the property: strictly fewer elements on one side -> the scalar is
     there; equal -> the scalar is at one of the two ends *)
  Definition scalar_on_smaller_side (ops : list op) : Prop :=
    2 <= List.length ops -> 1 <= nhom ops ->
    nhom ops = 1 /\
    exists f' ns, nonscalars ops = f' :: ns /\
      (out_size f' < in_size (last (f' :: ns) f') -> is_homoth (hd f' ops) = true) /\
      (in_size (last (f' :: ns) f') < out_size f' -> is_homoth (last ops f') = true) /\
      (out_size f' = in_size (last (f' :: ns) f') ->
         is_homoth (hd f' ops) = true \/ is_homoth (last ops f') = true).

  Lemma scalar_placed_literal ops : scalar_placed ops -> scalar_on_smaller_side ops.
  Proof.
    intros H Hl Hn. destruct (H Hl Hn) as (H1 & f' & ns & E & Hf & Hb).
    split; [exact H1|]. exists f', ns. split; [exact E|]. split; [|split].
    - intros Hlt. apply Hf. lia.
    - exact Hb.
    - intros Heq. left. apply Hf. lia.
  Qed.

  (* decidable form, for tests by computation *)
  Definition scalar_placedb (ops : list op) : bool :=
    if Nat.leb 2 (List.length ops) && Nat.leb 1 (nhom ops) then
      Nat.eqb (nhom ops) 1 &&
      match nonscalars ops with
      | [] => false
      | f' :: ns =>
          if Nat.leb (out_size f') (in_size (last (f' :: ns) f')) then is_homoth (hd f' ops)
          else is_homoth (last ops f')
      end
    else true.

  Lemma scalar_placedb_ok ops : scalar_placedb ops = true <-> scalar_placed ops.
  Proof.
    unfold scalar_placedb, scalar_placed.
    destruct (Nat.leb 2 (List.length ops)) eqn:E2; cbn [andb].
    2:{ apply Nat.leb_gt in E2. split; [intros _ H; lia|reflexivity]. }
    apply Nat.leb_le in E2.
    destruct (Nat.leb 1 (nhom ops)) eqn:E1.
    2:{ apply Nat.leb_gt in E1. split; [intros _ _ H; lia|reflexivity]. }
    apply Nat.leb_le in E1. split.
    - intros H _ _. apply andb_true_iff in H as [Hn H]. apply Nat.eqb_eq in Hn. split; [exact Hn|].
      destruct (nonscalars ops) as [|f' ns]; [discriminate|]. exists f', ns. split; [reflexivity|].
      destruct (Nat.leb (out_size f') (in_size (last (f' :: ns) f'))) eqn:El.
      + apply Nat.leb_le in El. split; [intros _; exact H|intros; lia].
      + apply Nat.leb_gt in El. split; [intros; lia|intros _; exact H].
    - intros H. destruct (H E2 E1) as (Hn & f' & ns & -> & Hf & Hb).
      apply andb_true_iff. split; [now apply Nat.eqb_eq|].
      destruct (Nat.leb (out_size f') (in_size (last (f' :: ns) f'))) eqn:El.
      + apply Nat.leb_le in El. auto.
      + apply Nat.leb_gt in El. auto.
  Qed.
End SideDefs.

Section Side.
  Variable K : Type.
  Variable keqb : K -> K -> bool.
  Hypothesis keqb_eq : forall a b, keqb a b = true -> a = b.
  Variables (k1 : K) (kmul : K -> K -> K).
  Notation op := (op K).
  Notation nhom := (nhom K).
  Notation nonscalars := (nonscalars K).
  Notation fires := (fires keqb kmul).
  Notation scan := (scan keqb k1 kmul).
  Notation algebraic_reduction := (algebraic_reduction keqb k1 kmul).
  Notation reduce := (reduce keqb k1 kmul).
  Notation homothety_rule := (homothety_rule k1 kmul).

  (* ---------- lists ---------- *)
  Lemma last_app_ne (l1 l2 : list op) d : l2 <> [] -> last (l1 ++ l2) d = last l2 d.
  Proof.
    intros Hne. induction l1 as [|a l1 IH]; [reflexivity|].
    cbn [app]. destruct (l1 ++ l2) eqn:E.
    - apply app_eq_nil in E as [_ E]. congruence.
    - rewrite <- E in *. cbn [last]. rewrite E. rewrite <- E. exact IH.
  Qed.
  Lemma last_default (l : list op) d d' : l <> [] -> last l d = last l d'.
  Proof.
    induction l as [|a l IH]; [congruence|]. intros _. destruct l as [|b l]; [reflexivity|].
    cbn [last] in *. apply IH. discriminate.
  Qed.
  Lemma hd_default (l : list op) d d' : l <> [] -> hd d l = hd d' l.
  Proof. destruct l; [congruence|reflexivity]. Qed.
  Lemma split_pair (ops : list op) i l r :
    nth_error ops i = Some l -> nth_error ops (S i) = Some r ->
    ops = firstn i ops ++ [l; r] ++ skipn (i + 2) ops.
  Proof.
    revert i. induction ops as [|a ops IH]; intros [|i] Hl Hr; cbn in *; try discriminate.
    - inversion Hl; subst. destruct ops as [|b ops]; cbn in *; [discriminate|]. now inversion Hr; subst.
    - f_equal. now apply IH.
  Qed.
  Lemma length_partition (ops : list op) : List.length ops = nhom ops + List.length (nonscalars ops).
  Proof.
    unfold Normal.nhom, nonscalars. induction ops as [|e r IH]; [reflexivity|].
    cbn [filter List.length]. destruct (is_homoth e); cbn [negb List.length]; lia.
  Qed.
  Lemma nhom_cons e (r : list op) : nhom (e :: r) = (if is_homoth e then 1 else 0) + nhom r.
  Proof. unfold Normal.nhom. cbn [filter]. destruct (is_homoth e); reflexivity. Qed.
  Lemma nhom_nil : nhom [] = 0.
  Proof. reflexivity. Qed.

  (* ---------- (0) the scalar rule on ANY chain, no hypothesis: exactly what the code does ---------- *)
  (* the decision is taken on the ends of the chain as it stands *)
  Lemma homothety_rule_places_raw (ops : list op) d :
    2 <= List.length ops -> 1 <= nhom ops ->
    nhom (homothety_rule ops) = 1 /\
    (if Nat.leb (out_size (hd d ops)) (in_size (last ops d))
     then is_homoth (hd d (homothety_rule ops)) else is_homoth (last (homothety_rule ops) d)) = true.
  Proof.
    intros Hlen Hn. unfold Algebra.homothety_rule.
    destruct ops as [|a [|b r]]; cbn [List.length] in Hlen; try lia.
    set (ops := a :: b :: r) in *.
    fold (nhom ops). destruct (Nat.eqb (nhom ops) 0) eqn:E0; [apply Nat.eqb_eq in E0; lia|].
    assert (Hne : ops <> []) by discriminate.
    rewrite (last_default ops d a Hne). change (hd d ops) with a.
    match goal with |- context [if ?c then ops else _] => destruct c eqn:Ec end.
    - apply andb_true_iff in Ec as [E1 Ec]. apply Nat.eqb_eq in E1. split; [exact E1|].
      destruct (Nat.leb (out_size a) (in_size (last ops a))); cbn [andb negb orb] in Ec.
      + rewrite orb_false_r in Ec. exact Ec.
      + rewrite (last_default ops d a Hne). exact Ec.
    - destruct (Nat.leb (out_size a) (in_size (last ops a))).
      + split; [|reflexivity].
        change (nhom ([Homoth fresh (homoth_value k1 kmul ops) (out_struct a)] ++
                      filter (fun e => negb (is_homoth e)) ops) = 1).
        rewrite nhom_app, nhom_others. reflexivity.
      + split; [rewrite nhom_app, nhom_others; reflexivity|]. now rewrite last_last.
  Qed.

  (* ---------- the invariant carried through the reduction ---------- *)
  (* at most one scalar, and it stands at the end chosen by |so| <= |si| *)
  Definition placed (si so : struct) (ops : list op) : Prop :=
    nhom ops <= 1 /\
    (nhom ops = 1 -> forall d,
       (if Nat.leb (struct_size so) (struct_size si)
        then is_homoth (hd d ops) else is_homoth (last ops d)) = true).

  Lemma placed_no_scalar si so ops : nhom ops = 0 -> placed si so ops.
  Proof. intros H. split; lia. Qed.

  Lemma typed_ends (ops : list op) si so d : typed ops si so -> ops <> [] ->
    in_struct (last ops d) = si /\ out_struct (hd d ops) = so.
  Proof. intros T Hne. destruct (typed_chain K ops si so d T Hne) as (_ & _ & _ & I & O). auto. Qed.

  (* (1) the scalar rule establishes the invariant on a chain-compatible list *)
  Lemma homothety_rule_placed (ops : list op) si so :
    typed ops si so -> placed si so (homothety_rule ops).
  Proof.
    intros T. destruct ops as [|a [|b r]].
    - apply placed_no_scalar. reflexivity.
    - cbn. split.
      + rewrite nhom_cons, nhom_nil. destruct (is_homoth a); lia.
      + rewrite nhom_cons, nhom_nil. intros H d. cbn [hd last].
        destruct (is_homoth a); [|lia]. now destruct (Nat.leb _ _).
    - set (ops := a :: b :: r) in *.
      destruct (Nat.eq_dec (nhom ops) 0) as [E0|E0].
      + unfold Algebra.homothety_rule. fold ops. fold (nhom ops).
        rewrite E0. cbn [Nat.eqb]. now apply placed_no_scalar.
      + assert (Hne : ops <> []) by discriminate.
        destruct (homothety_rule_places_raw ops a ltac:(cbn; lia) ltac:(lia)) as [H1 Hp].
        destruct (typed_ends ops si so a T Hne) as [I O].
        unfold out_size, in_size in Hp. rewrite I, O in Hp.
        split; [lia|]. intros _ d.
        assert (Hne' : homothety_rule ops <> []).
        { intros E. rewrite E in H1. discriminate. }
        rewrite (hd_default _ d a Hne'), (last_default _ d a Hne'). exact Hp.
  Qed.

  (* a firing whose (identity-free) output contains no scalar keeps the invariant *)
  Lemma splice_placed si so (A B new : list op) l r :
    placed si so (A ++ [l; r] ++ B) -> nhom new = 0 -> placed si so (A ++ new ++ B).
  Proof.
    intros [Hle Hp] Hnew. rewrite !nhom_app in Hle.
    split; [rewrite !nhom_app; lia|].
    rewrite !nhom_app. intros H1 d.
    assert (Hlr : nhom [l; r] = 0) by lia.
    rewrite !nhom_cons, nhom_nil in Hlr.
    assert (Hl : is_homoth l = false) by (destruct (is_homoth l); [lia|reflexivity]).
    assert (Hr : is_homoth r = false) by (destruct (is_homoth r); [lia|reflexivity]).
    specialize (Hp ltac:(rewrite !nhom_app; lia) d).
    destruct (Nat.leb (struct_size so) (struct_size si)).
    - destruct A as [|a A']; [cbn in Hp; congruence|exact Hp].
    - destruct B as [|b B'].
      + exfalso. rewrite app_nil_r in Hp. rewrite last_app_ne in Hp by discriminate.
        cbn in Hp. congruence.
      + rewrite app_assoc in Hp |- *. rewrite last_app_ne in Hp |- * by discriminate. exact Hp.
  Qed.

  Section Rules.
    Variable rr : op -> result op.
    Hypothesis Hrr : keeps rr.

    (* (2) the loop invariant of the scan *)
    Lemma scan_placed fuel order : forall ops index res si so,
      scan rr fuel order ops index = Ok res -> typed ops si so -> placed si so ops ->
      typed res si so /\ placed si so res.
    Proof.
      induction fuel as [|fuel IH]; intros ops index res si so H T P; [discriminate|].
      cbn [Algebra.scan] in H. destruct (Nat.ltb (S index) (List.length ops)).
      - destruct (nth_error ops index) as [l|] eqn:El; [|discriminate].
        destruct (nth_error ops (S index)) as [r|] eqn:Er; [|discriminate].
        apply result_bind_ok in H as (fr & Hf & H). destruct fr as [new0|].
        + pose proof (split_pair _ _ _ _ El Er) as Hs.
          assert (T1 : typed (firstn index ops ++ identity_rule new0 ++ skipn (index + 2) ops) si so).
          { rewrite Hs in T. apply typed_app_inv in T as (s2 & T2 & TA).
            apply typed_app_inv in T2 as (s1 & TB & TP).
            eapply typed_app; [|exact TA]. eapply typed_app; [exact TB|].
            apply identity_rule_typed. eapply fires_typed; eauto. }
          destruct (existsb _ (identity_rule new0)) eqn:Eh.
          * (* a scalar was produced: relocation on the whole chain *)
            eapply IH; [exact H| |].
            -- now apply homothety_rule_typed.
            -- now apply homothety_rule_placed.
          * (* no scalar produced: the scalar, if still there, has not moved *)
            eapply IH; [exact H|exact T1|].
            rewrite Hs in P. eapply splice_placed; [exact P|]. now apply existsb_nhom.
        + eapply IH; eauto.
      - inversion H; subst. auto.
    Qed.

    Lemma algebraic_placed fuel order ops res si so :
      algebraic_reduction rr fuel order ops = Ok res -> typed ops si so ->
      typed res si so /\ (2 <= List.length ops -> placed si so res).
    Proof.
      intros H T. split; [eapply algebraic_typed; eauto|]. intros Hlen.
      unfold Algebra.algebraic_reduction in H.
      destruct ops as [|a [|b rest]]; cbn [List.length] in Hlen; try lia.
      apply result_bind_ok in H as (res' & Hs & H).
      pose proof (identity_rule_typed K _ _ _ T) as T0.
      destruct (scan_placed _ _ _ _ _ _ _ Hs (homothety_rule_typed K k1 kmul _ _ _ T0)
                  (homothety_rule_placed _ _ _ T0)) as [_ P].
      destruct res' as [|c r]; inversion H; subst; [|exact P].
      apply placed_no_scalar. reflexivity.
    Qed.
  End Rules.

  (* ---------- from the invariant to the statement about first' / last' ---------- *)
  Lemma placed_scalar_placed (ops : list op) si so :
    typed ops si so -> placed si so ops -> scalar_placed K ops.
  Proof.
    intros T [Hle Hp] Hlen Hn. assert (H1 : nhom ops = 1) by lia. split; [exact H1|].
    pose proof (length_partition ops) as Hpart.
    destruct (nonscalars ops) as [|f' ns] eqn:En; [cbn in Hpart; lia|].
    exists f', ns. split; [reflexivity|].
    assert (Tn : typed (f' :: ns) si so).
    { rewrite <- En. unfold nonscalars. apply filter_typed; [|exact T].
      intros e He. destruct e; try discriminate. reflexivity. }
    destruct (typed_ends (f' :: ns) si so f' Tn ltac:(discriminate)) as [I O]. cbn [hd] in O.
    unfold out_size, in_size. rewrite I, O. specialize (Hp H1 f').
    destruct (Nat.leb (struct_size so) (struct_size si)) eqn:El.
    - apply Nat.leb_le in El. split; [intros _; exact Hp|intros; lia].
    - apply Nat.leb_gt in El. split; [intros; lia|intros _; exact Hp].
  Qed.

  (* (1) as asked: the scalar rule places the scalar, on a chain-compatible list *)
  Theorem homothety_rule_places (ops : list op) si so :
    typed ops si so -> scalar_placed K (homothety_rule ops).
  Proof.
    intros T. eapply placed_scalar_placed; [apply homothety_rule_typed; exact T|].
    now apply homothety_rule_placed.
  Qed.

  (* (2) as asked: the n-ary rule.  (For fewer than two factors the rule returns its input and the
     statement is void, so no hypothesis on the length is needed.) *)
  Theorem algebraic_scalar_placed rr fuel order (ops res : list op) si so : keeps rr ->
    typed ops si so -> algebraic_reduction rr fuel order ops = Ok res -> scalar_placed K res.
  Proof.
    intros Hrr T H. destruct (algebraic_placed rr Hrr _ _ _ _ _ _ H T) as [T' P].
    destruct (le_lt_dec 2 (List.length ops)) as [Hl|Hl].
    - eapply placed_scalar_placed; eauto.
    - unfold Algebra.algebraic_reduction in H.
      destruct ops as [|a [|b rest]]; cbn [List.length] in Hl; try lia;
        inversion H; subst; intros Hlen; cbn in Hlen; lia.
  Qed.

  (* the same with the hypotheses spelled out on the list *)
  Corollary algebraic_scalar_placed_chain rr fuel order (ops res : list op) : keeps rr ->
    chain_ok ops = true -> allwf K ops = true -> allpk ops = true ->
    algebraic_reduction rr fuel order ops = Ok res -> scalar_placed K res.
  Proof.
    intros Hrr C A P H. destruct ops as [|a r].
    - inversion H; subst. intros Hlen; cbn in Hlen; lia.
    - eapply algebraic_scalar_placed; [exact Hrr| |exact H].
      apply (chain_typed K (a :: r) a); [discriminate|exact C|exact A|exact P].
  Qed.

  (* the scan alone, from a placed state *)
  Theorem scan_scalar_placed rr fuel order (ops res : list op) index si so : keeps rr ->
    typed ops si so -> placed si so ops -> scan rr fuel order ops index = Ok res -> scalar_placed K res.
  Proof.
    intros Hrr T P H. destruct (scan_placed rr Hrr _ _ _ _ _ _ _ H T P) as [T' P'].
    eapply placed_scalar_placed; eauto.
  Qed.

  (* reduce() of a composition: the hypotheses come from the term itself *)
  Theorem reduce_comp_scalar_placed fuel order i (l : list op) e' :
    wfo (Comp i l) = true -> prims_ok (Comp i l) ->
    reduce (S fuel) order (Comp i l) = Ok e' ->
    exists ops', scalar_placed K ops' /\
      e' = match ops' with
           | [] => Ident fresh (in_struct (Comp i l))
           | [x] => x
           | _ => Comp fresh ops'
           end.
  Proof.
    intros W P H. cbn [Algebra.reduce] in H.
    apply result_bind_ok in H as (ops & Hops & H). apply result_bind_ok in H as (ops' & Halg & H).
    rewrite wfo_comp in W. apply andb_true_iff in W as [W Wa]. apply andb_true_iff in W as [Wn Wc].
    assert (Hne : l <> []) by (destruct l; [discriminate|discriminate]).
    unfold prims_ok in P. rewrite pk_comp in P.
    pose proof (chain_typed K l (Ident fresh dummy_struct) Hne Wc Wa P) as T.
    pose proof (reduce_keeps K keqb keqb_eq k1 kmul fuel order) as Hk.
    pose proof (mapM_typed K _ Hk _ _ _ _ Hops T) as T1.
    exists ops'. split.
    - eapply algebraic_scalar_placed; [exact Hk|exact T1|exact Halg].
    - destruct ops' as [|x [|y r]]; inversion H; reflexivity.
  Qed.
End Side.
